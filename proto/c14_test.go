//go:build verif

package acpi

import (
	"bytes"
	"fmt"
	"sort"
	"strings"
	"syscall"
	"testing"
	"unsafe"

	"github.com/ProjectSerenity/firefly/kernel"
	"github.com/ProjectSerenity/firefly/kernel/device/acpi/table"
	"github.com/ProjectSerenity/firefly/kernel/mm"
	"github.com/ProjectSerenity/firefly/kernel/mm/vmm"
)

func csum(b []byte) byte { var s byte; for _, x := range b { s += x }; return s }

func TestVerifC14Probe(t *testing.T) {
	r, _, e := syscall.Syscall6(syscall.SYS_MMAP, 0, 64*4096, syscall.PROT_READ|syscall.PROT_WRITE, syscall.MAP_PRIVATE|syscall.MAP_ANON|0x40, ^uintptr(0), 0)
	if e != 0 { t.Fatal(e) }
	base := r
	mem := *(*[]byte)(unsafe.Pointer(&struct{ p uintptr; l, c int }{base, 64 * 4096, 64 * 4096}))
	mapFn = func(mm.Page, mm.Frame, vmm.PageTableEntryFlag) *kernel.Error { return nil }
	unmapFn = func(mm.Page) *kernel.Error { return nil }
	identityMapFn = func(f mm.Frame, _ uintptr, _ vmm.PageTableEntryFlag) (mm.Page, *kernel.Error) { return mm.Page(f), nil }
	const winSlots = 12
	winOff := 0 // window at start of arena
	rsdpLocationLow = base + uintptr(winOff)
	rsdpLocationHi = base + uintptr(winOff) + winSlots*16 - 1
	rsdpAlignment = 16
	sizeofHdr := int(unsafe.Sizeof(table.SDTHeader{}))
	mkTable := func(off int, sig string, length int, rev byte, fill func(b []byte)) uintptr {
		b := mem[off : off+length]
		for i := range b { b[i] = byte(i*3 + 1) }
		copy(b[0:4], sig)
		*(*uint32)(unsafe.Pointer(&b[4])) = uint32(length)
		b[8] = rev
		if fill != nil { fill(b) }
		b[9] = 0
		b[9] = -csum(b)
		return base + uintptr(off)
	}
	n, viol := 0, 0
	report := func(desc, msg string) { viol++; if viol <= 10 { fmt.Printf("VIOL %s: %s\n", desc, msg) } }
	sigs := []string{"APIC", "HPET", "SSDT", "FACP"}
	type order []int
	var orders []order
	for mask := 0; mask < 16; mask++ {
		var sel []int
		for i := 0; i < 4; i++ { if mask&(1<<uint(i)) != 0 { sel = append(sel, i) } }
		if len(sel) > 3 { continue }
		// all permutations of sel
		var perm func(a []int, k int)
		perm = func(a []int, k int) {
			if k == len(a) { orders = append(orders, append(order{}, a...)); return }
			for i := k; i < len(a); i++ { a[k], a[i] = a[i], a[k]; perm(a, k+1); a[k], a[i] = a[i], a[k] }
		}
		perm(sel, 0)
	}
	for _, rev := range []byte{0, 2} {
		rsdpLen := 20
		if rev != 0 { rsdpLen = 36 }
		for slot := 0; slot*16+rsdpLen <= winSlots*16; slot++ {
			if rev != 0 && slot*16+40 > winSlots*16 { continue } // driver checksums 40 bytes
			for decoy := 0; decoy < 4; decoy++ {
				for _, ord := range orders {
					for corrupt := 0; corrupt < 1<<uint(len(ord)); corrupt++ {
						for _, dsdtCorrupt := range []bool{false, true} {
							for _, dsdtPtr := range []int{0, 1, 2} { // 0 per-revision only, 1 both, 2 other also set to garbage? keep 0/1
								if dsdtPtr == 2 { continue }
								hasFadt := false
								for _, i := range ord { if sigs[i] == "FACP" { hasFadt = true } }
								if !hasFadt && (dsdtCorrupt || dsdtPtr != 0) { continue }
								// build image
								for i := range mem[:winSlots*16] { mem[i] = 0 }
								// tables region starts at page 1
								off := 4096
								dsdt := mkTable(off, "DSDT", 64, 2, nil); off += 64
								if dsdtCorrupt { mem[off-1] ^= 0x55 }
								var addrs []uintptr
								exp := map[string]uintptr{}
								var expSkipped []string
								for k, i := range ord {
									length := sizeofHdr + 8 + 4*i
									fill := func(b []byte) {}
									if sigs[i] == "FACP" {
										length = int(unsafe.Sizeof(table.FADT{}))
										fill = func(b []byte) {
											f := (*table.FADT)(unsafe.Pointer(&b[0]))
											f.Dsdt, f.Ext.Dsdt = 0, 0
											if rev == 0 || dsdtPtr == 1 { f.Dsdt = uint32(dsdt) }
											if rev != 0 || dsdtPtr == 1 { f.Ext.Dsdt = uint64(dsdt) }
										}
									}
									a := mkTable(off, sigs[i], length, 1, fill)
									bad := corrupt&(1<<uint(k)) != 0
									if bad { mem[off+length-1] ^= 0x11; expSkipped = append(expSkipped, sigs[i]) } else {
										exp[sigs[i]] = a
										if sigs[i] == "FACP" { if dsdtCorrupt { expSkipped = append(expSkipped, "DSDT") } else { exp["DSDT"] = dsdt } }
									}
									addrs = append(addrs, a)
									off += (length + 15) &^ 15
								}
								entW := 4
								rootSig := "RSDT"
								if rev != 0 { entW = 8; rootSig = "XSDT" }
								rootLen := sizeofHdr + entW*len(addrs)
								root := mkTable(off, rootSig, rootLen, rev, func(b []byte) {
									for k, a := range addrs { if entW == 4 { *(*uint32)(unsafe.Pointer(&b[sizeofHdr+4*k])) = uint32(a) } else { *(*uint64)(unsafe.Pointer(&b[sizeofHdr+8*k])) = uint64(a) } }
								})
								// rsdp
								mkRsdp := func(slot int, good bool) {
									b := mem[slot*16 : slot*16+40]
									copy(b, "RSD PTR ")
									b[8] = 0; copy(b[9:15], "GOPHER"); b[15] = rev
									*(*uint32)(unsafe.Pointer(&b[16])) = uint32(root)
									if rev != 0 {
										*(*uint32)(unsafe.Pointer(&b[20])) = 36
										*(*uint64)(unsafe.Pointer(&b[24])) = uint64(root)
										b[32] = 0; b[33], b[34], b[35] = 0, 0, 0
										b[8] = -csum(b[:20])
										b[32] = -csum(b[:36])
									} else { b[8] = -csum(b[:20]) }
									if !good { b[9] ^= 0x40 }
								}
								// decoys in non-overlapping slots
								need := 3
								if decoy&1 != 0 && slot-need >= 0 { mkRsdp(slot-need, false) }
								if decoy&2 != 0 && (slot+need)*16+40 <= winSlots*16 { mkRsdp(slot+need, false) }
								mkRsdp(slot, true)
								n++
								desc := fmt.Sprintf("rev=%d slot=%d decoy=%d ord=%v corrupt=%b dsdtCorrupt=%v dsdtPtr=%d", rev, slot, decoy, ord, corrupt, dsdtCorrupt, dsdtPtr)
								var pan interface{}
								func() {
									defer func() { pan = recover() }()
									drv := probeForACPI()
									if drv == nil { report(desc, "probe returned nil"); return }
									d := drv.(*acpiDriver)
									if d.rsdtAddr != root || d.useXSDT != (rev != 0) { report(desc, fmt.Sprintf("root %x xsdt=%v want %x", d.rsdtAddr, d.useXSDT, root)); return }
									var w bytes.Buffer
									if err := d.DriverInit(&w); err != nil { report(desc, "init err "+err.Message); return }
									got := map[string]uintptr{}
									for k, v := range d.tableMap { got[k] = uintptr(unsafe.Pointer(v)) }
									if fmt.Sprint(got) != fmt.Sprint(exp) { report(desc, fmt.Sprintf("tableMap %v want %v", got, exp)) }
									var skipped []string
									for _, line := range strings.Split(w.String(), "\n") { if strings.Contains(line, "checksum mismatch; skipping") { skipped = append(skipped, line[:4]) } }
									sort.Strings(skipped); sort.Strings(expSkipped)
									if fmt.Sprint(skipped) != fmt.Sprint(expSkipped) { report(desc, fmt.Sprintf("skipped %v want %v", skipped, expSkipped)) }
								}()
								if pan != nil { report(desc, fmt.Sprint("panic ", pan)) }
							}
						}
					}
				}
			}
		}
	}
	// no valid pointer
	for i := range mem[:winSlots*16] { mem[i] = 0 }
	if probeForACPI() != nil { report("empty", "probe found a driver in an empty window") }
	fmt.Println("cases", n, "violations", viol)
}
