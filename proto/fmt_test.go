//go:build verif

package kfmt

import (
	"bytes"
	"fmt"
	"strconv"
	"strings"
	"testing"
)

type tok struct {
	lit   string // literal text or "%%"
	verb  byte   // 0 for literal
	width int    // -1 absent
}

func refInt(v interface{}, base, width int) (string, bool) {
	var neg bool
	var mag uint64
	switch x := v.(type) {
	case uint8: mag = uint64(x)
	case uint16: mag = uint64(x)
	case uint32: mag = uint64(x)
	case uint64: mag = x
	case uintptr: mag = uint64(x)
	case int8: if x < 0 { neg = true; mag = uint64(-int64(x)) } else { mag = uint64(x) }
	case int16: if x < 0 { neg = true; mag = uint64(-int64(x)) } else { mag = uint64(x) }
	case int32: if x < 0 { neg = true; mag = uint64(-int64(x)) } else { mag = uint64(x) }
	case int64: if x < 0 { neg = true; mag = uint64(-x) } else { mag = uint64(x) }
	case int: if x < 0 { neg = true; mag = uint64(-int64(x)) } else { mag = uint64(x) }
	default: return "", false
	}
	if width > 31 { width = 31 }
	digits := strconv.FormatUint(mag, base)
	pad := byte('0')
	if base == 10 { pad = ' ' }
	for len(digits) < width { digits = string(pad) + digits }
	if neg {
		if base == 10 && len(digits) > 0 && digits[0] == ' ' {
			// sign replaces the last pad char
			i := strings.LastIndexByte(digits, ' ')
			digits = digits[:i] + "-" + digits[i+1:]
		} else {
			digits = "-" + digits
		}
	}
	return digits, true
}

func refFmt(toks []tok, args []interface{}) string {
	var b strings.Builder
	ai := 0
	for _, t := range toks {
		if t.verb == 0 { if t.lit == "%%" { b.WriteByte('%') } else { b.WriteString(t.lit) }; continue }
		if ai >= len(args) { b.WriteString("(MISSING)"); continue }
		a := args[ai]; ai++
		w := t.width
		if w < 0 { w = 0 }
		switch t.verb {
		case 'd', 'x', 'o':
			base := map[byte]int{'d': 10, 'x': 16, 'o': 8}[t.verb]
			if s, ok := refInt(a, base, w); ok { b.WriteString(s) } else { b.WriteString("%!(WRONGTYPE)") }
		case 's':
			switch x := a.(type) {
			case string: for i := len(x); i < w; i++ { b.WriteByte(' ') }; b.WriteString(x)
			case []byte: for i := len(x); i < w; i++ { b.WriteByte(' ') }; b.Write(x)
			default: b.WriteString("%!(WRONGTYPE)")
			}
		case 't':
			if x, ok := a.(bool); ok { b.WriteString(strconv.FormatBool(x)) } else { b.WriteString("%!(WRONGTYPE)") }
		}
	}
	for ; ai < len(args); ai++ { b.WriteString("%!(EXTRA)") }
	return b.String()
}

func (t tok) String() string {
	if t.verb == 0 { return t.lit }
	if t.width < 0 { return "%" + string(t.verb) }
	return "%" + strconv.Itoa(t.width) + string(t.verb)
}

func TestVerifFmtProbe(t *testing.T) {
	widths := []int{-1, 0, 1, 5, 31, 32, 33, 1000}
	var toks []tok
	toks = append(toks, tok{lit: "a"}, tok{lit: "%%"})
	for _, v := range []byte{'d', 'x', 'o', 's'} { for _, w := range widths { toks = append(toks, tok{verb: v, width: w}) } }
	toks = append(toks, tok{verb: 't', width: -1})
	argvals := []interface{}{
		uint8(0), uint8(255), uint16(65535), uint32(1<<32 - 1), uint64(0), uint64(1<<64 - 1), uintptr(1 << 63),
		int8(-128), int8(127), int8(-1), int16(-32768), int32(-1 << 31), int64(-1 << 63), int64(1<<63 - 1), int64(-1), int(0), int(-42),
		"", "x", "hello", strings.Repeat("z", 40), []byte{}, []byte("ab"), true, false, 3.5, nil,
	}
	n, viol := 0, 0
	var buf bytes.Buffer
	run := func(ts []tok, args []interface{}) {
		n++
		f := ""
		for _, t := range ts { f += t.String() }
		buf.Reset()
		var pan interface{}
		func() { defer func() { pan = recover() }(); Fprintf(&buf, f, args...) }()
		want := refFmt(ts, args)
		if pan != nil || buf.String() != want {
			viol++
			if viol <= 10 { fmt.Printf("VIOL fmt=%q args=%#v got=%q want=%q panic=%v\n", f, args, buf.String(), want, pan) }
		}
	}
	for _, t1 := range toks {
		run([]tok{t1}, nil)
		for _, a := range argvals {
			run([]tok{t1}, []interface{}{a})
			run([]tok{t1}, []interface{}{a, a})
		}
		for _, t2 := range toks {
			for _, a := range argvals { for _, b := range []interface{}{int64(-7), "s", uint8(9)} {
				run([]tok{t1, t2}, []interface{}{a, b})
			}}
		}
	}
	fmt.Println("cases", n, "violations", viol)
}
