//go:build verif

package pmm

import (
	"fmt"
	"os"
	"sort"
	"testing"
	"unsafe"

	"github.com/ProjectSerenity/firefly/kernel"
	"github.com/ProjectSerenity/firefly/kernel/kfmt"
	"github.com/ProjectSerenity/firefly/kernel/mm"
	"github.com/ProjectSerenity/firefly/kernel/mm/vmm"
	"github.com/ProjectSerenity/firefly/kernel/multiboot"
)

type reg struct{ addr, length uint64; typ uint32 }

var infoBuf = make([]uint64, 64)

func setMap(regs []reg) {
	b := (*[512]byte)(unsafe.Pointer(&infoBuf[0]))
	le32 := func(off int, v uint32) { *(*uint32)(unsafe.Pointer(&b[off])) = v }
	n := len(regs)
	le32(8, 6); le32(12, uint32(16+24*n)); le32(16, 24); le32(20, 0)
	for i, r := range regs {
		o := 24 + 24*i
		*(*uint64)(unsafe.Pointer(&b[o])) = r.addr
		*(*uint64)(unsafe.Pointer(&b[o+8])) = r.length
		le32(o+16, r.typ)
	}
	o := 24 + 24*n
	le32(o, 0); le32(o+4, 8)
	multiboot.SetInfoPtr(uintptr(unsafe.Pointer(&infoBuf[0])))
}

var jf *os.File

type nullW struct{}
func (nullW) Write(p []byte) (int, error) { return len(p), nil }

func TestVerifC01Probe(t *testing.T) {
	kfmt.SetOutputSink(nullW{})
	jf, _ = os.Create("/var/tmp/verif-probe/pmm/journal.txt")
	backing := make([]byte, 64*4096)
	base := (uintptr(unsafe.Pointer(&backing[0])) + 4095) &^ 4095
	big := os.Getenv("PROBE_BIG") != ""
	gaps := []uint64{0, 4096, 0x800}
	frames := []uint64{0, 1, 2, 3}
	if big { frames = []uint64{1, 63, 64, 65, 128, 129}; gaps = []uint64{0, 4096} }
	skews := []uint64{0, 0x400}
	types := []uint32{1, 2}
	bases := []uint64{0, 0x1000, 0x100000}
	if big { bases = []uint64{0x100000} }
	type shape struct{ gap, frames, head, tail uint64; typ uint32 }
	var shapes []shape
	for _, g := range gaps { for _, f := range frames { for _, h := range skews { for _, tl := range skews { for _, ty := range types {
		if big && (h != 0 || tl != 0 && f != 65) { continue }
		shapes = append(shapes, shape{g, f, h, tl, ty})
	}}}}}
	configs, initOK, initOOM, panics, viol, states, trans := 0, 0, 0, 0, 0, 0, 0
	examples := map[string]string{}
	report := func(kind, desc string) { viol++; if _, ok := examples[kind]; !ok { examples[kind] = desc } }
	check := func(regs []reg) {
		usableAll := map[uint64]bool{}
		var avail [][2]uint64
		for _, r := range regs {
			if r.typ != 1 { continue }
			s := (r.addr + 4095) / 4096
			e := (r.addr + r.length) / 4096
			if e > s { avail = append(avail, [2]uint64{s, e}) }
			for f := s; f < e; f++ { usableAll[f] = true }
		}
		for _, ar := range avail {
			placements := [][2]uint64{{ar[0], 1}, {ar[1] - 1, 1}, {ar[0], ar[1] - ar[0]}}
			if ar[1]-ar[0] >= 3 { placements = append(placements, [2]uint64{ar[0] + 1, 1}) }
			seenPl := map[[2]uint64]bool{}
			for _, pl := range placements {
				if seenPl[pl] { continue }; seenPl[pl] = true
				ks, kl := pl[0], pl[1]
				for _, extra := range []int{0, 1, 2} {
					configs++
					desc := fmt.Sprintf("%+v kernel=[%d,%d) extra=%d", regs, ks, ks+kl, extra)
					if jf != nil { jf.Seek(0, 0); jf.Truncate(0); fmt.Fprintln(jf, desc) }
					setMap(regs)
					bootMemAllocator = BootMemAllocator{}
					bitmapAllocator = BitmapAllocator{}
					for i := range backing { backing[i] = 0x77 }
					early := map[uint64]bool{}
					reserveRegionFn = func(sz uintptr) (uintptr, *kernel.Error) { if sz > uintptr(len(backing))-4096 { panic("backing too small") }; return base, nil }
					mapFn = func(p mm.Page, f mm.Frame, fl vmm.PageTableEntryFlag) *kernel.Error {
						early[uint64(f)] = true
						for i := 0; i < extra; i++ { if ef, err := mm.AllocFrame(); err == nil { early[uint64(ef)] = true } }
						return nil
					}
					var pan interface{}
					var ierr *kernel.Error
					func() { defer func() { pan = recover() }(); ierr = Init(uintptr(ks*4096), uintptr((ks+kl)*4096-0x10)) }()
					if pan != nil { panics++; report("C03 init panic", desc+": "+fmt.Sprint(pan)); continue }
					if ierr != nil {
						if ierr != errBootAllocOutOfMemory { report("C03 init error kind", desc) }
						initOOM++; continue
					}
					initOK++
					usable := map[uint64]bool{}
					for f := range usableAll { if !(f >= ks && f < ks+kl) && !early[f] { usable[f] = true } }
					alloc := &bitmapAllocator
					// accounting at init
					totalFrames := 0
					for _, p := range alloc.pools { totalFrames += int(p.endFrame - p.startFrame + 1) }
					if int(alloc.totalPages) != totalFrames || totalFrames != len(usableAll) { report("C03 totalPages", fmt.Sprintf("%s: totalPages=%d poolFrames=%d usableAll=%d", desc, alloc.totalPages, totalFrames, len(usableAll))) }
					if int(alloc.totalPages-alloc.reservedPages) != len(usable) { report("C03 free count at init", fmt.Sprintf("%s: free=%d want %d", desc, alloc.totalPages-alloc.reservedPages, len(usable))) }
					// BFS over held sets
					lo, hi := ^uint64(0), uint64(0)
					for f := range usableAll { if f < lo { lo = f }; if f > hi { hi = f } }
					var probeFrames []uint64
					if big {
						for _, ar := range avail { for _, d := range []uint64{0, 1, 62, 63, 64, 65, 127, 128} { if ar[0]+d < ar[1] { probeFrames = append(probeFrames, ar[0]+d) } }; probeFrames = append(probeFrames, ar[1]-1, ar[1]) }
					} else { for f := lo; f <= hi+1; f++ { probeFrames = append(probeFrames, f) }; if lo > 0 { probeFrames = append(probeFrames, lo-1) } }
					{
						var pf2 []uint64
						for _, f := range probeFrames { if (f >= ks && f < ks+kl) || early[f] { continue }; pf2 = append(pf2, f) }
						probeFrames = pf2
					}
					type snap struct{ mem []byte; fc []uint32; rp uint32; held map[uint64]bool }
					take := func(held map[uint64]bool) snap {
						s := snap{mem: append([]byte(nil), backing...), rp: alloc.reservedPages, held: map[uint64]bool{}}
						for _, p := range alloc.pools { s.fc = append(s.fc, p.freeCount) }
						for k := range held { s.held[k] = true }
						return s
					}
					restore := func(s snap) { copy(backing, s.mem); alloc.reservedPages = s.rp; for i := range alloc.pools { alloc.pools[i].freeCount = s.fc[i] } }
					key := func(s snap) string { hk := make([]int, 0); for k := range s.held { hk = append(hk, int(k)) }; sort.Ints(hk); return fmt.Sprint(hk) }
					if big {
						// drain
						held := map[uint64]bool{}
						for {
							f, err := alloc.AllocFrame()
							if err != nil { break }
							if !usable[uint64(f)] || held[uint64(f)] { report("C01 bad frame", fmt.Sprintf("%s: frame %d", desc, f)); break }
							held[uint64(f)] = true
							trans++
						}
						if len(held) != len(usable) { report("C03 completeness", fmt.Sprintf("%s: drained %d want %d", desc, len(held), len(usable))) }
						for _, f := range probeFrames {
							var p2 interface{}
							var err *kernel.Error
							func() { defer func() { p2 = recover() }(); err = alloc.FreeFrame(mm.Frame(f)) }()
							trans++
							if p2 != nil { report("C03 free panic", fmt.Sprintf("%s: free %d: %v", desc, f, p2)); alloc.mutex.Release(); continue }
							if held[f] != (err == nil) { report("C03 free contract", fmt.Sprintf("%s: free %d err=%v held=%v", desc, f, err, held[f])) }
							if err == nil { delete(held, f); g, e2 := alloc.AllocFrame(); if e2 != nil || uint64(g) != f { report("C03 realloc", desc) } else { held[f] = true } }
						}
						continue
					}
					init := take(map[uint64]bool{})
					seen := map[string]bool{key(init): true}
					frontier := []snap{init}
					for len(frontier) > 0 {
						st := frontier[0]; frontier = frontier[1:]
						states++
						// alloc
						restore(st)
						f, err := alloc.AllocFrame()
						trans++
						if err != nil {
							if len(st.held) != len(usable) { report("C03 early OOM", fmt.Sprintf("%s: held=%d usable=%d", desc, len(st.held), len(usable))) }
						} else {
							if !usable[uint64(f)] { report("C01 frame not usable", fmt.Sprintf("%s: got %d", desc, f)) } else if st.held[uint64(f)] { report("C01 duplicate", fmt.Sprintf("%s: got %d twice", desc, f)) } else {
								nh := map[uint64]bool{uint64(f): true}; for k := range st.held { nh[k] = true }
								ns := take(nh)
								if int(alloc.totalPages-alloc.reservedPages) != len(usable)-len(nh) { report("C03 counters", desc) }
								if k := key(ns); !seen[k] { seen[k] = true; frontier = append(frontier, ns) }
							}
						}
						for _, pf := range probeFrames {
							restore(st)
							var p2 interface{}
							var ferr *kernel.Error
							func() { defer func() { p2 = recover() }(); ferr = alloc.FreeFrame(mm.Frame(pf)) }()
							trans++
							if p2 != nil { report("C03 free panic", fmt.Sprintf("%s: free %d: %v", desc, pf, p2)); alloc.mutex.Release(); continue }
							if st.held[pf] {
								if ferr != nil { report("C03 free of held frame failed", desc); continue }
								nh := map[uint64]bool{}; for k := range st.held { if k != pf { nh[k] = true } }
								ns := take(nh)
								if k := key(ns); !seen[k] { seen[k] = true; frontier = append(frontier, ns) }
							} else {
								if ferr == nil { report("C03 bad free accepted", fmt.Sprintf("%s: free %d", desc, pf)); continue }
								managed := usableAll[pf]
								if managed && ferr != errBitmapAllocDoubleFree && !(pf >= ks && pf < ks+kl) && !early[pf] { report("C03 free error kind", desc) }
								if !managed && ferr != errBitmapAllocFrameNotManaged { report("C03 free error kind", desc) }
								after := take(st.held)
								if string(after.mem) != string(st.mem) || after.rp != st.rp { report("C03 rejected free changed state", desc) }
							}
						}
					}
				}
			}
		}
	}
	var rec func(regs []reg, cur uint64, depth int)
	maxDepth := 2
	rec = func(regs []reg, cur uint64, depth int) {
		if depth > 0 { check(regs) }
		if depth == maxDepth { return }
		for _, sh := range shapes {
			start := cur + sh.gap + sh.head
			var length uint64
			if sh.frames == 0 { length = 0x300 } else { length = sh.frames*4096 + sh.tail; if sh.head != 0 { length += 4096 - sh.head } }
			nr := append(append([]reg{}, regs...), reg{start, length, sh.typ})
			rec(nr, (start+length+4095)&^4095, depth+1)
		}
	}
	for _, b := range bases { rec(nil, b, 0) }
	fmt.Printf("configs=%d initOK=%d initOOM=%d panics=%d states=%d transitions=%d violations=%d\n", configs, initOK, initOOM, panics, states, trans, viol)
	keys := make([]string, 0); for k := range examples { keys = append(keys, k) }; sort.Strings(keys)
	for _, k := range keys { fmt.Printf("  %s: %s\n", k, examples[k]) }
}
