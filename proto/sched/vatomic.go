// Package atomic is the verif shim for sync/atomic used by kernel/sync.
package atomic

import (
	"unsafe"

	vs "github.com/ProjectSerenity/firefly/kernel/internal/verifsched"
)

var opCount uint64

func SwapUint32(p *uint32, v uint32) uint32 {
	opCount++
	vs.Step(0x5000 + uint64(*p)) // local key: op kind + observed value (deterministic Go code between hooks)
	vs.SyncOp(uintptr(unsafe.Pointer(p)))
	old := *p
	if old != v { vs.Wrote() }
	*p = v
	return old
}

func StoreUint32(p *uint32, v uint32) {
	vs.Step(0x6000)
	vs.SyncOp(uintptr(unsafe.Pointer(p)))
	if *p != v { vs.Wrote() }
	*p = v
}
