// Package sync provides synchronization primitive implementations for spinlocks
// and semaphore.
package sync

import "github.com/ProjectSerenity/firefly/kernel/sync/vatomic"

var (
	// TODO: replace with real yield function when context-switching is implemented.
	yieldFn func()
)

// Spinlock implements a lock where each task trying to acquire it busy-waits
// till the lock becomes available.
type Spinlock struct {
	state uint32
}

// Acquire blocks until the lock can be acquired by the currently active task.
// Any attempt to re-acquire a lock already held by the current task will cause
// a deadlock.
func (l *Spinlock) Acquire() {
	archAcquireSpinlock(&l.state, 1)
}

// TryToAcquire attempts to acquire the lock and returns true if the lock could
// be acquired or false otherwise.
func (l *Spinlock) TryToAcquire() bool {
	return atomic.SwapUint32(&l.state, 1) == 0
}

// Release relinquishes a held lock allowing other tasks to acquire it. Calling
// Release while the lock is free has no effect.
func (l *Spinlock) Release() {
	atomic.StoreUint32(&l.state, 0)
}

// archAcquireSpinlock is an arch-specific implementation for acquiring the lock.
