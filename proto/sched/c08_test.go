//go:build verif

package sync

import (
	"fmt"
	"os"
	"testing"
	"unsafe"

	vs "github.com/ProjectSerenity/firefly/kernel/internal/verifsched"
)

type world struct {
	l        Spinlock
	holders  int
	shared   int
	done     int
	maxHold  int
	tryLies  string
}

func (w *world) cs() {
	w.holders++
	if w.holders > w.maxHold { w.maxHold = w.holders }
	vs.Access(uintptr(unsafe.Pointer(&w.shared)), false)
	v := w.shared
	vs.Step(0x7000)
	vs.Access(uintptr(unsafe.Pointer(&w.shared)), true)
	w.shared = v + 1
	w.done++
	w.holders--
}

func prog(w *world, ops string) func() {
	return func() {
		for i, o := range ops {
			vs.Progress(i + 1)
			switch o {
			case 'A':
				w.l.Acquire(); w.cs(); w.l.Release()
			case 'T':
				if w.l.TryToAcquire() { w.cs(); w.l.Release() }
			}
		}
		vs.Progress(99)
	}
}

func TestVerifC08Probe(t *testing.T) {
	configs := [][]string{{"A", "A"}, {"A", "T"}, {"AA", "A"}, {"AT", "TA"}, {"A", "A", "A"}, {"A", "T", "A"}, {"AA", "AT", "T"}}
	for _, yf := range []string{"nil", "yield"} {
		for _, cfg := range configs {
			for _, bound := range []int{3, -1} {
				if yf == "yield" { yieldFn = func() { vs.Step(0x8000) } } else { yieldFn = nil }
				w := &world{}
				mk := func() []func() {
					*w = world{}
					var bs []func()
					for _, p := range cfg { bs = append(bs, prog(w, p)) }
					return bs
				}
				s := &vs.Sched{}
				s.StateFn = func() string { return fmt.Sprintf("%d,%d,%d,%d", w.l.state, w.holders, w.shared, w.done) }
				if bound < 0 { s.Visited = map[string]bool{} }
				s.Monitor = func() string { if w.holders > 1 { return "mutual exclusion violated: 2 holders" }; return "" }
				st := &vs.Stats{}
				outcomes := map[string]int{}
				vs.Explore(mk, bound, s, func(x *vs.Exec) string {
					outcomes[fmt.Sprintf("shared=%d done=%d", w.shared, w.done)]++
					if w.shared != w.done { return fmt.Sprintf("lost update: shared=%d done=%d", w.shared, w.done) }
					if w.l.state != 0 { return "lock left held" }
					return ""
				}, st)
				states := 0
				if s.Visited != nil { states = len(s.Visited) }
				fmt.Printf("yield=%-5s cfg=%-12v bound=%2d: executions=%6d steps=%8d pruned=%6d states=%6d maxpoints=%3d outcomes=%v violations=%v\n", yf, cfg, bound, st.Executions, st.Steps, st.Pruned, states, st.MaxPoints, outcomes, st.Violations)
				if len(st.Violations) > 0 && os.Getenv("PROBE_STOP") != "" { return }
			}
		}
	}
}
