//go:build verif

package pmm

import (
	"fmt"
	"testing"

	"github.com/ProjectSerenity/firefly/kernel"
	vs "github.com/ProjectSerenity/firefly/kernel/internal/verifsched"
	"github.com/ProjectSerenity/firefly/kernel/mm"
)

type res struct{ op byte; frame mm.Frame; err *kernel.Error }

func TestVerifC09Probe(t *testing.T) {
	type cfg struct{ pools []int; progs []string }
	cfgs := []cfg{
		{[]int{1}, []string{"a", "a"}},
		{[]int{2}, []string{"af", "af"}},
		{[]int{1, 2}, []string{"aa", "af", "a"}},
		{[]int{2}, []string{"af", "a", "a"}},
		{[]int{1}, []string{"afa", "afa"}},
	}
	for _, c := range cfgs {
		for _, bound := range []int{2, -1} {
			var alloc BitmapAllocator
			bitmaps := make([][]uint64, len(c.pools))
			for i := range bitmaps { bitmaps[i] = make([]uint64, 1) }
			var results [][]res
			owner := map[mm.Frame]int{}
			dup := ""
			total := 0
			mk := func() []func() {
				alloc = BitmapAllocator{}
				alloc.pools = nil
				start := mm.Frame(0)
				total = 0
				for i, n := range c.pools {
					bitmaps[i][0] = ^uint64(0) >> uint(n) // top n bits clear (free), rest set (padding/reserved)
					alloc.pools = append(alloc.pools, framePool{startFrame: start, endFrame: start + mm.Frame(n) - 1, freeCount: uint32(n), freeBitmap: bitmaps[i]})
					start += mm.Frame(n) + 10
					total += n
				}
				alloc.totalPages = uint32(total)
				results = make([][]res, len(c.progs))
				owner = map[mm.Frame]int{}
				dup = ""
				var bs []func()
				for ti, p := range c.progs {
					ti, p := ti, p
					bs = append(bs, func() {
						var mine []mm.Frame
						for i, o := range p {
							vs.Progress(i + 1)
							switch o {
							case 'a':
								f, err := alloc.AllocFrame()
								if err == nil {
									if prev, held := owner[f]; held { dup = fmt.Sprintf("frame %d handed to T%d while held by T%d", f, ti, prev) }
									owner[f] = ti
									mine = append(mine, f)
								}
								results[ti] = append(results[ti], res{'a', f, err})
							case 'f':
								if len(mine) == 0 { continue }
								f := mine[len(mine)-1]; mine = mine[:len(mine)-1]
								delete(owner, f)
								err := alloc.FreeFrame(f)
								results[ti] = append(results[ti], res{'f', f, err})
							}
						}
						vs.Progress(99)
					})
				}
				return bs
			}
			s := &vs.Sched{}
			s.StateFn = func() string { return fmt.Sprintf("%v %d %v %v", bitmaps, alloc.reservedPages, alloc.mutex, len(owner)) }
			if bound < 0 { s.Visited = map[string]bool{} }
			s.Monitor = func() string { return dup }
			st := &vs.Stats{}
			outcomes := map[string]int{}
			vs.Explore(mk, bound, s, func(x *vs.Exec) string {
				outcomes[fmt.Sprint(results)]++
				held := len(owner)
				if int(alloc.reservedPages) != held { return fmt.Sprintf("reservedPages=%d but %d frames held", alloc.reservedPages, held) }
				free := 0
				for _, p := range alloc.pools { free += int(p.freeCount) }
				if free != total-held { return "freeCount mismatch" }
				// drain
				got := 0
				for { if _, err := alloc.AllocFrame(); err != nil { break }; got++ }
				if got != total-held { return fmt.Sprintf("drain recovered %d want %d", got, total-held) }
				return ""
			}, st)
			states := 0
			if s.Visited != nil { states = len(s.Visited) }
			fmt.Printf("pools=%v progs=%v bound=%2d: executions=%6d steps=%8d states=%6d distinct-outcomes=%d violations=%v\n", c.pools, c.progs, bound, st.Executions, st.Steps, states, len(outcomes), st.Violations)
		}
	}
}
