#include "textflag.h"

TEXT ·archAcquireSpinlock(SB),NOSPLIT,$0-12
	MOVQ state+0(FP), AX
	MOVL attemptsBeforeYielding+8(FP), CX

try_acquire:
	MOVL 0(AX), BX
	MOVL $1, 0(AX)
	TESTL BX, BX
	JNZ spin

	// Lock succesfully acquired 
	RET

spin:
	// Send hint to the CPU that we are in a spinlock loop
	PAUSE

	// Do a dirty read to check the state and try to acquire the lock 
	// once we detect it is free 
	MOVL 0(AX), BX
	TESTL BX, BX
	JZ try_acquire

	// Keep retrying till we exceed attemptsBeforeYielding; this allows us 
	// to grab the lock if a task on another CPU releases the lock while we 
	// spin.
	DECL CX
	JNZ spin

	// Yield (if yieldFn is set) and spin again
	MOVQ ·yieldFn+0(SB), AX
	TESTQ AX, AX
	JZ replenish_attempt_counter
	CALL 0(AX)

replenish_attempt_counter:
	MOVQ state+0(FP), AX
	MOVL attemptsBeforeYielding+8(FP), CX
	JMP spin
