package sync

import (
	"io/ioutil"
	"os"
	"unsafe"

	vs "github.com/ProjectSerenity/firefly/kernel/internal/verifsched"
)

var verifProg *vs.Program

func init() {
	src, err := ioutil.ReadFile(os.Getenv("VERIF_SPINLOCK_ASM"))
	if err != nil { panic(err) }
	verifProg = vs.ParseAsm(string(src), "archAcquireSpinlock")
}

func archAcquireSpinlock(state *uint32, attemptsBeforeYielding uint32) {
	var frame [16]byte
	*(*uintptr)(unsafe.Pointer(&frame[0])) = uintptr(unsafe.Pointer(state))
	*(*uint32)(unsafe.Pointer(&frame[8])) = attemptsBeforeYielding
	verifProg.Run(frame[:], map[string]uintptr{"yieldFn": uintptr(unsafe.Pointer(&yieldFn))})
}
