//go:build verif

package vmm

import (
	"fmt"
	"runtime/debug"
	"syscall"
	"testing"
	"unsafe"
)

func memfdCreate(name string) (int, error) {
	b := append([]byte(name), 0)
	fd, _, e := syscall.Syscall(319, uintptr(unsafe.Pointer(&b[0])), 0, 0)
	if e != 0 { return -1, e }
	return int(fd), nil
}

func mmapAt(addr uintptr, length int, prot, flags int, fd int, off int64) (uintptr, error) {
	r, _, e := syscall.Syscall6(syscall.SYS_MMAP, addr, uintptr(length), uintptr(prot), uintptr(flags), uintptr(fd), uintptr(off))
	if e != 0 { return 0, e }
	return r, nil
}

func TestVerifAliasProbe(t *testing.T) {
	fd, err := memfdCreate("verif-ram")
	if err != nil { t.Fatal(err) }
	if err := syscall.Ftruncate(fd, 16*4096); err != nil { t.Fatal(err) }
	phys, err := mmapAt(0, 16*4096, syscall.PROT_READ|syscall.PROT_WRITE, syscall.MAP_SHARED, fd, 0)
	if err != nil { t.Fatal(err) }
	// reserve windows at hinted addresses with distinct P4/P3 indices
	for _, hint := range []uintptr{0x10000000000, 0x20000000000, 0x10040000000} {
		win, err := mmapAt(hint, 4*4096, syscall.PROT_NONE, syscall.MAP_PRIVATE|syscall.MAP_ANON|0x100000 /*MAP_FIXED_NOREPLACE*/, -1, 0)
		fmt.Printf("hint %x -> %x err=%v p4=%d p3=%d\n", hint, win, err, (win>>39)&511, (win>>30)&511)
		if err != nil { continue }
		// alias page 1 of window to frame 3
		v, err := mmapAt(win+4096, 4096, syscall.PROT_READ, syscall.MAP_SHARED|syscall.MAP_FIXED, fd, 3*4096)
		if err != nil { t.Fatal(err) }
		*(*uint64)(unsafe.Pointer(phys + 3*4096 + 8)) = 0xfeedface + uint64(hint)
		fmt.Printf("  alias read: %x\n", *(*uint64)(unsafe.Pointer(v + 8)))
		// remap alias to frame 5
		*(*uint64)(unsafe.Pointer(phys + 5*4096 + 8)) = 0x5555
		v, _ = mmapAt(win+4096, 4096, syscall.PROT_READ, syscall.MAP_SHARED|syscall.MAP_FIXED, fd, 5*4096)
		fmt.Printf("  after remap: %x\n", *(*uint64)(unsafe.Pointer(v + 8)))
		// guard fault
		debug.SetPanicOnFault(true)
		func() {
			defer func() { fmt.Println("  guard fault recovered:", recover() != nil) }()
			_ = *(*uint64)(unsafe.Pointer(win))
		}()
	}
	// MAP_32BIT
	lo, err := mmapAt(0, 8*4096, syscall.PROT_READ|syscall.PROT_WRITE, syscall.MAP_PRIVATE|syscall.MAP_ANON|0x40, -1, 0)
	fmt.Printf("MAP_32BIT -> %x err=%v\n", lo, err)
}
