//go:build verif

package tty

import (
	"fmt"
	"image/color"
	"testing"

	"github.com/ProjectSerenity/firefly/kernel/device/video/console"
)

// grid console: reference console (cells)
type gridCons struct {
	w, h  uint32
	cells []cell
	oob   int
}
type cell struct{ ch, fg, bg uint8 }

func newGrid(w, h uint32) *gridCons {
	g := &gridCons{w: w, h: h, cells: make([]cell, w*h)}
	for i := range g.cells { g.cells[i] = cell{0, 0, 0} } // distinct from blank
	return g
}
func (g *gridCons) Dimensions(console.Dimension) (uint32, uint32) { return g.w, g.h }
func (g *gridCons) DefaultColors() (uint8, uint8)                 { return 7, 0 }
func (g *gridCons) Fill(x, y, w, h uint32, fg, bg uint8) {
	for yy := y; yy < y+h; yy++ { for xx := x; xx < x+w; xx++ {
		if xx < 1 || xx > g.w || yy < 1 || yy > g.h { g.oob++; continue }
		g.cells[(yy-1)*g.w+xx-1] = cell{' ', fg, bg}
	}}
}
func (g *gridCons) Scroll(dir console.ScrollDir, lines uint32) {
	if lines == 0 || lines > g.h { return }
	if dir == console.ScrollDirUp { copy(g.cells, g.cells[lines*g.w:]) } else { g.oob++ }
}
func (g *gridCons) Write(ch byte, fg, bg uint8, x, y uint32) {
	if x < 1 || x > g.w || y < 1 || y > g.h { g.oob++; return }
	g.cells[(y-1)*g.w+x-1] = cell{ch, fg, bg}
}
func (g *gridCons) Palette() color.Palette              { return nil }
func (g *gridCons) SetPaletteColor(uint8, color.RGBA) {}

// reference terminal
type refT struct {
	w, h, sb uint32
	tab      uint8
	buf      []cell // w*(h+sb)
	cx, cy   uint32
	vy       uint32
	active   bool
}

func newRef(w, h, sb uint32, tab uint8) *refT {
	r := &refT{w: w, h: h, sb: sb, tab: tab, cx: 1, cy: 1, buf: make([]cell, w*(h+sb))}
	for i := range r.buf { r.buf[i] = cell{' ', 7, 0} }
	return r
}
func (r *refT) put(b byte, adv bool) {
	r.buf[(r.vy+r.cy-1)*r.w+r.cx-1] = cell{b, 7, 0}
	if adv { r.cx++; if r.cx > r.w { r.lf() } }
}
func (r *refT) lf() {
	r.cx = 1
	if r.cy < r.h { r.cy++; return }
	if r.vy+r.h < r.h+r.sb { r.vy++; return }
	// scroll viewport lines up by one
	for y := r.vy; y < r.vy+r.h-1; y++ { copy(r.buf[y*r.w:(y+1)*r.w], r.buf[(y+1)*r.w:(y+2)*r.w]) }
	for x := uint32(0); x < r.w; x++ { r.buf[(r.vy+r.h-1)*r.w+x] = cell{' ', 7, 0} }
}
func (r *refT) write(b byte) {
	switch b {
	case '\r': r.cx = 1
	case '\n': r.lf()
	case '\b': if r.cx > 1 { r.cx--; r.put(' ', false) }
	case '\t': for i := uint8(0); i < r.tab; i++ { r.put(' ', true) }
	default: r.put(b, true)
	}
}
func (r *refT) setCursor(x, y uint32) {
	if x < 1 { x = 1 } else if x > r.w { x = r.w }
	if y < 1 { y = 1 } else if y > r.h { y = r.h }
	r.cx, r.cy = x, y
}
func (r *refT) clone() *refT { c := *r; c.buf = append([]cell(nil), r.buf...); return &c }

type vtState struct {
	vt   VT
	cons *gridCons
	ref  *refT
	hist string
}

func (s *vtState) clone() *vtState {
	n := &vtState{vt: s.vt, ref: s.ref.clone(), hist: s.hist}
	n.vt.data = append([]uint8(nil), s.vt.data...)
	g := *s.cons
	g.cells = append([]cell(nil), s.cons.cells...)
	n.cons = &g
	n.vt.cons = n.cons
	return n
}
func (s *vtState) key() string {
	return fmt.Sprintf("%v|%d,%d,%d,%d|%v", s.vt.data, s.vt.cursorX, s.vt.cursorY, s.vt.viewportY, s.vt.state, s.cons.cells)
}

func TestVerifVTProbe(t *testing.T) {
	totalStates, totalTrans, viol := 0, 0, 0
	for w := uint32(1); w <= 3; w++ { for h := uint32(1); h <= 3; h++ { for sb := uint32(0); sb <= 2; sb++ { for _, tab := range []uint8{0, 1, 2, 5} {
		if w*(h+sb) > 9 { continue }
		init := &vtState{cons: newGrid(w, h), ref: newRef(w, h, sb, tab)}
		init.vt = *NewVT(tab, sb)
		init.vt.AttachTo(init.cons)
		seen := map[string]bool{init.key(): true}
		frontier := []*vtState{init}
		type ev struct{ name string; f func(s *vtState) }
		var evs []ev
		for _, b := range []byte{'a', '\r', '\n', '\b', '\t'} {
			b := b
			evs = append(evs, ev{fmt.Sprintf("w%q", b), func(s *vtState) { s.vt.WriteByte(b); s.ref.write(b) }})
		}
		for _, x := range []uint32{0, 1, w, w + 1, 1<<32 - 1} { for _, y := range []uint32{0, 1, h, h + 1, 1<<32 - 1} {
			x, y := x, y
			evs = append(evs, ev{fmt.Sprintf("c%d,%d", x, y), func(s *vtState) { s.vt.SetCursorPosition(x, y); s.ref.setCursor(x, y) }})
		}}
		evs = append(evs, ev{"act", func(s *vtState) { s.vt.SetState(StateActive); s.ref.active = true }})
		evs = append(evs, ev{"inact", func(s *vtState) { s.vt.SetState(StateInactive); s.ref.active = false }})
		for len(frontier) > 0 {
			st := frontier[0]; frontier = frontier[1:]
			for _, e := range evs {
				n := st.clone()
				n.hist += " " + e.name
				var pan interface{}
				before := append([]cell(nil), n.cons.cells...)
				func() { defer func() { pan = recover() }(); e.f(n) }()
				totalTrans++
				bad := ""
				if pan != nil { bad = fmt.Sprint("panic ", pan) }
				if bad == "" {
					if n.vt.cursorX != n.ref.cx || n.vt.cursorY != n.ref.cy || n.vt.viewportY != n.ref.vy { bad = fmt.Sprintf("cursor vt=(%d,%d,vy%d) ref=(%d,%d,vy%d)", n.vt.cursorX, n.vt.cursorY, n.vt.viewportY, n.ref.cx, n.ref.cy, n.ref.vy) }
					for i, c := range n.ref.buf { if n.vt.data[3*i] != c.ch || n.vt.data[3*i+1] != c.fg || n.vt.data[3*i+2] != c.bg { bad = fmt.Sprintf("cell %d vt=%q ref=%q", i, n.vt.data[3*i], c.ch); break } }
					if n.vt.cursorX < 1 || n.vt.cursorX > w || n.vt.cursorY < 1 || n.vt.cursorY > h { bad = "cursor outside" }
					// C18 with grid console
					if n.vt.state == StateActive {
						for y := uint32(0); y < h; y++ { for x := uint32(0); x < w; x++ {
							c := n.ref.buf[(n.ref.vy+y)*w+x]
							if n.cons.cells[y*w+x] != c { bad = fmt.Sprintf("console cell (%d,%d)=%v want %v", x+1, y+1, n.cons.cells[y*w+x], c) }
						}}
					} else if e.name != "inact" {
						for i := range before { if before[i] != n.cons.cells[i] { bad = "console touched while inactive" } }
					}
					if n.cons.oob != 0 { bad = "console op outside grid" }
				}
				if bad != "" { viol++; if viol <= 8 { fmt.Printf("VIOL w=%d h=%d sb=%d tab=%d hist=[%s]: %s\n", w, h, sb, tab, n.hist, bad) }; continue }
				k := n.key()
				if !seen[k] { seen[k] = true; frontier = append(frontier, n) }
			}
		}
		totalStates += len(seen)
	}}}}
	fmt.Println("states", totalStates, "transitions", totalTrans, "violations", viol)
}
