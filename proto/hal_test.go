//go:build verif

package hal

import (
	"bytes"
	"fmt"
	"image/color"
	"io"
	"io/ioutil"
	"testing"
	"unsafe"

	"github.com/ProjectSerenity/firefly/kernel"
	"github.com/ProjectSerenity/firefly/kernel/device"
	"github.com/ProjectSerenity/firefly/kernel/device/tty"
	"github.com/ProjectSerenity/firefly/kernel/device/video/console"
	"github.com/ProjectSerenity/firefly/kernel/kfmt"
	"github.com/ProjectSerenity/firefly/kernel/multiboot"
)

type mockCons struct{ id int; log *[]string; fail bool }
func (c *mockCons) Dimensions(console.Dimension) (uint32, uint32) { return 4, 2 }
func (c *mockCons) DefaultColors() (uint8, uint8) { return 7, 0 }
func (c *mockCons) Fill(x, y, w, h uint32, fg, bg uint8) {}
func (c *mockCons) Scroll(console.ScrollDir, uint32) {}
func (c *mockCons) Write(ch byte, fg, bg uint8, x, y uint32) {}
func (c *mockCons) Palette() color.Palette { return nil }
func (c *mockCons) SetPaletteColor(uint8, color.RGBA) {}
func (c *mockCons) DriverName() string { return fmt.Sprintf("cons%d", c.id) }
func (c *mockCons) DriverVersion() (uint16, uint16, uint16) { return 0, 0, 1 }
func (c *mockCons) DriverInit(w io.Writer) *kernel.Error {
	*c.log = append(*c.log, "init "+c.DriverName())
	if c.fail { return &kernel.Error{Module: "mock", Message: "boom"} }
	return nil
}

type recTTY struct{ id int; log *[]string; buf bytes.Buffer; cons console.Device; state tty.State }
func (t *recTTY) Write(p []byte) (int, error) { return t.buf.Write(p) }
func (t *recTTY) WriteByte(b byte) error { return t.buf.WriteByte(b) }
func (t *recTTY) AttachTo(c console.Device) { t.cons = c }
func (t *recTTY) State() tty.State { return t.state }
func (t *recTTY) SetState(s tty.State) { t.state = s }
func (t *recTTY) CursorPosition() (uint32, uint32) { return 1, 1 }
func (t *recTTY) SetCursorPosition(x, y uint32) {}
func (t *recTTY) DriverName() string { return fmt.Sprintf("tty%d", t.id) }
func (t *recTTY) DriverVersion() (uint16, uint16, uint16) { return 0, 0, 1 }
func (t *recTTY) DriverInit(w io.Writer) *kernel.Error { *t.log = append(*t.log, "init "+t.DriverName()); return nil }

func TestVerifHalProbe(t *testing.T) {
	// minimal multiboot block (no tags)
	blk := make([]uint64, 4)
	*(*uint32)(unsafe.Pointer(&blk[0])) = 16
	*(*uint32)(unsafe.Pointer(uintptr(unsafe.Pointer(&blk[1])) + 4)) = 8
	multiboot.SetInfoPtr(uintptr(unsafe.Pointer(&blk[0])))

	var log []string
	c1 := &mockCons{id: 1, log: &log, fail: true}
	c2 := &mockCons{id: 2, log: &log}
	t1 := &recTTY{id: 1, log: &log}
	mk := func(order device.DetectOrder, d device.Driver) *device.DriverInfo {
		return &device.DriverInfo{Order: order, Probe: func() device.Driver { log = append(log, "probe "+d.DriverName()); return d }}
	}
	old := device.VerifSetDrivers(device.DriverInfoList{mk(127, t1), mk(0, c2), mk(-128, c1)})
	defer device.VerifSetDrivers(old)
	// reset
	devices = managedDevices{}
	kfmt.SetOutputSink(nil)
	io.Copy(ioutil.Discard, kfmt.GetOutputSink().(io.Reader))
	kfmt.Printf("early-log-1\n")
	DetectHardware()
	kfmt.Printf("late\n")
	fmt.Println("calls:", log)
	fmt.Println("activeTTY:", ActiveTTY() == tty.Device(t1), "cons:", devices.activeConsole == console.Device(c2), "state:", t1.state, "attached:", t1.cons == console.Device(c2))
	fmt.Printf("tty received: %q\n", t1.buf.String())
}
