//go:build verif

package aml

import (
	"fmt"
	"os"
	"runtime/debug"
	"sort"
	"strings"
	"testing"
)

func TestVerifAMLIllProbe(t *testing.T) {
	debug.SetMaxStack(64 << 20)
	journal, _ = os.Create("/var/tmp/verif-probe/journal.txt")
	skipHex := map[string]bool{}
	for _, h := range strings.Fields(os.Getenv("PROBE_SKIP")) { skipHex[h] = true }
	I := func(v uint64) *N { return &N{K: "Int", I: v} }
	mk := func(kind, name string) *N {
		switch kind {
		case "Name": return &N{K: "Name", Name: name, C: []*N{I(1)}}
		case "Method": return &N{K: "Method", Name: name, I: 1, C: []*N{{K: "Return", C: []*N{{K: "Arg", I: 0}}}}}
		case "Mutex": return &N{K: "Mutex", Name: name, I: 1}
		case "OpRegion": return &N{K: "OpRegion", Name: name, C: []*N{I(0x30), I(4)}}
		case "Scope": return &N{K: "Scope", Name: name, C: []*N{{K: "Name", Name: "ZZZ0", C: []*N{I(1)}}}}
		default: return &N{K: kind, Name: name, C: []*N{{K: "Name", Name: "ZZZ0", C: []*N{I(1)}}}}
		}
	}
	kinds := []string{"Name", "Method", "Mutex", "OpRegion", "Device", "ThermalZone", "Processor", "PowerRes", "Scope"}
	names := []string{"FOO0", "^FOO0", "^^FOO0", "^^^FOO0", "\\FOO0", "\\", "^", "", "FOO0.FOO0", "DEV0.FOO0", "FOO0.BAR0", "\\FOO0.FOO0", "^FOO0.FOO0", "\\DEV0.DEV0", "DEV0", "DEV0.DEV0", "FOO0.FOO0.FOO0", "\\_SB_.FOO0", "_SB_.FOO0", "_SB_"}
	wraps := map[string]func(b []*N) []*N{
		"root":   func(b []*N) []*N { return b },
		"device": func(b []*N) []*N { return []*N{{K: "Device", Name: "DEV0", C: b}} },
		"scope":  func(b []*N) []*N { return []*N{{K: "Scope", Name: "\\_SB_", C: b}} },
		"method": func(b []*N) []*N { return []*N{{K: "Method", Name: "MTH0", I: 0, C: b}} },
		"devdev": func(b []*N) []*N { return []*N{{K: "Device", Name: "DEV0", C: []*N{{K: "Device", Name: "FOO0", C: b}}}} },
	}
	classes := map[string]int{}
	example := map[string]string{}
	n := 0
	for wn, w := range wraps { for _, k := range kinds { for _, nm := range names { for _, k2 := range append([]string{""}, kinds...) { for _, nm2 := range []string{"FOO0", "BAR0", "^FOO0", "FOO0.FOO0"} {
		selfy := func(kind, name string) bool {
			if kind == "Name" || kind == "Mutex" || kind == "OpRegion" || kind == "Scope" || kind == "" { return false }
			segs := strings.Split(strings.TrimLeft(name, "\\^"), ".")
			return len(segs) >= 2 && segs[len(segs)-1] == segs[len(segs)-2]
		}
		if os.Getenv("PROBE_NOSELF") != "" && (selfy(k, nm) || selfy(k2, nm2)) { continue }
		body := []*N{mk(k, nm)}
		if k2 != "" { body = append(body, mk(k2, nm2)) } else if nm2 != "FOO0" { continue }
		data := encCfg{0}.list(w(body))
		if skipHex[fmt.Sprintf("%x", data)] { continue }
		n++
		r := tryParse(data)
		key := r
		if r != "ok" && r != "err" { if _, ok := example[key]; !ok { example[key] = fmt.Sprintf("[%s %s(%s) %s(%s)] %x", wn, k, nm, k2, nm2, data) } }
		classes[key]++
	}}}}}
	keys := make([]string, 0); for k := range classes { keys = append(keys, k) }; sort.Strings(keys)
	for _, k := range keys { fmt.Printf("%8d  %s   e.g. %s\n", classes[k], k, example[k]) }
	fmt.Println("inputs", n)
}
