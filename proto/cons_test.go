//go:build verif

package console

import (
	"fmt"
	"image/color"
	"testing"

	"github.com/ProjectSerenity/firefly/kernel/device/video/console/font"
	"github.com/ProjectSerenity/firefly/kernel/multiboot"
)

func synthFont(w, h uint32) *font.Font {
	bpr := (w + 7) / 8
	f := &font.Font{Name: "synth", GlyphWidth: w, GlyphHeight: h, BytesPerRow: bpr, Data: make([]byte, 256*bpr*h)}
	for i := range f.Data { f.Data[i] = byte(i*37 + 11) }
	return f
}

type fbCfg struct {
	cols, rows uint32
	f          *font.Font
	bpp        uint8
	ci         *multiboot.FramebufferRGBColorInfo
	pad        uint32
	logo       uint32
	rem        uint32
}

func (c fbCfg) String() string { return fmt.Sprintf("%dx%d font%dx%d bpp%d pad%d logo%d rem%d", c.cols, c.rows, c.f.GlyphWidth, c.f.GlyphHeight, c.bpp, c.pad, c.logo, c.rem) }

func mk(c fbCfg) (*VesaFbConsole, []byte) {
	w := c.cols * c.f.GlyphWidth
	h := c.rows*c.f.GlyphHeight + c.logo + c.rem
	bypp := uint32(c.bpp+1) >> 3
	pitch := w*bypp + c.pad
	cons := NewVesaFbConsole(w, h, c.bpp, pitch, c.ci, 0)
	guard := 64
	raw := make([]byte, int(h*pitch)+2*guard)
	for i := range raw { raw[i] = 0xA5 }
	cons.fb = raw[guard : guard+int(h*pitch)]
	for i := range cons.fb { cons.fb[i] = byte(i*7 + 3) }
	// padding uniform
	for y := uint32(0); y < h; y++ { for x := w * bypp; x < pitch; x++ { cons.fb[y*pitch+x] = 0x5A } }
	cons.loadDefaultPalette()
	cons.offsetY = c.logo
	cons.SetFont(c.f)
	return cons, raw
}

func refPack(c fbCfg, cons *VesaFbConsole, idx uint8) []byte {
	bypp := int(uint32(c.bpp+1) >> 3)
	if c.bpp == 8 { return []byte{idx} }
	rgba := cons.palette[idx].(color.RGBA)
	v := uint32(rgba.R>>(8-c.ci.RedMaskSize))<<c.ci.RedPosition | uint32(rgba.G>>(8-c.ci.GreenMaskSize))<<c.ci.GreenPosition | uint32(rgba.B>>(8-c.ci.BlueMaskSize))<<c.ci.BluePosition
	out := []byte{byte(v), byte(v >> 8), byte(v >> 16)}
	if bypp == 2 { return out[:2] }
	return out // 3 bytes written even for 32bpp
}

func TestVerifConsProbe(t *testing.T) {
	portWriteByteFn = func(uint16, uint8) {}
	rgb565 := &multiboot.FramebufferRGBColorInfo{RedPosition: 11, RedMaskSize: 5, GreenPosition: 5, GreenMaskSize: 6, BluePosition: 0, BlueMaskSize: 5}
	rgb555 := &multiboot.FramebufferRGBColorInfo{RedPosition: 10, RedMaskSize: 5, GreenPosition: 5, GreenMaskSize: 5, BluePosition: 0, BlueMaskSize: 5}
	rgb888 := &multiboot.FramebufferRGBColorInfo{RedPosition: 16, RedMaskSize: 8, GreenPosition: 8, GreenMaskSize: 8, BluePosition: 0, BlueMaskSize: 8}
	bgr888 := &multiboot.FramebufferRGBColorInfo{RedPosition: 0, RedMaskSize: 8, GreenPosition: 8, GreenMaskSize: 8, BluePosition: 16, BlueMaskSize: 8}
	type depth struct{ bpp uint8; ci *multiboot.FramebufferRGBColorInfo }
	depths := []depth{{8, nil}, {15, rgb555}, {16, rgb565}, {24, rgb888}, {24, bgr888}, {32, rgb888}}
	fonts := []*font.Font{synthFont(8, 2), synthFont(9, 2), synthFont(16, 1), font.FindByName("terminus8x16"), font.FindByName("terminus10x18")}
	n, viol := 0, 0
	report := func(cfg fbCfg, op string, msg string) { viol++; if viol <= 12 { fmt.Printf("VIOL [%s] %s: %s\n", cfg, op, msg) } }
	for _, d := range depths { for _, f := range fonts { for cols := uint32(1); cols <= 3; cols++ { for rows := uint32(1); rows <= 3; rows++ { for _, pad := range []uint32{0, 5} { for _, logo := range []uint32{0, 3} { for _, rem := range []uint32{0, 1} {
		if f == nil { t.Fatal("font missing") }
		if rem >= f.GlyphHeight { continue }
		cfg := fbCfg{cols, rows, f, d.bpp, d.ci, pad, logo, rem}
		bypp := uint32(d.bpp+1) >> 3
		args := func(dim uint32) []uint32 { return []uint32{0, 1, 2, dim - 1, dim, dim + 1, 1 << 31} }
		// helper to compute expectations
		type rect struct{ x0, y0, x1, y1 uint32 } // pixel rect [x0,x1) x [y0,y1) absolute rows
		check := func(op string, before []byte, cons *VesaFbConsole, raw []byte, allowed []rect, expectPix func(px, py uint32) ([]byte, bool)) {
			n++
			w := cols * f.GlyphWidth
			h := rows*f.GlyphHeight + logo + rem
			pitch := w*bypp + pad
			for i := 0; i < 64; i++ { if raw[i] != 0xA5 || raw[len(raw)-1-i] != 0xA5 { report(cfg, op, "guard bytes touched"); return } }
			for y := uint32(0); y < h; y++ {
				for x := uint32(0); x < pitch; x++ {
					off := y*pitch + x
					inAllowed := false
					if x < w*bypp { px := x / bypp; for _, r := range allowed { if px >= r.x0 && px < r.x1 && y >= r.y0 && y < r.y1 { inAllowed = true } } }
					if !inAllowed {
						if cons.fb[off] != before[off] { report(cfg, op, fmt.Sprintf("byte outside target changed at row %d byte %d", y, x)); return }
					}
				}
			}
			if expectPix != nil {
				for _, r := range allowed { for py := r.y0; py < r.y1; py++ { for px := r.x0; px < r.x1; px++ {
					exp, ok := expectPix(px, py)
					if !ok { continue }
					off := py*pitch + px*bypp
					for k := range exp { if cons.fb[off+uint32(k)] != exp[k] { report(cfg, op, fmt.Sprintf("pixel (%d,%d) byte %d got %x want %x", px, py, k, cons.fb[off+uint32(k)], exp[k])); return } }
					// 32bpp 4th byte untouched
					if bypp == 4 && cons.fb[off+3] != before[off+3] { report(cfg, op, "4th byte of 32bpp pixel changed"); return }
				}}}
			}
		}
		// Write
		for _, x := range args(cols) { for _, y := range args(rows) { for _, ch := range []byte{0, 'A', 0xff} {
			cons, raw := mk(cfg)
			before := append([]byte(nil), cons.fb...)
			var pan interface{}
			func() { defer func() { pan = recover() }(); cons.Write(ch, 3, 12, x, y) }()
			op := fmt.Sprintf("Write(%d,%d,ch=%d)", x, y, ch)
			if pan != nil { report(cfg, op, fmt.Sprint("panic ", pan)); continue }
			var allowed []rect
			if x >= 1 && x <= cols && y >= 1 && y <= rows {
				allowed = []rect{{(x - 1) * f.GlyphWidth, logo + (y-1)*f.GlyphHeight, x * f.GlyphWidth, logo + y*f.GlyphHeight}}
			}
			check(op, before, cons, raw, allowed, func(px, py uint32) ([]byte, bool) {
				gx := px - (x-1)*f.GlyphWidth
				gy := py - logo - (y-1)*f.GlyphHeight
				b := f.Data[uint32(ch)*f.BytesPerRow*f.GlyphHeight+gy*f.BytesPerRow+gx/8]
				if b&(0x80>>(gx%8)) != 0 { return refPack(cfg, cons, 3), true }
				return refPack(cfg, cons, 12), true
			})
		}}}
		// Fill (small args only)
		for _, x := range args(cols) { for _, y := range args(rows) { for _, fw := range []uint32{0, 1, 2, cols, cols + 1} { for _, fh := range []uint32{0, 1, 2, rows, rows + 1} {
			cons, raw := mk(cfg)
			before := append([]byte(nil), cons.fb...)
			var pan interface{}
			func() { defer func() { pan = recover() }(); cons.Fill(x, y, fw, fh, 3, 12) }()
			op := fmt.Sprintf("Fill(%d,%d,%d,%d)", x, y, fw, fh)
			if pan != nil { report(cfg, op, fmt.Sprint("panic ", pan)); continue }
			cx, cy := x, y
			if cx == 0 { cx = 1 } else if cx > cols { cx = cols }
			if cy == 0 { cy = 1 } else if cy > rows { cy = rows }
			ex, ey := uint64(cx)+uint64(fw), uint64(cy)+uint64(fh) // exclusive, 1-based
			if ex > uint64(cols)+1 { ex = uint64(cols) + 1 }
			if ey > uint64(rows)+1 { ey = uint64(rows) + 1 }
			allowed := []rect{{(cx - 1) * f.GlyphWidth, logo + (cy-1)*f.GlyphHeight, (uint32(ex) - 1) * f.GlyphWidth, logo + (uint32(ey)-1)*f.GlyphHeight}}
			check(op, before, cons, raw, allowed, func(px, py uint32) ([]byte, bool) { return refPack(cfg, cons, 12), true })
		}}}}
		// Scroll
		for _, dir := range []ScrollDir{ScrollDirUp, ScrollDirDown} { for _, lines := range args(rows) {
			cons, raw := mk(cfg)
			before := append([]byte(nil), cons.fb...)
			var pan interface{}
			func() { defer func() { pan = recover() }(); cons.Scroll(dir, lines) }()
			op := fmt.Sprintf("Scroll(%d,%d)", dir, lines)
			if pan != nil { report(cfg, op, fmt.Sprint("panic ", pan)); continue }
			w := cols * f.GlyphWidth
			h := rows*f.GlyphHeight + logo + rem
			pitch := w*bypp + pad
			if lines == 0 || lines > rows {
				check(op, before, cons, raw, nil, nil)
				continue
			}
			// everything below logo may change; padding values must stay uniform; moved lines must match
			allowed := []rect{{0, logo, w, h}}
			check(op, before, cons, raw, allowed, nil)
			for L := uint32(0); L+lines < rows; L++ { // 0-based line L (up): new[L] == old[L+lines]; (down): new[L+lines] == old[L]
				for r := uint32(0); r < f.GlyphHeight; r++ { for xb := uint32(0); xb < w*bypp; xb++ {
					var dst, src uint32
					if dir == ScrollDirUp { dst = (logo+L*f.GlyphHeight+r)*pitch + xb; src = (logo+(L+lines)*f.GlyphHeight+r)*pitch + xb } else { dst = (logo+(L+lines)*f.GlyphHeight+r)*pitch + xb; src = (logo+L*f.GlyphHeight+r)*pitch + xb }
					if cons.fb[dst] != before[src] { report(cfg, op, fmt.Sprintf("moved line %d row %d byte %d mismatch", L, r, xb)); L = rows; r = f.GlyphHeight; break }
				}}
			}
		}}
	}}}}}}}
	fmt.Println("cases", n, "violations", viol)
}
