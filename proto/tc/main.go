package main

import (
	"fmt"
	"go/ast"
	"go/importer"
	"go/parser"
	"go/token"
	"go/types"
	"os"
	"path/filepath"
	"strings"
)

func main() {
	dir := os.Args[1]
	fset := token.NewFileSet()
	ents, _ := os.ReadDir(dir)
	var files []*ast.File
	for _, e := range ents {
		n := e.Name()
		if !strings.HasSuffix(n, ".go") || strings.HasSuffix(n, "_test.go") || n == "gen-version-data.go" { continue }
		f, err := parser.ParseFile(fset, filepath.Join(dir, n), nil, parser.ParseComments)
		if err != nil { panic(err) }
		if f.Name.Name != "main" { continue }
		files = append(files, f)
	}
	info := &types.Info{Types: map[ast.Expr]types.TypeAndValue{}}
	nerr := 0
	conf := types.Config{Importer: importer.ForCompiler(fset, "source", nil), Error: func(err error) { nerr++; if nerr < 5 { fmt.Println("typeerr:", err) } }}
	conf.Check("main", fset, files, info)
	for _, f := range files {
		ast.Inspect(f, func(n ast.Node) bool {
			if r, ok := n.(*ast.RangeStmt); ok {
				tv := info.Types[r.X]
				if tv.Type != nil {
					if m, ok := tv.Type.Underlying().(*types.Map); ok {
						fmt.Printf("%s: range over map %s (key %s)\n", fset.Position(r.Pos()), tv.Type, m.Key())
					}
				}
			}
			return true
		})
	}
	fmt.Println("type errors:", nerr)
}
