module tcprobe

go 1.23
