package device

// VerifSetDrivers replaces the registered driver list (overlay-only shim).
func VerifSetDrivers(l DriverInfoList) DriverInfoList { old := registeredDrivers; registeredDrivers = l; return old }
