//go:build verif

package aml

import (
	"bytes"
	"io/ioutil"
	"os"
	"testing"
)

func TestVerifDumpDSDT(t *testing.T) {
	var resolver = mockResolver{pathToDumps: pkgDir() + "/../table/tabletest/", tableFiles: []string{"DSDT.aml", "SSDT.aml"}}
	tree := NewObjectTree()
	tree.CreateDefaultScopes(42)
	p := NewParser(ioutil.Discard, tree)
	for i, n := range []string{"DSDT", "SSDT"} {
		if err := p.ParseAML(uint8(i), n, resolver.LookupTable(n)); err != nil { t.Fatal(n, err) }
	}
	var b bytes.Buffer
	tree.PrettyPrint(&b)
	ioutil.WriteFile(os.Getenv("DUMP_OUT"), b.Bytes(), 0644)
}
