//go:build verif

package aml

import (
	"fmt"
	"io/ioutil"
	"testing"
	"unsafe"

	"github.com/ProjectSerenity/firefly/kernel/device/acpi/table"
)

func TestVerifConnProbe(t *testing.T) {
	body := []byte{'D', 'B', 'G', '0', 0x01, 0x02, 0x11, 0x05, 0x0b, 0xff, 0xff, 0xaa, 'F', 'L', 'D', '0', 0x08}
	data := append([]byte{0x5b, 0x81, byte(len(body) + 1)}, body...)
	headerLen := unsafe.Sizeof(table.SDTHeader{})
	stream := make([]byte, int(headerLen)+len(data))
	copy(stream[headerLen:], data)
	header := (*table.SDTHeader)(unsafe.Pointer(&stream[0]))
	header.Length = uint32(len(stream))
	tree := NewObjectTree()
	tree.CreateDefaultScopes(0)
	err := NewParser(ioutil.Discard, tree).ParseAML(1, "DSDT", header)
	fmt.Println("err", err, "tablelen", len(stream))
	base := uintptr(unsafe.Pointer(&stream[0]))
	for _, o := range tree.objPool {
		if b, ok := o.value.([]byte); ok && len(b) > 0 {
			p := uintptr(unsafe.Pointer(&b[0]))
			fmt.Printf("obj %d op=%s off=%d len=%d inside=%v\n", o.index, pOpcodeName(o.opcode), p-base, len(b), p-base+uintptr(len(b)) <= uintptr(len(stream)))
		}
	}
}
