//go:build verif

package vmm

import (
	"fmt"
	"syscall"
	"testing"
	"unsafe"

	"github.com/ProjectSerenity/firefly/kernel"
	"github.com/ProjectSerenity/firefly/kernel/gate"
	"github.com/ProjectSerenity/firefly/kernel/mm"
)

const c6Pages = 64

type ram struct {
	fd   int
	base uintptr
	mmu
}

func sysMmap(addr uintptr, length int, prot, flags int, fd int, off int64) uintptr {
	r, _, e := syscall.Syscall6(syscall.SYS_MMAP, addr, uintptr(length), uintptr(prot), uintptr(flags), uintptr(fd), uintptr(off))
	if e != 0 { panic(e) }
	return r
}

func newRam() *ram {
	name := []byte("verif-ram\x00")
	fd, _, e := syscall.Syscall(319, uintptr(unsafe.Pointer(&name[0])), 0, 0)
	if e != 0 { panic(e) }
	if err := syscall.Ftruncate(int(fd), c6Pages*4096); err != nil { panic(err) }
	base := sysMmap(0, c6Pages*4096, syscall.PROT_READ|syscall.PROT_WRITE, syscall.MAP_SHARED, int(fd), 0)
	r := &ram{fd: int(fd), base: base}
	r.mmu.base = base
	r.mmu.arena = *(*[]byte)(unsafe.Pointer(&struct{ p uintptr; l, c int }{base, c6Pages * 4096, c6Pages * 4096}))
	return r
}

var dataPages = []uintptr{0x10000001000, 0x10000002000, 0x10040001000}

func (r *ram) reserveWindows() {
	for _, w := range []uintptr{0x10000000000, 0x10040000000} {
		sysMmap(w, 4*4096, syscall.PROT_NONE, syscall.MAP_PRIVATE|syscall.MAP_ANON|0x100000, -1, 0)
	}
}
func (r *ram) syncAliases() {
	for _, v := range dataPages {
		_, leaf, ok := r.walkFrom(r.cr3, v)
		if ok {
			f := leaf & 0x000ffffffffff000
			if f < r.base || f >= r.base+c6Pages*4096 { panic("data page maps outside RAM") }
			sysMmap(v, 4096, syscall.PROT_READ, syscall.MAP_SHARED|syscall.MAP_FIXED, r.fd, int64(f-r.base))
		} else {
			sysMmap(v, 4096, syscall.PROT_NONE, syscall.MAP_PRIVATE|syscall.MAP_ANON|syscall.MAP_FIXED, -1, 0)
		}
	}
}

func leafPtr(m *mmu, root, va uintptr) *uintptr {
	table := root
	for lvl := 0; lvl < 4; lvl++ {
		idx := (va >> (39 - 9*uint(lvl))) & 511
		ea := table + idx*8
		if lvl == 3 { return (*uintptr)(unsafe.Pointer(ea)) }
		e := *(*uintptr)(unsafe.Pointer(ea))
		if e&1 == 0 { return nil }
		table = e & 0x000ffffffffff000
	}
	return nil
}
func levelPtr(m *mmu, root, va uintptr, level int) *uintptr {
	table := root
	for lvl := 0; lvl < 4; lvl++ {
		idx := (va >> (39 - 9*uint(lvl))) & 511
		ea := table + idx*8
		if lvl == level { return (*uintptr)(unsafe.Pointer(ea)) }
		e := *(*uintptr)(unsafe.Pointer(ea))
		table = e & 0x000ffffffffff000
	}
	return nil
}

func TestVerifC06Probe(t *testing.T) {
	r := newRam()
	r.reserveWindows()
	m := &r.mmu
	m.install()
	var failMapTemp bool
	realMapTemp := mapTemporaryFn
	mapTemporaryFn = func(f mm.Frame) (mm.Page, *kernel.Error) {
		if failMapTemp { return 0, errInjected }
		return realMapTemp(f)
	}
	handleInterruptFn = func(gate.InterruptNumber, uint8, func(*gate.Registers)) {}
	var cr2 uintptr
	readCR2Fn = func() uint64 { return uint64(cr2) }

	type setup struct{ rootA mm.Frame; dataFrame mm.Frame }
	build := func(nShared int, useData bool) setup {
		m.reset()
		protectReservedZeroedPage = false
		root, _ := m.alloc()
		kernel.Memset(root.Address(), 0, 4096)
		*(*uintptr)(unsafe.Pointer(root.Address() + 511*8)) = root.Address() | 3
		m.cr3 = root.Address()
		if err := reserveZeroedFrame(); err != nil { panic(err) }
		var df mm.Frame
		if useData {
			df, _ = m.alloc()
			for i := uintptr(0); i < 4096; i++ { *(*byte)(unsafe.Pointer(df.Address() + i)) = byte(i*13 + 5) }
		}
		for i := 0; i < nShared; i++ {
			f := ReservedZeroedFrame
			if useData { f = df }
			if err := Map(mm.PageFromAddress(dataPages[i]), f, FlagPresent|FlagNoExecute|FlagCopyOnWrite); err != nil { panic(err) }
		}
		m.allocs, m.failAt, m.flushed = 0, 0, nil
		return setup{root, df}
	}

	n, viol := 0, 0
	report := func(desc, msg string) { viol++; if viol <= 12 { fmt.Printf("VIOL %s: %s\n", desc, msg) } }
	flagBits := []PageTableEntryFlag{FlagPresent, FlagRW, FlagUserAccessible, FlagCopyOnWrite, FlagNoExecute, FlagAccessed, FlagDirty}

	fault := func(desc string, page int, off uintptr, info uint64) (recovered bool, pan interface{}) {
		cr2 = dataPages[page] + off
		regs := gate.Registers{Info: info}
		func() {
			defer func() { pan = recover() }()
			pageFaultHandler(&regs)
			recovered = true
		}()
		return
	}
	snapshotLeaves := func() [3]uintptr {
		var s [3]uintptr
		for i, v := range dataPages { if p := leafPtr(m, m.cr3, v); p != nil { s[i] = *p } }
		return s
	}

	// Part A: single fault, full flag product, upper-level presence, env failures
	for _, useData := range []bool{false, true} {
		for mask := 0; mask < 1<<uint(len(flagBits)); mask++ {
			var fl PageTableEntryFlag
			for i, b := range flagBits { if mask&(1<<uint(i)) != 0 { fl |= b } }
			for upper := -1; upper < 3; upper++ { // which upper level gets P cleared (-1 none)
				for _, env := range []string{"none", "allocfail", "maptempfail", "allocfail2"} {
					for _, off := range []uintptr{0, 0xfff} {
						for _, info := range []uint64{0, 3} {
						st := build(2, useData)
						lp := leafPtr(m, m.cr3, dataPages[0])
						oldFrame := *lp & 0x000ffffffffff000
						*lp = oldFrame | uintptr(fl)
						if upper >= 0 { up := levelPtr(m, m.cr3, dataPages[0], upper); *up &^= 1 }
						if upper < 0 { r.syncAliases() } else {
							// page not reachable: alias anyway for the copy source (should not be touched)
						}
						failMapTemp = env == "maptempfail"
						m.allocs = 0
						m.failAt = 0
						if env == "allocfail" { m.failAt = 1 }
						if env == "allocfail2" { m.failAt = 2 } // fails inside MapTemporary's own table allocation, if any
						before := snapshotLeaves()
						var pre [4096]byte
						if upper < 0 && fl&FlagPresent != 0 { copy(pre[:], (*[4096]byte)(unsafe.Pointer(dataPages[0]))[:]) }
						nextBefore := m.next
						m.flushed = nil
						desc := fmt.Sprintf("data=%v flags=%x upperCleared=%d env=%s off=%x info=%d", useData, uintptr(fl), upper, env, off, info)
						rec, pan := fault(desc, 0, off, info)
						failedEnv := env == "maptempfail" || (m.failAt != 0 && m.allocs >= m.failAt)
						m.failAt = 0; failMapTemp = false
						n++
						expectRec := fl&FlagPresent != 0 && fl&FlagRW == 0 && fl&FlagCopyOnWrite != 0 && upper < 0 && !failedEnv
						if rec != expectRec { report(desc, fmt.Sprintf("recovered=%v expected=%v panic=%v", rec, expectRec, pan)); continue }
						after := snapshotLeaves()
						if !rec {
							if _, ok := pan.(*kernel.Error); !ok { report(desc, fmt.Sprintf("panic value not a kernel error: %v", pan)) }
							if upper < 0 && after != before { report(desc, "leaf entries changed on unrecoverable fault") }
							continue
						}
						// recovered
						newLeaf := after[0]
						newFrame := newLeaf & 0x000ffffffffff000
						wantFlags := (uintptr(fl) &^ uintptr(FlagCopyOnWrite)) | uintptr(FlagRW) | uintptr(FlagPresent)
						if newLeaf&^0x000ffffffffff000 != wantFlags { report(desc, fmt.Sprintf("new flags %x want %x", newLeaf&^0x000ffffffffff000, wantFlags)) }
						if newFrame == oldFrame { report(desc, "frame not replaced") }
						idx := int((newFrame - m.base) >> 12)
						if idx < nextBefore || idx >= m.next { report(desc, "new frame is not a freshly allocated one") }
						got := (*[4096]byte)(unsafe.Pointer(newFrame))
						if *got != pre { report(desc, "copy contents differ from what the page showed") }
						if after[1] != before[1] { report(desc, "other page sharing the frame changed") }
						if !useData { z := (*[4096]byte)(unsafe.Pointer(ReservedZeroedFrame.Address())); for _, b := range z { if b != 0 { report(desc, "zero frame modified"); break } } } else {
							d := (*[4096]byte)(unsafe.Pointer(st.dataFrame.Address())); for i, b := range d { if b != byte(uintptr(i)*13+5) { report(desc, "shared data frame modified"); break } }
						}
						fl2 := false
						for _, f := range m.flushed { if f == dataPages[0] { fl2 = true } }
						if !fl2 { report(desc, fmt.Sprintf("faulting page not flushed (flushed=%x)", m.flushed)) }
						}
					}
				}
			}
		}
	}
	fmt.Println("part A cases", n, "violations", viol)

	// Part B: sequences of faults over 3 pages sharing the zero frame
	seqs := 0
	var rec func(hist []int)
	rec = func(hist []int) {
		if len(hist) > 0 {
			build(3, false)
			r.syncAliases()
			copied := map[int]bool{}
			for step, p := range hist {
				before := snapshotLeaves()
				recd, _ := fault("", p, 8, 3)
				after := snapshotLeaves()
				desc := fmt.Sprintf("seq=%v step=%d", hist, step)
				if copied[p] {
					if recd { report(desc, "second fault on already private RW page was 'recovered'") }
					if before != after { report(desc, "entries changed") }
				} else {
					if !recd { report(desc, "CoW fault not recovered") }
					for q := 0; q < 3; q++ { if q != p && before[q] != after[q] { report(desc, "other page changed") } }
					copied[p] = true
					frames := map[uintptr]bool{}
					for q := 0; q < 3; q++ { if copied[q] { f := after[q] & 0x000ffffffffff000; if frames[f] || f == ReservedZeroedFrame.Address() { report(desc, "private frames not distinct") }; frames[f] = true } }
				}
				r.syncAliases()
			}
			seqs++
		}
		if len(hist) == 3 { return }
		for p := 0; p < 3; p++ { rec(append(append([]int{}, hist...), p)) }
	}
	rec(nil)
	fmt.Println("part B sequences", seqs, "violations total", viol)

	// Part C: zero-frame guard
	guardCases, gv := 0, 0
	for mask := 0; mask < 32; mask++ {
		var fl PageTableEntryFlag
		for i, b := range []PageTableEntryFlag{FlagPresent, FlagRW, FlagUserAccessible, FlagCopyOnWrite, FlagNoExecute} { if mask&(1<<uint(i)) != 0 { fl |= b } }
		for ep := 0; ep < 5; ep++ {
			build(0, false)
			earlyReserveLastUsed = tempMappingAddr
			var err *kernel.Error
			pdtA := PageDirectoryTable{pdtFrame: mm.Frame(m.cr3 >> 12)}
			switch ep {
			case 0: err = Map(mm.PageFromAddress(dataPages[0]), ReservedZeroedFrame, fl)
			case 1: _, err = MapTemporary(ReservedZeroedFrame)
			case 2: err = pdtA.Map(mm.PageFromAddress(dataPages[0]), ReservedZeroedFrame, fl)
			case 3: _, err = MapRegion(ReservedZeroedFrame, 4096, fl)
			case 4: _, err = IdentityMapRegion(ReservedZeroedFrame, 4096, fl)
			}
			guardCases++
			// scan all tables for RW+present leaf to zero frame
			found := false
			var scan func(table uintptr, lvl int)
			scan = func(table uintptr, lvl int) {
				for i := uintptr(0); i < 512; i++ {
					if lvl == 0 && i == 511 { continue }
					e := *(*uintptr)(unsafe.Pointer(table + i*8))
					if e&1 == 0 { continue }
					if lvl == 3 { if e&0x000ffffffffff000 == ReservedZeroedFrame.Address() && e&2 != 0 { found = true } } else { scan(e&0x000ffffffffff000, lvl+1) }
				}
			}
			scan(m.cr3, 0)
			if found { gv++; if gv < 6 { fmt.Printf("GUARD VIOL ep=%d flags=%x err=%v\n", ep, uintptr(fl), err) } }
		}
	}
	fmt.Println("guard cases", guardCases, "violations", gv)
}
