//go:build verif

package vmm

import (
	"fmt"
	"syscall"
	"testing"
	"unsafe"

	"github.com/ProjectSerenity/firefly/kernel"
	"github.com/ProjectSerenity/firefly/kernel/mm"
	"github.com/ProjectSerenity/firefly/kernel/multiboot"
)

type sec struct{ addr uintptr; size uint64; flags multiboot.ElfSectionFlag }

func TestVerifC05Probe(t *testing.T) {
	arena, err := syscall.Mmap(-1, 0, arenaPages*4096*4, syscall.PROT_READ|syscall.PROT_WRITE, syscall.MAP_ANON|syscall.MAP_PRIVATE)
	if err != nil { t.Fatal(err) }
	m := &mmu{arena: arena, base: uintptr(unsafe.Pointer(&arena[0]))}
	m.install()
	maxPages := len(arena) / 4096
	m.alloc2(maxPages)
	const kOff = uintptr(0xffff800000000000)
	n, viol := 0, 0
	report := func(desc, msg string) { viol++; if viol <= 10 { fmt.Printf("VIOL %s: %s\n", desc, msg) } }
	sizes := []uint64{1, 4095, 4096, 4097, 3 * 4096}
	starts := []uintptr{0, 0x10}
	var shapes []sec
	for _, sz := range sizes { for _, st := range starts { for fl := 0; fl < 8; fl++ { shapes = append(shapes, sec{st, sz, multiboot.ElfSectionFlag(fl)}) } } }
	bases := []uintptr{kOff + 0x100000, kOff + 0x200000, 0x100000 /* below offset */, kOff}
	run := func(secs []sec, rsv int, failAt int) {
		// fresh world
		for i := range m.arena { m.arena[i] = 0xa5 }
		m.next, m.allocs, m.failAt, m.flushed = 0, 0, 0, nil
		rootA, _ := m.alloc()
		kernel.Memset(rootA.Address(), 0, 4096)
		*(*uintptr)(unsafe.Pointer(rootA.Address() + 511*8)) = rootA.Address() | 3
		m.cr3 = rootA.Address()
		earlyReserveLastUsed = tempMappingAddr
		rsvFrames := map[uintptr]uintptr{}
		for i := 0; i < rsv; i++ {
			a, err := EarlyReserveRegion(4096)
			if err != nil { panic(err) }
			f := mm.Frame(0x5000 + i)
			if err := Map(mm.PageFromAddress(a), f, FlagPresent|FlagRW); err != nil { panic(err) }
			rsvFrames[a] = f.Address()
		}
		visitElfSectionsFn = func(v multiboot.ElfSectionVisitor) { for i, s := range secs { v(fmt.Sprintf(".s%d", i), s.flags, s.addr, s.size) } }
		kernelPDT = PageDirectoryTable{}
		m.allocs = 0
		m.failAt = failAt
		desc := fmt.Sprintf("secs=%v rsv=%d failAt=%d", secs, rsv, failAt)
		var pan interface{}
		var kerr *kernel.Error
		func() { defer func() { pan = recover() }(); kerr = setupPDTForKernel(kOff) }()
		failed := m.failAt != 0 && m.allocs >= m.failAt
		m.failAt = 0
		n++
		if pan != nil { report(desc, fmt.Sprint("panic ", pan)); return }
		if failed {
			if kerr != errInjected { report(desc, fmt.Sprintf("alloc failure not propagated: %v", kerr)) }
			if m.cr3 != rootA.Address() { report(desc, "address space switched despite failure") }
			return
		}
		if kerr != nil { report(desc, "unexpected error "+kerr.Message); return }
		if m.cr3 != kernelPDT.pdtFrame.Address() || m.cr3 == rootA.Address() { report(desc, "new PDT not active"); return }
		// expected leaves
		want := map[uintptr]uintptr{} // page va -> entry
		for _, s := range secs {
			if s.addr < kOff { continue }
			first := s.addr &^ 4095
			last := (s.addr + uintptr(s.size-1)) &^ 4095
			frame := ((s.addr - kOff) >> 12) << 12
			fl := uintptr(FlagPresent)
			if s.flags&multiboot.ElfSectionExecutable == 0 { fl |= uintptr(FlagNoExecute) }
			if s.flags&multiboot.ElfSectionWritable != 0 { fl |= uintptr(FlagRW) }
			for p := first; ; p += 4096 { want[p] = frame | fl; frame += 4096; if p == last { break } }
		}
		for a, f := range rsvFrames { want[a] = f | uintptr(FlagPresent|FlagRW) }
		// exhaustive scan of new root
		got := map[uintptr]uintptr{}
		var scan func(table uintptr, lvl int, va uintptr)
		scan = func(table uintptr, lvl int, va uintptr) {
			for i := uintptr(0); i < 512; i++ {
				if lvl == 0 && i == 511 { continue }
				e := *(*uintptr)(unsafe.Pointer(table + i*8))
				if e&1 == 0 { continue }
				nva := va | i<<(39-9*uint(lvl))
				if lvl == 3 { if nva&(1<<47) != 0 { nva |= 0xffff000000000000 }; got[nva] = e } else {
					nt := e & 0x000ffffffffff000
					if !m.in(nt) { report(desc, fmt.Sprintf("table outside RAM lvl=%d idx=%d entry=%x base=%x len=%x", lvl, i, e, m.base, len(m.arena))); return }
					scan(nt, lvl+1, nva)
				}
			}
		}
		scan(m.cr3, 0, 0)
		delete(got, tempMappingAddr) // temp mapping slot may remain (non-present) - present ones only collected
		for va, e := range want { if got[va] != e { report(desc, fmt.Sprintf("page %x entry %x want %x", va, got[va], e)); return } }
		for va, e := range got { if _, ok := want[va]; !ok { report(desc, fmt.Sprintf("stray mapping %x -> %x", va, e)); return } }
	}
	// single sections, all shapes x bases x reservations
	for _, b := range bases { for _, sh := range shapes { for _, rsv := range []int{0, 1, 3} {
		run([]sec{{b + sh.addr, sh.size, sh.flags}}, rsv, 0)
	}}}
	// pairs
	for i, a := range shapes { for j, b := range shapes { if (i*7+j)%5 != 0 { continue }
		run([]sec{{bases[0] + a.addr, a.size, a.flags}, {bases[1] + b.addr, b.size, b.flags}}, 1, 0)
	}}
	// alloc failures at each point for one representative config
	for f := 1; f <= 12; f++ { run([]sec{{bases[0], 4097, 6}, {bases[1] + 0x10, 1, 3}}, 1, f) }
	run(nil, 0, 0)
	fmt.Println("cases", n, "violations", viol)
}

func (m *mmu) alloc2(max int) { arenaMax = max }
