//go:build verif

package pmm

import (
	"fmt"
	"testing"
	"unsafe"

	_ "github.com/ProjectSerenity/firefly/kernel/mm"
	"github.com/ProjectSerenity/firefly/kernel/multiboot"
)

type reg struct{ addr, length uint64; typ uint32 }

var infoBuf = make([]uint64, 64)

func setMap(regs []reg) {
	b := (*[512]byte)(unsafe.Pointer(&infoBuf[0]))
	le32 := func(off int, v uint32) { *(*uint32)(unsafe.Pointer(&b[off])) = v }
	n := len(regs)
	le32(8, 6); le32(12, uint32(16+24*n)); le32(16, 24); le32(20, 0)
	for i, r := range regs {
		o := 24 + 24*i
		*(*uint64)(unsafe.Pointer(&b[o])) = r.addr
		*(*uint64)(unsafe.Pointer(&b[o+8])) = r.length
		le32(o+16, r.typ)
	}
	o := 24 + 24*n
	le32(o, 0); le32(o+4, 8)
	multiboot.SetInfoPtr(uintptr(unsafe.Pointer(&infoBuf[0])))
}

func TestVerifC02Probe(t *testing.T) {
	gaps := []uint64{0, 4096, 0x800}
	frames := []uint64{0, 1, 2, 3}
	skews := []uint64{0, 0x400}
	types := []uint32{1, 2}
	bases := []uint64{0, 0x1000, 0x100000}
	type shape struct{ gap, frames, head, tail uint64; typ uint32 }
	var shapes []shape
	for _, g := range gaps { for _, f := range frames { for _, h := range skews { for _, tl := range skews { for _, ty := range types {
		shapes = append(shapes, shape{g, f, h, tl, ty})
	}}}}}
	cases, viol1, viol2, viol3 := 0, 0, 0, 0
	var ex1, ex2, ex3 string
	var rec func(regs []reg, cur uint64, depth int)
	check := func(regs []reg) {
		// usable frames
		usable := map[uint64]bool{}
		var availRegs []int
		for i, r := range regs {
			if r.typ != 1 { continue }
			s := (r.addr + 4095) / 4096
			e := (r.addr + r.length) / 4096
			if e > s { availRegs = append(availRegs, i) }
			for f := s; f < e; f++ { usable[f] = true }
		}
		// kernel placements
		for _, ri := range availRegs {
			r := regs[ri]
			s := (r.addr + 4095) / 4096
			e := (r.addr + r.length) / 4096
			for ks := s; ks < e; ks++ {
				for kl := uint64(1); ks+kl <= e && kl <= 3; kl++ {
					for _, endSkew := range []uint64{0, 0x10} {
						kend := (ks+kl)*4096 - endSkew
						cases++
						setMap(regs)
						var a BootMemAllocator
						a.init(uintptr(ks*4096), uintptr(kend))
						last := int64(-1)
						var got []uint64
						bad := false
						for i := 0; i < 16; i++ {
							f, err := a.AllocFrame()
							if err != nil { break }
							fu := uint64(f)
							if !usable[fu] || (fu >= ks && fu < ks+kl) || int64(fu) <= last { bad = true }
							last = int64(fu)
							got = append(got, fu)
						}
						if bad { viol1++; if ex1 == "" { ex1 = fmt.Sprintf("%+v k=[%d,%d) got=%v", regs, ks, ks+kl, got) } }
						// converse restricted
						if len(got) > 0 {
							for f := range usable {
								if int64(f) > last && !(f >= ks && f < ks+kl) { viol2++; if ex2 == "" { ex2 = fmt.Sprintf("%+v k=[%d,%d) got=%v missing %d", regs, ks, ks+kl, got, f) }; break }
							}
						} else {
							for f := range usable {
								if !(f >= ks && f < ks+kl) { viol3++; if ex3 == "" { ex3 = fmt.Sprintf("%+v k=[%d,%d) none returned but %d usable", regs, ks, ks+kl, f) }; break }
							}
						}
					}
				}
			}
		}
	}
	rec = func(regs []reg, cur uint64, depth int) {
		if depth > 0 { check(regs) }
		if depth == 2 { return }
		for _, sh := range shapes {
			start := cur + sh.gap + sh.head
			var length uint64
			if sh.frames == 0 { length = 0x300 } else { length = sh.frames*4096 + sh.tail; if sh.head != 0 { length += 4096 - sh.head } }
			nr := append(append([]reg{}, regs...), reg{start, length, sh.typ})
			end := start + length
			rec(nr, (end+4095)&^4095, depth+1)
		}
	}
	for _, b := range bases { rec(nil, b, 0) }
	fmt.Println("cases", cases, "safety viol", viol1, ex1)
	fmt.Println("restricted converse viol", viol2, ex2)
	fmt.Println("none-returned viol", viol3, ex3)
}
