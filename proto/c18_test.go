//go:build verif

package console_test

import (
	"fmt"
	"testing"

	"github.com/ProjectSerenity/firefly/kernel/device/tty"
	"github.com/ProjectSerenity/firefly/kernel/device/video/console"
	"github.com/ProjectSerenity/firefly/kernel/device/video/console/font"
	"github.com/ProjectSerenity/firefly/kernel/multiboot"
)

func synth(w, h uint32) *font.Font {
	bpr := (w + 7) / 8
	f := &font.Font{Name: "synth", GlyphWidth: w, GlyphHeight: h, BytesPerRow: bpr, Data: make([]byte, 256*bpr*h)}
	for i := range f.Data { f.Data[i] = byte(i*37 + 11) }
	for i := uint32(0); i < bpr*h; i++ { f.Data[0x20*bpr*h+i] = 0 } // the space glyph is blank, as in every shipped font
	return f
}

type cell struct{ ch, fg, bg uint8 }

// reference terminal (same as C17 probe), tracking only viewport view
type refT struct {
	w, h, sb uint32
	tab      uint8
	buf      []cell
	cx, cy, vy uint32
}
func newRef(w, h, sb uint32, tab uint8) *refT { r := &refT{w: w, h: h, sb: sb, tab: tab, cx: 1, cy: 1, buf: make([]cell, w*(h+sb))}; for i := range r.buf { r.buf[i] = cell{' ', 7, 0} }; return r }
func (r *refT) put(b byte, adv bool) { r.buf[(r.vy+r.cy-1)*r.w+r.cx-1] = cell{b, 7, 0}; if adv { r.cx++; if r.cx > r.w { r.lf() } } }
func (r *refT) lf() {
	r.cx = 1
	if r.cy < r.h { r.cy++; return }
	if r.vy+r.h < r.h+r.sb { r.vy++; return }
	for y := r.vy; y < r.vy+r.h-1; y++ { copy(r.buf[y*r.w:(y+1)*r.w], r.buf[(y+1)*r.w:(y+2)*r.w]) }
	for x := uint32(0); x < r.w; x++ { r.buf[(r.vy+r.h-1)*r.w+x] = cell{' ', 7, 0} }
}
func (r *refT) write(b byte) {
	switch b {
	case '\r': r.cx = 1
	case '\n': r.lf()
	case '\b': if r.cx > 1 { r.cx--; r.put(' ', false) }
	case '\t': for i := uint8(0); i < r.tab; i++ { r.put(' ', true) }
	default: r.put(b, true)
	}
}

type world struct {
	kind string
	vt   *tty.VT
	ref  *refT
	w, h uint32
	// vga
	vga []uint16
	// vesa
	fb    []byte
	raw   []byte
	cons  *console.VesaFbConsole
	f     *font.Font
	bypp, pitch, logo, rem uint32
	initial []byte
}

func (wd *world) check(active bool, frozen []byte) string {
	if wd.kind == "vga" {
		if !active { return "" }
		for y := uint32(0); y < wd.h; y++ { for x := uint32(0); x < wd.w; x++ {
			c := wd.ref.buf[(wd.ref.vy+y)*wd.w+x]
			want := uint16(c.bg)<<12 | uint16(c.fg)<<8 | uint16(c.ch)
			if wd.vga[y*wd.w+x] != want { return fmt.Sprintf("vga cell (%d,%d)=%04x want %04x", x+1, y+1, wd.vga[y*wd.w+x], want) }
		}}
		return ""
	}
	for i := 0; i < 64; i++ { if wd.raw[i] != 0xA5 || wd.raw[len(wd.raw)-1-i] != 0xA5 { return "guard bytes touched" } }
	W := wd.w * wd.f.GlyphWidth
	H := wd.h*wd.f.GlyphHeight + wd.logo + wd.rem
	for y := uint32(0); y < H; y++ {
		for xb := uint32(0); xb < wd.pitch; xb++ {
			off := y*wd.pitch + xb
			inText := xb < W*wd.bypp && y >= wd.logo && y < wd.logo+wd.h*wd.f.GlyphHeight
			if !active {
				if wd.fb[off] != frozen[off] { return "framebuffer changed while inactive" }
				continue
			}
			if !inText {
				if wd.fb[off] != wd.initial[off] { return fmt.Sprintf("byte outside text grid changed (row %d byte %d)", y, xb) }
				continue
			}
			px := xb / wd.bypp
			k := xb % wd.bypp
			cx, cy := px/wd.f.GlyphWidth, (y-wd.logo)/wd.f.GlyphHeight
			gx, gy := px%wd.f.GlyphWidth, (y-wd.logo)%wd.f.GlyphHeight
			c := wd.ref.buf[(wd.ref.vy+cy)*wd.w+cx]
			bits := wd.f.Data[uint32(c.ch)*wd.f.BytesPerRow*wd.f.GlyphHeight+gy*wd.f.BytesPerRow+gx/8]
			col := c.bg
			if bits&(0x80>>(gx%8)) != 0 { col = c.fg }
			p := console.VerifPack(wd.cons, col)
			if int(k) < len(p) {
				if wd.fb[off] != p[k] { return fmt.Sprintf("pixel (%d,%d) byte %d = %x want %x (cell %d,%d ch %q)", px, y, k, wd.fb[off], p[k], cx+1, cy+1, c.ch) }
			}
		}
	}
	return ""
}

func TestVerifC18Probe(t *testing.T) {
	rgb565 := &multiboot.FramebufferRGBColorInfo{RedPosition: 11, RedMaskSize: 5, GreenPosition: 5, GreenMaskSize: 6, BluePosition: 0, BlueMaskSize: 5}
	rgb888 := &multiboot.FramebufferRGBColorInfo{RedPosition: 16, RedMaskSize: 8, GreenPosition: 8, GreenMaskSize: 8, BluePosition: 0, BlueMaskSize: 8}
	type fbk struct{ bpp uint8; ci *multiboot.FramebufferRGBColorInfo }
	kinds := []fbk{{0, nil}, {8, nil}, {16, rgb565}, {24, rgb888}, {32, rgb888}}
	fonts := []*font.Font{synth(8, 2), synth(9, 2), font.FindByName("terminus8x16")}
	events := []byte{'a', 'b', '\r', '\n', '\b', '\t', 'A' /*activate*/, 'I' /*deactivate*/}
	depth := 5
	total, viol := 0, 0
	for _, k := range kinds { for _, f := range fonts { if k.bpp == 0 && f != fonts[0] { continue }
	for _, wh := range [][2]uint32{{1, 1}, {2, 2}, {3, 1}} { w, h := wh[0], wh[1]; for _, sb := range []uint32{0, 1} { for _, plr := range [][3]uint32{{0, 0, 0}, {5, 3, 1}} { pad, logo, rem := plr[0], plr[1], plr[2]; { { {
		if k.bpp == 0 && (pad != 0 || logo != 0 || rem != 0) { continue }
		mk := func() *world {
			wd := &world{w: w, h: h, ref: newRef(w, h, sb, 2), vt: tty.NewVT(2, sb)}
			if k.bpp == 0 {
				wd.kind = "vga"
				wd.vga = make([]uint16, w*h)
				for i := range wd.vga { wd.vga[i] = 0xffff }
				wd.vt.AttachTo(console.VerifNewVga(w, h, wd.vga))
			} else {
				wd.kind = "vesa"; wd.f = f; wd.logo = logo; wd.rem = rem
				wd.bypp = uint32(k.bpp+1) >> 3
				W := w * f.GlyphWidth; H := h*f.GlyphHeight + logo + rem
				wd.pitch = W*wd.bypp + pad
				wd.raw = make([]byte, int(H*wd.pitch)+128)
				for i := range wd.raw { wd.raw[i] = 0xA5 }
				wd.fb = wd.raw[64 : 64+H*wd.pitch]
				for i := range wd.fb { wd.fb[i] = byte(i*7 + 3) }
				for y := uint32(0); y < H; y++ { for x := W * wd.bypp; x < wd.pitch; x++ { wd.fb[y*wd.pitch+x] = 0x5A } } // uniform padding
				wd.initial = append([]byte(nil), wd.fb...)
				wd.cons = console.VerifNewVesa(W, H, k.bpp, wd.pitch, k.ci, wd.fb, logo, f)
				wd.vt.AttachTo(wd.cons)
			}
			return wd
		}
		var rec func(hist []byte)
		rec = func(hist []byte) {
			if len(hist) > 0 {
				wd := mk()
				active := false
				var frozen []byte
				bad := ""
				for _, e := range hist {
					switch e {
					case 'A': wd.vt.SetState(tty.StateActive); active = true
					case 'I': wd.vt.SetState(tty.StateInactive); if active { frozen = append([]byte(nil), wd.fb...) }; active = false
					default: wd.vt.WriteByte(e); wd.ref.write(e)
					}
					if !active && frozen == nil { frozen = append([]byte(nil), wd.fb...) }
					if wd.kind == "vga" && !active { continue }
					if bad = wd.check(active, frozen); bad != "" { break }
				}
				total++
				if bad != "" { viol++; if viol <= 8 { fmt.Printf("VIOL bpp=%d font=%dx%d %dx%d sb=%d pad=%d logo=%d rem=%d hist=%q: %s\n", k.bpp, f.GlyphWidth, f.GlyphHeight, w, h, sb, pad, logo, rem, hist, bad) }; return }
			}
			if len(hist) == depth { return }
			for _, e := range events {
				if len(hist) == 0 && e != 'A' && e != 'a' && e != '\n' { continue } // reduce: first event
				rec(append(append([]byte{}, hist...), e))
			}
		}
		if f.GlyphHeight > 2 { old := depth; depth = 4; rec(nil); depth = old } else { rec(nil) }
	}}}}}}}}
	fmt.Println("histories", total, "violations", viol)
}
