//go:build verif

package main

import (
	"fmt"
	"go/ast"
	"go/parser"
	"go/token"
	"io/ioutil"
	"os"
	"path/filepath"
	"sort"
	"strings"
	"testing"
)

var permChoice func(n int) []int // returns permutation of 0..n-1

func verifPermNodes(m ast.CommentMap) []ast.Node {
	keys := make([]ast.Node, 0, len(m))
	for k := range m { keys = append(keys, k) }
	sort.Slice(keys, func(i, j int) bool { if keys[i].Pos() != keys[j].Pos() { return keys[i].Pos() < keys[j].Pos() }; return keys[i].End() < keys[j].End() })
	p := permChoice(len(keys))
	out := make([]ast.Node, len(keys))
	for i, j := range p { out[i] = keys[j] }
	return out
}

func refScan(root string) [][2]string {
	var files []string
	filepath.Walk(root, func(p string, info os.FileInfo, err error) error {
		if err == nil && !info.IsDir() && filepath.Ext(p) == ".go" && !strings.HasSuffix(p, "_test.go") { files = append(files, p) }
		return nil
	})
	var out [][2]string
	fset := token.NewFileSet()
	for _, f := range files {
		af, err := parser.ParseFile(fset, f, nil, parser.ParseComments)
		if err != nil { panic(err) }
		rel, _ := filepath.Rel(root, filepath.Dir(f))
		pkg := "github.com/ProjectSerenity/firefly/kernel"
		if rel != "." { pkg += "/" + filepath.ToSlash(rel) }
		for _, d := range af.Decls {
			fd, ok := d.(*ast.FuncDecl)
			if !ok || fd.Doc == nil { continue }
			for _, c := range fd.Doc.List {
				if strings.HasPrefix(c.Text, "//go:redirect-from") {
					out = append(out, [2]string{strings.TrimSpace(strings.TrimPrefix(c.Text, "//go:redirect-from")), pkg + "." + fd.Name.Name})
				}
			}
		}
	}
	return out
}

func runFind(root string) [][2]string {
	wd, _ := os.Getwd()
	defer os.Chdir(wd)
	os.Chdir(root)
	ctx := &Context{}
	ctx.FindRedirects()
	var out [][2]string
	for _, r := range ctx.Redirects { out = append(out, [2]string{r.SrcSymbol, r.DstSymbol}) }
	return out
}

func allPerms(n int) [][]int {
	if n == 0 { return [][]int{{}} }
	var out [][]int
	for _, p := range allPerms(n - 1) { for i := 0; i <= len(p); i++ { q := append(append(append([]int{}, p[:i]...), n-1), p[i:]...); out = append(out, q) } }
	return out
}

func TestVerifC20Probe(t *testing.T) {
	tmp, _ := ioutil.TempDir("/var/tmp", "verif-c20-")
	defer os.RemoveAll(tmp)
	fileA := `package a

// F1 does things.
//go:redirect-from runtime.f1
//go:nosplit
func F1() {}

//go:redirect-from runtime.notdoc

func NotDoc() {}

// F2 twice.
//go:redirect-from runtime.f2a
//go:redirect-from runtime.f2b
func F2() {}

//go:redirect-from runtime.onvar
var V = 1

//go:redirect-from runtime.ontype
type T struct{}

func F3() {
	//go:redirect-from runtime.inbody
}

func F4() {} //go:redirect-from runtime.trailing
func F5() {}
`
	fileB := `package b

//go:redirect-from runtime.g1
func G1() {}
`
	fileT := `package a

//go:redirect-from runtime.intest
func TestOnly() {}
`
	os.MkdirAll(filepath.Join(tmp, "a"), 0755)
	os.MkdirAll(filepath.Join(tmp, "x", "b"), 0755)
	ioutil.WriteFile(filepath.Join(tmp, "a", "a.go"), []byte(fileA), 0644)
	ioutil.WriteFile(filepath.Join(tmp, "a", "a_test.go"), []byte(fileT), 0644)
	ioutil.WriteFile(filepath.Join(tmp, "x", "b", "b.go"), []byte(fileB), 0644)
	want := refScan(tmp)
	fmt.Println("reference:", want)
	// explore permutations: per call index choose a permutation (only the first map range with >1 keys is permuted exhaustively here)
	orders := map[string]int{}
	maxN := 0
	permChoice = func(n int) []int { if n > maxN { maxN = n }; p := make([]int, n); for i := range p { p[i] = i }; return p }
	base := runFind(tmp)
	fmt.Println("identity order:", base, "max keys in a map:", maxN)
	cnt := 0
	for _, p := range allPerms(maxN) {
		p := p
		permChoice = func(n int) []int {
			if n == maxN { return p }
			q := make([]int, n); for i := range q { q[i] = i }; return q
		}
		got := runFind(tmp)
		orders[fmt.Sprint(got)]++
		cnt++
		gs := append([][2]string{}, got...); ws := append([][2]string{}, want...)
		sort.Slice(gs, func(i, j int) bool { return gs[i][0] < gs[j][0] }); sort.Slice(ws, func(i, j int) bool { return ws[i][0] < ws[j][0] })
		if fmt.Sprint(gs) != fmt.Sprint(ws) { fmt.Println("MULTISET VIOL", got) }
	}
	fmt.Println("permutations explored:", cnt, "distinct table orders:", len(orders))
	// and the real kernel tree
	permChoice = func(n int) []int { p := make([]int, n); for i := range p { p[i] = i }; return p }
	k := runFind("/repo/kernel")
	kr := refScan("/repo/kernel")
	fmt.Println("kernel tree: found", len(k), "reference", len(kr), "equal as sets:", func() bool { a := map[[2]string]bool{}; for _, x := range k { a[x] = true }; for _, x := range kr { if !a[x] { return false } }; return len(k) == len(kr) }())
}
