//go:build verif

package aml

import (
	"bytes"
	"fmt"
	"sort"
	"strings"
	"testing"
	"unsafe"

	"github.com/ProjectSerenity/firefly/kernel/device/acpi/table"
)

// ---------- AST ----------
type N struct {
	K    string // Scope Device Method Name OpRegion Field Mutex Event Processor PowerRes ThermalZone | Return Store Call If Else While Add | Int Str Buf Pkg Local Arg Zero One Ones
	Name string // name path as written with '.' separators
	I    uint64 // integer payload / argc
	S    string
	C    []*N // children / args
}

func encPkgLen(n int, force int) []byte {
	// n = bytes following pkglen
	switch {
	case force <= 1 && n+1 < 0x40:
		return []byte{byte(n + 1)}
	case force <= 2 && n+2 < 1<<12:
		t := n + 2
		return []byte{0x40 | byte(t&0xf), byte(t >> 4)}
	case force <= 3 && n+3 < 1<<20:
		t := n + 3
		return []byte{0x80 | byte(t&0xf), byte(t >> 4), byte(t >> 12)}
	default:
		t := n + 4
		return []byte{0xc0 | byte(t&0xf), byte(t >> 4), byte(t >> 12), byte(t >> 20)}
	}
}
func encName(s string) []byte {
	var pre []byte
	for len(s) > 0 && (s[0] == '\\' || s[0] == '^') { pre = append(pre, s[0]); s = s[1:] }
	var segs []string
	if s != "" { segs = strings.Split(s, ".") }
	out := pre
	switch len(segs) {
	case 0: out = append(out, 0)
	case 1: out = append(out, segs[0]...)
	case 2: out = append(out, 0x2e); out = append(out, segs[0]...); out = append(out, segs[1]...)
	default: out = append(out, 0x2f, byte(len(segs))); for _, sg := range segs { out = append(out, sg...) }
	}
	return out
}

type encCfg struct{ pkgForce int }

func (e encCfg) pkg(op []byte, body []byte) []byte {
	return append(append(append([]byte{}, op...), encPkgLen(len(body), e.pkgForce)...), body...)
}
func (e encCfg) list(ns []*N) []byte { var b []byte; for _, n := range ns { b = append(b, e.enc(n)...) }; return b }
func (e encCfg) enc(n *N) []byte {
	switch n.K {
	case "Scope": return e.pkg([]byte{0x10}, append(encName(n.Name), e.list(n.C)...))
	case "Device": return e.pkg([]byte{0x5b, 0x82}, append(encName(n.Name), e.list(n.C)...))
	case "ThermalZone": return e.pkg([]byte{0x5b, 0x85}, append(encName(n.Name), e.list(n.C)...))
	case "Processor": return e.pkg([]byte{0x5b, 0x83}, append(append(encName(n.Name), 1, 0x10, 0x04, 0, 0, 6), e.list(n.C)...))
	case "PowerRes": return e.pkg([]byte{0x5b, 0x84}, append(append(encName(n.Name), 1, 2, 0), e.list(n.C)...))
	case "Method": return e.pkg([]byte{0x14}, append(append(encName(n.Name), byte(n.I)), e.list(n.C)...))
	case "Name": return append(append([]byte{0x08}, encName(n.Name)...), e.enc(n.C[0])...)
	case "Mutex": return append(append([]byte{0x5b, 0x01}, encName(n.Name)...), byte(n.I))
	case "Event": return append([]byte{0x5b, 0x02}, encName(n.Name)...)
	case "OpRegion": return append(append(append([]byte{0x5b, 0x80}, encName(n.Name)...), 1), append(e.enc(n.C[0]), e.enc(n.C[1])...)...)
	case "Field":
		body := append(encName(n.Name), byte(n.I))
		for _, f := range n.C { // K=="F": named field name S width I ; K=="R": reserved width
			if f.K == "F" { body = append(append(body, f.S...), encPkgLen(int(f.I)-1, 0)...) } else { body = append(append(body, 0), encPkgLen(int(f.I)-1, 0)...) }
		}
		return e.pkg([]byte{0x5b, 0x81}, body)
	case "Int":
		switch {
		case n.I < 1<<8: return []byte{0x0a, byte(n.I)}
		case n.I < 1<<16: return []byte{0x0b, byte(n.I), byte(n.I >> 8)}
		case n.I < 1<<32: return []byte{0x0c, byte(n.I), byte(n.I >> 8), byte(n.I >> 16), byte(n.I >> 24)}
		default: b := []byte{0x0e}; for i := 0; i < 8; i++ { b = append(b, byte(n.I>>(8*uint(i)))) }; return b
		}
	case "Zero": return []byte{0}
	case "One": return []byte{1}
	case "Ones": return []byte{0xff}
	case "Str": return append(append([]byte{0x0d}, n.S...), 0)
	case "Buf": return e.pkg([]byte{0x11}, append(e.enc(&N{K: "Int", I: uint64(len(n.S))}), n.S...))
	case "Pkg": return e.pkg([]byte{0x12}, append([]byte{byte(len(n.C))}, e.list(n.C)...))
	case "Local": return []byte{0x60 + byte(n.I)}
	case "Arg": return []byte{0x68 + byte(n.I)}
	case "Return": return append([]byte{0xa4}, e.enc(n.C[0])...)
	case "Store": return append(append([]byte{0x70}, e.enc(n.C[0])...), e.enc(n.C[1])...)
	case "Add": return append(append(append([]byte{0x72}, e.enc(n.C[0])...), e.enc(n.C[1])...), e.enc(n.C[2])...)
	case "Call": return append(encName(n.Name), e.list(n.C)...)
	case "If": return e.pkg([]byte{0xa0}, append(e.enc(n.C[0]), e.list(n.C[1:])...))
	case "Else": return e.pkg([]byte{0xa1}, e.list(n.C))
	case "While": return e.pkg([]byte{0xa2}, append(e.enc(n.C[0]), e.list(n.C[1:])...))
	case "NullTarget": return []byte{0}
	}
	panic("enc: " + n.K)
}

// ---------- reference namespace ----------
type refObj struct {
	kind  string
	node  *N
	calls []refCall // for methods
}
type refCall struct{ target string; nargs int }
type refNS struct {
	objs map[string]*refObj // abs path "\A.B" ; root is "\"
	err  string
}

var scopedKinds = map[string]bool{"Device": true, "ThermalZone": true, "Processor": true, "PowerRes": true, "Method": true}
var namedKinds = map[string]bool{"Device": true, "ThermalZone": true, "Processor": true, "PowerRes": true, "Method": true, "Name": true, "Mutex": true, "Event": true, "OpRegion": true}

func joinPath(segs []string) string { return "\\" + strings.Join(segs, ".") }

// resolve a declaration/scope name relative to cur; returns segs of the target path
func (r *refNS) resolveDecl(cur []string, name string) ([]string, bool) {
	if strings.HasPrefix(name, "\\") {
		name = name[1:]
		if name == "" { return nil, true }
		return strings.Split(name, "."), true
	}
	base := append([]string{}, cur...)
	for strings.HasPrefix(name, "^") { if len(base) == 0 { return nil, false }; base = base[:len(base)-1]; name = name[1:] }
	if name == "" { return base, true }
	return append(base, strings.Split(name, ".")...), true
}
// lookup an existing object using search rules (for Scope targets and calls)
func (r *refNS) lookup(cur []string, name string) (string, bool) {
	if !strings.ContainsAny(name, "\\^.") {
		for i := len(cur); i >= 0; i-- {
			p := joinPath(append(append([]string{}, cur[:i]...), name))
			if _, ok := r.objs[p]; ok { return p, true }
		}
		return "", false
	}
	segs, ok := r.resolveDecl(cur, name)
	if !ok { return "", false }
	p := joinPath(segs)
	_, ok = r.objs[p]
	return p, ok
}

func (r *refNS) declare(cur []string, ns []*N, pass int, curMethod *refObj) {
	for _, n := range ns {
		switch {
		case n.K == "Scope":
			p, ok := r.lookup(cur, n.Name)
			if !ok { if pass == 2 { r.err = "scope target missing: " + n.Name }; continue }
			segs := strings.Split(strings.TrimPrefix(p, "\\"), ".")
			if p == "\\" { segs = nil }
			r.declare(segs, n.C, pass, nil)
		case namedKinds[n.K]:
			segs, ok := r.resolveDecl(cur, n.Name)
			if !ok { r.err = "bad decl " + n.Name; continue }
			p := joinPath(segs)
			if pass == 1 {
				parent := joinPath(segs[:len(segs)-1])
				if _, ok := r.objs[parent]; !ok && len(segs) > 1 { continue } // parent not yet known; retry next sweep
				if _, dup := r.objs[p]; !dup { r.objs[p] = &refObj{kind: n.K, node: n} }
			}
			if scopedKinds[n.K] {
				if _, ok := r.objs[p]; ok {
					var m *refObj
					if n.K == "Method" { m = r.objs[p] }
					r.declare(segs, n.C, pass, m)
				}
			}
		case n.K == "Field":
			if pass == 1 { for _, f := range n.C { if f.K == "F" { r.objs[joinPath(append(append([]string{}, cur...), f.S))] = &refObj{kind: "FieldUnit", node: f} } } }
		default:
			if pass == 2 && curMethod != nil { r.collectCalls(cur, n, curMethod) }
		}
	}
}
func (r *refNS) collectCalls(cur []string, n *N, m *refObj) {
	if n.K == "Call" {
		p, ok := r.lookup(cur, n.Name)
		if ok && r.objs[p].kind == "Method" { m.calls = append(m.calls, refCall{p, len(n.C)}) }
	}
	for _, c := range n.C { r.collectCalls(cur, c, m) }
}
func buildRef(tables [][]*N) *refNS {
	r := &refNS{objs: map[string]*refObj{"\\": {kind: "Root"}}}
	for _, s := range []string{"_GPE", "_PR_", "_SB_", "_SI_", "_TZ_"} { r.objs["\\"+s] = &refObj{kind: "DefScope"} }
	for _, t := range tables {
		for i := 0; i < 6; i++ { r.declare(nil, t, 1, nil) } // sweeps until fixpoint (forward scopes)
		r.declare(nil, t, 2, nil)
	}
	return r
}

// ---------- tree checker ----------
var kindOp = map[string]uint16{"Device": pOpDevice, "ThermalZone": pOpThermalZone, "Processor": pOpProcessor, "PowerRes": pOpPowerRes, "Method": pOpMethod, "Name": pOpName, "Mutex": pOpMutex, "Event": pOpEvent, "OpRegion": pOpOpRegion, "FieldUnit": pOpIntNamedField}

func scopeChildren(t *ObjectTree, o *Object) []*Object {
	var out []*Object
	container := o
	if o.opcode != pOpIntScopeBlock {
		container = nil
		for i := o.firstArgIndex; i != InvalidIndex; i = t.ObjectAt(i).nextSiblingIndex { if c := t.ObjectAt(i); c.opcode == pOpIntScopeBlock { container = c; break } }
		if container == nil { return nil }
	}
	for i := container.firstArgIndex; i != InvalidIndex; i = t.ObjectAt(i).nextSiblingIndex { out = append(out, t.ObjectAt(i)) }
	return out
}
func resolveAbs(t *ObjectTree, path string) *Object {
	cur := t.ObjectAt(0)
	if path == "\\" { return cur }
	for _, seg := range strings.Split(path[1:], ".") {
		var next *Object
		for _, c := range scopeChildren(t, cur) { if string(c.name[:]) == seg { next = c; break } }
		if next == nil { return nil }
		cur = next
	}
	return cur
}
func absPathOf(t *ObjectTree, o *Object) string {
	var segs []string
	for cur := o; cur != nil && cur.index != 0; {
		if cur.opcode != pOpIntScopeBlock || cur.name != [4]byte{} { if pOpcodeTable[cur.infoIndex].flags&pOpFlagNamed != 0 && !(cur.opcode == pOpIntScopeBlock && cur.name == [4]byte{}) { segs = append([]string{string(cur.name[:])}, segs...) } }
		if cur.parentIndex == InvalidIndex { return "DETACHED" }
		cur = t.ObjectAt(cur.parentIndex)
	}
	return joinPath(segs)
}
func collectTreeCalls(t *ObjectTree, o *Object, out *[]refCall) {
	if o.opcode == pOpIntMethodCall {
		tgt := t.ObjectAt(o.value.(uint32))
		*out = append(*out, refCall{absPathOf(t, tgt), int(t.NumArgs(o))})
	}
	for i := o.firstArgIndex; i != InvalidIndex; i = t.ObjectAt(i).nextSiblingIndex { collectTreeCalls(t, t.ObjectAt(i), out) }
}

func parseAll(payloads [][]byte) (*ObjectTree, string) {
	tree := NewObjectTree()
	tree.CreateDefaultScopes(0)
	var w bytes.Buffer
	p := NewParser(&w, tree)
	var keep [][]byte
	for i, data := range payloads {
		headerLen := unsafe.Sizeof(table.SDTHeader{})
		stream := make([]byte, int(headerLen)+len(data))
		keep = append(keep, stream)
		copy(stream[headerLen:], data)
		header := (*table.SDTHeader)(unsafe.Pointer(&stream[0]))
		header.Length = uint32(len(stream))
		var pan interface{}
		var err error
		func() { defer func() { pan = recover() }(); if e := p.ParseAML(uint8(i+1), "T", header); e != nil { err = e } }()
		if pan != nil { return tree, fmt.Sprint("panic: ", pan) }
		if err != nil { return tree, "parse error: " + strings.TrimSpace(w.String()) }
	}
	_ = keep
	return tree, ""
}

func checkProgram(tables [][]*N, cfg encCfg) string {
	ref := buildRef(tables)
	if ref.err != "" { return "SKIP " + ref.err }
	var payloads [][]byte
	for _, t := range tables { payloads = append(payloads, cfg.list(t)) }
	tree, perr := parseAll(payloads)
	if perr != "" { return perr }
	paths := make([]string, 0, len(ref.objs))
	for p := range ref.objs { paths = append(paths, p) }
	sort.Strings(paths)
	for _, p := range paths {
		ro := ref.objs[p]
		o := resolveAbs(tree, p)
		if o == nil { return "missing object " + p }
		if op, ok := kindOp[ro.kind]; ok && o.opcode != op { return fmt.Sprintf("object %s has opcode %s want %s", p, pOpcodeName(o.opcode), ro.kind) }
		if ro.kind == "Method" {
			if fl := tree.ArgAt(o, 1); fl == nil || fl.value.(uint64)&7 != ro.node.I { return "method argc " + p }
			var got []refCall
			collectTreeCalls(tree, o, &got)
			if fmt.Sprint(got) != fmt.Sprint(ro.calls) { return fmt.Sprintf("method %s calls got %v want %v", p, got, ro.calls) }
		}
		if ro.kind == "Name" {
			v := tree.ArgAt(o, 1)
			want := ro.node.C[0]
			switch want.K {
			case "Int": if v == nil || v.value != interface{}(want.I) { return fmt.Sprintf("name %s value %v want %d", p, v, want.I) }
			case "Str": if v == nil || string(v.value.([]byte)) != want.S { return "name str " + p }
			}
		}
	}
	return ""
}

// ---------- generator (tier 1 / 2) ----------
func TestVerifAMLGenProbe(t *testing.T) {
	I := func(v uint64) *N { return &N{K: "Int", I: v} }
	leafs := func(name string) []*N {
		return []*N{
			{K: "Name", Name: name, C: []*N{I(0x12)}},
			{K: "Name", Name: name, C: []*N{I(0x1234567890)}},
			{K: "Name", Name: name, C: []*N{{K: "Str", S: "hi"}}},
			{K: "Name", Name: name, C: []*N{{K: "Buf", S: "\x01\x02\x03"}}},
			{K: "Name", Name: name, C: []*N{{K: "Pkg", C: []*N{I(1), {K: "Str", S: "x"}}}}},
			{K: "Name", Name: name, C: []*N{{K: "One"}}},
			{K: "Mutex", Name: name, I: 3},
			{K: "Event", Name: name},
			{K: "OpRegion", Name: name, C: []*N{I(0x3000), I(4)}},
			{K: "Device", Name: name},
			{K: "ThermalZone", Name: name},
			{K: "Processor", Name: name},
			{K: "PowerRes", Name: name},
			{K: "Method", Name: name, I: 0, C: []*N{{K: "Return", C: []*N{I(1)}}}},
			{K: "Method", Name: name, I: 2, C: []*N{{K: "Return", C: []*N{{K: "Add", C: []*N{{K: "Arg", I: 0}, {K: "Arg", I: 1}, {K: "NullTarget"}}}}}}},
		}
	}
	wrap := map[string]func(body []*N) []*N{
		"root":        func(b []*N) []*N { return b },
		"scope_SB":    func(b []*N) []*N { return []*N{{K: "Scope", Name: "\\_SB_", C: b}} },
		"device":      func(b []*N) []*N { return []*N{{K: "Device", Name: "DEV0", C: b}} },
		"sb.device":   func(b []*N) []*N { return []*N{{K: "Scope", Name: "\\_SB_", C: []*N{{K: "Device", Name: "DEV0", C: b}}}} },
		"dev.dev":     func(b []*N) []*N { return []*N{{K: "Device", Name: "DEV0", C: []*N{{K: "Device", Name: "DEV1", C: b}}}} },
		"thermal":     func(b []*N) []*N { return []*N{{K: "ThermalZone", Name: "TZ00", C: b}} },
		"scope(dev)":  func(b []*N) []*N { return []*N{{K: "Device", Name: "DEV0"}, {K: "Scope", Name: "DEV0", C: b}} },
		"scope(dev)f": func(b []*N) []*N { return []*N{{K: "Scope", Name: "\\_SB_", C: []*N{{K: "Device", Name: "DEV0"}}}, {K: "Scope", Name: "\\_SB_.DEV0", C: b}} },
		"scope3":      func(b []*N) []*N { return []*N{{K: "Scope", Name: "\\_SB_", C: []*N{{K: "Device", Name: "DEV0", C: []*N{{K: "Device", Name: "DEV1"}}}}}, {K: "Scope", Name: "\\_SB_.DEV0.DEV1", C: b}} },
	}
	nameForms := []string{"FOO0", "\\FOO0", "^FOO0", "\\_SB_.FOO0", "^^FOO0"}
	fails := map[string][]string{}
	total, ok, skipped := 0, 0, 0
	wnames := make([]string, 0); for k := range wrap { wnames = append(wnames, k) }; sort.Strings(wnames)
	for _, wn := range wnames {
		for _, nf := range nameForms {
			for li, leaf := range leafs(nf) {
				for _, pf := range []int{0, 2} {
					prog := wrap[wn](([]*N{leaf}))
					total++
					res := checkProgram([][]*N{prog}, encCfg{pf})
					switch {
					case res == "": ok++
					case strings.HasPrefix(res, "SKIP"): skipped++
					default:
						key := fmt.Sprintf("%s | name=%s", wn, nf)
						fails[key] = append(fails[key], fmt.Sprintf("leaf%d/pf%d: %s", li, pf, res))
					}
				}
			}
		}
	}
	// tier 2: method call forward/backward, nested
	callProgs := map[string][]*N{
		"fwd": {{K: "Method", Name: "M000", I: 0, C: []*N{{K: "Return", C: []*N{{K: "Call", Name: "M001", C: []*N{I(1), I(2)}}}}}}, {K: "Method", Name: "M001", I: 2, C: []*N{{K: "Return", C: []*N{{K: "Arg", I: 0}}}}}},
		"bwd": {{K: "Method", Name: "M001", I: 2, C: []*N{{K: "Return", C: []*N{{K: "Arg", I: 0}}}}}, {K: "Method", Name: "M000", I: 0, C: []*N{{K: "Return", C: []*N{{K: "Call", Name: "M001", C: []*N{I(1), I(2)}}}}}}},
		"nested-fwd": {{K: "Method", Name: "M000", I: 0, C: []*N{{K: "Return", C: []*N{{K: "Call", Name: "M001", C: []*N{{K: "Call", Name: "M002", C: []*N{I(1)}}, I(2)}}}}}}, {K: "Method", Name: "M001", I: 2, C: []*N{{K: "Return", C: []*N{{K: "Arg", I: 0}}}}}, {K: "Method", Name: "M002", I: 1, C: []*N{{K: "Return", C: []*N{{K: "Arg", I: 0}}}}}},
		"stmt-call-fwd": {{K: "Method", Name: "M000", I: 0, C: []*N{{K: "Call", Name: "M001", C: []*N{I(1)}}, {K: "Store", C: []*N{I(5), {K: "Local", I: 0}}}}}, {K: "Method", Name: "M001", I: 1, C: []*N{{K: "Return", C: []*N{{K: "Arg", I: 0}}}}}},
		"call-in-if-fwd": {{K: "Method", Name: "M000", I: 0, C: []*N{{K: "If", C: []*N{{K: "Call", Name: "M001", C: []*N{I(1)}}, {K: "Return", C: []*N{I(3)}}}}, {K: "Else", C: []*N{{K: "Return", C: []*N{I(4)}}}}}}, {K: "Method", Name: "M001", I: 1, C: []*N{{K: "Return", C: []*N{{K: "Arg", I: 0}}}}}},
		"call-in-while-fwd": {{K: "Method", Name: "M000", I: 0, C: []*N{{K: "While", C: []*N{{K: "Call", Name: "M001", C: []*N{I(1)}}, {K: "Store", C: []*N{I(5), {K: "Local", I: 0}}}}}}}, {K: "Method", Name: "M001", I: 1, C: []*N{{K: "Return", C: []*N{{K: "Arg", I: 0}}}}}},
		"call-store-add": {{K: "Method", Name: "M000", I: 0, C: []*N{{K: "Store", C: []*N{{K: "Add", C: []*N{{K: "Call", Name: "M001", C: []*N{I(1)}}, I(2), {K: "NullTarget"}}}, {K: "Local", I: 0}}}}}, {K: "Method", Name: "M001", I: 1, C: []*N{{K: "Return", C: []*N{{K: "Arg", I: 0}}}}}},
		"call-dev-method": {{K: "Device", Name: "DEV0", C: []*N{{K: "Method", Name: "M001", I: 1, C: []*N{{K: "Return", C: []*N{{K: "Arg", I: 0}}}}}}}, {K: "Method", Name: "M000", I: 0, C: []*N{{K: "Return", C: []*N{{K: "Call", Name: "DEV0.M001", C: []*N{I(1)}}}}}}},
		"call-dev-method-fwd": {{K: "Method", Name: "M000", I: 0, C: []*N{{K: "Return", C: []*N{{K: "Call", Name: "\\DEV0.M001", C: []*N{I(1)}}}}}}, {K: "Device", Name: "DEV0", C: []*N{{K: "Method", Name: "M001", I: 1, C: []*N{{K: "Return", C: []*N{{K: "Arg", I: 0}}}}}}}},
		"call-upward-search": {{K: "Method", Name: "M001", I: 1, C: []*N{{K: "Return", C: []*N{{K: "Arg", I: 0}}}}}, {K: "Device", Name: "DEV0", C: []*N{{K: "Method", Name: "M000", I: 0, C: []*N{{K: "Return", C: []*N{{K: "Call", Name: "M001", C: []*N{I(1)}}}}}}}}},
		"field": {{K: "OpRegion", Name: "REG0", C: []*N{I(0x3000), I(4)}}, {K: "Field", Name: "REG0", I: 1, C: []*N{{K: "F", S: "FLD0", I: 8}, {K: "R", I: 4}, {K: "F", S: "FLD1", I: 4}}}},
		"field-in-dev": {{K: "Device", Name: "DEV0", C: []*N{{K: "OpRegion", Name: "REG0", C: []*N{I(0x3000), I(4)}}, {K: "Field", Name: "REG0", I: 1, C: []*N{{K: "F", S: "FLD0", I: 8}}}}}},
		"buf-size-call-fwd": {{K: "Name", Name: "BUF0", C: []*N{{K: "Buf", S: "ab"}}}, {K: "Method", Name: "M000", I: 0, C: []*N{{K: "Return", C: []*N{I(1)}}}}},
	}
	cn := make([]string, 0); for k := range callProgs { cn = append(cn, k) }; sort.Strings(cn)
	for _, k := range cn {
		for _, wn := range []string{"root", "device", "scope_SB"} {
			total++
			res := checkProgram([][]*N{wrap[wn](callProgs[k])}, encCfg{0})
			if res == "" { ok++ } else if strings.HasPrefix(res, "SKIP") { skipped++ } else { fails["T2 "+k+" in "+wn] = append(fails["T2 "+k+" in "+wn], res) }
		}
	}
	// two tables
	for _, k := range []string{"t2-scope-into-t1", "t2-call-t1"} {
		var tabs [][]*N
		switch k {
		case "t2-scope-into-t1": tabs = [][]*N{{{K: "Device", Name: "DEV0"}}, {{K: "Scope", Name: "\\DEV0", C: []*N{{K: "Name", Name: "FOO0", C: []*N{I(7)}}}}}}
		case "t2-call-t1": tabs = [][]*N{{{K: "Method", Name: "M001", I: 1, C: []*N{{K: "Return", C: []*N{{K: "Arg", I: 0}}}}}}, {{K: "Method", Name: "M000", I: 0, C: []*N{{K: "Return", C: []*N{{K: "Call", Name: "M001", C: []*N{I(1)}}}}}}}}
		}
		total++
		res := checkProgram(tabs, encCfg{0})
		if res == "" { ok++ } else if strings.HasPrefix(res, "SKIP") { skipped++ } else { fails["T4 "+k] = append(fails["T4 "+k], res) }
	}
	keys := make([]string, 0); for k := range fails { keys = append(keys, k) }; sort.Strings(keys)
	for _, k := range keys { fmt.Printf("FAIL %-40s n=%d first: %s\n", k, len(fails[k]), fails[k][0]) }
	fmt.Println("total", total, "ok", ok, "skipped(ref says ill-formed)", skipped, "failing groups", len(fails))
}
