//go:build verif

package kfmt

import (
	"fmt"
	"runtime"
	"testing"
)

type sinkW struct{ buf [4096]byte; n int }
func (s *sinkW) Write(p []byte) (int, error) { s.n += copy(s.buf[s.n%2048:], p); return len(p), nil }

func TestVerifAllocProbe(t *testing.T) {
	w := &sinkW{}
	cases := [][]interface{}{{int64(-1 << 63)}, {uint64(1<<64 - 1)}, {"hello"}, {[]byte("abc")}, {true}, {3.5}, {}}
	fmts := []string{"%31d|", "%x", "%10s", "%s", "%t", "%d", "%d %%"}
	var m0, m1 runtime.MemStats
	runtime.GC()
	runtime.ReadMemStats(&m0)
	for i := 0; i < 1000; i++ {
		for j := range cases { w.n = 0; Fprintf(w, fmts[j], cases[j]...) }
	}
	runtime.ReadMemStats(&m1)
	fmt.Println("mallocs delta", m1.Mallocs-m0.Mallocs)
}
