//go:build verif

package vmm

import (
	"fmt"
	"syscall"
	"testing"
	"unsafe"

	"github.com/ProjectSerenity/firefly/kernel"
	"github.com/ProjectSerenity/firefly/kernel/mm"
)

const arenaPages = 48

var arenaMax = arenaPages

type mmu struct {
	arena    []byte
	base     uintptr
	next     int
	failAt   int // fail the failAt-th allocation (1-based); 0 = never
	allocs   int
	cr3      uintptr
	flushed  []uintptr
	lastVA   uintptr
	lastHost uintptr
	fault    string
}

var tmpAlias mm.Page

var errInjected = &kernel.Error{Module: "verif", Message: "injected alloc failure"}

func (m *mmu) reset() {
	for i := range m.arena { m.arena[i] = 0xa5 }
	m.next, m.allocs, m.failAt, m.flushed, m.fault = 0, 0, 0, nil, ""
}
func (m *mmu) alloc() (mm.Frame, *kernel.Error) {
	m.allocs++
	if m.failAt != 0 && m.allocs == m.failAt { return mm.InvalidFrame, errInjected }
	if m.next >= arenaMax { panic("arena exhausted") }
	f := mm.Frame((m.base >> 12) + uintptr(m.next))
	m.next++
	return f, nil
}
func (m *mmu) in(p uintptr) bool { return p >= m.base && p+8 <= m.base+uintptr(len(m.arena)) }
type walkRes struct{ ok bool; entry uintptr; lvl int }
func (m *mmu) walkFrom(root, va uintptr) (phys uintptr, leaf uintptr, ok bool) {
	table := root
	for lvl := 0; lvl < 4; lvl++ {
		idx := (va >> (39 - 9*uint(lvl))) & 511
		ea := table + idx*8
		if !m.in(ea) { return 0, 0, false }
		e := *(*uintptr)(unsafe.Pointer(ea))
		if e&1 == 0 { return 0, e, false }
		leaf = e
		table = e & 0x000ffffffffff000
	}
	return table + (va & 4095), leaf, true
}
func (m *mmu) translate(va uintptr) uintptr {
	p, _, ok := m.walkFrom(m.cr3, va)
	if !ok { m.fault = fmt.Sprintf("sw page fault va=%x", va); panic(m.fault) }
	if !m.in(p &^ 7) { m.fault = fmt.Sprintf("va=%x translates outside RAM (%x)", va, p); panic(m.fault) }
	return p
}

func (m *mmu) install() {
	activePDTFn = func() uintptr { return m.cr3 }
	switchPDTFn = func(a uintptr) { m.cr3 = a }
	ptePtrFn = func(ea uintptr) unsafe.Pointer { m.lastVA = ea; m.lastHost = m.translate(ea); return unsafe.Pointer(m.lastHost) }
	nextAddrFn = func(a uintptr) uintptr { if a>>9 == m.lastHost { return m.translate(m.lastVA << 9) }; return m.translate(a) }
	flushTLBEntryFn = func(a uintptr) { m.flushed = append(m.flushed, a) }
	mm.SetFrameAllocator(m.alloc)
	mapTemporaryFn = func(f mm.Frame) (mm.Page, *kernel.Error) {
		if _, err := MapTemporary(f); err != nil { return 0, err }
		tmpAlias = mm.Page(m.translate(tempMappingAddr) >> 12)
		return tmpAlias, nil
	}
	unmapFn = func(p mm.Page) *kernel.Error {
		if p == tmpAlias && m.in(p.Address()) { return Unmap(mm.PageFromAddress(tempMappingAddr)) }
		return Unmap(p)
	}
	mapFn = Map
}

type mapping struct{ frame mm.Frame; flags PageTableEntryFlag }
type world struct {
	m       *mmu
	rootA   mm.Frame
	pdtB    PageDirectoryTable
	ref     [2]map[mm.Page]mapping // 0 = A, 1 = B
}

func newWorld(m *mmu) *world {
	m.reset()
	w := &world{m: m}
	w.ref[0] = map[mm.Page]mapping{}
	w.ref[1] = map[mm.Page]mapping{}
	w.rootA, _ = m.alloc()
	kernel.Memset(w.rootA.Address(), 0, 4096)
	*(*uintptr)(unsafe.Pointer(w.rootA.Address() + 511*8)) = w.rootA.Address() | 3
	m.cr3 = w.rootA.Address()
	fb, _ := m.alloc()
	if err := w.pdtB.Init(fb); err != nil { panic(err) }
	m.allocs = 0
	m.flushed = nil
	return w
}

var sigmaPages = []mm.Page{0, 1, 512, 512 * 512, 512 * 512 * 512, mm.PageFromAddress(0xffff800000000000)}
var sigmaFrames = []mm.Frame{0, 0x1234, 1<<40 - 1}
var sigmaFlags = []PageTableEntryFlag{FlagPresent, FlagPresent | FlagRW, FlagPresent | FlagRW | FlagNoExecute, FlagPresent | FlagUserAccessible | FlagCopyOnWrite, 0}

type opT struct {
	kind  int // 0 Map active(global), 1 Unmap active, 2 B.Map, 3 B.Unmap, 4 A.Map via PDT, 5 A.Unmap via PDT
	page  mm.Page
	frame mm.Frame
	flags PageTableEntryFlag
	fail  int
}

func (o opT) String() string { return fmt.Sprintf("{k%d p%x f%x fl%x fail%d}", o.kind, o.page, o.frame, uintptr(o.flags), o.fail) }

func (w *world) snapshotViews() [2]map[mm.Page]uintptr {
	var v [2]map[mm.Page]uintptr
	roots := [2]uintptr{w.rootA.Address(), w.pdtB.pdtFrame.Address()}
	for s := 0; s < 2; s++ {
		v[s] = map[mm.Page]uintptr{}
		for _, p := range append(append([]mm.Page{}, sigmaPages...), mm.PageFromAddress(tempMappingAddr)) {
			_, leaf, ok := w.m.walkFrom(roots[s], p.Address())
			if ok { v[s][p] = leaf }
		}
	}
	return v
}

func (w *world) apply(o opT) string {
	m := w.m
	pre := w.snapshotViews()
	rootAcopy := append([]byte(nil), (*[4096]byte)(unsafe.Pointer(w.rootA.Address()))[:]...)
	m.flushed = nil
	m.allocs = 0
	m.failAt = o.fail
	var err *kernel.Error
	var pan interface{}
	pdtA := PageDirectoryTable{pdtFrame: w.rootA}
	func() {
		defer func() { pan = recover() }()
		switch o.kind {
		case 0: err = Map(o.page, o.frame, o.flags)
		case 1: err = Unmap(o.page)
		case 2: err = w.pdtB.Map(o.page, o.frame, o.flags)
		case 3: err = w.pdtB.Unmap(o.page)
		case 4: err = pdtA.Map(o.page, o.frame, o.flags)
		case 5: err = pdtA.Unmap(o.page)
		}
	}()
	m.failAt = 0
	if pan != nil { return fmt.Sprint("panic: ", pan) }
	space := 0
	if o.kind == 2 || o.kind == 3 { space = 1 }
	isMap := o.kind == 0 || o.kind == 2 || o.kind == 4
	post := w.snapshotViews()
	if o.fail != 0 && m.allocs >= o.fail {
		if err != errInjected { return fmt.Sprintf("alloc failure not propagated: err=%v", err) }
		for s := 0; s < 2; s++ { for _, p := range sigmaPages { if pre[s][p] != post[s][p] { return fmt.Sprintf("translation of page %x in space %d changed on failed op", p, s) } } }
		return ""
	}
	if isMap {
		if err != nil { return fmt.Sprintf("unexpected error %v", err) }
		w.ref[space][o.page] = mapping{o.frame, o.flags}
	} else {
		delete(w.ref[space], o.page)
	}
	// compare with reference
	for s := 0; s < 2; s++ {
		for _, p := range sigmaPages {
			leaf, present := post[s][p]
			want, mapped := w.ref[s][p]
			wantPresent := mapped && want.flags&FlagPresent != 0
			if present != wantPresent { return fmt.Sprintf("space %d page %x present=%v want %v", s, p, present, wantPresent) }
			if present {
				wantEntry := want.frame.Address() | uintptr(want.flags)
				if leaf != wantEntry { return fmt.Sprintf("space %d page %x entry %x want %x", s, p, leaf, wantEntry) }
			}
		}
	}
	// Translate agrees for active space
	for _, p := range sigmaPages {
		pa, terr := Translate(p.Address() + 0x123)
		want, mapped := w.ref[0][p]
		if mapped && want.flags&FlagPresent != 0 {
			if terr != nil || pa != want.frame.Address()+0x123 { return fmt.Sprintf("Translate(%x)=%x,%v", p.Address(), pa, terr) }
		} else if terr != ErrInvalidMapping { return fmt.Sprintf("Translate(%x) of unmapped page err=%v", p.Address(), terr) }
	}
	// inactive op leaves active root bit-identical
	if space == 1 {
		now := (*[4096]byte)(unsafe.Pointer(w.rootA.Address()))[:]
		for i := range now { if now[i] != rootAcopy[i] { return "active root changed by op on inactive space" } }
	}
	// flush: active-space pages whose translation changed must be flushed
	for _, p := range sigmaPages {
		if pre[0][p] != post[0][p] {
			found := false
			for _, f := range m.flushed { if f == p.Address() { found = true } }
			if !found { return fmt.Sprintf("page %x changed in active space without TLB flush (flushed=%x)", p, m.flushed) }
		}
	}
	return ""
}

func TestVerifVMM4Probe(t *testing.T) {
	arena, err := syscall.Mmap(-1, 0, arenaPages*4096, syscall.PROT_READ|syscall.PROT_WRITE, syscall.MAP_ANON|syscall.MAP_PRIVATE)
	if err != nil { t.Fatal(err) }
	m := &mmu{arena: arena, base: uintptr(unsafe.Pointer(&arena[0]))}
	m.install()
	var ops []opT
	for _, p := range sigmaPages {
		for _, k := range []int{0, 2, 4} { for _, f := range sigmaFrames { for _, fl := range sigmaFlags { for fail := 0; fail <= 3; fail++ { ops = append(ops, opT{k, p, f, fl, fail}) } } } }
		for _, k := range []int{1, 3, 5} { ops = append(ops, opT{kind: k, page: p}) }
	}
	fmt.Println("ops per state:", len(ops))
	n, viol := 0, 0
	depth := 2
	var rec func(hist []opT)
	rec = func(hist []opT) {
		for _, o := range ops {
			if len(hist) > 0 && o.fail != 0 && hist[len(hist)-1].fail != 0 { continue }
			h := append(append([]opT{}, hist...), o)
			w := newWorld(m)
			bad := ""
			for i, x := range h {
				if r := w.apply(x); r != "" { if i == len(h)-1 { bad = r }; break }
			}
			n++
			if bad != "" { viol++; if viol <= 10 { fmt.Printf("VIOL %v: %s\n", h, bad) }; continue }
			if len(h) < depth && o.fail == 0 { rec(h) }
		}
	}
	rec(nil)
	fmt.Println("histories", n, "violations", viol)
}
