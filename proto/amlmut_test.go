//go:build verif

package aml

import (
	"fmt"
	"os"
	"runtime/debug"
	"sort"
	"strings"
	"testing"
	"unsafe"
	"io/ioutil"

	"github.com/ProjectSerenity/firefly/kernel/device/acpi/table"
)

var journal *os.File

func tryParse(data []byte) (res string) {
	if journal != nil { journal.Seek(0, 0); journal.Truncate(0); fmt.Fprintf(journal, "%x\n", data) }
	headerLen := int(unsafe.Sizeof(table.SDTHeader{}))
	stream := make([]byte, headerLen+len(data))
	copy(stream[headerLen:], data)
	header := (*table.SDTHeader)(unsafe.Pointer(&stream[0]))
	header.Length = uint32(len(stream))
	tree := NewObjectTree()
	tree.CreateDefaultScopes(0)
	defer func() {
		if r := recover(); r != nil { res = "PANIC: " + fmt.Sprint(r) }
	}()
	err := NewParser(ioutil.Discard, tree).ParseAML(1, "T", header)
	base := uintptr(unsafe.Pointer(&stream[0]))
	for _, o := range tree.objPool {
		if b, ok := o.value.([]byte); ok && len(b) > 0 {
			p := uintptr(unsafe.Pointer(&b[0]))
			if p < base || p+uintptr(len(b)) > base+uintptr(len(stream)) { return "STRAY slice in " + pOpcodeName(o.opcode) }
		}
		if b, ok := o.value.([]byte); ok && len(b) > 0 && unsafe.Pointer(&b[0]) == nil { return "NIL slice" }
	}
	if err == nil {
		func() {
			defer func() { if r := recover(); r != nil { res = "PRINT PANIC: " + fmt.Sprint(r) } }()
			tree.PrettyPrint(ioutil.Discard)
		}()
		if res != "" { return res }
		return "ok"
	}
	return "err"
}

func TestVerifAMLMutProbe(t *testing.T) {
	debug.SetMaxStack(64 << 20)
	journal, _ = os.Create("/var/tmp/verif-probe/journal.txt")
	I := func(v uint64) *N { return &N{K: "Int", I: v} }
	seedsAST := [][]*N{
		{{K: "Scope", Name: "\\_SB_", C: []*N{{K: "Device", Name: "DEV0", C: []*N{{K: "Name", Name: "FOO0", C: []*N{I(0x12)}}}}}}},
		{{K: "Method", Name: "M000", I: 0, C: []*N{{K: "Return", C: []*N{{K: "Call", Name: "M001", C: []*N{I(1), I(2)}}}}}}, {K: "Method", Name: "M001", I: 2, C: []*N{{K: "Return", C: []*N{{K: "Arg", I: 0}}}}}},
		{{K: "OpRegion", Name: "REG0", C: []*N{I(0x3000), I(4)}}, {K: "Field", Name: "REG0", I: 1, C: []*N{{K: "F", S: "FLD0", I: 8}, {K: "R", I: 4}, {K: "F", S: "FLD1", I: 4}}}},
		{{K: "Name", Name: "BUF0", C: []*N{{K: "Buf", S: "ab"}}}, {K: "Name", Name: "PKG0", C: []*N{{K: "Pkg", C: []*N{I(1), {K: "Str", S: "x"}}}}}},
		{{K: "Method", Name: "M000", I: 1, C: []*N{{K: "While", C: []*N{{K: "Arg", I: 0}, {K: "Store", C: []*N{I(5), {K: "Local", I: 0}}}}}, {K: "If", C: []*N{{K: "Local", I: 0}, {K: "Return", C: []*N{I(3)}}}}, {K: "Else", C: []*N{{K: "Return", C: []*N{I(4)}}}}}}},
		{{K: "Scope", Name: "\\_SB_", C: []*N{{K: "ThermalZone", Name: "^THRM", C: []*N{{K: "Name", Name: "DEF0", C: []*N{{K: "Ones"}}}}}}}, {K: "Scope", Name: "\\THRM", C: []*N{{K: "Name", Name: "DEF1", C: []*N{{K: "Zero"}}}}}},
		{{K: "Device", Name: "DEV0", C: []*N{{K: "Mutex", Name: "MTX0", I: 1}, {K: "Event", Name: "EVT0"}, {K: "Processor", Name: "CPU0"}, {K: "PowerRes", Name: "PWR0"}}}},
	}
	var seeds [][]byte
	for _, s := range seedsAST { seeds = append(seeds, encCfg{0}.list(s)) }
	var alpha []byte
	for b := 0; b < 256; b++ { if opcodeMap[b] != 0xff || b == 0x5b || b == '\\' || b == '^' || b == 'A' || b == '_' || b == 0x2e || b == 0x2f || b == 0x40 || b == 0x03 || b == 0x80 || b == 0xc0 { alpha = append(alpha, byte(b)) } }
	classes := map[string]int{}
	example := map[string]string{}
	n := 0
	rec := func(d []byte) {
		n++
		r := tryParse(d)
		if r != "ok" && r != "err" {
			k := r
			if i := strings.Index(k, "0x"); i > 0 { k = k[:i] }
			classes[k]++
			if _, ok := example[k]; !ok || len(d) < len(example[k])/2 { example[k] = fmt.Sprintf("%x", d) }
		} else { classes[r]++ }
	}
	for _, s := range seeds {
		rec(s)
		for i := 0; i < len(s); i++ { rec(s[:i]) }
		for i := 0; i < len(s); i++ { for bit := 0; bit < 8; bit++ { m := append([]byte(nil), s...); m[i] ^= 1 << uint(bit); rec(m) } }
		for i := 0; i < len(s); i++ { for _, a := range alpha { m := append([]byte(nil), s...); m[i] = a; rec(m) } }
	}
	for _, a := range seeds { for _, b := range seeds { for i := 0; i <= len(a); i++ { for j := 0; j <= len(b); j++ { rec(append(append([]byte(nil), a[:i]...), b[j:]...)) } } } }
	keys := make([]string, 0); for k := range classes { keys = append(keys, k) }; sort.Strings(keys)
	for _, k := range keys { fmt.Printf("%8d  %s   e.g. %s\n", classes[k], k, example[k]) }
	fmt.Println("inputs", n)
}
