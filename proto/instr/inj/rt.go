package aml

// verif tick/depth runtime (overlay-only)
var verifSteps, verifDepth, verifMaxDepth, verifStepBudget, verifDepthBudget int

type verifBudget struct{ what string }

func verifEnter() {
	verifSteps++
	verifDepth++
	if verifDepth > verifMaxDepth { verifMaxDepth = verifDepth }
	if verifDepthBudget > 0 && verifDepth > verifDepthBudget { verifDepth = 0; panic(verifBudget{"depth budget exceeded"}) }
	if verifStepBudget > 0 && verifSteps > verifStepBudget { verifDepth = 0; panic(verifBudget{"step budget exceeded"}) }
}
func verifLeave() { if verifDepth > 0 { verifDepth-- } }
func verifTick() {
	verifSteps++
	if verifStepBudget > 0 && verifSteps > verifStepBudget { verifDepth = 0; panic(verifBudget{"step budget exceeded"}) }
}
