//go:build verif

package aml

import (
	"fmt"
	"io/ioutil"
	"testing"
	"unsafe"

	"github.com/ProjectSerenity/firefly/kernel/device/acpi/table"
)

func budgetParse(data []byte) (res string, steps, depth int) {
	headerLen := int(unsafe.Sizeof(table.SDTHeader{}))
	stream := make([]byte, headerLen+len(data))
	copy(stream[headerLen:], data)
	header := (*table.SDTHeader)(unsafe.Pointer(&stream[0]))
	header.Length = uint32(len(stream))
	tree := NewObjectTree()
	tree.CreateDefaultScopes(0)
	verifSteps, verifDepth, verifMaxDepth = 0, 0, 0
	verifStepBudget = 2000 + 400*len(data)
	verifDepthBudget = 64 + 8*len(data)
	defer func() {
		steps, depth = verifSteps, verifMaxDepth
		if r := recover(); r != nil { if b, ok := r.(verifBudget); ok { res = "BUDGET: " + b.what } else { res = fmt.Sprint("PANIC: ", r) } }
	}()
	if err := NewParser(ioutil.Discard, tree).ParseAML(1, "T", header); err != nil { return "err", 0, 0 }
	return "ok", 0, 0
}

func TestVerifInstrProbe(t *testing.T) {
	r, s, d := budgetParse([]byte{0x5b, 0x82, 0x0a, 0x2e, 'E', 'F', 'G', 'H', 'E', 'F', 'G', 'H'})
	fmt.Println("12-byte self-relocation:", r, "steps", s, "maxdepth", d)
	// max steps/depth over all <=3 byte strings over the opcode alphabet
	var alpha []byte
	for b := 0; b < 256; b++ { if opcodeMap[b] != 0xff || b == 0x5b || b == '\\' || b == '^' || b == 'A' || b == '_' || b == 0x2e || b == 0x2f { alpha = append(alpha, byte(b)) } }
	maxS, maxD, n := 0, 0, 0
	var rec func(p []byte)
	rec = func(p []byte) {
		if len(p) > 0 { n++; r, s, d := budgetParse(p); if r != "ok" && r != "err" { fmt.Printf("%x: %s\n", p, r) }; if s > maxS { maxS = s }; if d > maxD { maxD = d } }
		if len(p) == 3 { return }
		for _, a := range alpha { rec(append(append([]byte{}, p...), a)) }
	}
	rec(nil)
	fmt.Println("inputs", n, "max steps", maxS, "max depth", maxD)
}
