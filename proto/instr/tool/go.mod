module instrprobe

go 1.23
