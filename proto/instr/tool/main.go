// tick/depth instrumenter prototype: usage: instr <in.go> <out.go>
package main

import (
	"go/ast"
	"go/format"
	"go/parser"
	"go/token"
	"os"
)

func call(name string) ast.Stmt { return &ast.ExprStmt{X: &ast.CallExpr{Fun: ast.NewIdent(name)}} }

func main() {
	fset := token.NewFileSet()
	f, err := parser.ParseFile(fset, os.Args[1], nil, parser.ParseComments)
	if err != nil { panic(err) }
	n := 0
	ast.Inspect(f, func(node ast.Node) bool {
		switch x := node.(type) {
		case *ast.FuncDecl:
			if x.Body != nil {
				x.Body.List = append([]ast.Stmt{call("verifEnter"), &ast.DeferStmt{Call: &ast.CallExpr{Fun: ast.NewIdent("verifLeave")}}}, x.Body.List...)
				n++
			}
		case *ast.ForStmt:
			x.Body.List = append([]ast.Stmt{call("verifTick")}, x.Body.List...); n++
		case *ast.RangeStmt:
			x.Body.List = append([]ast.Stmt{call("verifTick")}, x.Body.List...); n++
		}
		return true
	})
	if n == 0 { panic("nothing to instrument") }
	out, _ := os.Create(os.Args[2])
	defer out.Close()
	if err := format.Node(out, fset, f); err != nil { panic(err) }
}
