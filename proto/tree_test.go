//go:build verif

package aml

import (
	"fmt"
	"testing"
)

// reference tree
type rnode struct {
	name     [4]byte
	parent   int // -1 none
	children []int
	freed    bool
	live     bool
}
type rtree struct {
	nodes    []rnode
	freelist []int // stack, top at end
}

func (r *rtree) clone() *rtree {
	c := &rtree{nodes: make([]rnode, len(r.nodes)), freelist: append([]int(nil), r.freelist...)}
	for i, n := range r.nodes { c.nodes[i] = n; c.nodes[i].children = append([]int(nil), n.children...) }
	return c
}

type tstate struct {
	tree *ObjectTree
	ref  *rtree
	hist string
}

func cloneTree(t *ObjectTree) *ObjectTree {
	c := &ObjectTree{freeListHeadIndex: t.freeListHeadIndex}
	for _, o := range t.objPool { n := *o; c.objPool = append(c.objPool, &n) }
	return c
}
func (s *tstate) clone() *tstate { return &tstate{cloneTree(s.tree), s.ref.clone(), s.hist} }
func (s *tstate) key() string {
	k := fmt.Sprint(s.tree.freeListHeadIndex)
	for _, o := range s.tree.objPool {
		k += fmt.Sprintf("|%d %s %d %d %d %d %d", o.opcode, o.name[:], o.parentIndex, o.prevSiblingIndex, o.nextSiblingIndex, o.firstArgIndex, o.lastArgIndex)
	}
	return k
}

func idx(i int) uint32 { if i < 0 { return InvalidIndex }; return uint32(i) }

func checkLinks(s *tstate) string {
	t, r := s.tree, s.ref
	if len(t.objPool) != len(r.nodes) { return fmt.Sprintf("pool size %d ref %d", len(t.objPool), len(r.nodes)) }
	for i, n := range r.nodes {
		o := t.objPool[i]
		if n.freed {
			if o.opcode != pOpIntFreedObject { return fmt.Sprintf("node %d should be freed", i) }
			continue
		}
		if o.opcode == pOpIntFreedObject { return fmt.Sprintf("node %d unexpectedly freed", i) }
		if o.parentIndex != idx(n.parent) { return fmt.Sprintf("node %d parent %d ref %d", i, o.parentIndex, n.parent) }
		first, last := -1, -1
		if len(n.children) > 0 { first, last = n.children[0], n.children[len(n.children)-1] }
		if o.firstArgIndex != idx(first) || o.lastArgIndex != idx(last) { return fmt.Sprintf("node %d first/last %d/%d ref %d/%d", i, o.firstArgIndex, o.lastArgIndex, first, last) }
		for ci, c := range n.children {
			co := t.objPool[c]
			prev, next := -1, -1
			if ci > 0 { prev = n.children[ci-1] }
			if ci < len(n.children)-1 { next = n.children[ci+1] }
			if co.prevSiblingIndex != idx(prev) || co.nextSiblingIndex != idx(next) { return fmt.Sprintf("node %d child %d prev/next %d/%d ref %d/%d", i, c, co.prevSiblingIndex, co.nextSiblingIndex, prev, next) }
		}
		if n.parent < 0 { // detached: siblings must be invalid
			if o.prevSiblingIndex != InvalidIndex || o.nextSiblingIndex != InvalidIndex { return fmt.Sprintf("detached node %d has sibling links", i) }
		}
		if uint32(len(n.children)) != t.NumArgs(o) { return "numargs" }
	}
	// free list order
	h := t.freeListHeadIndex
	for i := len(r.freelist) - 1; i >= 0; i-- {
		if h != uint32(r.freelist[i]) { return fmt.Sprintf("freelist mismatch at %d: %d ref %d", i, h, r.freelist[i]) }
		h = t.objPool[h].nextSiblingIndex
	}
	if h != InvalidIndex { return "freelist longer than ref" }
	return ""
}

// reference resolver: children of node are its scope
func (r *rtree) childNamed(scope int, seg []byte) int {
	for _, c := range r.nodes[scope].children { if string(r.nodes[c].name[:]) == string(seg) { return c } }
	return -1
}
func isLead(b byte) bool { return b == '_' || (b >= 'A' && b <= 'Z') }
func (r *rtree) relative(scope int, expr []byte) int {
	i := 0
	if len(expr) == 0 { return scope }
	for i < len(expr) {
		for i < len(expr) && !isLead(expr[i]) { i++ }
		if len(expr)-i < 4 { return -1 }
		scope = r.childNamed(scope, expr[i:i+4])
		if scope < 0 { return -1 }
		i += 4
	}
	return scope
}
func (r *rtree) find(scope int, expr []byte) int {
	if len(expr) == 0 { return -1 }
	switch {
	case expr[0] == '\\':
		if len(expr) == 1 { return 0 }
		return r.relative(0, expr[1:])
	case expr[0] == '^':
		i := 0
		for i < len(expr) && expr[i] == '^' { scope = r.nodes[scope].parent; if scope < 0 { return -1 }; i++ }
		if i == len(expr) { return scope }
		return r.relative(scope, expr[i:])
	case len(expr) > 4:
		return r.relative(scope, expr)
	case len(expr) == 4:
		for s := scope; s >= 0; s = r.nodes[s].parent { if c := r.childNamed(s, expr); c >= 0 { return c } }
	}
	return -1
}

func TestVerifTreeProbe(t *testing.T) {
	names := [][4]byte{{'A', 'A', 'A', 'A'}, {'B', 'B', 'B', 'B'}}
	maxObjs := 4 // beyond root
	maxDepth := 7
	init := &tstate{tree: NewObjectTree(), ref: &rtree{}}
	root := init.tree.newNamedObject(pOpIntScopeBlock, 0, [4]byte{'\\'})
	_ = root
	init.ref.nodes = append(init.ref.nodes, rnode{name: [4]byte{'\\'}, parent: -1})
	seen := map[string]bool{init.key(): true}
	frontier := []*tstate{init}
	trans, viol, lookups, lviol := 0, 0, 0, 0
	var exprs [][]byte
	for _, pre := range []string{"", "\\", "^", "^^", "^^^^"} {
		segsets := []string{"", "AAAA", "BBBB", "CCCC", "AAAABBBB", "AAAAAAAA", "BBBBAAAA", "AAAABBBBAAAA", "\x2eAAAABBBB", "\x2f\x03AAAABBBBAAAA", "\x2f\x02AAAAAAAA", "A", "AB", "ABC", "AAAAB", "AAAABB", "AAAABBB"}
		for _, s := range segsets { exprs = append(exprs, []byte(pre+s)) }
	}
	for depth := 0; depth < maxDepth; depth++ {
		var next []*tstate
		for _, st := range frontier {
			// lookups on this state
			for si, sn := range st.ref.nodes {
				if sn.freed { continue }
				for _, e := range exprs {
					lookups++
					var got uint32
					var pan interface{}
					func() { defer func() { pan = recover() }(); got = st.tree.Find(uint32(si), e) }()
					want := idx(st.ref.find(si, e))
					if pan != nil || got != want {
						lviol++
						if lviol <= 8 { fmt.Printf("LOOKUP VIOL hist=[%s] scope=%d expr=%q got=%d want=%d panic=%v\n", st.hist, si, e, got, int32(want), pan) }
					}
				}
			}
			// ops
			type op struct{ name string; f func(s *tstate) }
			var ops []op
			r := st.ref
			liveCount := 0
			for _, n := range r.nodes { if !n.freed { liveCount++ } }
			if liveCount-1 < maxObjs {
				for _, nm := range names {
					nm := nm
					ops = append(ops, op{"new" + string(nm[:1]), func(s *tstate) {
						o := s.tree.newNamedObject(pOpDevice, 0, nm)
						// ref
						if n := len(s.ref.freelist); n > 0 {
							i := s.ref.freelist[n-1]; s.ref.freelist = s.ref.freelist[:n-1]
							s.ref.nodes[i] = rnode{name: nm, parent: -1}
							if int(o.index) != i { panic(fmt.Sprintf("newObject did not reuse freed slot: got %d want %d", o.index, i)) }
						} else {
							s.ref.nodes = append(s.ref.nodes, rnode{name: nm, parent: -1})
							if int(o.index) != len(s.ref.nodes)-1 { panic("newObject index") }
						}
					}})
				}
			}
			isAncestor := func(a, b int) bool { for x := b; x >= 0; x = r.nodes[x].parent { if x == a { return true } }; return false }
			for ci, cn := range r.nodes {
				if cn.freed || ci == 0 { continue }
				ci := ci
				if cn.parent < 0 {
					for pi, pn := range r.nodes {
						if pn.freed || isAncestor(ci, pi) { continue }
						pi := pi
						ops = append(ops, op{fmt.Sprintf("app%d<-%d", pi, ci), func(s *tstate) {
							s.tree.append(s.tree.ObjectAt(uint32(pi)), s.tree.ObjectAt(uint32(ci)))
							s.ref.nodes[pi].children = append(s.ref.nodes[pi].children, ci); s.ref.nodes[ci].parent = pi
						}})
						for k, sib := range pn.children {
							k, sib := k, sib
							ops = append(ops, op{fmt.Sprintf("appAfter%d<-%d@%d", pi, ci, sib), func(s *tstate) {
								s.tree.appendAfter(s.tree.ObjectAt(uint32(pi)), s.tree.ObjectAt(uint32(ci)), s.tree.ObjectAt(uint32(sib)))
								ch := s.ref.nodes[pi].children
								ch = append(ch[:k+1], append([]int{ci}, ch[k+1:]...)...)
								s.ref.nodes[pi].children = ch; s.ref.nodes[ci].parent = pi
							}})
						}
					}
				} else {
					ops = append(ops, op{fmt.Sprintf("det%d", ci), func(s *tstate) {
						p := s.ref.nodes[ci].parent
						s.tree.detach(s.tree.ObjectAt(uint32(p)), s.tree.ObjectAt(uint32(ci)))
						var ch []int
						for _, c := range s.ref.nodes[p].children { if c != ci { ch = append(ch, c) } }
						s.ref.nodes[p].children = ch; s.ref.nodes[ci].parent = -1
					}})
				}
				if len(cn.children) == 0 {
					ops = append(ops, op{fmt.Sprintf("free%d", ci), func(s *tstate) {
						s.tree.free(s.tree.ObjectAt(uint32(ci)))
						if p := s.ref.nodes[ci].parent; p >= 0 {
							var ch []int
							for _, c := range s.ref.nodes[p].children { if c != ci { ch = append(ch, c) } }
							s.ref.nodes[p].children = ch
						}
						s.ref.nodes[ci] = rnode{freed: true, parent: -1}
						s.ref.freelist = append(s.ref.freelist, ci)
					}})
				}
			}
			for _, o := range ops {
				n := st.clone()
				n.hist += " " + o.name
				var pan interface{}
				func() { defer func() { pan = recover() }(); o.f(n) }()
				trans++
				bad := ""
				if pan != nil { bad = fmt.Sprint("panic: ", pan) } else { bad = checkLinks(n) }
				if bad != "" { viol++; if viol <= 8 { fmt.Printf("TREE VIOL hist=[%s]: %s\n", n.hist, bad) }; continue }
				k := n.key()
				if !seen[k] { seen[k] = true; next = append(next, n) }
			}
		}
		frontier = next
		fmt.Printf("depth %d: states %d frontier %d trans %d lookups %d\n", depth+1, len(seen), len(frontier), trans, lookups)
	}
	fmt.Println("tree violations", viol, "lookup violations", lviol)
}
