//go:build verif

package multiboot

import (
	"encoding/binary"
	"fmt"
	"reflect"
	"runtime/debug"
	"syscall"
	"testing"
	"unsafe"
)

type mmEntry struct{ addr, length uint64; typ uint32 }
type elfSec struct{ name string; flags, addr, size uint64 }
type tagAST struct {
	kind     string // cmdline mmap fb elf unknown
	cmdline  string
	entSize  uint32
	entries  []mmEntry
	fb       []byte // raw fb payload
	secs     []elfSec
	unkSize  int
}

var le = binary.LittleEndian

func encodeBlock(tags []tagAST, strtab *[]byte, strtabAddr uintptr) []byte {
	b := make([]byte, 8)
	for _, t := range tags {
		var payload []byte
		var typ uint32
		switch t.kind {
		case "cmdline":
			typ = 1; payload = append([]byte(t.cmdline), 0)
		case "mmap":
			typ = 6
			payload = make([]byte, 8)
			le.PutUint32(payload[0:], t.entSize)
			for _, e := range t.entries {
				ent := make([]byte, t.entSize)
				le.PutUint64(ent[0:], e.addr); le.PutUint64(ent[8:], e.length); le.PutUint32(ent[16:], e.typ)
				for i := 20; i < len(ent); i++ { ent[i] = 0xEE }
				payload = append(payload, ent...)
			}
		case "fb":
			typ = 8; payload = t.fb
		case "elf":
			typ = 9
			payload = make([]byte, 12)
			le.PutUint32(payload[0:], uint32(len(t.secs)+1)) // +1 strtab section
			le.PutUint32(payload[4:], 64)
			le.PutUint32(payload[8:], uint32(len(t.secs))) // strtab index = last
			*strtab = (*strtab)[:0]
			*strtab = append(*strtab, 0)
			mk := func(nameIdx uint32, flags, addr, size uint64) []byte {
				s := make([]byte, 64)
				le.PutUint32(s[0:], nameIdx); le.PutUint64(s[8:], flags); le.PutUint64(s[16:], addr); le.PutUint64(s[32:], size)
				return s
			}
			for _, sc := range t.secs {
				idx := uint32(len(*strtab))
				*strtab = append(*strtab, append([]byte(sc.name), 0)...)
				payload = append(payload, mk(idx, sc.flags, sc.addr, sc.size)...)
			}
			idx := uint32(len(*strtab))
			*strtab = append(*strtab, []byte(".shstrtab\x00")...)
			payload = append(payload, mk(idx, 0, uint64(strtabAddr), uint64(len(*strtab)+10))...)
		case "unknown":
			typ = 21; payload = make([]byte, t.unkSize)
			for i := range payload { payload[i] = 0xCC }
		}
		hdr := make([]byte, 8)
		le.PutUint32(hdr[0:], typ); le.PutUint32(hdr[4:], uint32(8+len(payload)))
		b = append(b, hdr...); b = append(b, payload...)
		for len(b)%8 != 0 { b = append(b, 0xDD) }
	}
	end := make([]byte, 8); le.PutUint32(end[4:], 8)
	b = append(b, end...)
	le.PutUint32(b[0:], uint32(len(b)))
	return b
}

func guarded(n int) (buf []byte, place func(data []byte) uintptr) {
	pages := (n + 4095) / 4096
	m, err := syscall.Mmap(-1, 0, (pages+1)*4096, syscall.PROT_READ|syscall.PROT_WRITE, syscall.MAP_ANON|syscall.MAP_PRIVATE)
	if err != nil { panic(err) }
	if err := syscall.Mprotect(m[pages*4096:], syscall.PROT_NONE); err != nil { panic(err) }
	return m, func(data []byte) uintptr {
		off := pages*4096 - len(data)
		off &^= 7 // keep 8-byte alignment of the block start; block length is a multiple of 8 anyway
		copy(m[off:], data)
		return uintptr(unsafe.Pointer(&m[off]))
	}
}

func permutations(n int) [][]int {
	if n == 0 { return [][]int{{}} }
	var out [][]int
	for _, p := range permutations(n - 1) { for i := 0; i <= len(p); i++ { q := append(append(append([]int{}, p[:i]...), n-1), p[i:]...); out = append(out, q) } }
	return out
}

func TestVerifC10Probe(t *testing.T) {
	debug.SetPanicOnFault(true)
	_, place := guarded(8192)
	strBuf, _ := guarded(4096)
	var strtab []byte
	strtabAddr := uintptr(unsafe.Pointer(&strBuf[0]))
	n, viol := 0, 0
	report := func(desc, msg string) { viol++; if viol <= 10 { fmt.Printf("VIOL %s: %s\n", desc, msg) } }
	fbRGB := make([]byte, 30)
	le.PutUint64(fbRGB[0:], 0xfd000000); le.PutUint32(fbRGB[8:], 4096); le.PutUint32(fbRGB[12:], 1024); le.PutUint32(fbRGB[16:], 768); fbRGB[20] = 32; fbRGB[21] = 1
	copy(fbRGB[24:], []byte{16, 8, 8, 8, 0, 8})
	fbRGB = fbRGB[:30]
	fbEGA := append([]byte{}, fbRGB[:24]...); fbEGA[21] = 2
	cmdlines := []string{"", "a", "a=b", "a=b c", "  a   b=c ", "=x", "a="}
	expCmd := func(s string) map[string]string {
		m := map[string]string{}
		for _, f := range splitFields(s) {
			eq := -1
			cnt := 0
			for i := range f { if f[i] == '=' { cnt++; if eq < 0 { eq = i } } }
			switch cnt { case 0: m[f] = f; case 1: m[f[:eq]] = f[eq+1:] }
		}
		return m
	}
	types := []uint32{0, 1, 2, 3, 4, 6, 0xFFFFFFFF} // 5 excluded (known deviation)
	var mmaps []tagAST
	for _, es := range []uint32{24, 28, 32, 40} { for cnt := 0; cnt <= 3; cnt++ {
		var ents []mmEntry
		for i := 0; i < cnt; i++ { ents = append(ents, mmEntry{uint64(i) << 32, 0xfff + uint64(i)*(1<<63-7), types[(i*3+int(es))%len(types)]}) }
		mmaps = append(mmaps, tagAST{kind: "mmap", entSize: es, entries: ents})
	}}
	for _, ty := range types { mmaps = append(mmaps, tagAST{kind: "mmap", entSize: 24, entries: []mmEntry{{0, 1<<64 - 1, ty}}}) }
	elfs := []tagAST{
		{kind: "elf", secs: nil},
		{kind: "elf", secs: []elfSec{{".text", 6, 0xffffffff80100000, 4096}}},
		{kind: "elf", secs: []elfSec{{"", 3, 0x1000, 1}, {".empty", 7, 0x2000, 0}, {".averyveryveryverylongsectionname", 1, 0xffffffffffffffff, 1 << 40}}},
	}
	for _, cl := range cmdlines { for _, mmT := range mmaps { for _, elf := range elfs { for _, fb := range [][]byte{fbRGB, fbEGA, nil} { for _, unk := range []int{-1, 0, 3, 5} {
		var tags []tagAST
		tags = append(tags, tagAST{kind: "cmdline", cmdline: cl}, mmT, elf)
		if fb != nil { tags = append(tags, tagAST{kind: "fb", fb: fb}) }
		if unk >= 0 { tags = append(tags, tagAST{kind: "unknown", unkSize: unk}) }
		perms := [][]int{nil}
		if len(cl) <= 1 && mmT.entSize == 24 && len(mmT.entries) <= 1 { perms = permutations(len(tags)) } // full permutation on the small ones
		for _, perm := range perms {
			ord := tags
			if perm != nil { ord = nil; for _, i := range perm { ord = append(ord, tags[i]) } }
			// also a duplicate mmap tag appended last (first must win)
			withDup := append(append([]tagAST{}, ord...), tagAST{kind: "mmap", entSize: 24, entries: []mmEntry{{0xdead, 1, 1}}}, tagAST{kind: "cmdline", cmdline: "dup=1"})
			blk := encodeBlock(withDup, &strtab, strtabAddr)
			copy(strBuf, strtab)
			addr := place(blk)
			SetInfoPtr(addr); cmdLineKV = nil
			n++
			desc := fmt.Sprintf("cl=%q mm=%v/%d elf=%d fb=%d unk=%d perm=%v", cl, mmT.entSize, len(mmT.entries), len(elf.secs), len(fb), unk, perm)
			var pan interface{}
			func() {
				defer func() { pan = recover() }()
				var got []mmEntry
				VisitMemRegions(func(e *MemoryMapEntry) bool { got = append(got, mmEntry{e.PhysAddress, e.Length, uint32(e.Type)}); return true })
				var want []mmEntry
				for _, e := range mmT.entries { ty := e.typ; if ty == 0 || ty > 5 { ty = 2 }; want = append(want, mmEntry{e.addr, e.length, ty}) }
				if !reflect.DeepEqual(got, want) { report(desc, fmt.Sprintf("mem regions got %v want %v", got, want)) }
				var gs []elfSec
				VisitElfSections(func(name string, fl ElfSectionFlag, a uintptr, sz uint64) { gs = append(gs, elfSec{name, uint64(fl), uint64(a), sz}) })
				var ws []elfSec
				for _, s := range elf.secs { if s.size != 0 { ws = append(ws, elfSec{s.name, uint64(uint32(s.flags)), s.addr, s.size}) } }
				ws = append(ws, elfSec{".shstrtab", 0, uint64(strtabAddr), uint64(len(strtab) + 10)})
				if !reflect.DeepEqual(gs, ws) { report(desc, fmt.Sprintf("elf got %v want %v", gs, ws)) }
				info := GetFramebufferInfo()
				if (info != nil) != (fb != nil) { report(desc, "fb presence") }
				if info != nil {
					if info.PhysAddr != 0xfd000000 || info.Pitch != 4096 || info.Width != 1024 || info.Height != 768 || info.Bpp != 32 || uint8(info.Type) != fb[21] { report(desc, "fb fields") }
					ci := info.RGBColorInfo()
					if (ci != nil) != (fb[21] == 1) { report(desc, "rgb presence") }
					if ci != nil && (ci.RedPosition != 16 || ci.RedMaskSize != 8 || ci.GreenPosition != 8 || ci.BluePosition != 0 || ci.BlueMaskSize != 8) { report(desc, "rgb fields") }
				}
				kv := GetBootCmdLine()
				if !reflect.DeepEqual(kv, expCmd(cl)) { report(desc, fmt.Sprintf("cmdline got %v want %v", kv, expCmd(cl))) }
			}()
			if pan != nil { report(desc, fmt.Sprint("panic/fault: ", pan)) }
		}
	}}}}}
	// absent tags
	blk := encodeBlock(nil, &strtab, strtabAddr)
	SetInfoPtr(place(blk)); cmdLineKV = nil
	cnt := 0
	VisitMemRegions(func(*MemoryMapEntry) bool { cnt++; return true })
	VisitElfSections(func(string, ElfSectionFlag, uintptr, uint64) { cnt++ })
	if cnt != 0 || GetFramebufferInfo() != nil || len(GetBootCmdLine()) != 0 { report("empty", "absent tags not empty") }
	fmt.Println("cases", n, "violations", viol)
}

func splitFields(s string) []string {
	var out []string
	cur := ""
	for i := 0; i < len(s); i++ {
		if s[i] == ' ' { if cur != "" { out = append(out, cur); cur = "" } } else { cur += string(s[i]) }
	}
	if cur != "" { out = append(out, cur) }
	return out
}
