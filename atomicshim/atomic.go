//go:build verif
// +build verif

// Package atomic is the shim the C08/C09 overlay substitutes for sync/atomic
// in kernel/sync: every operation is a schedule point of the controlled
// scheduler and an acquire+release edge of the happens-before monitor, then
// performs the operation on the real word.
package atomic

import (
	"unsafe"

	vs "github.com/ProjectSerenity/firefly/kernel/internal/verifsched"
)

func pre(kind uint64, p *uint32) {
	vs.Step(kind<<32 | uint64(*p)) // local key: operation kind + observed value
	vs.SyncOp(uintptr(unsafe.Pointer(p)))
}

func SwapUint32(p *uint32, v uint32) uint32 {
	pre(0x5, p)
	old := *p
	if old != v {
		vs.Wrote()
	}
	*p = v
	return old
}

func StoreUint32(p *uint32, v uint32) {
	pre(0x6, p)
	if *p != v {
		vs.Wrote()
	}
	*p = v
}

func LoadUint32(p *uint32) uint32 {
	pre(0x7, p)
	return *p
}

func CompareAndSwapUint32(p *uint32, old, new uint32) bool {
	pre(0x8, p)
	if *p != old {
		return false
	}
	if old != new {
		vs.Wrote()
	}
	*p = new
	return true
}

func AddUint32(p *uint32, d uint32) uint32 {
	pre(0x9, p)
	if d != 0 {
		vs.Wrote()
	}
	*p += d
	return *p
}

func OrUint32(p *uint32, mask uint32) uint32 {
	pre(0xa, p)
	old := *p
	if old|mask != old {
		vs.Wrote()
	}
	*p = old | mask
	return old
}

func AndUint32(p *uint32, mask uint32) uint32 {
	pre(0xb, p)
	old := *p
	if old&mask != old {
		vs.Wrote()
	}
	*p = old & mask
	return old
}

// The signed and 64-bit forms go through the same scheduling point and monitor edge; the word they operate on is
// identified by its address, whatever its type.

func pre64(kind uint64, p *uint64) {
	vs.Step(kind<<32 | *p&0xffffffff ^ *p>>32)
	vs.SyncOp(uintptr(unsafe.Pointer(p)))
}

func LoadInt32(p *int32) int32     { return int32(LoadUint32((*uint32)(unsafe.Pointer(p)))) }
func StoreInt32(p *int32, v int32) { StoreUint32((*uint32)(unsafe.Pointer(p)), uint32(v)) }
func SwapInt32(p *int32, v int32) int32 {
	return int32(SwapUint32((*uint32)(unsafe.Pointer(p)), uint32(v)))
}
func AddInt32(p *int32, d int32) int32 {
	return int32(AddUint32((*uint32)(unsafe.Pointer(p)), uint32(d)))
}
func OrInt32(p *int32, m int32) int32 {
	return int32(OrUint32((*uint32)(unsafe.Pointer(p)), uint32(m)))
}
func AndInt32(p *int32, m int32) int32 {
	return int32(AndUint32((*uint32)(unsafe.Pointer(p)), uint32(m)))
}
func CompareAndSwapInt32(p *int32, old, new int32) bool {
	return CompareAndSwapUint32((*uint32)(unsafe.Pointer(p)), uint32(old), uint32(new))
}

func LoadUint64(p *uint64) uint64 {
	pre64(0x17, p)
	return *p
}

func StoreUint64(p *uint64, v uint64) {
	pre64(0x16, p)
	if *p != v {
		vs.Wrote()
	}
	*p = v
}

func SwapUint64(p *uint64, v uint64) uint64 {
	pre64(0x15, p)
	old := *p
	if old != v {
		vs.Wrote()
	}
	*p = v
	return old
}

func CompareAndSwapUint64(p *uint64, old, new uint64) bool {
	pre64(0x18, p)
	if *p != old {
		return false
	}
	if old != new {
		vs.Wrote()
	}
	*p = new
	return true
}

func AddUint64(p *uint64, d uint64) uint64 {
	pre64(0x19, p)
	if d != 0 {
		vs.Wrote()
	}
	*p += d
	return *p
}

func LoadInt64(p *int64) int64     { return int64(LoadUint64((*uint64)(unsafe.Pointer(p)))) }
func StoreInt64(p *int64, v int64) { StoreUint64((*uint64)(unsafe.Pointer(p)), uint64(v)) }
func AddInt64(p *int64, d int64) int64 {
	return int64(AddUint64((*uint64)(unsafe.Pointer(p)), uint64(d)))
}
func SwapInt64(p *int64, v int64) int64 {
	return int64(SwapUint64((*uint64)(unsafe.Pointer(p)), uint64(v)))
}
func CompareAndSwapInt64(p *int64, old, new int64) bool {
	return CompareAndSwapUint64((*uint64)(unsafe.Pointer(p)), uint64(old), uint64(new))
}

func LoadUintptr(p *uintptr) uintptr     { return uintptr(LoadUint64((*uint64)(unsafe.Pointer(p)))) }
func StoreUintptr(p *uintptr, v uintptr) { StoreUint64((*uint64)(unsafe.Pointer(p)), uint64(v)) }
func CompareAndSwapUintptr(p *uintptr, old, new uintptr) bool {
	return CompareAndSwapUint64((*uint64)(unsafe.Pointer(p)), uint64(old), uint64(new))
}
