//go:build verif
// +build verif

// Package atomic is the shim the C08/C09 overlay substitutes for sync/atomic
// in kernel/sync: every operation is a schedule point of the controlled
// scheduler and an acquire+release edge of the happens-before monitor, then
// performs the operation on the real word.
package atomic

import (
	"unsafe"

	vs "github.com/ProjectSerenity/firefly/kernel/internal/verifsched"
)

func pre(kind uint64, p *uint32) {
	vs.Step(kind<<32 | uint64(*p)) // local key: operation kind + observed value
	vs.SyncOp(uintptr(unsafe.Pointer(p)))
}

func SwapUint32(p *uint32, v uint32) uint32 {
	pre(0x5, p)
	old := *p
	if old != v {
		vs.Wrote()
	}
	*p = v
	return old
}

func StoreUint32(p *uint32, v uint32) {
	pre(0x6, p)
	if *p != v {
		vs.Wrote()
	}
	*p = v
}

func LoadUint32(p *uint32) uint32 {
	pre(0x7, p)
	return *p
}

func CompareAndSwapUint32(p *uint32, old, new uint32) bool {
	pre(0x8, p)
	if *p != old {
		return false
	}
	if old != new {
		vs.Wrote()
	}
	*p = new
	return true
}

func AddUint32(p *uint32, d uint32) uint32 {
	pre(0x9, p)
	if d != 0 {
		vs.Wrote()
	}
	*p += d
	return *p
}
