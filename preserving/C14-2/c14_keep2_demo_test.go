package acpi

// Demonstration for property C14 (only checksum-valid ACPI tables are
// registered, found via the right root pointer).
//
// Copy to kernel/device/acpi/c14_keep2_demo_test.go and run
//   cd kernel && go test -vet=off -count=1 -run TestC14Keep2Demo ./device/acpi/
//
// The test only states what the property states: which root table address and
// pointer width the probe reports, and which signatures end up registered. It
// makes no assumption about the number or order of map/unmap calls, the
// wording of the log, or the way checksums are calculated.

import (
	"bytes"
	"math/rand"
	"runtime"
	"sort"
	"strings"
	"testing"
	"unsafe"

	"github.com/ProjectSerenity/firefly/kernel"
	"github.com/ProjectSerenity/firefly/kernel/device/acpi/table"
	"github.com/ProjectSerenity/firefly/kernel/mm"
	"github.com/ProjectSerenity/firefly/kernel/mm/vmm"
)

func c14Sum(b []byte) uint8 {
	var s uint8
	for _, v := range b {
		s += v
	}
	return s
}

// TestC14Keep2DemoChecksum compares validTable with a byte-wise reference for
// all small lengths and all start alignments.
func TestC14Keep2DemoChecksum(t *testing.T) {
	rng := rand.New(rand.NewSource(14))
	backing := make([]byte, 4096+64)
	for round := 0; round < 40; round++ {
		for i := range backing {
			backing[i] = byte(rng.Intn(256))
		}
		// every 8th round use bytes that make carries between byte lanes likely
		if round%8 == 0 {
			for i := range backing {
				backing[i] = 0xff
			}
		}
		for off := 0; off < 17; off++ {
			for _, length := range []int{0, 1, 2, 7, 8, 9, 15, 16, 17, 20, 35, 36, 37, 63, 64, 65, 255, 256, 257, 1000, 4000} {
				buf := backing[off : off+length]
				var ptr uintptr
				if length > 0 {
					ptr = uintptr(unsafe.Pointer(&buf[0]))
				} else {
					ptr = uintptr(unsafe.Pointer(&backing[off]))
				}

				want := c14Sum(buf) == 0
				if got := validTable(ptr, uint32(length)); got != want {
					t.Fatalf("round %d off %d len %d: validTable = %t; bytes sum to 0x%02x", round, off, length, got, c14Sum(buf))
				}

				if length == 0 {
					continue
				}

				// fix up one byte so that the bytes sum to zero, then break it again
				pos := rng.Intn(length)
				saved := buf[pos]
				buf[pos] -= c14Sum(buf)
				if !validTable(ptr, uint32(length)) {
					t.Fatalf("round %d off %d len %d: zero-sum bytes reported as invalid", round, off, length)
				}
				buf[pos] += byte(1 + rng.Intn(255))
				if validTable(ptr, uint32(length)) {
					t.Fatalf("round %d off %d len %d: non-zero-sum bytes reported as valid", round, off, length)
				}
				buf[pos] = saved
			}
		}
	}
	runtime.KeepAlive(backing)
}

// TestC14Keep2DemoLocate places the root pointer at various 16-byte aligned
// positions of a multi-page search area, behind decoys.
func TestC14Keep2DemoLocate(t *testing.T) {
	defer func(rsdpLow, rsdpHi, rsdpAlign uintptr) {
		mapFn = vmm.Map
		unmapFn = vmm.Unmap
		rsdpLocationLow = rsdpLow
		rsdpLocationHi = rsdpHi
		rsdpAlignment = rsdpAlign
	}(rsdpLocationLow, rsdpLocationHi, rsdpAlignment)

	const areaLen = 3*4096 + 512

	sizeofRSDP := int(unsafe.Sizeof(table.RSDPDescriptor{}))
	sizeofExt := int(unsafe.Sizeof(table.ExtRSDPDescriptor{}))

	// 16-byte aligned search area of areaLen bytes that starts 256 bytes
	// before a page boundary so that several pages are involved.
	backing := make([]byte, areaLen+2*4096)
	base := uintptr(unsafe.Pointer(&backing[0]))
	skip := int((4096 - base&4095) & 4095)
	skip += 4096 - 256
	area := backing[skip : skip+areaLen]
	areaAddr := uintptr(unsafe.Pointer(&area[0]))
	if areaAddr&15 != 0 {
		t.Fatal("search area not aligned")
	}

	var mapped, unmapped map[mm.Page]int
	mapFn = func(p mm.Page, f mm.Frame, _ vmm.PageTableEntryFlag) *kernel.Error {
		if uintptr(p) != uintptr(f) {
			t.Errorf("page 0x%x is not identity-mapped (frame 0x%x)", uintptr(p), uintptr(f))
		}
		mapped[p]++
		return nil
	}
	unmapFn = func(p mm.Page) *kernel.Error {
		unmapped[p]++
		return nil
	}

	rsdpLocationLow = areaAddr
	rsdpLocationHi = areaAddr + areaLen - 1
	rsdpAlignment = 16

	putRSDP := func(pos int, rev uint8, rsdt uint32, xsdt uint64, valid bool) {
		if rev == 0 {
			d := (*table.RSDPDescriptor)(unsafe.Pointer(&area[pos]))
			d.Signature = rsdpSignature
			d.Revision = rev
			d.RSDTAddr = rsdt
			d.Checksum = 0
			d.Checksum = -c14Sum(area[pos : pos+sizeofRSDP])
			if !valid {
				d.Checksum += 0x5a
			}
			return
		}
		d := (*table.ExtRSDPDescriptor)(unsafe.Pointer(&area[pos]))
		d.Signature = rsdpSignature
		d.Revision = rev
		d.RSDTAddr = rsdt
		d.Length = uint32(sizeofExt)
		d.XSDTAddr = xsdt
		d.Checksum = 0
		d.Checksum = -c14Sum(area[pos : pos+sizeofRSDP])
		d.ExtendedChecksum = 0
		d.ExtendedChecksum = -c14Sum(area[pos : pos+sizeofExt])
		if !valid {
			d.ExtendedChecksum += 0x33
		}
	}

	lastPos := func(size int) int { return ((areaLen - size) / 16) * 16 }

	type spec struct {
		name   string
		rev    uint8
		pos    int
		decoys []int // positions of bad-checksum decoys (all before pos, non-overlapping)
	}
	specs := []spec{
		{"rev0 at start", 0, 0, nil},
		{"rev2 at start", 2, 0, nil},
		{"rev0 straddling a page boundary", 0, 256 - 16, nil},
		{"rev2 straddling a page boundary", 2, 256 - 16, []int{0, 48}},
		{"rev2 straddling second page boundary", 2, 256 + 4096 - 32, []int{256 - 16}},
		{"rev0 in the middle behind decoys", 0, 256 + 4096 + 160, []int{16, 64, 256 + 4096 - 16}},
		{"rev3 in the middle behind decoys", 3, 256 + 2*4096 + 16, []int{0, 256 - 16, 256 + 4096}},
		{"rev0 at the very end", 0, lastPos(sizeofRSDP), []int{32}},
		{"rev2 at the very end", 2, lastPos(sizeofExt), []int{32, 256 + 2*4096 - 16}},
	}

	rng := rand.New(rand.NewSource(1414))
	for _, s := range specs {
		for i := range area {
			area[i] = byte(rng.Intn(256))
		}
		// make sure that random filler never looks like a signature
		for p := 0; p+8 <= areaLen; p += 16 {
			if bytes.Equal(area[p:p+8], rsdpSignature[:]) {
				area[p] = 0
			}
		}

		for i, d := range s.decoys {
			// decoys alternate between the two layouts
			rev := uint8(0)
			if i%2 == 1 {
				rev = 2
			}
			putRSDP(d, rev, 0xdec0de, 0xdec0dedec0de, false)
		}
		const rsdt, xsdt = 0x1234560, 0xabcdef012340
		putRSDP(s.pos, s.rev, rsdt, xsdt, true)

		mapped, unmapped = map[mm.Page]int{}, map[mm.Page]int{}
		addr, useXSDT, err := locateRSDT()
		if err != nil {
			t.Errorf("%s: root pointer at offset %d not found: %v", s.name, s.pos, err.Message)
			continue
		}

		wantAddr, wantX := uintptr(rsdt), false
		if s.rev != 0 {
			wantAddr, wantX = uintptr(xsdt), true
		}
		if addr != wantAddr || useXSDT != wantX {
			t.Errorf("%s: got root table 0x%x (xsdt=%t); want 0x%x (xsdt=%t)", s.name, addr, useXSDT, wantAddr, wantX)
		}

		// whatever was mapped temporarily has been unmapped again
		for p := range mapped {
			if unmapped[p] == 0 {
				t.Errorf("%s: page 0x%x left mapped", s.name, uintptr(p))
			}
		}

		// the driver returned by the probe carries the same information
		drv, _ := probeForACPI().(*acpiDriver)
		if drv == nil {
			t.Errorf("%s: probe failed", s.name)
		} else if drv.rsdtAddr != wantAddr || drv.useXSDT != wantX {
			t.Errorf("%s: probe got root table 0x%x (xsdt=%t)", s.name, drv.rsdtAddr, drv.useXSDT)
		}
	}

	// only decoys: nothing must be found
	for i := range area {
		area[i] = 0
	}
	putRSDP(0, 0, 1, 2, false)
	putRSDP(256-16, 2, 1, 2, false)
	putRSDP(lastPos(sizeofExt), 2, 1, 2, false)
	mapped, unmapped = map[mm.Page]int{}, map[mm.Page]int{}
	if _, _, err := locateRSDT(); err == nil {
		t.Error("found a root pointer although all candidates have a bad checksum")
	}
	if probeForACPI() != nil {
		t.Error("probe succeeded although all candidates have a bad checksum")
	}

	runtime.KeepAlive(backing)
}

// c14Table builds a table with the given signature and total length whose
// bytes sum to zero.
func c14Table(rng *rand.Rand, sig string, length int) []byte {
	buf := make([]byte, length)
	for i := range buf {
		buf[i] = byte(rng.Intn(256))
	}
	h := (*table.SDTHeader)(unsafe.Pointer(&buf[0]))
	copy(h.Signature[:], sig)
	h.Length = uint32(length)
	h.Revision = 1
	c14Fix(buf)
	return buf
}

func c14Fix(buf []byte) {
	h := (*table.SDTHeader)(unsafe.Pointer(&buf[0]))
	h.Checksum = 0
	h.Checksum = -c14Sum(buf)
}

// TestC14Keep2DemoEnumerate builds root tables with 4- and 8-byte entries that
// list tables with distinct signatures (some of them corrupted, at any
// position) and checks which signatures get registered.
func TestC14Keep2DemoEnumerate(t *testing.T) {
	defer func() {
		identityMapFn = vmm.IdentityMapRegion
	}()

	sizeofHeader := int(unsafe.Sizeof(table.SDTHeader{}))
	sizeofFADT := int(unsafe.Sizeof(table.FADT{}))
	rng := rand.New(rand.NewSource(141414))

	sigPool := []string{"APIC", "SSDT", "HPET", "MCFG", "BGRT", "SRAT", "SLIT", "WAET", "TPM2", "ECDT"}

	type tbl struct {
		sig string
		buf []byte
		bad bool
	}

	for iter := 0; iter < 120; iter++ {
		var (
			useXSDT    = iter%2 == 0
			rootRev    = uint8(0)
			withFADT   = iter%3 != 0
			badFADT    = withFADT && iter%7 == 3
			badDSDT    = withFADT && iter%5 == 1
			tables     []*tbl
			dsdt       *tbl
			fadtIndex  = -1
			entryWidth = 4
		)
		if useXSDT {
			rootRev = 2
			entryWidth = 8
		}

		// listed tables, in random order, with distinct signatures
		perm := rng.Perm(len(sigPool))
		n := rng.Intn(len(sigPool) + 1)
		for _, pi := range perm[:n] {
			tables = append(tables, &tbl{sig: sigPool[pi], buf: c14Table(rng, sigPool[pi], sizeofHeader+rng.Intn(300))})
		}
		if withFADT {
			fadtIndex = rng.Intn(len(tables) + 1)
			f := &tbl{sig: fadtSignature, buf: c14Table(rng, fadtSignature, sizeofFADT)}
			tables = append(tables, nil)
			copy(tables[fadtIndex+1:], tables[fadtIndex:])
			tables[fadtIndex] = f
			dsdt = &tbl{sig: "DSDT", buf: c14Table(rng, "DSDT", sizeofHeader+rng.Intn(2000))}
		}

		// all tables the firmware knows about; index = "physical frame" for
		// the 32-bit flavour
		all := append([]*tbl{}, tables...)
		if dsdt != nil {
			all = append(all, dsdt)
		}

		physAddr := func(index int) uint64 {
			hdrAddr := uintptr(unsafe.Pointer(&all[index].buf[0]))
			if useXSDT {
				return uint64(hdrAddr)
			}
			// 32-bit pointers cannot address the test's memory: encode the
			// table index as the frame and keep the page offset, the map
			// hook below translates it back.
			return uint64(uintptr(index)<<mm.PageShift + vmm.PageOffset(hdrAddr))
		}

		if withFADT {
			f := (*table.FADT)(unsafe.Pointer(&tables[fadtIndex].buf[0]))
			if useXSDT {
				f.Ext.Dsdt = physAddr(len(all) - 1)
				f.Dsdt = 0
			} else {
				f.Dsdt = uint32(physAddr(len(all) - 1))
				f.Ext.Dsdt = 0
			}
			c14Fix(tables[fadtIndex].buf)
		}

		// corrupt some tables
		for i, tb := range tables {
			if i == fadtIndex {
				tb.bad = badFADT
			} else {
				tb.bad = rng.Intn(3) == 0
			}
		}
		if dsdt != nil {
			dsdt.bad = badDSDT
		}
		for _, tb := range all {
			if tb.bad {
				// flip a byte anywhere but in the signature or length
				pos := 8 + rng.Intn(len(tb.buf)-8)
				tb.buf[pos] += byte(1 + rng.Intn(255))
			}
		}

		// root table
		root := make([]byte, sizeofHeader+entryWidth*len(tables))
		rh := (*table.SDTHeader)(unsafe.Pointer(&root[0]))
		if useXSDT {
			copy(rh.Signature[:], "XSDT")
		} else {
			copy(rh.Signature[:], "RSDT")
		}
		rh.Length = uint32(len(root))
		rh.Revision = rootRev
		for i := range tables {
			entry := unsafe.Pointer(&root[sizeofHeader+i*entryWidth])
			if useXSDT {
				*(*uint64)(entry) = physAddr(i)
			} else {
				*(*uint32)(entry) = uint32(physAddr(i))
			}
		}
		c14Fix(root)

		identityMapFn = func(frame mm.Frame, _ uintptr, _ vmm.PageTableEntryFlag) (mm.Page, *kernel.Error) {
			if !useXSDT && int(frame) < len(all) {
				return mm.PageFromAddress(uintptr(unsafe.Pointer(&all[int(frame)].buf[0]))), nil
			}
			return mm.Page(frame), nil
		}

		// expectation, straight from the property
		want := map[string]uintptr{}
		var wantReported []string
		for _, tb := range tables {
			if tb.bad {
				wantReported = append(wantReported, tb.sig)
				continue
			}
			want[tb.sig] = uintptr(unsafe.Pointer(&tb.buf[0]))
		}
		if withFADT && !badFADT {
			if dsdt.bad {
				wantReported = append(wantReported, dsdt.sig)
			} else {
				want[dsdt.sig] = uintptr(unsafe.Pointer(&dsdt.buf[0]))
			}
		}

		var out bytes.Buffer
		drv := &acpiDriver{rsdtAddr: uintptr(unsafe.Pointer(&root[0])), useXSDT: useXSDT}
		if err := drv.enumerateTables(&out); err != nil {
			t.Fatalf("iter %d: enumeration stopped: %s", iter, err.Message)
		}

		var got, exp []string
		for sig, hdr := range drv.tableMap {
			got = append(got, sig)
			if w, ok := want[sig]; ok && uintptr(unsafe.Pointer(hdr)) != w {
				t.Errorf("iter %d: %s registered at 0x%x; want 0x%x", iter, sig, uintptr(unsafe.Pointer(hdr)), w)
			}
		}
		for sig := range want {
			exp = append(exp, sig)
		}
		sort.Strings(got)
		sort.Strings(exp)
		if strings.Join(got, ",") != strings.Join(exp, ",") {
			t.Errorf("iter %d (xsdt=%t): registered [%s]; want [%s]", iter, useXSDT, strings.Join(got, ","), strings.Join(exp, ","))
		}

		// bad tables are reported (the wording is not part of the property:
		// only look for the signature)
		for _, sig := range wantReported {
			if !strings.Contains(out.String(), sig) {
				t.Errorf("iter %d: skipped table %s not reported in %q", iter, sig, out.String())
			}
		}

		// the full driver entry point leads to the same registrations
		drv2 := &acpiDriver{rsdtAddr: uintptr(unsafe.Pointer(&root[0])), useXSDT: useXSDT}
		out.Reset()
		if err := drv2.DriverInit(&out); err != nil {
			t.Fatalf("iter %d: DriverInit failed: %s", iter, err.Message)
		}
		if len(drv2.tableMap) != len(want) {
			t.Errorf("iter %d: DriverInit registered %d tables; want %d", iter, len(drv2.tableMap), len(want))
		}
		for sig := range want {
			if drv2.tableMap[sig] == nil {
				t.Errorf("iter %d: DriverInit did not register %s", iter, sig)
			}
		}

		runtime.KeepAlive(all)
		runtime.KeepAlive(root)
	}
}
