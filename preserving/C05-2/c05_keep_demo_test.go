package vmm

// Demonstration for property C05 (kernel address space maps each loaded
// section exactly, with W^X permissions).
//
// The test drives setupPDTForKernel with the real Map / Translate / walk code
// on top of a small software model of the amd64 MMU (4-level tables with the
// recursive mapping in slot 511) and then inspects *only* the resulting page
// tables and the address passed to the PDT switch hook. It makes no assumption
// about the number or order of Map calls, TLB flushes, PDT "mounts" or about
// how individual entries get assembled.
//
// Copy to kernel/mm/vmm/c05_keep_demo_test.go and run:
//   cd kernel && go test -vet=off -count=1 -run TestC05KeepDemo ./mm/vmm/

import (
	"math/rand"
	"runtime"
	"testing"
	"unsafe"

	"github.com/ProjectSerenity/firefly/kernel"
	"github.com/ProjectSerenity/firefly/kernel/mm"
	"github.com/ProjectSerenity/firefly/kernel/multiboot"
)

const (
	c05Entries      = 1 << 9
	c05KernelOffset = uintptr(0xffff800000000000)
)

type c05Section struct {
	name  string
	flags multiboot.ElfSectionFlag
	addr  uintptr
	size  uint64
}

type c05Reservation struct {
	pages  int
	frames []mm.Frame // one per page
}

type c05Leaf struct {
	frame mm.Frame
	rw    bool
	nx    bool
	user  bool
}

// c05Sim is a software model of physical memory that holds page tables.
type c05Sim struct {
	t      *testing.T
	arena  []byte
	base   uintptr
	pages  uintptr
	next   uintptr
	active uintptr // physical address of the active PDT

	lastAlloc uintptr

	switchCalls []uintptr
}

func newC05Sim(t *testing.T, pages uintptr) *c05Sim {
	s := &c05Sim{t: t, pages: pages}
	s.arena = make([]byte, (pages+1)*mm.PageSize)
	s.base = (uintptr(unsafe.Pointer(&s.arena[0])) + mm.PageSize - 1) &^ (mm.PageSize - 1)
	// fill everything with junk so that tables that are not cleared by the
	// code under test are detected
	for i := range s.arena {
		s.arena[i] = 0xf0
	}
	return s
}

func (s *c05Sim) owns(physAddr uintptr) bool {
	return physAddr >= s.base && physAddr < s.base+s.pages*mm.PageSize
}

func (s *c05Sim) alloc() (mm.Frame, *kernel.Error) {
	if s.next >= s.pages {
		s.t.Fatalf("simulated physical memory exhausted")
	}
	addr := s.base + s.next*mm.PageSize
	s.next++
	s.lastAlloc = addr
	return mm.Frame(addr >> mm.PageShift), nil
}

func (s *c05Sim) table(physAddr uintptr) *[c05Entries]pageTableEntry {
	if !s.owns(physAddr) || physAddr&(mm.PageSize-1) != 0 {
		s.t.Fatalf("page table access outside simulated memory: 0x%x", physAddr)
	}
	return (*[c05Entries]pageTableEntry)(unsafe.Pointer(physAddr))
}

// resolve models the MMU: it translates a virtual address to the physical
// address of the page it lives in, using the active PDT.
func (s *c05Sim) resolve(virtAddr uintptr) uintptr {
	tableAddr := s.active
	for level := 0; level < pageLevels; level++ {
		idx := (virtAddr >> pageLevelShifts[level]) & (c05Entries - 1)
		pte := s.table(tableAddr)[idx]
		if !pte.HasFlags(FlagPresent) {
			s.t.Fatalf("simulated MMU: access to 0x%x faults at level %d", virtAddr, level)
		}
		tableAddr = pte.Frame().Address()
	}
	return tableAddr
}

func (s *c05Sim) install() func() {
	origPtePtr, origNextAddr, origFlush := ptePtrFn, nextAddrFn, flushTLBEntryFn
	origActive, origSwitch := activePDTFn, switchPDTFn
	origMapTemp, origUnmap, origMap, origTranslate := mapTemporaryFn, unmapFn, mapFn, translateFn
	origVisit, origLastUsed := visitElfSectionsFn, earlyReserveLastUsed
	origKernelPDT, origProtect := kernelPDT, protectReservedZeroedPage

	mm.SetFrameAllocator(s.alloc)
	ptePtrFn = func(entryAddr uintptr) unsafe.Pointer {
		page := s.resolve(entryAddr)
		return unsafe.Pointer(page + (entryAddr & (mm.PageSize - 1)))
	}
	// Map derives the address of a freshly allocated table from the pointer
	// returned by ptePtrFn, which is not a recursive virtual address in a
	// hosted test; the table that needs clearing is always the frame that
	// was handed out last.
	nextAddrFn = func(uintptr) uintptr { return s.lastAlloc }
	flushTLBEntryFn = func(uintptr) {}
	activePDTFn = func() uintptr { return s.active }
	switchPDTFn = func(addr uintptr) {
		s.switchCalls = append(s.switchCalls, addr)
		s.active = addr
	}
	// physical memory is directly addressable in the model
	mapTemporaryFn = func(f mm.Frame) (mm.Page, *kernel.Error) { return mm.Page(f), nil }
	unmapFn = func(mm.Page) *kernel.Error { return nil }
	mapFn = Map
	translateFn = Translate
	earlyReserveLastUsed = tempMappingAddr
	protectReservedZeroedPage = false

	return func() {
		mm.SetFrameAllocator(nil)
		ptePtrFn, nextAddrFn, flushTLBEntryFn = origPtePtr, origNextAddr, origFlush
		activePDTFn, switchPDTFn = origActive, origSwitch
		mapTemporaryFn, unmapFn, mapFn, translateFn = origMapTemp, origUnmap, origMap, origTranslate
		visitElfSectionsFn, earlyReserveLastUsed = origVisit, origLastUsed
		kernelPDT, protectReservedZeroedPage = origKernelPDT, origProtect
	}
}

// leaves enumerates every present 4K mapping reachable from the PDT at
// rootAddr, excluding the recursive slot. It also fails the test if any
// intermediate entry is a huge page.
func (s *c05Sim) leaves(rootAddr uintptr) map[uintptr]c05Leaf {
	out := make(map[uintptr]c05Leaf)
	var rec func(tableAddr uintptr, level int, prefix uintptr, user bool)
	rec = func(tableAddr uintptr, level int, prefix uintptr, user bool) {
		tbl := s.table(tableAddr)
		for idx := uintptr(0); idx < c05Entries; idx++ {
			if level == 0 && idx == c05Entries-1 {
				continue
			}
			pte := tbl[idx]
			if !pte.HasFlags(FlagPresent) {
				continue
			}
			virt := prefix | idx<<pageLevelShifts[level]
			entryUser := user && pte.HasFlags(FlagUserAccessible)
			if level == pageLevels-1 {
				if virt&(1<<47) != 0 {
					virt |= 0xffff000000000000
				}
				out[virt] = c05Leaf{
					frame: pte.Frame(),
					rw:    pte.HasFlags(FlagRW),
					nx:    pte.HasFlags(FlagNoExecute),
					user:  entryUser,
				}
				continue
			}
			if pte.HasFlags(FlagHugePage) {
				s.t.Fatalf("unexpected huge page entry at level %d", level)
			}
			if !pte.HasFlags(FlagRW) {
				// a read-only intermediate entry would make the
				// pages below it read-only regardless of the leaf
				s.t.Errorf("intermediate entry at level %d for 0x%x is not writable", level, virt)
			}
			if pte.HasFlags(FlagNoExecute) {
				s.t.Errorf("intermediate entry at level %d for 0x%x has NX set", level, virt)
			}
			rec(pte.Frame().Address(), level+1, virt, entryUser)
		}
	}
	rec(rootAddr, 0, 0, true)
	return out
}

func c05Run(t *testing.T, sections []c05Section, reservations []c05Reservation) {
	t.Helper()

	s := newC05Sim(t, 256)
	defer s.install()()

	// build the boot-time address space: an empty, recursively mapped PDT
	bootFrame, _ := s.alloc()
	s.active = bootFrame.Address()
	bootRoot := s.table(s.active)
	for i := range bootRoot {
		bootRoot[i] = 0
	}
	bootRoot[c05Entries-1].SetFrame(bootFrame)
	bootRoot[c05Entries-1].SetFlags(FlagPresent | FlagRW)

	// early reservations, mapped in the boot-time address space
	expected := make(map[uintptr]c05Leaf)
	for _, r := range reservations {
		addr, err := EarlyReserveRegion(uintptr(r.pages) * mm.PageSize)
		if err != nil {
			t.Fatal(err)
		}
		for i := 0; i < r.pages; i++ {
			pageAddr := addr + uintptr(i)*mm.PageSize
			if err := Map(mm.PageFromAddress(pageAddr), r.frames[i], FlagPresent|FlagRW); err != nil {
				t.Fatal(err)
			}
			expected[pageAddr] = c05Leaf{frame: r.frames[i], rw: true}
		}
	}
	bootLeaves := s.leaves(s.active)

	// expected section mappings
	for _, sec := range sections {
		if sec.addr < c05KernelOffset {
			continue
		}
		first := sec.addr &^ (mm.PageSize - 1)
		last := (sec.addr + uintptr(sec.size-1)) &^ (mm.PageSize - 1)
		for pageAddr := first; ; pageAddr += mm.PageSize {
			if _, dup := expected[pageAddr]; dup {
				t.Fatalf("bad test input: page 0x%x used twice", pageAddr)
			}
			expected[pageAddr] = c05Leaf{
				frame: mm.Frame((pageAddr - c05KernelOffset) >> mm.PageShift),
				rw:    sec.flags&multiboot.ElfSectionWritable != 0,
				nx:    sec.flags&multiboot.ElfSectionExecutable == 0,
			}
			if pageAddr == last {
				break
			}
		}
	}

	visitElfSectionsFn = func(v multiboot.ElfSectionVisitor) {
		for _, sec := range sections {
			v(sec.name, sec.flags, sec.addr, sec.size)
		}
	}

	if err := setupPDTForKernel(c05KernelOffset); err != nil {
		t.Fatalf("setupPDTForKernel: %v", err)
	}

	// the new address space is the active one when initialisation returns
	if len(s.switchCalls) == 0 {
		t.Fatal("the new address space was never activated")
	}
	if s.active == bootFrame.Address() {
		t.Fatal("the boot-time address space is still active")
	}
	if got := kernelPDT.pdtFrame.Address(); got != s.active {
		t.Fatalf("active PDT is 0x%x but kernelPDT lives at 0x%x", s.active, got)
	}
	newRoot := s.table(s.active)
	if rec := newRoot[c05Entries-1]; !rec.HasFlags(FlagPresent|FlagRW) || rec.Frame().Address() != s.active {
		t.Fatalf("new PDT is not recursively mapped: %x", uintptr(rec))
	}

	// the boot-time address space got its recursive slot back and did
	// not lose or gain any mappings
	if rec := bootRoot[c05Entries-1]; !rec.HasFlags(FlagPresent) || rec.Frame() != bootFrame {
		t.Errorf("recursive slot of the boot-time PDT not restored: %x", uintptr(rec))
	}
	after := s.leaves(bootFrame.Address())
	if len(after) != len(bootLeaves) {
		t.Errorf("boot-time address space changed: %d mappings before, %d after", len(bootLeaves), len(after))
	}
	for virt, leaf := range bootLeaves {
		if after[virt] != leaf {
			t.Errorf("boot-time mapping for 0x%x changed: %+v -> %+v", virt, leaf, after[virt])
		}
	}

	// the new address space maps exactly what the property says
	got := s.leaves(s.active)
	for virt, exp := range expected {
		leaf, ok := got[virt]
		if !ok {
			t.Errorf("page 0x%x is not mapped", virt)
			continue
		}
		if leaf != exp {
			t.Errorf("page 0x%x: expected %+v; got %+v", virt, exp, leaf)
		}
	}
	for virt, leaf := range got {
		if _, ok := expected[virt]; !ok {
			t.Errorf("unexpected mapping 0x%x -> %+v", virt, leaf)
		}
	}

	// translations through the real Translate code agree as well
	for virt, exp := range expected {
		phys, err := Translate(virt + 0x123)
		if err != nil {
			t.Errorf("Translate(0x%x): %v", virt+0x123, err)
		} else if phys != exp.frame.Address()+0x123 {
			t.Errorf("Translate(0x%x): expected 0x%x; got 0x%x", virt+0x123, exp.frame.Address()+0x123, phys)
		}
	}
}

func c05Frames(start mm.Frame, step int, n int) []mm.Frame {
	out := make([]mm.Frame, n)
	for i := range out {
		out[i] = mm.Frame(int(start) + i*step)
	}
	return out
}

func TestC05KeepDemo(t *testing.T) {
	if runtime.GOARCH != "amd64" {
		t.Skip("test requires amd64 runtime; skipping")
	}

	const (
		W = multiboot.ElfSectionWritable
		A = multiboot.ElfSectionAllocated
		X = multiboot.ElfSectionExecutable
		K = c05KernelOffset
		P = uint64(mm.PageSize)
	)

	t.Run("typical kernel layout", func(t *testing.T) {
		c05Run(t, []c05Section{
			{".rt0", A | X, 0x100000, 3 * P},
			{".text", A | X, K + 0x103000, 37*P + 17},
			{".rodata", A, K + 0x129040, 1},
			{".data", W | A, K + 0x12a000, P},
			{".noptrdata", W | A, K + 0x12b020, P},
			// crosses a P1 table boundary
			{".bss", W | A, K + 0x1f0000, 600 * P},
			{".debug_info", 0, 0x0, 12345},
		}, nil)
	})

	t.Run("all flag combinations with reservations", func(t *testing.T) {
		var secs []c05Section
		for f := multiboot.ElfSectionFlag(0); f < 8; f++ {
			// above the offset: unaligned start, sizes from 1 byte up
			secs = append(secs, c05Section{"hi", f, K + 0x200000 + uintptr(f)*0x10000 + uintptr(f)*0x111, uint64(f)*uint64(f)*700 + 1})
			// below the offset: must stay unmapped
			secs = append(secs, c05Section{"lo", f, 0x200000 + uintptr(f)*0x4000, 2 * P})
		}
		c05Run(t, secs, []c05Reservation{
			{3, c05Frames(0x5000, 1, 3)},            // physically contiguous
			{2, []mm.Frame{0x9123, 0x77}},           // scattered
			{4, []mm.Frame{0x10, 0x11, 0x13, 0x14}}, // two runs
			{3, c05Frames(0x9002, -1, 3)},           // descending
			{2, []mm.Frame{0x8005, 0x8006}},         // one run that spans
			{2, []mm.Frame{0x8003, 0x8004}},         // two adjacent regions
		})
	})

	t.Run("reservations only", func(t *testing.T) {
		c05Run(t, []c05Section{
			{".rt0", A | X, 0x100000, P},
		}, []c05Reservation{
			{5, c05Frames(0x4242, 1, 5)},
			{1, []mm.Frame{0x1}},
		})
	})

	t.Run("page boundary corner cases", func(t *testing.T) {
		c05Run(t, []c05Section{
			// one page in size but misaligned: two pages
			{".a", A | X, K + 0x10032, P},
			// ends exactly on the last byte of a page
			{".b", W, K + 0x13800, 0x800},
			// starts on the last byte of a page, two bytes
			{".c", A, K + 0x15fff, 2},
			// exactly two aligned pages
			{".d", W | A, K + 0x18000, 2 * P},
			// first page of the kernel range
			{".e", X, K, 1},
		}, nil)
	})

	t.Run("random layouts", func(t *testing.T) {
		rng := rand.New(rand.NewSource(5))
		for iter := 0; iter < 25; iter++ {
			var secs []c05Section
			cursor := K + uintptr(rng.Intn(64))*mm.PageSize
			for n := rng.Intn(7); n > 0; n-- {
				start := cursor + uintptr(rng.Intn(int(mm.PageSize)))
				size := uint64(1 + rng.Intn(3*int(mm.PageSize)))
				if rng.Intn(4) == 0 {
					start = cursor
					size = uint64(1+rng.Intn(3)) * P
				}
				flags := multiboot.ElfSectionFlag(rng.Intn(8))
				if rng.Intn(5) == 0 {
					secs = append(secs, c05Section{"low", flags, start - K, size})
				} else {
					secs = append(secs, c05Section{"sec", flags, start, size})
				}
				// next section starts on a fresh page
				cursor = ((start + uintptr(size) - 1) &^ (mm.PageSize - 1)) + uintptr(1+rng.Intn(3))*mm.PageSize
			}

			var rsvs []c05Reservation
			for n := rng.Intn(4); n > 0; n-- {
				pages := 1 + rng.Intn(4)
				frames := make([]mm.Frame, pages)
				next := mm.Frame(1 + rng.Intn(1<<20))
				for i := range frames {
					if rng.Intn(3) == 0 {
						next = mm.Frame(1 + rng.Intn(1<<20))
					}
					frames[i] = next
					next++
				}
				rsvs = append(rsvs, c05Reservation{pages, frames})
			}

			c05Run(t, secs, rsvs)
			if t.Failed() {
				t.Fatalf("failed at iteration %d: sections=%+v reservations=%+v", iter, secs, rsvs)
			}
		}
	})
}
