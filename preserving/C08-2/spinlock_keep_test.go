package sync

import (
	"runtime"
	"sync"
	"sync/atomic"
	"testing"
	"time"
)

// The tests in this file only rely on what the Spinlock contract promises:
// mutual exclusion, an honest TryToAcquire, re-acquirability after Release and
// visibility of the previous holder's work. They do not look at the private
// representation of the lock.

func keepUseGosched(t *testing.T) {
	orig := yieldFn
	yieldFn = runtime.Gosched
	t.Cleanup(func() { yieldFn = orig })
}

// critical is executed while holding the lock. It detects overlapping holders
// through the inside flag and uses a plain (non-atomic) counter so that a
// missing happens-before edge between two holders shows up as a lost update.
type keepShared struct {
	inside   int32
	plain    uint64
	overlaps int32
}

func (s *keepShared) critical(spin int) {
	if atomic.AddInt32(&s.inside, 1) != 1 {
		atomic.AddInt32(&s.overlaps, 1)
	}
	v := s.plain
	for i := 0; i < spin; i++ {
		v += 2
		v -= 2
	}
	s.plain = v + 1
	if atomic.AddInt32(&s.inside, -1) != 0 {
		atomic.AddInt32(&s.overlaps, 1)
	}
}

func TestKeepSpinlockSequential(t *testing.T) {
	keepUseGosched(t)

	var sl Spinlock

	// A fresh lock is free.
	if !sl.TryToAcquire() {
		t.Fatal("TryToAcquire on a fresh lock must succeed")
	}
	// A held lock cannot be taken again; a failed attempt changes nothing, so
	// asking repeatedly keeps giving the same answer.
	for i := 0; i < 5; i++ {
		if sl.TryToAcquire() {
			t.Fatalf("TryToAcquire #%d succeeded on a held lock", i)
		}
	}
	// One single release is enough after any number of failed attempts.
	sl.Release()
	if !sl.TryToAcquire() {
		t.Fatal("TryToAcquire after Release must succeed")
	}
	sl.Release()

	// Releasing a free lock has no effect.
	sl.Release()
	sl.Release()
	sl.Acquire()
	if sl.TryToAcquire() {
		t.Fatal("TryToAcquire succeeded on a lock taken by Acquire")
	}
	sl.Release()

	// Acquire / Release can be repeated, interleaved with TryToAcquire.
	for i := 0; i < 1000; i++ {
		if i%3 == 0 {
			if !sl.TryToAcquire() {
				t.Fatalf("round %d: TryToAcquire on a free lock failed", i)
			}
		} else {
			sl.Acquire()
		}
		if sl.TryToAcquire() {
			t.Fatalf("round %d: TryToAcquire succeeded on a held lock", i)
		}
		sl.Release()
	}

	// The zero value of a second, independent lock is not affected.
	var other Spinlock
	sl.Acquire()
	if !other.TryToAcquire() {
		t.Fatal("independent lock appears held")
	}
	other.Release()
	sl.Release()
}

func TestKeepSpinlockAcquireBlocksWhileHeld(t *testing.T) {
	keepUseGosched(t)

	var (
		sl      Spinlock
		entered int32
		done    = make(chan struct{})
	)

	sl.Acquire()
	go func() {
		sl.Acquire()
		atomic.StoreInt32(&entered, 1)
		sl.Release()
		close(done)
	}()

	time.Sleep(50 * time.Millisecond)
	if atomic.LoadInt32(&entered) != 0 {
		t.Fatal("blocking Acquire returned while the lock was held")
	}
	sl.Release()

	select {
	case <-done:
	case <-time.After(10 * time.Second):
		t.Fatal("blocking Acquire did not return after Release")
	}
	if !sl.TryToAcquire() {
		t.Fatal("lock not free after the last holder released it")
	}
	sl.Release()
}

func TestKeepSpinlockMutualExclusion(t *testing.T) {
	keepUseGosched(t)

	for _, workers := range []int{2, 4, runtime.GOMAXPROCS(0), 2 * runtime.GOMAXPROCS(0)} {
		var (
			sl        Spinlock
			shared    keepShared
			wg        sync.WaitGroup
			successes uint64
			rounds    = 2000
		)

		wg.Add(workers)
		for w := 0; w < workers; w++ {
			go func(w int) {
				defer wg.Done()
				for i := 0; i < rounds; i++ {
					switch (w + i) % 3 {
					case 0:
						// try-acquire; only enter if it said yes
						if sl.TryToAcquire() {
							shared.critical(i % 17)
							atomic.AddUint64(&successes, 1)
							sl.Release()
						}
					default:
						sl.Acquire()
						// while we hold the lock nobody else can get it
						if i%5 == 0 && sl.TryToAcquire() {
							atomic.AddInt32(&shared.overlaps, 1)
						}
						shared.critical(i % 17)
						atomic.AddUint64(&successes, 1)
						sl.Release()
					}
				}
			}(w)
		}
		wg.Wait()

		if n := atomic.LoadInt32(&shared.overlaps); n != 0 {
			t.Fatalf("workers=%d: %d overlapping critical sections", workers, n)
		}
		sl.Acquire()
		if shared.plain != atomic.LoadUint64(&successes) {
			t.Fatalf("workers=%d: lost updates: %d critical sections, counter is %d", workers, successes, shared.plain)
		}
		sl.Release()
	}
}

func TestKeepSpinlockTryWhileHeldThenExactlyOneWinner(t *testing.T) {
	keepUseGosched(t)

	var (
		sl      Spinlock
		callers = 4 * runtime.GOMAXPROCS(0)
	)

	for round := 0; round < 50; round++ {
		// Phase 1: the lock is held; every concurrent try must say no.
		if round%2 == 0 {
			sl.Acquire()
		} else if !sl.TryToAcquire() {
			t.Fatalf("round %d: could not take a free lock", round)
		}

		var (
			wg   sync.WaitGroup
			lied int32
		)
		wg.Add(callers)
		for c := 0; c < callers; c++ {
			go func() {
				defer wg.Done()
				for i := 0; i < 20; i++ {
					if sl.TryToAcquire() {
						atomic.AddInt32(&lied, 1)
					}
				}
			}()
		}
		wg.Wait()
		if lied != 0 {
			t.Fatalf("round %d: %d try-acquires succeeded on a held lock", round, lied)
		}

		// The failed attempts left no trace: one Release frees the lock.
		sl.Release()

		// Phase 2: the lock is free; of many concurrent single attempts
		// exactly one wins (nobody releases during this phase).
		var (
			start = make(chan struct{})
			wins  int32
		)
		wg.Add(callers)
		for c := 0; c < callers; c++ {
			go func() {
				defer wg.Done()
				<-start
				if sl.TryToAcquire() {
					atomic.AddInt32(&wins, 1)
				}
			}()
		}
		close(start)
		wg.Wait()
		if wins != 1 {
			t.Fatalf("round %d: %d winners among concurrent try-acquires on a free lock", round, wins)
		}
		sl.Release()
	}
}

// TestKeepArchAcquireSpinlock drives the arch-specific helper directly with
// several yield budgets. A budget of zero is not exercised under contention:
// its behaviour there is not specified.
func TestKeepArchAcquireSpinlock(t *testing.T) {
	keepUseGosched(t)

	for _, budget := range []uint32{1, 2, 7, 64, 1000} {
		var (
			sl      Spinlock
			shared  keepShared
			wg      sync.WaitGroup
			workers = runtime.GOMAXPROCS(0)
			rounds  = 500
		)

		// uncontended: returns immediately, and the lock is then held
		archAcquireSpinlock(&sl.state, budget)
		if sl.TryToAcquire() {
			t.Fatalf("budget=%d: lock taken by archAcquireSpinlock looks free", budget)
		}
		sl.Release()

		wg.Add(workers)
		for w := 0; w < workers; w++ {
			go func(w int) {
				defer wg.Done()
				for i := 0; i < rounds; i++ {
					if (w+i)%4 == 0 {
						sl.Acquire()
					} else {
						archAcquireSpinlock(&sl.state, budget)
					}
					shared.critical(i % 11)
					sl.Release()
				}
			}(w)
		}
		wg.Wait()

		if shared.overlaps != 0 {
			t.Fatalf("budget=%d: %d overlapping critical sections", budget, shared.overlaps)
		}
		if want := uint64(workers * rounds); shared.plain != want {
			t.Fatalf("budget=%d: counter is %d, want %d", budget, shared.plain, want)
		}
		if !sl.TryToAcquire() {
			t.Fatalf("budget=%d: lock not free at the end", budget)
		}
		sl.Release()
	}
}

// TestKeepSpinlockNoYieldFn checks the uncontended paths when no yield
// function is installed (the situation in the kernel today).
func TestKeepSpinlockNoYieldFn(t *testing.T) {
	orig := yieldFn
	yieldFn = nil
	defer func() { yieldFn = orig }()

	var sl Spinlock
	for i := 0; i < 100; i++ {
		sl.Acquire()
		if sl.TryToAcquire() {
			t.Fatal("TryToAcquire succeeded on a held lock")
		}
		sl.Release()
		archAcquireSpinlock(&sl.state, 1)
		if sl.TryToAcquire() {
			t.Fatal("TryToAcquire succeeded on a held lock")
		}
		sl.Release()
	}

	// A short contended hand-over between two tasks running in parallel on
	// two cores, without any yield function: the waiter simply spins.
	if runtime.GOMAXPROCS(0) >= 2 {
		var handedOver int32
		sl.Acquire()
		done := make(chan struct{})
		go func() {
			sl.Acquire()
			if atomic.LoadInt32(&handedOver) != 1 {
				t.Error("waiter got the lock before it was released")
			}
			sl.Release()
			close(done)
		}()
		time.Sleep(10 * time.Millisecond)
		atomic.StoreInt32(&handedOver, 1)
		sl.Release()
		<-done
	}
}
