package multiboot

// Demonstration for property C10 ("multiboot information is decoded exactly
// and never read past its end").
//
// Copy to kernel/multiboot/multiboot_c10_demo_test.go and run with
//
//	cd kernel && go test -vet=off -count=1 -run TestC10Demo ./multiboot/
//
// Every block is built from scratch, placed so that its last byte is directly
// followed by a PROT_NONE page (so is the section name string table), and the
// decoded results are compared by value against what the block encodes. The
// test makes no assumption about where the values handed to visitors live,
// about whether the block is modified, or about the order/number of reads.

import (
	"encoding/binary"
	"reflect"
	"strings"
	"syscall"
	"testing"
	"unsafe"
)

// c10Guarded returns a copy of data whose last byte is directly followed by an
// inaccessible page, together with a release function.
func c10Guarded(t *testing.T, data []byte) (uintptr, []byte, func()) {
	t.Helper()

	pageSize := syscall.Getpagesize()
	pages := (len(data)+pageSize-1)/pageSize + 1
	mem, err := syscall.Mmap(-1, 0, (pages+1)*pageSize, syscall.PROT_READ|syscall.PROT_WRITE, syscall.MAP_ANON|syscall.MAP_PRIVATE)
	if err != nil {
		t.Fatalf("mmap: %v", err)
	}
	if err = syscall.Mprotect(mem[pages*pageSize:], syscall.PROT_NONE); err != nil {
		t.Fatalf("mprotect: %v", err)
	}

	dst := mem[pages*pageSize-len(data) : pages*pageSize]
	copy(dst, data)
	return uintptr(unsafe.Pointer(&dst[0])), dst, func() { _ = syscall.Munmap(mem) }
}

func c10Tag(typ uint32, payload []byte, padByte byte) []byte {
	out := make([]byte, 8, 8+len(payload)+8)
	binary.LittleEndian.PutUint32(out[0:], typ)
	binary.LittleEndian.PutUint32(out[4:], uint32(8+len(payload)))
	out = append(out, payload...)
	for len(out)%8 != 0 {
		out = append(out, padByte)
	}
	return out
}

func c10Block(tags ...[]byte) []byte {
	out := make([]byte, 8)
	for _, tag := range tags {
		out = append(out, tag...)
	}
	out = append(out, 0, 0, 0, 0, 8, 0, 0, 0) // end tag
	binary.LittleEndian.PutUint32(out[0:], uint32(len(out)))
	return out
}

type c10Region struct {
	addr, length uint64
	typ          uint32
}

func c10MemMap(entrySize int, regions []c10Region) []byte {
	out := make([]byte, 8)
	binary.LittleEndian.PutUint32(out[0:], uint32(entrySize))
	for _, r := range regions {
		entry := make([]byte, entrySize)
		for i := range entry {
			entry[i] = 0xa5 // junk in the reserved/extension area
		}
		binary.LittleEndian.PutUint64(entry[0:], r.addr)
		binary.LittleEndian.PutUint64(entry[8:], r.length)
		binary.LittleEndian.PutUint32(entry[16:], r.typ)
		out = append(out, entry...)
	}
	return out
}

func c10WantType(raw uint32) MemoryEntryType {
	switch MemoryEntryType(raw) {
	case MemAvailable, MemReserved, MemAcpiReclaimable, MemNvs:
		return MemoryEntryType(raw)
	}
	return MemReserved
}

func c10Framebuffer(addr uint64, pitch, w, h uint32, bpp, typ uint8, colorInfo []byte) []byte {
	out := make([]byte, 24)
	binary.LittleEndian.PutUint64(out[0:], addr)
	binary.LittleEndian.PutUint32(out[8:], pitch)
	binary.LittleEndian.PutUint32(out[12:], w)
	binary.LittleEndian.PutUint32(out[16:], h)
	out[20], out[21] = bpp, typ
	return append(out, colorInfo...)
}

type c10Section struct {
	name        string
	flags, addr uint64
	size        uint64
}

// c10ElfTag returns the ELF symbols tag payload and the matching string
// table. The string table section header is appended as the last section.
func c10ElfTag(sections []c10Section) (payload []byte, strtab []byte, patchStrtabAddr func(block []byte, tagPayloadOff int, addr uint64)) {
	strtab = []byte{0}
	nameOff := make([]uint32, len(sections))
	for i, s := range sections {
		nameOff[i] = uint32(len(strtab))
		strtab = append(strtab, s.name...)
		strtab = append(strtab, 0)
	}
	strtabNameOff := uint32(len(strtab))
	strtab = append(strtab, ".shstrtab\x00"...)

	num := len(sections) + 1
	payload = make([]byte, 12, 12+num*64)
	binary.LittleEndian.PutUint32(payload[0:], uint32(num))
	binary.LittleEndian.PutUint32(payload[4:], 64)
	binary.LittleEndian.PutUint32(payload[8:], uint32(num-1))
	for i, s := range sections {
		sec := make([]byte, 64)
		binary.LittleEndian.PutUint32(sec[0:], nameOff[i])
		binary.LittleEndian.PutUint32(sec[4:], 1)
		binary.LittleEndian.PutUint64(sec[8:], s.flags)
		binary.LittleEndian.PutUint64(sec[16:], s.addr)
		binary.LittleEndian.PutUint64(sec[32:], s.size)
		payload = append(payload, sec...)
	}
	sec := make([]byte, 64)
	binary.LittleEndian.PutUint32(sec[0:], strtabNameOff)
	binary.LittleEndian.PutUint32(sec[4:], 3)
	binary.LittleEndian.PutUint64(sec[32:], uint64(len(strtab)))
	payload = append(payload, sec...)

	strtabHdrOff := 12 + (num-1)*64
	return payload, strtab, func(block []byte, tagPayloadOff int, addr uint64) {
		binary.LittleEndian.PutUint64(block[tagPayloadOff+strtabHdrOff+16:], addr)
	}
}

func c10WantCmdLine(text string) map[string]string {
	want := map[string]string{}
	for _, tok := range strings.Fields(text) {
		switch strings.Count(tok, "=") {
		case 0:
			want[tok] = tok
		case 1:
			i := strings.Index(tok, "=")
			want[tok[:i]] = tok[i+1:]
		}
	}
	return want
}

type c10GotSection struct {
	name  string
	flags ElfSectionFlag
	addr  uintptr
	size  uint64
}

func TestC10Demo(t *testing.T) {
	defer func(ptr uintptr, kv map[string]string) { infoData, cmdLineKV = ptr, kv }(infoData, cmdLineKV)

	regionsA := []c10Region{
		{0, 0x9fc00, 1}, {0x9fc00, 0x400, 2}, {0xe0000, 0x20000, 0}, {0x100000, 0x7ee0000, 1},
		{0x7fe0000, 0x20000, 3}, {0x8000000, 0x1000, 4}, {0x8001000, 0x1000, 5}, {0xfffc0000, 0x40000, 0xffffffff},
		{1 << 40, 1 << 33, 0x80000001}, {0xdead0000, 0x10000, 6},
	}
	var regionsLong []c10Region
	for i := 0; i < 300; i++ {
		regionsLong = append(regionsLong, c10Region{uint64(i) << 20, uint64(i+1) << 12, uint32(i % 9)})
	}

	sectionsA := []c10Section{
		{"", 0, 0, 0},
		{".text", 6, 0xffff800000100000, 0x80975},
		{".empty", 2, 0xffff800000181000, 0},
		{".rodata", 2, 0xffff800000181000, 0x3908f},
		{".data", 3, 0xffff800000201000, 0x4ff8},
		{".bss", 3, 0xffff800000206000, 0x12b20},
		{".debug_info", 0, 0, 0x4a09d},
	}
	var sectionsLong []c10Section
	for i := 0; i < 400; i++ {
		size := uint64(i%3) * 0x100
		sectionsLong = append(sectionsLong, c10Section{".sec" + strings.Repeat("x", i%17), uint64(i % 8), 0xffff800000000000 + uint64(i)<<12, size})
	}

	rgbInfo := []byte{16, 8, 8, 8, 0, 8}
	fbRGB := c10Framebuffer(0xfd000000, 4096, 1024, 768, 32, 1, rgbInfo)
	fbEGA := c10Framebuffer(0xb8000, 160, 80, 25, 16, 2, nil)
	fbIndexed := c10Framebuffer(0xa0000, 320, 320, 200, 8, 0, []byte{2, 0, 0, 0, 0, 0, 0xff, 0xff, 0xff})

	scenarios := []struct {
		descr     string
		cmdLine   *string
		entrySize int
		regions   []c10Region // nil: no memory map tag
		fb        []byte      // nil: no framebuffer tag
		sections  []c10Section
		order     string // c=cmdline m=mmap f=framebuffer e=elf x=unrelated tag, upper case = decoy duplicate
		padByte   byte
	}{
		{descr: "no tags at all", order: ""},
		{descr: "qemu-like order", cmdLine: c10Str("param1        param2=value2"), entrySize: 24, regions: regionsA, fb: fbRGB, sections: sectionsA, order: "cxmefx"},
		{descr: "reverse order, junk padding", cmdLine: c10Str("  console=vesa\tnoacpi a= =b x=y=z  "), entrySize: 32, regions: regionsA, fb: fbEGA, sections: sectionsA, order: "xfemc", padByte: 0xff},
		{descr: "duplicates: first tag wins", cmdLine: c10Str("first=1 dup dup=2"), entrySize: 40, regions: regionsA[:3], fb: fbIndexed, sections: sectionsA[:4], order: "mMcCfFeEx", padByte: 0x5a},
		{descr: "only unrelated tags", order: "xxx"},
		{descr: "empty memory map and empty command line", cmdLine: c10Str(""), entrySize: 24, regions: []c10Region{}, order: "mc"},
		{descr: "long tables", cmdLine: c10Str(strings.Repeat("k=v flag ", 40)), entrySize: 24, regions: regionsLong, fb: fbRGB, sections: sectionsLong, order: "emfc"},
		{descr: "single entry, big entry size", entrySize: 72, regions: regionsA[7:8], order: "xm"},
	}

	for _, sc := range scenarios {
		t.Run(sc.descr, func(t *testing.T) {
			var (
				tags          [][]byte
				elfPayloadOff = -1
				patch         func([]byte, int, uint64)
				strtab        []byte
				off           = 8
			)

			for _, kind := range sc.order {
				var tag []byte
				switch kind {
				case 'c':
					if sc.cmdLine != nil {
						tag = c10Tag(1, append([]byte(*sc.cmdLine), 0), sc.padByte)
					}
				case 'C':
					tag = c10Tag(1, []byte("decoy=1 other\x00"), sc.padByte)
				case 'm':
					if sc.regions != nil {
						tag = c10Tag(6, c10MemMap(sc.entrySize, sc.regions), sc.padByte)
					}
				case 'M':
					tag = c10Tag(6, c10MemMap(24, []c10Region{{0x1234000, 0x1000, 1}}), sc.padByte)
				case 'f':
					if sc.fb != nil {
						tag = c10Tag(8, sc.fb, sc.padByte)
					}
				case 'F':
					tag = c10Tag(8, c10Framebuffer(0x1000, 1, 2, 3, 4, 1, []byte{1, 2, 3, 4, 5, 6}), sc.padByte)
				case 'e':
					if sc.sections != nil {
						var payload []byte
						payload, strtab, patch = c10ElfTag(sc.sections)
						tag = c10Tag(9, payload, sc.padByte)
						elfPayloadOff = off + 8
					}
				case 'E':
					// The decoy's string table address is bogus; it must never be followed.
					payload, _, _ := c10ElfTag([]c10Section{{".decoy", 1, 0x1000, 0x10}})
					tag = c10Tag(9, payload, sc.padByte)
				case 'x':
					tag = c10Tag(2, []byte("GRUB 2.02\x00"), sc.padByte)
				}
				tags = append(tags, tag)
				off += len(tag)
			}

			ptr, block, release := c10Guarded(t, c10Block(tags...))
			defer release()

			var strtabPtr uintptr
			if elfPayloadOff >= 0 {
				var releaseStrtab func()
				strtabPtr, _, releaseStrtab = c10Guarded(t, strtab)
				defer releaseStrtab()
				patch(block, elfPayloadOff, uint64(strtabPtr))
			}

			// Use the accessors more than once and in different orders.
			for round := 0; round < 3; round++ {
				SetInfoPtr(ptr)
				cmdLineKV = nil

				checkMem := func() {
					var got []MemoryMapEntry
					VisitMemRegions(func(e *MemoryMapEntry) bool {
						got = append(got, *e)
						return true
					})
					if len(got) != len(sc.regions) {
						t.Fatalf("[round %d] expected %d regions; got %d", round, len(sc.regions), len(got))
					}
					for i, r := range sc.regions {
						want := MemoryMapEntry{PhysAddress: r.addr, Length: r.length, Type: c10WantType(r.typ)}
						if got[i].PhysAddress != want.PhysAddress || got[i].Length != want.Length || got[i].Type != want.Type {
							t.Errorf("[round %d] region %d: expected %+v; got %+v", round, i, want, got[i])
						}
					}

					// Aborting the scan and a scan that is nested in another scan.
					if len(sc.regions) > 1 {
						var visits int
						VisitMemRegions(func(outer *MemoryMapEntry) bool {
							visits++
							var inner int
							VisitMemRegions(func(_ *MemoryMapEntry) bool {
								inner++
								return inner < 2
							})
							if inner != 2 {
								t.Errorf("[round %d] expected nested scan to visit 2 regions; got %d", round, inner)
							}
							if outer.PhysAddress != sc.regions[visits-1].addr || outer.Length != sc.regions[visits-1].length || outer.Type != c10WantType(sc.regions[visits-1].typ) {
								t.Errorf("[round %d] outer region %d changed by nested scan: %+v", round, visits-1, *outer)
							}
							return visits < 2
						})
						if visits != 2 {
							t.Errorf("[round %d] expected aborted scan to visit 2 regions; got %d", round, visits)
						}
					}
				}

				checkFb := func() {
					fb := GetFramebufferInfo()
					if sc.fb == nil {
						if fb != nil {
							t.Fatalf("[round %d] expected no framebuffer info", round)
						}
						return
					}
					if fb == nil {
						t.Fatalf("[round %d] expected framebuffer info", round)
					}
					if fb.PhysAddr != binary.LittleEndian.Uint64(sc.fb[0:]) ||
						fb.Pitch != binary.LittleEndian.Uint32(sc.fb[8:]) ||
						fb.Width != binary.LittleEndian.Uint32(sc.fb[12:]) ||
						fb.Height != binary.LittleEndian.Uint32(sc.fb[16:]) ||
						fb.Bpp != sc.fb[20] || uint8(fb.Type) != sc.fb[21] {
						t.Errorf("[round %d] unexpected framebuffer info: %+v", round, *fb)
					}
					ci := fb.RGBColorInfo()
					if sc.fb[21] != 1 {
						if ci != nil {
							t.Errorf("[round %d] expected no RGB info for framebuffer type %d", round, sc.fb[21])
						}
						return
					}
					if ci == nil {
						t.Fatalf("[round %d] expected RGB info", round)
					}
					want := FramebufferRGBColorInfo{sc.fb[24], sc.fb[25], sc.fb[26], sc.fb[27], sc.fb[28], sc.fb[29]}
					if *ci != want {
						t.Errorf("[round %d] expected RGB layout %+v; got %+v", round, want, *ci)
					}
				}

				checkCmd := func() {
					want := map[string]string{}
					if sc.cmdLine != nil {
						want = c10WantCmdLine(*sc.cmdLine)
					}
					if got := GetBootCmdLine(); !reflect.DeepEqual(got, want) {
						t.Errorf("[round %d] expected command line %v; got %v", round, want, got)
					}
				}

				checkElf := func() {
					var got []c10GotSection
					VisitElfSections(func(name string, flags ElfSectionFlag, addr uintptr, size uint64) {
						// Copy the name; it may alias the string table.
						got = append(got, c10GotSection{string(append([]byte(nil), name...)), flags, addr, size})
					})
					var want []c10GotSection
					for _, s := range sc.sections {
						if s.size != 0 {
							want = append(want, c10GotSection{s.name, ElfSectionFlag(s.flags), uintptr(s.addr), s.size})
						}
					}
					if sc.sections != nil {
						want = append(want, c10GotSection{".shstrtab", 0, strtabPtr, uint64(len(strtab))})
					}
					if !reflect.DeepEqual(got, want) {
						t.Errorf("[round %d] expected sections\n%v\ngot\n%v", round, want, got)
					}
				}

				checks := []func(){checkMem, checkFb, checkCmd, checkElf}
				for i := range checks {
					checks[(i+round)%len(checks)]()
				}
				if round == 2 {
					for i := len(checks) - 1; i >= 0; i-- {
						checks[i]()
					}
				}
			}
		})
	}
}

func c10Str(s string) *string { return &s }
