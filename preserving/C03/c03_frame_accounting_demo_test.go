package pmm

// Demonstration for property C03 (frame accounting). Copy this file to
// kernel/mm/pmm/c03_frame_accounting_demo_test.go and run:
//
//	cd kernel && go test -vet=off -count=1 -run TestC03FrameAccountingDemo ./mm/pmm/
//
// The test only relies on what the property states: it never assumes WHICH
// free frame AllocFrame returns, nor how the allocator represents its state.

import (
	"encoding/binary"
	"math/rand"
	"sort"
	"testing"
	"unsafe"

	"github.com/ProjectSerenity/firefly/kernel"
	"github.com/ProjectSerenity/firefly/kernel/mm"
	"github.com/ProjectSerenity/firefly/kernel/mm/vmm"
	"github.com/ProjectSerenity/firefly/kernel/multiboot"
)

type c03Region struct {
	addr, length uint64
	typ          uint32
}

type c03Scenario struct {
	name    string
	regions []c03Region
	// kernel image location (byte addresses)
	kernelStart, kernelEnd uintptr
	expInitOOM             bool
}

// c03Keep pins the buffers handed to the multiboot package / the allocator
// (they are referenced via uintptr only).
var c03Keep [][]byte

func c03BuildMemMap(regions []c03Region) []byte {
	tagSize := 8 + 8 + 24*len(regions)
	total := 8 + ((tagSize + 7) &^ 7) + 8
	buf := make([]byte, total+8)
	le := binary.LittleEndian
	le.PutUint32(buf[0:], uint32(total))
	le.PutUint32(buf[8:], 6) // memory map tag
	le.PutUint32(buf[12:], uint32(tagSize))
	le.PutUint32(buf[16:], 24) // entry size
	le.PutUint32(buf[20:], 0)  // entry version
	off := 24
	for _, r := range regions {
		le.PutUint64(buf[off:], r.addr)
		le.PutUint64(buf[off+8:], r.length)
		le.PutUint32(buf[off+16:], r.typ)
		off += 24
	}
	// the rest of the buffer is zero: end tag (type 0, size 0)
	c03Keep = append(c03Keep, buf)
	return buf
}

// c03AvailableFrames returns, per available region, the frames that are fully
// contained in it.
func c03AvailableFrames(regions []c03Region) map[mm.Frame]bool {
	out := make(map[mm.Frame]bool)
	ps := uint64(mm.PageSize)
	for _, r := range regions {
		if r.typ != uint32(multiboot.MemAvailable) {
			continue
		}
		first := (r.addr + ps - 1) / ps
		end := (r.addr + r.length) / ps // exclusive
		for f := first; f < end; f++ {
			out[mm.Frame(f)] = true
		}
	}
	return out
}

type c03Snapshot struct {
	total, reserved uint32
	freeCounts      []uint32
	words           []uint64
}

func c03Snap(alloc *BitmapAllocator) c03Snapshot {
	s := c03Snapshot{total: alloc.totalPages, reserved: alloc.reservedPages}
	for i := range alloc.pools {
		s.freeCounts = append(s.freeCounts, alloc.pools[i].freeCount)
		s.words = append(s.words, alloc.pools[i].freeBitmap...)
	}
	return s
}

func (s c03Snapshot) equal(o c03Snapshot) bool {
	if s.total != o.total || s.reserved != o.reserved || len(s.freeCounts) != len(o.freeCounts) || len(s.words) != len(o.words) {
		return false
	}
	for i := range s.freeCounts {
		if s.freeCounts[i] != o.freeCounts[i] {
			return false
		}
	}
	for i := range s.words {
		if s.words[i] != o.words[i] {
			return false
		}
	}
	return true
}

func TestC03FrameAccountingDemo(t *testing.T) {
	defer func() {
		mapFn = vmm.Map
		reserveRegionFn = vmm.EarlyReserveRegion
		bitmapAllocator = BitmapAllocator{}
		bootMemAllocator = BootMemAllocator{}
		mm.SetFrameAllocator(nil)
		multiboot.SetInfoPtr(uintptr(unsafe.Pointer(&multibootMemoryMap[0])))
	}()

	const (
		avail = uint32(multiboot.MemAvailable)
		resvd = uint32(multiboot.MemReserved)
		pg    = uint64(4096)
	)

	kern := func(firstFrame, lastFrame uint64) (uintptr, uintptr) {
		// unaligned start/end inside the first/last kernel frame
		return uintptr(firstFrame*pg + 0x10), uintptr(lastFrame*pg + 0x7c8)
	}

	var scenarios []c03Scenario

	// One region of N frames preceded by a small "low memory" region; the
	// kernel lives in the low region so that all N frames but the early
	// allocations stay usable.
	for _, n := range []uint64{1, 63, 64, 65, 128, 129, 200} {
		ks, ke := kern(0x10, 0x13)
		scenarios = append(scenarios, c03Scenario{
			name: "low+N/" + itoa(n),
			regions: []c03Region{
				{0, 0x20 * pg, avail},
				{0x20 * pg, 0x10 * pg, resvd},
				{0x100 * pg, n * pg, avail},
			},
			kernelStart: ks, kernelEnd: ke,
		})
	}

	// A single region of N frames that also hosts the kernel (first frames,
	// middle, or last frames of the region).
	for _, n := range []uint64{63, 64, 65, 128, 129} {
		base := uint64(0x100)
		ks, ke := kern(base, base+2)
		scenarios = append(scenarios, c03Scenario{
			name:        "single/kernel-first/" + itoa(n),
			regions:     []c03Region{{base * pg, n * pg, avail}},
			kernelStart: ks, kernelEnd: ke,
		})
		ks, ke = kern(base+n-3, base+n-1)
		scenarios = append(scenarios, c03Scenario{
			name:        "single/kernel-last/" + itoa(n),
			regions:     []c03Region{{base * pg, n * pg, avail}},
			kernelStart: ks, kernelEnd: ke,
		})
		ks, ke = kern(base+60, base+62)
		scenarios = append(scenarios, c03Scenario{
			name:        "single/kernel-mid/" + itoa(n),
			regions:     []c03Region{{base * pg, n * pg, avail}},
			kernelStart: ks, kernelEnd: ke,
		})
	}

	// kernel straddles a bitmap word boundary of a 129 frame region; region
	// bounds are not page aligned; tiny sub-page region; several pools.
	{
		ks, ke := kern(0x200+62, 0x200+66)
		scenarios = append(scenarios, c03Scenario{
			name: "multi/unaligned",
			regions: []c03Region{
				{0x1000*0 + 0x400, 0x800, avail},        // less than one whole page
				{0x10*pg + 0x123, 1*pg + 0xfff, avail},  // exactly 1 whole frame (0x11)
				{0x40 * pg, 63 * pg, avail},             // 63 frames
				{0x40*pg + 63*pg, 0x10 * pg, resvd},     // hole
				{0x100*pg - 1, 64*pg + 1 + 0x10, avail}, // 64 whole frames starting at 0x100
				{0x200*pg - 0x10, 129*pg + 0x20, avail}, // 129 whole frames starting at 0x200
				{0x300 * pg, 65 * pg, 7 /* unknown */},  // treated as reserved
				{0x400 * pg, 65 * pg, avail},            // 65 frames
				{0x500 * pg, 128 * pg, avail},           // 128 frames
				{0x500*pg + 128*pg, 0x1000 * pg, resvd},
			},
			kernelStart: ks, kernelEnd: ke,
		})
	}

	// Initialisation must report out-of-memory (and not crash): the only
	// frame of the only region is taken by the kernel image.
	{
		ks, ke := kern(0x100, 0x100)
		scenarios = append(scenarios,
			c03Scenario{
				name:        "oom/kernel-owns-only-frame",
				regions:     []c03Region{{0x100 * pg, 1 * pg, avail}},
				kernelStart: ks, kernelEnd: ke, expInitOOM: true,
			},
		)
	}

	for _, sc := range scenarios {
		sc := sc
		t.Run(sc.name, func(t *testing.T) { c03RunScenario(t, sc) })
	}
}

func itoa(n uint64) string {
	if n == 0 {
		return "0"
	}
	var b []byte
	for ; n > 0; n /= 10 {
		b = append([]byte{byte('0' + n%10)}, b...)
	}
	return string(b)
}

func c03RunScenario(t *testing.T, sc c03Scenario) {
	// "boot" from scratch
	bitmapAllocator = BitmapAllocator{}
	bootMemAllocator = BootMemAllocator{}
	blob := c03BuildMemMap(sc.regions)
	multiboot.SetInfoPtr(uintptr(unsafe.Pointer(&blob[0])))

	var earlyFrames []mm.Frame
	mapFn = func(_ mm.Page, frame mm.Frame, _ vmm.PageTableEntryFlag) *kernel.Error {
		earlyFrames = append(earlyFrames, frame)
		return nil
	}
	reserveRegionFn = func(size uintptr) (uintptr, *kernel.Error) {
		buf := make([]byte, size+2*mm.PageSize)
		for i := range buf {
			buf[i] = 0xf0 // junk; the allocator has to clear its own state
		}
		c03Keep = append(c03Keep, buf)
		addr := (uintptr(unsafe.Pointer(&buf[0])) + mm.PageSize - 1) &^ (mm.PageSize - 1)
		return addr, nil
	}

	err := Init(sc.kernelStart, sc.kernelEnd)
	if sc.expInitOOM {
		if err == nil || err.Message != "out of memory" {
			t.Fatalf("expected Init to report out of memory; got %v", err)
		}
		return
	}
	if err != nil {
		t.Fatalf("unexpected Init error: %v", err)
	}

	alloc := &bitmapAllocator

	// ---- independent model of the usable frame set ----
	available := c03AvailableFrames(sc.regions)
	usable := make(map[mm.Frame]bool, len(available))
	for f := range available {
		usable[f] = true
	}
	ps := uintptr(mm.PageSize)
	kFirst, kLast := mm.Frame(sc.kernelStart/ps), mm.Frame((sc.kernelEnd+ps-1)/ps)-1
	for f := kFirst; f <= kLast; f++ {
		if !available[f] {
			t.Fatalf("bad scenario: kernel frame %d outside available RAM", f)
		}
		delete(usable, f)
	}
	if len(earlyFrames) == 0 {
		t.Fatalf("expected at least one early-boot allocation")
	}
	for _, f := range earlyFrames {
		if !usable[f] {
			t.Fatalf("early allocation %d is not a usable frame (or was handed out twice)", f)
		}
		delete(usable, f)
	}
	total := uint32(len(available))
	baseReserved := total - uint32(len(usable))

	allocated := make(map[mm.Frame]bool)
	checkTotals := func(when string) {
		t.Helper()
		if alloc.totalPages != total {
			t.Fatalf("[%s] total pages: expected %d; got %d", when, total, alloc.totalPages)
		}
		if exp := baseReserved + uint32(len(allocated)); alloc.reservedPages != exp {
			t.Fatalf("[%s] reserved pages: expected %d; got %d", when, exp, alloc.reservedPages)
		}
		var poolFree uint32
		for i := range alloc.pools {
			poolFree += alloc.pools[i].freeCount
		}
		if exp := uint32(len(usable) - len(allocated)); poolFree != exp || alloc.totalPages-alloc.reservedPages != exp {
			t.Fatalf("[%s] free pages: expected %d; got %d (pools) / %d (totals)", when, exp, poolFree, alloc.totalPages-alloc.reservedPages)
		}
	}
	mustAlloc := func(when string) mm.Frame {
		t.Helper()
		f, err := alloc.AllocFrame()
		if err != nil {
			t.Fatalf("[%s] unexpected AllocFrame error with %d usable frames left: %v", when, len(usable)-len(allocated), err)
		}
		if !usable[f] {
			t.Fatalf("[%s] AllocFrame returned frame %d which is not usable RAM", when, f)
		}
		if allocated[f] {
			t.Fatalf("[%s] AllocFrame returned frame %d twice", when, f)
		}
		allocated[f] = true
		checkTotals(when)
		return f
	}
	mustOOM := func(when string) {
		t.Helper()
		before := c03Snap(alloc)
		f, err := alloc.AllocFrame()
		if err != errBitmapAllocOutOfMemory {
			t.Fatalf("[%s] expected out of memory; got frame %d, err %v", when, f, err)
		}
		if !before.equal(c03Snap(alloc)) {
			t.Fatalf("[%s] failed allocation modified the allocator", when)
		}
		checkTotals(when)
	}
	mustFree := func(when string, f mm.Frame) {
		t.Helper()
		if err := alloc.FreeFrame(f); err != nil {
			t.Fatalf("[%s] unexpected error freeing allocated frame %d: %v", when, f, err)
		}
		delete(allocated, f)
		checkTotals(when)
	}
	mustReject := func(when string, f mm.Frame, exp *kernel.Error) {
		t.Helper()
		before := c03Snap(alloc)
		if err := alloc.FreeFrame(f); err != exp {
			t.Fatalf("[%s] FreeFrame(%d): expected error %v; got %v", when, f, exp, err)
		}
		if !before.equal(c03Snap(alloc)) {
			t.Fatalf("[%s] rejected FreeFrame(%d) modified the allocator", when, f)
		}
		checkTotals(when)
	}
	drain := func(when string) {
		t.Helper()
		for len(allocated) < len(usable) {
			mustAlloc(when)
		}
		mustOOM(when)
		mustOOM(when)
	}

	// frames that no pool manages: gaps, neighbours of every region (this
	// includes the frames that would map to the unused tail bits of a pool
	// bitmap), and a few far away values.
	var unmanaged []mm.Frame
	for _, cand := range []mm.Frame{mm.Frame(0xbadf00d), mm.InvalidFrame, mm.Frame(1 << 40)} {
		if !available[cand] {
			unmanaged = append(unmanaged, cand)
		}
	}
	for f := range available {
		if f > 0 && !available[f-1] {
			unmanaged = append(unmanaged, f-1)
		}
		// the frames that follow the end of a region, up to (and one
		// past) a whole bitmap word
		if !available[f+1] {
			for d := mm.Frame(1); d <= 65; d++ {
				if !available[f+d] {
					unmanaged = append(unmanaged, f+d)
				}
			}
		}
	}
	sort.Slice(unmanaged, func(i, j int) bool { return unmanaged[i] < unmanaged[j] })

	usableList := make([]mm.Frame, 0, len(usable))
	for f := range usable {
		usableList = append(usableList, f)
	}
	sort.Slice(usableList, func(i, j int) bool { return usableList[i] < usableList[j] })

	checkTotals("after init")

	// 1. never allocated frames are "already free"; unmanaged are rejected
	for _, f := range usableList {
		mustReject("fresh/double-free", f, errBitmapAllocDoubleFree)
	}
	for _, f := range unmanaged {
		mustReject("fresh/unmanaged", f, errBitmapAllocFrameNotManaged)
	}

	// 2. exactly the usable frames can be allocated before out-of-memory
	drain("drain-1")
	for _, f := range unmanaged {
		mustReject("full/unmanaged", f, errBitmapAllocFrameNotManaged)
	}

	// 3. with the allocator full, freeing frame f makes exactly f allocatable
	for i, f := range usableList {
		if len(usableList) > 40 && i%7 != 0 && i != len(usableList)-1 && i%64 != 63 && i%64 != 0 && i%64 != 1 {
			continue
		}
		mustFree("full/free-one", f)
		mustReject("full/free-twice", f, errBitmapAllocDoubleFree)
		if got := mustAlloc("full/realloc"); got != f {
			t.Fatalf("freed frame %d but the only allocatable frame turned out to be %d", f, got)
		}
		mustOOM("full/after-realloc")
	}

	// 4. free everything (in a scrambled order), double free everything,
	// then drain again.
	rng := rand.New(rand.NewSource(0xC03))
	perm := rng.Perm(len(usableList))
	for _, i := range perm {
		mustFree("free-all", usableList[i])
	}
	for _, f := range usableList {
		mustReject("free-all/double-free", f, errBitmapAllocDoubleFree)
	}
	drain("drain-2")

	// 5. random walk of alloc / free / bad free calls checked against the model
	for step := 0; step < 3000; step++ {
		switch op := rng.Intn(10); {
		case op < 4:
			if len(allocated) == len(usable) {
				mustOOM("walk/oom")
			} else {
				mustAlloc("walk/alloc")
			}
		case op < 7:
			f := usableList[rng.Intn(len(usableList))]
			if allocated[f] {
				mustFree("walk/free", f)
			} else {
				mustReject("walk/double-free", f, errBitmapAllocDoubleFree)
			}
		case op < 8:
			f := unmanaged[rng.Intn(len(unmanaged))]
			mustReject("walk/unmanaged", f, errBitmapAllocFrameNotManaged)
		default:
			// free then immediately free again
			f := usableList[rng.Intn(len(usableList))]
			if allocated[f] {
				mustFree("walk/free2", f)
			}
			mustReject("walk/free2-again", f, errBitmapAllocDoubleFree)
		}
	}
	drain("drain-3")

	// 6. free a handful of frames while full: exactly that many allocations
	// succeed afterwards and they return exactly those frames (in any order).
	freed := make(map[mm.Frame]bool)
	for _, i := range rng.Perm(len(usableList)) {
		if len(freed) == 9 {
			break
		}
		mustFree("full/free-some", usableList[i])
		freed[usableList[i]] = true
	}
	for n := len(freed); n > 0; n-- {
		got := mustAlloc("full/realloc-some")
		if !freed[got] {
			t.Fatalf("AllocFrame returned %d which was not one of the freed frames", got)
		}
		delete(freed, got)
	}
	mustOOM("final")
}
