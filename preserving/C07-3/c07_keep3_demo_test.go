package vmm

import (
	"math"
	"testing"

	"github.com/ProjectSerenity/firefly/kernel"
	"github.com/ProjectSerenity/firefly/kernel/mm"
)

// c07Model is an independent model of what the property promises: it only
// remembers the lowest address handed out so far (initially the temporary
// mapping page) and checks each outcome against the property text. It does
// not care about error identity, log output, internal counters or the order
// in which pages get mapped.
type c07Model struct {
	t   *testing.T
	top uintptr // everything in [top, tempMappingAddr) is already reserved
}

func c07Fits(size, top uintptr) bool {
	pages := size >> mm.PageShift
	if size&(mm.PageSize-1) != 0 {
		pages++
	}
	return pages <= top>>mm.PageShift
}

func (m *c07Model) reserve(size uintptr) {
	m.t.Helper()
	addr, err := EarlyReserveRegion(size)
	if !c07Fits(size, m.top) {
		if err == nil {
			m.t.Fatalf("reserve(0x%x) with 0x%x bytes left: expected an error; got region 0x%x", size, m.top, addr)
		}
		return
	}

	if err != nil {
		m.t.Fatalf("reserve(0x%x) with 0x%x bytes left: unexpected error %v", size, m.top, err)
	}
	if addr&(mm.PageSize-1) != 0 {
		m.t.Fatalf("reserve(0x%x): region start 0x%x is not page-aligned", size, addr)
	}
	if addr > m.top || m.top-addr < size {
		m.t.Fatalf("reserve(0x%x): region [0x%x, 0x%x) is too small or overlaps/wraps", size, addr, m.top)
	}
	if (m.top-addr)&(mm.PageSize-1) != 0 {
		m.t.Fatalf("reserve(0x%x): region length 0x%x is not a page multiple", size, m.top-addr)
	}
	m.top = addr
}

// checkNothingLeaked verifies that failed requests reserved nothing: the
// whole remaining space can still be obtained with a single request, after
// which even a single byte does not fit any more.
func (m *c07Model) checkNothingLeaked() {
	m.t.Helper()
	m.reserve(m.top)
	if m.top != 0 {
		m.t.Fatalf("expected the address space to be exhausted; 0x%x bytes left", m.top)
	}
	m.reserve(1)
	m.reserve(mm.PageSize)
	m.reserve(0)
}

func TestC07Keep3Demo(t *testing.T) {
	defer func(orig uintptr) {
		earlyReserveLastUsed = orig
		mapFn = Map
		earlyReserveRegionFn = EarlyReserveRegion
	}(earlyReserveLastUsed)

	maxUint := uintptr(math.MaxUint64)

	t.Run("reservation sequence", func(t *testing.T) {
		earlyReserveLastUsed = tempMappingAddr
		m := &c07Model{t: t, top: tempMappingAddr}

		sizes := []uintptr{
			0, 1, mm.PageSize - 1, mm.PageSize, mm.PageSize + 1, 12345,
			maxUint, maxUint - (mm.PageSize - 2), maxUint - (mm.PageSize - 1), maxUint - mm.PageSize,
			tempMappingAddr + 1, tempMappingAddr, tempMappingAddr - mm.PageSize,
			1 << 30, (1 << 40) + 7, 1 << 63, (1 << 63) + 1,
			0, 3 * mm.PageSize,
		}
		for _, size := range sizes {
			m.reserve(size)
		}

		// whatever is left minus one page fits; then two pages do not
		m.reserve(m.top - mm.PageSize + 1)
		m.reserve(m.top - mm.PageSize)
		m.reserve(2 * mm.PageSize)
		m.reserve(mm.PageSize + 1)
		m.reserve(maxUint)
		m.checkNothingLeaked()
	})

	t.Run("pseudo-random sequence", func(t *testing.T) {
		earlyReserveLastUsed = tempMappingAddr
		m := &c07Model{t: t, top: tempMappingAddr}

		seed := uint64(0x9e3779b97f4a7c15)
		for i := 0; i < 20000; i++ {
			seed ^= seed << 13
			seed ^= seed >> 7
			seed ^= seed << 17

			// vary the magnitude so that small, huge and wrapping
			// sizes all show up
			size := uintptr(seed) >> (seed % 64)
			if seed&0x100 != 0 {
				size = maxUint - size>>32
			}
			m.reserve(size)
		}
		m.checkNothingLeaked()
	})

	t.Run("map region", func(t *testing.T) {
		earlyReserveLastUsed = tempMappingAddr
		earlyReserveRegionFn = EarlyReserveRegion
		m := &c07Model{t: t, top: tempMappingAddr}

		type mapping struct {
			frame mm.Frame
			flags PageTableEntryFlag
		}
		var (
			mapped   map[mm.Page]mapping
			mapCalls int
		)
		mapFn = func(page mm.Page, frame mm.Frame, flags PageTableEntryFlag) *kernel.Error {
			mapCalls++
			if _, dup := mapped[page]; dup {
				t.Errorf("page 0x%x mapped more than once", page)
			}
			mapped[page] = mapping{frame, flags}
			return nil
		}

		flags := FlagPresent | FlagRW
		startFrame := mm.Frame(0xdf0000)
		for _, size := range []uintptr{0, 1, mm.PageSize, mm.PageSize + 1, 10*mm.PageSize - 1, 17 * mm.PageSize, 123456} {
			mapped, mapCalls = make(map[mm.Page]mapping), 0

			page, err := MapRegion(startFrame, size, flags)
			if err != nil {
				t.Fatalf("MapRegion(0x%x): unexpected error %v", size, err)
			}

			expPages := (size + mm.PageSize - 1) >> mm.PageShift
			if uintptr(mapCalls) != expPages || uintptr(len(mapped)) != expPages {
				t.Fatalf("MapRegion(0x%x): expected exactly %d pages to be mapped; got %d calls for %d distinct pages", size, expPages, mapCalls, len(mapped))
			}
			for i := uintptr(0); i < expPages; i++ {
				got, ok := mapped[page+mm.Page(i)]
				if !ok {
					t.Fatalf("MapRegion(0x%x): page %d of the region was not mapped", size, i)
				}
				if got.frame != startFrame+mm.Frame(i) || got.flags != flags {
					t.Fatalf("MapRegion(0x%x): page %d mapped to frame 0x%x flags 0x%x; expected frame 0x%x flags 0x%x", size, i, got.frame, got.flags, startFrame+mm.Frame(i), flags)
				}
			}

			// the region returned must be what the model expects of a
			// reservation of this size
			addr := page.Address()
			if addr > m.top || m.top-addr < size || addr&(mm.PageSize-1) != 0 {
				t.Fatalf("MapRegion(0x%x): region [0x%x, 0x%x) is too small, unaligned or overlaps", size, addr, m.top)
			}
			m.top = addr
			startFrame += 0x1000
		}

		// requests that do not fit: error, nothing mapped, nothing reserved
		for _, size := range []uintptr{maxUint, maxUint - (mm.PageSize - 2), maxUint - mm.PageSize, m.top + 1, tempMappingAddr} {
			mapped, mapCalls = make(map[mm.Page]mapping), 0
			if _, err := MapRegion(startFrame, size, flags); err == nil {
				t.Fatalf("MapRegion(0x%x): expected an error", size)
			}
			if mapCalls != 0 {
				t.Fatalf("MapRegion(0x%x): failed request mapped %d pages", size, mapCalls)
			}
		}

		// a small address space: 8 pages left, 9 requested, then 8
		earlyReserveLastUsed = 8 * mm.PageSize
		m.top = 8 * mm.PageSize
		mapped, mapCalls = make(map[mm.Page]mapping), 0
		if _, err := MapRegion(startFrame, 8*mm.PageSize+1, flags); err == nil || mapCalls != 0 {
			t.Fatalf("expected a 9 page request to fail without mapping anything; err=%v, calls=%d", err, mapCalls)
		}
		page, err := MapRegion(startFrame, 8*mm.PageSize, flags)
		if err != nil || page != 0 || mapCalls != 8 || len(mapped) != 8 {
			t.Fatalf("expected an 8 page request to use up the address space; page=0x%x err=%v calls=%d", page, err, mapCalls)
		}
		m.top = 0
		m.reserve(1)
		m.reserve(maxUint)
		m.reserve(0)
	})
}
