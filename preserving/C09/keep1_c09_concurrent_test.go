package pmm

// Demonstration for property C09: concurrent frame allocation and freeing
// never duplicates or loses a frame.
//
// Copy to kernel/mm/pmm/keep1_c09_concurrent_test.go and run with:
//
//	cd kernel && go test -vet=off -count=1 -run TestKeep1C09 ./mm/pmm/
//
// The checks below only rely on what the property states. In particular they
// make no assumption about WHICH free frame AllocFrame hands out, about the
// order in which the allocator updates its internal fields, or about how many
// times a call takes the allocator lock.

import (
	"math/bits"
	"runtime"
	gosync "sync"
	"sync/atomic"
	"testing"
	"time"
	_ "unsafe" // for go:linkname

	"github.com/ProjectSerenity/firefly/kernel/mm"
	_ "github.com/ProjectSerenity/firefly/kernel/sync"
)

// The kernel spinlock busy-waits inside a NOSPLIT assembly routine that the Go
// scheduler cannot pre-empt. When running as a hosted test we install
// runtime.Gosched as the spinlock's yield hook (exactly as the spinlock's own
// test does) so that spinning goroutines cannot starve the lock holder.
//
//go:linkname keep1C09SpinlockYieldFn github.com/ProjectSerenity/firefly/kernel/sync.yieldFn
var keep1C09SpinlockYieldFn func()

type keep1C09PoolSpec struct {
	start mm.Frame
	count int
}

// keep1C09NewAllocator builds an allocator with the given pools and then marks
// every frame in preReserved as reserved (the same way init() reserves the
// kernel image frames) so that the initial totals are non-trivial.
func keep1C09NewAllocator(specs []keep1C09PoolSpec, preReserved []mm.Frame) *BitmapAllocator {
	alloc := new(BitmapAllocator)
	for _, spec := range specs {
		alloc.pools = append(alloc.pools, framePool{
			startFrame: spec.start,
			endFrame:   spec.start + mm.Frame(spec.count) - 1,
			freeCount:  uint32(spec.count),
			freeBitmap: make([]uint64, (spec.count+63)/64),
		})
		alloc.totalPages += uint32(spec.count)
	}

	for _, frame := range preReserved {
		alloc.markFrame(alloc.poolForFrame(frame), frame, markReserved)
	}
	return alloc
}

// keep1C09CheckQuiescent verifies the allocator totals against the expected
// number of reserved frames once no call is in flight.
func keep1C09CheckQuiescent(t *testing.T, alloc *BitmapAllocator, specs []keep1C09PoolSpec, expTotal, expReserved uint32) {
	t.Helper()

	if alloc.totalPages != expTotal {
		t.Errorf("expected totalPages to be %d; got %d", expTotal, alloc.totalPages)
	}
	if alloc.reservedPages != expReserved {
		t.Errorf("expected reservedPages to be %d; got %d", expReserved, alloc.reservedPages)
	}

	var sumFree, sumBits uint32
	for poolIndex := range alloc.pools {
		pool := &alloc.pools[poolIndex]
		sumFree += pool.freeCount

		// count the reserved bits that correspond to real frames
		var poolBits uint32
		for rel := 0; rel < specs[poolIndex].count; rel++ {
			if pool.freeBitmap[rel>>6]&(1<<(63-uint(rel&63))) != 0 {
				poolBits++
			}
		}
		if exp := uint32(specs[poolIndex].count) - pool.freeCount; poolBits != exp {
			t.Errorf("[pool %d] bitmap has %d reserved frames but freeCount (%d) implies %d", poolIndex, poolBits, pool.freeCount, exp)
		}

		// padding bits must never be handed out
		if tail := specs[poolIndex].count & 63; tail != 0 {
			padMask := (uint64(1) << (64 - uint(tail))) - 1
			if last := pool.freeBitmap[len(pool.freeBitmap)-1]; last&padMask != 0 {
				t.Errorf("[pool %d] %d padding bits are flagged as reserved", poolIndex, bits.OnesCount64(last&padMask))
			}
		}
		sumBits += poolBits
	}

	if exp := expTotal - expReserved; sumFree != exp {
		t.Errorf("expected the pool free counts to add up to %d; got %d", exp, sumFree)
	}
	if sumBits != expReserved {
		t.Errorf("expected %d frames to be flagged as reserved in the bitmaps; got %d", expReserved, sumBits)
	}
}

func TestKeep1C09ConcurrentAllocFree(t *testing.T) {
	defer func(orig func()) { keep1C09SpinlockYieldFn = orig }(keep1C09SpinlockYieldFn)
	keep1C09SpinlockYieldFn = runtime.Gosched

	defer runtime.GOMAXPROCS(runtime.GOMAXPROCS(0))
	if runtime.GOMAXPROCS(0) < 4 {
		runtime.GOMAXPROCS(4)
	}

	const unmanagedFrame = mm.Frame(0xbadf00d)

	scenarios := []struct {
		name        string
		pools       []keep1C09PoolSpec
		preReserved []mm.Frame
		workers     int
		maxHeld     int
		opsPerWork  int
	}{
		{
			name:       "single tiny pool; everybody fights over one word",
			pools:      []keep1C09PoolSpec{{0, 8}},
			workers:    16,
			maxHeld:    3,
			opsPerWork: 4000,
		},
		{
			name:        "two pools; second one straddles a word boundary",
			pools:       []keep1C09PoolSpec{{16, 3}, {64, 70}},
			preReserved: []mm.Frame{17, 64, 65, 127, 128},
			workers:     16,
			maxHeld:     8,
			opsPerWork:  4000,
		},
		{
			name:        "exactly one full word",
			pools:       []keep1C09PoolSpec{{1000, 64}},
			preReserved: []mm.Frame{1000, 1063},
			workers:     8,
			maxHeld:     12,
			opsPerWork:  4000,
		},
		{
			name:       "word plus one frame and a single-frame pool",
			pools:      []keep1C09PoolSpec{{0, 65}, {4096, 1}},
			workers:    16,
			maxHeld:    6,
			opsPerWork: 4000,
		},
		{
			name:        "three pools; few callers",
			pools:       []keep1C09PoolSpec{{10, 5}, {200, 130}, {900, 2}},
			preReserved: []mm.Frame{12, 200, 263, 264, 329, 901},
			workers:     3,
			maxHeld:     60,
			opsPerWork:  6000,
		},
		{
			name:       "two callers; two frames",
			pools:      []keep1C09PoolSpec{{7, 2}},
			workers:    2,
			maxHeld:    2,
			opsPerWork: 8000,
		},
	}

	for scIndex, sc := range scenarios {
		alloc := keep1C09NewAllocator(sc.pools, sc.preReserved)

		var (
			maxFrame     mm.Frame
			initTotal    uint32
			initReserved = uint32(len(sc.preReserved))
		)
		for _, spec := range sc.pools {
			initTotal += uint32(spec.count)
			if end := spec.start + mm.Frame(spec.count); end > maxFrame {
				maxFrame = end
			}
		}
		keep1C09CheckQuiescent(t, alloc, sc.pools, initTotal, initReserved)

		// allocatable[f] is true for frames that may legally be returned
		// by AllocFrame. owner[f] tracks the caller currently holding f.
		allocatable := make([]bool, maxFrame)
		for _, spec := range sc.pools {
			for f := spec.start; f < spec.start+mm.Frame(spec.count); f++ {
				allocatable[f] = true
			}
		}
		for _, f := range sc.preReserved {
			allocatable[f] = false
		}
		owner := make([]int32, maxFrame)

		var (
			wg        gosync.WaitGroup
			held      = make([][]mm.Frame, sc.workers)
			oomCount  uint64
			allocs    uint64
			violation atomic.Value
		)
		fail := func(msg string) { violation.Store(msg) }

		wg.Add(sc.workers)
		for w := 0; w < sc.workers; w++ {
			held[w] = make([]mm.Frame, 0, sc.maxHeld)
			go func(w int) {
				defer wg.Done()
				rng := uint64(0x9e3779b97f4a7c15)*uint64(w+1) + uint64(scIndex)*7919 + 1
				mine := held[w]
				for op := 0; op < sc.opsPerWork; op++ {
					rng ^= rng << 13
					rng ^= rng >> 7
					rng ^= rng << 17

					switch {
					case rng%64 == 0:
						// frames outside of the pools are never accepted
						if err := alloc.FreeFrame(unmanagedFrame + mm.Frame(w)); err == nil {
							fail("FreeFrame accepted a frame that is not part of any pool")
							return
						}
					case len(mine) < sc.maxHeld && (len(mine) == 0 || rng&0x300 != 0):
						frame, err := alloc.AllocFrame()
						if err != nil {
							atomic.AddUint64(&oomCount, 1)
							if frame != mm.InvalidFrame {
								fail("failed AllocFrame call returned a valid frame")
								return
							}
							// make room for the others
							if len(mine) > 0 {
								f := mine[len(mine)-1]
								mine = mine[:len(mine)-1]
								atomic.StoreInt32(&owner[f], 0)
								if err := alloc.FreeFrame(f); err != nil {
									fail("FreeFrame failed for a held frame: " + err.Message)
									return
								}
							}
							continue
						}
						atomic.AddUint64(&allocs, 1)
						if frame >= maxFrame || !allocatable[frame] {
							fail("AllocFrame returned a frame that is not allocatable")
							return
						}
						if !atomic.CompareAndSwapInt32(&owner[frame], 0, int32(w+1)) {
							fail("AllocFrame returned a frame that is held by another caller")
							return
						}
						mine = append(mine, frame)
					default:
						// free a pseudo-random held frame
						i := int((rng >> 20) % uint64(len(mine)))
						f := mine[i]
						mine[i] = mine[len(mine)-1]
						mine = mine[:len(mine)-1]
						if !atomic.CompareAndSwapInt32(&owner[f], int32(w+1), 0) {
							fail("ownership of a held frame changed")
							return
						}
						if err := alloc.FreeFrame(f); err != nil {
							fail("FreeFrame failed for a held frame: " + err.Message)
							return
						}
					}
				}
				held[w] = mine
			}(w)
		}

		done := make(chan struct{})
		go func() { wg.Wait(); close(done) }()
		select {
		case <-done:
		case <-time.After(120 * time.Second):
			t.Fatalf("[%s] callers are still blocked after 120s", sc.name)
		}

		if msg := violation.Load(); msg != nil {
			t.Fatalf("[%s] %s", sc.name, msg)
		}
		if allocs == 0 {
			t.Fatalf("[%s] no allocation succeeded", sc.name)
		}

		// Totals once everybody has stopped: initial totals adjusted by
		// the frames still held.
		var stillHeld uint32
		for w := range held {
			for _, f := range held[w] {
				if owner[f] != int32(w+1) {
					t.Fatalf("[%s] frame %d is held by caller %d but is owned by %d", sc.name, f, w+1, owner[f])
				}
				stillHeld++
			}
		}
		keep1C09CheckQuiescent(t, alloc, sc.pools, initTotal, initReserved+stillHeld)

		// No frame has been lost: draining the allocator must hand out
		// every frame that is neither pre-reserved nor held, exactly once.
		expFree := initTotal - initReserved - stillHeld
		drained := make([]mm.Frame, 0, expFree)
		for {
			frame, err := alloc.AllocFrame()
			if err != nil {
				break
			}
			if frame >= maxFrame || !allocatable[frame] || owner[frame] != 0 {
				t.Fatalf("[%s] drain: frame %d is not allocatable or is already held (owner %d)", sc.name, frame, owner[frame])
			}
			owner[frame] = -1
			drained = append(drained, frame)
			if uint32(len(drained)) > expFree {
				t.Fatalf("[%s] drain: allocator handed out more than the expected %d frames", sc.name, expFree)
			}
		}
		if uint32(len(drained)) != expFree {
			t.Fatalf("[%s] drain: expected to allocate %d frames; got %d", sc.name, expFree, len(drained))
		}
		keep1C09CheckQuiescent(t, alloc, sc.pools, initTotal, initTotal)

		// Every freed frame becomes allocatable again: with all other
		// frames taken, a freed frame is the only legal answer.
		for f := mm.Frame(0); f < maxFrame; f++ {
			if !allocatable[f] {
				continue
			}
			if err := alloc.FreeFrame(f); err != nil {
				t.Fatalf("[%s] FreeFrame(%d): %v", sc.name, f, err)
			}
			got, err := alloc.AllocFrame()
			if err != nil || got != f {
				t.Fatalf("[%s] expected freed frame %d to be allocated again; got %d (err: %v)", sc.name, f, got, err)
			}
			if _, err := alloc.AllocFrame(); err == nil {
				t.Fatalf("[%s] expected allocator to be out of memory", sc.name)
			}
		}

		// Release everything; totals go back to the initial ones.
		for f := mm.Frame(0); f < maxFrame; f++ {
			if !allocatable[f] {
				continue
			}
			if err := alloc.FreeFrame(f); err != nil {
				t.Fatalf("[%s] FreeFrame(%d): %v", sc.name, f, err)
			}
		}
		keep1C09CheckQuiescent(t, alloc, sc.pools, initTotal, initReserved)

		t.Logf("[%s] %d callers: %d allocations, %d out-of-memory results, %d frames held at the end",
			sc.name, sc.workers, allocs, oomCount, stillHeld)
	}
}

// TestKeep1C09FreedFramesAreReused runs a deterministic single-caller history
// with frees interleaved between allocations and checks that frames released
// anywhere in the pools are found again, whatever the search order is.
func TestKeep1C09FreedFramesAreReused(t *testing.T) {
	specs := []keep1C09PoolSpec{{0, 8}, {64, 128}, {512, 67}}
	alloc := keep1C09NewAllocator(specs, nil)
	total := uint32(8 + 128 + 67)

	seen := make(map[mm.Frame]bool)
	for i := uint32(0); i < total; i++ {
		f, err := alloc.AllocFrame()
		if err != nil {
			t.Fatalf("unexpected error after %d allocations: %v", i, err)
		}
		if seen[f] {
			t.Fatalf("frame %d allocated twice", f)
		}
		if alloc.poolForFrame(f) < 0 {
			t.Fatalf("frame %d is not part of any pool", f)
		}
		seen[f] = true
	}
	if _, err := alloc.AllocFrame(); err == nil {
		t.Fatal("expected out of memory error")
	}
	keep1C09CheckQuiescent(t, alloc, specs, total, total)

	// Free a set of frames spread over all pools (low, high, across word
	// boundaries) and make sure the very same set is handed out again.
	freed := []mm.Frame{3, 64, 127, 128, 191, 512, 575, 576, 578, 0, 7}
	for round := 0; round < 3; round++ {
		for _, f := range freed {
			if err := alloc.FreeFrame(f); err != nil {
				t.Fatalf("FreeFrame(%d): %v", f, err)
			}
		}
		keep1C09CheckQuiescent(t, alloc, specs, total, total-uint32(len(freed)))

		got := make(map[mm.Frame]bool)
		for range freed {
			f, err := alloc.AllocFrame()
			if err != nil {
				t.Fatalf("unexpected error: %v", err)
			}
			got[f] = true
		}
		for _, f := range freed {
			if !got[f] {
				t.Fatalf("round %d: freed frame %d was not allocated again", round, f)
			}
		}
		if _, err := alloc.AllocFrame(); err == nil {
			t.Fatal("expected out of memory error")
		}
		// rotate the list so that the free order differs between rounds
		freed = append(freed[4:], freed[:4]...)
	}

	if err := alloc.FreeFrame(mm.Frame(300)); err == nil {
		t.Fatal("expected an error when freeing a frame in the gap between two pools")
	}
	if err := alloc.FreeFrame(mm.Frame(3)); err != nil {
		t.Fatalf("FreeFrame(3): %v", err)
	}
	if err := alloc.FreeFrame(mm.Frame(3)); err == nil {
		t.Fatal("expected an error when freeing a frame twice")
	}
	keep1C09CheckQuiescent(t, alloc, specs, total, total-1)
}
