package pmm

// Demonstration for property C03 (frame accounting).
//
// Copy to kernel/mm/pmm/c03_keep_demo_test.go and run:
//   cd kernel && go test -vet=off -count=1 -run TestC03KeepDemo ./mm/pmm/
//
// The test only relies on what the property states: it models the allocator
// as a set of usable frames and never looks at the bitmap layout, at the
// order in which frames are handed out or at any log output.

import (
	"encoding/binary"
	"math/rand"
	"runtime"
	"testing"
	"unsafe"

	"github.com/ProjectSerenity/firefly/kernel"
	"github.com/ProjectSerenity/firefly/kernel/mm"
	"github.com/ProjectSerenity/firefly/kernel/mm/vmm"
	"github.com/ProjectSerenity/firefly/kernel/multiboot"
)

type c03Region struct {
	addr, length uint64
	available    bool
}

// c03BuildMultibootInfo encodes a multiboot info blob that only contains a
// memory map tag. The blob is backed by a []uint64 so it is 8-byte aligned.
func c03BuildMultibootInfo(regions []c03Region) []uint64 {
	tagSize := 8 + 8 + 24*len(regions)
	total := 8 + tagSize + 8
	backing := make([]uint64, (total+7)/8+1)
	buf := (*[1 << 20]byte)(unsafe.Pointer(&backing[0]))[: len(backing)*8 : len(backing)*8]

	le := binary.LittleEndian
	le.PutUint32(buf[0:], uint32(total))
	le.PutUint32(buf[4:], 0)
	le.PutUint32(buf[8:], 6) // memory map tag
	le.PutUint32(buf[12:], uint32(tagSize))
	le.PutUint32(buf[16:], 24) // entry size
	le.PutUint32(buf[20:], 0)  // entry version
	off := 24
	for _, r := range regions {
		le.PutUint64(buf[off:], r.addr)
		le.PutUint64(buf[off+8:], r.length)
		if r.available {
			le.PutUint32(buf[off+16:], 1)
		} else {
			le.PutUint32(buf[off+16:], 2)
		}
		le.PutUint32(buf[off+20:], 0)
		off += 24
	}
	// end tag: type 0, size 8
	le.PutUint32(buf[off:], 0)
	le.PutUint32(buf[off+4:], 8)
	return backing
}

// c03RegionFrames returns the whole frames contained in an available region.
func c03RegionFrames(r c03Region) (first, last uint64, ok bool) {
	const pageSize = uint64(mm.PageSize)
	first = (r.addr + pageSize - 1) / pageSize
	end := (r.addr + r.length) / pageSize // exclusive
	if end <= first {
		return 0, 0, false
	}
	return first, end - 1, true
}

func c03Totals(t *testing.T, alloc *BitmapAllocator, expTotal, expReserved int, what string) {
	t.Helper()
	if int(alloc.totalPages) != expTotal {
		t.Fatalf("%s: expected totalPages %d; got %d", what, expTotal, alloc.totalPages)
	}
	if int(alloc.reservedPages) != expReserved {
		t.Fatalf("%s: expected reservedPages %d; got %d", what, expReserved, alloc.reservedPages)
	}
	var free int
	for i := range alloc.pools {
		free += int(alloc.pools[i].freeCount)
	}
	if free != expTotal-expReserved {
		t.Fatalf("%s: expected the pools to report %d free frames; got %d", what, expTotal-expReserved, free)
	}
}

// c03Exercise drives an allocator whose usable frames are given by usable
// (all other managed frames are reserved for good) through the allocate/free
// histories the property talks about.
func c03Exercise(t *testing.T, alloc *BitmapAllocator, managed, usable map[mm.Frame]bool, unmanaged []mm.Frame, seed int64) {
	t.Helper()
	total := len(managed)
	baseReserved := total - len(usable)
	rng := rand.New(rand.NewSource(seed))

	c03Totals(t, alloc, total, baseReserved, "initial state")

	allocated := map[mm.Frame]bool{}
	var allocList []mm.Frame

	allocOne := func(what string) mm.Frame {
		t.Helper()
		frame, err := alloc.AllocFrame()
		if err != nil {
			t.Fatalf("%s: unexpected allocation error with %d usable frames still free: %v", what, len(usable)-len(allocated), err)
		}
		if !usable[frame] {
			t.Fatalf("%s: allocator returned frame %d which is not usable", what, frame)
		}
		if allocated[frame] {
			t.Fatalf("%s: allocator returned frame %d twice", what, frame)
		}
		allocated[frame] = true
		allocList = append(allocList, frame)
		c03Totals(t, alloc, total, baseReserved+len(allocated), what)
		return frame
	}

	expectOOM := func(what string) {
		t.Helper()
		frame, err := alloc.AllocFrame()
		if err == nil {
			t.Fatalf("%s: expected out of memory; got frame %d", what, frame)
		}
		if err.Message != "out of memory" {
			t.Fatalf("%s: expected an out of memory error; got %v", what, err)
		}
		c03Totals(t, alloc, total, baseReserved+len(allocated), what)
	}

	freeOK := func(frame mm.Frame, what string) {
		t.Helper()
		if err := alloc.FreeFrame(frame); err != nil {
			t.Fatalf("%s: unexpected error while freeing allocated frame %d: %v", what, frame, err)
		}
		delete(allocated, frame)
		for i, f := range allocList {
			if f == frame {
				allocList = append(allocList[:i], allocList[i+1:]...)
				break
			}
		}
		c03Totals(t, alloc, total, baseReserved+len(allocated), what)
	}

	freeRejected := func(frame mm.Frame, what string) {
		t.Helper()
		if err := alloc.FreeFrame(frame); err == nil {
			t.Fatalf("%s: expected freeing frame %d to be rejected", what, frame)
		}
		c03Totals(t, alloc, total, baseReserved+len(allocated), what)
	}

	// 1. Frames that were never allocated and frames outside the pools
	// cannot be freed.
	for f := range usable {
		freeRejected(f, "free of a never allocated frame")
		break
	}
	for _, f := range unmanaged {
		freeRejected(f, "free of an unmanaged frame")
	}

	// 2. Exactly the usable frames can be allocated before running out of
	// memory.
	for len(allocated) < len(usable) {
		allocOne("drain")
	}
	expectOOM("drain")
	expectOOM("drain (again)")
	for _, f := range unmanaged {
		freeRejected(f, "free of an unmanaged frame while out of memory")
	}
	expectOOM("after rejected frees")

	// 3. Free a single frame: exactly that frame becomes allocatable again.
	if len(allocList) > 0 {
		victim := allocList[rng.Intn(len(allocList))]
		freeOK(victim, "single free")
		freeRejected(victim, "double free")
		if got := allocOne("re-allocation of the only free frame"); got != victim {
			t.Fatalf("expected to get back frame %d; got %d", victim, got)
		}
		expectOOM("after re-allocation")
	}

	// 4. Free a random subset (usually more than a handful of frames), try
	// to free each frame twice and make sure that exactly this subset can
	// be allocated again.
	freed := map[mm.Frame]bool{}
	for _, f := range append([]mm.Frame(nil), allocList...) {
		if rng.Intn(3) == 0 {
			freeOK(f, "subset free")
			freed[f] = true
		}
	}
	for f := range freed {
		freeRejected(f, "subset double free")
	}
	for n := len(freed); n > 0; n-- {
		f := allocOne("subset re-allocation")
		if !freed[f] {
			t.Fatalf("subset re-allocation returned frame %d which was not freed", f)
		}
		delete(freed, f)
	}
	expectOOM("after subset re-allocation")

	// 5. Random interleaving of allocations and (valid and invalid) frees.
	for step := 0; step < 600; step++ {
		switch op := rng.Intn(10); {
		case op < 4:
			if len(allocated) == len(usable) {
				expectOOM("random walk")
			} else {
				allocOne("random walk")
			}
		case op < 8:
			if len(allocList) > 0 {
				f := allocList[rng.Intn(len(allocList))]
				freeOK(f, "random walk")
				if rng.Intn(2) == 0 {
					freeRejected(f, "random walk double free")
				}
			}
		case op == 8:
			if len(unmanaged) > 0 {
				freeRejected(unmanaged[rng.Intn(len(unmanaged))], "random walk unmanaged free")
			}
		default:
			// free of a usable frame that is currently not allocated
			for f := range usable {
				if !allocated[f] {
					freeRejected(f, "random walk free of a free frame")
					break
				}
			}
		}
	}

	// 6. Release everything and drain once more.
	for len(allocList) > 0 {
		freeOK(allocList[len(allocList)-1], "release all")
	}
	c03Totals(t, alloc, total, baseReserved, "after releasing everything")
	for len(allocated) < len(usable) {
		allocOne("final drain")
	}
	expectOOM("final drain")
}

func TestC03KeepDemoInit(t *testing.T) {
	defer func() {
		mapFn = vmm.Map
		reserveRegionFn = vmm.EarlyReserveRegion
	}()

	const page = uint64(mm.PageSize)

	// Regions whose frame counts sit on the bitmap word boundaries; they
	// are separated by reserved holes and some have unaligned extents.
	boundaryMap := []c03Region{
		{0x0, 0x1000, false},
		{0x10000, 1 * page, true},                // 1 frame
		{0x20000 + 0x200, 63*page + 0xe00, true}, // unaligned start: 63 whole frames
		{0x70000, 0x8000, false},
		{0x100000, 64 * page, true},       // 64 frames
		{0x200000, 65*page + 0x7ff, true}, // 65 frames, unaligned end
		{0x300000, 128 * page, true},      // 128 frames
		{0x400000, 129 * page, true},      // 129 frames
		{0x500000, 0x800, true},           // no whole frame at all
		{0x600000, 300 * page, true},      // room for the kernel
		{0xfffc0000, 0x40000, false},
	}

	qemuMap := []c03Region{
		{0x0, 0x9fc00, true},
		{0x9fc00, 0x400, false},
		{0xf0000, 0x10000, false},
		{0x100000, 0x7ee0000, true},
		{0x7fe0000, 0x20000, false},
		{0xfffc0000, 0x40000, false},
	}

	specs := []struct {
		name                   string
		regions                []c03Region
		kernelStart, kernelEnd uintptr
		expOOM                 bool
	}{
		{"boundary regions, kernel at the start of the big region", boundaryMap, 0x600000, 0x600000 + 70*0x1000 - 0x123, false},
		{"boundary regions, kernel in the middle of the big region", boundaryMap, 0x600000 + 64*0x1000 + 0x10, 0x600000 + 130*0x1000, false},
		{"boundary regions, kernel at the end of the big region", boundaryMap, 0x600000 + 236*0x1000, 0x600000 + 300*0x1000, false},
		{"boundary regions, kernel covers the 128 frame region", boundaryMap, 0x300000, 0x300000 + 128*0x1000, false},
		{"boundary regions, kernel crosses a word boundary of the 129 frame region", boundaryMap, 0x400000 + 60*0x1000, 0x400000 + 129*0x1000, false},
		{"boundary regions, kernel inside the 65 frame region", boundaryMap, 0x200000 + 63*0x1000, 0x200000 + 65*0x1000, false},
		{"qemu 128M map", qemuMap, 0x100000, 0x1fa7c8, false},
		{"single frame fully taken by the kernel", []c03Region{{0x10000, page, true}}, 0x10000, 0x11000, true},
	}

	for specIndex, spec := range specs {
		t.Run(spec.name, func(t *testing.T) {
			info := c03BuildMultibootInfo(spec.regions)
			multiboot.SetInfoPtr(uintptr(unsafe.Pointer(&info[0])))
			defer runtime.KeepAlive(info)

			bitmapAllocator = BitmapAllocator{}
			bootMemAllocator = BootMemAllocator{}

			var (
				physMem     []byte
				earlyFrames = map[mm.Frame]bool{}
			)
			reserveRegionFn = func(size uintptr) (uintptr, *kernel.Error) {
				physMem = make([]byte, size+2*mm.PageSize)
				addr := (uintptr(unsafe.Pointer(&physMem[0])) + mm.PageSize - 1) &^ (mm.PageSize - 1)
				return addr, nil
			}
			mapFn = func(_ mm.Page, frame mm.Frame, _ vmm.PageTableEntryFlag) *kernel.Error {
				if earlyFrames[frame] {
					t.Errorf("early allocator returned frame %d twice", frame)
				}
				earlyFrames[frame] = true
				return nil
			}
			defer func() { runtime.KeepAlive(physMem) }()

			err := Init(spec.kernelStart, spec.kernelEnd)
			if spec.expOOM {
				if err == nil || err.Message != "out of memory" {
					t.Fatalf("expected Init to report out of memory; got %v", err)
				}
				return
			}
			if err != nil {
				t.Fatalf("unexpected Init error: %v", err)
			}

			// Work out the expected frame sets straight from the spec.
			managed := map[mm.Frame]bool{}
			for _, r := range spec.regions {
				if !r.available {
					continue
				}
				if first, last, ok := c03RegionFrames(r); ok {
					for f := first; f <= last; f++ {
						managed[mm.Frame(f)] = true
					}
				}
			}
			usable := map[mm.Frame]bool{}
			for f := range managed {
				usable[f] = true
			}
			kStart := uint64(spec.kernelStart) / page
			kEnd := (uint64(spec.kernelEnd)+page-1)/page - 1
			for f := kStart; f <= kEnd; f++ {
				if !managed[mm.Frame(f)] {
					t.Fatalf("bad spec: kernel frame %d is not in available RAM", f)
				}
				delete(usable, mm.Frame(f))
			}
			if len(earlyFrames) == 0 {
				t.Fatal("expected the allocator to use at least one early-boot frame")
			}
			for f := range earlyFrames {
				if !usable[f] {
					t.Fatalf("early-boot frame %d is not a usable frame", f)
				}
				delete(usable, f)
			}

			unmanaged := []mm.Frame{0xbadf00d, mm.Frame(0xfffc0000 >> mm.PageShift), mm.InvalidFrame}
			for _, r := range spec.regions {
				if first, last, ok := c03RegionFrames(r); ok && r.available {
					if first > 0 && !managed[mm.Frame(first-1)] {
						unmanaged = append(unmanaged, mm.Frame(first-1))
					}
					if !managed[mm.Frame(last+1)] {
						unmanaged = append(unmanaged, mm.Frame(last+1))
					}
				}
			}

			c03Exercise(t, &bitmapAllocator, managed, usable, unmanaged, int64(1000+specIndex))
		})
	}
}

func TestC03KeepDemoPools(t *testing.T) {
	// Hand-made allocators with pools that sit on the bitmap word
	// boundaries; a few frames are reserved up-front through markFrame
	// (the helper used during initialisation).
	for seed, counts := range [][]int{{1}, {63}, {64}, {65}, {128}, {129}, {1, 63, 64, 65, 128, 129}, {129, 1, 64}} {
		var (
			alloc     BitmapAllocator
			next      = mm.Frame(7)
			managed   = map[mm.Frame]bool{}
			usable    = map[mm.Frame]bool{}
			unmanaged = []mm.Frame{0, 6, 0xbadf00d, mm.InvalidFrame}
		)

		for _, count := range counts {
			pool := framePool{
				startFrame: next,
				endFrame:   next + mm.Frame(count) - 1,
				freeCount:  uint32(count),
				freeBitmap: make([]uint64, (count+63)/64),
			}
			alloc.pools = append(alloc.pools, pool)
			alloc.totalPages += uint32(count)
			for f := pool.startFrame; f <= pool.endFrame; f++ {
				managed[f], usable[f] = true, true
			}
			unmanaged = append(unmanaged, pool.endFrame+1, pool.endFrame+2)
			next = pool.endFrame + 3 // leave a hole between the pools
		}

		// Reserve the frames around each word boundary of the last pool
		// (but keep at least one usable frame per allocator).
		last := len(alloc.pools) - 1
		for _, rel := range []mm.Frame{62, 63, 64, 127, 128} {
			f := alloc.pools[last].startFrame + rel
			if f > alloc.pools[last].endFrame || len(usable) == 1 {
				continue
			}
			alloc.markFrame(alloc.poolForFrame(f), f, markReserved)
			delete(usable, f)
		}

		c03Exercise(t, &alloc, managed, usable, unmanaged, int64(seed))
	}
}
