package pmm

// Demonstration for property C02 (early-boot allocator: ascending unique
// frames, never kernel or reserved RAM; out-of-memory on exhaustion;
// deterministic replay from a reset state / exact recovery at hand-over).
//
// Copy to kernel/mm/pmm/keep2_c02_demo_test.go and run with
//   cd kernel && go test -vet=off -count=1 -run TestKeep2C02Demo ./mm/pmm/
//
// The test only states what the property states. It does not look at
// lastAllocFrame after a failed request, at the bytes of the multiboot buffer
// after a scan, at the state of the package-level early allocator after the
// hand-over, at error messages or at log output.

import (
	"encoding/binary"
	"runtime"
	"testing"
	"unsafe"

	"github.com/ProjectSerenity/firefly/kernel/mm"
	"github.com/ProjectSerenity/firefly/kernel/multiboot"
)

type keep2Region struct {
	addr, length uint64
	typ          uint32
}

type keep2Map struct {
	name    string
	regions []keep2Region
}

const keep2Page = uint64(4096)

// keep2BuildInfo encodes a multiboot info block that only carries a memory
// map tag followed by the end tag.
func keep2BuildInfo(regions []keep2Region) []byte {
	tagSize := 8 + 8 + 24*len(regions)
	paddedTag := (tagSize + 7) &^ 7
	total := 8 + paddedTag + 8
	// back the buffer by uint64s so that it is 8-byte aligned
	backing := make([]uint64, (total+7)/8)
	buf := (*[1 << 20]byte)(unsafe.Pointer(&backing[0]))[:total:total]

	le := binary.LittleEndian
	le.PutUint32(buf[0:], uint32(total))
	le.PutUint32(buf[4:], 0)
	le.PutUint32(buf[8:], 6) // memory map tag
	le.PutUint32(buf[12:], uint32(tagSize))
	le.PutUint32(buf[16:], 24) // entry size
	le.PutUint32(buf[20:], 0)  // entry version
	off := 24
	for _, r := range regions {
		le.PutUint64(buf[off:], r.addr)
		le.PutUint64(buf[off+8:], r.length)
		le.PutUint32(buf[off+16:], r.typ)
		le.PutUint32(buf[off+20:], 0)
		off += 24
	}
	// end tag: type 0, size 8
	le.PutUint32(buf[8+paddedTag:], 0)
	le.PutUint32(buf[8+paddedTag+4:], 8)
	return buf
}

// keep2WholeFrames returns the first and last frame that lie wholly inside r
// and whether there is at least one such frame.
func keep2WholeFrames(r keep2Region) (uint64, uint64, bool) {
	if r.typ != uint32(multiboot.MemAvailable) {
		return 0, 0, false
	}
	first := (r.addr + keep2Page - 1) / keep2Page
	end := (r.addr + r.length) / keep2Page // exclusive
	if end <= first {
		return 0, 0, false
	}
	return first, end - 1, true
}

// keep2Usable reports whether frame lies wholly inside an available region
// and outside the kernel image [kStart, kEnd].
func keep2Usable(m keep2Map, frame, kStart, kEnd uint64) bool {
	if frame >= kStart && frame <= kEnd {
		return false
	}
	for _, r := range m.regions {
		if first, last, ok := keep2WholeFrames(r); ok && frame >= first && frame <= last {
			return true
		}
	}
	return false
}

type keep2Kernel struct {
	name                 string
	startAddr, endAddr   uintptr
	startFrame, endFrame uint64
}

// keep2Placements lists kernel placements with a page-aligned start inside
// one available region: at its start, in its middle, at its end and covering
// it completely; each with a page-aligned and with an unaligned end address.
func keep2Placements(m keep2Map) []keep2Kernel {
	var out []keep2Kernel
	add := func(name string, s, e uint64) {
		out = append(out,
			keep2Kernel{name + "/aligned-end", uintptr(s * keep2Page), uintptr((e + 1) * keep2Page), s, e},
			keep2Kernel{name + "/unaligned-end", uintptr(s * keep2Page), uintptr(e*keep2Page + 0x801), s, e},
		)
	}
	for i, r := range m.regions {
		first, last, ok := keep2WholeFrames(r)
		if !ok {
			continue
		}
		n := last - first + 1
		tag := m.name + "/region" + string(rune('0'+i))
		add(tag+"/whole", first, last)
		if n >= 2 {
			add(tag+"/start1", first, first)
			add(tag+"/end1", last, last)
		}
		if n >= 3 {
			add(tag+"/middle1", first+n/2, first+n/2)
			add(tag+"/start2", first, first+1)
			add(tag+"/end2", last-1, last)
		}
		if n >= 5 {
			add(tag+"/middle2", first+n/2, first+n/2+1)
			add(tag+"/second", first+1, first+1)
		}
	}
	return out
}

func TestKeep2C02Demo(t *testing.T) {
	const (
		avail = uint32(multiboot.MemAvailable)
		resv  = uint32(multiboot.MemReserved)
		acpi  = uint32(multiboot.MemAcpiReclaimable)
		nvs   = uint32(multiboot.MemNvs)
	)

	maps := []keep2Map{
		{"aligned", []keep2Region{
			{0x0, 0x9000, avail},
			{0x9000, 0x1000, resv},
			{0x10000, 0x8000, avail},
		}},
		{"unaligned", []keep2Region{
			{0x0, 0x9c00, avail},
			{0x9c00, 0x400, resv},
			{0xf000, 0x1000, resv},
			{0x10000, 0x7400, avail},
			{0x17400, 0xc00, acpi},
			{0x18400, 0x5000, avail},
		}},
		{"tiny-and-unknown", []keep2Region{
			{0x1000, 0x800, avail},  // smaller than a page
			{0x1800, 0x800, 0},      // unknown type
			{0x2400, 0x4800, avail}, // unaligned at both ends: frames 3..5
			{0x7000, 0x1000, nvs},
			{0x8000, 0x1000, avail},  // exactly one frame
			{0x9800, 0xc00, avail},   // smaller than a page, straddles a boundary
			{0xa800, 0x1000, avail},  // a page long but holds no whole frame
			{0x10000, 0x10000, 0x99}, // unknown type
			{0x20000, 0x8000, avail},
			{0x28000, 0x2000, 7}, // unknown type
		}},
		{"adjacent", []keep2Region{
			{0x8000, 0x2000, avail},
			{0x10000, 0x4000, avail},
			{0x14000, 0x4000, avail},
			{0x18000, 0x1000, resv},
			{0x19000, 0x3000, avail},
		}},
		{"high", []keep2Region{
			{0x0, 0x1000, resv},
			{0x100000, 0x6000, avail},
			{0x106000, 0x2000, acpi},
			{0x1000000, 0x5800, avail},
		}},
	}

	var keepAlive [][]byte
	defer func() {
		runtime.KeepAlive(keepAlive)
		bootMemAllocator = BootMemAllocator{}
		multiboot.SetInfoPtr(uintptr(unsafe.Pointer(&multibootMemoryMap[0])))
	}()

	cases := 0
	var reused BootMemAllocator
	for _, m := range maps {
		for _, k := range keep2Placements(m) {
			cases++
			// a fresh buffer per case: the test does not care whether
			// a scan rewrites unknown entry types in place or not
			buf := keep2BuildInfo(m.regions)
			keepAlive = append(keepAlive, buf)
			multiboot.SetInfoPtr(uintptr(unsafe.Pointer(&buf[0])))

			// alternate between a fresh allocator and a re-initialised one
			var fresh BootMemAllocator
			alloc := &fresh
			if cases%2 == 0 {
				alloc = &reused
				alloc.allocCount, alloc.lastAllocFrame = 0, 0
			}
			alloc.init(k.startAddr, k.endAddr)

			if uint64(alloc.kernelStartFrame) != k.startFrame || uint64(alloc.kernelEndFrame) != k.endFrame {
				t.Fatalf("[%s] kernel frames: expected [%d, %d]; got [%d, %d]", k.name, k.startFrame, k.endFrame, alloc.kernelStartFrame, alloc.kernelEndFrame)
			}

			// the largest frame number that could possibly be usable
			var maxFrame uint64
			for _, r := range m.regions {
				if _, last, ok := keep2WholeFrames(r); ok && last > maxFrame {
					maxFrame = last
				}
			}

			// 1. allocate up to exhaustion
			var frames []mm.Frame
			for {
				frame, err := alloc.AllocFrame()
				if err != nil {
					if err != errBootAllocOutOfMemory {
						t.Fatalf("[%s] unexpected error %v", k.name, err)
					}
					if frame.Valid() {
						t.Fatalf("[%s] out of memory reported together with frame %d", k.name, frame)
					}
					break
				}
				if !frame.Valid() {
					t.Fatalf("[%s] success reported with an invalid frame", k.name)
				}
				if !keep2Usable(m, uint64(frame), k.startFrame, k.endFrame) {
					t.Fatalf("[%s] allocation %d returned frame %d which is not wholly inside available RAM outside the kernel", k.name, len(frames), frame)
				}
				if len(frames) > 0 && frame <= frames[len(frames)-1] {
					t.Fatalf("[%s] allocation %d returned frame %d; previous was %d", k.name, len(frames), frame, frames[len(frames)-1])
				}
				frames = append(frames, frame)
				if uint64(len(frames)) > maxFrame+2 {
					t.Fatalf("[%s] allocator never runs out of memory", k.name)
				}
			}

			// 2. out of memory is only reported when no usable frame above
			// the last returned one remains
			floor := uint64(0)
			if len(frames) > 0 {
				floor = uint64(frames[len(frames)-1])
			}
			for f := floor + 1; f <= maxFrame; f++ {
				if keep2Usable(m, f, k.startFrame, k.endFrame) {
					t.Fatalf("[%s] out of memory after %d allocations although frame %d is usable", k.name, len(frames), f)
				}
			}

			// 3. once exhausted it stays exhausted
			for i := 0; i < 3; i++ {
				if frame, err := alloc.AllocFrame(); err != errBootAllocOutOfMemory || frame.Valid() {
					t.Fatalf("[%s] expected out of memory on retry %d; got frame %d, err %v", k.name, i, frame, err)
				}
			}

			// 4. replay from a reset state, for several allocation counts
			for _, n := range []int{0, 1, len(frames) / 2, len(frames)} {
				if n > len(frames) {
					continue
				}
				alloc.allocCount, alloc.lastAllocFrame = 0, 0
				for i := 0; i < n; i++ {
					frame, err := alloc.AllocFrame()
					if err != nil || frame != frames[i] {
						t.Fatalf("[%s] replay of %d: allocation %d returned (%d, %v); expected frame %d", k.name, n, i, frame, err, frames[i])
					}
				}
			}

			// 5. hand-over: after n early allocations the bitmap allocator
			// recovers exactly the n frames that were handed out
			for _, n := range []int{0, 1, len(frames) / 3, len(frames)} {
				if n > len(frames) {
					continue
				}
				bootMemAllocator = BootMemAllocator{}
				bootMemAllocator.init(k.startAddr, k.endAddr)
				for i := 0; i < n; i++ {
					frame, err := earlyAllocFrame()
					if err != nil || frame != frames[i] {
						t.Fatalf("[%s] hand-over %d: early allocation %d returned (%d, %v); expected frame %d", k.name, n, i, frame, err, frames[i])
					}
				}

				var bitmap BitmapAllocator
				for _, r := range m.regions {
					first, last, ok := keep2WholeFrames(r)
					if !ok {
						continue
					}
					count := last - first + 1
					bitmap.pools = append(bitmap.pools, framePool{
						startFrame: mm.Frame(first),
						endFrame:   mm.Frame(last),
						freeCount:  uint32(count),
						freeBitmap: make([]uint64, (count+63)/64),
					})
					bitmap.totalPages += uint32(count)
				}
				bitmap.reserveEarlyAllocatorFrames()

				if bitmap.reservedPages != uint32(n) {
					t.Fatalf("[%s] hand-over %d: %d pages reserved", k.name, n, bitmap.reservedPages)
				}
				want := make(map[mm.Frame]bool, n)
				for _, f := range frames[:n] {
					want[f] = true
				}
				for _, pool := range bitmap.pools {
					for f := pool.startFrame; f <= pool.endFrame; f++ {
						rel := uint64(f - pool.startFrame)
						reserved := pool.freeBitmap[rel>>6]&(uint64(1)<<(63-(rel&63))) != 0
						if reserved != want[f] {
							t.Fatalf("[%s] hand-over %d: frame %d reserved=%v; expected %v", k.name, n, f, reserved, want[f])
						}
					}
				}
			}
		}
	}

	if cases < 100 {
		t.Fatalf("expected at least 100 map/kernel combinations; ran %d", cases)
	}
	t.Logf("checked %d memory map / kernel placement combinations", cases)
}
