package kfmt

// Demonstration for property C15 (kernel printf output is exact, bounded and
// allocation-free). Copy to kernel/kfmt/c15_keep_demo_test.go and run with
//
//	cd kernel && go test -vet=off -count=1 -run TestC15KeepDemo ./kfmt/
//
// The test only looks at the byte stream that reaches the io.Writer (the
// concatenation of everything that was written), at panics and at heap
// allocations. It makes no assumption about how many Write calls are made,
// how the output is split between them or what the package-level scratch
// buffers contain.

import (
	"bytes"
	"fmt"
	"math"
	"math/rand"
	"strconv"
	"strings"
	"testing"
)

// c15Sink concatenates everything written to it.
type c15Sink struct{ buf bytes.Buffer }

func (s *c15Sink) Write(p []byte) (int, error) { return s.buf.Write(p) }

// c15NullSink counts bytes without allocating.
type c15NullSink struct{ n int }

func (s *c15NullSink) Write(p []byte) (int, error) { s.n += len(p); return len(p), nil }

func c15Run(t *testing.T, format string, args ...interface{}) (out string) {
	t.Helper()
	defer func() {
		if r := recover(); r != nil {
			t.Fatalf("Fprintf(%q, %v) panicked: %v", c15Short(format), args, r)
		}
	}()
	var s c15Sink
	Fprintf(&s, format, args...)
	return s.buf.String()
}

func c15Short(s string) string {
	if len(s) > 80 {
		return s[:80] + "..."
	}
	return s
}

// c15Magnitude returns |v| and the sign for every built-in integer type.
func c15Magnitude(v interface{}) (mag uint64, neg, ok bool) {
	var s int64
	switch t := v.(type) {
	case uint8:
		return uint64(t), false, true
	case uint16:
		return uint64(t), false, true
	case uint32:
		return uint64(t), false, true
	case uint64:
		return t, false, true
	case uintptr:
		return uint64(t), false, true
	case uint:
		// not one of the types the formatter knows about today
		return 0, false, false
	case int8:
		s = int64(t)
	case int16:
		s = int64(t)
	case int32:
		s = int64(t)
	case int64:
		s = t
	case int:
		s = int64(t)
	default:
		return 0, false, false
	}
	if s < 0 {
		return uint64(^s) + 1, true, true
	}
	return uint64(s), false, true
}

// c15RefInt is the reference rendering of an integer directive.
func c15RefInt(v interface{}, base, width int) string {
	mag, neg, ok := c15Magnitude(v)
	if !ok {
		return "%!(WRONGTYPE)"
	}
	if width > 31 {
		width = 31
	}
	digits := strconv.FormatUint(mag, base)
	if base == 10 {
		if neg {
			digits = "-" + digits
		}
		if len(digits) < width {
			digits = strings.Repeat(" ", width-len(digits)) + digits
		}
		return digits
	}
	if len(digits) < width {
		digits = strings.Repeat("0", width-len(digits)) + digits
	}
	if neg {
		digits = "-" + digits
	}
	return digits
}

func c15RefString(v interface{}, width int) string {
	var s string
	switch t := v.(type) {
	case string:
		s = t
	case []byte:
		s = string(t)
	default:
		return "%!(WRONGTYPE)"
	}
	if len(s) < width {
		s = strings.Repeat(" ", width-len(s)) + s
	}
	return s
}

func c15RefBool(v interface{}) string {
	if b, ok := v.(bool); ok {
		if b {
			return "true"
		}
		return "false"
	}
	return "%!(WRONGTYPE)"
}

// c15Piece is one element of a well-formed format string.
type c15Piece struct {
	lit   string // literal text (no '%') when verb == 0
	verb  byte   // 'd','o','x','s','t' or '%'
	width int    // -1: no width given
}

func c15Build(pieces []c15Piece) string {
	var sb strings.Builder
	for _, p := range pieces {
		switch {
		case p.verb == 0:
			sb.WriteString(p.lit)
		default:
			sb.WriteByte('%')
			if p.width >= 0 {
				sb.WriteString(strconv.Itoa(p.width))
			}
			sb.WriteByte(p.verb)
		}
	}
	return sb.String()
}

// c15Expect is the reference model for the whole format string.
func c15Expect(pieces []c15Piece, args []interface{}) string {
	var sb strings.Builder
	next := 0
	for _, p := range pieces {
		switch p.verb {
		case 0:
			sb.WriteString(p.lit)
		case '%':
			sb.WriteByte('%')
		default:
			if next >= len(args) {
				sb.WriteString("(MISSING)")
				continue
			}
			w := p.width
			if w < 0 {
				w = 0
			}
			switch p.verb {
			case 'd':
				sb.WriteString(c15RefInt(args[next], 10, w))
			case 'o':
				sb.WriteString(c15RefInt(args[next], 8, w))
			case 'x':
				sb.WriteString(c15RefInt(args[next], 16, w))
			case 's':
				sb.WriteString(c15RefString(args[next], w))
			case 't':
				sb.WriteString(c15RefBool(args[next]))
			}
			next++
		}
	}
	for ; next < len(args); next++ {
		sb.WriteString("%!(EXTRA)")
	}
	return sb.String()
}

var c15IntValues = []interface{}{
	uint8(0), uint8(1), uint8(math.MaxUint8),
	uint16(0), uint16(1), uint16(math.MaxUint16),
	uint32(0), uint32(1), uint32(math.MaxUint32),
	uint64(0), uint64(1), uint64(math.MaxUint64), uint64(1) << 63,
	uintptr(0), uintptr(1), ^uintptr(0), uintptr(0xb8000),
	int8(0), int8(1), int8(-1), int8(math.MinInt8), int8(math.MaxInt8),
	int16(0), int16(1), int16(-1), int16(math.MinInt16), int16(math.MaxInt16),
	int32(0), int32(1), int32(-1), int32(math.MinInt32), int32(math.MaxInt32),
	int64(0), int64(1), int64(-1), int64(math.MinInt64), int64(math.MaxInt64), int64(math.MinInt64 + 1),
	int(0), int(1), int(-1), int(math.MinInt64), int(math.MaxInt64), int(-0xbadf00d), int(1234567890),
}

var c15Widths = []int{-1, 0, 1, 2, 3, 5, 8, 10, 16, 19, 20, 21, 22, 23, 24, 30, 31, 32, 33, 63, 64, 65, 128, 1000, 1000000}

func TestC15KeepDemo(t *testing.T) {
	t.Run("integers", func(t *testing.T) {
		for _, v := range c15IntValues {
			for _, verb := range []byte{'d', 'o', 'x'} {
				for _, w := range c15Widths {
					pieces := []c15Piece{{lit: "["}, {verb: verb, width: w}, {lit: "]"}}
					format := c15Build(pieces)
					exp := c15Expect(pieces, []interface{}{v})
					if got := c15Run(t, format, v); got != exp {
						t.Errorf("Fprintf(%q, %T(%v)): got %q; want %q", format, v, v, got, exp)
					}
				}
			}

			// cross-check the reference model against package fmt for
			// the cases where both agree on the layout.
			mag, neg, _ := c15Magnitude(v)
			for _, w := range []int{0, 7, 31} {
				if exp, got := fmt.Sprintf("%*d", w, v), c15Run(t, "%"+strconv.Itoa(w)+"d", v); got != exp {
					t.Errorf("%%%dd of %T(%v): got %q; want %q", w, v, v, got, exp)
				}
				if !neg {
					if exp, got := fmt.Sprintf("%0*x", w, mag), c15Run(t, "%"+strconv.Itoa(w)+"x", v); got != exp {
						t.Errorf("%%%dx of %T(%v): got %q; want %q", w, v, v, got, exp)
					}
					if exp, got := fmt.Sprintf("%0*o", w, mag), c15Run(t, "%"+strconv.Itoa(w)+"o", v); got != exp {
						t.Errorf("%%%do of %T(%v): got %q; want %q", w, v, v, got, exp)
					}
				}
			}
		}
	})

	t.Run("strings", func(t *testing.T) {
		lengths := []int{0, 1, 2, 31, 32, 33, 62, 63, 64, 65, 66, 127, 128, 129, 1000, 5000}
		for _, l := range lengths {
			raw := make([]byte, l)
			for i := range raw {
				raw[i] = byte('!' + (i*7)%90)
				if raw[i] == '%' {
					raw[i] = '#'
				}
			}
			for _, w := range []int{-1, 0, 1, l - 1, l, l + 1, l + 63, l + 64, l + 65, 64, 200, 4096} {
				if w < -1 {
					continue
				}
				for _, arg := range []interface{}{string(raw), append([]byte(nil), raw...)} {
					pieces := []c15Piece{{lit: "<"}, {verb: 's', width: w}, {lit: ">"}}
					format := c15Build(pieces)
					exp := c15Expect(pieces, []interface{}{arg})
					if got := c15Run(t, format, arg); got != exp {
						t.Errorf("Fprintf(%q, %T len %d): got %q; want %q", format, arg, l, c15Short(got), c15Short(exp))
					}
					// the caller's byte slice must be left alone
					if b, ok := arg.([]byte); ok && !bytes.Equal(b, raw) {
						t.Errorf("Fprintf(%q) modified its []byte argument", format)
					}
				}
			}
		}

		// the widest width the property talks about
		for _, arg := range []interface{}{"", "x", []byte("yz"), strings.Repeat("k", 70)} {
			pieces := []c15Piece{{verb: 's', width: 1000000}}
			exp := c15Expect(pieces, []interface{}{arg})
			if got := c15Run(t, c15Build(pieces), arg); got != exp {
				t.Errorf("%%1000000s of %T: got %d bytes %q; want %d bytes", arg, len(got), c15Short(strings.TrimLeft(got, " ")), len(exp))
			}
		}
	})

	t.Run("literals", func(t *testing.T) {
		for _, l := range []int{0, 1, 63, 64, 65, 127, 128, 129, 200, 3000} {
			var sb strings.Builder
			for i := 0; i < l; i++ {
				c := byte(i*13 + 1)
				if c == '%' {
					c = '\n'
				}
				sb.WriteByte(c)
			}
			lit := sb.String()
			if got := c15Run(t, lit); got != lit {
				t.Errorf("literal of length %d: got %q; want %q", l, c15Short(got), c15Short(lit))
			}
			if got, exp := c15Run(t, lit+"%%"+lit+"%12%"), lit+"%"+lit+"%"; got != exp {
				t.Errorf("literal+%%%% of length %d: got %q; want %q", l, c15Short(got), c15Short(exp))
			}
			if got, exp := c15Run(t, lit+"%d"+lit, int(-42)), lit+"-42"+lit; got != exp {
				t.Errorf("literal+%%d of length %d: got %q; want %q", l, c15Short(got), c15Short(exp))
			}
		}
	})

	t.Run("markers", func(t *testing.T) {
		specs := []struct {
			format string
			args   []interface{}
			exp    string
		}{
			{"%t|%t|%7t", []interface{}{true, false, true}, "true|false|true"},
			{"%t", []interface{}{1}, "%!(WRONGTYPE)"},
			{"%d %o %x", []interface{}{"a", true, []byte("b")}, "%!(WRONGTYPE) %!(WRONGTYPE) %!(WRONGTYPE)"},
			{"%5d", []interface{}{3.5}, "%!(WRONGTYPE)"},
			{"%d", []interface{}{nil}, "%!(WRONGTYPE)"},
			{"%d", []interface{}{uint(7)}, "%!(WRONGTYPE)"},
			{"%s|%9s", []interface{}{12, false}, "%!(WRONGTYPE)|%!(WRONGTYPE)"},
			{"%s", []interface{}{nil}, "%!(WRONGTYPE)"},
			{"%d %s %t %x %o", nil, "(MISSING) (MISSING) (MISSING) (MISSING) (MISSING)"},
			{"%d-%12d-%s", []interface{}{int8(5)}, "5-(MISSING)-(MISSING)"},
			{"no verbs", []interface{}{1, "two", nil, 4.0}, "no verbs%!(EXTRA)%!(EXTRA)%!(EXTRA)%!(EXTRA)"},
			{"%x", []interface{}{uint8(255), "surplus"}, "ff%!(EXTRA)"},
			{"", []interface{}{1}, "%!(EXTRA)"},
			{"", nil, ""},
			{"%%%s%d%t", []interface{}{"foo", 123, true}, "%foo123true"},
			{"%%%%", nil, "%%"},
		}
		for _, spec := range specs {
			if got := c15Run(t, spec.format, spec.args...); got != spec.exp {
				t.Errorf("Fprintf(%q, %v): got %q; want %q", spec.format, spec.args, got, spec.exp)
			}
		}
	})

	t.Run("random well-formed formats", func(t *testing.T) {
		rng := rand.New(rand.NewSource(15))
		verbs := []byte{'d', 'o', 'x', 's', 't', '%'}
		otherArgs := []interface{}{"", "s", strings.Repeat("long", 40), []byte{}, []byte("bytes"), bytes.Repeat([]byte("B"), 100), true, false, nil, 1.5, uint(3), struct{}{}}
		for iter := 0; iter < 3000; iter++ {
			var pieces []c15Piece
			nVerbs := 0
			for i, n := 0, rng.Intn(8); i < n; i++ {
				if rng.Intn(3) == 0 {
					lit := make([]byte, rng.Intn(150))
					for j := range lit {
						if lit[j] = byte(rng.Intn(256)); lit[j] == '%' {
							lit[j] = '$'
						}
					}
					pieces = append(pieces, c15Piece{lit: string(lit)})
					continue
				}
				p := c15Piece{verb: verbs[rng.Intn(len(verbs))], width: -1}
				switch rng.Intn(4) {
				case 0:
					p.width = rng.Intn(40)
				case 1:
					p.width = rng.Intn(300)
				}
				if p.verb != '%' {
					nVerbs++
				}
				pieces = append(pieces, p)
			}

			// too few, exactly enough or too many arguments of any type
			nArgs := nVerbs + rng.Intn(5) - 2
			var args []interface{}
			for i := 0; i < nArgs; i++ {
				if rng.Intn(2) == 0 {
					args = append(args, c15IntValues[rng.Intn(len(c15IntValues))])
				} else {
					args = append(args, otherArgs[rng.Intn(len(otherArgs))])
				}
			}

			format := c15Build(pieces)
			exp := c15Expect(pieces, args)
			if got := c15Run(t, format, args...); got != exp {
				t.Fatalf("[iter %d] Fprintf(%q, %v): got %q; want %q", iter, format, args, got, exp)
			}
		}
	})

	t.Run("never panics", func(t *testing.T) {
		rng := rand.New(rand.NewSource(1515))
		alphabet := []byte("%%%%0123456789doxstQqvpc-+# .*\x00\xff\nabc")
		args := []interface{}{int(-1), "str", []byte("bs"), true, nil, 2.5, uint64(math.MaxUint64), struct{ a int }{1}, int64(math.MinInt64), []int{1}, map[string]int{}, new(int), uint(1)}
		for iter := 0; iter < 5000; iter++ {
			format := make([]byte, rng.Intn(40))
			digits := 0
			for i := range format {
				format[i] = alphabet[rng.Intn(len(alphabet))]
				// keep the widths small: a huge width in front of a
				// string is legitimately slow
				if isC15Digit(format[i]) {
					if digits++; digits > 5 {
						format[i] = 'z'
					}
				}
			}
			var callArgs []interface{}
			for i, n := 0, rng.Intn(6); i < n; i++ {
				callArgs = append(callArgs, args[rng.Intn(len(args))])
			}
			c15Run(t, string(format), callArgs...)
		}

		// widths that do not fit in any integer type (integer args only)
		for _, format := range []string{"%99999999999999999999d", "%18446744073709551616x", "%9223372036854775808o", "%00000000000000000000000000000000000000001d"} {
			c15Run(t, format, int(-5))
			c15Run(t, format)
			c15Run(t, format, 1.5)
		}

		// no arguments at all and a nil argument slice
		c15Run(t, "%", nil...)
		c15Run(t, "%5", nil...)
		c15Run(t, "%5 %")
	})

	t.Run("printf via sink and ring buffer", func(t *testing.T) {
		defer func() { outputSink = nil }()

		var drain bytes.Buffer
		SetOutputSink(&drain) // empty whatever earlier tests left in the ring buffer
		outputSink = nil

		Printf("early %4d|%4x|%6s|%t\n", int16(-7), uint8(0xab), "boot", true)
		var s c15Sink
		SetOutputSink(&s)
		Printf("late %s %d", []byte("sink"), uint32(99))
		if got, exp := s.buf.String(), "early   -7|00ab|  boot|true\nlate sink 99"; got != exp {
			t.Errorf("Printf: got %q; want %q", got, exp)
		}
	})

	t.Run("no heap allocation", func(t *testing.T) {
		var sink c15NullSink
		longStr := strings.Repeat("s", 300)
		longBytes := bytes.Repeat([]byte("b"), 300)
		specs := []struct {
			format string
			args   []interface{}
		}{
			{"plain literal text that is longer than sixty-four bytes, to be on the safe side of any buffer", nil},
			{"%d %o %x %31d %64x", []interface{}{int64(math.MinInt64), uint64(math.MaxUint64), uintptr(0xb8000), int8(-1), int32(-1)}},
			{"%s|%500s|%s|%1000s", []interface{}{"abc", longStr, longBytes, []byte("z")}},
			{"%t %t %d %s %%", []interface{}{true, false, "wrong", 1}},
			{"%d %d", []interface{}{1, 2, 3, 4}},
			{"%100000s", []interface{}{"pad"}},
		}
		for _, spec := range specs {
			format, args := spec.format, spec.args
			if allocs := testing.AllocsPerRun(20, func() { Fprintf(&sink, format, args...) }); allocs != 0 {
				t.Errorf("Fprintf(%q) performed %v heap allocations; want 0", c15Short(format), allocs)
			}
		}

		// and when the output goes to the early ring buffer
		defer func() { outputSink = nil }()
		outputSink = nil
		args := []interface{}{"ring", int(-12), true}
		if allocs := testing.AllocsPerRun(20, func() { Printf("%8s %5d %t\n", args...) }); allocs != 0 {
			t.Errorf("Printf to the ring buffer performed %v heap allocations; want 0", allocs)
		}
	})
}

func isC15Digit(b byte) bool { return b >= '0' && b <= '9' }
