package sync

import (
	"runtime"
	gosync "sync"
	"sync/atomic"
	"testing"
)

// The checks in this file only use the exported behaviour of Spinlock
// (Acquire, TryToAcquire, Release); they never look at the lock word.

func c08UseGosched(t *testing.T) {
	orig := yieldFn
	yieldFn = runtime.Gosched
	t.Cleanup(func() { yieldFn = orig })
}

func TestC08SpinlockSequential(t *testing.T) {
	c08UseGosched(t)

	var sl Spinlock

	// Zero value is a free lock.
	if !sl.TryToAcquire() {
		t.Fatal("TryToAcquire on a fresh lock must succeed")
	}
	for i := 0; i < 5; i++ {
		if sl.TryToAcquire() {
			t.Fatalf("TryToAcquire #%d on a held lock must fail", i)
		}
	}

	// Failed attempts had no side effects: one Release frees the lock and
	// exactly one subsequent attempt wins.
	sl.Release()
	if !sl.TryToAcquire() {
		t.Fatal("lock must be available after Release")
	}
	if sl.TryToAcquire() {
		t.Fatal("lock must be held after a successful TryToAcquire")
	}
	sl.Release()

	// Release on a free lock has no effect.
	sl.Release()
	sl.Release()
	sl.Acquire() // must not block
	if sl.TryToAcquire() {
		t.Fatal("lock taken via Acquire must make TryToAcquire fail")
	}
	sl.Release()

	// Many hold periods, alternating the two ways of taking the lock.
	for i := 0; i < 200000; i++ {
		if i%2 == 0 {
			sl.Acquire()
		} else if !sl.TryToAcquire() {
			t.Fatalf("iteration %d: TryToAcquire on a free lock failed", i)
		}
		if sl.TryToAcquire() {
			t.Fatalf("iteration %d: TryToAcquire on a held lock succeeded", i)
		}
		sl.Release()
	}
	if !sl.TryToAcquire() {
		t.Fatal("lock must be free at the end")
	}
	sl.Release()
}

func TestC08SpinlockBlockedAcquireWaitsForRelease(t *testing.T) {
	c08UseGosched(t)

	var (
		sl       Spinlock
		released uint32
		got      = make(chan uint32, 4)
	)

	sl.Acquire()
	for i := 0; i < 4; i++ {
		go func() {
			sl.Acquire()
			got <- atomic.LoadUint32(&released)
			sl.Release()
		}()
	}

	// Let the waiters spin (and yield) for a while.
	for i := 0; i < 1000; i++ {
		runtime.Gosched()
		if sl.TryToAcquire() {
			t.Fatal("TryToAcquire succeeded while the lock was held")
		}
	}
	select {
	case <-got:
		t.Fatal("a blocking Acquire returned while the lock was held")
	default:
	}

	atomic.StoreUint32(&released, 1)
	sl.Release()
	for i := 0; i < 4; i++ {
		if v := <-got; v != 1 {
			t.Fatal("a blocking Acquire returned before the holder released")
		}
	}
}

func TestC08SpinlockParallelMutualExclusion(t *testing.T) {
	c08UseGosched(t)

	workers := 2 * runtime.GOMAXPROCS(0)
	if workers < 8 {
		workers = 8
	}
	const rounds = 20000

	var (
		sl        Spinlock
		wg        gosync.WaitGroup
		inside    int32  // number of tasks that believe they hold the lock
		plain     uint64 // only touched while holding the lock, non-atomically
		scratch   [8]uint64
		successes uint64 // number of hold periods, counted atomically
		tryFails  uint64
		bad       uint32
	)

	critical := func() {
		if atomic.AddInt32(&inside, 1) != 1 {
			atomic.StoreUint32(&bad, 1)
		}
		// Work done by the previous holder must be visible here.
		v := plain
		for i := range scratch {
			if scratch[i] != v {
				atomic.StoreUint32(&bad, 2)
			}
		}
		v++
		for i := range scratch {
			scratch[i] = v
		}
		plain = v
		if atomic.AddInt32(&inside, -1) != 0 {
			atomic.StoreUint32(&bad, 1)
		}
		atomic.AddUint64(&successes, 1)
	}

	wg.Add(workers)
	for w := 0; w < workers; w++ {
		go func(w int) {
			defer wg.Done()
			for r := 0; r < rounds; r++ {
				switch (w + r) % 3 {
				case 0:
					sl.Acquire()
					critical()
					sl.Release()
				case 1:
					if sl.TryToAcquire() {
						critical()
						sl.Release()
					} else {
						atomic.AddUint64(&tryFails, 1)
					}
				default:
					for !sl.TryToAcquire() {
						runtime.Gosched()
					}
					critical()
					sl.Release()
				}
			}
		}(w)
	}
	wg.Wait()

	switch atomic.LoadUint32(&bad) {
	case 1:
		t.Fatal("two tasks were inside the critical section at the same time")
	case 2:
		t.Fatal("writes of the previous holder were not visible to the next holder")
	}

	sl.Acquire()
	if plain != successes {
		t.Fatalf("lost updates: plain counter %d, hold periods %d", plain, successes)
	}
	if want := uint64(workers * rounds); successes+tryFails != want {
		t.Fatalf("successes %d + failed tries %d != %d operations", successes, tryFails, want)
	}
	sl.Release()

	if !sl.TryToAcquire() {
		t.Fatal("lock must be free once everybody is done")
	}
	sl.Release()
	t.Logf("workers=%d hold periods=%d failed tries=%d", workers, successes, tryFails)
}
