package vmm

// Demonstration for property C06 (copy-on-write faults get a private copy; the
// shared zero frame is never writable).
//
// Copy to kernel/mm/vmm/c06_keep_demo_test.go and run with:
//   cd kernel && go test -vet=off -count=1 -run TestC06KeepDemo ./mm/vmm/
//
// The test only asserts what the property states. In particular it does NOT
// assert: the panic value, the text written to the console, the number of TLB
// flushes, the exact flag bits of the repaired entry (other than present and
// writable), nor the value of ReservedZeroedFrame after a failed Init.

import (
	"bytes"
	"fmt"
	"testing"
	"unsafe"

	"github.com/ProjectSerenity/firefly/kernel"
	"github.com/ProjectSerenity/firefly/kernel/gate"
	"github.com/ProjectSerenity/firefly/kernel/kfmt"
	"github.com/ProjectSerenity/firefly/kernel/mm"
)

const c06Entries = int(mm.PageSize >> mm.PointerShift)

// c06AlignedPages returns n page-aligned, page-sized byte slices.
func c06AlignedPages(n int) [][]byte {
	buf := make([]byte, (n+1)*int(mm.PageSize))
	off := int(mm.PageSize-(uintptr(unsafe.Pointer(&buf[0]))&(mm.PageSize-1))) % int(mm.PageSize)
	pages := make([][]byte, n)
	for i := range pages {
		pages[i] = buf[off+i*int(mm.PageSize) : off+(i+1)*int(mm.PageSize) : off+(i+1)*int(mm.PageSize)]
	}
	return pages
}

func c06FrameOf(p []byte) mm.Frame {
	return mm.Frame(uintptr(unsafe.Pointer(&p[0])) >> mm.PageShift)
}

// c06World is a small simulation of a 4-level page table hierarchy. The
// leaf table is indexed using the low 9 bits of the page number; all pages
// used by a test live in a single contiguous buffer (fewer than 512 pages) so
// their leaf indices are distinct.
type c06World struct {
	tables    [pageLevels][c06Entries]pageTableEntry
	walkLevel int

	flushed []uintptr

	pool      [][]byte
	poolNext  int
	allocErr  *kernel.Error
	allocErrN int // fail the Nth allocation (1-based); 0 = never
	allocs    int

	tempErr    *kernel.Error
	tempMapped []mm.Frame
}

func (w *c06World) leaf(addr uintptr) *pageTableEntry {
	return &w.tables[pageLevels-1][(addr>>mm.PageShift)&uintptr(c06Entries-1)]
}

func (w *c06World) install(t *testing.T) (restore func()) {
	origPtePtr, origReadCR2, origMapTemp, origUnmap, origFlush, origNext := ptePtrFn, readCR2Fn, mapTemporaryFn, unmapFn, flushTLBEntryFn, nextAddrFn
	origProtect, origZero := protectReservedZeroedPage, ReservedZeroedFrame
	origMap, origReserve := mapFn, earlyReserveRegionFn

	ptePtrFn = func(entryAddr uintptr) unsafe.Pointer {
		level := w.walkLevel % pageLevels
		w.walkLevel++
		idx := (entryAddr & (mm.PageSize - 1)) >> mm.PointerShift
		return unsafe.Pointer(&w.tables[level][idx])
	}
	flushTLBEntryFn = func(addr uintptr) { w.flushed = append(w.flushed, addr) }
	mapTemporaryFn = func(f mm.Frame) (mm.Page, *kernel.Error) {
		if w.tempErr != nil {
			return 0, w.tempErr
		}
		w.tempMapped = append(w.tempMapped, f)
		// frames are real memory in this simulation
		return mm.Page(f), nil
	}
	unmapFn = func(mm.Page) *kernel.Error { return nil }
	mm.SetFrameAllocator(func() (mm.Frame, *kernel.Error) {
		w.allocs++
		if w.allocErr != nil && (w.allocErrN == 0 || w.allocErrN == w.allocs) {
			return mm.InvalidFrame, w.allocErr
		}
		if w.poolNext >= len(w.pool) {
			t.Fatalf("frame pool exhausted")
		}
		p := w.pool[w.poolNext]
		w.poolNext++
		// hand out dirty frames: a correct handler must overwrite them
		for i := range p {
			p[i] = 0xa5
		}
		return c06FrameOf(p), nil
	})

	return func() {
		ptePtrFn, readCR2Fn, mapTemporaryFn, unmapFn, flushTLBEntryFn, nextAddrFn = origPtePtr, origReadCR2, origMapTemp, origUnmap, origFlush, origNext
		protectReservedZeroedPage, ReservedZeroedFrame = origProtect, origZero
		mapFn, earlyReserveRegionFn = origMap, origReserve
		mm.SetFrameAllocator(nil)
	}
}

// fault invokes the page fault handler and reports whether it returned
// normally (resumed) or panicked.
func (w *c06World) fault(addr uintptr, errCode uint64) (resumed bool, panicVal interface{}) {
	readCR2Fn = func() uint64 { return uint64(addr) }
	w.walkLevel = 0
	regs := gate.Registers{Info: errCode}
	defer func() {
		if r := recover(); r != nil {
			resumed, panicVal = false, r
		}
	}()
	pageFaultHandler(&regs)
	return true, nil
}

func c06Fill(p []byte, seed int) {
	for i := range p {
		p[i] = byte((i*7 + seed*13 + i/256) % 251)
	}
}

func TestC06KeepDemo(t *testing.T) {
	var sink bytes.Buffer
	kfmt.SetOutputSink(&sink)
	defer kfmt.SetOutputSink(nil)

	upperFlagSets := []PageTableEntryFlag{
		FlagPresent | FlagRW,
		FlagPresent,
		FlagPresent | FlagRW | FlagUserAccessible | FlagAccessed,
		FlagPresent | FlagNoExecute | FlagDirty | FlagGlobal,
	}

	t.Run("cow faults on pages sharing the zero frame", func(t *testing.T) {
		const nPages = 6
		w := &c06World{pool: c06AlignedPages(nPages)}
		defer w.install(t)()

		mem := c06AlignedPages(nPages + 1)
		zero, virt := mem[0], mem[1:]
		ReservedZeroedFrame = c06FrameOf(zero)
		protectReservedZeroedPage = true

		for lvl := 0; lvl < pageLevels-1; lvl++ {
			for i := range w.tables[lvl] {
				w.tables[lvl][i].SetFlags(upperFlagSets[lvl%len(upperFlagSets)])
				w.tables[lvl][i].SetFrame(mm.Frame(0x1000 + lvl))
			}
		}

		leafFlags := []PageTableEntryFlag{
			FlagPresent | FlagCopyOnWrite,
			FlagPresent | FlagCopyOnWrite | FlagNoExecute,
			FlagPresent | FlagCopyOnWrite | FlagUserAccessible,
			FlagPresent | FlagCopyOnWrite | FlagAccessed,
			FlagPresent | FlagCopyOnWrite | FlagDirty | FlagGlobal,
			FlagPresent | FlagCopyOnWrite | FlagWriteThroughCaching | FlagDoNotCache,
		}
		for i, p := range virt {
			e := w.leaf(uintptr(unsafe.Pointer(&p[0])))
			*e = 0
			e.SetFrame(ReservedZeroedFrame)
			e.SetFlags(leafFlags[i])
		}

		seenFrames := map[mm.Frame]bool{ReservedZeroedFrame: true}
		// fault in an order different from the layout and at different offsets
		order := []int{3, 0, 5, 1, 4, 2}
		for n, pi := range order {
			page := virt[pi]
			addr := uintptr(unsafe.Pointer(&page[0])) + uintptr((n*997)%int(mm.PageSize))
			pageAddr := uintptr(unsafe.Pointer(&page[0]))
			before := w.tables
			zeroVar := ReservedZeroedFrame
			w.flushed = nil

			resumed, pv := w.fault(addr, uint64([]uint64{3, 2, 7, 3, 0x13, 1}[n]))
			if !resumed {
				t.Fatalf("fault %d: expected the fault to be recovered; got panic %v", n, pv)
			}

			e := *w.leaf(pageAddr)
			if !e.HasFlags(FlagPresent | FlagRW) {
				t.Errorf("fault %d: page must be present and writable after the fault; entry %x", n, uintptr(e))
			}
			if seenFrames[e.Frame()] {
				t.Errorf("fault %d: page did not get a fresh private frame (frame %x)", n, uintptr(e.Frame()))
			}
			seenFrames[e.Frame()] = true

			// the new frame shows what the page showed before (zeroes)
			newMem := *(*[mm.PageSize]byte)(unsafe.Pointer(e.Frame().Address()))
			for i, b := range newMem {
				if b != 0 {
					t.Fatalf("fault %d: new frame differs from previous page contents at %d", n, i)
				}
			}
			for i, b := range zero {
				if b != 0 {
					t.Fatalf("fault %d: shared zero frame modified at %d", n, i)
				}
			}
			if ReservedZeroedFrame != zeroVar {
				t.Errorf("fault %d: ReservedZeroedFrame changed", n)
			}

			// every other entry in every table is untouched
			for lvl := range before {
				for i := range before[lvl] {
					if lvl == pageLevels-1 && &w.tables[lvl][i] == w.leaf(pageAddr) {
						continue
					}
					if before[lvl][i] != w.tables[lvl][i] {
						t.Errorf("fault %d: entry %d at level %d was modified", n, i, lvl)
					}
				}
			}

			flushedPage := false
			for _, a := range w.flushed {
				if a&^(mm.PageSize-1) == pageAddr {
					flushedPage = true
				}
			}
			if !flushedPage {
				t.Errorf("fault %d: TLB entry for the page was not invalidated", n)
			}

			// a second fault on the now-writable page is not a CoW fault
			if n == len(order)-1 {
				if resumed, _ := w.fault(addr, 3); resumed {
					t.Errorf("fault on a writable, non-CoW page must not resume")
				}
			}
		}
	})

	t.Run("cow faults copy arbitrary page contents", func(t *testing.T) {
		for seed := 0; seed < 4; seed++ {
			w := &c06World{pool: c06AlignedPages(1)}
			restore := w.install(t)

			mem := c06AlignedPages(2)
			orig, backing := mem[0], mem[1]
			c06Fill(orig, seed)
			want := append([]byte(nil), orig...)

			for lvl := 0; lvl < pageLevels-1; lvl++ {
				for i := range w.tables[lvl] {
					w.tables[lvl][i].SetFlags(upperFlagSets[(lvl+seed)%len(upperFlagSets)])
				}
			}
			pageAddr := uintptr(unsafe.Pointer(&orig[0]))
			e := w.leaf(pageAddr)
			e.SetFrame(c06FrameOf(backing))
			e.SetFlags(FlagPresent | FlagCopyOnWrite | PageTableEntryFlag(uintptr(seed)<<2&uintptr(FlagUserAccessible|FlagWriteThroughCaching)))

			resumed, pv := w.fault(pageAddr+uintptr(seed*1001), 3)
			if !resumed {
				t.Fatalf("seed %d: expected recovery; got panic %v", seed, pv)
			}
			if !e.HasFlags(FlagPresent|FlagRW) || e.Frame() != c06FrameOf(w.pool[0]) {
				t.Errorf("seed %d: expected a present, writable mapping to the new frame; got %x", seed, uintptr(*e))
			}
			if !bytes.Equal(w.pool[0], want) {
				t.Errorf("seed %d: new frame is not a copy of the page", seed)
			}
			if !bytes.Equal(orig, want) {
				t.Errorf("seed %d: original contents were modified", seed)
			}
			restore()
		}
	})

	t.Run("all other faults panic", func(t *testing.T) {
		mem := c06AlignedPages(1)
		pageAddr := uintptr(unsafe.Pointer(&mem[0][0]))
		allocErr := &kernel.Error{Module: "test", Message: "out of frames"}
		mapErr := &kernel.Error{Module: "test", Message: "cannot map"}

		specs := []struct {
			name       string
			leaf       PageTableEntryFlag
			missingLvl int // upper level that is not present; -1 = none
			allocErr   *kernel.Error
			tempErr    *kernel.Error
		}{
			{"leaf not present", 0, -1, nil, nil},
			{"leaf not present but cow", FlagCopyOnWrite, -1, nil, nil},
			{"present, read-only, no cow", FlagPresent, -1, nil, nil},
			{"present, rw", FlagPresent | FlagRW, -1, nil, nil},
			{"present, rw and cow", FlagPresent | FlagRW | FlagCopyOnWrite, -1, nil, nil},
			{"p4 missing", FlagPresent | FlagCopyOnWrite, 0, nil, nil},
			{"p3 missing", FlagPresent | FlagCopyOnWrite, 1, nil, nil},
			{"p2 missing", FlagPresent | FlagCopyOnWrite, 2, nil, nil},
			{"cow, frame allocation fails", FlagPresent | FlagCopyOnWrite, -1, allocErr, nil},
			{"cow, temporary mapping fails", FlagPresent | FlagCopyOnWrite, -1, nil, mapErr},
		}

		for _, spec := range specs {
			for _, errCode := range []uint64{0, 1, 2, 3, 4, 5, 7, 8, 16, 17, 0xf00} {
				t.Run(fmt.Sprintf("%s/err=%d", spec.name, errCode), func(t *testing.T) {
					w := &c06World{pool: c06AlignedPages(1), allocErr: spec.allocErr, tempErr: spec.tempErr}
					defer w.install(t)()

					for lvl := 0; lvl < pageLevels-1; lvl++ {
						for i := range w.tables[lvl] {
							if lvl != spec.missingLvl {
								w.tables[lvl][i].SetFlags(FlagPresent | FlagRW)
							} else {
								w.tables[lvl][i].SetFlags(FlagRW | FlagCopyOnWrite)
							}
						}
					}
					w.leaf(pageAddr).SetFlags(spec.leaf)

					resumed, pv := w.fault(pageAddr+8, errCode)
					if resumed {
						t.Fatalf("expected a kernel panic; the handler resumed the faulting code")
					}
					if pv == nil {
						t.Fatalf("expected a non-nil panic value")
					}
				})
			}
		}
	})

	t.Run("zero frame cannot be mapped writable once initialised", func(t *testing.T) {
		w := &c06World{pool: c06AlignedPages(1)}
		defer w.install(t)()

		protectReservedZeroedPage = false
		if err := reserveZeroedFrame(); err != nil {
			t.Fatal(err)
		}
		if ReservedZeroedFrame != c06FrameOf(w.pool[0]) {
			t.Fatalf("expected ReservedZeroedFrame to be the allocated frame")
		}
		for i, b := range w.pool[0] {
			if b != 0 {
				t.Fatalf("zero frame not cleared at %d", i)
			}
		}

		// use the real MapTemporary from now on
		mapTemporaryFn = MapTemporary

		for lvl := 0; lvl < pageLevels-1; lvl++ {
			for i := range w.tables[lvl] {
				w.tables[lvl][i].SetFlags(FlagPresent | FlagRW)
			}
		}
		snapshot := w.tables

		rwFlagSets := []PageTableEntryFlag{
			FlagRW,
			FlagPresent | FlagRW,
			FlagPresent | FlagRW | FlagCopyOnWrite,
			FlagPresent | FlagRW | FlagUserAccessible | FlagNoExecute,
		}
		for _, flags := range rwFlagSets {
			for _, page := range []mm.Page{0, 1, 511, 0x12345} {
				w.walkLevel = 0
				if err := Map(page, ReservedZeroedFrame, flags); err == nil {
					t.Errorf("Map(%d, zero frame, %x) must fail", page, uintptr(flags))
				}
				w.walkLevel = 0
				if err := kernelPDTLikeMap(page, flags); err == nil {
					t.Errorf("mapFn(%d, zero frame, %x) must fail", page, uintptr(flags))
				}
			}
			earlyReserveRegionFn = func(uintptr) (uintptr, *kernel.Error) { return 0x7000, nil }
			w.walkLevel = 0
			if _, err := MapRegion(ReservedZeroedFrame, mm.PageSize, flags); err == nil {
				t.Errorf("MapRegion(zero frame, %x) must fail", uintptr(flags))
			}
			w.walkLevel = 0
			if _, err := IdentityMapRegion(ReservedZeroedFrame, mm.PageSize, flags); err == nil {
				t.Errorf("IdentityMapRegion(zero frame, %x) must fail", uintptr(flags))
			}
		}
		w.walkLevel = 0
		if _, err := MapTemporary(ReservedZeroedFrame); err == nil {
			t.Errorf("MapTemporary(zero frame) must fail")
		}
		if snapshot != w.tables {
			t.Errorf("rejected mappings must not leave a writable mapping behind")
		}
		for lvl := range w.tables {
			for _, e := range w.tables[lvl] {
				if lvl == pageLevels-1 && e.Frame() == ReservedZeroedFrame && e.HasFlags(FlagRW) {
					t.Errorf("found a writable mapping of the zero frame")
				}
			}
		}

		// read-only / CoW mappings of the zero frame keep working
		w.walkLevel = 0
		if err := Map(mm.Page(5), ReservedZeroedFrame, FlagPresent|FlagCopyOnWrite); err != nil {
			t.Fatalf("CoW mapping of the zero frame must succeed; got %v", err)
		}
		e := w.tables[pageLevels-1][5]
		if !e.HasFlags(FlagPresent|FlagCopyOnWrite) || e.HasFlags(FlagRW) || e.Frame() != ReservedZeroedFrame {
			t.Errorf("unexpected CoW entry %x", uintptr(e))
		}
	})

	t.Run("failed initialisation reports the error", func(t *testing.T) {
		expErr := &kernel.Error{Module: "test", Message: "nope"}

		w := &c06World{pool: c06AlignedPages(1), allocErr: expErr}
		restore := w.install(t)
		protectReservedZeroedPage = false
		if err := reserveZeroedFrame(); err != expErr {
			t.Errorf("expected allocation error; got %v", err)
		}
		restore()

		w = &c06World{pool: c06AlignedPages(1), tempErr: expErr}
		restore = w.install(t)
		protectReservedZeroedPage = false
		if err := reserveZeroedFrame(); err != expErr {
			t.Errorf("expected mapping error; got %v", err)
		}
		restore()
	})
}

// kernelPDTLikeMap goes through the mapFn hook like PageDirectoryTable.Map does.
func kernelPDTLikeMap(page mm.Page, flags PageTableEntryFlag) *kernel.Error {
	return mapFn(page, ReservedZeroedFrame, flags)
}
