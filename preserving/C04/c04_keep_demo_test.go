package vmm

// Demonstration for property C04 (page-table operations implement exactly the
// requested address translation).
//
// The test drives Map / Unmap / MapRegion / IdentityMapRegion / MapTemporary
// and PageDirectoryTable.Map / Unmap against a small software model of the
// amd64 MMU: page tables live in page-aligned Go memory, the frame number of a
// table is its real address >> 12 and the recursive virtual addresses produced
// by walk() are resolved by following the simulated tables starting at the
// "active" root. Only facts that the property talks about are asserted:
// translations, exact contents of the entries of *mapped* pages, emptiness of
// fresh tables, TLB invalidation of the changed page, bit-for-bit preservation
// of the active address space and behaviour on allocator failure.

import (
	"math/rand"
	"runtime"
	"testing"
	"unsafe"

	"github.com/ProjectSerenity/firefly/kernel"
	"github.com/ProjectSerenity/firefly/kernel/mm"
)

const c04Entries = 1 << 9

type c04Mapping struct {
	frame mm.Frame
	flags PageTableEntryFlag
}

type c04Sim struct {
	t *testing.T

	buf    []byte
	base   uintptr
	frames int
	next   int

	root uintptr // real address of the active top-level table

	allocCalls int
	failAt     int // 1-based index of the allocation that fails; 0 = never
	allocErr   *kernel.Error

	flushes []uintptr
}

func newC04Sim(t *testing.T, frames int) *c04Sim {
	s := &c04Sim{t: t, frames: frames}
	s.buf = make([]byte, (frames+1)*int(mm.PageSize))
	s.base = (uintptr(unsafe.Pointer(&s.buf[0])) + mm.PageSize - 1) &^ (mm.PageSize - 1)
	s.allocErr = &kernel.Error{Module: "c04", Message: "out of frames"}
	return s
}

func (s *c04Sim) inSim(addr uintptr) bool {
	return addr >= s.base && addr < s.base+uintptr(s.frames)*mm.PageSize
}

// takeFrame hands out the next unused simulated frame filled with junk.
func (s *c04Sim) takeFrame() mm.Frame {
	if s.next >= s.frames {
		s.t.Fatalf("simulated memory exhausted")
	}
	addr := s.base + uintptr(s.next)*mm.PageSize
	s.next++
	kernel.Memset(addr, 0xff, mm.PageSize)
	return mm.Frame(addr >> mm.PageShift)
}

// newRoot creates an empty top-level table whose last entry points to itself.
func (s *c04Sim) newRoot() mm.Frame {
	f := s.takeFrame()
	kernel.Memset(f.Address(), 0, mm.PageSize)
	last := s.entryAt(f.Address(), c04Entries-1)
	*last = pageTableEntry(f.Address() | uintptr(FlagPresent|FlagRW))
	return f
}

func (s *c04Sim) entryAt(table uintptr, index uintptr) *pageTableEntry {
	return (*pageTableEntry)(unsafe.Pointer(table + index<<mm.PointerShift))
}

// resolve emulates the MMU: it translates a virtual address using the active
// tables and returns the real address it refers to.
func (s *c04Sim) resolve(virt uintptr) (uintptr, bool) {
	table := s.root
	for level := 0; level < pageLevels; level++ {
		idx := (virt >> pageLevelShifts[level]) & (c04Entries - 1)
		e := *s.entryAt(table, idx)
		if !e.HasFlags(FlagPresent) {
			return 0, false
		}
		table = e.Frame().Address()
		if level < pageLevels-1 && !s.inSim(table) {
			s.t.Fatalf("table entry %#x at level %d (virt %#x) points outside of the simulated memory", uintptr(e), level, virt)
		}
	}
	return table + (virt & (mm.PageSize - 1)), true
}

// leafEntry returns the raw last-level entry for virt, if its tables exist.
func (s *c04Sim) leafEntry(virt uintptr) (pageTableEntry, bool) {
	table := s.root
	for level := 0; level < pageLevels; level++ {
		idx := (virt >> pageLevelShifts[level]) & (c04Entries - 1)
		e := *s.entryAt(table, idx)
		if level == pageLevels-1 {
			return e, true
		}
		if !e.HasFlags(FlagPresent) {
			return 0, false
		}
		table = e.Frame().Address()
	}
	return 0, false
}

// tree returns the real addresses of every table of the address space
// rooted at root and the virtual page addresses of all present leaf entries.
// It fails the test if a table contains junk.
func (s *c04Sim) tree(root uintptr) (tables []uintptr, present []uintptr) {
	var visit func(table uintptr, level int, prefix uintptr)
	visit = func(table uintptr, level int, prefix uintptr) {
		tables = append(tables, table)
		for idx := uintptr(0); idx < c04Entries; idx++ {
			if level == 0 && idx == c04Entries-1 {
				continue // recursive slot
			}
			e := *s.entryAt(table, idx)
			virt := prefix | idx<<pageLevelShifts[level]
			if level == pageLevels-1 {
				if e.HasFlags(FlagPresent) {
					if virt&(1<<47) != 0 {
						virt |= uintptr(0xffff000000000000)
					}
					present = append(present, virt)
				}
				continue
			}
			if e == 0 {
				continue
			}
			if !e.HasFlags(FlagPresent) {
				s.t.Fatalf("unexpected non-zero, non-present table entry %#x at level %d", uintptr(e), level)
			}
			next := e.Frame().Address()
			if !s.inSim(next) {
				s.t.Fatalf("table entry %#x at level %d is junk (a new table level did not start empty)", uintptr(e), level)
			}
			visit(next, level+1, virt)
		}
	}
	visit(root, 0, 0)
	return tables, present
}

func (s *c04Sim) snapshot(root uintptr) map[uintptr][]byte {
	tables, _ := s.tree(root)
	snap := make(map[uintptr][]byte, len(tables))
	for _, tbl := range tables {
		cp := make([]byte, mm.PageSize)
		copy(cp, (*[1 << 12]byte)(unsafe.Pointer(tbl))[:])
		snap[tbl] = cp
	}
	return snap
}

func (s *c04Sim) checkSnapshot(what string, snap map[uintptr][]byte) {
	s.t.Helper()
	for tbl, want := range snap {
		got := (*[1 << 12]byte)(unsafe.Pointer(tbl))[:]
		for i := range want {
			if got[i] != want[i] {
				s.t.Fatalf("%s: table at %#x changed at byte %d (%#x -> %#x)", what, tbl, i, want[i], got[i])
			}
		}
	}
}

// install points the package hooks at the simulation and returns a function
// that restores them.
func (s *c04Sim) install() func() {
	origPtePtr, origNextAddr, origFlush, origActive := ptePtrFn, nextAddrFn, flushTLBEntryFn, activePDTFn
	origMap, origUnmap, origReserve, origLastUsed := mapFn, unmapFn, earlyReserveRegionFn, earlyReserveLastUsed
	origProtect := protectReservedZeroedPage

	mapFn, unmapFn = Map, Unmap
	protectReservedZeroedPage = false

	ptePtrFn = func(entryAddr uintptr) unsafe.Pointer {
		real, ok := s.resolve(entryAddr)
		if !ok {
			s.t.Fatalf("walk touched entry address %#x which is not reachable through present tables", entryAddr)
		}
		return unsafe.Pointer(real)
	}
	// Map derives the virtual address of a freshly linked table by shifting
	// the address of the entry that points to it. Under test the entry
	// address is a real pointer (see ptePtrFn above), so undo the shift and
	// do what the MMU would do: follow the entry to the table it points to.
	nextAddrFn = func(addr uintptr) uintptr {
		entryPtr := addr >> pageLevelBits[pageLevels-1]
		if !s.inSim(entryPtr) {
			s.t.Fatalf("nextAddrFn: %#x is not derived from a simulated table entry", addr)
		}
		e := *(*pageTableEntry)(unsafe.Pointer(entryPtr))
		if !e.HasFlags(FlagPresent) || !s.inSim(e.Frame().Address()) {
			s.t.Fatalf("nextAddrFn: entry %#x does not link a table", uintptr(e))
		}
		return e.Frame().Address()
	}
	flushTLBEntryFn = func(addr uintptr) { s.flushes = append(s.flushes, addr) }
	activePDTFn = func() uintptr { return s.root }
	mm.SetFrameAllocator(func() (mm.Frame, *kernel.Error) {
		s.allocCalls++
		if s.failAt != 0 && s.allocCalls == s.failAt {
			return mm.InvalidFrame, s.allocErr
		}
		return s.takeFrame(), nil
	})

	return func() {
		ptePtrFn, nextAddrFn, flushTLBEntryFn, activePDTFn = origPtePtr, origNextAddr, origFlush, origActive
		mapFn, unmapFn, earlyReserveRegionFn, earlyReserveLastUsed = origMap, origUnmap, origReserve, origLastUsed
		protectReservedZeroedPage = origProtect
		mm.SetFrameAllocator(nil)
	}
}

func (s *c04Sim) flushed(addr uintptr) bool {
	for _, f := range s.flushes {
		if f == addr {
			return true
		}
	}
	return false
}

// verify checks the address space rooted at root against model.
func (s *c04Sim) verify(what string, root uintptr, model map[uintptr]c04Mapping, probes []uintptr) {
	s.t.Helper()
	saved := s.root
	s.root = root
	defer func() { s.root = saved }()

	offsets := []uintptr{0, 1, 0x7ff, mm.PageSize - 1}
	for _, page := range probes {
		m, mapped := model[page]
		for _, off := range offsets {
			phys, err := Translate(page + off)
			switch {
			case mapped && err != nil:
				s.t.Fatalf("%s: page %#x should translate to frame %#x; got error %v", what, page, uintptr(m.frame), err)
			case mapped && phys != m.frame.Address()+off:
				s.t.Fatalf("%s: %#x should translate to %#x; got %#x", what, page+off, m.frame.Address()+off, phys)
			case !mapped && err != ErrInvalidMapping:
				s.t.Fatalf("%s: page %#x should be unmapped; got phys %#x err %v", what, page, phys, err)
			}
		}
		if mapped {
			e, ok := s.leafEntry(page)
			if want := pageTableEntry(m.frame.Address() | uintptr(m.flags)); !ok || e != want {
				s.t.Fatalf("%s: hardware entry for page %#x should be %#x; got %#x", what, page, uintptr(want), uintptr(e))
			}
		}
	}

	// No page other than the modelled ones may be present and no table
	// may contain junk.
	_, present := s.tree(root)
	if len(present) != len(model) {
		s.t.Fatalf("%s: expected %d present pages in the tables; found %d (%#x)", what, len(model), len(present), present)
	}
	for _, p := range present {
		if _, ok := model[p]; !ok {
			s.t.Fatalf("%s: page %#x is present but was never mapped", what, p)
		}
	}
}

var c04Pages = []uintptr{
	0x0000000000400000, // p4 0, p3 0, p2 2, p1 0
	0x0000000000401000, // shares every table with the previous page
	0x00000000005ff000, // last entry of the same p1 table
	0x0000000000600000, // next p1 table
	0x0000000040000000, // next p2 table
	0x0000008000000000, // next p3 table
	0x00007ffffffff000, // top of the low canonical half
	0xffff800000000000, // bottom of the high canonical half
	0xffff800000001000,
	0xffffff7fffffe000, // neighbour of the temporary mapping page
	tempMappingAddr,
}

var c04Flags = []PageTableEntryFlag{
	FlagPresent,
	FlagPresent | FlagRW,
	FlagPresent | FlagNoExecute,
	FlagPresent | FlagRW | FlagNoExecute | FlagUserAccessible,
	FlagPresent | FlagCopyOnWrite | FlagGlobal,
	FlagPresent | FlagRW | FlagWriteThroughCaching | FlagDoNotCache,
}

var c04Frames = []mm.Frame{0, 1, 123, 0xdf0000, 1<<40 - 1, 0xbadf00d}

func c04Copy(m map[uintptr]c04Mapping) map[uintptr]c04Mapping {
	cp := make(map[uintptr]c04Mapping, len(m))
	for k, v := range m {
		cp[k] = v
	}
	return cp
}

func TestC04KeepDemo(t *testing.T) {
	if runtime.GOARCH != "amd64" {
		t.Skip("test requires amd64 runtime; skipping")
	}

	t.Run("map, remap, unmap on the active space", func(t *testing.T) {
		s := newC04Sim(t, 64)
		defer s.install()()
		s.root = s.newRoot().Address()
		model := map[uintptr]c04Mapping{}

		for i, page := range c04Pages {
			m := c04Mapping{c04Frames[i%len(c04Frames)], c04Flags[i%len(c04Flags)]}
			s.flushes = nil
			var err *kernel.Error
			if page == tempMappingAddr {
				var got mm.Page
				m.flags = FlagPresent | FlagRW
				if got, err = MapTemporary(m.frame); err == nil && got.Address() != tempMappingAddr {
					t.Fatalf("MapTemporary returned page %#x", got.Address())
				}
			} else {
				err = Map(mm.PageFromAddress(page), m.frame, m.flags)
			}
			if err != nil {
				t.Fatalf("Map(%#x): %v", page, err)
			}
			if !s.flushed(page) {
				t.Fatalf("Map(%#x) did not invalidate the TLB entry of the page; flushed %#x", page, s.flushes)
			}
			model[page] = m
			s.verify("after map", s.root, model, c04Pages)
		}

		// Re-map every page to another frame / flag set.
		for i, page := range c04Pages {
			m := c04Mapping{c04Frames[(i+3)%len(c04Frames)], c04Flags[(i+1)%len(c04Flags)]}
			s.flushes = nil
			allocs := s.allocCalls
			if err := Map(mm.PageFromAddress(page), m.frame, m.flags); err != nil {
				t.Fatalf("re-Map(%#x): %v", page, err)
			}
			if s.allocCalls != allocs {
				t.Fatalf("re-Map(%#x) allocated a table although all levels exist", page)
			}
			if !s.flushed(page) {
				t.Fatalf("re-Map(%#x) did not invalidate the TLB entry of the page", page)
			}
			model[page] = m
			s.verify("after re-map", s.root, model, c04Pages)
		}

		// Unmap every other page, then all of them.
		for pass := 0; pass < 2; pass++ {
			for i, page := range c04Pages {
				if pass == 0 && i%2 == 1 {
					continue
				}
				_, wasMapped := model[page]
				s.flushes = nil
				if err := Unmap(mm.PageFromAddress(page)); err != nil {
					t.Fatalf("Unmap(%#x): %v", page, err)
				}
				if wasMapped && !s.flushed(page) {
					t.Fatalf("Unmap(%#x) did not invalidate the TLB entry of the page", page)
				}
				delete(model, page)
				s.verify("after unmap", s.root, model, c04Pages)
			}
		}

		// A page whose tables were never created is reported unmapped.
		if err := Unmap(mm.PageFromAddress(0x0000010000000000)); err != ErrInvalidMapping {
			t.Fatalf("expected ErrInvalidMapping for a page without tables; got %v", err)
		}
		s.verify("after failed unmap", s.root, model, c04Pages)

		// Map again after unmap.
		m := c04Mapping{77, FlagPresent | FlagRW}
		if err := Map(mm.PageFromAddress(c04Pages[1]), m.frame, m.flags); err != nil {
			t.Fatal(err)
		}
		model[c04Pages[1]] = m
		s.verify("map after unmap", s.root, model, c04Pages)
	})

	t.Run("allocator failure at every point", func(t *testing.T) {
		targets := []struct {
			page   uintptr
			needed int
		}{
			{0x0000000000402000, 0}, // all tables exist
			{0x0000000000600000, 1},
			{0x0000000040000000, 2},
			{0xffff800000000000, 3},
			{tempMappingAddr, 3},
		}
		for _, target := range targets {
			for failAt := 1; failAt <= target.needed+1; failAt++ {
				s := newC04Sim(t, 64)
				restore := s.install()
				s.root = s.newRoot().Address()
				model := map[uintptr]c04Mapping{}
				for i, page := range c04Pages[:3] {
					m := c04Mapping{c04Frames[i], c04Flags[i]}
					if err := Map(mm.PageFromAddress(page), m.frame, m.flags); err != nil {
						t.Fatal(err)
					}
					model[page] = m
				}
				probes := append(append([]uintptr{}, c04Pages...), target.page)

				s.allocCalls, s.failAt = 0, failAt
				err := Map(mm.PageFromAddress(target.page), 0x4242, FlagPresent|FlagRW)
				s.failAt = 0
				if failAt <= target.needed {
					if err != s.allocErr {
						t.Fatalf("page %#x failAt %d: expected the allocator error; got %v", target.page, failAt, err)
					}
					s.verify("after failed map", s.root, model, probes)

					// retrying with a working allocator succeeds
					err = Map(mm.PageFromAddress(target.page), 0x4242, FlagPresent|FlagRW)
				}
				if err != nil {
					t.Fatalf("page %#x failAt %d: unexpected error %v", target.page, failAt, err)
				}
				model[target.page] = c04Mapping{0x4242, FlagPresent | FlagRW}
				s.verify("after map", s.root, model, probes)
				restore()
			}
		}
	})

	t.Run("inactive address space", func(t *testing.T) {
		s := newC04Sim(t, 96)
		defer s.install()()
		rootA, rootB := s.newRoot(), s.newRoot()
		pdtA, pdtB := PageDirectoryTable{pdtFrame: rootA}, PageDirectoryTable{pdtFrame: rootB}
		s.root = rootA.Address()
		modelA, modelB := map[uintptr]c04Mapping{}, map[uintptr]c04Mapping{}

		// populate A through the PDT method while it is active
		for i, page := range c04Pages[:6] {
			m := c04Mapping{c04Frames[i], c04Flags[i]}
			s.flushes = nil
			if err := pdtA.Map(mm.PageFromAddress(page), m.frame, m.flags); err != nil {
				t.Fatal(err)
			}
			if !s.flushed(page) {
				t.Fatalf("pdt.Map(%#x) did not invalidate the TLB entry of the page", page)
			}
			modelA[page] = m
		}
		s.verify("A populated", rootA.Address(), modelA, c04Pages)

		// operate on B while A is active
		for i, page := range c04Pages {
			snap := s.snapshot(rootA.Address())
			m := c04Mapping{c04Frames[(i+2)%len(c04Frames)], c04Flags[(i+4)%len(c04Flags)]}
			if err := pdtB.Map(mm.PageFromAddress(page), m.frame, m.flags); err != nil {
				t.Fatalf("inactive Map(%#x): %v", page, err)
			}
			s.checkSnapshot("inactive map", snap)
			modelB[page] = m
			s.verify("A after inactive map", rootA.Address(), modelA, c04Pages)
			s.verify("B after inactive map", rootB.Address(), modelB, c04Pages)
		}
		for i, page := range c04Pages {
			if i%3 == 0 {
				continue
			}
			snap := s.snapshot(rootA.Address())
			if err := pdtB.Unmap(mm.PageFromAddress(page)); err != nil {
				t.Fatalf("inactive Unmap(%#x): %v", page, err)
			}
			s.checkSnapshot("inactive unmap", snap)
			delete(modelB, page)
			s.verify("A after inactive unmap", rootA.Address(), modelA, c04Pages)
			s.verify("B after inactive unmap", rootB.Address(), modelB, c04Pages)
		}

		// allocator failure while operating on the inactive space
		for failAt := 1; failAt <= 3; failAt++ {
			// a page under its own top-level entry needs three new tables
			target := uintptr(4+failAt) << pageLevelShifts[0]
			snap := s.snapshot(rootA.Address())
			s.allocCalls, s.failAt = 0, failAt
			err := pdtB.Map(mm.PageFromAddress(target), 9, FlagPresent)
			s.failAt = 0
			if err != s.allocErr {
				t.Fatalf("expected allocator error; got %v", err)
			}
			s.checkSnapshot("failed inactive map", snap)
			s.verify("A after failed inactive map", rootA.Address(), modelA, c04Pages)
			s.verify("B after failed inactive map", rootB.Address(), modelB, append([]uintptr{target}, c04Pages...))
		}

		// an unmap that fails on the inactive space leaves A alone too
		snap := s.snapshot(rootA.Address())
		if err := pdtB.Unmap(mm.PageFromAddress(0x0000030000000000)); err != ErrInvalidMapping {
			t.Fatalf("expected ErrInvalidMapping; got %v", err)
		}
		s.checkSnapshot("failed inactive unmap", snap)

		// switch roles: B becomes active and A is modified
		s.root = rootB.Address()
		snap = s.snapshot(rootB.Address())
		if err := pdtA.Unmap(mm.PageFromAddress(c04Pages[0])); err != nil {
			t.Fatal(err)
		}
		delete(modelA, c04Pages[0])
		if err := pdtA.Map(mm.PageFromAddress(c04Pages[7]), 55, FlagPresent|FlagNoExecute); err != nil {
			t.Fatal(err)
		}
		modelA[c04Pages[7]] = c04Mapping{55, FlagPresent | FlagNoExecute}
		s.checkSnapshot("inactive ops on A", snap)
		s.verify("A after role switch", rootA.Address(), modelA, c04Pages)
		s.verify("B after role switch", rootB.Address(), modelB, c04Pages)
	})

	t.Run("region and identity mappings", func(t *testing.T) {
		type region struct {
			name     string
			identity bool
			frame    mm.Frame
			size     uintptr
			at       uintptr // address handed out by the reservation hook (0 = real EarlyReserveRegion)
			pages    int
		}
		regions := []region{
			{"region below the temporary mapping page", false, 0xdf0000, 3*mm.PageSize + 1, 0, 4},
			{"region crossing a p1 table", false, 0x1000, 4 * mm.PageSize, 0xffffff7fffdfe000, 4},
			{"region crossing a p3 table", false, 0x2000, 2*mm.PageSize - 1, 0xffff807ffffff000, 2},
			{"single page region", false, 7, 1, 0xffff900000000000, 1},
			{"empty region", false, 7, 0, 0xffff900000000000, 0},
			{"identity crossing a p1 table", true, 0x7ffe, 4 * mm.PageSize, 0, 4},
			{"identity crossing a p2 table", true, 0x3ffff, mm.PageSize + 1, 0, 2},
			{"identity of frame zero", true, 0, 3 * mm.PageSize, 0, 3},
			{"empty identity", true, 0x7ffe, 0, 0, 0},
		}

		run := func(s *c04Sim, r region, flags PageTableEntryFlag) (mm.Page, *kernel.Error) {
			if r.identity {
				return IdentityMapRegion(r.frame, r.size, flags)
			}
			if r.at != 0 {
				earlyReserveRegionFn = func(uintptr) (uintptr, *kernel.Error) { return r.at, nil }
			} else {
				earlyReserveRegionFn = EarlyReserveRegion
				earlyReserveLastUsed = tempMappingAddr
			}
			return MapRegion(r.frame, r.size, flags)
		}

		for ri, r := range regions {
			flags := c04Flags[ri%len(c04Flags)]

			// 1. success
			s := newC04Sim(t, 64)
			restore := s.install()
			s.root = s.newRoot().Address()
			model := map[uintptr]c04Mapping{}
			for i, page := range c04Pages[:2] {
				model[page] = c04Mapping{c04Frames[i+1], c04Flags[i]}
				if err := Map(mm.PageFromAddress(page), c04Frames[i+1], c04Flags[i]); err != nil {
					t.Fatal(err)
				}
			}
			s.flushes = nil
			s.allocCalls = 0
			start, err := run(s, r, flags)
			if err != nil {
				t.Fatalf("%s: %v", r.name, err)
			}
			if r.identity && start != mm.Page(r.frame) {
				t.Fatalf("%s: expected start page %#x; got %#x", r.name, uintptr(r.frame), uintptr(start))
			}
			if !r.identity && r.at != 0 && start.Address() != r.at {
				t.Fatalf("%s: expected start address %#x; got %#x", r.name, r.at, start.Address())
			}
			if !r.identity && r.at == 0 && start.Address() != tempMappingAddr-uintptr(r.pages)*mm.PageSize {
				t.Fatalf("%s: unexpected start address %#x", r.name, start.Address())
			}
			probes := append([]uintptr{}, c04Pages...)
			for i := 0; i < r.pages; i++ {
				page := start.Address() + uintptr(i)*mm.PageSize
				model[page] = c04Mapping{r.frame + mm.Frame(i), flags}
				probes = append(probes, page)
				if !s.flushed(page) {
					t.Fatalf("%s: TLB entry of page %#x was not invalidated", r.name, page)
				}
			}
			// neighbours of the region stay unmapped
			probes = append(probes, start.Address()+uintptr(r.pages)*mm.PageSize)
			if start.Address() != 0 {
				probes = append(probes, start.Address()-mm.PageSize)
			}
			s.verify(r.name, s.root, model, probes)
			totalAllocs := s.allocCalls
			restore()

			// 2. the allocator fails at every possible point
			for failAt := 1; failAt <= totalAllocs; failAt++ {
				s := newC04Sim(t, 64)
				restore := s.install()
				s.root = s.newRoot().Address()
				outside := map[uintptr]c04Mapping{}
				for i, page := range c04Pages[:2] {
					outside[page] = c04Mapping{c04Frames[i+1], c04Flags[i]}
					if err := Map(mm.PageFromAddress(page), c04Frames[i+1], c04Flags[i]); err != nil {
						t.Fatal(err)
					}
				}
				s.allocCalls, s.failAt = 0, failAt
				_, err := run(s, r, flags)
				s.failAt = 0
				if err != s.allocErr {
					t.Fatalf("%s failAt %d: expected the allocator error; got %v", r.name, failAt, err)
				}

				// Pages of the region are either still unmapped or map
				// the requested frame; everything else is untouched.
				after := c04Copy(outside)
				for i := 0; i < r.pages; i++ {
					page := start.Address() + uintptr(i)*mm.PageSize
					if phys, terr := Translate(page); terr == nil {
						if want := (r.frame + mm.Frame(i)).Address(); phys != want {
							t.Fatalf("%s failAt %d: page %#x translates to %#x; want %#x", r.name, failAt, page, phys, want)
						}
						after[page] = c04Mapping{r.frame + mm.Frame(i), flags}
					}
				}
				if len(after) == len(outside)+r.pages {
					t.Fatalf("%s failAt %d: every page got mapped although the allocator failed", r.name, failAt)
				}
				s.verify(r.name+" (failed)", s.root, after, probes)
				restore()
			}
		}
	})

	t.Run("random operation sequences", func(t *testing.T) {
		for seed := int64(1); seed <= 4; seed++ {
			rng := rand.New(rand.NewSource(seed))
			s := newC04Sim(t, 160)
			restore := s.install()
			roots := []mm.Frame{s.newRoot(), s.newRoot()}
			pdts := []PageDirectoryTable{{pdtFrame: roots[0]}, {pdtFrame: roots[1]}}
			models := []map[uintptr]c04Mapping{{}, {}}
			active := 0
			s.root = roots[active].Address()

			for step := 0; step < 250; step++ {
				page := c04Pages[rng.Intn(len(c04Pages))]
				m := c04Mapping{mm.Frame(rng.Int63n(1 << 40)), c04Flags[rng.Intn(len(c04Flags))]}
				space := active
				viaPDT := rng.Intn(2) == 0
				if viaPDT {
					space = rng.Intn(2)
				}
				var snap map[uintptr][]byte
				if space != active {
					snap = s.snapshot(roots[active].Address())
				}
				failing := rng.Intn(5) == 0
				s.allocCalls, s.failAt = 0, 0
				if failing {
					s.failAt = 1 + rng.Intn(3)
				}
				s.flushes = nil

				switch op := rng.Intn(4); {
				case op < 2: // map
					var err *kernel.Error
					if viaPDT {
						err = pdts[space].Map(mm.PageFromAddress(page), m.frame, m.flags)
					} else {
						err = Map(mm.PageFromAddress(page), m.frame, m.flags)
					}
					switch {
					case err == nil:
						models[space][page] = m
						if !s.flushed(page) {
							t.Fatalf("seed %d step %d: TLB entry of %#x not invalidated", seed, step, page)
						}
					case err == s.allocErr && failing:
						// nothing may have changed
					default:
						t.Fatalf("seed %d step %d: unexpected error %v", seed, step, err)
					}
				case op == 2: // unmap
					var err *kernel.Error
					if viaPDT {
						err = pdts[space].Unmap(mm.PageFromAddress(page))
					} else {
						err = Unmap(mm.PageFromAddress(page))
					}
					_, wasMapped := models[space][page]
					if err != nil && (wasMapped || err != ErrInvalidMapping) {
						t.Fatalf("seed %d step %d: unexpected unmap error %v", seed, step, err)
					}
					if wasMapped && !s.flushed(page) {
						t.Fatalf("seed %d step %d: TLB entry of %#x not invalidated", seed, step, page)
					}
					delete(models[space], page)
				default: // switch the active address space
					active = 1 - active
					s.root = roots[active].Address()
					snap = nil
				}
				s.failAt = 0

				if snap != nil {
					s.checkSnapshot("operation on the inactive space", snap)
				}
				s.verify("space 0", roots[0].Address(), models[0], c04Pages)
				s.verify("space 1", roots[1].Address(), models[1], c04Pages)
			}
			restore()
		}
	})
}
