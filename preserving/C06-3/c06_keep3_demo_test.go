package vmm

// Demonstration for property C06 (copy-on-write faults get a private copy; the
// shared zero frame is never writable). The test only relies on what the
// property states and on test seams that exist both before and after the
// change, so it passes on either version of the tree.
//
// Copy to kernel/mm/vmm/c06_keep3_demo_test.go and run:
//   cd kernel && go test -vet=off -count=1 -run TestC06Keep3Demo ./mm/vmm/

import (
	"bytes"
	"fmt"
	"testing"
	"unsafe"

	"github.com/ProjectSerenity/firefly/kernel"
	"github.com/ProjectSerenity/firefly/kernel/cpu"
	"github.com/ProjectSerenity/firefly/kernel/gate"
	"github.com/ProjectSerenity/firefly/kernel/kfmt"
	"github.com/ProjectSerenity/firefly/kernel/mm"
)

// c06Tables is a sparse software model of the page tables. Entries are keyed
// by the (recursive-mapping) virtual address that walk() computes for them.
type c06Tables struct {
	entries map[uintptr]*pageTableEntry
}

func newC06Tables() *c06Tables {
	return &c06Tables{entries: make(map[uintptr]*pageTableEntry)}
}

func (pt *c06Tables) ptr(entryAddr uintptr) unsafe.Pointer {
	e := pt.entries[entryAddr]
	if e == nil {
		e = new(pageTableEntry)
		pt.entries[entryAddr] = e
	}
	return unsafe.Pointer(e)
}

// path returns the entries (one per level) that translate virtAddr.
func (pt *c06Tables) path(virtAddr uintptr) [pageLevels]*pageTableEntry {
	var out [pageLevels]*pageTableEntry
	walk(virtAddr, func(level uint8, pte *pageTableEntry) bool {
		out[level] = pte
		return true
	})
	return out
}

func (pt *c06Tables) snapshot(except *pageTableEntry) map[uintptr]pageTableEntry {
	out := make(map[uintptr]pageTableEntry, len(pt.entries))
	for addr, e := range pt.entries {
		if e != except {
			out[addr] = *e
		}
	}
	return out
}

// writableMappingsOf returns the number of entries that are present, writable
// and point to frame.
func (pt *c06Tables) writableMappingsOf(frame mm.Frame) int {
	var n int
	for _, e := range pt.entries {
		if e.HasFlags(FlagPresent|FlagRW) && e.Frame() == frame {
			n++
		}
	}
	return n
}

// c06AlignedPages returns count page-aligned, page-sized byte slices.
func c06AlignedPages(count int) [][]byte {
	raw := make([]byte, (count+1)*int(mm.PageSize))
	off := int((mm.PageSize - uintptr(unsafe.Pointer(&raw[0]))&(mm.PageSize-1)) & (mm.PageSize - 1))
	out := make([][]byte, count)
	for i := range out {
		out[i] = raw[off+i*int(mm.PageSize) : off+(i+1)*int(mm.PageSize) : off+(i+1)*int(mm.PageSize)]
	}
	return out
}

func c06Addr(b []byte) uintptr   { return uintptr(unsafe.Pointer(&b[0])) }
func c06Frame(b []byte) mm.Frame { return mm.Frame(c06Addr(b) >> mm.PageShift) }

func c06Fill(b []byte, pattern int) {
	seed := uint32(pattern)*2654435761 + 12345
	for i := range b {
		switch pattern {
		case 0:
			b[i] = 0
		case 1:
			b[i] = byte(i)
		case 2:
			b[i] = 0xff
		default:
			seed = seed*1664525 + 1013904223
			b[i] = byte(seed >> 24)
		}
	}
}

// c06Fault invokes the page fault handler and reports whether it returned
// (resumed the faulting code) or panicked.
func c06Fault(regs *gate.Registers) (resumed bool) {
	defer func() {
		if r := recover(); r != nil {
			resumed = false
		}
	}()
	pageFaultHandler(regs)
	return true
}

type c06Env struct {
	tables     *c06Tables
	flushed    []uintptr
	unmapped   []mm.Page
	cr2        uintptr
	allocFn    func() (mm.Frame, *kernel.Error)
	mapTempErr *kernel.Error
}

// c06Setup installs the seams and returns a function that restores them.
func c06Setup(env *c06Env) func() {
	var (
		origPtePtr     = ptePtrFn
		origNextAddr   = nextAddrFn
		origFlush      = flushTLBEntryFn
		origProtect    = protectReservedZeroedPage
		origZeroFrame  = ReservedZeroedFrame
		origLastUsed   = earlyReserveLastUsed
		origActivePDT  = activePDTFn
		origEarlyResFn = earlyReserveRegionFn
		scratch        = c06AlignedPages(1)[0]
	)

	env.tables = newC06Tables()
	ptePtrFn = env.tables.ptr
	nextAddrFn = func(uintptr) uintptr { return c06Addr(scratch) }
	flushTLBEntryFn = func(addr uintptr) { env.flushed = append(env.flushed, addr) }
	readCR2Fn = func() uint64 { return uint64(env.cr2) }
	mapTemporaryFn = func(f mm.Frame) (mm.Page, *kernel.Error) {
		if env.mapTempErr != nil {
			return 0, env.mapTempErr
		}
		return mm.Page(f), nil
	}
	unmapFn = func(p mm.Page) *kernel.Error {
		env.unmapped = append(env.unmapped, p)
		return nil
	}
	mm.SetFrameAllocator(func() (mm.Frame, *kernel.Error) { return env.allocFn() })
	kfmt.SetOutputSink(c06Discard{})

	return func() {
		ptePtrFn = origPtePtr
		nextAddrFn = origNextAddr
		flushTLBEntryFn = origFlush
		readCR2Fn = cpu.ReadCR2
		mapTemporaryFn = MapTemporary
		unmapFn = Unmap
		mapFn = Map
		activePDTFn = origActivePDT
		earlyReserveRegionFn = origEarlyResFn
		protectReservedZeroedPage = origProtect
		ReservedZeroedFrame = origZeroFrame
		earlyReserveLastUsed = origLastUsed
		mm.SetFrameAllocator(nil)
		kfmt.SetOutputSink(nil)
	}
}

// c06Discard is an output sink that drops everything written to it.
type c06Discard struct{}

func (c06Discard) Write(p []byte) (int, error) { return len(p), nil }

func c06HasAddr(list []uintptr, addr uintptr) bool {
	for _, a := range list {
		if a == addr {
			return true
		}
	}
	return false
}

func TestC06Keep3Demo(t *testing.T) {
	allocErr := &kernel.Error{Module: "c06", Message: "out of frames"}
	mapErr := &kernel.Error{Module: "c06", Message: "cannot map temporarily"}

	// Every flag bit that may appear in a last-level entry.
	leafBits := []PageTableEntryFlag{
		FlagPresent, FlagRW, FlagUserAccessible, FlagWriteThroughCaching,
		FlagDoNotCache, FlagAccessed, FlagDirty, FlagHugePage, FlagGlobal,
		FlagCopyOnWrite, FlagNoExecute,
	}

	t.Run("every leaf flag combination x upper-level presence", func(t *testing.T) {
		var env c06Env
		defer c06Setup(&env)()

		bufs := c06AlignedPages(4)
		zero, page, fresh := bufs[0], bufs[1], bufs[2:]
		c06Fill(zero, 0)

		// another page that shares the zero frame and must be left alone
		otherAddr := c06Addr(page) + 7*mm.PageSize
		otherPath := env.tables.path(otherAddr)

		path := env.tables.path(c06Addr(page))
		upperFlags := []PageTableEntryFlag{
			FlagPresent,
			FlagPresent | FlagRW,
			FlagPresent | FlagRW | FlagUserAccessible | FlagAccessed,
			FlagPresent | FlagNoExecute,
		}

		var regs gate.Registers
		nextFresh := 0
		resumedCount := 0
		for upperMask := 0; upperMask < 1<<(pageLevels-1); upperMask++ {
			for combo := 0; combo < 1<<uint(len(leafBits)); combo++ {
				var leaf PageTableEntryFlag
				for bit, flag := range leafBits {
					if combo&(1<<uint(bit)) != 0 {
						leaf |= flag
					}
				}

				// (re)build the tables
				allUpperPresent := true
				for level := 0; level < pageLevels-1; level++ {
					*path[level] = 0
					*otherPath[level] = 0
					if upperMask&(1<<uint(level)) != 0 {
						path[level].SetFlags(upperFlags[(combo+level)%len(upperFlags)])
						path[level].SetFrame(mm.Frame(0x1000 + level))
					} else {
						allUpperPresent = false
					}
					// The two pages share their upper level tables unless
					// their indices differ; give both the same contents.
					*otherPath[level] = *path[level]
				}
				*path[pageLevels-1] = 0
				path[pageLevels-1].SetFrame(c06Frame(zero))
				path[pageLevels-1].SetFlags(leaf)
				*otherPath[pageLevels-1] = 0
				otherPath[pageLevels-1].SetFrame(c06Frame(zero))
				otherPath[pageLevels-1].SetFlags(FlagPresent | FlagCopyOnWrite)

				c06Fill(page, combo%5)
				want := append([]byte(nil), page...)
				target := fresh[nextFresh%len(fresh)]
				nextFresh++
				c06Fill(target, 2)
				env.allocFn = func() (mm.Frame, *kernel.Error) { return c06Frame(target), nil }
				env.mapTempErr = nil
				env.flushed = env.flushed[:0]
				env.cr2 = c06Addr(page) + uintptr(combo*37)%mm.PageSize
				regs.Info = uint64(combo % 32)

				before := env.tables.snapshot(path[pageLevels-1])
				resumed := c06Fault(&regs)
				after := env.tables.snapshot(path[pageLevels-1])

				expResume := allUpperPresent && leaf&FlagPresent != 0 && leaf&FlagRW == 0 && leaf&FlagCopyOnWrite != 0
				if resumed != expResume {
					t.Fatalf("upper=%03b leaf=%#x: resumed=%t; expected %t", upperMask, uintptr(leaf), resumed, expResume)
				}

				for addr, v := range before {
					if after[addr] != v {
						t.Fatalf("upper=%03b leaf=%#x: unrelated entry at %#x changed from %#x to %#x", upperMask, uintptr(leaf), addr, uintptr(v), uintptr(after[addr]))
					}
				}
				for i := range zero {
					if zero[i] != 0 {
						t.Fatalf("shared zero frame modified at offset %d", i)
					}
				}

				if !resumed {
					continue
				}
				resumedCount++

				got := *path[pageLevels-1]
				if !got.HasFlags(FlagPresent | FlagRW) {
					t.Fatalf("leaf=%#x: entry %#x is not present+writable after the fault", uintptr(leaf), uintptr(got))
				}
				if got.Frame() != c06Frame(target) || got.Frame() == c06Frame(zero) {
					t.Fatalf("leaf=%#x: entry points to frame %#x; expected the fresh frame %#x", uintptr(leaf), uintptr(got.Frame()), uintptr(c06Frame(target)))
				}
				if !bytes.Equal(target, want) {
					t.Fatalf("leaf=%#x: fresh frame does not hold the page contents", uintptr(leaf))
				}
				if !bytes.Equal(page, want) {
					t.Fatalf("leaf=%#x: the contents seen through the page changed", uintptr(leaf))
				}
				if !c06HasAddr(env.flushed, c06Addr(page)) {
					t.Fatalf("leaf=%#x: TLB entry for the page was not flushed (flushed: %x)", uintptr(leaf), env.flushed)
				}
			}
		}

		if resumedCount == 0 {
			t.Fatal("no copy-on-write fault was resolved")
		}
	})

	t.Run("failures while resolving a CoW fault never resume", func(t *testing.T) {
		var env c06Env
		defer c06Setup(&env)()

		bufs := c06AlignedPages(3)
		zero, page, fresh := bufs[0], bufs[1], bufs[2]
		path := env.tables.path(c06Addr(page))

		for _, failAlloc := range []bool{true, false} {
			for errCode := uint64(0); errCode < 32; errCode++ {
				for level := 0; level < pageLevels-1; level++ {
					*path[level] = 0
					path[level].SetFlags(FlagPresent | FlagRW)
				}
				*path[pageLevels-1] = 0
				path[pageLevels-1].SetFrame(c06Frame(zero))
				path[pageLevels-1].SetFlags(FlagPresent | FlagCopyOnWrite | FlagNoExecute)
				c06Fill(page, int(errCode))

				if failAlloc {
					env.allocFn = func() (mm.Frame, *kernel.Error) { return mm.InvalidFrame, allocErr }
					env.mapTempErr = nil
				} else {
					env.allocFn = func() (mm.Frame, *kernel.Error) { return c06Frame(fresh), nil }
					env.mapTempErr = mapErr
				}
				env.cr2 = c06Addr(page) + uintptr(errCode)
				regs := gate.Registers{Info: errCode}
				if c06Fault(&regs) {
					t.Fatalf("failAlloc=%t errCode=%d: handler resumed although resolving the fault failed", failAlloc, errCode)
				}
				for i := range zero {
					if zero[i] != 0 {
						t.Fatalf("shared zero frame modified at offset %d", i)
					}
				}
			}
		}

		// No allocator registered at all: must not resume either.
		mm.SetFrameAllocator(nil)
		env.mapTempErr = nil
		regs := gate.Registers{Info: 3}
		if c06Fault(&regs) {
			t.Fatal("handler resumed without a frame allocator")
		}
	})

	t.Run("repeated faults on pages sharing the zero frame", func(t *testing.T) {
		var env c06Env
		defer c06Setup(&env)()

		const sharers = 6
		bufs := c06AlignedPages(1 + 2*sharers)
		zero := bufs[0]
		pages := bufs[1 : 1+sharers]
		pool := bufs[1+sharers:]

		var paths [sharers][pageLevels]*pageTableEntry
		for i, p := range pages {
			paths[i] = env.tables.path(c06Addr(p))
			for level := 0; level < pageLevels-1; level++ {
				*paths[i][level] = 0
				paths[i][level].SetFlags(FlagPresent | FlagRW)
			}
			*paths[i][pageLevels-1] = 0
			paths[i][pageLevels-1].SetFrame(c06Frame(zero))
			paths[i][pageLevels-1].SetFlags(FlagPresent | FlagCopyOnWrite | FlagNoExecute)
			c06Fill(p, 0) // every sharer shows the zero frame's contents
		}

		next := 0
		env.allocFn = func() (mm.Frame, *kernel.Error) {
			f := c06Frame(pool[next])
			c06Fill(pool[next], 7+next)
			next++
			return f, nil
		}

		seen := map[mm.Frame]bool{c06Frame(zero): true}
		for _, i := range []int{3, 0, 5, 1, 4, 2} {
			env.cr2 = c06Addr(pages[i]) + uintptr(i*8)
			env.flushed = env.flushed[:0]
			leaf := paths[i][pageLevels-1]
			before := env.tables.snapshot(leaf)

			regs := gate.Registers{Info: 3}
			if !c06Fault(&regs) {
				t.Fatalf("page %d: CoW fault was not resolved", i)
			}

			after := env.tables.snapshot(leaf)
			for addr, v := range before {
				if after[addr] != v {
					t.Fatalf("page %d: unrelated entry at %#x changed", i, addr)
				}
			}
			if !leaf.HasFlags(FlagPresent|FlagRW) || seen[leaf.Frame()] {
				t.Fatalf("page %d: expected a private writable frame; entry is %#x", i, uintptr(*leaf))
			}
			seen[leaf.Frame()] = true
			frameBuf := pool[next-1]
			if leaf.Frame() != c06Frame(frameBuf) {
				t.Fatalf("page %d: entry does not point to the freshly allocated frame", i)
			}
			for off := range frameBuf {
				if frameBuf[off] != 0 || zero[off] != 0 {
					t.Fatalf("page %d: private copy / shared frame not zero at offset %d", i, off)
				}
			}
			if !c06HasAddr(env.flushed, c06Addr(pages[i])) {
				t.Fatalf("page %d: TLB entry not flushed", i)
			}

			// A second fault on the now writable page is not a CoW fault.
			if c06Fault(&regs) {
				t.Fatalf("page %d: fault on a writable page resumed", i)
			}
		}
		if env.tables.writableMappingsOf(c06Frame(zero)) != 0 {
			t.Fatal("the shared zero frame became writable")
		}
	})

	t.Run("zero frame can never be mapped writable", func(t *testing.T) {
		var env c06Env
		defer c06Setup(&env)()

		nextTable := mm.Frame(0x5000)
		env.allocFn = func() (mm.Frame, *kernel.Error) {
			nextTable++
			return nextTable, nil
		}

		active := c06AlignedPages(1)[0]
		activePDTFn = func() uintptr { return c06Addr(active) }

		ReservedZeroedFrame = mm.Frame(0x777)
		protectReservedZeroedPage = true
		zf := ReservedZeroedFrame

		for combo := 0; combo < 1<<uint(len(leafBits)); combo++ {
			var flags PageTableEntryFlag
			for bit, flag := range leafBits {
				if combo&(1<<uint(bit)) != 0 {
					flags |= flag
				}
			}
			if flags&FlagHugePage != 0 {
				continue
			}
			page := mm.Page(0x40000 + combo)
			err := Map(page, zf, flags)
			pdtErr := PageDirectoryTable{pdtFrame: mm.Frame(0x4242)}.Map(page+0x10000, zf, flags)
			if flags&FlagRW != 0 {
				if err == nil || pdtErr == nil {
					t.Fatalf("flags=%#x: mapping the zero frame writable succeeded (Map: %v, pdt.Map: %v)", uintptr(flags), err, pdtErr)
				}
			} else if err != nil || pdtErr != nil {
				t.Fatalf("flags=%#x: read-only mapping of the zero frame failed (Map: %v, pdt.Map: %v)", uintptr(flags), err, pdtErr)
			}
			if n := env.tables.writableMappingsOf(zf); n != 0 {
				t.Fatalf("flags=%#x: %d writable mapping(s) of the zero frame exist", uintptr(flags), n)
			}
		}

		if _, err := MapTemporary(zf); err == nil {
			t.Fatal("MapTemporary accepted the zero frame")
		}

		for _, first := range []mm.Frame{zf, zf - 1, zf - 3} {
			if _, err := MapRegion(first, 4*mm.PageSize, FlagPresent|FlagRW); err == nil {
				t.Fatalf("MapRegion(first=%#x) mapped the zero frame writable", uintptr(first))
			}
			if _, err := IdentityMapRegion(first, 4*mm.PageSize-1, FlagPresent|FlagRW|FlagNoExecute); err == nil {
				t.Fatalf("IdentityMapRegion(first=%#x) mapped the zero frame writable", uintptr(first))
			}
			if n := env.tables.writableMappingsOf(zf); n != 0 {
				t.Fatalf("first=%#x: %d writable mapping(s) of the zero frame exist", uintptr(first), n)
			}
		}

		// Regions that do not include the zero frame, or that are mapped
		// read-only, are still accepted.
		if _, err := MapRegion(zf+1, 3*mm.PageSize, FlagPresent|FlagRW); err != nil {
			t.Fatalf("MapRegion next to the zero frame failed: %v", err)
		}
		if _, err := MapRegion(zf-4, 4*mm.PageSize, FlagPresent|FlagRW); err != nil {
			t.Fatalf("MapRegion before the zero frame failed: %v", err)
		}
		if _, err := IdentityMapRegion(zf-1, 3*mm.PageSize, FlagPresent|FlagCopyOnWrite); err != nil {
			t.Fatalf("read-only IdentityMapRegion over the zero frame failed: %v", err)
		}
		if n := env.tables.writableMappingsOf(zf); n != 0 {
			t.Fatalf("%d writable mapping(s) of the zero frame exist", n)
		}
	})

	t.Run("memory helpers and formatted output used on these paths", func(t *testing.T) {
		bufs := c06AlignedPages(3)
		src, dst, region := bufs[0], bufs[1], bufs[2]

		for _, tc := range []struct{ srcOff, dstOff, size int }{
			{0, 0, int(mm.PageSize)}, {0, 0, 1}, {3, 3, 61}, {1, 6, 129}, {8, 16, 4000}, {5, 5, 7}, {0, 9, 64},
		} {
			c06Fill(src, 9)
			c06Fill(dst, 2)
			want := append([]byte(nil), dst...)
			copy(want[tc.dstOff:tc.dstOff+tc.size], src[tc.srcOff:tc.srcOff+tc.size])
			kernel.Memcopy(c06Addr(src)+uintptr(tc.srcOff), c06Addr(dst)+uintptr(tc.dstOff), uintptr(tc.size))
			if !bytes.Equal(dst, want) {
				t.Fatalf("Memcopy %+v produced wrong contents", tc)
			}

			c06Fill(region, 11)
			want = append(want[:0], region...)
			for i := 0; i < tc.size; i++ {
				want[tc.dstOff+i] = byte(0xa0 + tc.size)
			}
			kernel.Memset(c06Addr(region)+uintptr(tc.dstOff), byte(0xa0+tc.size), uintptr(tc.size))
			if !bytes.Equal(region, want) {
				t.Fatalf("Memset %+v produced wrong contents", tc)
			}
		}

		// overlapping regions: the bytes originally at src end up at dst
		for _, tc := range []struct{ srcOff, dstOff, size int }{
			{0, 8, 512}, {8, 0, 512}, {0, 3, 100}, {3, 0, 100}, {16, 24, 8}, {1, 2, 1},
		} {
			c06Fill(region, 13)
			want := append([]byte(nil), region...)
			copy(want[tc.dstOff:tc.dstOff+tc.size], append([]byte(nil), region[tc.srcOff:tc.srcOff+tc.size]...))
			kernel.Memcopy(c06Addr(region)+uintptr(tc.srcOff), c06Addr(region)+uintptr(tc.dstOff), uintptr(tc.size))
			if !bytes.Equal(region, want) {
				t.Fatalf("overlapping Memcopy %+v produced wrong contents", tc)
			}
		}

		var out bytes.Buffer
		long := "a fairly long literal that is longer than any small staging buffer the formatter may use internally; "
		kfmt.Fprintf(&out, long+"%s|%8s|%16x|%d|%t", long, "abc", uintptr(0xbadf00d000), 42, true)
		exp := long + long + "|     abc|" + fmt.Sprintf("%016x", 0xbadf00d000) + "|42|true"
		if got := out.String(); got != exp {
			t.Fatalf("unexpected formatter output:\n%q\nexpected:\n%q", got, exp)
		}
	})
}
