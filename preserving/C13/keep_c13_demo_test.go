package aml

// Demonstration for property C13 (namespace tree stays well-formed and path
// lookup follows the ACPI search rules).
//
// Copy to kernel/device/acpi/aml/keep_c13_demo_test.go and run:
//   cd kernel && go test -vet=off -count=1 -run TestKeepC13 ./device/acpi/aml/
//
// The test only relies on what the property states: it never looks at how the
// free list is threaded, in which order released slots are handed out again,
// what a released object contains or in which order the links are updated.

import (
	"fmt"
	"testing"
)

// c13Rand is a tiny deterministic PRNG (xorshift) so that the demo does not
// depend on the behaviour of math/rand across Go versions.
type c13Rand uint64

func (r *c13Rand) next() uint64 {
	x := uint64(*r)
	x ^= x << 13
	x ^= x >> 7
	x ^= x << 17
	*r = c13Rand(x)
	return x
}

func (r *c13Rand) intn(n int) int { return int(r.next() % uint64(n)) }

// c13Node is the reference model of a live object.
type c13Node struct {
	name     [amlNameLen]byte
	parent   uint32
	children []uint32
}

type c13Model struct {
	t     *testing.T
	tree  *ObjectTree
	live  map[uint32]*c13Node
	freed map[uint32]bool
	objs  map[uint32]*Object
}

func newC13Model(t *testing.T) *c13Model {
	m := &c13Model{
		t:     t,
		tree:  NewObjectTree(),
		live:  map[uint32]*c13Node{},
		freed: map[uint32]bool{},
		objs:  map[uint32]*Object{},
	}
	root := m.create([amlNameLen]byte{'\\'})
	if root != 0 {
		t.Fatalf("expected the first object to get index 0; got %d", root)
	}
	return m
}

// create allocates a named object and checks the slot re-use clause.
func (m *c13Model) create(name [amlNameLen]byte) uint32 {
	poolLen := len(m.tree.objPool)
	obj := m.tree.newNamedObject(pOpIntScopeBlock, 7, name)

	if len(m.freed) != 0 {
		if !m.freed[obj.index] {
			m.t.Fatalf("released slots %v available but got slot %d", m.freed, obj.index)
		}
		if len(m.tree.objPool) != poolLen {
			m.t.Fatalf("pool grew from %d to %d although released slots were available", poolLen, len(m.tree.objPool))
		}
		delete(m.freed, obj.index)
	} else if _, isLive := m.live[obj.index]; isLive {
		m.t.Fatalf("slot %d handed out twice", obj.index)
	}

	if obj.parentIndex != InvalidIndex || obj.firstArgIndex != InvalidIndex || obj.lastArgIndex != InvalidIndex ||
		obj.prevSiblingIndex != InvalidIndex || obj.nextSiblingIndex != InvalidIndex {
		m.t.Fatalf("new object %d is not unlinked: %+v", obj.index, *obj)
	}
	if m.tree.ObjectAt(obj.index) != obj {
		m.t.Fatalf("ObjectAt(%d) does not return the new object", obj.index)
	}

	m.live[obj.index] = &c13Node{name: name, parent: InvalidIndex}
	m.objs[obj.index] = obj
	return obj.index
}

func (m *c13Model) appendTo(parent, child uint32) {
	m.tree.append(m.objs[parent], m.objs[child])
	m.live[child].parent = parent
	m.live[parent].children = append(m.live[parent].children, child)
}

func (m *c13Model) insertAfter(parent, child, after uint32) {
	m.tree.appendAfter(m.objs[parent], m.objs[child], m.objs[after])
	m.live[child].parent = parent
	kids := m.live[parent].children
	for i, k := range kids {
		if k == after {
			kids = append(kids[:i+1], append([]uint32{child}, kids[i+1:]...)...)
			break
		}
	}
	m.live[parent].children = kids
}

func (m *c13Model) unlinkInModel(child uint32) {
	parent := m.live[child].parent
	if parent == InvalidIndex {
		return
	}
	kids := m.live[parent].children
	for i, k := range kids {
		if k == child {
			kids = append(kids[:i:i], kids[i+1:]...)
			break
		}
	}
	m.live[parent].children = kids
	m.live[child].parent = InvalidIndex
}

func (m *c13Model) detach(child uint32) {
	m.tree.detach(m.objs[m.live[child].parent], m.objs[child])
	m.unlinkInModel(child)
}

func (m *c13Model) free(idx uint32) {
	m.tree.free(m.objs[idx])
	m.unlinkInModel(idx)
	delete(m.live, idx)
	delete(m.objs, idx)
	m.freed[idx] = true
}

func (m *c13Model) isAncestorOrSelf(anc, idx uint32) bool {
	for ; idx != InvalidIndex; idx = m.live[idx].parent {
		if idx == anc {
			return true
		}
	}
	return false
}

// check verifies the well-formedness clauses against the model.
func (m *c13Model) check() {
	t, tree := m.t, m.tree

	for idx, node := range m.live {
		obj := tree.ObjectAt(idx)
		if obj == nil || obj != m.objs[idx] || obj.index != idx {
			t.Fatalf("live object %d is not returned by ObjectAt", idx)
		}
		if obj.parentIndex != node.parent {
			t.Fatalf("object %d: parent %d; want %d", idx, obj.parentIndex, node.parent)
		}
		if node.parent == InvalidIndex && (obj.prevSiblingIndex != InvalidIndex || obj.nextSiblingIndex != InvalidIndex) {
			t.Fatalf("detached object %d still has sibling links (%d, %d)", idx, obj.prevSiblingIndex, obj.nextSiblingIndex)
		}

		// Forward walk
		var fwd []uint32
		for i, prev := obj.firstArgIndex, InvalidIndex; i != InvalidIndex; {
			child := tree.ObjectAt(i)
			if child == nil {
				t.Fatalf("object %d: child list reaches released/unknown slot %d", idx, i)
			}
			if child.parentIndex != idx || child.prevSiblingIndex != prev {
				t.Fatalf("object %d: child %d has parent %d prev %d; want parent %d prev %d", idx, i, child.parentIndex, child.prevSiblingIndex, idx, prev)
			}
			if fwd = append(fwd, i); len(fwd) > len(m.live) {
				t.Fatalf("object %d: cycle in child list", idx)
			}
			prev, i = i, child.nextSiblingIndex
		}
		// Backward walk
		var bwd []uint32
		for i, next := obj.lastArgIndex, InvalidIndex; i != InvalidIndex; {
			child := tree.ObjectAt(i)
			if child == nil {
				t.Fatalf("object %d: reverse child list reaches released/unknown slot %d", idx, i)
			}
			if child.parentIndex != idx || child.nextSiblingIndex != next {
				t.Fatalf("object %d: child %d has parent %d next %d; want parent %d next %d", idx, i, child.parentIndex, child.nextSiblingIndex, idx, next)
			}
			if bwd = append(bwd, i); len(bwd) > len(m.live) {
				t.Fatalf("object %d: cycle in reverse child list", idx)
			}
			next, i = i, child.prevSiblingIndex
		}

		if len(fwd) != len(node.children) || len(bwd) != len(node.children) {
			t.Fatalf("object %d: children fwd %v bwd %v; want %v", idx, fwd, bwd, node.children)
		}
		for i, want := range node.children {
			if fwd[i] != want || bwd[len(bwd)-1-i] != want {
				t.Fatalf("object %d: children fwd %v bwd %v; want %v", idx, fwd, bwd, node.children)
			}
		}
		if got := tree.NumArgs(obj); got != uint32(len(node.children)) {
			t.Fatalf("object %d: NumArgs %d; want %d", idx, got, len(node.children))
		}
		for i, want := range node.children {
			if got := tree.ArgAt(obj, uint32(i)); got == nil || got.index != want {
				t.Fatalf("object %d: ArgAt(%d) mismatch", idx, i)
			}
		}
	}

	for idx := range m.freed {
		if tree.ObjectAt(idx) != nil {
			t.Fatalf("released slot %d is still returned by ObjectAt", idx)
		}
	}

	if len(tree.objPool) != len(m.live)+len(m.freed) {
		t.Fatalf("pool has %d slots; model knows %d live + %d released", len(tree.objPool), len(m.live), len(m.freed))
	}
	if tree.ObjectAt(uint32(len(tree.objPool))) != nil || tree.ObjectAt(InvalidIndex) != nil {
		t.Fatal("ObjectAt returned an object for an index outside the pool")
	}
}

func c13IsLead(ch byte) bool { return ch == '_' || (ch >= 'A' && ch <= 'Z') }

func (m *c13Model) child(scope uint32, name []byte) uint32 {
	for _, k := range m.live[scope].children {
		if string(m.live[k].name[:]) == string(name[:amlNameLen]) {
			return k
		}
	}
	return InvalidIndex
}

// down resolves a (possibly prefixed) list of name segments downward only.
func (m *c13Model) down(scope uint32, expr []byte) uint32 {
	for len(expr) > 0 {
		for len(expr) > 0 && !c13IsLead(expr[0]) {
			expr = expr[1:]
		}
		if len(expr) < amlNameLen {
			return InvalidIndex
		}
		if scope = m.child(scope, expr); scope == InvalidIndex {
			return InvalidIndex
		}
		expr = expr[amlNameLen:]
	}
	return scope
}

// find is the reference implementation of the ACPI lookup rules.
func (m *c13Model) find(scope uint32, expr []byte) uint32 {
	switch {
	case len(expr) == 0:
		return InvalidIndex
	case expr[0] == '\\':
		return m.down(0, expr[1:])
	case expr[0] == '^':
		for len(expr) > 0 && expr[0] == '^' {
			if scope = m.live[scope].parent; scope == InvalidIndex {
				return InvalidIndex
			}
			expr = expr[1:]
		}
		return m.down(scope, expr)
	case len(expr) == amlNameLen:
		for ; scope != InvalidIndex; scope = m.live[scope].parent {
			if k := m.child(scope, expr); k != InvalidIndex {
				return k
			}
		}
		return InvalidIndex
	case len(expr) > amlNameLen:
		return m.down(scope, expr)
	}
	return InvalidIndex
}

func (m *c13Model) checkFind(scope uint32, expr []byte) {
	want := m.find(scope, expr)
	var got uint32
	func() {
		defer func() {
			if err := recover(); err != nil {
				m.t.Fatalf("Find(%d, %q) crashed: %v", scope, expr, err)
			}
		}()
		got = m.tree.Find(scope, append([]byte(nil), expr...))
	}()
	if got != want {
		m.t.Fatalf("Find(%d, %q) = %d; want %d", scope, expr, got, want)
	}
}

// attached returns the indices of all objects reachable from the root (sorted
// by discovery order so that the run is deterministic).
func (m *c13Model) attached() []uint32 {
	list := []uint32{0}
	for i := 0; i < len(list); i++ {
		list = append(list, m.live[list[i]].children...)
	}
	return list
}

func (m *c13Model) pathTo(idx uint32) [][]byte {
	var segs [][]byte
	for ; idx != 0; idx = m.live[idx].parent {
		n := m.live[idx].name
		segs = append([][]byte{n[:]}, segs...)
	}
	return segs
}

func c13Join(prefix []byte, segs [][]byte, raw bool) []byte {
	out := append([]byte(nil), prefix...)
	if raw {
		switch {
		case len(segs) == 2:
			out = append(out, 0x2e)
		case len(segs) > 2:
			out = append(out, 0x2f, byte(len(segs)))
		}
	}
	for _, s := range segs {
		out = append(out, s...)
	}
	return out
}

var c13Names = [][amlNameLen]byte{
	{'_', 'S', 'B', '_'}, {'P', 'C', 'I', '0'}, {'I', 'D', 'E', '0'}, {'_', 'C', 'R', 'S'},
	{'_', 'A', 'D', 'R'}, {'F', 'O', 'O', '_'}, {'B', 'A', 'R', '0'}, {'X', '_', '_', '_'},
	{'_', 'H', 'I', 'D'}, {'L', 'N', 'K', 'A'},
}

func (m *c13Model) unusedName(r *c13Rand, parent uint32) ([amlNameLen]byte, bool) {
	start := r.intn(len(c13Names))
	for i := 0; i < len(c13Names); i++ {
		name := c13Names[(start+i)%len(c13Names)]
		if m.child(parent, name[:]) == InvalidIndex {
			return name, true
		}
	}
	return [amlNameLen]byte{}, false
}

func (m *c13Model) lookups(r *c13Rand) {
	nodes := m.attached()
	alphabet := []byte{'\\', '^', '.', '/', 0x2e, 0x2f, 0x00, 0x01, 0x02, 0x03, '0', '9', 'a', '_', 'A', 'P', 'C', 'I', 'D', 'E', 'S', 'B', 'R', 'X', 'F', 'O', 0xff}

	for _, scope := range nodes {
		// The fixed prefix forms.
		for _, expr := range []string{"", `\`, "^", "^^", "^^^^^^^^^^^^^^^^^^^^", "A", "AB", "ABC", "_SB", `\A`, `\_SB`, "^_SB", `\/`, "\\\x2e", "\\\x2f\x03", "^\x2e", "\\\x2f\x03?", `\\`, "^\\", "_SB_PCI", "_SB_\x2e", "_SB_.PCI0"} {
			m.checkFind(scope, []byte(expr))
		}

		// Every single-segment name from every scope (search rules apply),
		// also with prefixes (search rules do not apply).
		for _, name := range c13Names {
			m.checkFind(scope, name[:])
			m.checkFind(scope, append([]byte{'^'}, name[:]...))
			m.checkFind(scope, append([]byte{'^', '^'}, name[:]...))
			m.checkFind(scope, append([]byte{'\\'}, name[:]...))
			m.checkFind(scope, append(append([]byte{}, name[:]...), name[:]...))
		}

		// Paths to a few targets: absolute, relative (when the target lives
		// below scope) and via parent prefixes; with and without the raw
		// dual/multi name prefix bytes; complete and truncated.
		for n := 0; n < 6; n++ {
			target := nodes[r.intn(len(nodes))]
			segs := m.pathTo(target)
			for _, raw := range []bool{false, true} {
				abs := c13Join([]byte{'\\'}, segs, raw)
				m.checkFind(scope, abs)
				if cut := r.intn(amlNameLen); cut < len(abs) {
					m.checkFind(scope, abs[:len(abs)-cut])
				}
				m.checkFind(scope, append(append([]byte(nil), abs...), 'Z'))

				scopeSegs := m.pathTo(scope)
				common := 0
				for common < len(scopeSegs) && common < len(segs) && string(scopeSegs[common]) == string(segs[common]) {
					common++
				}
				ups := make([]byte, len(scopeSegs)-common)
				for i := range ups {
					ups[i] = '^'
				}
				rel := c13Join(ups, segs[common:], raw)
				m.checkFind(scope, rel)
				if len(rel) > 1 {
					m.checkFind(scope, rel[:len(rel)-1])
				}
				m.checkFind(scope, append([]byte{'^'}, rel...))
			}
		}

		// Random garbage.
		for n := 0; n < 40; n++ {
			expr := make([]byte, r.intn(15))
			for i := range expr {
				expr[i] = alphabet[r.intn(len(alphabet))]
			}
			m.checkFind(scope, expr)
		}
	}
}

func TestKeepC13SpecExample(t *testing.T) {
	// The example tree from page 252 of the ACPI 6.2 spec.
	m := newC13Model(t)
	sb := m.create([amlNameLen]byte{'_', 'S', 'B', '_'})
	pci := m.create([amlNameLen]byte{'P', 'C', 'I', '0'})
	crs := m.create([amlNameLen]byte{'_', 'C', 'R', 'S'})
	ide := m.create([amlNameLen]byte{'I', 'D', 'E', '0'})
	adr := m.create([amlNameLen]byte{'_', 'A', 'D', 'R'})
	m.appendTo(0, sb)
	m.appendTo(sb, pci)
	m.appendTo(pci, ide)
	m.insertAfter(pci, crs, ide)
	m.appendTo(ide, adr)
	m.check()

	specs := []struct {
		scope uint32
		expr  string
		want  uint32
	}{
		{pci, `\`, 0},
		{pci, "IDE0_ADR", adr},
		{ide, "^^PCI0IDE0_ADR", adr},
		{ide, `\_SB_PCI0IDE0_ADR`, adr},
		{adr, "\\\x2f\x03_SB_PCI0IDE0", ide},
		{adr, "\\\x2e_SB_PCI0", pci},
		{ide, "^", pci},
		{ide, "^^^", 0},
		{ide, "^^^^", InvalidIndex},
		{ide, "_CRS", crs},           // found in the enclosing scope
		{adr, "_SB_", sb},            // found three scopes up
		{ide, "^_CRS", crs},          // one level up, downward only
		{adr, "^_CRS", InvalidIndex}, // no upward search after a '^'
		{sb, "PCI0USB0_CRS", InvalidIndex},
		{0, "PCI0_CRS", InvalidIndex}, // multi-segment: no upward/downward search
		{ide, "FOO", InvalidIndex},
		{ide, "", InvalidIndex},
		{InvalidIndex, "_SB_", InvalidIndex},
	}
	for i, spec := range specs {
		if got := m.tree.Find(spec.scope, []byte(spec.expr)); got != spec.want {
			t.Errorf("[spec %d] Find(%d, %q) = %d; want %d", i, spec.scope, spec.expr, got, spec.want)
		}
		if spec.scope != InvalidIndex {
			m.checkFind(spec.scope, []byte(spec.expr))
		}
	}

	r := c13Rand(0x9e3779b97f4a7c15)
	m.lookups(&r)
}

func TestKeepC13RandomEdits(t *testing.T) {
	for seed := 1; seed <= 12; seed++ {
		seed := seed
		t.Run(fmt.Sprintf("seed %d", seed), func(t *testing.T) {
			r := c13Rand(uint64(seed) * 0x2545f4914f6cdd1d)
			m := newC13Model(t)
			var floating []uint32 // detached subtree roots

			for step := 0; step < 400; step++ {
				nodes := m.attached()
				switch op := r.intn(10); {
				case op < 4: // create + append / insert-after
					parent := nodes[r.intn(len(nodes))]
					name, ok := m.unusedName(&r, parent)
					if !ok {
						continue
					}
					idx := m.create(name)
					if kids := m.live[parent].children; len(kids) != 0 && r.intn(2) == 0 {
						m.insertAfter(parent, idx, kids[r.intn(len(kids))])
					} else {
						m.appendTo(parent, idx)
					}
				case op < 6: // detach a subtree
					if len(nodes) < 2 {
						continue
					}
					idx := nodes[1+r.intn(len(nodes)-1)]
					m.detach(idx)
					floating = append(floating, idx)
				case op < 8: // re-attach a detached subtree somewhere else
					if len(floating) == 0 {
						continue
					}
					i := r.intn(len(floating))
					idx := floating[i]
					parent := nodes[r.intn(len(nodes))]
					if m.child(parent, m.live[idx].name[:]) != InvalidIndex {
						continue
					}
					floating = append(floating[:i], floating[i+1:]...)
					if kids := m.live[parent].children; len(kids) != 0 && r.intn(2) == 0 {
						m.insertAfter(parent, idx, kids[r.intn(len(kids))])
					} else {
						m.appendTo(parent, idx)
					}
				default: // free a leaf (attached or detached)
					var leaves []uint32
					for _, idx := range nodes[1:] {
						if len(m.live[idx].children) == 0 {
							leaves = append(leaves, idx)
						}
					}
					for _, idx := range floating {
						if len(m.live[idx].children) == 0 {
							leaves = append(leaves, idx)
						}
					}
					// Free a burst so that several slots are released at once.
					for n := 1 + r.intn(3); n > 0 && len(leaves) > 0; n-- {
						i := r.intn(len(leaves))
						idx := leaves[i]
						leaves = append(leaves[:i], leaves[i+1:]...)
						for j, f := range floating {
							if f == idx {
								floating = append(floating[:j], floating[j+1:]...)
								break
							}
						}
						m.free(idx)
					}
				}

				m.check()
				if step%40 == 39 {
					m.lookups(&r)
				}
			}

			// Tear everything down bottom-up and make sure the slots are all
			// handed out again before the pool grows.
			for len(m.live) > 1 {
				for idx := uint32(len(m.tree.objPool)) - 1; idx >= 1; idx-- {
					if node, isLive := m.live[idx]; isLive && len(node.children) == 0 {
						m.free(idx)
					}
				}
				m.check()
			}
			poolLen := len(m.tree.objPool)
			for i := 1; i < poolLen; i++ {
				name, ok := m.unusedName(&r, 0)
				idx := m.create(name)
				if ok {
					m.appendTo(0, idx)
				}
			}
			m.check()
			if len(m.tree.objPool) != poolLen || len(m.freed) != 0 {
				t.Fatalf("expected all %d slots to be re-used; pool has %d slots, %d still released", poolLen, len(m.tree.objPool), len(m.freed))
			}
			m.create([amlNameLen]byte{'N', 'E', 'W', '_'})
			if len(m.tree.objPool) != poolLen+1 {
				t.Fatalf("expected the pool to grow to %d slots; got %d", poolLen+1, len(m.tree.objPool))
			}
			m.lookups(&r)
		})
	}
}
