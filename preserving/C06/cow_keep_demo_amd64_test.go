package vmm

// Demonstration for property C06 (copy-on-write faults get a private copy; the
// shared zero frame is never writable).
//
// The checks in this file only look at what the property talks about:
//  - whether the handler resumes or panics (the panic VALUE is not inspected),
//  - the final state of the faulting page's entry (frame, P/RW/CoW bits),
//  - the contents of the new frame and of the source frame,
//  - every other page table entry being left as it was,
//  - the faulting page's TLB entry having been invalidated at some point,
//  - the mapping interface refusing writable mappings of the zero frame.
// They deliberately do NOT look at the order/number of hook calls, the
// intermediate values of an entry, log output or error identities.

import (
	"bytes"
	"fmt"
	"testing"
	"unsafe"

	"github.com/ProjectSerenity/firefly/kernel"
	"github.com/ProjectSerenity/firefly/kernel/cpu"
	"github.com/ProjectSerenity/firefly/kernel/gate"
	"github.com/ProjectSerenity/firefly/kernel/kfmt"
	"github.com/ProjectSerenity/firefly/kernel/mm"
)

// keepDemoArena hands out page-aligned chunks of host memory that play the
// role of physical frames / virtual pages.
type keepDemoArena struct {
	backing []byte
	base    uintptr
	next    uintptr
	limit   uintptr
}

func newKeepDemoArena(pages int) *keepDemoArena {
	a := &keepDemoArena{backing: make([]byte, uintptr(pages+1)*mm.PageSize)}
	a.base = (uintptr(unsafe.Pointer(&a.backing[0])) + mm.PageSize - 1) &^ (mm.PageSize - 1)
	a.next = a.base
	a.limit = a.base + uintptr(pages)*mm.PageSize
	return a
}

func (a *keepDemoArena) reset() { a.next = a.base }

func (a *keepDemoArena) page() uintptr {
	if a.next >= a.limit {
		panic("keep demo arena exhausted")
	}
	addr := a.next
	a.next += mm.PageSize
	return addr
}

func keepDemoBytes(addr uintptr) []byte {
	return (*[mm.PageSize]byte)(unsafe.Pointer(addr))[:]
}

// keepDemoTables is a sparse fake of the recursively mapped page tables: every
// entry address handed to ptePtrFn gets its own storage.
type keepDemoTables struct {
	entries map[uintptr]*pageTableEntry
}

func newKeepDemoTables() *keepDemoTables {
	return &keepDemoTables{entries: make(map[uintptr]*pageTableEntry)}
}

func (tb *keepDemoTables) ptr(entryAddr uintptr) unsafe.Pointer {
	e, ok := tb.entries[entryAddr]
	if !ok {
		e = new(pageTableEntry)
		tb.entries[entryAddr] = e
	}
	return unsafe.Pointer(e)
}

func (tb *keepDemoTables) snapshot() map[uintptr]pageTableEntry {
	out := make(map[uintptr]pageTableEntry, len(tb.entries))
	for k, v := range tb.entries {
		out[k] = *v
	}
	return out
}

// install writes the entries that lead to virtAddr and returns the leaf.
func (tb *keepDemoTables) install(virtAddr uintptr, upper [pageLevels - 1]pageTableEntry, leaf pageTableEntry) *pageTableEntry {
	var leafPtr *pageTableEntry
	walk(virtAddr, func(level uint8, pte *pageTableEntry) bool {
		if level == pageLevels-1 {
			*pte = leaf
			leafPtr = pte
		} else {
			*pte = upper[level]
		}
		return true
	})
	return leafPtr
}

type keepDemoEnv struct {
	tables *keepDemoTables
	arena  *keepDemoArena

	allocated   []mm.Frame
	allocFailAt int // 1-based index of the AllocFrame call that fails; 0: never
	allocCalls  int
	mapTmpErr   *kernel.Error
	flushed     map[uintptr]int
	cr2         uintptr
	sink        bytes.Buffer
}

var keepDemoErr = &kernel.Error{Module: "keep-demo", Message: "injected failure"}

func setupKeepDemoEnv(t *testing.T, arenaPages int) (*keepDemoEnv, func()) {
	env := &keepDemoEnv{
		tables:  newKeepDemoTables(),
		arena:   newKeepDemoArena(arenaPages),
		flushed: make(map[uintptr]int),
	}

	origPtePtr, origNextAddr := ptePtrFn, nextAddrFn
	origProtect, origZero := protectReservedZeroedPage, ReservedZeroedFrame
	origActivePDT := activePDTFn

	ptePtrFn = env.tables.ptr
	readCR2Fn = func() uint64 { return uint64(env.cr2) }
	flushTLBEntryFn = func(addr uintptr) { env.flushed[addr]++ }
	unmapFn = func(mm.Page) *kernel.Error { return nil }
	mapTemporaryFn = func(f mm.Frame) (mm.Page, *kernel.Error) {
		if env.mapTmpErr != nil {
			return 0, env.mapTmpErr
		}
		// host memory is "identity mapped"
		return mm.Page(f), nil
	}
	mm.SetFrameAllocator(func() (mm.Frame, *kernel.Error) {
		env.allocCalls++
		if env.allocFailAt != 0 && env.allocCalls == env.allocFailAt {
			return mm.InvalidFrame, keepDemoErr
		}
		f := mm.Frame(env.arena.page() >> mm.PageShift)
		env.allocated = append(env.allocated, f)
		return f, nil
	})
	kfmt.SetOutputSink(&env.sink)

	return env, func() {
		ptePtrFn, nextAddrFn = origPtePtr, origNextAddr
		protectReservedZeroedPage, ReservedZeroedFrame = origProtect, origZero
		activePDTFn = origActivePDT
		readCR2Fn = cpu.ReadCR2
		flushTLBEntryFn = cpu.FlushTLBEntry
		unmapFn = Unmap
		mapTemporaryFn = MapTemporary
		mapFn = Map
		earlyReserveRegionFn = EarlyReserveRegion
		mm.SetFrameAllocator(nil)
		kfmt.SetOutputSink(nil)
	}
}

func (env *keepDemoEnv) resetCounters() {
	env.allocated = env.allocated[:0]
	env.allocCalls = 0
	env.allocFailAt = 0
	env.mapTmpErr = nil
	env.flushed = make(map[uintptr]int)
	env.sink.Reset()
}

// fault runs the page fault handler and reports whether it returned (resumed
// the faulting code) or panicked.
func (env *keepDemoEnv) fault(addr uintptr, errCode uint64) (resumed bool) {
	var regs gate.Registers
	regs.Info = errCode
	env.cr2 = addr
	defer func() {
		if r := recover(); r != nil {
			resumed = false
		}
	}()
	pageFaultHandler(&regs)
	return true
}

const keepDemoFlagMask = ^ptePhysPageMask

func keepDemoFill(buf []byte, seed int) {
	x := uint32(seed)*2654435761 + 12345
	for i := range buf {
		x = x*1664525 + 1013904223
		buf[i] = byte(x >> 24)
	}
}

// checkResolved asserts the post-state the property promises for a resolved
// copy-on-write fault.
func (env *keepDemoEnv) checkResolved(t *testing.T, label string, pageAddr uintptr, leaf *pageTableEntry, before pageTableEntry, srcFrame mm.Frame, wantContent []byte, others map[uintptr]pageTableEntry) {
	t.Helper()

	after := *leaf
	if !after.HasFlags(FlagPresent|FlagRW) || after.HasFlags(FlagCopyOnWrite) {
		t.Errorf("%s: expected page to end up present, writable and not CoW; entry = %#x", label, uintptr(after))
	}
	newFrame := after.Frame()
	if newFrame == srcFrame {
		t.Errorf("%s: page still points to the shared frame", label)
	}
	fresh := false
	for _, f := range env.allocated {
		if f == newFrame {
			fresh = true
		}
	}
	if !fresh {
		t.Errorf("%s: page points to frame %#x which was not freshly allocated", label, uintptr(newFrame))
		return
	}
	if got := keepDemoBytes(newFrame.Address()); !bytes.Equal(got, wantContent) {
		t.Errorf("%s: private copy does not equal what the page showed before", label)
	}
	if got := keepDemoBytes(pageAddr); !bytes.Equal(got, wantContent) {
		t.Errorf("%s: source contents were modified", label)
	}
	// flags other than P, RW and CoW are not mentioned by the property but
	// the handler has always retained them; both versions do.
	ignore := uintptr(FlagPresent | FlagRW | FlagCopyOnWrite)
	if (uintptr(after)&keepDemoFlagMask)&^ignore != (uintptr(before)&keepDemoFlagMask)&^ignore {
		t.Errorf("%s: unrelated flags changed: before %#x after %#x", label, uintptr(before), uintptr(after))
	}
	if env.flushed[pageAddr] == 0 {
		t.Errorf("%s: TLB entry for the faulting page was not invalidated", label)
	}
	for addr, val := range others {
		cur := env.tables.entries[addr]
		if cur == leaf {
			continue
		}
		if *cur != val {
			t.Errorf("%s: entry at %#x changed from %#x to %#x", label, addr, uintptr(val), uintptr(*cur))
		}
	}
}

func TestKeepC06CopyOnWriteFaultMatrix(t *testing.T) {
	env, restore := setupKeepDemoEnv(t, 8)
	defer restore()

	var (
		pageAddr  = env.arena.page()
		otherAddr = env.arena.page()
		sharedBuf = env.arena.page()
		arenaMark = env.arena.next
		srcFrame  = mm.Frame(sharedBuf >> mm.PageShift)
		upperOK   = [pageLevels - 1]pageTableEntry{
			pageTableEntry(FlagPresent | FlagRW),
			pageTableEntry(FlagPresent | FlagRW),
			pageTableEntry(FlagPresent | FlagRW),
		}
		leafBits = []PageTableEntryFlag{
			FlagPresent, FlagRW, FlagUserAccessible, FlagWriteThroughCaching,
			FlagDoNotCache, FlagAccessed, FlagDirty, FlagHugePage, FlagGlobal,
			FlagCopyOnWrite, FlagNoExecute,
		}
		upperChoices = []pageTableEntry{
			0,
			pageTableEntry(FlagPresent),
			pageTableEntry(FlagPresent | FlagRW | FlagUserAccessible),
			pageTableEntry(FlagPresent | FlagHugePage),
			pageTableEntry(FlagRW | FlagCopyOnWrite),
			pageTableEntry(FlagPresent | FlagCopyOnWrite),
		}
		errCodes = []uint64{0, 1, 2, 3, 4, 7, 8, 11, 16, 19, 0xf00}
		caseNo   int
	)

	run := func(label string, upper [pageLevels - 1]pageTableEntry, leafFlags PageTableEntryFlag, offset uintptr, errCode uint64, allocFailAt int, mapErr *kernel.Error) {
		caseNo++
		env.arena.next = arenaMark
		env.resetCounters()
		env.tables.entries = make(map[uintptr]*pageTableEntry)
		env.allocFailAt = allocFailAt
		env.mapTmpErr = mapErr

		leafVal := pageTableEntry(srcFrame.Address() | uintptr(leafFlags))
		leaf := env.tables.install(pageAddr, upper, leafVal)
		// a neighbour that shares the frame
		env.tables.install(otherAddr, upper, pageTableEntry(srcFrame.Address()|uintptr(FlagPresent|FlagCopyOnWrite)))
		keepDemoFill(keepDemoBytes(pageAddr), caseNo)
		want := append([]byte(nil), keepDemoBytes(pageAddr)...)
		// the shared frame holds exactly what the page shows
		copy(keepDemoBytes(sharedBuf), want)
		wantShared := append([]byte(nil), keepDemoBytes(sharedBuf)...)
		others := env.tables.snapshot()

		expectResume := allocFailAt == 0 && mapErr == nil &&
			upper[0].HasFlags(FlagPresent) && upper[1].HasFlags(FlagPresent) && upper[2].HasFlags(FlagPresent) &&
			leafVal.HasFlags(FlagPresent) && !leafVal.HasFlags(FlagRW) && leafVal.HasFlags(FlagCopyOnWrite)

		resumed := env.fault(pageAddr+offset, errCode)
		if resumed != expectResume {
			t.Errorf("%s: resumed = %t; expected %t", label, resumed, expectResume)
			return
		}
		if !bytes.Equal(keepDemoBytes(sharedBuf), wantShared) {
			t.Errorf("%s: shared frame contents changed", label)
		}
		if resumed {
			env.checkResolved(t, label, pageAddr, leaf, leafVal, srcFrame, want, others)
		}
	}

	// Every combination of flag bits on the faulting page.
	for combo := 0; combo < 1<<uint(len(leafBits)); combo++ {
		var flags PageTableEntryFlag
		for bit, f := range leafBits {
			if combo&(1<<uint(bit)) != 0 {
				flags |= f
			}
		}
		errCode := errCodes[combo%len(errCodes)]
		offset := uintptr(combo*37) % mm.PageSize
		run(fmt.Sprintf("leaf %#x", uintptr(flags)), upperOK, flags, offset, errCode, 0, nil)
	}

	// Upper level combinations.
	leafChoices := []PageTableEntryFlag{
		FlagPresent | FlagCopyOnWrite,
		FlagPresent | FlagCopyOnWrite | FlagRW,
		FlagPresent,
		FlagCopyOnWrite,
		FlagPresent | FlagCopyOnWrite | FlagNoExecute | FlagUserAccessible,
	}
	for _, u0 := range upperChoices {
		for _, u1 := range upperChoices {
			for _, u2 := range upperChoices {
				for li, lf := range leafChoices {
					upper := [pageLevels - 1]pageTableEntry{u0, u1, u2}
					label := fmt.Sprintf("upper %#x/%#x/%#x leaf %#x", uintptr(u0), uintptr(u1), uintptr(u2), uintptr(lf))
					run(label, upper, lf, uintptr(li*511), errCodes[(li+int(u0))%len(errCodes)], 0, nil)
				}
			}
		}
	}

	// Failures while resolving a CoW fault never resume, whatever the error code.
	for _, errCode := range errCodes {
		run(fmt.Sprintf("alloc failure, code %d", errCode), upperOK, FlagPresent|FlagCopyOnWrite, 8, errCode, 1, nil)
		run(fmt.Sprintf("temp mapping failure, code %d", errCode), upperOK, FlagPresent|FlagCopyOnWrite, 8, errCode, 0, keepDemoErr)
		run(fmt.Sprintf("both fail, code %d", errCode), upperOK, FlagPresent|FlagCopyOnWrite, 8, errCode, 1, keepDemoErr)
		// and a failure does not turn a non-CoW fault into a recoverable one
		run(fmt.Sprintf("alloc failure on RW page, code %d", errCode), upperOK, FlagPresent|FlagCopyOnWrite|FlagRW, 8, errCode, 1, nil)
	}
}

func TestKeepC06RepeatedFaultsOnZeroFrameSharers(t *testing.T) {
	const sharers = 6

	env, restore := setupKeepDemoEnv(t, 3*sharers+4)
	defer restore()

	var (
		zeroBuf   = env.arena.page()
		zeroFrame = mm.Frame(zeroBuf >> mm.PageShift)
		upperOK   = [pageLevels - 1]pageTableEntry{
			pageTableEntry(FlagPresent | FlagRW),
			pageTableEntry(FlagPresent | FlagRW),
			pageTableEntry(FlagPresent | FlagRW),
		}
		pages  [sharers]uintptr
		leaves [sharers]*pageTableEntry
		zeros  = make([]byte, mm.PageSize)
	)

	ReservedZeroedFrame = zeroFrame
	protectReservedZeroedPage = true

	shareFlags := FlagPresent | FlagCopyOnWrite | FlagNoExecute
	for i := range pages {
		// each page "shows" the zero frame: its host memory is all zeroes
		pages[i] = env.arena.page()
	}
	for i := range pages {
		leaves[i] = env.tables.install(pages[i], upperOK, pageTableEntry(zeroFrame.Address()|uintptr(shareFlags)))
	}

	resolved := make(map[int]mm.Frame)
	order := []int{3, 0, 5, 3, 1, 0, 4, 2, 2}
	for step, idx := range order {
		label := fmt.Sprintf("step %d (page %d)", step, idx)
		env.resetCounters()
		before := *leaves[idx]
		others := env.tables.snapshot()

		resumed := env.fault(pages[idx]+uintptr(step*8), 3)

		if _, already := resolved[idx]; already {
			// the page is writable and no longer CoW: this fault is not
			// recoverable and must leave everything alone.
			if resumed {
				t.Errorf("%s: fault on an already private page must not resume", label)
			}
			continue
		}

		if !resumed {
			t.Fatalf("%s: expected the fault to be resolved", label)
		}
		env.checkResolved(t, label, pages[idx], leaves[idx], before, zeroFrame, zeros, others)
		newFrame := leaves[idx].Frame()
		for otherIdx, f := range resolved {
			if f == newFrame {
				t.Errorf("%s: page received the same frame as page %d", label, otherIdx)
			}
		}
		resolved[idx] = newFrame

		// simulate the retried write landing in the private frame
		keepDemoBytes(newFrame.Address())[step] = 0xff

		if !bytes.Equal(keepDemoBytes(zeroBuf), zeros) {
			t.Fatalf("%s: the shared zero frame is no longer zero-filled", label)
		}
		for i := range pages {
			if _, done := resolved[i]; done {
				continue
			}
			if got := *leaves[i]; got.Frame() != zeroFrame || got.HasFlags(FlagRW) || !got.HasFlags(FlagPresent|FlagCopyOnWrite) {
				t.Errorf("%s: sharer %d was disturbed: entry %#x", label, i, uintptr(got))
			}
		}
	}

	if len(resolved) != sharers {
		t.Errorf("expected all %d sharers to be resolved; got %d", sharers, len(resolved))
	}
	for addr, e := range env.tables.entries {
		if e.Frame() == zeroFrame && e.HasFlags(FlagPresent|FlagRW) {
			t.Errorf("entry at %#x maps the shared zero frame writable: %#x", addr, uintptr(*e))
		}
	}
}

func TestKeepC06ZeroFrameNeverWritableViaMappingInterface(t *testing.T) {
	env, restore := setupKeepDemoEnv(t, 16)
	defer restore()

	scratch := env.arena.page()
	nextAddrFn = func(uintptr) uintptr { return scratch }

	// Bring the zero frame up the way Init does.
	keepDemoFill(keepDemoBytes(env.arena.next), 99) // the frame about to be allocated holds junk
	if err := reserveZeroedFrame(); err != nil {
		t.Fatalf("reserveZeroedFrame failed: %v", err)
	}
	if len(env.allocated) == 0 || ReservedZeroedFrame != env.allocated[len(env.allocated)-1] {
		t.Fatalf("expected ReservedZeroedFrame to be a freshly allocated frame")
	}
	zeroFrame := ReservedZeroedFrame
	zeros := make([]byte, mm.PageSize)
	if !bytes.Equal(keepDemoBytes(zeroFrame.Address()), zeros) {
		t.Fatal("expected the reserved frame to be zero-filled")
	}

	// From here on use the real mapping functions on top of the fake tables.
	mapTemporaryFn = MapTemporary
	unmapFn = Unmap
	mapFn = Map
	earlyReserveRegionFn = func(uintptr) (uintptr, *kernel.Error) { return 0x7000_0000_0000, nil }
	kernelPDTFrame := mm.Frame(0x1234)
	activePDTFn = func() uintptr { return kernelPDTFrame.Address() }
	pdt := PageDirectoryTable{pdtFrame: kernelPDTFrame}

	noWritableZeroMapping := func(label string) {
		t.Helper()
		for addr, e := range env.tables.entries {
			if e.HasFlags(FlagPresent|FlagRW) && e.Frame() == zeroFrame {
				t.Errorf("%s: entry at %#x maps the zero frame present+writable (%#x)", label, addr, uintptr(*e))
			}
		}
		if !bytes.Equal(keepDemoBytes(zeroFrame.Address()), zeros) {
			t.Errorf("%s: zero frame contents changed", label)
		}
	}

	bits := []PageTableEntryFlag{
		FlagPresent, FlagRW, FlagUserAccessible, FlagWriteThroughCaching, FlagDoNotCache,
		FlagAccessed, FlagDirty, FlagGlobal, FlagCopyOnWrite, FlagNoExecute,
	}
	page := mm.PageFromAddress(0x4000_2000_1000)
	for combo := 0; combo < 1<<uint(len(bits)); combo++ {
		var flags PageTableEntryFlag
		for bit, f := range bits {
			if combo&(1<<uint(bit)) != 0 {
				flags |= f
			}
		}
		label := fmt.Sprintf("flags %#x", uintptr(flags))
		wantRefused := flags&FlagRW != 0

		err := Map(page, zeroFrame, flags)
		if wantRefused && err == nil {
			t.Errorf("%s: Map accepted a writable mapping of the zero frame", label)
		}
		if !wantRefused && err != nil {
			t.Errorf("%s: Map refused a read-only mapping of the zero frame: %v", label, err)
		}
		noWritableZeroMapping(label + " Map")

		if wantRefused {
			if err := pdt.Map(page+1, zeroFrame, flags); err == nil {
				t.Errorf("%s: PageDirectoryTable.Map accepted a writable mapping of the zero frame", label)
			}
			if _, err := MapRegion(zeroFrame, mm.PageSize, flags); err == nil {
				t.Errorf("%s: MapRegion accepted a writable mapping of the zero frame", label)
			}
			if _, err := IdentityMapRegion(zeroFrame, 1, flags); err == nil {
				t.Errorf("%s: IdentityMapRegion accepted a writable mapping of the zero frame", label)
			}
			noWritableZeroMapping(label + " region")
		}

		// Other frames remain mappable with the same flags.
		if err := Map(page+2, zeroFrame+1, flags); err != nil {
			t.Errorf("%s: Map refused an unrelated frame: %v", label, err)
		}
	}

	if _, err := MapTemporary(zeroFrame); err == nil {
		t.Error("MapTemporary accepted the zero frame")
	}
	noWritableZeroMapping("MapTemporary")

	// A region that merely contains the zero frame is refused as well once
	// the zero frame is reached, and never leaves it writable.
	if _, err := MapRegion(zeroFrame-1, 3*mm.PageSize, FlagPresent|FlagRW); err == nil {
		t.Error("MapRegion accepted a writable region that spans the zero frame")
	}
	noWritableZeroMapping("spanning MapRegion")

	// Failures while reserving the frame are reported to the caller.
	mapTemporaryFn = func(mm.Frame) (mm.Page, *kernel.Error) { return 0, keepDemoErr }
	if err := reserveZeroedFrame(); err == nil {
		t.Error("expected reserveZeroedFrame to report the temporary mapping failure")
	}
	env.resetCounters()
	env.allocFailAt = 1
	if err := reserveZeroedFrame(); err == nil {
		t.Error("expected reserveZeroedFrame to report the allocation failure")
	}
}
