package aml

// Demonstration for property C13 (namespace tree stays well-formed and path
// lookup follows the ACPI search rules).
//
// Copy to kernel/device/acpi/aml/keep2_c13_demo_test.go and run with
//   cd kernel && go test -vet=off -count=1 -run TestKeep2C13 ./device/acpi/aml/
//
// The checks below only rely on what the property states:
//  - parent/sibling/child links agree in both directions,
//  - freed objects are not reachable (ObjectAt returns nil, no live link
//    points at them),
//  - a freed slot (ANY freed slot, no order assumed) is re-used before the pool
//    grows,
//  - Find returns what the ACPI search rules designate, computed by an
//    independent reference that works on a shadow model of the tree.
// Situations the property leaves open (freeing an object that still has
// children, lookups from a scope index that is not a live object) are
// exercised too, but every permitted outcome is accepted.

import (
	"math/rand"
	"testing"
)

type k2c13Node struct {
	name     [amlNameLen]byte
	parent   uint32
	children []uint32
}

type k2c13Model struct {
	t     *testing.T
	tree  *ObjectTree
	live  map[uint32]*k2c13Node
	freed map[uint32]bool
}

func k2c13NewModel(t *testing.T) *k2c13Model {
	m := &k2c13Model{
		t:     t,
		tree:  NewObjectTree(),
		live:  make(map[uint32]*k2c13Node),
		freed: make(map[uint32]bool),
	}

	root := m.create([amlNameLen]byte{'\\'})
	if root != 0 {
		t.Fatalf("expected the first object to get index 0; got %d", root)
	}
	return m
}

// create allocates a named object and checks the slot re-use clause.
func (m *k2c13Model) create(name [amlNameLen]byte) uint32 {
	poolLen := len(m.tree.objPool)
	hadFree := len(m.freed) != 0

	obj := m.tree.newNamedObject(pOpIntScopeBlock, 0, name)
	if obj == nil {
		m.t.Fatalf("newNamedObject returned nil")
	}

	switch {
	case hadFree:
		if len(m.tree.objPool) != poolLen {
			m.t.Fatalf("pool grew from %d to %d although %d freed slots were available", poolLen, len(m.tree.objPool), len(m.freed))
		}
		if !m.freed[obj.index] {
			m.t.Fatalf("new object got index %d which is not one of the freed slots", obj.index)
		}
		delete(m.freed, obj.index)
	default:
		if len(m.tree.objPool) != poolLen+1 {
			m.t.Fatalf("expected pool to grow by exactly one slot (from %d); got %d", poolLen, len(m.tree.objPool))
		}
		if obj.index != uint32(poolLen) {
			m.t.Fatalf("expected new object to get index %d; got %d", poolLen, obj.index)
		}
	}

	if _, exists := m.live[obj.index]; exists {
		m.t.Fatalf("index %d handed out twice", obj.index)
	}
	if obj.name != name {
		m.t.Fatalf("new object has name %q; want %q", obj.name[:], name[:])
	}
	if obj.parentIndex != InvalidIndex || obj.prevSiblingIndex != InvalidIndex || obj.nextSiblingIndex != InvalidIndex ||
		obj.firstArgIndex != InvalidIndex || obj.lastArgIndex != InvalidIndex {
		m.t.Fatalf("new object %d is not fully unlinked: %+v", obj.index, *obj)
	}

	m.live[obj.index] = &k2c13Node{name: name, parent: InvalidIndex}
	return obj.index
}

func (m *k2c13Model) hasChildNamed(parent uint32, name [amlNameLen]byte) bool {
	for _, c := range m.live[parent].children {
		if m.live[c].name == name {
			return true
		}
	}
	return false
}

func (m *k2c13Model) inSubtree(node, subtreeRoot uint32) bool {
	for ; node != InvalidIndex; node = m.live[node].parent {
		if node == subtreeRoot {
			return true
		}
	}
	return false
}

func (m *k2c13Model) appendChild(parent, child uint32) {
	m.tree.append(m.tree.ObjectAt(parent), m.tree.ObjectAt(child))
	m.live[child].parent = parent
	m.live[parent].children = append(m.live[parent].children, child)
}

func (m *k2c13Model) insertAfter(parent, child, nextTo uint32) {
	m.tree.appendAfter(m.tree.ObjectAt(parent), m.tree.ObjectAt(child), m.tree.ObjectAt(nextTo))
	m.live[child].parent = parent

	kids := m.live[parent].children
	var out []uint32
	for _, k := range kids {
		out = append(out, k)
		if k == nextTo {
			out = append(out, child)
		}
	}
	m.live[parent].children = out
}

func (m *k2c13Model) modelUnlink(child uint32) {
	parent := m.live[child].parent
	if parent == InvalidIndex {
		return
	}
	kids := m.live[parent].children
	var out []uint32
	for _, k := range kids {
		if k != child {
			out = append(out, k)
		}
	}
	m.live[parent].children = out
	m.live[child].parent = InvalidIndex
}

func (m *k2c13Model) detach(child uint32) {
	parent := m.live[child].parent
	m.tree.detach(m.tree.ObjectAt(parent), m.tree.ObjectAt(child))
	m.modelUnlink(child)
}

func (m *k2c13Model) free(node uint32) {
	m.tree.free(m.tree.ObjectAt(node))
	m.modelUnlink(node)
	delete(m.live, node)
	m.freed[node] = true
}

// verify checks every well-formedness clause of the property against the model.
func (m *k2c13Model) verify(where string) {
	t, tree := m.t, m.tree

	if len(m.live)+len(m.freed) != len(tree.objPool) {
		t.Fatalf("[%s] pool has %d slots; model has %d live + %d freed", where, len(tree.objPool), len(m.live), len(m.freed))
	}

	for index := range m.freed {
		if tree.ObjectAt(index) != nil {
			t.Fatalf("[%s] freed object %d is still reachable via ObjectAt", where, index)
		}
	}

	if tree.ObjectAt(uint32(len(tree.objPool))) != nil || tree.ObjectAt(InvalidIndex) != nil {
		t.Fatalf("[%s] ObjectAt returned an object for an out of range index", where)
	}

	for index, node := range m.live {
		obj := tree.ObjectAt(index)
		if obj == nil {
			t.Fatalf("[%s] live object %d is not reachable via ObjectAt", where, index)
		}
		if obj.index != index {
			t.Fatalf("[%s] object at %d claims index %d", where, index, obj.index)
		}
		if obj.name != node.name {
			t.Fatalf("[%s] object %d has name %q; want %q", where, index, obj.name[:], node.name[:])
		}
		if obj.parentIndex != node.parent {
			t.Fatalf("[%s] object %d has parent %d; want %d", where, index, obj.parentIndex, node.parent)
		}
		if node.parent == InvalidIndex && (obj.prevSiblingIndex != InvalidIndex || obj.nextSiblingIndex != InvalidIndex) {
			t.Fatalf("[%s] detached object %d still has sibling links (%d, %d)", where, index, obj.prevSiblingIndex, obj.nextSiblingIndex)
		}

		// Forward walk
		var fwd []uint32
		prev := InvalidIndex
		for i := obj.firstArgIndex; i != InvalidIndex; {
			if m.freed[i] {
				t.Fatalf("[%s] freed object %d reachable from child list of %d", where, i, index)
			}
			child := tree.ObjectAt(i)
			if child == nil {
				t.Fatalf("[%s] child list of %d contains unreachable object %d", where, index, i)
			}
			if child.parentIndex != index {
				t.Fatalf("[%s] child %d of %d points to parent %d", where, i, index, child.parentIndex)
			}
			if child.prevSiblingIndex != prev {
				t.Fatalf("[%s] child %d of %d has prev link %d; want %d", where, i, index, child.prevSiblingIndex, prev)
			}
			fwd = append(fwd, i)
			if len(fwd) > len(tree.objPool) {
				t.Fatalf("[%s] cycle in child list of %d", where, index)
			}
			prev, i = i, child.nextSiblingIndex
		}
		if obj.lastArgIndex != prev {
			t.Fatalf("[%s] object %d has last arg %d; forward walk ended at %d", where, index, obj.lastArgIndex, prev)
		}

		// Backward walk
		var bwd []uint32
		for i := obj.lastArgIndex; i != InvalidIndex; i = tree.ObjectAt(i).prevSiblingIndex {
			bwd = append(bwd, i)
			if len(bwd) > len(tree.objPool) {
				t.Fatalf("[%s] cycle in reverse child list of %d", where, index)
			}
		}

		if len(fwd) != len(node.children) || len(bwd) != len(node.children) {
			t.Fatalf("[%s] object %d has %d/%d children (fwd/bwd); want %d", where, index, len(fwd), len(bwd), len(node.children))
		}
		for i, want := range node.children {
			if fwd[i] != want || bwd[len(bwd)-1-i] != want {
				t.Fatalf("[%s] child %d of %d is %d (fwd) / %d (bwd); want %d", where, i, index, fwd[i], bwd[len(bwd)-1-i], want)
			}
		}

		if got := tree.NumArgs(obj); got != uint32(len(node.children)) {
			t.Fatalf("[%s] NumArgs(%d) = %d; want %d", where, index, got, len(node.children))
		}
		for i, want := range node.children {
			if got := tree.ArgAt(obj, uint32(i)); got == nil || got.index != want {
				t.Fatalf("[%s] ArgAt(%d, %d) returned %v; want object %d", where, index, i, got, want)
			}
		}
	}
}

// refFind is an independent implementation of the ACPI lookup rules that works
// on the model only.
func (m *k2c13Model) refFind(scope uint32, expr []byte) uint32 {
	if len(expr) == 0 || scope == InvalidIndex {
		return InvalidIndex
	}

	switch {
	case expr[0] == '\\':
		if len(expr) == 1 {
			return 0
		}
		return m.refDown(0, expr[1:])
	case expr[0] == '^':
		i := 0
		for ; i < len(expr) && expr[i] == '^'; i++ {
			if scope = m.live[scope].parent; scope == InvalidIndex {
				return InvalidIndex
			}
		}
		if i == len(expr) {
			return scope
		}
		return m.refDown(scope, expr[i:])
	case len(expr) > amlNameLen:
		return m.refDown(scope, expr)
	case len(expr) == amlNameLen:
		for ; scope != InvalidIndex; scope = m.live[scope].parent {
			if c := m.refChild(scope, expr); c != InvalidIndex {
				return c
			}
		}
	}
	return InvalidIndex
}

func (m *k2c13Model) refChild(scope uint32, seg []byte) uint32 {
	for _, c := range m.live[scope].children {
		if string(m.live[c].name[:]) == string(seg[:amlNameLen]) {
			return c
		}
	}
	return InvalidIndex
}

func k2c13IsLead(b byte) bool { return b == '_' || (b >= 'A' && b <= 'Z') }

func (m *k2c13Model) refDown(scope uint32, expr []byte) uint32 {
	for len(expr) > 0 {
		// skip dual/multi name prefix bytes
		for len(expr) > 0 && !k2c13IsLead(expr[0]) {
			expr = expr[1:]
		}
		if len(expr) < amlNameLen {
			return InvalidIndex
		}
		if scope = m.refChild(scope, expr); scope == InvalidIndex {
			return InvalidIndex
		}
		expr = expr[amlNameLen:]
	}
	return scope
}

func (m *k2c13Model) liveIndices() []uint32 {
	var out []uint32
	for i := uint32(0); i < uint32(len(m.tree.objPool)); i++ {
		if _, ok := m.live[i]; ok {
			out = append(out, i)
		}
	}
	return out
}

func (m *k2c13Model) pathTo(node uint32) [][amlNameLen]byte {
	var rev [][amlNameLen]byte
	for ; node != InvalidIndex && m.live[node].parent != InvalidIndex; node = m.live[node].parent {
		rev = append(rev, m.live[node].name)
	}
	out := make([][amlNameLen]byte, 0, len(rev))
	for i := len(rev) - 1; i >= 0; i-- {
		out = append(out, rev[i])
	}
	return out
}

// k2c13Join renders a list of segments the way the parser hands raw name
// strings to Find: optionally with the dual (0x2e) / multi (0x2f, count)
// name prefix bytes left in the stream.
func k2c13Join(prefix string, segs [][amlNameLen]byte, withPrefixBytes bool) []byte {
	out := []byte(prefix)
	if withPrefixBytes {
		switch {
		case len(segs) == 2:
			out = append(out, 0x2e)
		case len(segs) > 2:
			out = append(out, 0x2f, byte(len(segs)))
		}
	}
	for _, s := range segs {
		out = append(out, s[:]...)
	}
	return out
}

func (m *k2c13Model) checkFind(where string, scope uint32, expr []byte) {
	want := m.refFind(scope, expr)
	got := m.tree.Find(scope, expr)
	if got != want {
		m.t.Fatalf("[%s] Find(%d, %q) = %d; want %d", where, scope, expr, got, want)
	}
}

var k2c13Names = [][amlNameLen]byte{
	{'_', 'S', 'B', '_'}, {'P', 'C', 'I', '0'}, {'I', 'D', 'E', '0'}, {'_', 'C', 'R', 'S'},
	{'_', 'A', 'D', 'R'}, {'F', 'O', 'O', '_'}, {'B', 'A', 'R', '0'}, {'X', '_', '_', '_'},
}

// checkAllFinds runs a systematic set of lookup expressions from every live
// scope: all prefix forms, 0-3 segments, raw prefix bytes, truncated names.
func (m *k2c13Model) checkAllFinds(where string, rng *rand.Rand) {
	live := m.liveIndices()
	prefixes := []string{"", "\\", "^", "^^", "^^^", "^^^^^^^^^^^^"}

	for _, scope := range live {
		// Expressions derived from real paths in the tree (a sample of targets)
		for n := 0; n < 8; n++ {
			target := live[rng.Intn(len(live))]
			full := m.pathTo(target)
			for _, prefix := range prefixes {
				for tail := 0; tail <= len(full) && tail <= 3; tail++ {
					segs := full[len(full)-tail:]
					for _, raw := range []bool{false, true} {
						expr := k2c13Join(prefix, segs, raw)
						m.checkFind(where, scope, expr)

						// too-short variants
						for cut := 1; cut < amlNameLen && cut < len(expr); cut++ {
							m.checkFind(where, scope, expr[:len(expr)-cut])
						}
					}
				}
			}
		}

		// Expressions built from random known/unknown names
		for n := 0; n < 40; n++ {
			var segs [][amlNameLen]byte
			for s := rng.Intn(4); s > 0; s-- {
				segs = append(segs, k2c13Names[rng.Intn(len(k2c13Names))])
			}
			expr := k2c13Join(prefixes[rng.Intn(len(prefixes))], segs, rng.Intn(2) == 0)
			m.checkFind(where, scope, expr)
		}

		// Malformed expressions: must not crash and must either fail or
		// return a live object.
		for n := 0; n < 40; n++ {
			expr := make([]byte, rng.Intn(12))
			for i := range expr {
				switch rng.Intn(4) {
				case 0:
					expr[i] = byte(rng.Intn(256))
				case 1:
					expr[i] = "\\^./"[rng.Intn(4)]
				default:
					expr[i] = "_ABCDEFGHIJKLMNOPQRSTUVWXYZ0123456789"[rng.Intn(37)]
				}
			}
			got := m.tree.Find(scope, expr)
			if got != InvalidIndex {
				if _, ok := m.live[got]; !ok {
					m.t.Fatalf("[%s] Find(%d, %q) returned %d which is not a live object", where, scope, expr, got)
				}
			}
		}
		m.checkFind(where, scope, nil)
		m.checkFind(where, scope, []byte{})
	}

	if got := m.tree.Find(InvalidIndex, []byte("\\")); got != InvalidIndex {
		m.t.Fatalf("[%s] Find(InvalidIndex, \\) = %d; want InvalidIndex", where, got)
	}
}

func TestKeep2C13TreeEditsAndLookups(t *testing.T) {
	for seed := int64(1); seed <= 12; seed++ {
		rng := rand.New(rand.NewSource(seed))
		m := k2c13NewModel(t)
		m.verify("init")

		steps := 400
		for step := 0; step < steps; step++ {
			live := m.liveIndices()
			pick := func() uint32 { return live[rng.Intn(len(live))] }

			switch op := rng.Intn(10); {
			case op < 4: // create + attach (append or insert-after) or leave detached
				name := k2c13Names[rng.Intn(len(k2c13Names))]
				parent := pick()
				if m.hasChildNamed(parent, name) {
					continue
				}
				child := m.create(name)
				kids := m.live[parent].children
				switch how := rng.Intn(5); {
				case how == 0:
					// stays detached
				case how < 3 || len(kids) == 0:
					m.appendChild(parent, child)
				default:
					m.insertAfter(parent, child, kids[rng.Intn(len(kids))])
				}
			case op < 6: // detach
				node := pick()
				if node == 0 || m.live[node].parent == InvalidIndex {
					continue
				}
				m.detach(node)
			case op < 7: // re-attach a detached sub-tree
				node, parent := pick(), pick()
				if node == 0 || m.live[node].parent != InvalidIndex || m.inSubtree(parent, node) || m.hasChildNamed(parent, m.live[node].name) {
					continue
				}
				kids := m.live[parent].children
				if len(kids) != 0 && rng.Intn(2) == 0 {
					m.insertAfter(parent, node, kids[rng.Intn(len(kids))])
				} else {
					m.appendChild(parent, node)
				}
			default: // free a leaf (attached or detached)
				node := pick()
				if node == 0 || len(m.live[node].children) != 0 {
					continue
				}
				m.free(node)
			}

			m.verify("after edit")
			if step%50 == 49 {
				m.checkAllFinds("during edits", rng)
			}
		}

		m.checkAllFinds("final", rng)

		// Free everything but the root, leaves first; afterwards all those slots
		// must be handed out again before the pool grows.
		for len(m.live) > 1 {
			for _, node := range m.liveIndices() {
				if node != 0 && len(m.live[node].children) == 0 {
					m.free(node)
				}
			}
			m.verify("teardown")
		}
		poolLen := len(m.tree.objPool)
		for i := 1; i < poolLen; i++ {
			m.appendChild(0, m.create([amlNameLen]byte{'N', byte('A' + i%26), byte('A' + (i/26)%26), byte('A' + (i/676)%26)}))
		}
		m.verify("refill")
		if len(m.tree.objPool) != poolLen {
			t.Fatalf("pool grew from %d to %d while refilling freed slots", poolLen, len(m.tree.objPool))
		}
		m.create([amlNameLen]byte{'G', 'R', 'O', 'W'})
		m.verify("grow")
		m.checkAllFindsLight("refilled")
	}
}

// checkAllFindsLight checks single segment and absolute lookups for every
// child of the root from every scope (used on the wide, refilled tree).
func (m *k2c13Model) checkAllFindsLight(where string) {
	live := m.liveIndices()
	for n, scope := range live {
		if n%7 != 0 {
			continue
		}
		for k, target := range live {
			if k%5 != 0 || target == 0 {
				continue
			}
			name := m.live[target].name
			m.checkFind(where, scope, name[:])
			m.checkFind(where, scope, append([]byte{'\\'}, name[:]...))
			m.checkFind(where, scope, append([]byte{'^'}, name[:]...))
			m.checkFind(where, scope, name[:3])
		}
	}
}

// TestKeep2C13Shadowing checks the upward search for single segment names and
// that multi-segment names are resolved downward only.
func TestKeep2C13Shadowing(t *testing.T) {
	m := k2c13NewModel(t)
	foo := [amlNameLen]byte{'F', 'O', 'O', '_'}
	bar := [amlNameLen]byte{'B', 'A', 'R', '0'}
	sb := [amlNameLen]byte{'_', 'S', 'B', '_'}

	rootFoo := m.create(foo)
	m.appendChild(0, rootFoo)
	sbIdx := m.create(sb)
	m.appendChild(0, sbIdx)
	sbBar := m.create(bar)
	m.appendChild(sbIdx, sbBar)
	sbFoo := m.create(foo)
	m.insertAfter(sbIdx, sbFoo, sbBar)
	deep := m.create(sb)
	m.appendChild(sbBar, deep)
	m.verify("shadow setup")

	specs := []struct {
		scope uint32
		expr  string
		want  uint32
	}{
		{deep, "FOO_", sbFoo},               // nearest enclosing scope wins
		{sbBar, "FOO_", sbFoo},              //
		{0, "FOO_", rootFoo},                //
		{deep, "BAR0", sbBar},               // found in an enclosing scope
		{deep, "_SB_", deep},                // deep has no children; the enclosing scope BAR0 contains deep itself
		{sbBar, "_SB_", deep},               // own scope first
		{deep, "_SB_BAR0", InvalidIndex},    // multi segment: downward only, no upward search
		{0, "_SB_BAR0", sbBar},              //
		{0, "\x2e_SB_BAR0", sbBar},          // dual name prefix left in the stream
		{0, "\\\x2f\x03_SB_BAR0_SB_", deep}, // multi name prefix left in the stream
		{deep, "^^FOO_", sbFoo},             //
		{deep, "^^^FOO_", rootFoo},          //
		{deep, "^^^", 0},                    //
		{deep, "^^^^", InvalidIndex},        // above the root
		{deep, "^^^^FOO_", InvalidIndex},    //
		{deep, "\\", 0},                     //
		{deep, "\\FOO", InvalidIndex},       // too short
		{deep, "FOO", InvalidIndex},         // too short
		{sbIdx, "BAR0_S", InvalidIndex},     // second segment too short
		{deep, "^BAR0", InvalidIndex},       // '^' names are not searched upward
		{deep, "^_SB_", deep},               //
	}
	for i, spec := range specs {
		if want := m.refFind(spec.scope, []byte(spec.expr)); want != spec.want {
			t.Fatalf("[spec %d] reference disagrees with hand-computed answer: %d vs %d", i, want, spec.want)
		}
		if got := m.tree.Find(spec.scope, []byte(spec.expr)); got != spec.want {
			t.Errorf("[spec %d] Find(%d, %q) = %d; want %d", i, spec.scope, spec.expr, got, spec.want)
		}
	}

	// Removing the shadowing object makes the outer one visible again.
	m.free(sbFoo)
	m.verify("shadow removed")
	m.checkFind("shadow removed", deep, foo[:])
	if got := m.tree.Find(deep, foo[:]); got != rootFoo {
		t.Errorf("expected lookup to fall through to the root scope's FOO_ (%d); got %d", rootFoo, got)
	}
}

// TestKeep2C13OpenBehaviour exercises two situations the property does not
// constrain and accepts every outcome that keeps the tree well-formed.
func TestKeep2C13OpenBehaviour(t *testing.T) {
	m := k2c13NewModel(t)
	a := m.create([amlNameLen]byte{'A', 'A', 'A', 'A'})
	m.appendChild(0, a)
	b := m.create([amlNameLen]byte{'B', 'B', 'B', 'B'})
	m.appendChild(0, b)
	c := m.create([amlNameLen]byte{'C', 'C', 'C', 'C'})
	m.appendChild(b, c)
	d := m.create([amlNameLen]byte{'D', 'D', 'D', 'D'})
	m.appendChild(0, d)
	m.verify("open setup")

	// Freeing an object that still owns children is refused. Whether the
	// object is left attached to its parent or not is not specified; it must
	// however stay alive, keep its children and the tree must stay well-formed.
	panicked := func() (p bool) {
		defer func() { p = recover() != nil }()
		m.tree.free(m.tree.ObjectAt(b))
		return
	}()
	if !panicked {
		t.Fatalf("expected free of an object with children to be refused")
	}
	bObj := m.tree.ObjectAt(b)
	if bObj == nil {
		t.Fatalf("object %d disappeared after a refused free", b)
	}
	if bObj.parentIndex == InvalidIndex {
		m.modelUnlink(b) // permitted outcome #1: detached but alive
	}
	m.verify("after refused free") // permitted outcome #2: nothing changed
	m.checkFind("after refused free", b, []byte("CCCC"))
	m.checkFind("after refused free", c, []byte("^^"))
	m.checkFind("after refused free", 0, []byte("BBBBCCCC"))
	m.checkFind("after refused free", d, []byte("AAAA"))

	// A lookup from a scope index that does not refer to a live object is
	// outside the property; it may fail (InvalidIndex) or panic but must not
	// invent an answer for a relative path, and must leave the tree intact.
	m.free(d)
	m.verify("freed d")
	for _, scope := range []uint32{d, uint32(len(m.tree.objPool)) + 10} {
		for _, expr := range []string{"AAAA", "^AAAA", "^", "BBBBCCCC"} {
			func() {
				defer func() { _ = recover() }()
				if got := m.tree.Find(scope, []byte(expr)); got != InvalidIndex {
					t.Errorf("Find(%d, %q) from a dead scope returned %d", scope, expr, got)
				}
			}()
		}
	}
	m.verify("after dead scope lookups")
}
