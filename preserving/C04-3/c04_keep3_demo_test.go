package vmm

// Demonstration for property C04 (page-table operations implement exactly the
// requested address translation).
//
// Copy to kernel/mm/vmm/c04_keep3_demo_test.go and run:
//   cd kernel && go test -vet=off -count=1 -run TestC04Keep3Demo ./mm/vmm/
//
// The test emulates physical memory with a page-aligned arena (frame number ==
// real address >> 12), emulates the MMU's recursive-mapping resolution through
// the ptePtrFn / nextAddrFn seams and checks ONLY what the property states:
// translations + exact leaf permission bits, untouched other pages, zeroed new
// tables, TLB invalidation of the changed page, bit-for-bit preservation of
// the active address space when an inactive one is modified and clean failure
// when the frame allocator runs dry.

import (
	"runtime"
	"testing"
	"unsafe"

	"github.com/ProjectSerenity/firefly/kernel"
	"github.com/ProjectSerenity/firefly/kernel/mm"
)

const c04ArenaPages = 256

type c04Mapping struct {
	frame mm.Frame
	flags PageTableEntryFlag
}

type c04Sim struct {
	t *testing.T

	backing  []byte
	base     uintptr // page aligned start of the arena
	nextPage int     // next never-used arena page

	activeRoot mm.Frame

	// allocator state
	allocated  []mm.Frame // frames handed out since the last resetAllocLog
	failAfter  int        // fail once this many further allocations succeeded; <0: never
	failErr    *kernel.Error
	allocCalls int

	flushed []uintptr

	// virtOf maps the real address of a page table entry to the recursive
	// virtual address the kernel used to reach it.
	virtOf map[uintptr]uintptr
}

func newC04Sim(t *testing.T) *c04Sim {
	s := &c04Sim{t: t, failAfter: -1, virtOf: map[uintptr]uintptr{}}
	s.backing = make([]byte, (c04ArenaPages+1)*int(mm.PageSize))
	start := uintptr(unsafe.Pointer(&s.backing[0]))
	s.base = (start + mm.PageSize - 1) &^ (mm.PageSize - 1)
	return s
}

func (s *c04Sim) table(f mm.Frame) *[512]pageTableEntry {
	addr := f.Address()
	if addr < s.base || addr >= s.base+c04ArenaPages*mm.PageSize {
		s.t.Fatalf("frame 0x%x is not backed by the emulated physical memory", uintptr(f))
	}
	return (*[512]pageTableEntry)(unsafe.Pointer(addr))
}

// rawFrame grabs a fresh arena page and fills it with junk.
func (s *c04Sim) rawFrame() mm.Frame {
	if s.nextPage >= c04ArenaPages {
		s.t.Fatalf("emulated physical memory exhausted")
	}
	addr := s.base + uintptr(s.nextPage)*mm.PageSize
	s.nextPage++
	page := (*[4096]byte)(unsafe.Pointer(addr))
	for i := range page {
		page[i] = 0xA5
	}
	return mm.Frame(addr >> mm.PageShift)
}

// newRoot builds an empty top-level table whose last entry maps itself.
func (s *c04Sim) newRoot() mm.Frame {
	f := s.rawFrame()
	tbl := s.table(f)
	for i := range tbl {
		tbl[i] = 0
	}
	tbl[511] = pageTableEntry(f.Address() | uintptr(FlagPresent|FlagRW))
	return f
}

func (s *c04Sim) alloc() (mm.Frame, *kernel.Error) {
	s.allocCalls++
	if s.failAfter == 0 {
		return mm.InvalidFrame, s.failErr
	}
	if s.failAfter > 0 {
		s.failAfter--
	}
	f := s.rawFrame()
	s.allocated = append(s.allocated, f)
	return f, nil
}

// resolve emulates the MMU: it translates a virtual address using the tables
// reachable from the active root and returns the (real) address of the byte.
func (s *c04Sim) resolve(virtAddr uintptr) uintptr {
	f := s.activeRoot
	for level := 0; level < 4; level++ {
		idx := (virtAddr >> (39 - 9*uint(level))) & 511
		e := s.table(f)[idx]
		if uintptr(e)&1 == 0 {
			s.t.Fatalf("kernel code touched virtual address 0x%x which is not mapped (level %d); this would fault on real hardware", virtAddr, level)
		}
		f = mm.Frame((uintptr(e) & 0x000ffffffffff000) >> 12)
	}
	return f.Address() + (virtAddr & 4095)
}

// leaf performs an independent walk from the given root and returns the final
// hardware entry for virtAddr or ok=false if some level is not present.
func (s *c04Sim) leaf(root mm.Frame, virtAddr uintptr) (entry uintptr, ok bool) {
	f := root
	for level := 0; level < 4; level++ {
		idx := (virtAddr >> (39 - 9*uint(level))) & 511
		e := uintptr(s.table(f)[idx])
		if e&1 == 0 {
			return e, false
		}
		if level == 3 {
			return e, true
		}
		f = mm.Frame((e & 0x000ffffffffff000) >> 12)
	}
	return 0, false
}

func (s *c04Sim) install() func() {
	origPtePtr, origNextAddr, origFlush, origActive := ptePtrFn, nextAddrFn, flushTLBEntryFn, activePDTFn
	origReserve, origProtect := earlyReserveLastUsed, protectReservedZeroedPage

	// In the kernel ptePtrFn is the identity, so the pointer handed to the
	// walker IS the recursive virtual address of the entry and Map derives
	// the virtual address of the next table from it. Under test the pointer
	// is a real address instead, so remember which virtual address each
	// pointer stands for and undo the substitution in nextAddrFn.
	ptePtrFn = func(entryAddr uintptr) unsafe.Pointer {
		real := s.resolve(entryAddr)
		s.virtOf[real] = entryAddr
		return unsafe.Pointer(real)
	}
	nextAddrFn = func(tableAddr uintptr) uintptr {
		entryAddr, ok := s.virtOf[tableAddr>>9]
		if !ok {
			s.t.Fatalf("nextAddrFn called with 0x%x which is not derived from a walked entry", tableAddr)
		}
		return s.resolve(entryAddr << 9)
	}
	flushTLBEntryFn = func(addr uintptr) { s.flushed = append(s.flushed, addr) }
	activePDTFn = func() uintptr { return s.activeRoot.Address() }
	mm.SetFrameAllocator(s.alloc)
	protectReservedZeroedPage = false

	return func() {
		ptePtrFn, nextAddrFn, flushTLBEntryFn, activePDTFn = origPtePtr, origNextAddr, origFlush, origActive
		earlyReserveLastUsed, protectReservedZeroedPage = origReserve, origProtect
		mm.SetFrameAllocator(nil)
	}
}

func (s *c04Sim) flushedAddr(addr uintptr) bool {
	for _, a := range s.flushed {
		if a == addr {
			return true
		}
	}
	return false
}

// checkSpace compares every page of the universe against the model using an
// independent walk and, for the active space, the kernel's own Translate.
func (s *c04Sim) checkSpace(what string, root mm.Frame, universe []uintptr, model map[uintptr]c04Mapping) {
	t := s.t
	for _, va := range universe {
		exp, mapped := model[va]
		entry, present := s.leaf(root, va)

		switch {
		case mapped && !present:
			t.Fatalf("[%s] page 0x%x: expected mapping to frame 0x%x; hardware walk says not present", what, va, uintptr(exp.frame))
		case !mapped && present:
			t.Fatalf("[%s] page 0x%x: expected no mapping; hardware walk finds entry 0x%x", what, va, entry)
		case mapped:
			if got := mm.Frame((entry & 0x000ffffffffff000) >> 12); got != exp.frame {
				t.Fatalf("[%s] page 0x%x: expected frame 0x%x; got 0x%x", what, va, uintptr(exp.frame), uintptr(got))
			}
			if got := entry &^ 0x000ffffffffff000; got != uintptr(exp.flags) {
				t.Fatalf("[%s] page 0x%x: expected exactly flags 0x%x in the hardware entry; got 0x%x", what, va, uintptr(exp.flags), got)
			}
		}

		if root != s.activeRoot {
			continue
		}

		for _, off := range []uintptr{0, 1, 0x7ff, 0xfff} {
			phys, err := Translate(va + off)
			switch {
			case mapped && err != nil:
				t.Fatalf("[%s] Translate(0x%x): unexpected error %v", what, va+off, err)
			case mapped && phys != exp.frame.Address()+off:
				t.Fatalf("[%s] Translate(0x%x): expected 0x%x; got 0x%x", what, va+off, exp.frame.Address()+off, phys)
			case !mapped && err != ErrInvalidMapping:
				t.Fatalf("[%s] Translate(0x%x): expected ErrInvalidMapping; got 0x%x, %v", what, va+off, phys, err)
			}
		}
	}
}

// checkNewTables verifies that each table allocated by the last operation is
// empty apart from the single entry on the path to virtAddr.
func (s *c04Sim) checkNewTables(what string, virtAddr uintptr) {
	n := len(s.allocated)
	for i, f := range s.allocated {
		// allocated[i] serves level 4-n+i (levels 1..3 are allocatable)
		level := 4 - n + i
		pathIdx := int((virtAddr >> (39 - 9*uint(level))) & 511)
		for idx, e := range s.table(f) {
			if idx != pathIdx && e != 0 {
				s.t.Fatalf("[%s] new level-%d table (frame 0x%x) entry %d should be empty; got 0x%x", what, level, uintptr(f), idx, uintptr(e))
			}
		}
	}
}

func (s *c04Sim) snapshot() []byte {
	out := make([]byte, c04ArenaPages*int(mm.PageSize))
	copy(out, (*[c04ArenaPages * 4096]byte)(unsafe.Pointer(s.base))[:])
	return out
}

func (s *c04Sim) assertFramesUnchanged(what string, before []byte, frames map[mm.Frame]bool) {
	now := (*[c04ArenaPages * 4096]byte)(unsafe.Pointer(s.base))
	for f := range frames {
		off := int(f.Address() - s.base)
		for i := 0; i < 4096; i++ {
			if now[off+i] != before[off+i] {
				s.t.Fatalf("[%s] table frame 0x%x of the active address space changed at byte %d", what, uintptr(f), i)
			}
		}
	}
}

var c04Universe = []uintptr{
	0x0000000000000000, // P4 0, first page
	0x0000000000001000, // same P1 as above
	0x0000000000200000, // same P2, other P1
	0x0000000040000000, // same P3, other P2
	0x0000008000000000, // P4 1
	0x00007ffffffff000, // last page of the lower half
	0xffff800000000000, // first page of the higher half
	0xffff800000100000, // kernel image area
	0xffffff7fffffe000, // just below the temp mapping page (early reserve area)
	0xffffff7ffffff000, // temp mapping page
}

var c04Flags = []PageTableEntryFlag{
	FlagPresent,
	FlagPresent | FlagRW,
	FlagPresent | FlagRW | FlagUserAccessible,
	FlagPresent | PageTableEntryFlag(FlagNoExecute),
	FlagPresent | FlagUserAccessible | FlagCopyOnWrite | FlagWriteThroughCaching,
	FlagPresent | FlagRW | FlagGlobal | FlagDoNotCache | PageTableEntryFlag(FlagNoExecute),
}

var c04Frames = []mm.Frame{0, 1, 0x123, 0xb8, 0xfffff, 0xffffffffff}

func TestC04Keep3Demo(t *testing.T) {
	if runtime.GOARCH != "amd64" {
		t.Skip("test requires amd64 runtime; skipping")
	}

	t.Run("random op sequence on active and inactive spaces", func(t *testing.T) {
		s := newC04Sim(t)
		defer s.install()()

		rootA, rootB := s.newRoot(), s.newRoot()
		s.activeRoot = rootA
		roots := [2]mm.Frame{rootA, rootB}
		models := [2]map[uintptr]c04Mapping{{}, {}}
		tables := [2]map[mm.Frame]bool{{rootA: true}, {rootB: true}}

		rng := uint64(0x9e3779b97f4a7c15)
		next := func(n int) int {
			rng ^= rng << 13
			rng ^= rng >> 7
			rng ^= rng << 17
			return int(rng % uint64(n))
		}

		for step := 0; step < 600; step++ {
			if step == 300 {
				// swap roles: B becomes the active space
				s.activeRoot = rootB
			}
			space := next(2)
			active := roots[space] == s.activeRoot
			activeSpace := 0
			if s.activeRoot == rootB {
				activeSpace = 1
			}
			va := c04Universe[next(len(c04Universe))]
			page := mm.PageFromAddress(va)
			pdt := PageDirectoryTable{pdtFrame: roots[space]}
			before := s.snapshot()
			s.flushed, s.allocated = nil, nil

			what, changed := "", true
			if next(3) != 0 {
				frame, flags := c04Frames[next(len(c04Frames))], c04Flags[next(len(c04Flags))]
				what = "map"
				var err *kernel.Error
				if active && next(2) == 0 {
					err = Map(page, frame, flags)
				} else {
					err = pdt.Map(page, frame, flags)
				}
				if err != nil {
					t.Fatalf("[step %d] map 0x%x: unexpected error %v", step, va, err)
				}
				models[space][va] = c04Mapping{frame, flags}
				s.checkNewTables(what, va)
			} else {
				what = "unmap"
				var err *kernel.Error
				if active && next(2) == 0 {
					err = Unmap(page)
				} else {
					err = pdt.Unmap(page)
				}
				_, wasMapped := models[space][va]
				changed = wasMapped
				if wasMapped && err != nil {
					t.Fatalf("[step %d] unmap 0x%x: unexpected error %v", step, va, err)
				}
				if err != nil && err != ErrInvalidMapping {
					t.Fatalf("[step %d] unmap 0x%x of a never mapped page: expected nil or ErrInvalidMapping; got %v", step, va, err)
				}
				if len(s.allocated) != 0 {
					t.Fatalf("[step %d] unmap allocated frames", step)
				}
				delete(models[space], va)
			}

			for _, f := range s.allocated {
				tables[space][f] = true
			}
			if changed && !s.flushedAddr(va) {
				t.Fatalf("[step %d] %s 0x%x: TLB entry of the changed page was not invalidated (flushed: %x)", step, what, va, s.flushed)
			}
			if !active {
				s.assertFramesUnchanged(what+" on inactive space", before, tables[activeSpace])
			}

			s.checkSpace(what+"/A", rootA, c04Universe, models[0])
			s.checkSpace(what+"/B", rootB, c04Universe, models[1])
		}
	})

	t.Run("unmap invalidates the TLB entry and keeps the rest", func(t *testing.T) {
		s := newC04Sim(t)
		defer s.install()()
		s.activeRoot = s.newRoot()
		model := map[uintptr]c04Mapping{}

		for i, va := range c04Universe {
			m := c04Mapping{c04Frames[i%len(c04Frames)], c04Flags[i%len(c04Flags)]}
			if err := Map(mm.PageFromAddress(va), m.frame, m.flags); err != nil {
				t.Fatal(err)
			}
			model[va] = m
		}
		s.checkSpace("setup", s.activeRoot, c04Universe, model)

		// Informational only: the property does not fix the flag bits of the
		// entries that point to lower-level tables.
		t.Logf("upper-level entry flags (not asserted): low half P4[0]=0x%x, high half P4[256]=0x%x",
			uintptr(s.table(s.activeRoot)[0])&^0x000ffffffffff000, uintptr(s.table(s.activeRoot)[256])&^0x000ffffffffff000)

		for _, va := range c04Universe {
			s.flushed = nil
			if err := Unmap(mm.PageFromAddress(va)); err != nil {
				t.Fatal(err)
			}
			if !s.flushedAddr(va) {
				t.Fatalf("unmap 0x%x: TLB entry not invalidated", va)
			}
			delete(model, va)
			s.checkSpace("unmap", s.activeRoot, c04Universe, model)
		}

		// a page whose tables were never created
		if err := Unmap(mm.PageFromAddress(0x0000010000000000)); err != ErrInvalidMapping {
			t.Fatalf("expected ErrInvalidMapping; got %v", err)
		}
	})

	t.Run("temporary, region and identity mappings", func(t *testing.T) {
		s := newC04Sim(t)
		defer s.install()()
		s.activeRoot = s.newRoot()
		model := map[uintptr]c04Mapping{}
		universe := append([]uintptr{}, c04Universe...)

		// something that must survive everything below
		if err := Map(mm.PageFromAddress(0xffff800000100000), 0x77, FlagPresent|PageTableEntryFlag(FlagNoExecute)); err != nil {
			t.Fatal(err)
		}
		model[0xffff800000100000] = c04Mapping{0x77, FlagPresent | PageTableEntryFlag(FlagNoExecute)}

		s.flushed = nil
		tmpPage, err := MapTemporary(0x4242)
		if err != nil {
			t.Fatal(err)
		}
		if tmpPage.Address() != tempMappingAddr {
			t.Fatalf("unexpected temp mapping page 0x%x", tmpPage.Address())
		}
		if !s.flushedAddr(tempMappingAddr) {
			t.Fatal("temp mapping: TLB entry not invalidated")
		}
		model[tempMappingAddr] = c04Mapping{0x4242, FlagPresent | FlagRW}
		s.checkSpace("map temporary", s.activeRoot, universe, model)

		// overwrite it
		if _, err = MapTemporary(0x4343); err != nil {
			t.Fatal(err)
		}
		model[tempMappingAddr] = c04Mapping{0x4343, FlagPresent | FlagRW}
		s.checkSpace("remap temporary", s.activeRoot, universe, model)

		// region: 3 pages and one byte => 4 pages
		regionFlags := FlagPresent | FlagRW | FlagDoNotCache
		s.flushed = nil
		start, err := MapRegion(0xfee00, 3*mm.PageSize+1, regionFlags)
		if err != nil {
			t.Fatal(err)
		}
		for i := uintptr(0); i < 4; i++ {
			va := start.Address() + i*mm.PageSize
			if va >= tempMappingAddr {
				t.Fatalf("region page 0x%x overlaps the temp mapping page", va)
			}
			model[va] = c04Mapping{0xfee00 + mm.Frame(i), regionFlags}
			universe = append(universe, va)
			if !s.flushedAddr(va) {
				t.Fatalf("region page 0x%x: TLB entry not invalidated", va)
			}
		}
		universe = append(universe, start.Address()-mm.PageSize)
		s.checkSpace("map region", s.activeRoot, universe, model)

		// a second region must not disturb the first one
		start2, err := MapRegion(0x100, 2*mm.PageSize, FlagPresent)
		if err != nil {
			t.Fatal(err)
		}
		for i := uintptr(0); i < 2; i++ {
			va := start2.Address() + i*mm.PageSize
			if _, clash := model[va]; clash {
				t.Fatalf("second region re-used page 0x%x", va)
			}
			model[va] = c04Mapping{0x100 + mm.Frame(i), FlagPresent}
			universe = append(universe, va)
		}
		s.checkSpace("map second region", s.activeRoot, universe, model)

		// identity: frames 0x300..0x302
		s.flushed = nil
		idStart, err := IdentityMapRegion(0x300, 2*mm.PageSize+17, FlagPresent|FlagRW|FlagGlobal)
		if err != nil {
			t.Fatal(err)
		}
		if idStart != mm.Page(0x300) {
			t.Fatalf("identity region starts at page 0x%x", uintptr(idStart))
		}
		for i := uintptr(0); i < 3; i++ {
			va := (0x300 + i) << mm.PageShift
			model[va] = c04Mapping{mm.Frame(0x300 + i), FlagPresent | FlagRW | FlagGlobal}
			universe = append(universe, va)
			if !s.flushedAddr(va) {
				t.Fatalf("identity page 0x%x: TLB entry not invalidated", va)
			}
		}
		universe = append(universe, 0x2ff<<mm.PageShift, 0x303<<mm.PageShift)
		s.checkSpace("identity map", s.activeRoot, universe, model)

		if err := Unmap(tmpPage); err != nil {
			t.Fatal(err)
		}
		delete(model, tempMappingAddr)
		s.checkSpace("unmap temporary", s.activeRoot, universe, model)
	})

	t.Run("allocator failure at every point", func(t *testing.T) {
		expErr := &kernel.Error{Module: "test", Message: "out of frames"}
		casesRun := 0
		defer func() {
			if casesRun != 2*(3+1+2+3) {
				t.Errorf("expected 18 allocator failure cases to run; ran %d", casesRun)
			}
		}()

		for _, inactive := range []bool{false, true} {
			for _, target := range []uintptr{0x0000008000000000, 0x0000000000400000, 0xffff800040000000, tempMappingAddr} {
				for failAt := 0; failAt < 3; failAt++ {
					s := newC04Sim(t)
					restore := s.install()
					rootA, rootB := s.newRoot(), s.newRoot()
					s.activeRoot = rootA
					opRoot := rootA
					if inactive {
						opRoot = rootB
					}
					s.activeRoot = opRoot

					// pre-populate other pages (needs no failure)
					model := map[uintptr]c04Mapping{}
					for i, va := range c04Universe {
						if va>>21 == target>>21 || i%2 == 1 {
							continue
						}
						m := c04Mapping{c04Frames[i%len(c04Frames)], c04Flags[i%len(c04Flags)]}
						if err := Map(mm.PageFromAddress(va), m.frame, m.flags); err != nil {
							t.Fatal(err)
						}
						model[va] = m
					}
					s.activeRoot = rootA
					aTables := map[mm.Frame]bool{rootA: true}

					// how many tables does the target need?
					needed := 0
					{
						f := opRoot
						for level := 0; level < 3; level++ {
							e := uintptr(s.table(f)[(target>>(39-9*uint(level)))&511])
							if e&1 == 0 {
								needed = 3 - level
								break
							}
							f = mm.Frame((e & 0x000ffffffffff000) >> 12)
						}
					}
					if failAt >= needed {
						restore()
						continue
					}
					casesRun++
					universe := append([]uintptr{target}, c04Universe...)

					before := s.snapshot()
					s.failAfter, s.failErr = failAt, expErr
					pdt := PageDirectoryTable{pdtFrame: opRoot}
					err := pdt.Map(mm.PageFromAddress(target), 0x999, FlagPresent|FlagRW)
					if err != expErr {
						t.Fatalf("[inactive=%t target=0x%x failAt=%d] expected the allocator's error; got %v", inactive, target, failAt, err)
					}
					s.failAfter = -1

					if inactive {
						s.assertFramesUnchanged("failed map on inactive space", before, aTables)
					}
					// every other page keeps its translation; the target stays unmapped
					s.activeRoot = opRoot
					s.checkSpace("after failed map", opRoot, universe, model)
					s.activeRoot = rootA

					// retrying with a working allocator succeeds
					s.allocated = nil
					if err := pdt.Map(mm.PageFromAddress(target), 0x999, FlagPresent|FlagRW); err != nil {
						t.Fatalf("retry failed: %v", err)
					}
					model[target] = c04Mapping{0x999, FlagPresent | FlagRW}
					s.activeRoot = opRoot
					s.checkSpace("after retry", opRoot, universe, model)
					s.checkNewTables("retry", target)

					restore()
				}
			}
		}
	})

	t.Run("memset and frame allocator contracts", func(t *testing.T) {
		// kernel.Memset over unaligned/odd sized regions with guard bytes
		buf := make([]byte, 3*4096)
		for _, start := range []int{0, 1, 3, 7, 8, 13} {
			for _, size := range []int{0, 1, 2, 7, 8, 9, 15, 16, 63, 64, 65, 4095, 4096, 4097} {
				for _, val := range []byte{0x00, 0x5a, 0xff} {
					for i := range buf {
						buf[i] = 0xEE
					}
					base := 64 + start
					kernel.Memset(uintptr(unsafe.Pointer(&buf[base])), val, uintptr(size))
					for i := range buf {
						exp := byte(0xEE)
						if i >= base && i < base+size {
							exp = val
						}
						if buf[i] != exp {
							t.Fatalf("Memset(start+%d, 0x%x, %d): byte %d is 0x%x; expected 0x%x", start, val, size, i-base, buf[i], exp)
						}
					}
				}
			}
		}

		defer mm.SetFrameAllocator(nil)
		expErr := &kernel.Error{Module: "test", Message: "nope"}
		mm.SetFrameAllocator(func() (mm.Frame, *kernel.Error) { return mm.InvalidFrame, expErr })
		if _, err := mm.AllocFrame(); err != expErr {
			t.Fatalf("expected allocator error to be passed through; got %v", err)
		}
		mm.SetFrameAllocator(func() (mm.Frame, *kernel.Error) { return mm.Frame(0xbeef), nil })
		if f, err := mm.AllocFrame(); err != nil || f != mm.Frame(0xbeef) {
			t.Fatalf("expected frame 0xbeef; got 0x%x, %v", uintptr(f), err)
		}
	})
}
