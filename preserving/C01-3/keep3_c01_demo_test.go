package pmm

// Demonstration for property C01 ("physical frames are handed out exclusively
// and only from free RAM"). Copy this file to kernel/mm/pmm/ and run:
//
//   cd kernel && go test -vet=off -count=1 -run TestKeep3C01Demo ./mm/pmm/
//
// The test only asserts what the property states: every frame returned by the
// allocator (after pmm.Init) lies wholly inside an available region, is not a
// kernel image frame, was not consumed by the early allocator and is not held
// by anybody else. It does NOT assume which of the free frames is returned.

import (
	"encoding/binary"
	"math/rand"
	"runtime"
	"testing"
	"unsafe"

	"github.com/ProjectSerenity/firefly/kernel"
	"github.com/ProjectSerenity/firefly/kernel/mm"
	"github.com/ProjectSerenity/firefly/kernel/mm/vmm"
	"github.com/ProjectSerenity/firefly/kernel/multiboot"
)

type keep3Region struct {
	addr, length uint64
	typ          uint32
}

type keep3Scenario struct {
	name                   string
	regions                []keep3Region
	kernelStart, kernelEnd uintptr
}

// keep3BuildInfo encodes a multiboot info block that only contains a memory
// map tag (followed by the end tag).
func keep3BuildInfo(regions []keep3Region) []byte {
	tagSize := 8 + 8 + 24*len(regions)
	total := 8 + ((tagSize + 7) &^ 7) + 8
	// over-allocate using uint64 to guarantee 8-byte alignment
	backing := make([]uint64, (total+7)/8+1)
	buf := (*[1 << 20]byte)(unsafe.Pointer(&backing[0]))[:total:total]

	binary.LittleEndian.PutUint32(buf[0:], uint32(total))
	binary.LittleEndian.PutUint32(buf[8:], 6) // memory map tag
	binary.LittleEndian.PutUint32(buf[12:], uint32(tagSize))
	binary.LittleEndian.PutUint32(buf[16:], 24) // entry size
	binary.LittleEndian.PutUint32(buf[20:], 0)  // entry version
	off := 24
	for _, r := range regions {
		binary.LittleEndian.PutUint64(buf[off:], r.addr)
		binary.LittleEndian.PutUint64(buf[off+8:], r.length)
		binary.LittleEndian.PutUint32(buf[off+16:], r.typ)
		off += 24
	}
	// end tag (type 0, size 8)
	off = 8 + ((tagSize + 7) &^ 7)
	binary.LittleEndian.PutUint32(buf[off+4:], 8)
	return buf
}

func keep3Scenarios() []keep3Scenario {
	const (
		avail = 1
		resv  = 2
		acpi  = 3
		nvs   = 4
	)

	list := []keep3Scenario{
		{
			name: "qemu-128M, kernel at start of high region",
			regions: []keep3Region{
				{0x0, 0x9fc00, avail},
				{0x9fc00, 0x400, resv},
				{0xf0000, 0x10000, resv},
				{0x100000, 0x7ee0000, avail},
				{0x7fe0000, 0x20000, resv},
				{0xfffc0000, 0x40000, resv},
			},
			kernelStart: 0x100000, kernelEnd: 0x1fa7c8,
		},
		{
			name: "unaligned regions, kernel in the middle of region 2",
			regions: []keep3Region{
				{0x1800, 0x9dc00, avail},
				{0x9f400, 0xc00, resv},
				{0x100400, 0x3ff400, avail},
				{0x4ff800, 0x800, acpi},
				{0x500000, 0x400000, avail},
				{0x900000, 0x1000, nvs},
			},
			kernelStart: 0x200000, kernelEnd: 0x234567,
		},
		{
			name: "regions without a whole page, unknown types, kernel in low memory",
			regions: []keep3Region{
				{0x800, 0x1000, avail}, // covers no whole page
				{0x2000, 0x1000, avail},
				{0x3000, 0x800, 0},  // type 0 -> reserved
				{0x3800, 0xc800, 9}, // unknown type -> reserved
				{0x10000, 0x40000, avail},
				{0x50400, 0x700, avail}, // smaller than a page
				{0x60000, 0x20000, avail},
			},
			kernelStart: 0x20000, kernelEnd: 0x23000,
		},
		{
			name: "kernel at the end of a region; adjacent available region follows",
			regions: []keep3Region{
				{0x0, 0x80000, avail},
				{0x100000, 0x80000, avail},
				{0x180000, 0x80000, avail},
				{0x200000, 0x100000, resv},
				{0x300000, 0x500800, avail},
			},
			kernelStart: 0x170000, kernelEnd: 0x180000,
		},
		{
			name: "kernel fills a whole small region; no low memory at all",
			regions: []keep3Region{
				{0x0, 0x100000, resv},
				{0x100000, 0x4000, avail},
				{0x104000, 0xfc000, resv},
				{0x200000, 0x200000, avail},
			},
			kernelStart: 0x100000, kernelEnd: 0x103801,
		},
		{
			name: "single region that begins in low memory, kernel one page after its start",
			regions: []keep3Region{
				{0x1000, 0x3ff000, avail},
			},
			kernelStart: 0x2000, kernelEnd: 0x7123,
		},
	}

	// A few pseudo-random maps: sorted, non-overlapping regions of mixed
	// types with arbitrary (unaligned) boundaries.
	rng := rand.New(rand.NewSource(0xC01))
	for i := 0; i < 6; i++ {
		var (
			sc     keep3Scenario
			cursor = uint64(rng.Intn(0x3000))
			cands  []int
		)
		sc.name = "random map"
		regionCount := 3 + rng.Intn(10)
		for r := 0; r < regionCount; r++ {
			length := uint64(1 + rng.Intn(0x90000))
			if rng.Intn(3) == 0 {
				length = uint64(1 + rng.Intn(0x2800))
			}
			if rng.Intn(2) == 0 {
				length &^= 0xfff
				if length == 0 {
					length = 0x1000
				}
			}
			typ := uint32(avail)
			if rng.Intn(3) == 0 {
				typ = uint32(rng.Intn(7)) // includes 0, 1 and unknown types
			}
			sc.regions = append(sc.regions, keep3Region{cursor, length, typ})
			if typ == avail && length >= 0x6000 {
				cands = append(cands, r)
			}
			cursor += length
			if rng.Intn(2) == 0 {
				cursor += uint64(rng.Intn(0x5000)) // gap
			}
		}
		// make sure there is at least one roomy region
		sc.regions = append(sc.regions, keep3Region{(cursor + 0xfff) &^ 0xfff, 0x80000, avail})
		cands = append(cands, len(sc.regions)-1)

		// place the kernel at a page-aligned address inside an available region
		kr := sc.regions[cands[rng.Intn(len(cands))]]
		first := (kr.addr + 0xfff) &^ 0xfff
		last := (kr.addr + kr.length) &^ 0xfff
		pages := (last - first) >> 12
		startPage := uint64(rng.Intn(int(pages)))
		sc.kernelStart = uintptr(first + startPage<<12)
		maxLen := kr.addr + kr.length - uint64(sc.kernelStart)
		klen := uint64(1 + rng.Intn(int(maxLen)))
		if klen > 0x4000 {
			klen = 0x4000 - uint64(rng.Intn(0x1000))
		}
		sc.kernelEnd = sc.kernelStart + uintptr(klen)
		list = append(list, sc)
	}

	return list
}

func TestKeep3C01Demo(t *testing.T) {
	defer func() {
		mapFn = vmm.Map
		reserveRegionFn = vmm.EarlyReserveRegion
		mm.SetFrameAllocator(nil)
		bitmapAllocator = BitmapAllocator{}
		bootMemAllocator = BootMemAllocator{}
	}()

	// Backing store for the allocator bookkeeping (pool list + bitmaps);
	// page aligned because the allocator clears whole pages.
	const backingPages = 16
	raw := make([]byte, (backingPages+1)*int(mm.PageSize))
	base := (uintptr(unsafe.Pointer(&raw[0])) + mm.PageSize - 1) &^ (mm.PageSize - 1)

	for scIndex, sc := range keep3Scenarios() {
		info := keep3BuildInfo(sc.regions)
		multiboot.SetInfoPtr(uintptr(unsafe.Pointer(&info[0])))

		bitmapAllocator = BitmapAllocator{}
		bootMemAllocator = BootMemAllocator{}
		for i := range raw {
			raw[i] = 0xa5
		}

		earlyFrames := map[mm.Frame]bool{}
		mapFn = func(_ mm.Page, frame mm.Frame, _ vmm.PageTableEntryFlag) *kernel.Error {
			earlyFrames[frame] = true
			return nil
		}
		reserveRegionFn = func(size uintptr) (uintptr, *kernel.Error) {
			if size > backingPages*mm.PageSize {
				t.Fatalf("[%d %s] allocator asked for %d bytes of bookkeeping space", scIndex, sc.name, size)
			}
			return base, nil
		}

		if err := Init(sc.kernelStart, sc.kernelEnd); err != nil {
			t.Fatalf("[%d %s] Init: %v", scIndex, sc.name, err)
		}

		kernelFirst := mm.Frame(sc.kernelStart >> mm.PageShift)
		kernelLast := mm.Frame((sc.kernelEnd - 1) >> mm.PageShift)

		held := map[mm.Frame]bool{}
		var heldList []mm.Frame
		check := func(step int, frame mm.Frame) {
			t.Helper()
			if !frame.Valid() {
				t.Fatalf("[%d %s] step %d: got invalid frame without an error", scIndex, sc.name, step)
			}
			lo, hi := uint64(frame)<<12, (uint64(frame)+1)<<12
			inside := false
			for _, r := range sc.regions {
				if r.typ == 1 && lo >= r.addr && hi <= r.addr+r.length {
					inside = true
					break
				}
			}
			if !inside {
				t.Fatalf("[%d %s] step %d: frame %#x is not wholly inside an available region", scIndex, sc.name, step, uint64(frame))
			}
			if frame >= kernelFirst && frame <= kernelLast {
				t.Fatalf("[%d %s] step %d: frame %#x belongs to the kernel image", scIndex, sc.name, step, uint64(frame))
			}
			if earlyFrames[frame] {
				t.Fatalf("[%d %s] step %d: frame %#x was consumed by the early allocator", scIndex, sc.name, step, uint64(frame))
			}
			if held[frame] {
				t.Fatalf("[%d %s] step %d: frame %#x handed out while still held", scIndex, sc.name, step, uint64(frame))
			}
			held[frame] = true
			heldList = append(heldList, frame)
		}

		rng := rand.New(rand.NewSource(int64(scIndex) + 77))
		oom := false
		for step := 0; step < 6000; step++ {
			// allocation-heavy at first, then free-heavy, then mixed
			doFree := len(heldList) > 0 && (rng.Intn(10) < 3 || (oom && rng.Intn(2) == 0))
			if doFree {
				i := rng.Intn(len(heldList))
				frame := heldList[i]
				heldList[i] = heldList[len(heldList)-1]
				heldList = heldList[:len(heldList)-1]
				if err := bitmapAllocator.FreeFrame(frame); err != nil {
					t.Fatalf("[%d %s] step %d: freeing held frame %#x: %v", scIndex, sc.name, step, uint64(frame), err)
				}
				delete(held, frame)
				oom = false
				continue
			}

			var (
				frame mm.Frame
				err   *kernel.Error
			)
			if step%2 == 0 {
				frame, err = mm.AllocFrame() // via the registered allocator
			} else {
				frame, err = bitmapAllocator.AllocFrame()
			}
			if err != nil {
				oom = true
				continue
			}
			check(step, frame)
		}

		// Drain the allocator completely; every frame must still be legal.
		for step := 6000; ; step++ {
			frame, err := bitmapAllocator.AllocFrame()
			if err != nil {
				break
			}
			check(step, frame)
		}

		// Free half of the held frames and allocate again: only frames that
		// were freed may come back.
		freed := map[mm.Frame]bool{}
		for i, frame := range heldList {
			if i%2 == 0 {
				continue
			}
			if err := bitmapAllocator.FreeFrame(frame); err != nil {
				t.Fatalf("[%d %s] freeing held frame %#x: %v", scIndex, sc.name, uint64(frame), err)
			}
			delete(held, frame)
			freed[frame] = true
		}
		for {
			frame, err := bitmapAllocator.AllocFrame()
			if err != nil {
				break
			}
			if !freed[frame] {
				t.Fatalf("[%d %s] frame %#x handed out although it was never freed", scIndex, sc.name, uint64(frame))
			}
			delete(freed, frame)
			if held[frame] {
				t.Fatalf("[%d %s] frame %#x handed out twice", scIndex, sc.name, uint64(frame))
			}
			held[frame] = true
		}

		runtime.KeepAlive(info)
	}
	runtime.KeepAlive(raw)
}
