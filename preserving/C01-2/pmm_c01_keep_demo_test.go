package pmm

// Demonstration for property C01: "Physical frames are handed out exclusively
// and only from free RAM".
//
// The test drives the package through its real entry point (Init) with
// synthetic bootloader memory maps and then performs random interleavings of
// allocate and free calls. The oracle only looks at values that cross the
// package boundary: the memory map handed to the multiboot package, the kernel
// image extents handed to Init, the frames that the early-boot allocator gave
// to vmm.Map while the allocator was being set up and the frames returned by
// the allocator afterwards. It does not look at bitmaps, counters, pool
// descriptors or at the layout of the memory reserved by the allocator.

import (
	"encoding/binary"
	"fmt"
	"math/rand"
	"testing"
	"unsafe"

	"github.com/ProjectSerenity/firefly/kernel"
	"github.com/ProjectSerenity/firefly/kernel/mm"
	"github.com/ProjectSerenity/firefly/kernel/mm/vmm"
	"github.com/ProjectSerenity/firefly/kernel/multiboot"
)

type c01Region struct {
	addr, length uint64
	typ          uint32 // 1 = available, anything else = not available
}

type c01Scenario struct {
	name                   string
	regions                []c01Region
	kernelStart, kernelEnd uintptr
}

// c01BuildInfo encodes regions as a multiboot2 info blob that only contains a
// memory map tag. The blob is backed by a []uint64 so it is 8-byte aligned.
func c01BuildInfo(regions []c01Region) []uint64 {
	tagSize := 8 + 8 + 24*len(regions)
	total := 8 + ((tagSize + 7) &^ 7) + 8
	buf := make([]byte, (total+7)&^7)

	le := binary.LittleEndian
	le.PutUint32(buf[0:], uint32(total))
	le.PutUint32(buf[8:], 6) // memory map tag
	le.PutUint32(buf[12:], uint32(tagSize))
	le.PutUint32(buf[16:], 24) // entry size
	le.PutUint32(buf[20:], 0)  // entry version
	off := 24
	for _, r := range regions {
		le.PutUint64(buf[off:], r.addr)
		le.PutUint64(buf[off+8:], r.length)
		le.PutUint32(buf[off+16:], r.typ)
		off += 24
	}
	// the end tag (type 0, size 8) follows; type 0 is already there.
	le.PutUint32(buf[8+((tagSize+7)&^7)+4:], 8)

	// amd64 is little-endian so the words hold the bytes in the same order
	backing := make([]uint64, len(buf)/8)
	for i := range backing {
		backing[i] = le.Uint64(buf[i*8:])
	}
	return backing
}

// c01Run initialises the allocator for sc and performs steps random
// allocate/free operations followed by a run to exhaustion.
func c01Run(t *testing.T, sc c01Scenario, seed int64, steps int) {
	t.Helper()

	defer func() {
		mapFn = vmm.Map
		reserveRegionFn = vmm.EarlyReserveRegion
	}()

	info := c01BuildInfo(sc.regions)
	multiboot.SetInfoPtr(uintptr(unsafe.Pointer(&info[0])))

	bootMemAllocator = BootMemAllocator{}
	bitmapAllocator = BitmapAllocator{}

	// Frames consumed by the early-boot allocator are observed where they
	// leave the package: as arguments to vmm.Map.
	early := map[mm.Frame]bool{}
	var keep [][]uint64
	reserveRegionFn = func(size uintptr) (uintptr, *kernel.Error) {
		// one extra page so that the returned address can be page aligned
		backing := make([]uint64, (size+2*mm.PageSize)/8)
		keep = append(keep, backing)
		addr := uintptr(unsafe.Pointer(&backing[0]))
		return (addr + mm.PageSize - 1) &^ (mm.PageSize - 1), nil
	}
	mapFn = func(_ mm.Page, frame mm.Frame, _ vmm.PageTableEntryFlag) *kernel.Error {
		if early[frame] {
			t.Errorf("[%s] early allocator handed out frame %d twice", sc.name, frame)
		}
		early[frame] = true
		return nil
	}

	if err := Init(sc.kernelStart, sc.kernelEnd); err != nil {
		t.Fatalf("[%s] Init: %v", sc.name, err)
	}

	inAvailable := func(f mm.Frame) bool {
		lo := uint64(f) << mm.PageShift
		hi := lo + uint64(mm.PageSize)
		for _, r := range sc.regions {
			if r.typ == 1 && lo >= r.addr && hi <= r.addr+r.length {
				return true
			}
		}
		return false
	}
	inKernel := func(f mm.Frame) bool {
		lo := uintptr(f) << mm.PageShift
		hi := lo + mm.PageSize
		return lo < sc.kernelEnd && hi > sc.kernelStart
	}

	held := map[mm.Frame]bool{}
	var heldList []mm.Frame
	check := func(f mm.Frame) {
		t.Helper()
		switch {
		case !f.Valid():
			t.Fatalf("[%s] successful allocation returned the invalid frame", sc.name)
		case !inAvailable(f):
			t.Fatalf("[%s] frame %d is not wholly inside an available region", sc.name, f)
		case inKernel(f):
			t.Fatalf("[%s] frame %d is part of the kernel image", sc.name, f)
		case early[f]:
			t.Fatalf("[%s] frame %d was already consumed by the early allocator", sc.name, f)
		case held[f]:
			t.Fatalf("[%s] frame %d is held by another caller", sc.name, f)
		}
		held[f] = true
		heldList = append(heldList, f)
	}
	release := func(i int) {
		t.Helper()
		f := heldList[i]
		heldList[i] = heldList[len(heldList)-1]
		heldList = heldList[:len(heldList)-1]
		if err := bitmapAllocator.FreeFrame(f); err != nil {
			t.Fatalf("[%s] freeing held frame %d: %v", sc.name, f, err)
		}
		delete(held, f)
	}

	rng := rand.New(rand.NewSource(seed))
	for i := 0; i < steps; i++ {
		if len(heldList) > 0 && rng.Intn(100) < 40 {
			release(rng.Intn(len(heldList)))
			continue
		}
		// go through the hook that the rest of the kernel uses
		f, err := mm.AllocFrame()
		if err != nil {
			// out of memory is a permitted answer; make room
			if len(heldList) == 0 {
				t.Fatalf("[%s] allocation failed with nothing held: %v", sc.name, err)
			}
			release(rng.Intn(len(heldList)))
			continue
		}
		check(f)
	}

	// Run to exhaustion, release a random half and run to exhaustion again.
	for round := 0; round < 2; round++ {
		for {
			f, err := bitmapAllocFrame()
			if err != nil {
				break
			}
			check(f)
			if len(heldList) > 1<<20 {
				t.Fatalf("[%s] allocator handed out more than %d frames", sc.name, 1<<20)
			}
		}
		for n := len(heldList) / 2; n > 0; n-- {
			release(rng.Intn(len(heldList)))
		}
	}
	_ = keep
}

func TestC01KeepDemo(t *testing.T) {
	const avail, reserved = 1, 2

	scenarios := []c01Scenario{
		{
			name: "qemu-128M",
			regions: []c01Region{
				{0x0, 0x9fc00, avail},
				{0x9fc00, 0x400, reserved},
				{0xf0000, 0x10000, reserved},
				{0x100000, 0x7ee0000, avail},
				{0x7fe0000, 0x20000, reserved},
				{0xfffc0000, 0x40000, reserved},
			},
			kernelStart: 0x100000, kernelEnd: 0x1fa7c8,
		},
		{
			name: "kernel-at-region-start-unaligned-regions",
			regions: []c01Region{
				{0x800, 0x7000, avail},    // whole frames 1..6
				{0x10400, 0x30f00, avail}, // whole frames 0x11..0x40
				{0x41300, 0x1000, avail},  // >= one page long but holds no whole frame
				{0x50000, 0x800, avail},   // smaller than a page
				{0x60000, 0x20000, 3},     // ACPI
				{0x80123, 0x40000, avail}, // whole frames 0x81..0xc0
			},
			kernelStart: 0x11000, kernelEnd: 0x15800,
		},
		{
			name: "kernel-at-region-end-partial-last-page",
			regions: []c01Region{
				{0x0, 0x10000, avail},
				{0x10000, 0x8000, reserved},
				{0x20000, 0x43c00, avail}, // ends in the middle of frame 0x63
				{0x100000, 0x30000, avail},
			},
			// the last (partial) kernel page shares frame 0x63 with the region end
			kernelStart: 0x5e000, kernelEnd: 0x63a00,
		},
		{
			name: "kernel-in-the-middle-crossing-bitmap-blocks",
			regions: []c01Region{
				{0x1000, 0x3000, avail},
				{0x100000, 0x200000, avail}, // 512 frames
				{0x300000, 0x1000, avail},   // adjacent single frame region
				{0x301000, 0x5000, reserved},
				{0x400000, 0x41000, avail}, // 65 frames
			},
			kernelStart: 0x13d000, kernelEnd: 0x1c3001, // frames 0x13d..0x1c3
		},
		{
			name: "kernel-fills-first-region-frame-zero",
			regions: []c01Region{
				{0x0, 0x4000, avail},
				{0x4000, 0x1000, reserved},
				{0x5000, 0x23000, avail},
			},
			kernelStart: 0x0, kernelEnd: 0x4000,
		},
		{
			name: "kernel-second-frame-of-region-zero",
			regions: []c01Region{
				{0x0, 0x9000, avail},
				{0x20000, 0x10000, avail},
			},
			kernelStart: 0x1000, kernelEnd: 0x2001,
		},
		{
			name: "many-tiny-regions",
			regions: func() []c01Region {
				var out []c01Region
				for i := uint64(0); i < 40; i++ {
					base := 0x100000 + i*0x8000
					switch i % 4 {
					case 0:
						out = append(out, c01Region{base, 0x3000, avail})
					case 1:
						out = append(out, c01Region{base + 0x10, 0x2ff0, avail})
					case 2:
						out = append(out, c01Region{base, 0x8000, reserved})
					case 3:
						out = append(out, c01Region{base + 0xfff, 0x1002, avail})
					}
				}
				out = append(out, c01Region{0x1000000, 0x90000, avail})
				return out
			}(),
			kernelStart: 0x1010000, kernelEnd: 0x1020010,
		},
	}

	for i, sc := range scenarios {
		c01Run(t, sc, int64(1000+i), 4000)
	}

	// Random maps: sorted, non-overlapping, arbitrary alignment, sizes and
	// types; the kernel image is placed at a page-aligned address inside one
	// of the available regions.
	rng := rand.New(rand.NewSource(20260926))
	for n := 0; n < 150; n++ {
		var (
			regions []c01Region
			cursor  = uint64(rng.Intn(3)) * uint64(rng.Intn(0x3000))
		)
		for r, count := 0, 1+rng.Intn(9); r < count; r++ {
			cursor += uint64(rng.Intn(4)) * uint64(rng.Intn(0x2800))
			length := uint64(1 + rng.Intn(0x40000))
			if rng.Intn(3) == 0 {
				length = uint64(1+rng.Intn(0x50)) << 12
				if rng.Intn(2) == 0 {
					cursor = (cursor + 0xfff) &^ 0xfff
				}
			}
			typ := uint32(avail)
			if rng.Intn(4) == 0 {
				typ = uint32(2 + rng.Intn(4))
			}
			regions = append(regions, c01Region{cursor, length, typ})
			cursor += length
		}
		// a comfortably large region that will host the kernel image
		cursor = (cursor + uint64(rng.Intn(0x5000)))
		host := c01Region{cursor, uint64(0x40000 + rng.Intn(0x40000)), avail}
		regions = append(regions, host)
		if rng.Intn(2) == 0 {
			tail := host.addr + host.length + uint64(rng.Intn(3))*uint64(rng.Intn(0x1800))
			regions = append(regions, c01Region{tail, uint64(1 + rng.Intn(0x30000)), avail})
		}

		firstPage := (host.addr + 0xfff) &^ 0xfff
		limit := host.addr + host.length
		pages := (limit - firstPage) >> 12
		var kStart, kEnd uint64
		switch rng.Intn(4) {
		case 0: // at the very start of the region
			kStart = firstPage
			kEnd = kStart + uint64(1+rng.Intn(0x8000))
		case 1: // runs up to the very end of the region
			kEnd = limit
			kStart = (limit - uint64(1+rng.Intn(0x8000))) &^ 0xfff
			if kStart < firstPage {
				kStart = firstPage
			}
		default:
			kStart = firstPage + uint64(rng.Intn(int(pages-1)))<<12
			kEnd = kStart + uint64(1+rng.Intn(int(limit-kStart)))
		}
		if kEnd > limit {
			kEnd = limit
		}

		sc := c01Scenario{
			name:        fmt.Sprintf("random-%d regions=%+v kernel=[%#x,%#x)", n, regions, kStart, kEnd),
			regions:     regions,
			kernelStart: uintptr(kStart),
			kernelEnd:   uintptr(kEnd),
		}
		c01Run(t, sc, int64(n), 600)
		if t.Failed() {
			t.FailNow()
		}
	}
}
