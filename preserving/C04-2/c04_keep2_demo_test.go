package vmm

// Demonstration for property C04 (page-table operations implement exactly the
// requested address translation). The test drives Map, Unmap, MapTemporary,
// MapRegion, IdentityMapRegion, Translate and the PageDirectoryTable methods
// against a small simulated MMU whose "physical memory" is a page-aligned
// arena inside the test process, and checks only what the property states.
//
// Copy to kernel/mm/vmm/c04_keep2_demo_test.go and run with
//   cd kernel && go test -vet=off -count=1 -run TestC04Keep2 ./mm/vmm/

import (
	"reflect"
	"runtime"
	"testing"
	"unsafe"

	"github.com/ProjectSerenity/firefly/kernel"
	"github.com/ProjectSerenity/firefly/kernel/mm"
)

const (
	c04ArenaFrames = 160
	c04Entries     = 512
	c04AllFlags    = uintptr(0x8000000000000fff) // every non-frame bit a caller may request
)

var c04Shifts = [4]uint{39, 30, 21, 12}

type c04Mapping struct {
	frame mm.Frame
	flags PageTableEntryFlag
}

type c04Sim struct {
	t       *testing.T
	backing []byte
	base    uintptr // page-aligned start of the arena
	next    int     // next arena frame to hand out
	active  mm.Frame
	lastPTE *pageTableEntry

	failAfter int // allocator fails when this reaches zero; <0 means never
	failErr   *kernel.Error
	allocated []mm.Frame // frames handed out since the last reset
	flushed   []uintptr  // TLB invalidations since the last reset
}

func (s *c04Sim) inArena(addr uintptr) bool {
	return addr >= s.base && addr < s.base+uintptr(c04ArenaFrames)*mm.PageSize
}

func (s *c04Sim) table(f mm.Frame) *[c04Entries]pageTableEntry {
	if !s.inArena(f.Address()) {
		s.t.Fatalf("simulated MMU: table frame %#x is outside of simulated physical memory", uintptr(f))
	}
	return (*[c04Entries]pageTableEntry)(unsafe.Pointer(f.Address()))
}

// rawFrame hands out the next arena frame filled with junk.
func (s *c04Sim) rawFrame() mm.Frame {
	if s.next >= c04ArenaFrames {
		s.t.Fatalf("simulated physical memory exhausted")
	}
	addr := s.base + uintptr(s.next)*mm.PageSize
	s.next++
	kernel.Memset(addr, 0xf0, mm.PageSize)
	return mm.Frame(addr >> mm.PageShift)
}

func (s *c04Sim) alloc() (mm.Frame, *kernel.Error) {
	if s.failAfter == 0 {
		return mm.InvalidFrame, s.failErr
	}
	if s.failAfter > 0 {
		s.failAfter--
	}
	f := s.rawFrame()
	s.allocated = append(s.allocated, f)
	return f, nil
}

// newRoot creates an empty top-level table with the recursive last entry.
func (s *c04Sim) newRoot() mm.Frame {
	f := s.rawFrame()
	tbl := s.table(f)
	for i := range tbl {
		tbl[i] = 0
	}
	tbl[c04Entries-1] = pageTableEntry(f.Address() | uintptr(FlagPresent|FlagRW))
	return f
}

// hwWalk translates virtAddr the way the MMU would, starting at root. It
// returns the final entry and the physical address.
func (s *c04Sim) hwWalk(root mm.Frame, virtAddr uintptr) (pageTableEntry, uintptr, bool) {
	var entry pageTableEntry
	cur := root
	for lvl := 0; lvl < 4; lvl++ {
		idx := (virtAddr >> c04Shifts[lvl]) & (c04Entries - 1)
		entry = s.table(cur)[idx]
		if uintptr(entry)&uintptr(FlagPresent) == 0 {
			return entry, 0, false
		}
		cur = mm.Frame((uintptr(entry) & 0x000ffffffffff000) >> 12)
	}
	return entry, cur.Address() + (virtAddr & 0xfff), true
}

// ptePtr resolves a (recursive) virtual address used by the code under test
// to the simulated physical location, using the active address space.
func (s *c04Sim) ptePtr(virtAddr uintptr) unsafe.Pointer {
	_, phys, ok := s.hwWalk(s.active, virtAddr)
	if !ok {
		s.t.Fatalf("simulated MMU: page fault while the code under test accessed %#x", virtAddr)
	}
	if !s.inArena(phys) {
		s.t.Fatalf("simulated MMU: access to %#x resolves to %#x which is not a page table", virtAddr, phys)
	}
	s.lastPTE = (*pageTableEntry)(unsafe.Pointer(phys))
	return unsafe.Pointer(phys)
}

// nextTable returns the location of the table that the entry most recently
// handed out by ptePtr points to. With real paging the code under test derives
// that (recursive) address from the entry's own virtual address; here entries
// live at simulated physical locations so the argument of the hook is useless.
func (s *c04Sim) nextTable(uintptr) uintptr {
	if s.lastPTE == nil || !s.lastPTE.HasFlags(FlagPresent) || !s.inArena(s.lastPTE.Frame().Address()) {
		s.t.Fatalf("simulated MMU: next-level table requested for an entry that does not point to one")
	}
	return s.lastPTE.Frame().Address()
}

func (s *c04Sim) reset() {
	s.allocated = s.allocated[:0]
	s.flushed = s.flushed[:0]
	s.failAfter = -1
}

func (s *c04Sim) wasFlushed(page mm.Page) bool {
	for _, a := range s.flushed {
		if mm.PageFromAddress(a) == page {
			return true
		}
	}
	return false
}

// tableFrames returns the frames of all page tables reachable from root
// (excluding the recursive entry).
func (s *c04Sim) tableFrames(root mm.Frame) []mm.Frame {
	var out []mm.Frame
	var visit func(f mm.Frame, lvl int)
	visit = func(f mm.Frame, lvl int) {
		out = append(out, f)
		if lvl == 3 {
			return
		}
		for i, e := range s.table(f) {
			if lvl == 0 && i == c04Entries-1 {
				continue
			}
			if e.HasFlags(FlagPresent) {
				visit(e.Frame(), lvl+1)
			}
		}
	}
	visit(root, 0)
	return out
}

type c04Snapshot map[mm.Frame][c04Entries]pageTableEntry

func (s *c04Sim) snapshot(root mm.Frame) c04Snapshot {
	snap := c04Snapshot{}
	for _, f := range s.tableFrames(root) {
		snap[f] = *s.table(f)
	}
	return snap
}

func (s *c04Sim) expectSameBits(what string, root mm.Frame, before c04Snapshot) {
	s.t.Helper()
	after := s.snapshot(root)
	if len(after) != len(before) {
		s.t.Fatalf("%s: address space rooted at %#x has %d tables; had %d", what, uintptr(root), len(after), len(before))
	}
	for f, tbl := range before {
		if after[f] != tbl {
			s.t.Fatalf("%s: table %#x of the address space rooted at %#x was modified", what, uintptr(f), uintptr(root))
		}
	}
}

// space is one address space together with the model of what has been
// requested so far.
type c04Space struct {
	sim   *c04Sim
	root  mm.Frame
	pdt   PageDirectoryTable
	model map[mm.Page]c04Mapping // currently mapped pages
	known map[mm.Page]bool       // every page we ever talked about + probes
}

func (sp *c04Space) isActive() bool { return sp.root == sp.sim.active }

// check verifies the translation of every known page against the model.
func (sp *c04Space) check(what string) {
	t := sp.sim.t
	t.Helper()
	offsets := []uintptr{0, 1, 0x7a3, 0xfff}
	for page := range sp.known {
		want, mapped := sp.model[page]
		entry, phys, ok := sp.sim.hwWalk(sp.root, page.Address())
		if ok != mapped {
			t.Fatalf("%s: page %#x: hardware walk says mapped=%t; want %t", what, uintptr(page), ok, mapped)
		}
		if mapped {
			if phys != want.frame.Address() {
				t.Fatalf("%s: page %#x translates to %#x; want frame %#x", what, uintptr(page), phys, uintptr(want.frame))
			}
			if got := uintptr(entry) & c04AllFlags; got != uintptr(want.flags) {
				t.Fatalf("%s: page %#x: hardware entry has flag bits %#x; want exactly %#x", what, uintptr(page), got, uintptr(want.flags))
			}
		}

		for _, off := range offsets {
			virt := page.Address() + off
			var (
				got uintptr
				err *kernel.Error
			)
			switch {
			case sp.isActive():
				got, err = Translate(virt)
			default:
				// PageDirectoryTable.Translate is optional.
				m := reflect.ValueOf(sp.pdt).MethodByName("Translate")
				if !m.IsValid() {
					continue
				}
				res := m.Call([]reflect.Value{reflect.ValueOf(virt)})
				got = uintptr(res[0].Uint())
				err, _ = res[1].Interface().(*kernel.Error)
			}
			switch {
			case mapped && err != nil:
				t.Fatalf("%s: Translate(%#x) failed: %v", what, virt, err)
			case mapped && got != want.frame.Address()+off:
				t.Fatalf("%s: Translate(%#x) = %#x; want %#x", what, virt, got, want.frame.Address()+off)
			case !mapped && err == nil:
				t.Fatalf("%s: Translate(%#x) = %#x; want it reported as unmapped", what, virt, got)
			}
		}
	}
}

// expectNewTablesEmpty checks that each table allocated by the last
// operation holds nothing but the single entry leading to page.
func (sp *c04Space) expectNewTablesEmpty(what string, page mm.Page) {
	t := sp.sim.t
	t.Helper()
	cur := sp.root
	path := map[mm.Frame]uintptr{}
	for lvl := 0; lvl < 4; lvl++ {
		idx := (page.Address() >> c04Shifts[lvl]) & (c04Entries - 1)
		path[cur] = idx
		e := sp.sim.table(cur)[idx]
		if lvl == 3 || !e.HasFlags(FlagPresent) {
			break
		}
		cur = e.Frame()
	}
	for _, f := range sp.sim.allocated {
		idx, onPath := path[f]
		for i, e := range sp.sim.table(f) {
			if e != 0 && !(onPath && uintptr(i) == idx) {
				t.Fatalf("%s: freshly created table %#x has non-empty entry %d (%#x)", what, uintptr(f), i, uintptr(e))
			}
		}
	}
}

func (sp *c04Space) doMap(page mm.Page, frame mm.Frame, flags PageTableEntryFlag) {
	t := sp.sim.t
	t.Helper()
	sp.sim.reset()
	sp.known[page] = true
	if err := sp.pdt.Map(page, frame, flags); err != nil {
		t.Fatalf("Map(%#x): %v", uintptr(page), err)
	}
	sp.model[page] = c04Mapping{frame, flags}
	if !sp.sim.wasFlushed(page) {
		t.Fatalf("Map(%#x): TLB entry of the changed page was not invalidated", uintptr(page))
	}
	sp.expectNewTablesEmpty("Map", page)
	sp.check("after Map")
}

func (sp *c04Space) doUnmap(page mm.Page) {
	t := sp.sim.t
	t.Helper()
	sp.sim.reset()
	sp.known[page] = true
	_, wasMapped := sp.model[page]
	err := sp.pdt.Unmap(page)
	if wasMapped {
		if err != nil {
			t.Fatalf("Unmap(%#x): %v", uintptr(page), err)
		}
		if !sp.sim.wasFlushed(page) {
			t.Fatalf("Unmap(%#x): TLB entry of the changed page was not invalidated", uintptr(page))
		}
	}
	delete(sp.model, page)
	if len(sp.sim.allocated) != 0 {
		t.Fatalf("Unmap(%#x) allocated frames", uintptr(page))
	}
	sp.check("after Unmap")
}

func c04Page(i0, i1, i2, i3 uintptr) mm.Page {
	addr := i0<<39 | i1<<30 | i2<<21 | i3<<12
	if i0 >= 256 {
		addr |= 0xffff000000000000 // canonical high half
	}
	return mm.PageFromAddress(addr)
}

func TestC04Keep2(t *testing.T) {
	if runtime.GOARCH != "amd64" {
		t.Skip("test requires amd64 runtime; skipping")
	}

	defer func(a func(uintptr) unsafe.Pointer, b func(uintptr) uintptr, c func(uintptr), d func() uintptr, e func(uintptr),
		f func(mm.Frame) (mm.Page, *kernel.Error), g func(mm.Page) *kernel.Error, h uintptr, i bool) {
		ptePtrFn, nextAddrFn, flushTLBEntryFn, activePDTFn, switchPDTFn = a, b, c, d, e
		mapTemporaryFn, unmapFn, earlyReserveLastUsed, protectReservedZeroedPage = f, g, h, i
		mapFn, earlyReserveRegionFn = Map, EarlyReserveRegion
		mm.SetFrameAllocator(nil)
	}(ptePtrFn, nextAddrFn, flushTLBEntryFn, activePDTFn, switchPDTFn, mapTemporaryFn, unmapFn, earlyReserveLastUsed, protectReservedZeroedPage)

	sim := &c04Sim{t: t, failAfter: -1}
	sim.backing = make([]byte, (c04ArenaFrames+1)*int(mm.PageSize))
	sim.base = (uintptr(unsafe.Pointer(&sim.backing[0])) + mm.PageSize - 1) &^ (mm.PageSize - 1)
	sim.failErr = &kernel.Error{Module: "c04", Message: "out of frames"}

	ptePtrFn = sim.ptePtr
	nextAddrFn = sim.nextTable
	flushTLBEntryFn = func(addr uintptr) { sim.flushed = append(sim.flushed, addr) }
	activePDTFn = func() uintptr { return sim.active.Address() }
	switchPDTFn = func(addr uintptr) { sim.active = mm.Frame(addr >> mm.PageShift) }
	mapFn, unmapFn, mapTemporaryFn = Map, Unmap, MapTemporary
	protectReservedZeroedPage = false
	mm.SetFrameAllocator(sim.alloc)

	// The active address space.
	sim.active = sim.newRoot()
	act := &c04Space{sim: sim, root: sim.active, model: map[mm.Page]c04Mapping{}, known: map[mm.Page]bool{}}
	if err := act.pdt.Init(act.root); err != nil {
		t.Fatal(err)
	}

	tempPage := mm.PageFromAddress(tempMappingAddr)
	pages := []mm.Page{
		c04Page(0, 0, 0, 0),         // very first page
		c04Page(0, 0, 0, 1),         // shares all three upper tables
		c04Page(0, 0, 1, 0),         // shares P4+P3 entries
		c04Page(0, 1, 0, 0),         // shares P4 entry only
		c04Page(3, 7, 9, 511),       // distinct tables, low half
		c04Page(255, 511, 511, 511), // last page of the low half
		c04Page(256, 0, 0, 0),       // first page of the high half
		c04Page(300, 5, 6, 7),       // high half
		tempPage,                    // the temporary-mapping page
	}
	probes := []mm.Page{c04Page(0, 0, 0, 2), c04Page(1, 0, 0, 0), c04Page(300, 5, 6, 8), c04Page(400, 1, 1, 1), tempPage - 1}
	flagSets := []PageTableEntryFlag{
		FlagPresent,
		FlagPresent | FlagRW,
		FlagPresent | FlagUserAccessible,
		FlagPresent | FlagNoExecute,
		FlagPresent | FlagCopyOnWrite,
		FlagPresent | FlagRW | FlagUserAccessible | FlagWriteThroughCaching | FlagDoNotCache | FlagGlobal | FlagNoExecute,
		FlagPresent | FlagAccessed | FlagDirty,
	}
	frames := []mm.Frame{0, 1, 0xdeadb, 0x12345678, 1<<40 - 1, 42}

	for _, p := range probes {
		act.known[p] = true
	}
	act.check("empty address space")

	t.Run("active address space", func(t *testing.T) {
		sim.t = t
		// map every page, every one with a different frame / flag set
		for i, p := range pages {
			act.doMap(p, frames[i%len(frames)], flagSets[i%len(flagSets)])
		}
		// re-map (most recent mapping wins) with all frame / flag combinations
		for i, p := range pages {
			for j := range flagSets {
				act.doMap(p, frames[(i+j+1)%len(frames)], flagSets[(i+j+2)%len(flagSets)])
			}
		}
		// unmap every other page, unmap them a second time, then re-map some
		for i, p := range pages {
			if i%2 == 0 {
				act.doUnmap(p)
			}
		}
		for i, p := range pages {
			if i%2 == 0 {
				act.doUnmap(p)
			}
		}
		// unmapping pages whose tables never existed must change nothing
		for _, p := range probes {
			act.doUnmap(p)
		}
		for i, p := range pages {
			if i%4 == 0 {
				act.doMap(p, frames[(i+3)%len(frames)], flagSets[(i+5)%len(flagSets)])
			}
		}

		// the temporary mapping overwrites whatever was there
		sim.reset()
		page, err := MapTemporary(mm.Frame(0xabcde))
		if err != nil || page != tempPage {
			t.Fatalf("MapTemporary: got page %#x, err %v", uintptr(page), err)
		}
		act.model[tempPage] = c04Mapping{mm.Frame(0xabcde), FlagPresent | FlagRW}
		if !sim.wasFlushed(tempPage) {
			t.Fatal("MapTemporary: TLB entry of the changed page was not invalidated")
		}
		act.check("after MapTemporary")
		act.doUnmap(tempPage)
	})

	t.Run("region operations", func(t *testing.T) {
		sim.t = t
		// identity map 5 pages (size is rounded up) crossing a P1 table boundary
		sim.reset()
		first := c04Page(2, 3, 4, 509)
		flags := FlagPresent | FlagRW | FlagNoExecute
		got, err := IdentityMapRegion(mm.Frame(first), 4*mm.PageSize+1, flags)
		if err != nil || got != first {
			t.Fatalf("IdentityMapRegion: got page %#x, err %v", uintptr(got), err)
		}
		for p := first; p < first+5; p++ {
			act.known[p], act.model[p] = true, c04Mapping{mm.Frame(p), flags}
			if !sim.wasFlushed(p) {
				t.Fatalf("IdentityMapRegion: TLB entry of page %#x was not invalidated", uintptr(p))
			}
		}
		act.known[first-1], act.known[first+5] = true, true
		act.check("after IdentityMapRegion")

		// region map 3 pages right below the temporary mapping page
		sim.reset()
		earlyReserveLastUsed = tempMappingAddr
		flags = FlagPresent | FlagUserAccessible
		start, err := MapRegion(mm.Frame(0x7000), 2*mm.PageSize+17, flags)
		if err != nil {
			t.Fatalf("MapRegion: %v", err)
		}
		if start < tempPage-3 || start+3 > tempPage {
			t.Fatalf("MapRegion: unexpected region start %#x", uintptr(start))
		}
		for i := mm.Page(0); i < 3; i++ {
			act.known[start+i], act.model[start+i] = true, c04Mapping{mm.Frame(0x7000) + mm.Frame(i), flags}
			if !sim.wasFlushed(start + i) {
				t.Fatalf("MapRegion: TLB entry of page %#x was not invalidated", uintptr(start+i))
			}
		}
		act.known[start-1] = true
		act.check("after MapRegion")
	})

	t.Run("allocation failure", func(t *testing.T) {
		sim.t = t
		var victim mm.Page
		for failAt := 0; failAt < 3; failAt++ {
			// every victim needs three new tables
			victim = c04Page(77+uintptr(failAt), 1, 2, 3)
			act.known[victim] = true
			sim.reset()
			sim.failAfter = failAt
			if err := Map(victim, mm.Frame(99), FlagPresent|FlagRW); err != sim.failErr {
				t.Fatalf("allocation %d fails: Map returned %v; want the allocator's error", failAt, err)
			}
			act.check("after failed Map")
		}
		// same through the region operations
		sim.reset()
		sim.failAfter = 0
		far := c04Page(90, 0, 0, 0)
		act.known[far] = true
		if _, err := IdentityMapRegion(mm.Frame(far), mm.PageSize, FlagPresent); err != sim.failErr {
			t.Fatalf("IdentityMapRegion returned %v; want the allocator's error", err)
		}
		act.check("after failed IdentityMapRegion")
		// and once frames are available again the page can be mapped
		act.doMap(victim, mm.Frame(99), FlagPresent|FlagRW)
	})

	t.Run("inactive address space", func(t *testing.T) {
		sim.t = t
		// Bootstrap a second address space via Init. The temporary mapping
		// used by Init would need real paging, so the hooks hand out the
		// frame's location in simulated physical memory instead.
		inactFrame := sim.rawFrame()
		mapTemporaryFn = func(f mm.Frame) (mm.Page, *kernel.Error) { return mm.Page(f), nil }
		unmapFn = func(mm.Page) *kernel.Error { return nil }
		inact := &c04Space{sim: sim, root: inactFrame, model: map[mm.Page]c04Mapping{}, known: map[mm.Page]bool{}}
		before := sim.snapshot(act.root)
		if err := inact.pdt.Init(inactFrame); err != nil {
			t.Fatal(err)
		}
		mapTemporaryFn, unmapFn = MapTemporary, Unmap
		sim.expectSameBits("PageDirectoryTable.Init", act.root, before)
		for i, e := range sim.table(inactFrame) {
			if i < c04Entries-1 && e != 0 {
				t.Fatalf("new top-level table: entry %d is not empty", i)
			}
		}
		for _, p := range append(append([]mm.Page{}, pages...), probes...) {
			inact.known[p] = true
		}
		inact.check("fresh inactive address space")

		step := func(what string, fn func()) {
			t.Helper()
			before := sim.snapshot(act.root)
			fn()
			sim.expectSameBits(what, act.root, before)
			act.check("active space " + what)
		}

		for i, p := range pages {
			i, p := i, p
			step("after inactive Map", func() {
				inact.doMap(p, frames[(i+2)%len(frames)], flagSets[(i+1)%len(flagSets)])
			})
		}
		for i, p := range pages {
			i, p := i, p
			step("after inactive re-Map", func() {
				inact.doMap(p, frames[(i+4)%len(frames)], flagSets[(i+3)%len(flagSets)])
			})
		}
		for i, p := range pages {
			if i%3 != 0 {
				p := p
				step("after inactive Unmap", func() { inact.doUnmap(p) })
				step("after second inactive Unmap", func() { inact.doUnmap(p) })
			}
		}
		for _, p := range probes {
			p := p
			step("after inactive Unmap of a never mapped page", func() { inact.doUnmap(p) })
		}

		// allocator failure while working on the inactive space
		var victim mm.Page
		for failAt := 0; failAt < 3; failAt++ {
			failAt := failAt
			victim = c04Page(123+uintptr(failAt), 4, 5, 6)
			inact.known[victim] = true
			step("after failed inactive Map", func() {
				sim.reset()
				sim.failAfter = failAt
				if err := inact.pdt.Map(victim, mm.Frame(5), FlagPresent); err != sim.failErr {
					t.Fatalf("allocation %d fails: Map returned %v; want the allocator's error", failAt, err)
				}
				inact.check("after failed inactive Map")
			})
		}
		step("after inactive Map", func() { inact.doMap(victim, mm.Frame(5), FlagPresent) })

		// Switch address spaces: the roles swap and both models still hold.
		inact.pdt.Activate()
		if !inact.isActive() || act.isActive() {
			t.Fatal("Activate did not switch the address space")
		}
		inact.check("formerly inactive space after activation")
		act.check("formerly active space after deactivation")
		before = sim.snapshot(inact.root)
		act.doMap(pages[4], mm.Frame(0x4444), FlagPresent|FlagRW)
		act.doUnmap(pages[1])
		sim.expectSameBits("operations on the now inactive space", inact.root, before)
		inact.check("now active space")
		inact.doUnmap(pages[0])
		inact.doMap(pages[0], mm.Frame(0x5555), FlagPresent|FlagNoExecute)
		act.pdt.Activate()
		act.check("original space after switching back")
		inact.check("second space after switching back")
	})
}
