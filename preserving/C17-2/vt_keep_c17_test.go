package tty

import (
	"fmt"
	"math/rand"
	"testing"
)

// Demonstration for property C17: whatever the console geometry, scrollback
// length, tab width, byte stream and interleaving of writes with cursor moves
// and state changes, the terminal's contents, scrollback, viewport position
// and cursor equal those of a simple reference terminal and no write touches
// memory outside the terminal's buffer.
//
// The test only looks at what the property talks about: the cells of the
// buffer (row-major, 3 bytes per cell), the viewport position, the cursor
// as reported by CursorPosition and the guard bytes around the buffer. It
// deliberately does NOT look at dataOffset or any other private bookkeeping.

type c17Cell struct{ ch, fg, bg uint8 }

type c17Ref struct {
	w, h, sb, tab int
	fg, bg        uint8
	cells         []c17Cell
	cx, cy        int // 1-based, inside the viewport
	vy            int // first buffer line shown in the viewport
}

func newC17Ref(w, h, sb, tab int, fg, bg uint8) *c17Ref {
	r := &c17Ref{w: w, h: h, sb: sb, tab: tab, fg: fg, bg: bg, cx: 1, cy: 1}
	r.cells = make([]c17Cell, w*(h+sb))
	for i := range r.cells {
		r.cells[i] = c17Cell{' ', fg, bg}
	}
	return r
}

func (r *c17Ref) put(b byte) {
	r.cells[(r.vy+r.cy-1)*r.w+(r.cx-1)] = c17Cell{b, r.fg, r.bg}
}

func (r *c17Ref) lineFeed() {
	r.cx = 1
	if r.cy < r.h {
		r.cy++
		return
	}

	if r.vy+r.h < r.h+r.sb {
		r.vy++
		return
	}

	// Scroll the viewport's lines up by one and blank the last one.
	first, last := r.vy, r.vy+r.h-1
	for row := first; row < last; row++ {
		copy(r.cells[row*r.w:(row+1)*r.w], r.cells[(row+1)*r.w:(row+2)*r.w])
	}
	for col := 0; col < r.w; col++ {
		r.cells[last*r.w+col] = c17Cell{' ', r.fg, r.bg}
	}
}

func (r *c17Ref) advance() {
	r.cx++
	if r.cx > r.w {
		r.lineFeed()
	}
}

func (r *c17Ref) writeByte(b byte) {
	switch b {
	case '\r':
		r.cx = 1
	case '\n':
		r.lineFeed()
	case '\b':
		if r.cx > 1 {
			r.cx--
			r.put(' ')
		}
	case '\t':
		for i := 0; i < r.tab; i++ {
			r.put(' ')
			r.advance()
		}
	default:
		r.put(b)
		r.advance()
	}
}

func (r *c17Ref) setCursor(x, y uint32) {
	cx, cy := int64(x), int64(y)
	if cx < 1 {
		cx = 1
	} else if cx > int64(r.w) {
		cx = int64(r.w)
	}
	if cy < 1 {
		cy = 1
	} else if cy > int64(r.h) {
		cy = int64(r.h)
	}
	r.cx, r.cy = int(cx), int(cy)
}

const (
	c17GuardLen  = 64
	c17GuardByte = 0xA5
)

// c17Harness couples a VT, whose buffer has been moved between two guard
// regions, with the reference terminal.
type c17Harness struct {
	t     *testing.T
	label string
	term  *VT
	ref   *c17Ref
	arena []uint8
	log   []string
}

func newC17Harness(t *testing.T, w, h, sb, tab int) *c17Harness {
	cons := newMockConsole(uint32(w), uint32(h))
	term := NewVT(uint8(tab), uint32(sb))
	term.AttachTo(cons)

	if got, exp := len(term.data), w*(h+sb)*3; got != exp {
		t.Fatalf("[%dx%d sb=%d] expected a buffer of %d bytes; got %d", w, h, sb, exp, got)
	}

	// Move the (freshly blanked) buffer between two guard regions so that
	// any write outside of it can be detected.
	arena := make([]uint8, len(term.data)+2*c17GuardLen)
	for i := range arena {
		arena[i] = c17GuardByte
	}
	lo, hi := c17GuardLen, c17GuardLen+len(term.data)
	copy(arena[lo:hi], term.data)
	term.data = arena[lo:hi:hi]

	fg, bg := cons.DefaultColors()
	return &c17Harness{
		t:     t,
		label: fmt.Sprintf("%dx%d sb=%d tab=%d", w, h, sb, tab),
		term:  term,
		ref:   newC17Ref(w, h, sb, tab, fg, bg),
		arena: arena,
	}
}

func (hn *c17Harness) fail(format string, args ...interface{}) {
	hn.t.Helper()
	tail := hn.log
	if len(tail) > 12 {
		tail = tail[len(tail)-12:]
	}
	hn.t.Fatalf("[%s] %s\nlast ops: %q", hn.label, fmt.Sprintf(format, args...), tail)
}

func (hn *c17Harness) check() {
	hn.t.Helper()
	term, ref := hn.term, hn.ref

	for i := 0; i < c17GuardLen; i++ {
		if hn.arena[i] != c17GuardByte || hn.arena[len(hn.arena)-1-i] != c17GuardByte {
			hn.fail("memory outside the terminal buffer was modified")
		}
	}

	if got, exp := len(term.data), len(ref.cells)*3; got != exp {
		hn.fail("buffer length changed: got %d; expected %d", got, exp)
	}

	x, y := term.CursorPosition()
	if int(x) != ref.cx || int(y) != ref.cy {
		hn.fail("cursor is (%d, %d); reference cursor is (%d, %d)", x, y, ref.cx, ref.cy)
	}
	if x < 1 || int(x) > ref.w || y < 1 || int(y) > ref.h {
		hn.fail("cursor (%d, %d) is outside the viewport", x, y)
	}

	if int(term.viewportY) != ref.vy {
		hn.fail("viewport starts at line %d; reference viewport starts at line %d", term.viewportY, ref.vy)
	}

	for i, exp := range ref.cells {
		got := c17Cell{term.data[i*3], term.data[i*3+1], term.data[i*3+2]}
		if got != exp {
			hn.fail("cell (col %d, buffer line %d) is %v; reference has %v", i%ref.w+1, i/ref.w+1, got, exp)
		}
	}
}

func (hn *c17Harness) guarded(op string, fn func()) {
	hn.t.Helper()
	hn.log = append(hn.log, op)
	defer func() {
		if r := recover(); r != nil {
			hn.fail("panic: %v", r)
		}
	}()
	fn()
}

func (hn *c17Harness) write(data []byte) {
	hn.t.Helper()
	hn.guarded(fmt.Sprintf("Write(%q)", data), func() {
		n, err := hn.term.Write(data)
		if err != nil || n != len(data) {
			hn.fail("Write(%q) returned (%d, %v)", data, n, err)
		}
	})
	for _, b := range data {
		hn.ref.writeByte(b)
	}
	hn.check()
}

func (hn *c17Harness) writeByte(b byte) {
	hn.t.Helper()
	hn.guarded(fmt.Sprintf("WriteByte(%q)", b), func() {
		if err := hn.term.WriteByte(b); err != nil {
			hn.fail("WriteByte(%q) returned %v", b, err)
		}
	})
	hn.ref.writeByte(b)
	hn.check()
}

func (hn *c17Harness) setCursor(x, y uint32) {
	hn.t.Helper()
	hn.guarded(fmt.Sprintf("SetCursorPosition(%d, %d)", x, y), func() {
		hn.term.SetCursorPosition(x, y)
	})
	hn.ref.setCursor(x, y)
	hn.check()
}

func (hn *c17Harness) setState(s State) {
	hn.t.Helper()
	hn.guarded(fmt.Sprintf("SetState(%d)", s), func() {
		hn.term.SetState(s)
	})
	hn.check()
}

func c17RandomChunk(rng *rand.Rand, maxLen int) []byte {
	n := rng.Intn(maxLen + 1)
	chunk := make([]byte, n)
	for i := range chunk {
		switch rng.Intn(12) {
		case 0:
			chunk[i] = '\n'
		case 1:
			chunk[i] = '\r'
		case 2:
			chunk[i] = '\b'
		case 3:
			chunk[i] = '\t'
		case 4:
			// Anything at all, including NUL, ESC and bytes >= 0x80.
			chunk[i] = byte(rng.Intn(256))
		default:
			chunk[i] = byte('!' + rng.Intn(94))
		}
	}
	return chunk
}

func TestC17KeepReferenceModel(t *testing.T) {
	geometries := []struct{ w, h int }{
		{1, 1}, {1, 2}, {2, 1}, {1, 5}, {7, 1}, {2, 2}, {3, 4}, {5, 3}, {16, 4}, {80, 25},
	}
	scrollbacks := []int{0, 1, 3, 30}
	tabWidths := []int{0, 1, 4, 8, 255}

	t.Run("scripted", func(t *testing.T) {
		for _, g := range geometries {
			for _, sb := range scrollbacks {
				for _, tab := range tabWidths {
					hn := newC17Harness(t, g.w, g.h, sb, tab)
					hn.check()

					hn.write(nil)
					hn.write([]byte{})
					hn.write([]byte("\b"))
					hn.write([]byte("\b123\b4\t5\n67\r68"))
					hn.write([]byte("\r\n\r\n"))

					// A run that is longer than the whole terminal buffer.
					long := make([]byte, g.w*(g.h+sb)+g.w+3)
					for i := range long {
						long[i] = byte('a' + i%26)
					}
					hn.write(long)

					// Exactly fill the remainder of the line, twice.
					hn.setCursor(2, uint32(g.h))
					hn.write(long[:g.w])
					hn.write(long[:g.w-1])
					hn.writeByte('Z')

					// More line feeds than the terminal has lines.
					for i := 0; i < g.h+sb+2; i++ {
						hn.writeByte('\n')
						hn.writeByte('x')
					}

					hn.setState(StateActive)
					hn.setCursor(uint32(g.w), uint32(g.h))
					hn.write([]byte("tail\b\b\b\t\tend\r!"))
					hn.write(long)
					hn.setCursor(0, 0)
					hn.write([]byte("\n\n\t\b\bq"))
					hn.setState(StateInactive)
					hn.write([]byte("done\n"))
				}
			}
		}
	})

	t.Run("random", func(t *testing.T) {
		rng := rand.New(rand.NewSource(0xC17))
		for _, g := range geometries {
			for _, sb := range scrollbacks {
				tab := tabWidths[rng.Intn(len(tabWidths)-1)] // 255-wide tabs are covered by "scripted"
				hn := newC17Harness(t, g.w, g.h, sb, tab)

				for step := 0; step < 400; step++ {
					switch rng.Intn(10) {
					case 0:
						hn.setCursor(uint32(rng.Intn(g.w+3)), uint32(rng.Intn(g.h+3)))
					case 1:
						hn.setState(State(rng.Intn(2)))
					case 2, 3:
						chunk := c17RandomChunk(rng, 1)
						if len(chunk) == 1 {
							hn.writeByte(chunk[0])
						}
					case 4:
						hn.write(c17RandomChunk(rng, 3*g.w+5))
					default:
						hn.write(c17RandomChunk(rng, 12))
					}
				}
			}
		}
	})
}
