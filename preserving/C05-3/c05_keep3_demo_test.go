package vmm

// Demonstration for property C05 (kernel address space maps each loaded
// section exactly, with W^X permissions).
//
// Copy to kernel/mm/vmm/c05_keep3_demo_test.go and run with
//   cd kernel && go test -vet=off -count=1 -run TestC05Keep3Demo ./mm/vmm/
//
// The test only looks at what the property talks about: the final
// page -> (frame, permissions) relation that setupPDTForKernel establishes
// through the PDT it builds, the set of pages that are mapped at all, the
// translations of the early-reserved region and which PDT is active at the
// end. It does not look at the order or the number of Map/visit/translate
// calls, at log output or at any other bit of the page table entries.

import (
	"encoding/binary"
	"runtime"
	"testing"
	"unsafe"

	"github.com/ProjectSerenity/firefly/kernel"
	"github.com/ProjectSerenity/firefly/kernel/cpu"
	"github.com/ProjectSerenity/firefly/kernel/mm"
	"github.com/ProjectSerenity/firefly/kernel/multiboot"
)

type c05Section struct {
	name  string
	flags uint64 // raw ELF sh_flags
	addr  uintptr
	size  uint64
}

type c05Mapping struct {
	frame mm.Frame
	flags PageTableEntryFlag
}

const (
	c05ElfW = 1
	c05ElfA = 2
	c05ElfX = 4
)

// c05BuildInfo assembles a multiboot2 info blob that carries an ELF-sections
// tag describing secs plus a section name string table. The returned slices
// must be kept alive while the blob is in use.
func c05BuildInfo(secs []c05Section) (blob []byte, strtab []byte) {
	strtab = []byte{0}
	nameIndex := make([]uint32, len(secs)+1)
	for i, s := range secs {
		nameIndex[i] = uint32(len(strtab))
		strtab = append(strtab, s.name...)
		strtab = append(strtab, 0)
	}
	nameIndex[len(secs)] = uint32(len(strtab))
	strtab = append(strtab, ".shstrtab"...)
	strtab = append(strtab, 0)

	all := append([]c05Section(nil), secs...)
	all = append(all, c05Section{name: ".shstrtab", addr: uintptr(unsafe.Pointer(&strtab[0])), size: uint64(len(strtab))})

	le := binary.LittleEndian
	put32 := func(v uint32) { blob = le.AppendUint32(blob, v) }
	put64 := func(v uint64) { blob = le.AppendUint64(blob, v) }

	tagSize := uint32(8 + 12 + 64*len(all))
	put32(0) // total size, patched below
	put32(0) // reserved
	put32(9) // ELF symbols tag
	put32(tagSize)
	put32(uint32(len(all)))     // number of sections
	put32(64)                   // section entry size
	put32(uint32(len(all) - 1)) // string table index
	for i, s := range all {
		put32(nameIndex[i])
		put32(1) // SHT_PROGBITS
		put64(s.flags)
		put64(uint64(s.addr))
		put64(0) // offset
		put64(s.size)
		put32(0) // link
		put32(0) // info
		put64(1) // alignment
		put64(0) // entry size
	}
	for len(blob)%8 != 0 {
		blob = append(blob, 0)
	}
	put32(0) // end tag
	put32(8)
	le.PutUint32(blob[0:], uint32(len(blob)))
	return blob, strtab
}

// c05AlignedPage returns the address of a page-aligned, page-sized piece of
// ordinary Go memory together with the slice that keeps it alive.
func c05AlignedPage() (uintptr, []byte) {
	buf := make([]byte, 2*mm.PageSize)
	addr := (uintptr(unsafe.Pointer(&buf[0])) + mm.PageSize - 1) &^ (mm.PageSize - 1)
	return addr, buf
}

// c05Expected computes, straight from the property statement, the relation
// that must hold once setupPDTForKernel returns.
func c05Expected(secs []c05Section, strtab []byte, offset uintptr) map[mm.Page]c05Section {
	all := append([]c05Section(nil), secs...)
	all = append(all, c05Section{name: ".shstrtab", addr: uintptr(unsafe.Pointer(&strtab[0])), size: uint64(len(strtab))})

	exp := make(map[mm.Page]c05Section)
	for _, s := range all {
		if s.addr < offset {
			continue
		}
		first := s.addr >> mm.PageShift
		last := (s.addr + uintptr(s.size-1)) >> mm.PageShift
		for p := first; p <= last; p++ {
			exp[mm.Page(p)] = s
		}
	}
	return exp
}

func TestC05Keep3Demo(t *testing.T) {
	if runtime.GOARCH != "amd64" {
		t.Skip("test requires amd64 runtime; skipping")
	}

	defer func(origFlush func(uintptr)) {
		mm.SetFrameAllocator(nil)
		activePDTFn = cpu.ActivePDT
		switchPDTFn = cpu.SwitchPDT
		translateFn = Translate
		mapFn = Map
		mapTemporaryFn = MapTemporary
		unmapFn = Unmap
		flushTLBEntryFn = origFlush
		visitElfSectionsFn = multiboot.VisitElfSections
		earlyReserveLastUsed = tempMappingAddr
		kernelPDT = PageDirectoryTable{}
	}(flushTLBEntryFn)

	const (
		offset = uintptr(0xffff800000000000)
		load   = uintptr(0x100000)
	)

	var manyFlagSections []c05Section
	for combo := uint64(0); combo < 8; combo++ {
		// one section per W/A/X combination, each in its own pages, with
		// unaligned starts and sizes between one byte and a few pages
		manyFlagSections = append(manyFlagSections, c05Section{
			name:  ".combo",
			flags: combo,
			addr:  offset + load + uintptr(combo)*0x10000 + uintptr(combo*37),
			size:  1 + combo*combo*700,
		})
	}

	specs := []struct {
		descr       string
		secs        []c05Section
		rsvPages    uintptr
		inactivePDT bool
	}{
		{
			descr: "linker script layout",
			secs: []c05Section{
				{"", 0, 0, 0}, // SHT_NULL-like entry with size 0; never visited
				{".text", c05ElfA | c05ElfX, offset + load, 0x2345},
				{".rodata", c05ElfA | 0x30, offset + load + 0x3000, 0x1000},
				{".data", c05ElfA | c05ElfW, offset + load + 0x4000, 0x1001},
				{".bss", c05ElfA | c05ElfW, offset + load + 0x6000, 0x5fff},
				{".goredirectstbl", c05ElfA, offset + load + 0xc000, 0x40},
				{".debug_info", 0, 0, 0x7777},
				{".symtab", 0, 0x2000, 0x3000},
			},
			rsvPages: 3,
		},
		{
			descr:    "every flag combination, unaligned starts",
			secs:     manyFlagSections,
			rsvPages: 0,
		},
		{
			descr: "page boundary cases",
			secs: []c05Section{
				{".one", c05ElfA, offset + 0x1000, 1},
				{".lastbyte", c05ElfA | c05ElfW, offset + 0x2fff, 1},
				{".straddle", c05ElfA | c05ElfX, offset + 0x3fff, 2},
				{".exact", c05ElfA | c05ElfW | c05ElfX, offset + 0x6000, 0x2000},
				{".justbelow", c05ElfA | c05ElfX, offset - 0x1000, 0x800},
				{".low", c05ElfA | c05ElfW, load, 0x4000},
			},
			rsvPages: 1,
		},
		{
			descr: "nothing in the kernel range",
			secs: []c05Section{
				{".a", c05ElfA | c05ElfX, load, 0x1000},
				{".b", c05ElfA | c05ElfW, load + 0x1000, 0x1000},
			},
			rsvPages: 2,
		},
		{
			descr: "many pages across a 2M boundary, inactive PDT",
			secs: []c05Section{
				{".text", c05ElfA | c05ElfX, offset + 0x1f0000 + 0x20, 300 * 0x1000},
				{".data", c05ElfA | c05ElfW, offset + 0x400000, 0x1800},
			},
			rsvPages:    5,
			inactivePDT: true,
		},
	}

	for _, spec := range specs {
		spec := spec
		t.Run(spec.descr, func(t *testing.T) {
			blob, strtab := c05BuildInfo(spec.secs)
			multiboot.SetInfoPtr(uintptr(unsafe.Pointer(&blob[0])))
			visitElfSectionsFn = multiboot.VisitElfSections

			newPDTAddr, keepNew := c05AlignedPage()
			activeAddr, keepActive := c05AlignedPage()
			if !spec.inactivePDT {
				activeAddr = newPDTAddr
			}
			activeLast := (*pageTableEntry)(unsafe.Pointer(activeAddr + 511*8))
			if spec.inactivePDT {
				// boot PDT with its own recursive mapping; the new
				// PDT frame starts out full of junk
				*activeLast = 0
				activeLast.SetFrame(mm.Frame(activeAddr >> mm.PageShift))
				activeLast.SetFlags(FlagPresent | FlagRW)
				kernel.Memset(newPDTAddr, 0xf0, mm.PageSize)
			}

			allocCount := 0
			mm.SetFrameAllocator(func() (mm.Frame, *kernel.Error) {
				allocCount++
				return mm.Frame(newPDTAddr >> mm.PageShift), nil
			})

			curPDT, switchCount := activeAddr, 0
			activePDTFn = func() uintptr { return curPDT }
			switchPDTFn = func(addr uintptr) { curPDT = addr; switchCount++ }
			flushTLBEntryFn = func(uintptr) {}
			mapTemporaryFn = func(f mm.Frame) (mm.Page, *kernel.Error) { return mm.Page(f), nil }
			unmapFn = func(mm.Page) *kernel.Error { return nil }

			earlyReserveLastUsed = tempMappingAddr - spec.rsvPages*mm.PageSize
			rsvFrame := func(page mm.Page) mm.Frame {
				return mm.Frame(0xbad000 + (uintptr(page)&0xff)*3)
			}
			translateFn = func(virt uintptr) (uintptr, *kernel.Error) {
				if virt < earlyReserveLastUsed || virt >= tempMappingAddr {
					t.Errorf("translate called for 0x%x which is outside the reserved region", virt)
				}
				return rsvFrame(mm.PageFromAddress(virt)).Address() + PageOffset(virt), nil
			}

			// The state of the new address space: the last mapping
			// established for a page through the new PDT wins.
			got := make(map[mm.Page]c05Mapping)
			mapFn = func(page mm.Page, frame mm.Frame, flags PageTableEntryFlag) *kernel.Error {
				if spec.inactivePDT {
					// the new PDT must be reachable through the
					// active PDT's recursive slot while mapping
					if activeLast.Frame() != mm.Frame(newPDTAddr>>mm.PageShift) {
						t.Errorf("page 0x%x mapped while the new PDT was not selected", page)
					}
				}
				got[page] = c05Mapping{frame, flags}
				return nil
			}

			if err := setupPDTForKernel(offset); err != nil {
				t.Fatal(err)
			}

			// sections: exact page set, frames and permissions
			exp := c05Expected(spec.secs, strtab, offset)
			for page, sec := range exp {
				m, ok := got[page]
				if !ok {
					t.Errorf("page 0x%x of %s is not mapped", page, sec.name)
					continue
				}
				if expFrame := mm.Frame((page.Address() - offset) >> mm.PageShift); m.frame != expFrame {
					t.Errorf("page 0x%x of %s: expected frame 0x%x; got 0x%x", page, sec.name, expFrame, m.frame)
				}
				if m.flags&FlagPresent == 0 {
					t.Errorf("page 0x%x of %s is not present", page, sec.name)
				}
				if w := m.flags&FlagRW != 0; w != (sec.flags&c05ElfW != 0) {
					t.Errorf("page 0x%x of %s: writable = %t", page, sec.name, w)
				}
				if x := m.flags&FlagNoExecute == 0; x != (sec.flags&c05ElfX != 0) {
					t.Errorf("page 0x%x of %s: executable = %t", page, sec.name, x)
				}
				if m.flags&FlagUserAccessible != 0 {
					t.Errorf("page 0x%x of %s is user accessible", page, sec.name)
				}
			}

			// early reservations keep their translations
			for addr := earlyReserveLastUsed; addr < tempMappingAddr; addr += mm.PageSize {
				page := mm.PageFromAddress(addr)
				m, ok := got[page]
				if !ok {
					t.Errorf("reserved page 0x%x is not mapped", page)
					continue
				}
				if m.frame != rsvFrame(page) || m.flags&(FlagPresent|FlagRW) != FlagPresent|FlagRW {
					t.Errorf("reserved page 0x%x: got frame 0x%x flags 0x%x", page, m.frame, m.flags)
				}
				if m.flags&FlagUserAccessible != 0 {
					t.Errorf("reserved page 0x%x is user accessible", page)
				}
			}

			// nothing else is mapped
			for page := range got {
				_, isSec := exp[page]
				isRsv := page.Address() >= earlyReserveLastUsed && page.Address() < tempMappingAddr
				if !isSec && !isRsv {
					t.Errorf("unexpected mapping for page 0x%x", page)
				}
			}

			// the new address space is the active one
			if curPDT != newPDTAddr || switchCount == 0 {
				t.Errorf("expected PDT at 0x%x to be activated; active PDT is 0x%x after %d switches", newPDTAddr, curPDT, switchCount)
			}
			if kernelPDT.pdtFrame != mm.Frame(newPDTAddr>>mm.PageShift) {
				t.Errorf("kernelPDT does not describe the allocated frame")
			}
			if allocCount == 0 {
				t.Errorf("no frame was allocated for the PDT")
			}

			if spec.inactivePDT {
				// new PDT was bootstrapped: junk cleared and last
				// entry recursively mapped, boot PDT left intact
				entries := (*[512]pageTableEntry)(unsafe.Pointer(newPDTAddr))
				for i := 0; i < 511; i++ {
					if entries[i] != 0 {
						t.Errorf("new PDT entry %d not cleared: 0x%x", i, uintptr(entries[i]))
						break
					}
				}
				if !entries[511].HasFlags(FlagPresent|FlagRW) || entries[511].Frame() != mm.Frame(newPDTAddr>>mm.PageShift) {
					t.Errorf("new PDT is not recursively mapped: 0x%x", uintptr(entries[511]))
				}
				if activeLast.Frame() != mm.Frame(activeAddr>>mm.PageShift) || !activeLast.HasFlags(FlagPresent|FlagRW) {
					t.Errorf("boot PDT recursive entry not restored: 0x%x", uintptr(*activeLast))
				}
			}

			runtime.KeepAlive(blob)
			runtime.KeepAlive(strtab)
			runtime.KeepAlive(keepNew)
			runtime.KeepAlive(keepActive)
		})
	}
}
