package aml

// Demonstration for property C12 (malformed AML is rejected with an error,
// never a crash, hang or stray pointer).
//
// Copy to kernel/device/acpi/aml/c12_keep_demo_test.go and run with
//   cd kernel && go test -vet=off -count=1 -run TestC12Keep ./device/acpi/aml/
//
// The checks below only rely on what the property states:
//  - ParseAML returns (no panic) within a generous time bound and its result
//    is either nil or the package's parse error,
//  - every non-empty []byte held by an object of the tree aliases bytes of the
//    table that was parsed (only [ptr, ptr+len) is examined; nothing is assumed
//    about cap, about the pointer of empty slices or about nil-ness),
//  - the object graph reachable from the root is a tree whose links are
//    mutually consistent and, after a successful parse, it can be printed.
// Nothing is assumed about diagnostics, reader offsets, object indices or the
// contents of the tree after a failed parse.

import (
	"bytes"
	"io/ioutil"
	"math/rand"
	"path/filepath"
	"testing"
	"time"
	"unsafe"

	"github.com/ProjectSerenity/firefly/kernel"
	"github.com/ProjectSerenity/firefly/kernel/device/acpi/table"
)

const (
	c12HeaderLen   = int(unsafe.Sizeof(table.SDTHeader{}))
	c12TableHandle = uint8(1)
	c12MaxParse    = 20 * time.Second
)

type c12Outcome struct {
	stream   []byte
	tree     *ObjectTree
	err      *kernel.Error
	panicVal interface{}
	elapsed  time.Duration
	diag     bytes.Buffer
}

// c12Parse wraps body in an SDT header (the same way the go-fuzz driver does)
// and feeds it to the parser.
func c12Parse(body []byte) *c12Outcome {
	out := new(c12Outcome)
	out.stream = make([]byte, c12HeaderLen+len(body))
	copy(out.stream[c12HeaderLen:], body)

	header := (*table.SDTHeader)(unsafe.Pointer(&out.stream[0]))
	header.Signature = [4]byte{'D', 'S', 'D', 'T'}
	header.Length = uint32(len(out.stream))
	header.Revision = 2

	out.tree = NewObjectTree()
	out.tree.CreateDefaultScopes(0)

	start := time.Now()
	func() {
		defer func() { out.panicVal = recover() }()
		out.err = NewParser(&out.diag, out.tree).ParseAML(c12TableHandle, "DSDT", header)
	}()
	out.elapsed = time.Since(start)
	return out
}

// c12Check applies the property to a single input. It returns the number of
// table-aliasing byte slices that were found in the tree.
func c12Check(t *testing.T, descr string, body []byte) (*c12Outcome, int) {
	out := c12Parse(body)

	if out.panicVal != nil {
		t.Fatalf("[%s] ParseAML panicked: %v\ninput: % x", descr, out.panicVal, body)
	}
	if out.err != nil && out.err != errParsingAML {
		t.Fatalf("[%s] ParseAML returned an unexpected error: %v", descr, out.err)
	}
	if out.elapsed > c12MaxParse {
		t.Fatalf("[%s] ParseAML needed %v for %d bytes", descr, out.elapsed, len(body))
	}

	// Every non-empty string/name/buffer must alias the table.
	var (
		lo      = uintptr(unsafe.Pointer(&out.stream[0]))
		hi      = lo + uintptr(len(out.stream))
		aliased int
	)
	for _, obj := range out.tree.objPool {
		if obj == nil || obj.opcode == pOpIntFreedObject {
			continue
		}
		b, ok := obj.value.([]byte)
		if !ok || len(b) == 0 {
			continue
		}
		ptr := uintptr(unsafe.Pointer(&b[0]))
		if ptr < lo || ptr+uintptr(len(b)) > hi || ptr+uintptr(len(b)) < ptr {
			t.Fatalf("[%s] object %d (%s) holds %d bytes outside the table", descr, obj.index, pOpcodeName(obj.opcode), len(b))
		}
		// The bytes must be readable and must be table bytes.
		off := int(ptr - lo)
		if !bytes.Equal(b, out.stream[off:off+len(b)]) {
			t.Fatalf("[%s] object %d (%s) does not alias table contents", descr, obj.index, pOpcodeName(obj.opcode))
		}
		aliased++
	}

	// The graph reachable from the root must be a well formed tree.
	reachable := c12CheckLinks(t, descr, out.tree)

	// A tree produced by a successful parse can be printed.
	if out.err == nil {
		var dump bytes.Buffer
		func() {
			defer func() {
				if r := recover(); r != nil {
					t.Fatalf("[%s] PrettyPrint panicked: %v\ninput: % x", descr, r, body)
				}
			}()
			out.tree.PrettyPrint(&dump)
		}()
		// One line per object; string values may add line breaks of their own.
		if lines := bytes.Count(dump.Bytes(), []byte{'\n'}); lines < reachable {
			t.Fatalf("[%s] PrettyPrint emitted %d lines for %d reachable objects", descr, lines, reachable)
		}
	}

	return out, aliased
}

// c12CheckLinks walks the tree iteratively and verifies the link invariants.
func c12CheckLinks(t *testing.T, descr string, tree *ObjectTree) int {
	root := tree.ObjectAt(0)
	if root == nil {
		t.Fatalf("[%s] tree has no root", descr)
	}
	if root.parentIndex != InvalidIndex {
		t.Fatalf("[%s] root has a parent", descr)
	}

	var (
		seen  = make(map[uint32]bool)
		stack = []uint32{0}
		count int
	)
	seen[0] = true

	for len(stack) != 0 {
		objIndex := stack[len(stack)-1]
		stack = stack[:len(stack)-1]
		obj := tree.ObjectAt(objIndex)
		count++

		if (obj.firstArgIndex == InvalidIndex) != (obj.lastArgIndex == InvalidIndex) {
			t.Fatalf("[%s] object %d: first/last arg mismatch", descr, objIndex)
		}

		prev, steps := InvalidIndex, 0
		for argIndex := obj.firstArgIndex; argIndex != InvalidIndex; {
			arg := tree.ObjectAt(argIndex)
			if arg == nil {
				t.Fatalf("[%s] object %d links to missing/freed object %d", descr, objIndex, argIndex)
			}
			if arg.index != argIndex {
				t.Fatalf("[%s] object at pool slot %d claims index %d", descr, argIndex, arg.index)
			}
			if seen[argIndex] {
				t.Fatalf("[%s] object %d is reachable twice", descr, argIndex)
			}
			seen[argIndex] = true
			if arg.parentIndex != objIndex {
				t.Fatalf("[%s] object %d: parent is %d; expected %d", descr, argIndex, arg.parentIndex, objIndex)
			}
			if arg.prevSiblingIndex != prev {
				t.Fatalf("[%s] object %d: prev sibling is %d; expected %d", descr, argIndex, arg.prevSiblingIndex, prev)
			}
			if steps++; steps > len(tree.objPool) {
				t.Fatalf("[%s] object %d: sibling list does not terminate", descr, objIndex)
			}
			stack = append(stack, argIndex)
			prev, argIndex = argIndex, arg.nextSiblingIndex
		}
		if prev != obj.lastArgIndex {
			t.Fatalf("[%s] object %d: last arg is %d; list ends at %d", descr, objIndex, obj.lastArgIndex, prev)
		}
		if got := tree.NumArgs(obj); int(got) != steps {
			t.Fatalf("[%s] object %d: NumArgs reports %d; walked %d", descr, objIndex, got, steps)
		}
	}

	return count
}

func c12Seeds(t *testing.T) map[string][]byte {
	seeds := make(map[string][]byte)
	for _, name := range []string{"DSDT.aml", "SSDT.aml", "parser-testsuite-DSDT.aml"} {
		data, err := ioutil.ReadFile(filepath.Join(pkgDir(), "..", "table", "tabletest", name))
		if err != nil {
			t.Fatal(err)
		}
		seeds[name] = data[c12HeaderLen:]
	}
	return seeds
}

func c12Clone(b []byte) []byte { return append([]byte(nil), b...) }

// c12Find returns the first reachable object (pre-order) accepted by match.
func c12Find(tree *ObjectTree, objIndex uint32, match func(*Object) bool) *Object {
	obj := tree.ObjectAt(objIndex)
	if match(obj) {
		return obj
	}
	for argIndex := obj.firstArgIndex; argIndex != InvalidIndex; argIndex = tree.ObjectAt(argIndex).nextSiblingIndex {
		if found := c12Find(tree, argIndex, match); found != nil {
			return found
		}
	}
	return nil
}

// TestC12KeepHandcrafted drives the value extraction paths (strings, integer
// constants, package lengths, name strings and byte lists) with well formed
// and malformed encodings and checks the decoded *contents*.
func TestC12KeepHandcrafted(t *testing.T) {
	name := func(n string, rest ...byte) []byte {
		return append(append([]byte{0x08}, n...), rest...)
	}

	t.Run("values", func(t *testing.T) {
		specs := []struct {
			descr  string
			body   []byte
			expErr bool
			opcode uint16
			expVal interface{}
		}{
			{"byte const", name("BYTE", 0x0a, 0x42), false, pOpBytePrefix, uint64(0x42)},
			{"word const", name("WORD", 0x0b, 0x34, 0x12), false, pOpWordPrefix, uint64(0x1234)},
			{"dword const", name("DWRD", 0x0c, 0x78, 0x56, 0x34, 0x12), false, pOpDwordPrefix, uint64(0x12345678)},
			{"qword const", name("QWRD", 0x0e, 1, 2, 3, 4, 5, 6, 7, 8), false, pOpQwordPrefix, uint64(0x0807060504030201)},
			{"string", name("STRG", 0x0d, 'h', 'e', 'l', 'l', 'o', 0x00), false, pOpStringPrefix, []byte("hello")},
			{"empty string", name("STRG", 0x0d, 0x00), false, pOpStringPrefix, []byte{}},
			{"string followed by more objects", append(name("STRG", 0x0d, 'a', 'b', 0x00), name("BYTE", 0x0a, 0x01)...), false, pOpStringPrefix, []byte("ab")},
			{"buffer", name("BUFF", 0x11, 0x06, 0x0a, 0x03, 0xaa, 0xbb, 0xcc), false, pOpIntByteList, []byte{0xaa, 0xbb, 0xcc}},
			{"buffer without initializer", name("BUFF", 0x11, 0x03, 0x0a, 0x03), false, pOpIntByteList, []byte{}},
			{"buffer with 2-byte pkgLen", name("BUFF", 0x11, 0x47, 0x00, 0x0a, 0x03, 0xaa, 0xbb, 0xcc), false, pOpIntByteList, []byte{0xaa, 0xbb, 0xcc}},
			{"buffer with 3-byte pkgLen", name("BUFF", 0x11, 0x88, 0x00, 0x00, 0x0a, 0x03, 0xaa, 0xbb, 0xcc), false, pOpIntByteList, []byte{0xaa, 0xbb, 0xcc}},
			{"buffer with 4-byte pkgLen", name("BUFF", 0x11, 0xc9, 0x00, 0x00, 0x00, 0x0a, 0x03, 0xaa, 0xbb, 0xcc), false, pOpIntByteList, []byte{0xaa, 0xbb, 0xcc}},
			{"nested buffer overrunning its parent", name("FOOF", 0x11, 0x03, 0x11, 0x06, 0x0a, 0x02, 0x00, 0x00, 0x00), false, pOpIntByteList, []byte{0, 0, 0}},

			{"truncated byte const", name("BYTE", 0x0a), true, 0, nil},
			{"truncated word const", name("WORD", 0x0b, 0x34), true, 0, nil},
			{"truncated dword const", name("DWRD", 0x0c, 0x78, 0x56, 0x34), true, 0, nil},
			{"truncated qword const", name("QWRD", 0x0e, 1, 2, 3, 4, 5, 6, 7), true, 0, nil},
			{"unterminated string", name("STRG", 0x0d, 'h', 'e', 'l', 'l', 'o'), true, 0, nil},
			{"non-ascii string", name("STRG", 0x0d, 'h', 0x80, 'l', 0x00), true, 0, nil},
			{"string at end of stream", name("STRG", 0x0d), true, 0, nil},
			{"truncated 2-byte pkgLen", name("BUFF", 0x11, 0x47), true, 0, nil},
			{"truncated 4-byte pkgLen", name("BUFF", 0x11, 0xc9, 0x00, 0x00), true, 0, nil},
			{"pkgLen past end of table", name("BUFF", 0x11, 0x3f, 0x0a, 0x03), true, 0, nil},
			{"truncated name", []byte{0x08, 'F', 'O'}, true, 0, nil},
			{"truncated dual name path", []byte{0x08, 0x2e, 'F', 'O', 'O', 'F', 'B', 'A'}, true, 0, nil},
			{"multi name path without segments", []byte{0x08, 0x2f, 0x00}, true, 0, nil},
		}

		for _, spec := range specs {
			out, _ := c12Check(t, spec.descr, spec.body)
			if gotErr := out.err != nil; gotErr != spec.expErr {
				t.Errorf("[%s] expected error: %t; got %v", spec.descr, spec.expErr, out.err)
				continue
			}
			if spec.expErr {
				continue
			}

			obj := c12Find(out.tree, 0, func(o *Object) bool { return o.tableHandle == c12TableHandle && o.opcode == spec.opcode })
			if obj == nil {
				t.Errorf("[%s] no object with opcode %s in the tree", spec.descr, pOpcodeName(spec.opcode))
				continue
			}

			switch exp := spec.expVal.(type) {
			case uint64:
				if got, ok := obj.value.(uint64); !ok || got != exp {
					t.Errorf("[%s] expected value 0x%x; got %v", spec.descr, exp, obj.value)
				}
			case []byte:
				if got, ok := obj.value.([]byte); !ok || !bytes.Equal(got, exp) {
					t.Errorf("[%s] expected value % x; got %v", spec.descr, exp, obj.value)
				}
			}
		}
	})

	t.Run("names", func(t *testing.T) {
		specs := []struct {
			descr   string
			body    []byte
			expName string
		}{
			{"plain name", name("ABCD", 0x00), "ABCD"},
			{"root prefixed name", append([]byte{0x08, '\\'}, append([]byte("ABCD"), 0x00)...), "ABCD"},
			{"dual name path", append([]byte{0x08, 0x2e}, append([]byte("_SB_ABCD"), 0x00)...), "ABCD"},
			{"multi name path", append([]byte{0x08, '\\', 0x2f, 0x02}, append([]byte("_SB_ABCD"), 0x00)...), "ABCD"},
		}

		for _, spec := range specs {
			out, aliased := c12Check(t, spec.descr, spec.body)
			if out.err != nil {
				t.Errorf("[%s] unexpected error: %v", spec.descr, out.err)
				continue
			}
			if aliased == 0 {
				t.Errorf("[%s] expected the tree to reference table bytes", spec.descr)
			}
			obj := c12Find(out.tree, 0, func(o *Object) bool { return o.tableHandle == c12TableHandle && o.opcode == pOpName })
			if obj == nil || string(obj.name[:]) != spec.expName {
				t.Errorf("[%s] expected a Name object called %q; got %v", spec.descr, spec.expName, obj)
				continue
			}
			// The name path arg aliases the table and ends with the name
			path, ok := out.tree.ArgAt(obj, 0).value.([]byte)
			if !ok || !bytes.HasSuffix(path, []byte(spec.expName)) {
				t.Errorf("[%s] unexpected name path %q", spec.descr, path)
			}
		}
	})

	t.Run("field list", func(t *testing.T) {
		// OperationRegion(REG0, SystemIO, 0x10, 0x08)
		// Field(REG0, ...) { Connection(Buffer), AccessAs, Offset, FLD0, 8 }
		body := []byte{
			0x5b, 0x80, 'R', 'E', 'G', '0', 0x01, 0x0a, 0x10, 0x0a, 0x08,
			0x5b, 0x81, 0x1b, 'R', 'E', 'G', '0', 0x01,
			0x02, 0x11, 0x05, 0x0a, 0x02, 0xde, 0xad, // connection: buffer
			0x01, 0x01, 0x00, // access field
			0x03, 0x01, 0x00, 0x04, // extended access field
			0x00, 0x08, // reserved field
			'F', 'L', 'D', '0', 0x08,
		}
		out, _ := c12Check(t, "field list", body)
		if out.err != nil {
			t.Fatalf("unexpected error: %v", out.err)
		}
		list := c12Find(out.tree, 0, func(o *Object) bool { return o.tableHandle == c12TableHandle && o.opcode == pOpIntByteList })
		if list == nil || !bytes.Equal(list.value.([]byte), []byte{0xde, 0xad}) {
			t.Fatalf("expected connection buffer [de ad]; got %v", list)
		}
		fld := c12Find(out.tree, 0, func(o *Object) bool { return o.opcode == pOpIntNamedField })
		if fld == nil || string(fld.name[:]) != "FLD0" || fld.value.(*fieldElement).width != 8 || fld.value.(*fieldElement).offset != 8 {
			t.Fatalf("unexpected named field: %v", fld)
		}

		// Every truncation of the above must be handled gracefully as well
		for cut := 0; cut < len(body); cut++ {
			c12Check(t, "truncated field list", body[:cut])
		}
	})
}

// TestC12KeepCorpus checks that the unmodified tables still parse and that
// the values in their trees alias the table.
func TestC12KeepCorpus(t *testing.T) {
	for name, body := range c12Seeds(t) {
		out, aliased := c12Check(t, name, body)
		if out.err != nil {
			t.Errorf("[%s] unexpected error: %v (%s)", name, out.err, out.diag.String())
		}
		if aliased == 0 {
			t.Errorf("[%s] expected the tree to reference table bytes", name)
		}
	}
}

// TestC12KeepMutations applies the property to truncations, bit flips, byte
// substitutions, length-field corruptions and splices of well formed tables
// as well as to arbitrary bytes.
func TestC12KeepMutations(t *testing.T) {
	var (
		seeds     = c12Seeds(t)
		names     = []string{"DSDT.aml", "SSDT.aml", "parser-testsuite-DSDT.aml"}
		rng       = rand.New(rand.NewSource(0xC12))
		accepted  int
		rejected  int
		totalTime time.Duration
	)

	run := func(t *testing.T, descr string, body []byte) {
		out, _ := c12Check(t, descr, body)
		if out.err == nil {
			accepted++
		} else {
			rejected++
		}
		totalTime += out.elapsed
	}

	t.Run("truncation", func(t *testing.T) {
		for _, name := range names {
			body, step := seeds[name], 1
			if len(body) > 2000 {
				step = 5
			}
			for cut := 0; cut < len(body); cut += step {
				run(t, "truncate "+name, body[:cut])
			}
		}
	})

	t.Run("bit flip", func(t *testing.T) {
		for _, name := range names {
			for i := 0; i < 500; i++ {
				body := c12Clone(seeds[name])
				body[rng.Intn(len(body))] ^= 1 << uint(rng.Intn(8))
				run(t, "bit flip "+name, body)
			}
		}
	})

	t.Run("byte substitution", func(t *testing.T) {
		interesting := []byte{0x00, 0x01, 0x0a, 0x0b, 0x0c, 0x0d, 0x0e, 0x10, 0x11, 0x12, 0x14, 0x2e, 0x2f, 0x5b, 0x5c, 0x5e, 0x7f, 0x80, 0xa0, 0xff}
		for _, name := range names {
			for i := 0; i < 500; i++ {
				body := c12Clone(seeds[name])
				for n := 1 + rng.Intn(3); n > 0; n-- {
					if rng.Intn(2) == 0 {
						body[rng.Intn(len(body))] = interesting[rng.Intn(len(interesting))]
					} else {
						body[rng.Intn(len(body))] = byte(rng.Intn(256))
					}
				}
				run(t, "substitute "+name, body)
			}
		}
	})

	t.Run("length corruption", func(t *testing.T) {
		leads := []byte{0x00, 0x01, 0x02, 0x3f, 0x40, 0x4f, 0x7f, 0x80, 0x8f, 0xbf, 0xc0, 0xcf, 0xff}
		for _, name := range names {
			seed := seeds[name]
			var sites []int
			for i := 0; i+1 < len(seed); i++ {
				switch seed[i] {
				case 0x10, 0x11, 0x12, 0x13, 0x14, 0xa0, 0xa1, 0xa2:
					sites = append(sites, i+1)
				case 0x80, 0x81, 0x82, 0x83, 0x84, 0x85, 0x86, 0x87:
					if i > 0 && seed[i-1] == 0x5b {
						sites = append(sites, i+1)
					}
				}
			}
			for i := 0; i < 600 && len(sites) != 0; i++ {
				body := c12Clone(seed)
				site := sites[rng.Intn(len(sites))]
				body[site] = leads[rng.Intn(len(leads))]
				if rng.Intn(3) == 0 && site+1 < len(body) {
					body[site+1] = byte(rng.Intn(256))
				}
				run(t, "pkgLen "+name, body)
			}
		}
	})

	t.Run("splice", func(t *testing.T) {
		for i := 0; i < 600; i++ {
			a, b := seeds[names[rng.Intn(len(names))]], seeds[names[rng.Intn(len(names))]]
			cutA, fromB := rng.Intn(len(a)+1), rng.Intn(len(b)+1)
			toB := fromB + rng.Intn(len(b)-fromB+1)
			body := append(c12Clone(a[:cutA]), b[fromB:toB]...)
			if rng.Intn(2) == 0 {
				body = append(body, a[rng.Intn(len(a)+1):]...)
			}
			run(t, "splice", body)
		}
	})

	t.Run("arbitrary bytes", func(t *testing.T) {
		alphabet := []byte{0x00, 0x01, 0x02, 0x03, 0x06, 0x08, 0x0a, 0x0b, 0x0c, 0x0d, 0x0e, 0x10, 0x11, 0x12, 0x13, 0x14, 0x2e, 0x2f, 0x5b, 0x5c, 0x5e, 0x60, 0x68, 0x70, 0x72, 0x80, 0x81, 0x82, 0x86, 0x87, 0x88, 0xa0, 0xa4, 'A', 'B', '_', 0xff}
		for i := 0; i < 1500; i++ {
			body := make([]byte, rng.Intn(96))
			for j := range body {
				if i%2 == 0 {
					body[j] = byte(rng.Intn(256))
				} else {
					body[j] = alphabet[rng.Intn(len(alphabet))]
				}
			}
			run(t, "arbitrary", body)
		}
	})

	t.Logf("inputs: %d accepted, %d rejected; total parse time %v", accepted, rejected, totalTime)
	if accepted == 0 || rejected == 0 {
		t.Errorf("expected the mutations to produce both accepted and rejected inputs")
	}
}
