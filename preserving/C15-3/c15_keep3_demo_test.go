package kfmt

// Demonstration for property C15 (kernel printf output is exact, bounded and
// allocation-free). Copy to kernel/kfmt/c15_keep3_demo_test.go and run with
//
//	cd kernel && go test -vet=off -count=1 -run TestC15Keep3Demo ./kfmt/
//
// The test only looks at what the property talks about: the concatenation of
// all bytes handed to the writer, the absence of panics and the absence of
// heap allocations. It deliberately does not look at how many Write calls are
// made, how big they are, or at any package-internal buffer.

import (
	"bytes"
	"math"
	"math/rand"
	"strconv"
	"strings"
	"testing"
)

// c15Sink is a writer backed by a fixed, pre-allocated array so that it does
// not allocate itself.
type c15Sink struct {
	buf []byte
	n   int
}

func (s *c15Sink) Write(p []byte) (int, error) {
	s.n += copy(s.buf[s.n:], p)
	return len(p), nil
}

func (s *c15Sink) reset()         { s.n = 0 }
func (s *c15Sink) String() string { return string(s.buf[:s.n]) }

// c15RefInt is an independent model of integer formatting.
func c15RefInt(neg bool, mag uint64, base, width int) string {
	if width > 31 {
		width = 31
	}
	digits := strconv.FormatUint(mag, base)
	if base == 10 {
		if neg {
			digits = "-" + digits
		}
		if pad := width - len(digits); pad > 0 {
			digits = strings.Repeat(" ", pad) + digits
		}
		return digits
	}
	if pad := width - len(digits); pad > 0 {
		digits = strings.Repeat("0", pad) + digits
	}
	if neg {
		digits = "-" + digits
	}
	return digits
}

func c15RefStr(s string, width int) string {
	if pad := width - len(s); pad > 0 {
		return strings.Repeat(" ", pad) + s
	}
	return s
}

func c15LongestDigitRun(s string) int {
	best, cur := 0, 0
	for i := 0; i < len(s); i++ {
		if s[i] >= '0' && s[i] <= '9' {
			cur++
			if cur > best {
				best = cur
			}
		} else {
			cur = 0
		}
	}
	return best
}

type c15IntCase struct {
	arg interface{}
	neg bool
	mag uint64
}

func c15IntCases() []c15IntCase {
	var out []c15IntCase
	s := func(arg interface{}, v int64) {
		if v < 0 {
			out = append(out, c15IntCase{arg, true, uint64(-(v + 1)) + 1})
		} else {
			out = append(out, c15IntCase{arg, false, uint64(v)})
		}
	}
	u := func(arg interface{}, v uint64) { out = append(out, c15IntCase{arg, false, v}) }

	for _, v := range []int64{0, 1, -1, math.MaxInt8, math.MinInt8} {
		s(int8(v), v)
	}
	for _, v := range []int64{0, 1, -1, math.MaxInt16, math.MinInt16, 0777} {
		s(int16(v), v)
	}
	for _, v := range []int64{0, 1, -1, math.MaxInt32, math.MinInt32, -0xbadf00d} {
		s(int32(v), v)
	}
	for _, v := range []int64{0, 1, -1, math.MaxInt64, math.MinInt64, -123456789, -1234567890} {
		s(int64(v), v)
		s(int(v), v)
	}
	for _, v := range []uint64{0, 1, math.MaxUint8} {
		u(uint8(v), v)
	}
	for _, v := range []uint64{0, 1, math.MaxUint16} {
		u(uint16(v), v)
	}
	for _, v := range []uint64{0, 1, math.MaxUint32, 0xbadf00d} {
		u(uint32(v), v)
	}
	for _, v := range []uint64{0, 1, math.MaxUint64, 1 << 63, 0xb8000} {
		u(uint64(v), v)
		u(uintptr(v), v)
	}
	return out
}

func TestC15Keep3Demo(t *testing.T) {
	defer func() {
		outputSink = nil
		// leave the early ring buffer empty for the other tests.
		earlyPrintBuffer.rIndex = earlyPrintBuffer.wIndex
	}()

	sink := &c15Sink{buf: make([]byte, 4<<20)}
	printfn := Fprintf // mute vet

	check := func(t *testing.T, exp, format string, args ...interface{}) {
		t.Helper()
		sink.reset()
		printfn(sink, format, args...)
		if got := sink.String(); got != exp {
			if len(got) > 200 || len(exp) > 200 {
				t.Errorf("format %.40q: output mismatch (len got %d, len exp %d)", format, len(got), len(exp))
			} else {
				t.Errorf("format %q: expected %q; got %q", format, exp, got)
			}
		}
	}

	t.Run("integers", func(t *testing.T) {
		widths := []int{-1, 0, 1, 2, 5, 10, 20, 22, 30, 31, 32, 33, 64, 128, 1000, 1000000}
		verbs := []struct {
			ch   string
			base int
		}{{"o", 8}, {"d", 10}, {"x", 16}}
		for _, c := range c15IntCases() {
			for _, w := range widths {
				for _, v := range verbs {
					ws, wv := "", 0
					if w >= 0 {
						ws, wv = strconv.Itoa(w), w
					}
					exp := "[" + c15RefInt(c.neg, c.mag, v.base, wv) + "]"
					check(t, exp, "[%"+ws+v.ch+"]", c.arg)
				}
			}
		}
		// leading zeros in the width are still a decimal width.
		check(t, "   42", "%005d", 42)
	})

	t.Run("strings and literals", func(t *testing.T) {
		lens := []int{0, 1, 2, 63, 64, 65, 127, 128, 129, 255, 256, 257, 300, 5000}
		widths := []int{-1, 0, 1, 3, 64, 127, 128, 129, 200, 4096, 1000000}
		for _, l := range lens {
			var sb strings.Builder
			for i := 0; i < l; i++ {
				sb.WriteByte(byte('a' + i%26))
			}
			str := sb.String()
			for _, w := range widths {
				ws, wv := "", 0
				if w >= 0 {
					ws, wv = strconv.Itoa(w), w
				}
				exp := c15RefStr(str, wv)
				check(t, "<"+exp+">", "<%"+ws+"s>", str)
				check(t, "<"+exp+">", "<%"+ws+"s>", []byte(str))
			}

			// the same text as a literal, with %% sprinkled in and with
			// verbs before/after so that the literal straddles whatever
			// internal chunking the formatter uses.
			check(t, str, str)
			check(t, "%"+str+"%", "%%"+str+"%%")
			check(t, str+"7"+str+"true"+str, str+"%d"+str+"%t"+str, 7, true)
			check(t, str+"%"+str, str+"%%"+str)
		}
		// newlines, NULs and high bytes are literal text too.
		check(t, "a\nb\x00c\xffd", "a\nb\x00c\xffd")
		check(t, "\n-----\n", "\n-----\n")
	})

	t.Run("booleans", func(t *testing.T) {
		check(t, "true", "%t", true)
		check(t, "false", "%t", false)
		check(t, "truefalse", "%t%t", true, false)
		check(t, "false", "%41t", false)
	})

	t.Run("argument errors", func(t *testing.T) {
		check(t, "more args%!(EXTRA)%!(EXTRA)%!(EXTRA)", "more args", "foo", "bar", "baz")
		check(t, "1%!(EXTRA)", "%d", 1, 2)
		check(t, "missing (MISSING)", "missing %s")
		check(t, "1 (MISSING) (MISSING)(MISSING)", "%d %d %x%10s", 1)
		check(t, "not bool %!(WRONGTYPE)", "not bool %t", "foo")
		check(t, "not int %!(WRONGTYPE)", "not int %d", "foo")
		check(t, "not int %!(WRONGTYPE)", "not int %31x", true)
		check(t, "not int %!(WRONGTYPE)", "not int %o", []byte("x"))
		check(t, "not string %!(WRONGTYPE)", "not string %s", 123)
		check(t, "not string %!(WRONGTYPE)", "not string %1000s", int64(1))
		check(t, "%!(WRONGTYPE)", "%d", 1.5)
		check(t, "%!(WRONGTYPE)", "%s", nil)
		check(t, "%!(WRONGTYPE)ok%!(EXTRA)", "%t%s", 1, "ok", 3)
		check(t, "%foo123true", "%%%s%d%t", "foo", 123, true)
	})

	t.Run("never panics", func(t *testing.T) {
		rng := rand.New(rand.NewSource(15))
		pool := []interface{}{
			0, -1, int8(-128), uint64(math.MaxUint64), int64(math.MinInt64), uintptr(7),
			"str", "", []byte("bytes"), []byte(nil), true, false, nil, 1.5, struct{}{},
			[]int{1}, &sink, 'x', error(nil),
		}
		pieces := []string{
			"%", "%%", "d", "x", "o", "s", "t", "Q", "p", "v", " ", "\n", "abc", "0", "7", "19",
			"%5", "%31", "%32", "%000", "%1000", "%-", "%+", "%.", "%#", "\x00", "\xff",
			strings.Repeat("lit", 60),
		}
		run := func(format string, args []interface{}) {
			defer func() {
				if r := recover(); r != nil {
					t.Errorf("format %q args %v: panic: %v", format, args, r)
				}
			}()
			sink.reset()
			printfn(sink, format, args...)
		}
		for i := 0; i < 3000; i++ {
			var sb strings.Builder
			for j, n := 0, rng.Intn(12); j < n; j++ {
				sb.WriteString(pieces[rng.Intn(len(pieces))])
			}
			if c15LongestDigitRun(sb.String()) > 6 {
				// keep the amount of padding (and the run time) bounded
				continue
			}
			args := make([]interface{}, rng.Intn(6))
			for j := range args {
				args[j] = pool[rng.Intn(len(pool))]
			}
			run(sb.String(), args)
		}
		// widths far outside the quantified range (integer/bool verbs only,
		// so that the amount of output stays bounded): no panic; the integer
		// result is still bounded by the 31 cap when the width is huge but
		// representable.
		huge := []string{"4294967296", "9223372036854775807", "9223372036854775808",
			"18446744073709551616", strings.Repeat("9", 40), strings.Repeat("1", 100)}
		for _, h := range huge {
			for _, v := range []string{"d", "x", "o", "t"} {
				run("%"+h+v, []interface{}{-5})
				run("%"+h+v, nil)
				run("%"+h+v+"%"+h, []interface{}{true, "extra"})
			}
			run("%"+h, nil)
			run("%"+h+"%", nil)
		}
		run("", nil)
		run("", []interface{}{1})
		run("%", nil)
		run("%", []interface{}{1})
		run("%5", []interface{}{"x"})
		// nil writer: goes to the early ring buffer, must not panic either
		func() {
			defer func() {
				if r := recover(); r != nil {
					t.Errorf("nil writer: panic: %v", r)
				}
			}()
			printfn(nil, "%5000s|%d|%t", "x", 1, true)
			earlyPrintBuffer.rIndex = earlyPrintBuffer.wIndex
		}()
	})

	t.Run("early output reaches the sink in order", func(t *testing.T) {
		outputSink = nil
		earlyPrintBuffer.rIndex = earlyPrintBuffer.wIndex

		pf := Printf
		pf("early %d|%4x|%6s|%t\n", 1, 0xab, "str", true)
		pf("second line %s\n", []byte("bytes"))

		var buf bytes.Buffer
		SetOutputSink(&buf)
		pf("late %d", 3)

		exp := "early 1|00ab|   str|true\nsecond line bytes\nlate 3"
		if got := buf.String(); got != exp {
			t.Errorf("expected %q; got %q", exp, got)
		}
		outputSink = nil
	})

	t.Run("no allocations", func(t *testing.T) {
		long := strings.Repeat("0123456789", 40)
		cases := []struct {
			format string
			args   []interface{}
		}{
			{"plain literal text only\n", nil},
			{long, nil},
			{"%d %x %o", []interface{}{int64(math.MinInt64), uint64(math.MaxUint64), uintptr(0xb8000)}},
			{"%31d|%32x|%1000000o", []interface{}{-1, int8(-128), uint16(65535)}},
			{"[%s] unrecoverable error: %s\n", []interface{}{"mod", long}},
			{"%10s|%300s|%s", []interface{}{"abc", []byte("def"), []byte(long)}},
			{"%100000s", []interface{}{"x"}},
			{"%t %t %%", []interface{}{true, false}},
			{"%d %s %t %d", []interface{}{"wrong", 5, 1}},
			{"extra", []interface{}{1, 2, 3}},
			{"%Q %", nil},
		}
		for _, c := range cases {
			c := c
			for _, w := range []struct {
				name string
				fn   func()
			}{
				{"writer", func() { sink.reset(); printfn(sink, c.format, c.args...) }},
				{"early buffer", func() { printfn(nil, c.format, c.args...) }},
			} {
				if n := testing.AllocsPerRun(20, w.fn); n != 0 {
					t.Errorf("format %.40q (%s): expected 0 allocations; got %v", c.format, w.name, n)
				}
			}
		}
		earlyPrintBuffer.rIndex = earlyPrintBuffer.wIndex
	})
}
