// Demonstration for property C20: the kernel build finds every runtime
// redirect, exactly once, reproducibly.
//
// Copy to kbuild/redirects_c20_demo_test.go and run with
//
//	cd kbuild && go test -vet=off -count=1 -run TestC20Demo .
//
// The checks only rely on what the property states: which (source,
// destination) pairs are in the table, how many times, that two builds of
// the same tree agree on the order, and that the table written into the
// image is the table that was found. They do not look at the Comment field,
// at slice capacities, at how many files were opened or parsed, or at the
// relative order of entries beyond "the same both times".

package main

import (
	"bytes"
	"encoding/binary"
	"fmt"
	"io/ioutil"
	"os"
	"path/filepath"
	"sort"
	"strings"
	"testing"
)

const c20Prefix = "github.com/ProjectSerenity/firefly/kernel"

type c20Pair struct{ src, dst string }

// c20Scan writes the tree into a fresh directory, runs FindRedirects on a
// fresh Context from inside it and returns the table as (src, dst) pairs
// in table order.
func c20Scan(t *testing.T, tree map[string]string) []c20Pair {
	t.Helper()

	root, err := ioutil.TempDir("", "c20demo")
	if err != nil {
		t.Fatal(err)
	}

	defer os.RemoveAll(root)

	for name, content := range tree {
		full := filepath.Join(root, filepath.FromSlash(name))
		if err := os.MkdirAll(filepath.Dir(full), 0755); err != nil {
			t.Fatal(err)
		}

		if err := ioutil.WriteFile(full, []byte(content), 0644); err != nil {
			t.Fatal(err)
		}
	}

	cwd, err := os.Getwd()
	if err != nil {
		t.Fatal(err)
	}

	if err := os.Chdir(root); err != nil {
		t.Fatal(err)
	}

	defer os.Chdir(cwd)

	ctx := &Context{Architectures: []string{"amd64"}}
	ctx.FindRedirects()

	out := make([]c20Pair, 0, len(ctx.Redirects))
	for i, r := range ctx.Redirects {
		if r == nil {
			t.Fatalf("entry %d is nil", i)
		}

		if r.SrcVirtAddr != 0 || r.DstVirtAddr != 0 {
			t.Errorf("entry %d has addresses before the image exists: %#x %#x", i, r.SrcVirtAddr, r.DstVirtAddr)
		}

		out = append(out, c20Pair{r.SrcSymbol, r.DstSymbol})
	}

	return out
}

func c20Sorted(in []c20Pair) []string {
	out := make([]string, len(in))
	for i, p := range in {
		out[i] = p.src + " -> " + p.dst
	}

	sort.Strings(out)
	return out
}

// c20Check scans the tree twice and checks the table against want as a
// multiset, and the two scans against one another as sequences.
func c20Check(t *testing.T, name string, tree map[string]string, want []c20Pair) {
	t.Helper()

	first := c20Scan(t, tree)
	second := c20Scan(t, tree)

	got, exp := c20Sorted(first), c20Sorted(want)
	if strings.Join(got, "\n") != strings.Join(exp, "\n") {
		t.Errorf("%s: wrong table\n got:\n  %s\nwant:\n  %s", name, strings.Join(got, "\n  "), strings.Join(exp, "\n  "))
	}

	if len(first) != len(second) {
		t.Fatalf("%s: two scans of the same tree gave %d and %d entries", name, len(first), len(second))
	}

	for i := range first {
		if first[i] != second[i] {
			t.Errorf("%s: two scans of the same tree disagree at entry %d: %v vs %v", name, i, first[i], second[i])
		}
	}
}

func TestC20DemoFindRedirects(t *testing.T) {
	// 1. A tree with most of the shapes the property quantifies over.
	mixed := map[string]string{
		// Top-level file: the package is the kernel root itself.
		"root.go": `package kernel

// Root is documented.
//
//go:redirect-from runtime.root
func Root() {}
`,
		// Several annotated functions, several annotations on one
		// function, other directives and doc text in between.
		"goruntime/bootstrap.go": `// Package goruntime mentions //go:redirect-from runtime.inPackageDoc in its doc.
package goruntime

import "unsafe"

//go:redirect-from runtime.onVar
var notAFunc = 1

//go:redirect-from runtime.onType
type alsoNot struct{}

//go:redirect-from runtime.onConst
const neither = 2

// sysReserve reserves address space.
//
//go:noinline
//go:redirect-from runtime.sysReserve
//go:nosplit
func sysReserve(_ unsafe.Pointer, size uintptr) unsafe.Pointer {
	//go:redirect-from runtime.insideBody
	var x = "//go:redirect-from runtime.insideString"
	_ = x
	return nil
}

//go:redirect-from runtime.sysMap
//go:redirect-from runtime.sysMapAlias
// Trailing doc text.
//go:redirect-from   runtime.sysMapSpaced
func sysMap() {}

//go:redirect-from runtime.detached

func detached() {} // the comment above is not this function's doc

// go:redirect-from runtime.withSpace
func withSpace() {}

/* //go:redirect-from runtime.inBlock */
func inBlock() {}

/*
//go:redirect-from runtime.inBlock2
*/
func inBlock2() {}

// plain is plain.
func plain() {}

func undocumented() {} //go:redirect-from runtime.trailing

type T struct{}

//go:redirect-from runtime.method
func (T) Method() {}

//go:redirect-from runtime.sameTwice
//go:redirect-from runtime.sameTwice
func twice() {}
`,
		"goruntime/bootstrap_test.go": `package goruntime

//go:redirect-from runtime.inTestFile
func inTest() {}
`,
		"goruntime/other_test.go": `package goruntime_test

//go:redirect-from runtime.inExternalTestFile
func inTest() {}
`,
		// Deep nesting, and a second file in the same package.
		"a/b/c/d/e/deep.go": `package e

//go:redirect-from runtime.deep
func Deep() {}
`,
		"a/b/c/d/e/deeper.go": `package e

//go:redirect-from runtime.deeper1
func Deeper1() {}

//go:redirect-from runtime.deeper2
func Deeper2() {}
`,
		// Files that never mention the directive.
		"a/b/plain.go":   "package b\n\n// F is a function.\nfunc F() {}\n",
		"a/b/c/plain.go": "package c\n\nvar V = 1\n",
		// Near misses.
		"near/miss.go": `package near

//go:redirect-fro runtime.short
func short() {}

//go:redirect_from runtime.underscore
func underscore() {}

//GO:REDIRECT-FROM runtime.upper
func upper() {}

//go:redirect-fromruntime.glued
func glued() {}
`,
		// Not Go source.
		"arch/amd64/rt0/rt0_64.s": "; //go:redirect-from runtime.inAsm\n",
		"docs/notes.txt":          "//go:redirect-from runtime.inText\nfunc f() {}\n",
		"docs/old.go.bak":         "package docs\n\n//go:redirect-from runtime.inBackup\nfunc f() {}\n",
		// A directory whose name looks like a Go file.
		"odd.go/inner.go": "package odd\n\n//go:redirect-from runtime.oddDir\nfunc Inner() {}\n",
	}

	c20Check(t, "mixed", mixed, []c20Pair{
		{"runtime.root", c20Prefix + ".Root"},
		{"runtime.sysReserve", c20Prefix + "/goruntime.sysReserve"},
		{"runtime.sysMap", c20Prefix + "/goruntime.sysMap"},
		{"runtime.sysMapAlias", c20Prefix + "/goruntime.sysMap"},
		{"runtime.sysMapSpaced", c20Prefix + "/goruntime.sysMap"},
		{"runtime.method", c20Prefix + "/goruntime.Method"},
		{"runtime.sameTwice", c20Prefix + "/goruntime.twice"},
		{"runtime.sameTwice", c20Prefix + "/goruntime.twice"},
		{"runtime.deep", c20Prefix + "/a/b/c/d/e.Deep"},
		{"runtime.deeper1", c20Prefix + "/a/b/c/d/e.Deeper1"},
		{"runtime.deeper2", c20Prefix + "/a/b/c/d/e.Deeper2"},
		// The directive is recognised by prefix, as today.
		{"runtime.glued", c20Prefix + "/near.glued"},
		{"runtime.oddDir", c20Prefix + "/odd.go.Inner"},
	})

	// 2. Nothing to find.
	c20Check(t, "empty", map[string]string{}, nil)
	c20Check(t, "none", map[string]string{
		"a/a.go":      "package a\n\n// A is a function.\nfunc A() {}\n",
		"a/a_test.go": "package a\n\n//go:redirect-from runtime.t\nfunc T() {}\n",
		"b/b.go":      "package b\n\n//go:redirect-from runtime.v\nvar V int\n",
	}, nil)

	// 3. Line endings. The Go scanner removes carriage returns from
	// comment text, so these are all annotations too.
	c20Check(t, "carriage returns", map[string]string{
		"crlf/crlf.go":   "package crlf\r\n\r\n// Doc.\r\n//go:redirect-from runtime.crlf\r\nfunc CRLF() {}\r\n",
		"crlf/inside.go": "package crlf\n\n//go:redi\rrect-from runtime.split\nfunc Split() {}\n",
		"crlf/none.go":   "package crlf\r\n\r\nfunc None() {}\r\n",
		"crlf/unix.go":   "package crlf\n\n//go:redirect-from runtime.unix\nfunc Unix() {}\n",
	}, []c20Pair{
		{"runtime.crlf", c20Prefix + "/crlf.CRLF"},
		{"runtime.split", c20Prefix + "/crlf.Split"},
		{"runtime.unix", c20Prefix + "/crlf.Unix"},
	})

	// 4. Many files, few annotations, in a generated tree.
	big := make(map[string]string)
	var want []c20Pair
	for i := 0; i < 60; i++ {
		dir := fmt.Sprintf("gen/p%02d", i%7)
		for depth := 0; depth < i%4; depth++ {
			dir += fmt.Sprintf("/s%d", depth)
		}

		pkg := filepath.Base(dir)
		name := fmt.Sprintf("%s/f%02d.go", dir, i)
		var b strings.Builder
		fmt.Fprintf(&b, "package %s\n\n", pkg)
		for j := 0; j < i%3; j++ {
			fmt.Fprintf(&b, "// Plain%02d_%d does nothing.\nfunc Plain%02d_%d() {}\n\n", i, j, i, j)
		}

		if i%5 == 0 {
			for j := 0; j <= i%2; j++ {
				fmt.Fprintf(&b, "// Hook%02d_%d replaces a runtime function.\n//\n//go:nosplit\n", i, j)
				for k := 0; k <= j; k++ {
					src := fmt.Sprintf("runtime.gen%02d_%d_%d", i, j, k)
					fmt.Fprintf(&b, "//go:redirect-from %s\n", src)
					want = append(want, c20Pair{src, fmt.Sprintf("%s/%s.Hook%02d_%d", c20Prefix, dir, i, j)})
				}

				fmt.Fprintf(&b, "func Hook%02d_%d() {}\n\n", i, j)
			}
		}

		big[name] = b.String()
		if i%6 == 0 {
			big[fmt.Sprintf("%s/f%02d_test.go", dir, i)] = fmt.Sprintf("package %s\n\n//go:redirect-from runtime.test%02d\nfunc TestHook%02d() {}\n", pkg, i, i)
		}
	}

	c20Check(t, "generated", big, want)
}

// c20Image builds a minimal little-endian ELF64 file with a zero-filled
// .goredirectstbl section of the given size and the given symbols. It
// returns the image and the file offset of the table.
func c20Image(tableSize int, symbols []c20Symbol) (image []byte, tableOffset int) {
	const (
		ehdrSize = 64
		shdrSize = 64
		symSize  = 24
	)

	shstrtab := []byte("\x00.goredirectstbl\x00.symtab\x00.strtab\x00.shstrtab\x00")
	nameOf := func(s string) uint32 { return uint32(bytes.Index(shstrtab, []byte(s+"\x00"))) }

	strtab := []byte{0}
	symtab := make([]byte, symSize) // The null symbol.
	for _, sym := range symbols {
		var ent [symSize]byte
		binary.LittleEndian.PutUint32(ent[0:], uint32(len(strtab)))
		ent[4] = 0x02 // STB_LOCAL, STT_FUNC.
		binary.LittleEndian.PutUint16(ent[6:], 1)
		binary.LittleEndian.PutUint64(ent[8:], sym.addr)
		strtab = append(strtab, sym.name...)
		strtab = append(strtab, 0)
		symtab = append(symtab, ent[:]...)
	}

	var body bytes.Buffer
	body.Write(make([]byte, ehdrSize))
	body.WriteString("some bytes before the table that must survive")
	for body.Len()%16 != 0 {
		body.WriteByte(0xaa)
	}

	tableOffset = body.Len()
	body.Write(make([]byte, tableSize))
	body.WriteString("bytes after the table that must survive too")
	for body.Len()%8 != 0 {
		body.WriteByte(0xbb)
	}

	symtabOffset := body.Len()
	body.Write(symtab)
	strtabOffset := body.Len()
	body.Write(strtab)
	shstrtabOffset := body.Len()
	body.Write(shstrtab)
	for body.Len()%8 != 0 {
		body.WriteByte(0)
	}

	shoff := body.Len()

	shdr := func(name, typ uint32, flags, addr, off, size uint64, link, info uint32, align, entsize uint64) {
		var h [shdrSize]byte
		binary.LittleEndian.PutUint32(h[0:], name)
		binary.LittleEndian.PutUint32(h[4:], typ)
		binary.LittleEndian.PutUint64(h[8:], flags)
		binary.LittleEndian.PutUint64(h[16:], addr)
		binary.LittleEndian.PutUint64(h[24:], off)
		binary.LittleEndian.PutUint64(h[32:], size)
		binary.LittleEndian.PutUint32(h[40:], link)
		binary.LittleEndian.PutUint32(h[44:], info)
		binary.LittleEndian.PutUint64(h[48:], align)
		binary.LittleEndian.PutUint64(h[56:], entsize)
		body.Write(h[:])
	}

	shdr(0, 0, 0, 0, 0, 0, 0, 0, 0, 0)
	shdr(nameOf(".goredirectstbl"), 1 /* PROGBITS */, 2 /* ALLOC */, 0xffff800000100000, uint64(tableOffset), uint64(tableSize), 0, 0, 16, 0)
	shdr(nameOf(".symtab"), 2 /* SYMTAB */, 0, 0, uint64(symtabOffset), uint64(len(symtab)), 3, uint32(len(symtab)/symSize), 8, symSize)
	shdr(nameOf(".strtab"), 3 /* STRTAB */, 0, 0, uint64(strtabOffset), uint64(len(strtab)), 0, 0, 1, 0)
	shdr(nameOf(".shstrtab"), 3 /* STRTAB */, 0, 0, uint64(shstrtabOffset), uint64(len(shstrtab)), 0, 0, 1, 0)

	image = body.Bytes()
	copy(image, "\x7fELF")
	image[4] = 2                                    // ELFCLASS64.
	image[5] = 1                                    // ELFDATA2LSB.
	image[6] = 1                                    // EV_CURRENT.
	binary.LittleEndian.PutUint16(image[16:], 2)    // ET_EXEC.
	binary.LittleEndian.PutUint16(image[18:], 0x3e) // EM_X86_64.
	binary.LittleEndian.PutUint32(image[20:], 1)
	binary.LittleEndian.PutUint64(image[40:], uint64(shoff))
	binary.LittleEndian.PutUint16(image[52:], ehdrSize)
	binary.LittleEndian.PutUint16(image[58:], shdrSize)
	binary.LittleEndian.PutUint16(image[60:], 5)
	binary.LittleEndian.PutUint16(image[62:], 4)

	return image, tableOffset
}

type c20Symbol struct {
	name string
	addr uint64
}

// TestC20DemoImage checks that the table found in the source tree is the
// table that ends up in the kernel image, in the same order, and that two
// builds produce the same image.
func TestC20DemoImage(t *testing.T) {
	tree := map[string]string{
		"goruntime/bootstrap.go": `package goruntime

//go:redirect-from runtime.init
func runtimeInit() {}

//go:redirect-from runtime.sysReserve
//go:redirect-from runtime.sysReserveAligned
func sysReserve() {}

//go:redirect-from runtime.nanotime
func nanotime() uint64 { return 1 }
`,
		"kfmt/panic.go": `package kfmt

// Panic is the kernel's panic.
//
//go:redirect-from runtime.gopanic
//go:redirect-from runtime.throw
func Panic() {}
`,
		"kfmt/fmt.go":       "package kfmt\n\nfunc Printf() {}\n",
		"kfmt/fmt_test.go":  "package kfmt\n\n//go:redirect-from runtime.printf\nfunc TestPrintf() {}\n",
		"mem/pmm/alloc.go":  "package pmm\n\nfunc Alloc() {}\n",
		"mem/vmm/map.go":    "package vmm\n\n//go:redirect-from runtime.mmap\nvar Map = 1\n",
		"hal/tty/device.go": "package tty\n\ntype Device struct{}\n",
	}

	// Symbol addresses. Some unrelated symbols are mixed in.
	addr := map[string]uint64{
		"runtime.init":                       0xffff800000101000,
		"runtime.sysReserve":                 0xffff800000102010,
		"runtime.sysReserveAligned":          0xffff800000102fe0,
		"runtime.nanotime":                   0xffff800000103330,
		"runtime.gopanic":                    0xffff800000104440,
		"runtime.throw":                      0xffff800000105550,
		c20Prefix + "/goruntime.runtimeInit": 0xffff800000201000,
		c20Prefix + "/goruntime.sysReserve":  0xffff800000202000,
		c20Prefix + "/goruntime.nanotime":    0xffff800000203000,
		c20Prefix + "/kfmt.Panic":            0xffff800000204000,
	}

	symbols := []c20Symbol{
		{"runtime.printf", 0xffff800000109990},
		{"runtime.mmap", 0xffff80000010aaa0},
		{"_rt0_redirect_table", 0xffff800000100000},
		{c20Prefix + "/kfmt.Printf", 0xffff800000209000},
	}

	var names []string
	for name := range addr {
		names = append(names, name)
	}

	sort.Strings(names)
	for i, name := range names {
		// Interleave with the unrelated symbols.
		sym := c20Symbol{name, addr[name]}
		if i%2 == 0 {
			symbols = append(symbols, sym)
		} else {
			symbols = append([]c20Symbol{sym}, symbols...)
		}
	}

	root, err := ioutil.TempDir("", "c20demo")
	if err != nil {
		t.Fatal(err)
	}

	defer os.RemoveAll(root)

	for name, content := range tree {
		full := filepath.Join(root, "kernel", filepath.FromSlash(name))
		if err := os.MkdirAll(filepath.Dir(full), 0755); err != nil {
			t.Fatal(err)
		}

		if err := ioutil.WriteFile(full, []byte(content), 0644); err != nil {
			t.Fatal(err)
		}
	}

	cwd, err := os.Getwd()
	if err != nil {
		t.Fatal(err)
	}

	if err := os.Chdir(filepath.Join(root, "kernel")); err != nil {
		t.Fatal(err)
	}

	defer os.Chdir(cwd)

	build := func(n int) []byte {
		ctx := &Context{Architectures: []string{"amd64"}}
		ctx.FindRedirects()
		if len(ctx.Redirects) != 6 {
			t.Fatalf("build %d: found %d redirects, want 6", n, len(ctx.Redirects))
		}

		// The assembler reserves one entry per redirect.
		pristine, tableOffset := c20Image(16*len(ctx.Redirects), symbols)
		ctx.kernel = filepath.Join(root, fmt.Sprintf("kernel-%d.bin", n))
		if err := ioutil.WriteFile(ctx.kernel, pristine, 0755); err != nil {
			t.Fatal(err)
		}

		ctx.CompleteRedirects()

		image, err := ioutil.ReadFile(ctx.kernel)
		if err != nil {
			t.Fatal(err)
		}

		if len(image) != len(pristine) {
			t.Fatalf("build %d: image changed size from %d to %d", n, len(pristine), len(image))
		}

		tableEnd := tableOffset + 16*len(ctx.Redirects)
		if !bytes.Equal(image[:tableOffset], pristine[:tableOffset]) || !bytes.Equal(image[tableEnd:], pristine[tableEnd:]) {
			t.Errorf("build %d: bytes outside the redirects table were modified", n)
		}

		seen := make(map[string]int)
		for i, r := range ctx.Redirects {
			seen[r.SrcSymbol+" -> "+r.DstSymbol]++
			if r.SrcVirtAddr != addr[r.SrcSymbol] || r.SrcVirtAddr == 0 {
				t.Errorf("build %d: entry %d: src %s resolved to %#x, want %#x", n, i, r.SrcSymbol, r.SrcVirtAddr, addr[r.SrcSymbol])
			}

			if r.DstVirtAddr != addr[r.DstSymbol] || r.DstVirtAddr == 0 {
				t.Errorf("build %d: entry %d: dst %s resolved to %#x, want %#x", n, i, r.DstSymbol, r.DstVirtAddr, addr[r.DstSymbol])
			}

			entry := image[tableOffset+16*i:]
			if got := binary.LittleEndian.Uint64(entry[0:]); got != r.SrcVirtAddr {
				t.Errorf("build %d: image entry %d has src %#x, want %#x", n, i, got, r.SrcVirtAddr)
			}

			if got := binary.LittleEndian.Uint64(entry[8:]); got != r.DstVirtAddr {
				t.Errorf("build %d: image entry %d has dst %#x, want %#x", n, i, got, r.DstVirtAddr)
			}
		}

		for _, want := range []string{
			"runtime.init -> " + c20Prefix + "/goruntime.runtimeInit",
			"runtime.sysReserve -> " + c20Prefix + "/goruntime.sysReserve",
			"runtime.sysReserveAligned -> " + c20Prefix + "/goruntime.sysReserve",
			"runtime.nanotime -> " + c20Prefix + "/goruntime.nanotime",
			"runtime.gopanic -> " + c20Prefix + "/kfmt.Panic",
			"runtime.throw -> " + c20Prefix + "/kfmt.Panic",
		} {
			if seen[want] != 1 {
				t.Errorf("build %d: %q appears %d times in the table, want once", n, want, seen[want])
			}
		}

		return image
	}

	first := build(1)
	second := build(2)
	if !bytes.Equal(first, second) {
		t.Errorf("two builds of the same tree produced different kernel images")
	}
}
