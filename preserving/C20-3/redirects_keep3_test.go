package main

// Demonstration for property C20: the redirect table holds exactly one
// entry per //go:redirect-from annotation on a function declaration,
// nothing else, and is reproducible.
//
// Copy to kbuild/redirects_keep3_test.go and run
//
//	cd kbuild && go test -vet=off -count=1 -run 'TestKeep3' .
//
// The test only relies on what the property states: the multiset of
// (source, destination) pairs, and that two builds of the same tree
// give the same sequence. It does not assume any particular order of
// the table, any particular Comment text, or how the image is written.

import (
	"bytes"
	"encoding/binary"
	"fmt"
	"io/ioutil"
	"os"
	"path/filepath"
	"sort"
	"strings"
	"testing"
)

const keep3Prefix = "github.com/ProjectSerenity/firefly/kernel"

type keep3Pair struct{ Src, Dst string }

func keep3Tree(t *testing.T, files map[string]string) string {
	t.Helper()
	root, err := ioutil.TempDir("", "keep3-c20")
	if err != nil {
		t.Fatal(err)
	}

	for name, body := range files {
		full := filepath.Join(root, filepath.FromSlash(name))
		if err := os.MkdirAll(filepath.Dir(full), 0755); err != nil {
			t.Fatal(err)
		}

		if err := ioutil.WriteFile(full, []byte(body), 0644); err != nil {
			t.Fatal(err)
		}
	}

	return root
}

// keep3Find runs FindRedirects on a fresh Context inside root
// and returns the table as (src, dst) pairs in table order.
func keep3Find(t *testing.T, root string) []keep3Pair {
	t.Helper()
	old, err := os.Getwd()
	if err != nil {
		t.Fatal(err)
	}

	if err := os.Chdir(root); err != nil {
		t.Fatal(err)
	}

	defer os.Chdir(old)

	ctx := &Context{Architectures: []string{"amd64"}}
	ctx.FindRedirects()
	out := make([]keep3Pair, len(ctx.Redirects))
	for i, r := range ctx.Redirects {
		if r == nil {
			t.Fatalf("entry %d is nil", i)
		}

		out[i] = keep3Pair{r.SrcSymbol, r.DstSymbol}
	}

	return out
}

func keep3Sorted(in []keep3Pair) []string {
	out := make([]string, len(in))
	for i, p := range in {
		out[i] = p.Src + " -> " + p.Dst
	}

	sort.Strings(out)
	return out
}

func TestKeep3FindRedirects(t *testing.T) {
	deep := "a/b/c/d/e/f/g/h"
	tests := []struct {
		Name  string
		Files map[string]string
		Want  []keep3Pair
	}{
		{
			Name: "empty tree",
			Files: map[string]string{
				"README.md": "//go:redirect-from runtime.nope\n",
			},
		},
		{
			Name: "no annotations",
			Files: map[string]string{
				"x/x.go": "package x\n\n// F does things.\nfunc F() {}\n",
			},
		},
		{
			Name: "root and nested, several per file",
			Files: map[string]string{
				"root.go":         "package kernel\n\n//go:redirect-from runtime.rootsym\nfunc Root() {}\n",
				"zz/z.go":         "package zz\n\n// A is documented.\n//\n//go:noinline\n//go:redirect-from runtime.zeta\nfunc A() {}\n\nvar between = 1\n\n//go:redirect-from runtime.alpha\n//go:nosplit\nfunc B() {}\n\n//go:redirect-from runtime.mid\nfunc c() {}\n",
				"aa/a.go":         "package aa\n\n//go:redirect-from runtime.omega\nfunc A() {}\n",
				deep + "/deep.go": "package h\n\n//go:redirect-from runtime.deep\nfunc Deep() {}\n",
			},
			Want: []keep3Pair{
				{"runtime.rootsym", keep3Prefix + ".Root"},
				{"runtime.zeta", keep3Prefix + "/zz.A"},
				{"runtime.alpha", keep3Prefix + "/zz.B"},
				{"runtime.mid", keep3Prefix + "/zz.c"},
				{"runtime.omega", keep3Prefix + "/aa.A"},
				{"runtime.deep", keep3Prefix + "/" + deep + ".Deep"},
			},
		},
		{
			Name: "several annotations on one function",
			Files: map[string]string{
				"kfmt/panic.go": "package kfmt\n\n// Panic outputs things.\n//go:redirect-from runtime.gopanic\n//go:redirect-from runtime.throw\n//go:redirect-from   runtime.fatal  \n//go:noinline\nfunc Panic(e interface{}) {}\n",
			},
			Want: []keep3Pair{
				{"runtime.gopanic", keep3Prefix + "/kfmt.Panic"},
				{"runtime.throw", keep3Prefix + "/kfmt.Panic"},
				{"runtime.fatal", keep3Prefix + "/kfmt.Panic"},
			},
		},
		{
			Name: "look-alikes are ignored",
			Files: map[string]string{
				"m/m.go":          "package m\n\n//go:redirect-from runtime.onvar\nvar V int\n\n//go:redirect-from runtime.ontype\ntype T struct{}\n\n//go:redirect-from runtime.onconst\nconst C = 1\n\n// Real is real.\n//go:redirect-from runtime.real\nfunc Real() {\n\t//go:redirect-from runtime.inbody\n\tx := 1\n\t_ = x\n}\n\n//go:redirect-from runtime.detached\n\nfunc Detached() {}\n\nfunc Plain() {} //go:redirect-from runtime.trailing\n\nvar s = \"//go:redirect-from runtime.instring\"\n\n//go:redirect-from runtime.atend\n",
				"m/m_test.go":     "package m\n\n//go:redirect-from runtime.intest\nfunc InTest() {}\n",
				"m/other_test.go": "package m\n\n//go:redirect-from runtime.intest2\nfunc InTest2() {}\n",
				"m/notes.txt":     "//go:redirect-from runtime.intxt\nfunc X() {}\n",
				"m/asm.s":         "; //go:redirect-from runtime.inasm\n",
			},
			Want: []keep3Pair{
				{"runtime.real", keep3Prefix + "/m.Real"},
			},
		},
		{
			Name: "same source or same pair twice is still one entry per annotation",
			Files: map[string]string{
				"p/p.go": "package p\n\n//go:redirect-from runtime.dup\nfunc A() {}\n\n//go:redirect-from runtime.dup\nfunc B() {}\n",
				"q/q.go": "package q\n\n//go:redirect-from runtime.twice\n//go:redirect-from runtime.twice\nfunc Q() {}\n",
			},
			Want: []keep3Pair{
				{"runtime.dup", keep3Prefix + "/p.A"},
				{"runtime.dup", keep3Prefix + "/p.B"},
				{"runtime.twice", keep3Prefix + "/q.Q"},
				{"runtime.twice", keep3Prefix + "/q.Q"},
			},
		},
	}

	for _, test := range tests {
		test := test
		t.Run(test.Name, func(t *testing.T) {
			root := keep3Tree(t, test.Files)
			defer os.RemoveAll(root)

			got := keep3Find(t, root)
			gotSet, wantSet := keep3Sorted(got), keep3Sorted(test.Want)
			if strings.Join(gotSet, "\n") != strings.Join(wantSet, "\n") {
				t.Fatalf("table contents:\nGot:\n  %s\nWant:\n  %s", strings.Join(gotSet, "\n  "), strings.Join(wantSet, "\n  "))
			}

			// Reproducible: the same tree yields the same sequence,
			// also from a second copy of the tree created in a
			// different order of file creation.
			for i := 0; i < 3; i++ {
				again := keep3Find(t, root)
				if fmt.Sprint(again) != fmt.Sprint(got) {
					t.Fatalf("run %d differs:\nGot:  %v\nWant: %v", i+2, again, got)
				}
			}

			copyRoot := keep3Tree(t, test.Files)
			defer os.RemoveAll(copyRoot)
			again := keep3Find(t, copyRoot)
			if fmt.Sprint(again) != fmt.Sprint(got) {
				t.Fatalf("copy of tree differs:\nGot:  %v\nWant: %v", again, got)
			}
		})
	}
}

// TestKeep3GeneratedTree builds a larger generated tree.
func TestKeep3GeneratedTree(t *testing.T) {
	files := make(map[string]string)
	var want []keep3Pair
	n := 0
	for d := 0; d < 6; d++ {
		dir := ""
		for k := 0; k <= d; k++ {
			dir = filepath.ToSlash(filepath.Join(dir, fmt.Sprintf("d%d", (d*7+k*3)%5)))
		}

		for f := 0; f < 3; f++ {
			var b bytes.Buffer
			fmt.Fprintf(&b, "package p%d\n\n", d)
			for fn := 0; fn < 4; fn++ {
				fmt.Fprintf(&b, "// Fn%d is function %d.\n", fn, fn)
				if (d+f+fn)%2 == 0 {
					b.WriteString("//go:nosplit\n")
				}

				for a := 0; a < (d+f+fn)%3; a++ {
					// Symbol names chosen so that their sorted order,
					// their file order and their source order all differ.
					src := fmt.Sprintf("runtime.s%03d", (n*37)%101)
					n++
					fmt.Fprintf(&b, "//go:redirect-from %s\n", src)
					want = append(want, keep3Pair{src, fmt.Sprintf("%s/%s.Fn%d_%d", keep3Prefix, dir, fn, f)})
				}

				fmt.Fprintf(&b, "func Fn%d_%d() {\n\t//go:redirect-from runtime.body%d\n}\n\n", fn, f, fn)
				fmt.Fprintf(&b, "//go:redirect-from runtime.var%d\nvar v%d_%d int\n\n", fn, fn, f)
			}

			files[fmt.Sprintf("%s/f%d.go", dir, 2-f)] = b.String()
			files[fmt.Sprintf("%s/f%d_test.go", dir, 2-f)] = b.String()
		}
	}

	root := keep3Tree(t, files)
	defer os.RemoveAll(root)

	got := keep3Find(t, root)
	gotSet, wantSet := keep3Sorted(got), keep3Sorted(want)
	if strings.Join(gotSet, "\n") != strings.Join(wantSet, "\n") {
		t.Fatalf("table contents:\nGot:\n  %s\nWant:\n  %s", strings.Join(gotSet, "\n  "), strings.Join(wantSet, "\n  "))
	}

	if len(got) < 40 {
		t.Fatalf("generated tree too small: %d entries", len(got))
	}

	again := keep3Find(t, root)
	if fmt.Sprint(again) != fmt.Sprint(got) {
		t.Fatalf("second build differs")
	}
}

// keep3ELF builds a minimal ELF64 file with a .goredirectstbl
// section of tableSize zero bytes and the given symbols. It
// returns the file contents and the file offset of the table.
func keep3ELF(tableSize int, names []string, values []uint64) ([]byte, int) {
	le := binary.LittleEndian
	shstr := []byte("\x00.goredirectstbl\x00.symtab\x00.strtab\x00.shstrtab\x00")
	nameOff := func(s string) uint32 { return uint32(bytes.Index(shstr, []byte(s+"\x00"))) }

	strtab := []byte{0}
	symtab := make([]byte, 24) // Null symbol.
	for i, name := range names {
		sym := make([]byte, 24)
		le.PutUint32(sym[0:], uint32(len(strtab)))
		sym[4] = 0x12 // GLOBAL FUNC
		le.PutUint16(sym[6:], 1)
		le.PutUint64(sym[8:], values[i])
		symtab = append(symtab, sym...)
		strtab = append(strtab, name...)
		strtab = append(strtab, 0)
	}

	const guard = 32
	var body bytes.Buffer
	body.Write(bytes.Repeat([]byte{0xAA}, guard)) // Guard before the table.
	tableOff := 64 + body.Len()
	body.Write(make([]byte, tableSize))
	body.Write(bytes.Repeat([]byte{0xBB}, guard)) // Guard after the table.
	for body.Len()%8 != 0 {
		body.WriteByte(0xCC)
	}

	symOff := 64 + body.Len()
	body.Write(symtab)
	strOff := 64 + body.Len()
	body.Write(strtab)
	shstrOff := 64 + body.Len()
	body.Write(shstr)
	for body.Len()%8 != 0 {
		body.WriteByte(0)
	}

	shOff := 64 + body.Len()

	hdr := make([]byte, 64)
	copy(hdr, "\x7fELF")
	hdr[4], hdr[5], hdr[6] = 2, 1, 1      // 64-bit, little-endian, version 1.
	le.PutUint16(hdr[16:], 2)             // ET_EXEC
	le.PutUint16(hdr[18:], 62)            // EM_X86_64
	le.PutUint32(hdr[20:], 1)             // Version.
	le.PutUint64(hdr[40:], uint64(shOff)) // Section headers.
	le.PutUint16(hdr[52:], 64)            // ELF header size.
	le.PutUint16(hdr[58:], 64)            // Section header size.
	le.PutUint16(hdr[60:], 5)             // Number of section headers.
	le.PutUint16(hdr[62:], 4)             // Section names section.

	section := func(name string, typ uint32, flags uint64, off, size int, link, info uint32, entsize uint64) []byte {
		sh := make([]byte, 64)
		le.PutUint32(sh[0:], nameOff(name))
		le.PutUint32(sh[4:], typ)
		le.PutUint64(sh[8:], flags)
		le.PutUint64(sh[24:], uint64(off))
		le.PutUint64(sh[32:], uint64(size))
		le.PutUint32(sh[40:], link)
		le.PutUint32(sh[44:], info)
		le.PutUint64(sh[48:], 1)
		le.PutUint64(sh[56:], entsize)
		return sh
	}

	out := append(hdr, body.Bytes()...)
	out = append(out, make([]byte, 64)...) // Null section.
	out = append(out, section(".goredirectstbl", 1, 3, tableOff, tableSize, 0, 0, 0)...)
	out = append(out, section(".symtab", 2, 0, symOff, len(symtab), 3, 1, 24)...)
	out = append(out, section(".strtab", 3, 0, strOff, len(strtab), 0, 0, 0)...)
	out = append(out, section(".shstrtab", 3, 0, shstrOff, len(shstr), 0, 0, 0)...)
	return out, tableOff
}

// TestKeep3CompleteRedirects checks that whatever table FindRedirects
// produced is what ends up in the image: entry i of the image's table
// holds the addresses of entry i of ctx.Redirects, and the rest of the
// image is untouched.
func TestKeep3CompleteRedirects(t *testing.T) {
	files := map[string]string{
		"goruntime/bootstrap.go": "package goruntime\n\n//go:redirect-from runtime.sysReserve\nfunc sysReserve() {}\n\n//go:redirect-from runtime.init\nfunc runtimeInit() {}\n\n//go:redirect-from runtime.nanotime\n//go:nosplit\nfunc nanotime() uint64 { return 1 }\n",
		"kfmt/panic.go":          "package kfmt\n\n//go:redirect-from runtime.gopanic\nfunc Panic(e interface{}) {}\n\n//go:redirect-from runtime.throw\nfunc panicString(msg string) {}\n",
	}

	root := keep3Tree(t, files)
	defer os.RemoveAll(root)

	old, err := os.Getwd()
	if err != nil {
		t.Fatal(err)
	}

	if err := os.Chdir(root); err != nil {
		t.Fatal(err)
	}

	defer os.Chdir(old)

	ctx := &Context{Architectures: []string{"amd64"}}
	ctx.FindRedirects()
	if len(ctx.Redirects) != 5 {
		t.Fatalf("got %d redirects, want 5", len(ctx.Redirects))
	}

	// Give every symbol a distinct address, plus some
	// symbols that are not involved.
	addrs := make(map[string]uint64)
	names := []string{"runtime.unrelated", "main.main"}
	values := []uint64{0xffff800000100000, 0xffff800000100010}
	for i, r := range ctx.Redirects {
		for j, name := range []string{r.SrcSymbol, r.DstSymbol} {
			if _, ok := addrs[name]; ok {
				continue
			}

			addrs[name] = 0xffff800000200000 + uint64(i)*0x100 + uint64(j)*0x10
			names = append(names, name)
			values = append(values, addrs[name])
		}
	}

	image, tableOff := keep3ELF(16*len(ctx.Redirects), names, values)
	ctx.kernel = filepath.Join(root, "kernel.bin")
	if err := ioutil.WriteFile(ctx.kernel, image, 0644); err != nil {
		t.Fatal(err)
	}

	ctx.CompleteRedirects()

	got, err := ioutil.ReadFile(ctx.kernel)
	if err != nil {
		t.Fatal(err)
	}

	if len(got) != len(image) {
		t.Fatalf("image size changed from %d to %d", len(image), len(got))
	}

	want := append([]byte(nil), image...)
	for i, r := range ctx.Redirects {
		if r.SrcVirtAddr != addrs[r.SrcSymbol] || r.DstVirtAddr != addrs[r.DstSymbol] {
			t.Errorf("entry %d (%s -> %s): got addresses %#x -> %#x, want %#x -> %#x", i, r.SrcSymbol, r.DstSymbol,
				r.SrcVirtAddr, r.DstVirtAddr, addrs[r.SrcSymbol], addrs[r.DstSymbol])
		}

		binary.LittleEndian.PutUint64(want[tableOff+16*i:], addrs[r.SrcSymbol])
		binary.LittleEndian.PutUint64(want[tableOff+16*i+8:], addrs[r.DstSymbol])
	}

	if !bytes.Equal(got, want) {
		t.Fatalf("image differs from expectation:\nGot:  %x\nWant: %x", got[tableOff-8:tableOff+16*len(ctx.Redirects)+8], want[tableOff-8:tableOff+16*len(ctx.Redirects)+8])
	}
}
