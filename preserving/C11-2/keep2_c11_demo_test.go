package aml

// Demonstration for property C11 (well-formed AML is parsed into a namespace
// that matches the program). The test assembles AML tables by hand, runs them
// through ParseAML and checks the resulting namespace through the object tree
// API without assuming anything about pool indices, pointer identity, the
// nil-ness/capacity of value slices, private parser counters, diagnostics or
// the reader position after an error.
//
// Copy to kernel/device/acpi/aml/keep2_c11_demo_test.go and run:
//   cd kernel && go test -vet=off -count=1 -run TestKeep2C11Demo ./device/acpi/aml/

import (
	"bytes"
	"io/ioutil"
	"testing"
	"unsafe"

	"github.com/ProjectSerenity/firefly/kernel/device/acpi/table"
)

// ---------------------------------------------------------------------------
// A tiny AML assembler
// ---------------------------------------------------------------------------

func k2cat(parts ...[]byte) []byte {
	var out []byte
	for _, p := range parts {
		out = append(out, p...)
	}
	return out
}

// k2pkg prefixes body with a PkgLength encoded using exactly width bytes. As
// per the spec the encoded length includes the PkgLength bytes themselves.
func k2pkg(width int, body []byte) []byte {
	total := uint32(len(body) + width)
	switch width {
	case 1:
		if total > 0x3f {
			panic("k2pkg: body too long for a 1-byte PkgLength")
		}
		return k2cat([]byte{byte(total)}, body)
	case 2:
		return k2cat([]byte{1<<6 | byte(total&0xf), byte(total >> 4)}, body)
	case 3:
		return k2cat([]byte{2<<6 | byte(total&0xf), byte(total >> 4), byte(total >> 12)}, body)
	case 4:
		return k2cat([]byte{3<<6 | byte(total&0xf), byte(total >> 4), byte(total >> 12), byte(total >> 20)}, body)
	}
	panic("k2pkg: bad width")
}

// k2rawPkgLen encodes a bare PkgLength value (as used by field elements)
func k2rawPkgLen(width int, val uint32) []byte {
	switch width {
	case 1:
		return []byte{byte(val & 0x3f)}
	case 2:
		return []byte{1<<6 | byte(val&0xf), byte(val >> 4)}
	case 3:
		return []byte{2<<6 | byte(val&0xf), byte(val >> 4), byte(val >> 12)}
	default:
		return []byte{3<<6 | byte(val&0xf), byte(val >> 4), byte(val >> 12), byte(val >> 20)}
	}
}

// k2name encodes a NameString. prefix is a sequence of '\\' or '^' chars.
func k2name(prefix string, segs ...string) []byte {
	out := []byte(prefix)
	switch len(segs) {
	case 0:
		out = append(out, 0x00)
	case 1:
	case 2:
		out = append(out, 0x2e)
	default:
		out = append(out, 0x2f, byte(len(segs)))
	}
	for _, s := range segs {
		if len(s) != 4 {
			panic("k2name: bad segment " + s)
		}
		out = append(out, s...)
	}
	return out
}

func k2byte(v uint8) []byte   { return []byte{0x0a, v} }
func k2word(v uint16) []byte  { return []byte{0x0b, byte(v), byte(v >> 8)} }
func k2dword(v uint32) []byte { return []byte{0x0c, byte(v), byte(v >> 8), byte(v >> 16), byte(v >> 24)} }
func k2qword(v uint64) []byte {
	out := []byte{0x0e}
	for i := uint(0); i < 8; i++ {
		out = append(out, byte(v>>(8*i)))
	}
	return out
}
func k2string(s string) []byte { return k2cat([]byte{0x0d}, []byte(s), []byte{0x00}) }

func k2scope(w int, name []byte, body ...[]byte) []byte {
	return k2cat([]byte{0x10}, k2pkg(w, k2cat(name, k2cat(body...))))
}
func k2device(w int, name []byte, body ...[]byte) []byte {
	return k2cat([]byte{0x5b, 0x82}, k2pkg(w, k2cat(name, k2cat(body...))))
}
func k2thermal(w int, name []byte, body ...[]byte) []byte {
	return k2cat([]byte{0x5b, 0x85}, k2pkg(w, k2cat(name, k2cat(body...))))
}
func k2processor(w int, name []byte, id uint8, pblk uint32, pblkLen uint8, body ...[]byte) []byte {
	return k2cat([]byte{0x5b, 0x83}, k2pkg(w, k2cat(name, []byte{id, byte(pblk), byte(pblk >> 8), byte(pblk >> 16), byte(pblk >> 24), pblkLen}, k2cat(body...))))
}
func k2powerRes(w int, name []byte, level uint8, order uint16, body ...[]byte) []byte {
	return k2cat([]byte{0x5b, 0x84}, k2pkg(w, k2cat(name, []byte{level, byte(order), byte(order >> 8)}, k2cat(body...))))
}
func k2method(w int, name []byte, flags uint8, body ...[]byte) []byte {
	return k2cat([]byte{0x14}, k2pkg(w, k2cat(name, []byte{flags}, k2cat(body...))))
}
func k2nameDef(name []byte, val []byte) []byte { return k2cat([]byte{0x08}, name, val) }
func k2buffer(w int, size []byte, data []byte) []byte {
	return k2cat([]byte{0x11}, k2pkg(w, k2cat(size, data)))
}
func k2opRegion(name []byte, space uint8, off, length []byte) []byte {
	return k2cat([]byte{0x5b, 0x80}, name, []byte{space}, off, length)
}
func k2field(w int, region []byte, flags uint8, elements ...[]byte) []byte {
	return k2cat([]byte{0x5b, 0x81}, k2pkg(w, k2cat(region, []byte{flags}, k2cat(elements...))))
}
func k2fieldUnit(name string, lenWidth int, bits uint32) []byte {
	return k2cat([]byte(name), k2rawPkgLen(lenWidth, bits))
}
func k2fieldReserved(lenWidth int, bits uint32) []byte {
	return k2cat([]byte{0x00}, k2rawPkgLen(lenWidth, bits))
}
func k2mutex(name []byte, sync uint8) []byte { return k2cat([]byte{0x5b, 0x01}, name, []byte{sync}) }
func k2event(name []byte) []byte             { return k2cat([]byte{0x5b, 0x02}, name) }
func k2return(arg []byte) []byte             { return k2cat([]byte{0xa4}, arg) }
func k2store(src, dst []byte) []byte         { return k2cat([]byte{0x70}, src, dst) }
func k2add(a, b []byte) []byte               { return k2cat([]byte{0x72}, a, b, []byte{0x00}) }
func k2call(name []byte, args ...[]byte) []byte {
	return k2cat(name, k2cat(args...))
}
func k2while(w int, pred []byte, body ...[]byte) []byte {
	return k2cat([]byte{0xa2}, k2pkg(w, k2cat(pred, k2cat(body...))))
}

var (
	k2local0 = []byte{0x60}
	k2arg0   = []byte{0x68}
	k2arg1   = []byte{0x69}
	k2zero   = []byte{0x00}
	k2one    = []byte{0x01}
)

func k2table(payload []byte) *table.SDTHeader {
	headerLen := unsafe.Sizeof(table.SDTHeader{})
	stream := make([]byte, int(headerLen)+len(payload))
	copy(stream[headerLen:], payload)

	header := (*table.SDTHeader)(unsafe.Pointer(&stream[0]))
	header.Signature = [4]byte{'D', 'S', 'D', 'T'}
	header.Length = uint32(len(stream))
	header.Revision = 2
	return header
}

// ---------------------------------------------------------------------------
// Representation-independent checks
// ---------------------------------------------------------------------------

type k2checker struct {
	t    *testing.T
	tree *ObjectTree
}

// child returns the object called seg that lives in the scope opened by obj
// (obj itself if it is a plain scope or else the scope block that holds the
// TermList of a device, method, processor...).
func (c *k2checker) child(obj *Object, seg string) *Object {
	scope := obj
	if scope.opcode != pOpIntScopeBlock {
		scope = nil
		for idx := obj.firstArgIndex; idx != InvalidIndex; idx = c.tree.ObjectAt(idx).nextSiblingIndex {
			if arg := c.tree.ObjectAt(idx); arg.opcode == pOpIntScopeBlock {
				scope = arg
				break
			}
		}
		if scope == nil {
			return nil
		}
	}

	for idx := scope.firstArgIndex; idx != InvalidIndex; idx = c.tree.ObjectAt(idx).nextSiblingIndex {
		arg := c.tree.ObjectAt(idx)
		if pOpcodeTable[arg.infoIndex].flags&pOpFlagNamed == 0 && arg.opcode != pOpIntNamedField {
			continue
		}
		if string(arg.name[:]) == seg {
			return arg
		}
	}
	return nil
}

func (c *k2checker) walk(segs ...string) *Object {
	cur := c.tree.ObjectAt(0)
	for _, seg := range segs {
		if cur = c.child(cur, seg); cur == nil {
			return nil
		}
	}
	return cur
}

// lookup resolves an absolute path given as a list of segments
func (c *k2checker) lookup(segs ...string) *Object {
	obj := c.walk(segs...)
	if obj == nil {
		c.t.Errorf("path %v not found in the namespace", segs)
	}
	return obj
}

func (c *k2checker) absent(segs ...string) {
	if c.walk(segs...) != nil {
		c.t.Errorf("path %v unexpectedly present in the namespace", segs)
	}
}

func (c *k2checker) kind(opcode uint16, segs ...string) *Object {
	obj := c.lookup(segs...)
	if obj == nil {
		return nil
	}
	if obj.opcode != opcode {
		c.t.Errorf("path %v: expected kind %s; got %s", segs, pOpcodeName(opcode), pOpcodeName(obj.opcode))
		return nil
	}
	if got, want := string(obj.name[:]), segs[len(segs)-1]; got != want {
		c.t.Errorf("path %v: expected object name %q; got %q", segs, want, got)
	}
	return obj
}

// argNum checks that obj's arg at index argIndex is a numeric constant with the given value
func (c *k2checker) argNum(obj *Object, argIndex uint32, want uint64, what string) {
	if obj == nil {
		return
	}
	arg := c.tree.ArgAt(obj, argIndex)
	if arg == nil {
		c.t.Errorf("%s: missing arg %d", what, argIndex)
		return
	}

	var got uint64
	switch arg.opcode {
	case pOpZero:
		got = 0
	case pOpOne:
		got = 1
	default:
		v, ok := arg.value.(uint64)
		if !ok {
			c.t.Errorf("%s: arg %d (%s) does not hold a numeric value", what, argIndex, pOpcodeName(arg.opcode))
			return
		}
		got = v
	}
	if got != want {
		c.t.Errorf("%s: expected arg %d to be 0x%x; got 0x%x", what, argIndex, want, got)
	}
}

func (c *k2checker) argBytes(obj *Object, argIndex uint32, opcode uint16, want []byte, what string) {
	if obj == nil {
		return
	}
	arg := c.tree.ArgAt(obj, argIndex)
	if arg == nil {
		c.t.Errorf("%s: missing arg %d", what, argIndex)
		return
	}
	if arg.opcode != opcode {
		c.t.Errorf("%s: expected arg %d to be a %s; got %s", what, argIndex, pOpcodeName(opcode), pOpcodeName(arg.opcode))
		return
	}
	got, ok := arg.value.([]byte)
	if !ok || !bytes.Equal(got, want) {
		c.t.Errorf("%s: expected arg %d to hold %q; got %q", what, argIndex, want, got)
	}
}

func (c *k2checker) fieldUnit(offset, width uint32, segs ...string) {
	obj := c.kind(pOpIntNamedField, segs...)
	if obj == nil {
		return
	}
	fe, ok := obj.value.(*fieldElement)
	if !ok {
		c.t.Errorf("field unit %v: no field element info", segs)
		return
	}
	if fe.offset != offset || fe.width != width {
		c.t.Errorf("field unit %v: expected offset/width %d/%d; got %d/%d", segs, offset, width, fe.offset, fe.width)
	}
}

// calls collects (in document order) the method invocations found inside obj
func (c *k2checker) calls(obj *Object, out []*Object) []*Object {
	for idx := obj.firstArgIndex; idx != InvalidIndex; idx = c.tree.ObjectAt(idx).nextSiblingIndex {
		arg := c.tree.ObjectAt(idx)
		if arg.opcode == pOpIntMethodCall {
			out = append(out, arg)
		}
		out = c.calls(arg, out)
	}
	return out
}

// noUnresolved makes sure that no ambiguous name/call objects survive parsing
func (c *k2checker) noUnresolved(obj *Object) {
	for idx := obj.firstArgIndex; idx != InvalidIndex; idx = c.tree.ObjectAt(idx).nextSiblingIndex {
		arg := c.tree.ObjectAt(idx)
		if arg.opcode == pOpIntNamePathOrMethodCall {
			c.t.Errorf("unresolved name/method call object left under %q", obj.name[:])
		}
		c.noUnresolved(arg)
	}
}

type k2expCall struct {
	target  []string
	numArgs uint32
}

func (c *k2checker) methodCalls(method *Object, exp ...k2expCall) {
	if method == nil {
		return
	}
	got := c.calls(method, nil)
	if len(got) != len(exp) {
		c.t.Errorf("method %q: expected %d invocations; got %d", method.name[:], len(exp), len(got))
		return
	}
	for i, call := range got {
		want := c.lookup(exp[i].target...)
		if want == nil {
			continue
		}
		targetIdx, ok := call.value.(uint32)
		if !ok || c.tree.ObjectAt(targetIdx) != want {
			c.t.Errorf("method %q: invocation %d does not point at %v", method.name[:], i, exp[i].target)
		}
		if n := c.tree.NumArgs(call); n != exp[i].numArgs {
			c.t.Errorf("method %q: invocation %d of %v: expected %d args; got %d", method.name[:], i, exp[i].target, exp[i].numArgs, n)
		}
	}
}

func (c *k2checker) method(numArgs uint64, segs ...string) *Object {
	obj := c.kind(pOpMethod, segs...)
	if obj == nil {
		return nil
	}
	flags := c.tree.ArgAt(obj, 1)
	if flags == nil {
		c.t.Errorf("method %v: no flags", segs)
		return nil
	}
	if v, ok := flags.value.(uint64); !ok || v&0x7 != numArgs {
		c.t.Errorf("method %v: expected %d declared args; flags are %v", segs, numArgs, flags.value)
	}
	return obj
}

// ---------------------------------------------------------------------------
// The tests
// ---------------------------------------------------------------------------

func TestKeep2C11Demo(t *testing.T) {
	t.Run("namespace", k2testNamespace)
	t.Run("pkg length encodings", k2testPkgLenEncodings)
	t.Run("helpers", k2testHelpers)
	t.Run("truncated tables are rejected", k2testTruncated)
}

func k2dsdt() []byte {
	return k2cat(
		k2scope(4, k2name("\\", "_SB_"),
			k2device(2, k2name("", "PCI0"),
				k2nameDef(k2name("", "_HID"), k2dword(0x0a0b0c0d)),
				k2nameDef(k2name("", "_ADR"), k2word(0x1234)),
				k2nameDef(k2name("", "BYT0"), k2byte(0x7f)),
				k2nameDef(k2name("", "QWD0"), k2qword(0x1122334455667788)),
				k2nameDef(k2name("", "STR0"), k2string("hello")),
				k2nameDef(k2name("", "STR1"), k2string("")),
				k2nameDef(k2name("", "BUF0"), k2buffer(1, k2byte(4), []byte{1, 2, 3, 4})),
				k2nameDef(k2name("", "BUF1"), k2buffer(2, k2word(0x10), []byte{0xde, 0xad})),
				k2nameDef(k2name("", "BUF2"), k2buffer(1, k2byte(8), nil)),
				k2opRegion(k2name("", "REG0"), 0x00, k2dword(0xfed00000), k2word(0x1000)),
				k2field(2, k2name("", "REG0"), 0x01,
					k2fieldUnit("FLD0", 1, 8),
					k2fieldReserved(1, 4),
					k2fieldUnit("FLD1", 1, 12),
					k2fieldReserved(2, 0x800),
					k2fieldUnit("FLD2", 2, 0x123),
					k2fieldUnit("FLD3", 3, 0x12345),
				),
				k2mutex(k2name("", "MTX0"), 3),
				k2event(k2name("", "EVT0")),
				// MTH0 calls MTH1 which is declared later on
				k2method(1, k2name("", "MTH0"), 2,
					k2return(k2add(k2arg0, k2call(k2name("", "MTH1"), k2arg1))),
				),
				k2method(1, k2name("", "MTH1"), 1,
					k2return(k2arg0),
				),
				// nested calls, a call inside a deferred block and a call to a method declared later on
				k2method(2, k2name("", "MTH2"), 0,
					k2store(k2call(k2name("", "MTH0"), k2one, k2call(k2name("", "MTH1"), k2byte(2))), k2local0),
					k2while(1, k2local0,
						k2store(k2call(k2name("", "MTH1"), k2local0), k2local0),
					),
					k2store(k2call(k2name("", "MTH3"), k2zero, k2one, k2byte(3)), k2local0),
				),
				k2method(1, k2name("", "MTH3"), 3, k2return(k2arg1)),
				// A device declared with an absolute name ends up in \_SB
				k2device(1, k2name("\\", "_SB_", "PCI1"),
					k2nameDef(k2name("", "_ADR"), k2one),
				),
				// A relative multi-segment name; ISA0 is declared further down
				k2nameDef(k2name("", "ISA0", "REL0"), k2byte(7)),
			),
		),
		// Dual name path with root prefix
		k2scope(3, k2name("\\", "_SB_", "PCI0"),
			k2device(1, k2name("", "ISA0"),
				k2nameDef(k2name("", "_ADR"), k2byte(2)),
			),
		),
		// A scope that can only be resolved after PCI1 has been relocated
		k2scope(1, k2name("\\", "_SB_", "PCI1"),
			k2nameDef(k2name("", "CRS0"), k2zero),
			// multi-segment (MultiNamePath) name declared from within another scope
			k2nameDef(k2name("\\", "_SB_", "PCI0", "DEEP"), k2word(0xbeef)),
		),
		k2processor(1, k2name("\\", "_PR_", "CPU0"), 1, 0x410, 6),
		k2powerRes(1, k2name("", "PWR0"), 2, 0x0102,
			k2method(1, k2name("", "_STA"), 0, k2return(k2one)),
		),
		k2thermal(2, k2name("\\", "_TZ_", "THM0"),
			k2nameDef(k2name("", "_CRT"), k2word(3000)),
		),
	)
}

func k2ssdt() []byte {
	return k2cat(
		k2scope(4, k2name("\\", "_SB_", "PCI0"),
			k2device(3, k2name("", "KBD0"),
				k2nameDef(k2name("", "_HID"), k2string("PNP0303")),
				// Calls to methods defined by the previous table
				k2method(1, k2name("", "CALL"), 0,
					k2return(k2call(k2name("", "MTH0"), k2call(k2name("", "MTH1"), k2one), k2byte(9))),
				),
			),
		),
		k2device(1, k2name("\\", "_SB_", "PCI2"),
			k2nameDef(k2name("", "_ADR"), k2dword(0x00020000)),
		),
	)
}

func k2testNamespace(t *testing.T) {
	// Use one parser for both tables and a fresh parser per table
	for _, sharedParser := range []bool{true, false} {
		tree := NewObjectTree()
		tree.CreateDefaultScopes(42)

		var errBuf bytes.Buffer
		p := NewParser(&errBuf, tree)
		if err := p.ParseAML(0, "DSDT", k2table(k2dsdt())); err != nil {
			t.Fatalf("DSDT: %v\n%s", err, errBuf.String())
		}
		if !sharedParser {
			p = NewParser(&errBuf, tree)
		}
		if err := p.ParseAML(1, "SSDT", k2table(k2ssdt())); err != nil {
			t.Fatalf("SSDT: %v\n%s", err, errBuf.String())
		}

		c := &k2checker{t: t, tree: tree}
		c.noUnresolved(tree.ObjectAt(0))

		pci0 := c.kind(pOpDevice, "_SB_", "PCI0")
		if pci0 != nil && pci0.tableHandle != 0 {
			t.Errorf("PCI0: expected table handle 0; got %d", pci0.tableHandle)
		}
		c.argNum(c.kind(pOpName, "_SB_", "PCI0", "_HID"), 1, 0x0a0b0c0d, "_HID")
		c.argNum(c.kind(pOpName, "_SB_", "PCI0", "_ADR"), 1, 0x1234, "_ADR")
		c.argNum(c.kind(pOpName, "_SB_", "PCI0", "BYT0"), 1, 0x7f, "BYT0")
		c.argNum(c.kind(pOpName, "_SB_", "PCI0", "QWD0"), 1, 0x1122334455667788, "QWD0")
		c.argBytes(c.kind(pOpName, "_SB_", "PCI0", "STR0"), 1, pOpStringPrefix, []byte("hello"), "STR0")
		c.argBytes(c.kind(pOpName, "_SB_", "PCI0", "STR1"), 1, pOpStringPrefix, nil, "STR1")

		for _, spec := range []struct {
			name string
			size uint64
			data []byte
		}{
			{"BUF0", 4, []byte{1, 2, 3, 4}},
			{"BUF1", 0x10, []byte{0xde, 0xad}},
			{"BUF2", 8, nil},
		} {
			if nameObj := c.kind(pOpName, "_SB_", "PCI0", spec.name); nameObj != nil {
				buf := tree.ArgAt(nameObj, 1)
				if buf == nil || buf.opcode != pOpBuffer {
					t.Errorf("%s: expected a buffer value", spec.name)
					continue
				}
				c.argNum(buf, 0, spec.size, spec.name+" size")
				c.argBytes(buf, 1, pOpIntByteList, spec.data, spec.name+" contents")
			}
		}

		reg := c.kind(pOpOpRegion, "_SB_", "PCI0", "REG0")
		c.argNum(reg, 1, 0, "REG0 space")
		c.argNum(reg, 2, 0xfed00000, "REG0 offset")
		c.argNum(reg, 3, 0x1000, "REG0 length")
		if reg != nil && tree.NumArgs(reg) != 4 {
			t.Errorf("REG0: expected 4 args; got %d", tree.NumArgs(reg))
		}

		c.fieldUnit(0, 8, "_SB_", "PCI0", "FLD0")
		c.fieldUnit(12, 12, "_SB_", "PCI0", "FLD1")
		c.fieldUnit(24+0x800, 0x123, "_SB_", "PCI0", "FLD2")
		c.fieldUnit(24+0x800+0x123, 0x12345, "_SB_", "PCI0", "FLD3")

		c.argNum(c.kind(pOpMutex, "_SB_", "PCI0", "MTX0"), 1, 3, "MTX0")
		c.kind(pOpEvent, "_SB_", "PCI0", "EVT0")

		c.methodCalls(c.method(2, "_SB_", "PCI0", "MTH0"),
			k2expCall{[]string{"_SB_", "PCI0", "MTH1"}, 1},
		)
		c.methodCalls(c.method(1, "_SB_", "PCI0", "MTH1"))
		c.methodCalls(c.method(0, "_SB_", "PCI0", "MTH2"),
			k2expCall{[]string{"_SB_", "PCI0", "MTH0"}, 2},
			k2expCall{[]string{"_SB_", "PCI0", "MTH1"}, 1},
			k2expCall{[]string{"_SB_", "PCI0", "MTH1"}, 1},
			k2expCall{[]string{"_SB_", "PCI0", "MTH3"}, 3},
		)

		// Objects moved by scope directives / multi-segment names
		c.kind(pOpDevice, "_SB_", "PCI1")
		c.absent("_SB_", "PCI0", "PCI1")
		c.argNum(c.kind(pOpName, "_SB_", "PCI1", "_ADR"), 1, 1, "PCI1._ADR")
		c.argNum(c.kind(pOpName, "_SB_", "PCI1", "CRS0"), 1, 0, "PCI1.CRS0")
		c.methodCalls(c.method(3, "_SB_", "PCI0", "MTH3"))
		c.kind(pOpDevice, "_SB_", "PCI0", "ISA0")
		c.argNum(c.kind(pOpName, "_SB_", "PCI0", "ISA0", "_ADR"), 1, 2, "ISA0._ADR")
		c.argNum(c.kind(pOpName, "_SB_", "PCI0", "ISA0", "REL0"), 1, 7, "ISA0.REL0")
		c.absent("_SB_", "PCI0", "REL0")
		c.argNum(c.kind(pOpName, "_SB_", "PCI0", "DEEP"), 1, 0xbeef, "PCI0.DEEP")
		c.absent("_SB_", "PCI1", "DEEP")

		cpu := c.kind(pOpProcessor, "_PR_", "CPU0")
		c.argNum(cpu, 1, 1, "CPU0 id")
		c.argNum(cpu, 2, 0x410, "CPU0 pblk address")
		c.argNum(cpu, 3, 6, "CPU0 pblk length")
		c.absent("CPU0")

		pwr := c.kind(pOpPowerRes, "PWR0")
		c.argNum(pwr, 1, 2, "PWR0 system level")
		c.argNum(pwr, 2, 0x0102, "PWR0 resource order")
		c.methodCalls(c.method(0, "PWR0", "_STA"))

		c.kind(pOpThermalZone, "_TZ_", "THM0")
		c.argNum(c.kind(pOpName, "_TZ_", "THM0", "_CRT"), 1, 3000, "THM0._CRT")

		// Second table
		kbd := c.kind(pOpDevice, "_SB_", "PCI0", "KBD0")
		if kbd != nil && kbd.tableHandle != 1 {
			t.Errorf("KBD0: expected table handle 1; got %d", kbd.tableHandle)
		}
		c.argBytes(c.kind(pOpName, "_SB_", "PCI0", "KBD0", "_HID"), 1, pOpStringPrefix, []byte("PNP0303"), "KBD0._HID")
		c.methodCalls(c.method(0, "_SB_", "PCI0", "KBD0", "CALL"),
			k2expCall{[]string{"_SB_", "PCI0", "MTH0"}, 2},
			k2expCall{[]string{"_SB_", "PCI0", "MTH1"}, 1},
		)
		c.argNum(c.kind(pOpName, "_SB_", "PCI2", "_ADR"), 1, 0x00020000, "PCI2._ADR")
	}
}

// k2testPkgLenEncodings wraps the same device in scopes whose PkgLength uses
// each of the four encodings and makes sure the contents land at the same place.
func k2testPkgLenEncodings(t *testing.T) {
	for scopeWidth := 1; scopeWidth <= 4; scopeWidth++ {
		for devWidth := 1; devWidth <= 4; devWidth++ {
			for methodWidth := 1; methodWidth <= 4; methodWidth++ {
				payload := k2scope(scopeWidth, k2name("\\", "_SB_"),
					k2device(devWidth, k2name("", "DEV0"),
						k2method(methodWidth, k2name("", "MTHA"), 0,
							k2return(k2call(k2name("", "MTHB"), k2byte(2), k2one, k2call(k2name("", "MTHB"), k2zero, k2one, k2one))),
						),
						k2method(methodWidth, k2name("", "MTHB"), 3, k2return(k2arg0)),
						k2nameDef(k2name("", "VAL0"), k2dword(uint32(scopeWidth<<16|devWidth<<8|methodWidth))),
					),
				)

				tree := NewObjectTree()
				tree.CreateDefaultScopes(0)
				if err := NewParser(ioutil.Discard, tree).ParseAML(7, "DSDT", k2table(payload)); err != nil {
					t.Fatalf("[widths %d/%d/%d] %v", scopeWidth, devWidth, methodWidth, err)
				}

				c := &k2checker{t: t, tree: tree}
				c.noUnresolved(tree.ObjectAt(0))
				c.kind(pOpDevice, "_SB_", "DEV0")
				c.argNum(c.kind(pOpName, "_SB_", "DEV0", "VAL0"), 1, uint64(scopeWidth<<16|devWidth<<8|methodWidth), "VAL0")
				c.methodCalls(c.method(0, "_SB_", "DEV0", "MTHA"),
					k2expCall{[]string{"_SB_", "DEV0", "MTHB"}, 3},
					k2expCall{[]string{"_SB_", "DEV0", "MTHB"}, 3},
				)
				c.methodCalls(c.method(3, "_SB_", "DEV0", "MTHB"))
			}
		}
	}
}

// k2testHelpers feeds well-formed encodings to the low-level decoders.
func k2testHelpers(t *testing.T) {
	parserFor := func(payload []byte) *Parser {
		tree := NewObjectTree()
		tree.CreateDefaultScopes(0)
		p := NewParser(ioutil.Discard, tree)
		p.init(0, "DSDT", k2table(payload))
		return p
	}
	headerLen := uint32(unsafe.Sizeof(table.SDTHeader{}))

	// PkgLength; every width, a spread of values, followed by a trailing byte
	for width := 1; width <= 4; width++ {
		max := uint32(0x3f)
		if width > 1 {
			max = uint32(1)<<(uint(4+8*(width-1))) - 1
		}
		for _, val := range []uint32{0, 1, 0xf, 0x10, 0x3f, 0x40, 0xff, 0x123, 0xfff, 0x1000, 0xabcde, 0xfffff, 0x100000, 0xabcdef1, 0xfffffff} {
			if val > max {
				continue
			}
			p := parserFor(k2cat(k2rawPkgLen(width, val), []byte{0xaa}))
			got, res := p.parsePkgLength()
			if res != parseResultOk || got != val {
				t.Errorf("parsePkgLength(width %d, value 0x%x): got 0x%x (result %d)", width, val, got, res)
			}
			if off := p.r.Offset() - headerLen; off != uint32(width) {
				t.Errorf("parsePkgLength(width %d, value 0x%x): consumed %d bytes", width, val, off)
			}
		}
	}

	// Numeric constants
	raw := []byte{0x01, 0x23, 0x45, 0x67, 0x89, 0xab, 0xcd, 0xef, 0x55}
	for _, spec := range []struct {
		numBytes uint8
		exp      uint64
	}{
		{1, 0x01},
		{2, 0x2301},
		{4, 0x67452301},
		{8, 0xefcdab8967452301},
	} {
		p := parserFor(raw)
		got, res := p.parseNumConstant(spec.numBytes)
		if res != parseResultOk || got != spec.exp {
			t.Errorf("parseNumConstant(%d): expected 0x%x; got 0x%x (result %d)", spec.numBytes, spec.exp, got, res)
		}
		if off := p.r.Offset() - headerLen; off != uint32(spec.numBytes) {
			t.Errorf("parseNumConstant(%d): consumed %d bytes", spec.numBytes, off)
		}
	}

	// Strings
	for _, str := range []string{"", "a", "hello world", "\x01\x7f"} {
		p := parserFor(k2cat([]byte(str), []byte{0x00, 'Z'}))
		got, res := p.parseString()
		if res != parseResultOk || !bytes.Equal(got, []byte(str)) {
			t.Errorf("parseString(%q): got %q (result %d)", str, got, res)
		}
		if off := p.r.Offset() - headerLen; off != uint32(len(str)+1) {
			t.Errorf("parseString(%q): consumed %d bytes", str, off)
		}
	}

	// Name strings
	for _, name := range [][]byte{
		k2name("", "ABCD"),
		k2name("\\", "ABCD"),
		k2name("^^^", "_BCD"),
		k2name("", "ABCD", "EFGH"),
		k2name("\\", "ABCD", "EFGH"),
		k2name("^", "A___", "B___", "C___"),
		k2name("\\", "A___", "B___", "C___", "D___", "E___"),
	} {
		p := parserFor(k2cat(name, []byte{0x70}))
		got, res := p.parseNameString()
		if res != parseResultOk || !bytes.Equal(got, name) {
			t.Errorf("parseNameString(%q): got %q (result %d)", name, got, res)
		}
		if off := p.r.Offset() - headerLen; off != uint32(len(name)) {
			t.Errorf("parseNameString(%q): consumed %d bytes", name, off)
		}
	}

	// Byte lists consume everything up to the package end
	p := parserFor([]byte{9, 8, 7, 6, 5})
	_ = p.r.SetPkgEnd(headerLen + 3)
	obj := p.objTree.newObject(pOpIntByteList, 0)
	p.parseByteList(obj, 3)
	if got, ok := obj.value.([]byte); !ok || !bytes.Equal(got, []byte{9, 8, 7}) {
		t.Errorf("parseByteList: got %v", obj.value)
	}
	if !p.r.EOF() {
		t.Errorf("parseByteList: expected the reader to reach the package end")
	}
}

// Tables cut short in the middle of an encoding are not well-formed; all the
// property-agnostic caller can rely on is that an error is reported.
func k2testTruncated(t *testing.T) {
	full := k2dsdt()
	for _, cut := range []int{1, 2, 3, 5, 9, 17, 33} {
		tree := NewObjectTree()
		tree.CreateDefaultScopes(0)
		if err := NewParser(ioutil.Discard, tree).ParseAML(0, "DSDT", k2table(full[:cut])); err == nil {
			t.Errorf("expected an error for a table truncated after %d bytes", cut)
		}
	}
}
