package kfmt

// Demonstration for property C15 (kernel printf output is exact, bounded and
// allocation-free). Copy to kernel/kfmt/fmt_c15_demo_test.go and run
//
//	cd kernel && go test -vet=off -count=1 -run TestC15Demo ./kfmt/
//
// The test only looks at what the property talks about: the concatenation of
// the bytes handed to the sink, absence of panics and absence of heap
// allocations. It deliberately does NOT look at how many Write calls were
// used, how the output was split over them, or at the contents of the
// package's private scratch buffers.

import (
	"bytes"
	"errors"
	"math"
	"math/rand"
	"strconv"
	"strings"
	"testing"
)

// c15Sink collects everything written to it without caring how the data is
// split across Write calls.
type c15Sink struct {
	buf    []byte
	writes int
}

func (s *c15Sink) Write(p []byte) (int, error) {
	s.writes++
	s.buf = append(s.buf, p...)
	return len(p), nil
}

// c15CountSink discards the data; it never allocates.
type c15CountSink struct{ n int }

func (s *c15CountSink) Write(p []byte) (int, error) {
	s.n += len(p)
	return len(p), nil
}

// c15FailSink fails every write.
type c15FailSink struct{}

func (c15FailSink) Write(p []byte) (int, error) { return 0, errors.New("sink is broken") }

func c15Format(format string, args ...interface{}) string {
	var s c15Sink
	Fprintf(&s, format, args...)
	return string(s.buf)
}

func c15PadLeft(s string, ch byte, width int) string {
	if len(s) >= width {
		return s
	}
	return strings.Repeat(string(ch), width-len(s)) + s
}

// c15WantInt is an independent model of the integer clauses of the property.
func c15WantInt(mag uint64, neg bool, base, width int) string {
	if width > 31 {
		width = 31
	}
	digits := strconv.FormatUint(mag, base)
	if base == 10 {
		if neg {
			digits = "-" + digits
		}
		return c15PadLeft(digits, ' ', width)
	}
	digits = c15PadLeft(digits, '0', width)
	if neg {
		digits = "-" + digits
	}
	return digits
}

type c15IntCase struct {
	arg interface{}
	mag uint64
	neg bool
}

func c15Signed(arg interface{}, v int64) c15IntCase {
	if v < 0 {
		return c15IntCase{arg, uint64(^v) + 1, true}
	}
	return c15IntCase{arg, uint64(v), false}
}

func c15IntCases() []c15IntCase {
	var cases []c15IntCase
	for _, v := range []uint8{0, 1, 9, 10, 99, 100, math.MaxUint8} {
		cases = append(cases, c15IntCase{v, uint64(v), false})
	}
	for _, v := range []uint16{0, 1, 7, 8, 255, 256, 9999, 10000, math.MaxUint16} {
		cases = append(cases, c15IntCase{v, uint64(v), false})
	}
	for _, v := range []uint32{0, 1, 15, 16, 65535, 65536, 99999999, 100000000, math.MaxUint32} {
		cases = append(cases, c15IntCase{v, uint64(v), false})
	}
	for _, v := range []uint64{0, 1, 99, 100, 101, 1 << 32, 1<<63 - 1, 1 << 63, 9999999999999999999, 10000000000000000000, math.MaxUint64} {
		cases = append(cases, c15IntCase{v, v, false})
	}
	for _, v := range []uintptr{0, 1, 0xb8000, math.MaxUint32, math.MaxUint64} {
		cases = append(cases, c15IntCase{v, uint64(v), false})
	}
	for _, v := range []int8{0, 1, -1, 9, -9, 10, -10, 99, -99, 100, -100, math.MaxInt8, math.MinInt8} {
		cases = append(cases, c15Signed(v, int64(v)))
	}
	for _, v := range []int16{0, 1, -1, 255, -255, 256, -256, math.MaxInt16, math.MinInt16} {
		cases = append(cases, c15Signed(v, int64(v)))
	}
	for _, v := range []int32{0, 1, -1, 65535, -65536, 0xbadf00d, -0xbadf00d, math.MaxInt32, math.MinInt32} {
		cases = append(cases, c15Signed(v, int64(v)))
	}
	for _, v := range []int64{0, 1, -1, 12345678, -12345678, -123456789, -1234567890, math.MaxInt32 + 1, math.MinInt32 - 1, math.MaxInt64, math.MinInt64, math.MinInt64 + 1} {
		cases = append(cases, c15Signed(v, v))
	}
	for _, v := range []int{0, 1, -1, 100, -100, -0xbadf00d, math.MaxInt64, math.MinInt64} {
		cases = append(cases, c15Signed(v, int64(v)))
	}
	return cases
}

func TestC15Demo(t *testing.T) {
	savedSink := outputSink
	defer func() {
		// leave the early buffer empty and the default sink as we found it
		var drain bytes.Buffer
		SetOutputSink(&drain)
		outputSink = savedSink
	}()

	t.Run("literal-text-and-percent", func(t *testing.T) {
		for _, n := range []int{0, 1, 2, 31, 32, 33, 63, 64, 65, 127, 128, 129, 1000, 5000} {
			lit := strings.Repeat("kernel printf\tliteral\n\x00\xff", n/20+1)[:n]
			if got := c15Format(lit); got != lit {
				t.Errorf("literal of length %d: got %q", n, got)
			}
			if got, want := c15Format(lit+"%%"+lit+"%%%%"+lit), lit+"%"+lit+"%%"+lit; got != want {
				t.Errorf("literal of length %d with %%%%: got %q want %q", n, got, want)
			}
			if got, want := c15Format("%%"+lit+"%d"+lit+"%s", int32(-7), "x"), "%"+lit+"-7"+lit+"x"; got != want {
				t.Errorf("literal of length %d around verbs: got %q want %q", n, got, want)
			}
		}
	})

	t.Run("integers", func(t *testing.T) {
		widths := []int{-1, 0, 1, 2, 3, 4, 7, 8, 9, 10, 11, 16, 19, 20, 21, 22, 23, 24, 30, 31, 32, 33, 64, 65, 128, 4096, 1000000}
		verbs := []struct {
			ch   string
			base int
		}{{"o", 8}, {"d", 10}, {"x", 16}}
		for _, c := range c15IntCases() {
			for _, vb := range verbs {
				for _, width := range widths {
					format, wantWidth := "<%"+vb.ch+">", 0
					if width >= 0 {
						format, wantWidth = "<%"+strconv.Itoa(width)+vb.ch+">", width
					}
					want := "<" + c15WantInt(c.mag, c.neg, vb.base, wantWidth) + ">"
					if got := c15Format(format, c.arg); got != want {
						t.Errorf("Fprintf(%q, %T(%v)): got %q want %q", format, c.arg, c.arg, got, want)
					}
				}
			}
		}
		// the state left behind by one conversion must not leak into the next
		if got, want := c15Format("%31x|%d|%o|%5d|%2x", uint64(math.MaxUint64), int8(-1), uint8(0), int16(-42), uint8(0xab)),
			"000000000000000ffffffffffffffff|-1|0|  -42|ab"; got != want {
			t.Errorf("back to back conversions: got %q want %q", got, want)
		}
	})

	t.Run("strings-and-byte-slices", func(t *testing.T) {
		for _, n := range []int{0, 1, 2, 5, 63, 64, 65, 128, 129, 3000} {
			str := strings.Repeat("0123456789abcdef", n/16+1)[:n]
			for _, width := range []int{-1, 0, 1, 4, n - 1, n, n + 1, n + 63, n + 64, n + 65, n + 200, 1000000} {
				format, wantWidth := "[%s]", 0
				if width >= 0 {
					format, wantWidth = "[%"+strconv.Itoa(width)+"s]", width
				}
				want := "[" + c15PadLeft(str, ' ', wantWidth) + "]"
				if got := c15Format(format, str); got != want {
					t.Errorf("Fprintf(%q, string of len %d): wrong output (len %d, want len %d)", format, n, len(got), len(want))
				}
				if got := c15Format(format, []byte(str)); got != want {
					t.Errorf("Fprintf(%q, []byte of len %d): wrong output (len %d, want len %d)", format, n, len(got), len(want))
				}
			}
		}
	})

	t.Run("booleans", func(t *testing.T) {
		if got, want := c15Format("%t/%t", true, false), "true/false"; got != want {
			t.Errorf("got %q want %q", got, want)
		}
	})

	t.Run("argument-errors", func(t *testing.T) {
		specs := []struct {
			format string
			args   []interface{}
			want   string
		}{
			{"a %d b %s c %t d %x e %o", nil, "a (MISSING) b (MISSING) c (MISSING) d (MISSING) e (MISSING)"},
			{"%d %d", []interface{}{int(5)}, "5 (MISSING)"},
			{"no verbs", []interface{}{1, "two", true, nil}, "no verbs%!(EXTRA)%!(EXTRA)%!(EXTRA)%!(EXTRA)"},
			{"%s!", []interface{}{"s", uint8(1)}, "s!%!(EXTRA)"},
			{"%d|%x|%o", []interface{}{"str", true, []byte("b")}, "%!(WRONGTYPE)|%!(WRONGTYPE)|%!(WRONGTYPE)"},
			{"%12d|%12x", []interface{}{1.5, nil}, "%!(WRONGTYPE)|%!(WRONGTYPE)"},
			{"%s|%5s", []interface{}{42, false}, "%!(WRONGTYPE)|%!(WRONGTYPE)"},
			{"%t|%t", []interface{}{"true", 1}, "%!(WRONGTYPE)|%!(WRONGTYPE)"},
			{"%t %d", []interface{}{int8(1), true, "extra"}, "%!(WRONGTYPE) %!(WRONGTYPE)%!(EXTRA)"},
		}
		for _, spec := range specs {
			if got := c15Format(spec.format, spec.args...); got != spec.want {
				t.Errorf("Fprintf(%q, %v): got %q want %q", spec.format, spec.args, got, spec.want)
			}
		}
	})

	t.Run("default-sink-and-early-buffer", func(t *testing.T) {
		outputSink = nil
		var drain bytes.Buffer
		SetOutputSink(&drain) // empty whatever is in the early buffer
		outputSink = nil

		Printf("early %4d|%6s|%t|%%", int16(-3), "abc", true)
		Fprintf(nil, "|%3x", uint8(0xf))

		var buf bytes.Buffer
		SetOutputSink(&buf)
		Printf(" late %o", uint32(8))
		if got, want := buf.String(), "early   -3|   abc|true|%|00f late 10"; got != want {
			t.Errorf("got %q want %q", got, want)
		}
	})

	t.Run("never-panics", func(t *testing.T) {
		alphabet := []byte("%%%%dxost0123456789 aQz-+#.*\x00\xff\n")
		argPool := []interface{}{
			nil, true, false, "", "str", []byte(nil), []byte("bytes"), 1.5, 'x', struct{}{}, &c15Sink{},
			int8(math.MinInt8), int64(math.MinInt64), uint64(math.MaxUint64), uintptr(0), int(-1), uint16(7),
			[]int{1}, map[string]int(nil), errors.New("e"), complex(1, 2),
		}
		rng := rand.New(rand.NewSource(15))
		sinks := []interface {
			Write([]byte) (int, error)
		}{&c15CountSink{}, c15FailSink{}}
		for i := 0; i < 20000; i++ {
			f := make([]byte, rng.Intn(24))
			for j, run := 0, 0; j < len(f); j++ {
				f[j] = alphabet[rng.Intn(len(alphabet))]
				// keep string widths small enough for the test to finish
				if f[j] >= '0' && f[j] <= '9' {
					if run++; run > 5 {
						f[j] = 'a'
					}
				} else {
					run = 0
				}
			}
			args := make([]interface{}, rng.Intn(5))
			for j := range args {
				args[j] = argPool[rng.Intn(len(argPool))]
			}
			Fprintf(sinks[i%len(sinks)], string(f), args...)
		}
		// integer widths that overflow an int, dangling directives, unknown flags
		for _, f := range []string{
			"%", "%%%", "abc%", "%5", "%99999999999999999999999999999d", "%1000000s", "%9223372036854775807d", "%9223372036854775808x",
			"%18446744073709551615o", "%18446744073709551616s|%d", "%Q%d", "%-5d", "%05d", "%+d", "%.3s",
		} {
			for _, s := range sinks {
				Fprintf(s, f, int64(math.MinInt64), "s")
				Fprintf(s, f, "s", []byte("b"))
				Fprintf(s, f)
			}
		}
	})

	t.Run("no-heap-allocation", func(t *testing.T) {
		var (
			sink                           = &c15CountSink{}
			a0, a1, a2, a3, a4 interface{} = int64(math.MinInt64), uint64(math.MaxUint64), strings.Repeat("s", 300), []byte(strings.Repeat("b", 300)), true
			a5, a6, a7         interface{} = int32(-0xbadf00d), uintptr(0xb8000), 1.5
			longLit                        = strings.Repeat("literal text ", 40)
		)
		allocs := testing.AllocsPerRun(200, func() {
			Fprintf(sink, "plain text only")
			Fprintf(sink, longLit)
			Fprintf(sink, "%d %31d %x %128x %o %22o", a0, a0, a1, a1, a1, a0)
			Fprintf(sink, "%s|%400s|%s|%1000s|%5s", a2, a2, a3, a3, a3)
			Fprintf(sink, "%t %% %10d 0x%8x", a4, a5, a6)
			Fprintf(sink, "%d %s %t %d", a7, a7, a7)          // wrong types + missing
			Fprintf(sink, "nothing", a0, a1, a2, a3, a4)      // surplus
			Fprintf(sink, "%100000s|%100000d", a2, a5)        // wide
			Fprintf(nil, "to the early buffer %d %s", a5, a2) // nil writer
		})
		if allocs != 0 {
			t.Errorf("expected formatting not to allocate; got %v allocations per run", allocs)
		}
		if sink.n == 0 {
			t.Error("sink received no data")
		}
	})
}
