package aml

// Demonstration for property C12 (malformed AML is rejected with an error,
// never a crash, hang or stray pointer).
//
// Copy this file to kernel/device/acpi/aml/keep2_c12_demo_test.go and run:
//   cd kernel && go test -vet=off -count=1 -run TestKeep2C12 ./device/acpi/aml/
//
// The test only checks what the property states:
//  - ParseAML returns (no panic, no hang) with either nil or the parse error,
//  - every []byte value held by the object pool lies inside the table bytes,
//  - the tree reachable from the root is a well-formed tree (consistent
//    parent / sibling / first / last links, no cycles, no freed nodes) that
//    can be walked in a number of steps bounded by the pool size,
//  - the tree can be printed after a successful parse.
// It deliberately does not look at the reader offset after a failure, the
// text written to the error writer, or the partial values of a rejected
// table.

import (
	"bytes"
	"fmt"
	"io/ioutil"
	"math/rand"
	"path/filepath"
	"runtime"
	"testing"
	"time"
	"unsafe"

	"github.com/ProjectSerenity/firefly/kernel"
	"github.com/ProjectSerenity/firefly/kernel/device/acpi/table"
)

const keep2HeaderLen = int(unsafe.Sizeof(table.SDTHeader{}))

// keep2Table wraps body in a fresh SDT header. The returned slice keeps the
// table memory alive and delimits the bytes that values may point into.
func keep2Table(body []byte) (*table.SDTHeader, []byte) {
	stream := make([]byte, keep2HeaderLen+len(body))
	copy(stream[keep2HeaderLen:], body)

	header := (*table.SDTHeader)(unsafe.Pointer(&stream[0]))
	header.Signature = [4]byte{'D', 'S', 'D', 'T'}
	header.Length = uint32(len(stream))
	header.Revision = 2
	return header, stream
}

type keep2Outcome struct {
	err      *kernel.Error
	panicked interface{}
	stack    []byte
	tree     *ObjectTree
	errOut   bytes.Buffer
}

// keep2Parse parses body as a DSDT into a fresh tree. A hang is reported as a
// test failure after a generous timeout.
func keep2Parse(t *testing.T, descr string, body []byte) (*keep2Outcome, []byte) {
	t.Helper()

	header, stream := keep2Table(body)
	out := &keep2Outcome{tree: NewObjectTree()}
	out.tree.CreateDefaultScopes(0)

	done := make(chan struct{})
	go func() {
		defer close(done)
		defer func() {
			if r := recover(); r != nil {
				out.panicked = r
				buf := make([]byte, 8192)
				out.stack = buf[:runtime.Stack(buf, false)]
			}
		}()
		out.err = NewParser(&out.errOut, out.tree).ParseAML(1, "DSDT", header)
	}()

	select {
	case <-done:
	case <-time.After(60 * time.Second):
		t.Fatalf("[%s] ParseAML did not terminate (input len %d)", descr, len(body))
	}

	return out, stream
}

// keep2InsideTable reports whether b lies inside stream.
func keep2InsideTable(b, stream []byte) bool {
	if len(b) == 0 {
		return true
	}
	lo := uintptr(unsafe.Pointer(&stream[0]))
	hi := lo + uintptr(len(stream))
	start := uintptr(unsafe.Pointer(&b[0]))
	return start >= lo && start+uintptr(len(b)) <= hi
}

// keep2CheckTree verifies the structural claims of the property.
func keep2CheckTree(tree *ObjectTree, stream []byte) error {
	poolLen := uint32(len(tree.objPool))
	if poolLen == 0 {
		return fmt.Errorf("empty object pool")
	}

	// Every byte slice in the pool (reachable or not) points into the table.
	for i, obj := range tree.objPool {
		if obj == nil {
			return fmt.Errorf("pool slot %d is nil", i)
		}
		if obj.index != uint32(i) {
			return fmt.Errorf("pool slot %d holds object with index %d", i, obj.index)
		}
		if b, ok := obj.value.([]byte); ok && !keep2InsideTable(b, stream) {
			return fmt.Errorf("object %d (opcode 0x%x) holds a %d-byte value outside the table", i, obj.opcode, len(b))
		}
	}

	// Walk the tree from the root with an explicit stack; the number of steps
	// is bounded by the pool size.
	visited := make([]bool, poolLen)
	stack := []uint32{0}
	visited[0] = true
	if root := tree.ObjectAt(0); root == nil || root.parentIndex != InvalidIndex {
		return fmt.Errorf("bad root")
	}

	steps := uint32(0)
	for len(stack) != 0 {
		if steps++; steps > poolLen {
			return fmt.Errorf("tree walk exceeded pool size")
		}

		parentIndex := stack[len(stack)-1]
		stack = stack[:len(stack)-1]
		parent := tree.ObjectAt(parentIndex)
		if parent == nil {
			return fmt.Errorf("object %d is reachable but freed or out of range", parentIndex)
		}

		if (parent.firstArgIndex == InvalidIndex) != (parent.lastArgIndex == InvalidIndex) {
			return fmt.Errorf("object %d: first/last arg index mismatch", parentIndex)
		}

		prev := InvalidIndex
		for childIndex := parent.firstArgIndex; childIndex != InvalidIndex; {
			if childIndex >= poolLen {
				return fmt.Errorf("object %d: child index %d out of range", parentIndex, childIndex)
			}
			child := tree.ObjectAt(childIndex)
			if child == nil {
				return fmt.Errorf("object %d: child %d is a freed object", parentIndex, childIndex)
			}
			if visited[childIndex] {
				return fmt.Errorf("object %d is reachable twice", childIndex)
			}
			visited[childIndex] = true

			if child.parentIndex != parentIndex {
				return fmt.Errorf("object %d: parentIndex is %d; expected %d", childIndex, child.parentIndex, parentIndex)
			}
			if child.prevSiblingIndex != prev {
				return fmt.Errorf("object %d: prevSiblingIndex is %d; expected %d", childIndex, child.prevSiblingIndex, prev)
			}

			stack = append(stack, childIndex)
			prev = childIndex
			childIndex = child.nextSiblingIndex
		}

		if parent.lastArgIndex != prev {
			return fmt.Errorf("object %d: lastArgIndex is %d; expected %d", parentIndex, parent.lastArgIndex, prev)
		}
	}

	return nil
}

// keep2Observer, when set, is handed every outcome (used for ad-hoc
// before/after comparisons; nil by default).
var keep2Observer func(descr string, out *keep2Outcome)

// keep2Stats counts accepted and rejected inputs.
var keep2Stats struct{ accepted, rejected int }

// keep2LogStats logs how many inputs a test saw accepted / rejected.
func keep2LogStats(t *testing.T) func() {
	before := keep2Stats
	return func() {
		t.Logf("inputs accepted: %d, rejected: %d", keep2Stats.accepted-before.accepted, keep2Stats.rejected-before.rejected)
	}
}

// keep2Check runs one input through the parser and checks the property.
func keep2Check(t *testing.T, descr string, body []byte) (ok bool) {
	t.Helper()

	out, stream := keep2Parse(t, descr, body)
	if keep2Observer != nil {
		keep2Observer(descr, out)
	}
	if out.err == nil {
		keep2Stats.accepted++
	} else {
		keep2Stats.rejected++
	}
	if out.panicked != nil {
		t.Errorf("[%s] ParseAML panicked: %v\n%s", descr, out.panicked, out.stack)
		return false
	}

	if out.err != nil && out.err != errParsingAML {
		t.Errorf("[%s] ParseAML returned an unexpected error: %v", descr, out.err)
	}

	if err := keep2CheckTree(out.tree, stream); err != nil {
		t.Errorf("[%s] (parse error: %v) malformed tree: %v", descr, out.err, err)
		return false
	}

	if out.err == nil {
		func() {
			defer func() {
				if r := recover(); r != nil {
					t.Errorf("[%s] PrettyPrint panicked after a successful parse: %v", descr, r)
				}
			}()
			var dump bytes.Buffer
			out.tree.PrettyPrint(&dump)
			if dump.Len() == 0 {
				t.Errorf("[%s] PrettyPrint produced no output", descr)
			}
		}()
	}

	runtime.KeepAlive(stream)
	return out.err == nil
}

func keep2LoadBodies(t *testing.T) map[string][]byte {
	_, thisFile, _, _ := runtime.Caller(0)
	dir := filepath.Join(filepath.Dir(thisFile), "..", "table", "tabletest")

	bodies := make(map[string][]byte)
	for _, name := range []string{"DSDT.aml", "SSDT.aml", "parser-testsuite-DSDT.aml"} {
		data, err := ioutil.ReadFile(filepath.Join(dir, name))
		if err != nil {
			t.Fatal(err)
		}
		if len(data) < keep2HeaderLen {
			t.Fatalf("%s is too short", name)
		}
		bodies[name] = data[keep2HeaderLen:]
	}
	return bodies
}

// TestKeep2C12WellFormedTables makes sure the well-formed tables are still
// accepted and printable.
func TestKeep2C12WellFormedTables(t *testing.T) {
	bodies := keep2LoadBodies(t)
	for _, name := range []string{"DSDT.aml", "parser-testsuite-DSDT.aml"} {
		if !keep2Check(t, name, bodies[name]) {
			t.Errorf("[%s] expected the well-formed table to be accepted", name)
		}
	}
	// The SSDT refers to objects of the DSDT; on its own it may be accepted or
	// rejected but must satisfy the property.
	keep2Check(t, "SSDT.aml", bodies["SSDT.aml"])
}

// TestKeep2C12HandCrafted feeds short hand-crafted inputs that target the
// constant / string / name / package-length decoders.
func TestKeep2C12HandCrafted(t *testing.T) {
	defer keep2LogStats(t)()
	specs := []struct {
		descr string
		body  []byte
	}{
		{"empty", nil},
		{"noop only", []byte{0xa3, 0xa3, 0xa3}},
		{"byte const", []byte{0x0a, 0x12}},
		{"byte const truncated", []byte{0x0a}},
		{"word const", []byte{0x0b, 0x34, 0x12}},
		{"word const truncated", []byte{0x0b, 0x34}},
		{"dword const", []byte{0x0c, 1, 2, 3, 4}},
		{"dword const truncated 1", []byte{0x0c, 1}},
		{"dword const truncated 3", []byte{0x0c, 1, 2, 3}},
		{"qword const", []byte{0x0e, 1, 2, 3, 4, 5, 6, 7, 8}},
		{"qword const truncated 7", []byte{0x0e, 1, 2, 3, 4, 5, 6, 7}},
		{"string", []byte{0x0d, 'A', 'B', 'C', 0x00}},
		{"empty string", []byte{0x0d, 0x00}},
		{"string unterminated", []byte{0x0d, 'A', 'B', 'C'}},
		{"string prefix only", []byte{0x0d}},
		{"string non-ascii", []byte{0x0d, 'A', 0xba, 0xdf, 0x00}},
		{"string non-ascii then no terminator", []byte{0x0d, 'A', 0x80}},
		{"name with byte value", []byte{0x08, 'F', 'O', 'O', '_', 0x0a, 0x2a}},
		{"name with truncated dword value", []byte{0x08, 'F', 'O', 'O', '_', 0x0c, 0x2a, 0x2b}},
		{"name with string value", []byte{0x08, 'S', 'T', 'R', '_', 0x0d, 'h', 'i', 0x00}},
		{"name with bad string value", []byte{0x08, 'S', 'T', 'R', '_', 0x0d, 'h', 0xff, 0x00}},
		{"name truncated nameseg", []byte{0x08, 'F', 'O'}},
		{"name root prefix", []byte{0x08, '\\', 'F', 'O', 'O', '_', 0x00}},
		{"name caret prefix only", []byte{0x08, '^', '^'}},
		{"name dual path", []byte{0x08, 0x2e, '_', 'S', 'B', '_', 'F', 'O', 'O', '_', 0x01}},
		{"name dual path truncated", []byte{0x08, 0x2e, '_', 'S', 'B', '_', 'F', 'O'}},
		{"name multi path", []byte{0x08, 0x2f, 0x02, '_', 'S', 'B', '_', 'F', 'O', 'O', '_', 0x01}},
		{"name multi path zero segs", []byte{0x08, 0x2f, 0x00, 0x01}},
		{"name multi path missing count", []byte{0x08, 0x2f}},
		{"name multi path truncated", []byte{0x08, 0x2f, 0x03, '_', 'S', 'B', '_', 'F', 'O', 'O', '_'}},
		{"name multi path 64 segs", append([]byte{0x08, 0x2f, 0x40}, bytes.Repeat([]byte{'A', 'B', 'C', 'D'}, 64)...)},
		{"name multi path 255 segs", append([]byte{0x08, 0x2f, 0xff}, bytes.Repeat([]byte{'A', 'B', 'C', 'D'}, 255)...)},
		{"name null", []byte{0x08, 0x00, 0x01}},
		{"bad lead name char", []byte{'0', 'F', 'O', 'O'}},
		{"scope pkglen 1 byte", []byte{0x10, 0x05, '_', 'S', 'B', '_'}},
		{"scope pkglen missing", []byte{0x10}},
		{"scope pkglen 2 bytes truncated", []byte{0x10, 0x45}},
		{"scope pkglen 3 bytes truncated", []byte{0x10, 0x85, 0x00}},
		{"scope pkglen 4 bytes truncated", []byte{0x10, 0xc5, 0x00, 0x00}},
		{"scope pkglen 2 bytes", []byte{0x10, 0x46, 0x00, '_', 'S', 'B', '_'}},
		{"scope pkglen 3 bytes", []byte{0x10, 0x87, 0x00, 0x00, '_', 'S', 'B', '_'}},
		{"scope pkglen 4 bytes", []byte{0x10, 0xc8, 0x00, 0x00, 0x00, '_', 'S', 'B', '_'}},
		{"scope pkglen past end", []byte{0x10, 0x3f, '_', 'S', 'B', '_'}},
		{"scope pkglen huge", []byte{0x10, 0xcf, 0xff, 0xff, 0xff, '_', 'S', 'B', '_'}},
		{"scope pkglen zero", []byte{0x10, 0x00, '_', 'S', 'B', '_'}},
		{"scope with name in it", []byte{0x10, 0x0c, '_', 'S', 'B', '_', 0x08, 'F', 'O', 'O', '_', 0x0a, 0x01}},
		{"method", []byte{0x14, 0x08, 'M', 'T', 'H', 'D', 0x00, 0xa4, 0x00}},
		{"method truncated flags", []byte{0x14, 0x05, 'M', 'T', 'H', 'D'}},
		{"buffer", []byte{0x08, 'B', 'U', 'F', '_', 0x11, 0x06, 0x0a, 0x03, 1, 2, 3}},
		{"buffer word len", []byte{0x08, 'B', 'U', 'F', '_', 0x11, 0x07, 0x0b, 0x03, 0x00, 1, 2, 3}},
		{"buffer word len truncated", []byte{0x08, 'B', 'U', 'F', '_', 0x11, 0x03, 0x0b, 0x03}},
		{"buffer pkglen zero", []byte{0x08, 'B', 'U', 'F', '_', 0x11, 0x00}},
		{"buffer pkglen past end", []byte{0x08, 'B', 'U', 'F', '_', 0x11, 0x20, 0x0a, 0x03, 1, 2, 3}},
		{"ext prefix only", []byte{0x5b}},
		{"opregion + field", []byte{
			0x5b, 0x80, 'R', 'E', 'G', '_', 0x01, 0x0a, 0x10, 0x0a, 0x04,
			0x5b, 0x81, 0x10, 'R', 'E', 'G', '_', 0x01, 'F', 'L', 'D', '0', 0x08, 0x00, 0x08, 'F', 'L', 'D', '1', 0x08,
		}},
		{"field access field truncated", []byte{
			0x5b, 0x80, 'R', 'E', 'G', '_', 0x01, 0x0a, 0x10, 0x0a, 0x04,
			0x5b, 0x81, 0x08, 'R', 'E', 'G', '_', 0x01, 0x01, 0x01,
		}},
		{"field ext access field", []byte{
			0x5b, 0x80, 'R', 'E', 'G', '_', 0x01, 0x0a, 0x10, 0x0a, 0x04,
			0x5b, 0x81, 0x0f, 'R', 'E', 'G', '_', 0x01, 0x03, 0x05, 0x0b, 0x04, 'F', 'L', 'D', '0', 0x08,
		}},
		{"field named field pkglen truncated", []byte{
			0x5b, 0x80, 'R', 'E', 'G', '_', 0x01, 0x0a, 0x10, 0x0a, 0x04,
			0x5b, 0x81, 0x0b, 'R', 'E', 'G', '_', 0x01, 'F', 'L', 'D', '0', 0xc8,
		}},
		{"field connection buffer", []byte{
			0x5b, 0x80, 'R', 'E', 'G', '_', 0x09, 0x0a, 0x10, 0x0a, 0x04,
			0x5b, 0x81, 0x14, 'R', 'E', 'G', '_', 0x01, 0x02, 0x11, 0x06, 0x0a, 0x03, 1, 2, 3, 'F', 'L', 'D', '0', 0x08,
		}},
		{"field connection buffer dword len truncated", []byte{
			0x5b, 0x80, 'R', 'E', 'G', '_', 0x09, 0x0a, 0x10, 0x0a, 0x04,
			0x5b, 0x81, 0x0c, 'R', 'E', 'G', '_', 0x01, 0x02, 0x11, 0x04, 0x0c, 1, 2,
		}},
		{"field connection namestring", []byte{
			0x5b, 0x80, 'R', 'E', 'G', '_', 0x09, 0x0a, 0x10, 0x0a, 0x04,
			0x5b, 0x81, 0x11, 'R', 'E', 'G', '_', 0x01, 0x02, 'C', 'O', 'N', 'N', 'F', 'L', 'D', '0', 0x08,
		}},
	}

	for _, spec := range specs {
		keep2Check(t, spec.descr, spec.body)
	}
}

// TestKeep2C12Truncations feeds every truncation of the small tables and a
// strided set of truncations of the large one.
func TestKeep2C12Truncations(t *testing.T) {
	defer keep2LogStats(t)()
	bodies := keep2LoadBodies(t)

	for _, name := range []string{"parser-testsuite-DSDT.aml", "SSDT.aml"} {
		body := bodies[name]
		for cut := 0; cut < len(body); cut++ {
			keep2Check(t, fmt.Sprintf("%s truncated to %d", name, cut), body[:cut])
		}
	}

	body := bodies["DSDT.aml"]
	for cut := 0; cut < len(body); cut += 7 {
		keep2Check(t, fmt.Sprintf("DSDT.aml truncated to %d", cut), body[:cut])
	}
}

// TestKeep2C12Mutations feeds bit flips, byte substitutions, length-field
// corruptions and splices of the well-formed tables plus arbitrary bytes.
func TestKeep2C12Mutations(t *testing.T) {
	defer keep2LogStats(t)()
	bodies := keep2LoadBodies(t)
	rng := rand.New(rand.NewSource(0xC12))
	names := []string{"parser-testsuite-DSDT.aml", "DSDT.aml", "SSDT.aml"}

	clone := func(b []byte) []byte { return append([]byte(nil), b...) }

	// Bit flips and byte substitutions.
	for _, name := range names {
		body := bodies[name]
		for i := 0; i < 400; i++ {
			mut := clone(body)
			pos := rng.Intn(len(mut))
			mut[pos] ^= 1 << uint(rng.Intn(8))
			keep2Check(t, fmt.Sprintf("%s bit flip at %d", name, pos), mut)
		}
		for i := 0; i < 400; i++ {
			mut := clone(body)
			pos := rng.Intn(len(mut))
			interesting := []byte{0x00, 0x01, 0x0a, 0x0b, 0x0c, 0x0d, 0x0e, 0x10, 0x11, 0x14, 0x2e, 0x2f, 0x3f, 0x40, 0x5b, 0x5c, 0x5e, 0x7f, 0x80, 0xc0, 0xff}
			if rng.Intn(2) == 0 {
				mut[pos] = interesting[rng.Intn(len(interesting))]
			} else {
				mut[pos] = byte(rng.Intn(256))
			}
			keep2Check(t, fmt.Sprintf("%s byte substitution at %d", name, pos), mut)
		}
	}

	// Length-field corruption: the byte(s) following an opcode that takes a
	// PkgLength are replaced.
	pkgLenOps := map[byte]bool{0x10: true, 0x11: true, 0x12: true, 0x13: true, 0x14: true, 0xa0: true, 0xa1: true, 0xa2: true}
	extPkgLenOps := map[byte]bool{0x81: true, 0x82: true, 0x83: true, 0x84: true, 0x85: true, 0x86: true, 0x87: true}
	leads := []byte{0x00, 0x01, 0x02, 0x3f, 0x40, 0x4f, 0x80, 0x8f, 0xc0, 0xcf, 0xff}
	for _, name := range names {
		body := bodies[name]
		var fields []int
		for i := 0; i+1 < len(body); i++ {
			if pkgLenOps[body[i]] {
				fields = append(fields, i+1)
			} else if body[i] == 0x5b && i+2 < len(body) && extPkgLenOps[body[i+1]] {
				fields = append(fields, i+2)
			}
		}
		for i := 0; i < 300 && len(fields) != 0; i++ {
			mut := clone(body)
			pos := fields[rng.Intn(len(fields))]
			mut[pos] = leads[rng.Intn(len(leads))]
			for extra := 1; extra <= 3 && pos+extra < len(mut); extra++ {
				if rng.Intn(2) == 0 {
					mut[pos+extra] = byte(rng.Intn(256))
				}
			}
			keep2Check(t, fmt.Sprintf("%s pkgLen corruption at %d", name, pos), mut)
		}
	}

	// Splices of well-formed tables.
	for i := 0; i < 300; i++ {
		a := bodies[names[rng.Intn(len(names))]]
		b := bodies[names[rng.Intn(len(names))]]
		cutA, cutB := rng.Intn(len(a)+1), rng.Intn(len(b)+1)
		mut := append(clone(a[:cutA]), b[cutB:]...)
		if len(mut) > 12000 {
			mut = mut[:12000]
		}
		keep2Check(t, fmt.Sprintf("splice #%d (%d + %d bytes)", i, cutA, len(b)-cutB), mut)
	}

	// Arbitrary bytes.
	for i := 0; i < 600; i++ {
		mut := make([]byte, rng.Intn(96))
		for j := range mut {
			mut[j] = byte(rng.Intn(256))
		}
		keep2Check(t, fmt.Sprintf("random #%d", i), mut)
	}

	// Arbitrary sequences of bytes that are meaningful to the decoders.
	alphabet := []byte{0x00, 0x01, 0x08, 0x0a, 0x0b, 0x0c, 0x0d, 0x0e, 0x10, 0x11, 0x12, 0x14, 0x2e, 0x2f, 0x5b, 0x80, 0x81, 0x82, 0x5c, 0x5e, 'A', 'B', '_', 0x05, 0x45, 0x70, 0x68, 0xa4, 0xff}
	for i := 0; i < 1500; i++ {
		mut := make([]byte, 1+rng.Intn(48))
		for j := range mut {
			mut[j] = alphabet[rng.Intn(len(alphabet))]
		}
		keep2Check(t, fmt.Sprintf("alphabet #%d", i), mut)
	}
}

// TestKeep2C12Decoders drives the low-level decoders directly and checks
// their results (value and verdict only; not the reader position after a
// failure).
func TestKeep2C12Decoders(t *testing.T) {
	newParser := func(body []byte) (*Parser, []byte) {
		header, stream := keep2Table(body)
		tree := NewObjectTree()
		tree.CreateDefaultScopes(0)
		p := NewParser(ioutil.Discard, tree)
		p.init(0, "DSDT", header)
		return p, stream
	}

	t.Run("parseNumConstant", func(t *testing.T) {
		src := []byte{0x11, 0x22, 0x33, 0x44, 0x55, 0x66, 0x77, 0x88}
		exp := map[uint8]uint64{1: 0x11, 2: 0x2211, 4: 0x44332211, 8: 0x8877665544332211}
		for _, width := range []uint8{1, 2, 4, 8} {
			for avail := 0; avail <= 8; avail++ {
				p, stream := newParser(src[:avail])
				got, res := p.parseNumConstant(width)
				switch {
				case avail >= int(width):
					if res != parseResultOk || got != exp[width] {
						t.Errorf("width %d, avail %d: got (0x%x, %d)", width, avail, got, res)
					}
					if off := p.r.Offset(); off != uint32(keep2HeaderLen)+uint32(width) {
						t.Errorf("width %d, avail %d: expected %d bytes to be consumed; offset is %d", width, avail, width, off)
					}
				default:
					if res != parseResultFailed {
						t.Errorf("width %d, avail %d: expected failure; got (0x%x, %d)", width, avail, got, res)
					}
				}
				runtime.KeepAlive(stream)
			}
		}

		// A constant may not straddle the current package end.
		p, stream := newParser(src)
		if err := p.r.SetPkgEnd(uint32(keep2HeaderLen) + 3); err != nil {
			t.Fatal(err)
		}
		if _, res := p.parseNumConstant(4); res != parseResultFailed {
			t.Errorf("expected a dword that crosses pkgEnd to be rejected")
		}
		runtime.KeepAlive(stream)
	})

	t.Run("parsePkgLength", func(t *testing.T) {
		specs := []struct {
			body []byte
			exp  uint32
			ok   bool
		}{
			{[]byte{0x00}, 0, true},
			{[]byte{0x3f}, 0x3f, true},
			{[]byte{0x47, 0xff}, 4087, true},
			{[]byte{0x88, 0xff, 0x80}, 528376, true},
			{[]byte{0xc6, 0xff, 0x80, 0x2a}, 44568566, true},
			{[]byte{0xcf, 0xff, 0xff, 0xff}, 0x0fffffff, true},
			{nil, 0, false},
			{[]byte{0x40}, 0, false},
			{[]byte{0x80}, 0, false},
			{[]byte{0x80, 1}, 0, false},
			{[]byte{0xc0}, 0, false},
			{[]byte{0xc0, 1}, 0, false},
			{[]byte{0xc0, 1, 2}, 0, false},
		}
		for i, spec := range specs {
			p, stream := newParser(spec.body)
			got, res := p.parsePkgLength()
			if spec.ok && (res != parseResultOk || got != spec.exp) {
				t.Errorf("[spec %d] expected (%d, ok); got (%d, %d)", i, spec.exp, got, res)
			}
			if spec.ok && p.r.Offset() != uint32(keep2HeaderLen+len(spec.body)) {
				t.Errorf("[spec %d] expected the whole encoding to be consumed", i)
			}
			if !spec.ok && res != parseResultFailed {
				t.Errorf("[spec %d] expected failure; got (%d, %d)", i, got, res)
			}
			runtime.KeepAlive(stream)
		}
	})

	t.Run("parseString", func(t *testing.T) {
		specs := []struct {
			body []byte
			exp  string
			ok   bool
		}{
			{[]byte{0x00}, "", true},
			{[]byte{'A', 0x00}, "A", true},
			{[]byte{'h', 'e', 'l', 'l', 'o', 0x7f, 0x01, 0x00, 'X'}, "hello\x7f\x01", true},
			{nil, "", false},
			{[]byte{'A'}, "", false},
			{[]byte{'A', 'B', 'C'}, "", false},
			{[]byte{'A', 0x80, 0x00}, "", false},
			{[]byte{0xff, 0x00}, "", false},
			{[]byte{'A', 0xba}, "", false},
		}
		for i, spec := range specs {
			p, stream := newParser(spec.body)
			got, res := p.parseString()
			if !keep2InsideTable(got, stream) {
				t.Errorf("[spec %d] returned string lies outside the table", i)
			}
			if spec.ok {
				if res != parseResultOk || string(got) != spec.exp {
					t.Errorf("[spec %d] expected (%q, ok); got (%q, %d)", i, spec.exp, got, res)
				}
				if exp := uint32(keep2HeaderLen + len(spec.exp) + 1); p.r.Offset() != exp {
					t.Errorf("[spec %d] expected offset %d after the terminator; got %d", i, exp, p.r.Offset())
				}
			} else if res != parseResultFailed {
				t.Errorf("[spec %d] expected failure; got (%q, %d)", i, got, res)
			}
			runtime.KeepAlive(stream)
		}

		// A string may not run past the current package end even if a
		// terminator follows it.
		p, stream := newParser([]byte{'A', 'B', 'C', 0x00})
		if err := p.r.SetPkgEnd(uint32(keep2HeaderLen) + 2); err != nil {
			t.Fatal(err)
		}
		if got, res := p.parseString(); res != parseResultFailed || !keep2InsideTable(got, stream) {
			t.Errorf("expected a string that crosses pkgEnd to be rejected")
		}
		runtime.KeepAlive(stream)
	})

	t.Run("parseNameString", func(t *testing.T) {
		seg := []byte{'A', 'B', 'C', 'D'}
		specs := []struct {
			body   []byte
			expLen int
			ok     bool
		}{
			{[]byte{0x00}, 0, true},
			{[]byte{'\\', 0x00}, 0, true},
			{[]byte{'_', 'S', 'B', '_', 0xff}, 4, true},
			{[]byte{'\\', '_', 'S', 'B', '_'}, 5, true},
			{[]byte{'^', '^', '^', 'A', '1', '2', '3'}, 7, true},
			{append([]byte{0x2e}, bytes.Repeat(seg, 2)...), 9, true},
			{append([]byte{'^', 0x2f, 0x03}, bytes.Repeat(seg, 3)...), 15, true},
			{append([]byte{0x2f, 0x3f}, bytes.Repeat(seg, 63)...), 2 + 63*4, true},
			{nil, 0, false},
			{[]byte{'^'}, 0, false},
			{[]byte{'\\', '\\'}, 0, false},
			{[]byte{'A', 'B', 'C'}, 0, false},
			{[]byte{'0', 'B', 'C', 'D'}, 0, false},
			{[]byte{'a', 'B', 'C', 'D'}, 0, false},
			{append([]byte{0x2e}, bytes.Repeat(seg, 2)[:7]...), 0, false},
			{[]byte{0x2f}, 0, false},
			{[]byte{0x2f, 0x00}, 0, false},
			{append([]byte{0x2f, 0x03}, bytes.Repeat(seg, 2)...), 0, false},
		}
		for i, spec := range specs {
			p, stream := newParser(spec.body)
			got, res := p.parseNameString()
			if !keep2InsideTable(got, stream) {
				t.Errorf("[spec %d] returned name lies outside the table", i)
			}
			if spec.ok {
				if res != parseResultOk || len(got) != spec.expLen {
					t.Errorf("[spec %d] expected a %d-byte name; got (%q, %d)", i, spec.expLen, got, res)
				} else if spec.expLen != 0 && !bytes.Equal(got, spec.body[:spec.expLen]) {
					t.Errorf("[spec %d] expected name %q; got %q", i, spec.body[:spec.expLen], got)
				}
			} else if res != parseResultFailed {
				t.Errorf("[spec %d] expected failure; got (%q, %d)", i, got, res)
			}
			runtime.KeepAlive(stream)
		}
	})
}
