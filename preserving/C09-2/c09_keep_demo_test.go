package pmm

// Demonstration for property C09: concurrent frame allocation and freeing never
// duplicates or loses a frame.
//
// Copy to kernel/mm/pmm/c09_keep_demo_test.go and run:
//
//	cd kernel && go test -vet=off -count=1 -run TestC09KeepDemo ./mm/pmm/
//
// The test only relies on what the property states: it never assumes which of
// the free frames AllocFrame hands out, how often the spinlock yields, or what
// the intermediate values of the private counters are while calls are running.

import (
	"runtime"
	"sync"
	"sync/atomic"
	"testing"
	"time"
	_ "unsafe" // for go:linkname

	"github.com/ProjectSerenity/firefly/kernel/mm"
)

// The spinlock busy-waits in assembly; give it a way to yield to the Go
// scheduler so that a test with more callers than CPUs cannot starve the
// lock holder (same trick as kernel/sync's own test, which sets yieldFn).
//
//go:linkname c09SpinlockYieldFn github.com/ProjectSerenity/firefly/kernel/sync.yieldFn
var c09SpinlockYieldFn func()

type c09Pool struct {
	start, count int
	// frames (relative to start) that are reserved before the callers start.
	preReserved []int
}

type c09Scenario struct {
	name    string
	pools   []c09Pool
	callers int
	ops     int
	maxHeld int // max frames a single caller holds on to
}

func c09Build(pools []c09Pool) (alloc *BitmapAllocator, managed map[mm.Frame]bool) {
	alloc = &BitmapAllocator{}
	managed = make(map[mm.Frame]bool)
	for _, p := range pools {
		alloc.pools = append(alloc.pools, framePool{
			startFrame: mm.Frame(p.start),
			endFrame:   mm.Frame(p.start + p.count - 1),
			freeCount:  uint32(p.count),
			freeBitmap: make([]uint64, (p.count+63)/64),
		})
		alloc.totalPages += uint32(p.count)
		for i := 0; i < p.count; i++ {
			managed[mm.Frame(p.start+i)] = true
		}
	}
	for poolIndex, p := range pools {
		for _, rel := range p.preReserved {
			alloc.markFrame(poolIndex, mm.Frame(p.start+rel), markReserved)
			delete(managed, mm.Frame(p.start+rel))
		}
	}
	return alloc, managed
}

func c09FreeTotal(alloc *BitmapAllocator) uint32 {
	var sum uint32
	for i := range alloc.pools {
		sum += alloc.pools[i].freeCount
	}
	return sum
}

func TestC09KeepDemo(t *testing.T) {
	defer func(orig func()) { c09SpinlockYieldFn = orig }(c09SpinlockYieldFn)
	c09SpinlockYieldFn = runtime.Gosched

	scenarios := []c09Scenario{
		{"one tiny pool, 16 callers, constant OOM", []c09Pool{{start: 8, count: 5}}, 16, 20000, 2},
		{"tiny + two-word pool, 16 callers", []c09Pool{{start: 0, count: 3}, {start: 64, count: 70}}, 16, 20000, 8},
		{"pre-reserved frames, 8 callers", []c09Pool{{start: 16, count: 64, preReserved: []int{0, 1, 2, 31, 63}}, {start: 128, count: 9, preReserved: []int{8}}}, 8, 20000, 12},
		{"three pools, 16 callers hoarding", []c09Pool{{start: 1, count: 1}, {start: 100, count: 65}, {start: 300, count: 20}}, 16, 20000, 64},
		{"two callers", []c09Pool{{start: 0, count: 2}}, 2, 50000, 2},
		{"single caller", []c09Pool{{start: 4, count: 66}}, 1, 50000, 66},
	}

	for _, sc := range scenarios {
		sc := sc
		t.Run(sc.name, func(t *testing.T) { c09Run(t, sc) })
	}
}

func c09Run(t *testing.T, sc c09Scenario) {
	const maxFrame = 1024
	alloc, managed := c09Build(sc.pools)
	initialReserved := alloc.reservedPages
	initialFree := alloc.totalPages - alloc.reservedPages
	if got := c09FreeTotal(alloc); got != initialFree {
		t.Fatalf("bad fixture: pool free counts add up to %d; want %d", got, initialFree)
	}

	var (
		owner    [maxFrame]int32 // 0: not held by a caller; otherwise caller id + 1
		failures int32
		oomSeen  int64
		wg       sync.WaitGroup
		held     = make([][]mm.Frame, sc.callers)
	)

	fail := func(format string, args ...interface{}) {
		atomic.AddInt32(&failures, 1)
		t.Errorf(format, args...)
	}

	wg.Add(sc.callers)
	for c := 0; c < sc.callers; c++ {
		go func(id int) {
			defer wg.Done()
			rnd := uint64(id)*0x9E3779B97F4A7C15 + 0x1234567
			next := func() uint64 {
				rnd ^= rnd << 13
				rnd ^= rnd >> 7
				rnd ^= rnd << 17
				return rnd
			}
			mine := make([]mm.Frame, 0, sc.maxHeld)

			for op := 0; op < sc.ops && atomic.LoadInt32(&failures) == 0; op++ {
				r := next()
				switch {
				case r%64 == 0:
					// Releasing a frame that is outside every pool must be refused
					// and must not disturb anybody else.
					if err := alloc.FreeFrame(mm.Frame(maxFrame + r%1000)); err == nil {
						fail("caller %d: freeing an unmanaged frame succeeded", id)
					}
				case len(mine) < sc.maxHeld && (len(mine) == 0 || r&1 == 0):
					frame, err := alloc.AllocFrame()
					if err != nil {
						atomic.AddInt64(&oomSeen, 1)
						if frame.Valid() {
							fail("caller %d: got error %v together with valid frame %d", id, err, frame)
						}
						continue
					}
					if !managed[frame] {
						fail("caller %d: got frame %d which is not an allocatable frame of any pool", id, frame)
						return
					}
					if !atomic.CompareAndSwapInt32(&owner[frame], 0, int32(id+1)) {
						fail("caller %d: got frame %d which is held by caller %d", id, frame, atomic.LoadInt32(&owner[frame])-1)
						return
					}
					mine = append(mine, frame)
				default:
					i := int(next() % uint64(len(mine)))
					frame := mine[i]
					mine[i] = mine[len(mine)-1]
					mine = mine[:len(mine)-1]
					if !atomic.CompareAndSwapInt32(&owner[frame], int32(id+1), 0) {
						fail("caller %d: ownership record of frame %d was clobbered", id, frame)
						return
					}
					if err := alloc.FreeFrame(frame); err != nil {
						fail("caller %d: freeing held frame %d failed: %v", id, frame, err)
						return
					}
				}
			}
			held[id] = mine
		}(c)
	}

	// No call blocks forever.
	done := make(chan struct{})
	go func() { wg.Wait(); close(done) }()
	select {
	case <-done:
	case <-time.After(120 * time.Second):
		t.Fatal("callers did not finish: an AllocFrame/FreeFrame call seems to block forever")
	}
	if atomic.LoadInt32(&failures) != 0 {
		return
	}

	// Totals after all callers stopped = initial totals adjusted by frames held.
	stillHeld := uint32(0)
	heldSet := make(map[mm.Frame]bool)
	for id, frames := range held {
		for _, f := range frames {
			if heldSet[f] {
				t.Fatalf("frame %d is held twice at the end", f)
			}
			if atomic.LoadInt32(&owner[f]) != int32(id+1) {
				t.Fatalf("frame %d: owner record mismatch", f)
			}
			heldSet[f] = true
			stillHeld++
		}
	}
	if exp, got := initialReserved+stillHeld, alloc.reservedPages; got != exp {
		t.Fatalf("reserved total is %d; want %d (initial %d + %d still held)", got, exp, initialReserved, stillHeld)
	}
	if exp, got := initialFree-stillHeld, alloc.totalPages-alloc.reservedPages; got != exp {
		t.Fatalf("free total is %d; want %d", got, exp)
	}
	if exp, got := initialFree-stillHeld, c09FreeTotal(alloc); got != exp {
		t.Fatalf("pool free counts add up to %d; want %d", got, exp)
	}

	// Every frame that was freed is allocatable again: draining the allocator
	// must yield exactly the allocatable frames nobody holds, each exactly once.
	drain := func(expect uint32, exclude map[mm.Frame]bool) map[mm.Frame]bool {
		got := make(map[mm.Frame]bool)
		for {
			frame, err := alloc.AllocFrame()
			if err != nil {
				break
			}
			if !managed[frame] || exclude[frame] || got[frame] {
				t.Fatalf("drain: frame %d is unmanaged, still held or was handed out twice", frame)
			}
			got[frame] = true
			if len(got) > len(managed) {
				t.Fatal("drain: allocator hands out more frames than it manages")
			}
		}
		if uint32(len(got)) != expect {
			t.Fatalf("drain: got %d frames; want %d (frames were lost)", len(got), expect)
		}
		if alloc.reservedPages != alloc.totalPages || c09FreeTotal(alloc) != 0 {
			t.Fatalf("drain: expected an exhausted allocator; reserved %d/%d, pool free counts add up to %d", alloc.reservedPages, alloc.totalPages, c09FreeTotal(alloc))
		}
		return got
	}
	drained := drain(initialFree-stillHeld, heldSet)

	// Give everything back (the drained frames and the ones the callers kept);
	// a frame can be given back only once.
	first := true
	for _, set := range []map[mm.Frame]bool{drained, heldSet} {
		for f := range set {
			if err := alloc.FreeFrame(f); err != nil {
				t.Fatalf("freeing frame %d failed: %v", f, err)
			}
			if first {
				first = false
				if err := alloc.FreeFrame(f); err == nil {
					t.Fatalf("freeing frame %d twice succeeded", f)
				}
			}
		}
	}
	if alloc.reservedPages != initialReserved || c09FreeTotal(alloc) != initialFree {
		t.Fatalf("after releasing everything: reserved %d (want %d), free %d (want %d)", alloc.reservedPages, initialReserved, c09FreeTotal(alloc), initialFree)
	}

	// ... and the full initial complement of frames is allocatable once more,
	// also when allocations and frees are interleaved.
	all := drain(initialFree, nil)
	for f := range all {
		if err := alloc.FreeFrame(f); err != nil {
			t.Fatalf("freeing frame %d failed: %v", f, err)
		}
		g, err := alloc.AllocFrame()
		if err != nil || !managed[g] {
			t.Fatalf("alloc right after free of %d: got frame %d, error %v", f, g, err)
		}
		if g != f {
			// Only one frame is free at this point, so it must be this one.
			t.Fatalf("only frame %d is free but AllocFrame returned %d", f, g)
		}
		if _, err := alloc.AllocFrame(); err == nil {
			t.Fatalf("allocator handed out a frame although all frames are held")
		}
	}
	for f := range all {
		if err := alloc.FreeFrame(f); err != nil {
			t.Fatalf("freeing frame %d failed: %v", f, err)
		}
	}
	if alloc.reservedPages != initialReserved || c09FreeTotal(alloc) != initialFree {
		t.Fatalf("final totals: reserved %d (want %d), free %d (want %d)", alloc.reservedPages, initialReserved, c09FreeTotal(alloc), initialFree)
	}
	if sc.callers >= 8 && atomic.LoadInt64(&oomSeen) == 0 {
		t.Logf("note: scenario never ran out of memory")
	}
}
