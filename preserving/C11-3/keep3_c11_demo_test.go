package aml

// Demonstration for property C11 ("well-formed AML is parsed into a namespace
// that matches the program"). The test assembles AML tables by hand, feeds
// them to the parser and then checks the resulting namespace exclusively via
// what the property talks about: which named object lives at which absolute
// path, its kind, its args (in order) and their values, field unit
// offsets/widths and the number of args attached to each method invocation.
//
// It intentionally does NOT look at pool indices, slice capacities / nil-ness,
// the parser's scratch stacks, the number of resolve passes, what gets written
// to the error writer or how many Write calls the pretty-printer issues.
//
// Copy to: kernel/device/acpi/aml/keep3_c11_demo_test.go
// Run:     cd kernel && go test -vet=off -count=1 -run TestKeep3C11Demo ./device/acpi/aml/

import (
	"bytes"
	"strings"
	"testing"
	"unsafe"

	"github.com/ProjectSerenity/firefly/kernel/device/acpi/table"
)

// ---------------------------------------------------------------------------
// A tiny AML assembler
// ---------------------------------------------------------------------------

func k3cat(parts ...[]byte) []byte {
	var out []byte
	for _, p := range parts {
		out = append(out, p...)
	}
	return out
}

// k3pkg prefixes body with a PkgLength that uses exactly encBytes bytes. The
// encoded length covers the PkgLength bytes themselves.
func k3pkg(encBytes int, body []byte) []byte {
	total := uint32(encBytes + len(body))
	switch encBytes {
	case 1:
		if total > 0x3f {
			panic("k3pkg: body too long for a 1-byte PkgLength")
		}
		return k3cat([]byte{byte(total)}, body)
	case 2:
		if total > 0xfff {
			panic("k3pkg: body too long for a 2-byte PkgLength")
		}
		return k3cat([]byte{1<<6 | byte(total&0xf), byte(total >> 4)}, body)
	case 3:
		return k3cat([]byte{2<<6 | byte(total&0xf), byte(total >> 4), byte(total >> 12)}, body)
	default:
		return k3cat([]byte{3<<6 | byte(total&0xf), byte(total >> 4), byte(total >> 12), byte(total >> 20)}, body)
	}
}

// k3auto picks the smallest PkgLength encoding that fits.
func k3auto(body []byte) []byte {
	if len(body)+1 <= 0x3f {
		return k3pkg(1, body)
	}
	return k3pkg(2, body)
}

// k3path encodes a NameString: prefix is a sequence of '\' or '^' chars.
func k3path(prefix string, segs ...string) []byte {
	out := []byte(prefix)
	switch len(segs) {
	case 1:
	case 2:
		out = append(out, 0x2e)
	default:
		out = append(out, 0x2f, byte(len(segs)))
	}
	for _, s := range segs {
		if len(s) != 4 {
			panic("k3path: bad segment " + s)
		}
		out = append(out, s...)
	}
	return out
}

func k3byte(v uint8) []byte  { return []byte{0x0a, v} }
func k3word(v uint16) []byte { return []byte{0x0b, byte(v), byte(v >> 8)} }
func k3dword(v uint32) []byte {
	return []byte{0x0c, byte(v), byte(v >> 8), byte(v >> 16), byte(v >> 24)}
}
func k3qword(v uint64) []byte {
	out := []byte{0x0e}
	for i := uint(0); i < 8; i++ {
		out = append(out, byte(v>>(8*i)))
	}
	return out
}
func k3string(s string) []byte { return k3cat([]byte{0x0d}, []byte(s), []byte{0x00}) }
func k3buffer(size []byte, data ...byte) []byte {
	return k3cat([]byte{0x11}, k3auto(k3cat(size, data)))
}
func k3name(path []byte, val []byte) []byte { return k3cat([]byte{0x08}, path, val) }
func k3scope(enc int, path []byte, body ...[]byte) []byte {
	return k3cat([]byte{0x10}, k3pkg(enc, k3cat(path, k3cat(body...))))
}
func k3device(enc int, path []byte, body ...[]byte) []byte {
	return k3cat([]byte{0x5b, 0x82}, k3pkg(enc, k3cat(path, k3cat(body...))))
}
func k3method(path []byte, argCount uint8, body ...[]byte) []byte {
	return k3cat([]byte{0x14}, k3auto(k3cat(path, []byte{argCount}, k3cat(body...))))
}
func k3opregion(path []byte, space uint8, off, length []byte) []byte {
	return k3cat([]byte{0x5b, 0x80}, path, []byte{space}, off, length)
}
func k3field(region []byte, flags uint8, elements ...[]byte) []byte {
	return k3cat([]byte{0x5b, 0x81}, k3auto(k3cat(region, []byte{flags}, k3cat(elements...))))
}

// k3width encodes the bit-width of a field element as a PkgLength value (which
// in this context does not include itself).
func k3width(bits uint32) []byte {
	if bits <= 0x3f {
		return []byte{byte(bits)}
	}
	if bits <= 0xfff {
		return []byte{1<<6 | byte(bits&0xf), byte(bits >> 4)}
	}
	return []byte{2<<6 | byte(bits&0xf), byte(bits >> 4), byte(bits >> 12)}
}
func k3unit(name string, bits uint32) []byte { return k3cat([]byte(name), k3width(bits)) }
func k3reserved(bits uint32) []byte          { return k3cat([]byte{0x00}, k3width(bits)) }
func k3mutex(path []byte, sync uint8) []byte { return k3cat([]byte{0x5b, 0x01}, path, []byte{sync}) }
func k3event(path []byte) []byte             { return k3cat([]byte{0x5b, 0x02}, path) }
func k3processor(path []byte, id uint8, pblk uint32, pblkLen uint8, body ...[]byte) []byte {
	return k3cat([]byte{0x5b, 0x83}, k3auto(k3cat(path, []byte{id, byte(pblk), byte(pblk >> 8), byte(pblk >> 16), byte(pblk >> 24), pblkLen}, k3cat(body...))))
}
func k3powerres(path []byte, level uint8, order uint16, body ...[]byte) []byte {
	return k3cat([]byte{0x5b, 0x84}, k3auto(k3cat(path, []byte{level, byte(order), byte(order >> 8)}, k3cat(body...))))
}
func k3thermal(path []byte, body ...[]byte) []byte {
	return k3cat([]byte{0x5b, 0x85}, k3auto(k3cat(path, k3cat(body...))))
}
func k3return(term []byte) []byte        { return k3cat([]byte{0xa4}, term) }
func k3store(term, target []byte) []byte { return k3cat([]byte{0x70}, term, target) }
func k3add(a, b, target []byte) []byte   { return k3cat([]byte{0x72}, a, b, target) }
func k3lless(a, b []byte) []byte         { return k3cat([]byte{0x95}, a, b) }
func k3while(pred []byte, body ...[]byte) []byte {
	return k3cat([]byte{0xa2}, k3auto(k3cat(pred, k3cat(body...))))
}
func k3call(path []byte, args ...[]byte) []byte { return k3cat(path, k3cat(args...)) }

var (
	k3local0   = []byte{0x60}
	k3arg0     = []byte{0x68}
	k3arg1     = []byte{0x69}
	k3nullName = []byte{0x00}
	k3one      = []byte{0x01}
	k3ones     = []byte{0xff}
)

// k3table wraps payload in an SDT header. The returned byte slice must be
// kept alive for as long as the parsed tree is in use since values alias it.
func k3table(payload []byte) (*table.SDTHeader, []byte) {
	headerLen := int(unsafe.Sizeof(table.SDTHeader{}))
	stream := make([]byte, headerLen+len(payload))
	copy(stream[headerLen:], payload)

	header := (*table.SDTHeader)(unsafe.Pointer(&stream[0]))
	header.Signature = [4]byte{'D', 'S', 'D', 'T'}
	header.Length = uint32(len(stream))
	header.Revision = 2
	return header, stream
}

// ---------------------------------------------------------------------------
// Namespace inspection helpers (representation independent)
// ---------------------------------------------------------------------------

// k3children returns the objects that live inside the scope defined by obj.
func k3children(tree *ObjectTree, obj *Object) []*Object {
	scope := obj
	if obj.opcode != pOpIntScopeBlock {
		scope = nil
		for i := uint32(0); i < tree.NumArgs(obj); i++ {
			if arg := tree.ArgAt(obj, i); arg.opcode == pOpIntScopeBlock {
				scope = arg
			}
		}
	}
	if scope == nil {
		return nil
	}

	var list []*Object
	for i := uint32(0); i < tree.NumArgs(scope); i++ {
		list = append(list, tree.ArgAt(scope, i))
	}
	return list
}

// k3resolve looks up an absolute path such as `\_SB_.DEV0.STR0`.
func k3resolve(tree *ObjectTree, path string) *Object {
	cur := tree.ObjectAt(0)
	path = strings.TrimPrefix(path, "\\")
	if path == "" {
		return cur
	}

nextSeg:
	for _, seg := range strings.Split(path, ".") {
		for _, child := range k3children(tree, cur) {
			if string(child.name[:]) == seg {
				cur = child
				continue nextSeg
			}
		}
		return nil
	}
	return cur
}

// k3walk invokes fn for obj and everything below it.
func k3walk(tree *ObjectTree, obj *Object, fn func(*Object)) {
	fn(obj)
	for i := uint32(0); i < tree.NumArgs(obj); i++ {
		k3walk(tree, tree.ArgAt(obj, i), fn)
	}
}

// k3args returns the args of obj minus any scope block.
func k3args(tree *ObjectTree, obj *Object) []*Object {
	var list []*Object
	for i := uint32(0); i < tree.NumArgs(obj); i++ {
		if arg := tree.ArgAt(obj, i); arg.opcode != pOpIntScopeBlock {
			list = append(list, arg)
		}
	}
	return list
}

func k3expectNum(t *testing.T, what string, obj *Object, opcode uint16, val uint64) {
	t.Helper()
	if obj == nil {
		t.Errorf("%s: missing object", what)
		return
	}
	if obj.opcode != opcode {
		t.Errorf("%s: expected opcode %s; got %s", what, pOpcodeName(opcode), pOpcodeName(obj.opcode))
		return
	}
	if got, ok := obj.value.(uint64); !ok || got != val {
		t.Errorf("%s: expected value 0x%x; got %v", what, val, obj.value)
	}
}

func k3expectBytes(t *testing.T, what string, obj *Object, opcode uint16, val []byte) {
	t.Helper()
	if obj == nil {
		t.Errorf("%s: missing object", what)
		return
	}
	if obj.opcode != opcode {
		t.Errorf("%s: expected opcode %s; got %s", what, pOpcodeName(opcode), pOpcodeName(obj.opcode))
		return
	}
	if got, ok := obj.value.([]byte); !ok || !bytes.Equal(got, val) {
		t.Errorf("%s: expected value %v; got %v", what, val, obj.value)
	}
}

// k3expectCall checks that obj is an invocation of the method at methodPath
// and returns its args.
func k3expectCall(t *testing.T, tree *ObjectTree, what string, obj *Object, methodPath string, numArgs int) []*Object {
	t.Helper()
	if obj == nil {
		t.Errorf("%s: missing object", what)
		return make([]*Object, numArgs)
	}
	if obj.opcode != pOpIntMethodCall {
		t.Errorf("%s: expected a method call; got %s", what, pOpcodeName(obj.opcode))
		return make([]*Object, numArgs)
	}
	method := k3resolve(tree, methodPath)
	if method == nil {
		t.Fatalf("%s: method %s not in namespace", what, methodPath)
	}
	if got, ok := obj.value.(uint32); !ok || tree.ObjectAt(got) != method {
		t.Errorf("%s: call does not point at %s", what, methodPath)
	}
	args := k3args(tree, obj)
	if len(args) != numArgs {
		t.Errorf("%s: expected %d args; got %d", what, numArgs, len(args))
		return make([]*Object, numArgs)
	}
	return args
}

// countingWriter records the bytes it receives.
type k3writer struct {
	buf bytes.Buffer
}

func (w *k3writer) Write(p []byte) (int, error) { return w.buf.Write(p) }

// ---------------------------------------------------------------------------
// The test
// ---------------------------------------------------------------------------

func TestKeep3C11Demo(t *testing.T) {
	// Build a run of 70 reserved bits + padding to exercise a multi-byte
	// field width, and a device body large enough to need a 2-byte PkgLength
	// in its natural encoding.
	dev0 := k3device(2, k3path("", "DEV0"),
		k3name(k3path("", "_HID"), k3dword(0x0a0cd041)),
		k3name(k3path("", "STR0"), k3string("hello")),
		k3name(k3path("", "EMPT"), k3string("")),
		k3name(k3path("", "BUF0"), k3buffer(k3byte(4), 1, 2, 3, 4)),
		k3name(k3path("", "BUF1"), k3buffer(k3byte(8))),
		k3name(k3path("", "QW00"), k3qword(0xbadc0feedeadc0de)),
		k3name(k3path("", "WD00"), k3word(0xbeef)),
		k3name(k3path("", "BY00"), k3byte(0x7f)),
		k3name(k3path("", "ONE0"), k3one),
		k3name(k3path("", "ONES"), k3ones),
		k3opregion(k3path("", "REG0"), 0x01, k3word(0x3000), k3byte(0x10)),
		k3field(k3path("", "REG0"), 0x01,
			k3unit("FLD0", 8),
			k3reserved(4),
			k3unit("FLD1", 16),
			k3reserved(70),
			k3unit("FLD2", 300),
			k3unit("FLD3", 1),
		),
		k3mutex(k3path("", "MTX0"), 3),
		k3event(k3path("", "EVT0")),
		// CALR invokes FWD2 and BAK1 before either has been declared; the
		// invocation of BAK1 is nested inside the invocation of FWD2.
		k3method(k3path("", "CALR"), 0,
			k3return(k3call(k3path("", "FWD2"), k3call(k3path("", "BAK1"), k3byte(0x11)), k3byte(0x22))),
		),
		k3method(k3path("", "BAK1"), 1, k3return(k3arg0)),
		k3method(k3path("", "FWD2"), 2, k3return(k3add(k3arg0, k3arg1, k3nullName))),
		k3method(k3path("", "NOAR"), 0, k3return(k3one)),
		// CAL2 invokes already declared methods, both in regular and in
		// deferred (while loop) blocks.
		k3method(k3path("", "CAL2"), 0,
			k3store(k3call(k3path("", "BAK1"), k3byte(0x05)), k3local0),
			k3call(k3path("", "NOAR")),
			k3while(k3lless(k3local0, k3byte(0x0a)),
				k3store(k3call(k3path("", "FWD2"), k3local0, k3call(k3path("", "BAK1"), k3one)), k3local0),
			),
			k3return(k3local0),
		),
	)

	dsdt := k3cat(
		k3scope(2, k3path("\\", "_SB_"),
			dev0,
			// the four PkgLength encodings
			k3device(1, k3path("", "PKG1"), k3name(k3path("", "_UID"), k3byte(1))),
			k3device(2, k3path("", "PKG2"), k3name(k3path("", "_UID"), k3byte(2))),
			k3device(3, k3path("", "PKG3"), k3name(k3path("", "_UID"), k3byte(3))),
			k3device(4, k3path("", "PKG4"), k3name(k3path("", "_UID"), k3byte(4))),
			// nesting
			k3device(1, k3path("", "NST0"),
				k3device(1, k3path("", "NST1"),
					k3device(1, k3path("", "NST2"),
						k3name(k3path("", "LEAF"), k3word(0x1234)),
					),
				),
			),
			// parent-prefixed name: declared inside Scope(\_SB) so it
			// belongs to the root scope
			k3thermal(k3path("^", "THRM"), k3name(k3path("", "DEF0"), k3ones)),
		),
		// Scope directive that can only be resolved once THRM has been moved
		// to the root scope
		k3scope(1, k3path("\\", "THRM"), k3name(k3path("", "DEF1"), k3byte(0x42))),
		// multi-segment (dual) names
		k3method(k3path("\\", "THRM", "MTH0"), 0, k3return(k3one)),
		k3name(k3path("\\", "_SB_", "TOPN"), k3string("top")),
		// relative scope directive + nested scope directive
		k3scope(1, k3path("", "_SB_"),
			k3scope(1, k3path("", "PKG1"), k3name(k3path("", "VIA1"), k3byte(0x99))),
		),
		k3processor(k3path("\\", "_PR_", "CPU0"), 1, 0x00000410, 6),
		k3powerres(k3path("", "PWR0"), 2, 0x0102),
		k3thermal(k3path("", "TZ00")),
	)

	// The second table refers to objects declared by the first one.
	ssdt := k3cat(
		k3scope(1, k3path("\\", "_SB_", "DEV0"),
			k3name(k3path("", "LATE"), k3byte(0x77)),
			k3method(k3path("", "M2ND"), 0,
				k3return(k3call(k3path("", "FWD2"), k3byte(1), k3call(k3path("", "AFTR"), k3byte(2), k3byte(3), k3byte(4)))),
			),
			k3method(k3path("", "AFTR"), 3, k3return(k3arg1)),
		),
		k3device(1, k3path("\\", "_SB_", "DEV2"), k3name(k3path("", "_UID"), k3byte(0x22))),
	)

	tree := NewObjectTree()
	tree.CreateDefaultScopes(42)

	var errOut k3writer
	p := NewParser(&errOut, tree)

	dsdtHeader, dsdtStream := k3table(dsdt)
	ssdtHeader, ssdtStream := k3table(ssdt)
	defer func() {
		// values inside the tree alias the table contents
		_, _ = dsdtStream[0], ssdtStream[0]
	}()

	if err := p.ParseAML(0, "DSDT", dsdtHeader); err != nil {
		t.Fatalf("DSDT: %v\nparser output:\n%s", err, errOut.buf.String())
	}
	if err := p.ParseAML(1, "SSDT", ssdtHeader); err != nil {
		t.Fatalf("SSDT: %v\nparser output:\n%s", err, errOut.buf.String())
	}

	t.Run("objects are found at their absolute path with the declared kind", func(t *testing.T) {
		specs := []struct {
			path   string
			opcode uint16
			table  uint8
		}{
			{`\_SB_.DEV0`, pOpDevice, 0},
			{`\_SB_.DEV0._HID`, pOpName, 0},
			{`\_SB_.DEV0.STR0`, pOpName, 0},
			{`\_SB_.DEV0.EMPT`, pOpName, 0},
			{`\_SB_.DEV0.BUF0`, pOpName, 0},
			{`\_SB_.DEV0.BUF1`, pOpName, 0},
			{`\_SB_.DEV0.QW00`, pOpName, 0},
			{`\_SB_.DEV0.REG0`, pOpOpRegion, 0},
			{`\_SB_.DEV0.FLD0`, pOpIntNamedField, 0},
			{`\_SB_.DEV0.FLD1`, pOpIntNamedField, 0},
			{`\_SB_.DEV0.FLD2`, pOpIntNamedField, 0},
			{`\_SB_.DEV0.FLD3`, pOpIntNamedField, 0},
			{`\_SB_.DEV0.MTX0`, pOpMutex, 0},
			{`\_SB_.DEV0.EVT0`, pOpEvent, 0},
			{`\_SB_.DEV0.CALR`, pOpMethod, 0},
			{`\_SB_.DEV0.BAK1`, pOpMethod, 0},
			{`\_SB_.DEV0.FWD2`, pOpMethod, 0},
			{`\_SB_.DEV0.NOAR`, pOpMethod, 0},
			{`\_SB_.DEV0.CAL2`, pOpMethod, 0},
			{`\_SB_.PKG1`, pOpDevice, 0},
			{`\_SB_.PKG2`, pOpDevice, 0},
			{`\_SB_.PKG3`, pOpDevice, 0},
			{`\_SB_.PKG4`, pOpDevice, 0},
			{`\_SB_.PKG1._UID`, pOpName, 0},
			{`\_SB_.PKG2._UID`, pOpName, 0},
			{`\_SB_.PKG3._UID`, pOpName, 0},
			{`\_SB_.PKG4._UID`, pOpName, 0},
			{`\_SB_.PKG1.VIA1`, pOpName, 0},
			{`\_SB_.NST0.NST1.NST2.LEAF`, pOpName, 0},
			{`\THRM`, pOpThermalZone, 0},
			{`\THRM.DEF0`, pOpName, 0},
			{`\THRM.DEF1`, pOpName, 0},
			{`\THRM.MTH0`, pOpMethod, 0},
			{`\_SB_.TOPN`, pOpName, 0},
			{`\_PR_.CPU0`, pOpProcessor, 0},
			{`\PWR0`, pOpPowerRes, 0},
			{`\TZ00`, pOpThermalZone, 0},
			// second table
			{`\_SB_.DEV0.LATE`, pOpName, 1},
			{`\_SB_.DEV0.M2ND`, pOpMethod, 1},
			{`\_SB_.DEV0.AFTR`, pOpMethod, 1},
			{`\_SB_.DEV2`, pOpDevice, 1},
			{`\_SB_.DEV2._UID`, pOpName, 1},
		}

		for _, spec := range specs {
			obj := k3resolve(tree, spec.path)
			if obj == nil {
				t.Errorf("%s: not found", spec.path)
				continue
			}
			if obj.opcode != spec.opcode {
				t.Errorf("%s: expected kind %s; got %s", spec.path, pOpcodeName(spec.opcode), pOpcodeName(obj.opcode))
			}
			if obj.tableHandle != spec.table {
				t.Errorf("%s: expected table handle %d; got %d", spec.path, spec.table, obj.tableHandle)
			}
		}

		// Objects must not be reachable via the place where they were written
		for _, path := range []string{`\_SB_.THRM`, `\CPU0`, `\TOPN`, `\MTH0`, `\LATE`, `\DEV2`, `\VIA1`} {
			if obj := k3resolve(tree, path); obj != nil {
				t.Errorf("%s: unexpectedly found (%s)", path, pOpcodeName(obj.opcode))
			}
		}

		// No scope directives may be left behind
		k3walk(tree, tree.ObjectAt(0), func(obj *Object) {
			if obj.opcode == pOpScope {
				t.Errorf("unresolved scope directive at offset 0x%x", obj.amlOffset)
			}
			if obj.opcode == pOpIntNamePathOrMethodCall {
				t.Errorf("unresolved name/method call at offset 0x%x", obj.amlOffset)
			}
		})
	})

	t.Run("constants, strings and buffers carry the encoded values", func(t *testing.T) {
		val := func(path string) *Object {
			args := k3args(tree, k3resolve(tree, path))
			if len(args) != 2 {
				t.Fatalf("%s: expected 2 args; got %d", path, len(args))
			}
			if args[0].opcode != pOpIntNamePath {
				t.Fatalf("%s: expected first arg to be a namepath", path)
			}
			return args[1]
		}

		k3expectNum(t, "_HID", val(`\_SB_.DEV0._HID`), pOpDwordPrefix, 0x0a0cd041)
		k3expectNum(t, "QW00", val(`\_SB_.DEV0.QW00`), pOpQwordPrefix, 0xbadc0feedeadc0de)
		k3expectNum(t, "WD00", val(`\_SB_.DEV0.WD00`), pOpWordPrefix, 0xbeef)
		k3expectNum(t, "BY00", val(`\_SB_.DEV0.BY00`), pOpBytePrefix, 0x7f)
		k3expectNum(t, "LEAF", val(`\_SB_.NST0.NST1.NST2.LEAF`), pOpWordPrefix, 0x1234)
		k3expectNum(t, "DEF1", val(`\THRM.DEF1`), pOpBytePrefix, 0x42)
		k3expectNum(t, "VIA1", val(`\_SB_.PKG1.VIA1`), pOpBytePrefix, 0x99)
		k3expectNum(t, "LATE", val(`\_SB_.DEV0.LATE`), pOpBytePrefix, 0x77)
		for i, path := range []string{`\_SB_.PKG1._UID`, `\_SB_.PKG2._UID`, `\_SB_.PKG3._UID`, `\_SB_.PKG4._UID`} {
			k3expectNum(t, path, val(path), pOpBytePrefix, uint64(i+1))
		}
		if got := val(`\_SB_.DEV0.ONE0`).opcode; got != pOpOne {
			t.Errorf("ONE0: expected One; got %s", pOpcodeName(got))
		}
		if got := val(`\_SB_.DEV0.ONES`).opcode; got != pOpOnes {
			t.Errorf("ONES: expected Ones; got %s", pOpcodeName(got))
		}
		if got := val(`\THRM.DEF0`).opcode; got != pOpOnes {
			t.Errorf("DEF0: expected Ones; got %s", pOpcodeName(got))
		}

		k3expectBytes(t, "STR0", val(`\_SB_.DEV0.STR0`), pOpStringPrefix, []byte("hello"))
		k3expectBytes(t, "EMPT", val(`\_SB_.DEV0.EMPT`), pOpStringPrefix, nil)
		k3expectBytes(t, "TOPN", val(`\_SB_.TOPN`), pOpStringPrefix, []byte("top"))

		buf0 := val(`\_SB_.DEV0.BUF0`)
		if buf0.opcode != pOpBuffer || tree.NumArgs(buf0) != 2 {
			t.Fatalf("BUF0: expected buffer with 2 args; got %s with %d args", pOpcodeName(buf0.opcode), tree.NumArgs(buf0))
		}
		k3expectNum(t, "BUF0 size", tree.ArgAt(buf0, 0), pOpBytePrefix, 4)
		k3expectBytes(t, "BUF0 data", tree.ArgAt(buf0, 1), pOpIntByteList, []byte{1, 2, 3, 4})

		buf1 := val(`\_SB_.DEV0.BUF1`)
		if buf1.opcode != pOpBuffer || tree.NumArgs(buf1) != 2 {
			t.Fatalf("BUF1: expected buffer with 2 args; got %s with %d args", pOpcodeName(buf1.opcode), tree.NumArgs(buf1))
		}
		k3expectNum(t, "BUF1 size", tree.ArgAt(buf1, 0), pOpBytePrefix, 8)
		k3expectBytes(t, "BUF1 data", tree.ArgAt(buf1, 1), pOpIntByteList, nil)

		// Declared args in order
		reg := k3args(tree, k3resolve(tree, `\_SB_.DEV0.REG0`))
		if len(reg) != 4 {
			t.Fatalf("REG0: expected 4 args; got %d", len(reg))
		}
		k3expectBytes(t, "REG0 name", reg[0], pOpIntNamePath, []byte("REG0"))
		k3expectNum(t, "REG0 space", reg[1], pOpBytePrefix, 1)
		k3expectNum(t, "REG0 offset", reg[2], pOpWordPrefix, 0x3000)
		k3expectNum(t, "REG0 len", reg[3], pOpBytePrefix, 0x10)

		mtx := k3args(tree, k3resolve(tree, `\_SB_.DEV0.MTX0`))
		if len(mtx) != 2 {
			t.Fatalf("MTX0: expected 2 args; got %d", len(mtx))
		}
		k3expectNum(t, "MTX0 sync level", mtx[1], pOpBytePrefix, 3)

		cpu := k3args(tree, k3resolve(tree, `\_PR_.CPU0`))
		if len(cpu) != 4 {
			t.Fatalf("CPU0: expected 4 args; got %d", len(cpu))
		}
		k3expectBytes(t, "CPU0 name", cpu[0], pOpIntNamePath, []byte("CPU0"))
		k3expectNum(t, "CPU0 id", cpu[1], pOpBytePrefix, 1)
		k3expectNum(t, "CPU0 pblk", cpu[2], pOpDwordPrefix, 0x410)
		k3expectNum(t, "CPU0 pblk len", cpu[3], pOpBytePrefix, 6)

		pwr := k3args(tree, k3resolve(tree, `\PWR0`))
		if len(pwr) != 3 {
			t.Fatalf("PWR0: expected 3 args; got %d", len(pwr))
		}
		k3expectNum(t, "PWR0 level", pwr[1], pOpBytePrefix, 2)
		k3expectNum(t, "PWR0 order", pwr[2], pOpWordPrefix, 0x0102)

		for path, argCount := range map[string]uint64{
			`\_SB_.DEV0.CALR`: 0, `\_SB_.DEV0.BAK1`: 1, `\_SB_.DEV0.FWD2`: 2,
			`\_SB_.DEV0.AFTR`: 3, `\THRM.MTH0`: 0,
		} {
			args := k3args(tree, k3resolve(tree, path))
			if len(args) != 2 {
				t.Fatalf("%s: expected 2 args; got %d", path, len(args))
			}
			k3expectNum(t, path+" flags", args[1], pOpBytePrefix, argCount)
		}
	})

	t.Run("field units carry the encoded offsets and widths", func(t *testing.T) {
		specs := []struct {
			path          string
			offset, width uint32
		}{
			{`\_SB_.DEV0.FLD0`, 0, 8},
			{`\_SB_.DEV0.FLD1`, 12, 16},
			{`\_SB_.DEV0.FLD2`, 98, 300},
			{`\_SB_.DEV0.FLD3`, 398, 1},
		}

		for _, spec := range specs {
			fe, ok := k3resolve(tree, spec.path).value.(*fieldElement)
			if !ok {
				t.Errorf("%s: no field element info", spec.path)
				continue
			}
			if fe.offset != spec.offset || fe.width != spec.width {
				t.Errorf("%s: expected offset/width %d/%d; got %d/%d", spec.path, spec.offset, spec.width, fe.offset, fe.width)
			}
			if fe.accessType != 1 || fe.lockType != 0 || fe.updateType != 0 {
				t.Errorf("%s: unexpected access/lock/update type %d/%d/%d", spec.path, fe.accessType, fe.lockType, fe.updateType)
			}
			if field := tree.ObjectAt(fe.fieldIndex); field == nil || field.opcode != pOpField {
				t.Errorf("%s: field index does not point to a Field", spec.path)
			}
		}
	})

	t.Run("method invocations have the declared number of args", func(t *testing.T) {
		// Generic check over every invocation in the tree
		var calls int
		k3walk(tree, tree.ObjectAt(0), func(obj *Object) {
			if obj.opcode != pOpIntMethodCall {
				return
			}
			calls++
			method := tree.ObjectAt(obj.value.(uint32))
			if method == nil || method.opcode != pOpMethod {
				t.Errorf("call at offset 0x%x does not point to a method", obj.amlOffset)
				return
			}
			exp := uint32(tree.ArgAt(method, 1).value.(uint64) & 0x7)
			if got := tree.NumArgs(obj); got != exp {
				t.Errorf("call to %s at offset 0x%x: expected %d args; got %d", method.name[:], obj.amlOffset, exp, got)
			}
		})
		if exp := 8; calls != exp {
			t.Errorf("expected %d method invocations; got %d", exp, calls)
		}

		body := func(path string) []*Object {
			return k3children(tree, k3resolve(tree, path))
		}

		// CALR: Return(FWD2(BAK1(0x11), 0x22)) - forward references
		calr := body(`\_SB_.DEV0.CALR`)
		if len(calr) != 1 || calr[0].opcode != pOpReturn || tree.NumArgs(calr[0]) != 1 {
			t.Fatalf("CALR: unexpected body")
		}
		outer := k3expectCall(t, tree, "CALR outer", tree.ArgAt(calr[0], 0), `\_SB_.DEV0.FWD2`, 2)
		inner := k3expectCall(t, tree, "CALR inner", outer[0], `\_SB_.DEV0.BAK1`, 1)
		k3expectNum(t, "CALR inner arg", inner[0], pOpBytePrefix, 0x11)
		k3expectNum(t, "CALR outer arg 1", outer[1], pOpBytePrefix, 0x22)

		// FWD2: Return(Add(Arg0, Arg1))
		fwd2 := body(`\_SB_.DEV0.FWD2`)
		if len(fwd2) != 1 || fwd2[0].opcode != pOpReturn || tree.NumArgs(fwd2[0]) != 1 {
			t.Fatalf("FWD2: unexpected body")
		}
		if add := tree.ArgAt(fwd2[0], 0); add.opcode != pOpAdd || tree.NumArgs(add) < 2 ||
			tree.ArgAt(add, 0).opcode != pOpArg0 || tree.ArgAt(add, 1).opcode != pOpArg1 {
			t.Errorf("FWD2: unexpected Add operands")
		}

		// CAL2: backward references, deferred while loop
		cal2 := body(`\_SB_.DEV0.CAL2`)
		if len(cal2) != 4 {
			t.Fatalf("CAL2: expected 4 statements; got %d", len(cal2))
		}
		if cal2[0].opcode != pOpStore || tree.NumArgs(cal2[0]) != 2 {
			t.Fatalf("CAL2[0]: expected Store with 2 args")
		}
		args := k3expectCall(t, tree, "CAL2[0]", tree.ArgAt(cal2[0], 0), `\_SB_.DEV0.BAK1`, 1)
		k3expectNum(t, "CAL2[0] arg", args[0], pOpBytePrefix, 5)
		if got := tree.ArgAt(cal2[0], 1).opcode; got != pOpLocal0 {
			t.Errorf("CAL2[0]: expected store target Local0; got %s", pOpcodeName(got))
		}
		k3expectCall(t, tree, "CAL2[1]", cal2[1], `\_SB_.DEV0.NOAR`, 0)

		if cal2[2].opcode != pOpWhile {
			t.Fatalf("CAL2[2]: expected While; got %s", pOpcodeName(cal2[2].opcode))
		}
		whileArgs := k3args(tree, cal2[2])
		if len(whileArgs) != 1 || whileArgs[0].opcode != pOpLLess || tree.NumArgs(whileArgs[0]) != 2 {
			t.Fatalf("CAL2[2]: unexpected predicate")
		}
		k3expectNum(t, "CAL2[2] predicate", tree.ArgAt(whileArgs[0], 1), pOpBytePrefix, 0x0a)
		loop := k3children(tree, cal2[2])
		if len(loop) != 1 || loop[0].opcode != pOpStore || tree.NumArgs(loop[0]) != 2 {
			t.Fatalf("CAL2[2]: unexpected loop body")
		}
		outer = k3expectCall(t, tree, "CAL2 loop outer", tree.ArgAt(loop[0], 0), `\_SB_.DEV0.FWD2`, 2)
		if outer[0] == nil || outer[0].opcode != pOpLocal0 {
			t.Errorf("CAL2 loop outer: expected arg 0 to be Local0")
		}
		inner = k3expectCall(t, tree, "CAL2 loop inner", outer[1], `\_SB_.DEV0.BAK1`, 1)
		if inner[0] == nil || inner[0].opcode != pOpOne {
			t.Errorf("CAL2 loop inner: expected arg 0 to be One")
		}
		if cal2[3].opcode != pOpReturn {
			t.Errorf("CAL2[3]: expected Return; got %s", pOpcodeName(cal2[3].opcode))
		}

		// M2ND (second table): Return(FWD2(1, AFTR(2, 3, 4))); FWD2 lives in
		// the first table while AFTR gets declared after the call.
		m2nd := body(`\_SB_.DEV0.M2ND`)
		if len(m2nd) != 1 || m2nd[0].opcode != pOpReturn || tree.NumArgs(m2nd[0]) != 1 {
			t.Fatalf("M2ND: unexpected body")
		}
		outer = k3expectCall(t, tree, "M2ND outer", tree.ArgAt(m2nd[0], 0), `\_SB_.DEV0.FWD2`, 2)
		k3expectNum(t, "M2ND outer arg 0", outer[0], pOpBytePrefix, 1)
		inner = k3expectCall(t, tree, "M2ND inner", outer[1], `\_SB_.DEV0.AFTR`, 3)
		for i, arg := range inner {
			k3expectNum(t, "M2ND inner arg", arg, pOpBytePrefix, uint64(i+2))
		}
	})

	t.Run("pretty printer output does not depend on the writer", func(t *testing.T) {
		var direct bytes.Buffer
		tree.PrettyPrint(&direct)

		var wrapped k3writer
		tree.PrettyPrint(&wrapped)

		if !bytes.Equal(direct.Bytes(), wrapped.buf.Bytes()) {
			t.Fatal("pretty printer output differs between writers")
		}

		for _, exp := range []string{
			`[Device, name: "DEV0", table: 0, `,
			`[Method, name: "FWD2", argCount: 2, table: 0, `,
			`[Method, name: "AFTR", argCount: 3, table: 1, `,
			`-> [string value: "hello"]`,
			`-> [num value; dec: 13464654504543502558, hex: 0xbadc0feedeadc0de]`,
			`-> [bytelist value; len: 4; data: [0x1, 0x2, 0x3, 0x4]]`,
			`-> [bytelist value; len: 0; data: []]`,
			`offset(bytes): 0x62, width(bits): 0x12c, accType: Byte, lockType: NoLock, updateType: Preserve, connection: -]`,
			`-> [call to "AFTR", argCount: 3, table: 1, `,
		} {
			if !strings.Contains(direct.String(), exp) {
				t.Errorf("pretty printer output lacks %q", exp)
			}
		}
	})

	t.Run("the same program parses into a fresh tree identically", func(t *testing.T) {
		// Parse the tables again using a brand new tree + parser and compare
		// the dumps; this makes sure that no state leaks between parsers.
		tree2 := NewObjectTree()
		tree2.CreateDefaultScopes(42)
		p2 := NewParser(&k3writer{}, tree2)

		h1, s1 := k3table(dsdt)
		h2, s2 := k3table(ssdt)
		if err := p2.ParseAML(0, "DSDT", h1); err != nil {
			t.Fatal(err)
		}
		if err := p2.ParseAML(1, "SSDT", h2); err != nil {
			t.Fatal(err)
		}

		var dump1, dump2 bytes.Buffer
		tree.PrettyPrint(&dump1)
		tree2.PrettyPrint(&dump2)
		_, _ = s1[0], s2[0]

		if !bytes.Equal(dump1.Bytes(), dump2.Bytes()) {
			t.Fatal("dumps differ")
		}
	})
}
