package hal

// Demonstration for property C18: "An active terminal and its console always
// show the same thing".
//
// The test drives the real tty.VT against the real VgaTextConsole and
// VesaFbConsole drivers (their unexported framebuffer/palette fields are
// injected via reflect+unsafe so no page-table or port I/O hooks are needed)
// and compares, after every operation, the *complete* console framebuffer
// against an image that is rendered from an independent reference model of the
// terminal viewport:
//   - while the terminal is active the framebuffer must be exactly the rendered
//     viewport; everything outside the cell grid must still hold its sentinel,
//   - while the terminal is inactive the framebuffer must not change at all,
//   - activation must make the framebuffer equal to the rendered viewport.
//
// A second test runs the same check through the hal link path (console/tty
// detection in either order, early kfmt ring buffer replay, later kfmt.Printf
// output).
//
// Nothing here depends on how many or which console calls are issued, on the
// layout of the terminal's backing store, on the tab width/scrollback defaults
// (they are referenced by name) or on the wording of the boot log.

import (
	"bytes"
	"image/color"
	"io"
	"math/rand"
	"reflect"
	"testing"
	"unsafe"

	"github.com/ProjectSerenity/firefly/kernel/device"
	"github.com/ProjectSerenity/firefly/kernel/device/tty"
	"github.com/ProjectSerenity/firefly/kernel/device/video/console"
	"github.com/ProjectSerenity/firefly/kernel/device/video/console/font"
	"github.com/ProjectSerenity/firefly/kernel/device/video/console/logo"
	"github.com/ProjectSerenity/firefly/kernel/kfmt"
	"github.com/ProjectSerenity/firefly/kernel/multiboot"
)

const c18Sentinel = 0xa5

// ---------------------------------------------------------------------------
// helpers for poking unexported fields
// ---------------------------------------------------------------------------

func c18Field(obj interface{}, name string) reflect.Value {
	f := reflect.ValueOf(obj).Elem().FieldByName(name)
	if !f.IsValid() {
		panic("no such field: " + name)
	}
	return reflect.NewAt(f.Type(), unsafe.Pointer(f.UnsafeAddr())).Elem()
}

// ---------------------------------------------------------------------------
// reference model of the terminal viewport
// ---------------------------------------------------------------------------

type c18Cell struct{ ch, fg, bg uint8 }

type c18Model struct {
	w, h         uint32
	tab          uint8
	x, y         uint32
	fg, bg       uint8
	defFg, defBg uint8
	rows         [][]c18Cell
}

func newC18Model(w, h uint32, tab, defFg, defBg uint8) *c18Model {
	m := &c18Model{w: w, h: h, tab: tab, x: 1, y: 1, fg: defFg, bg: defBg, defFg: defFg, defBg: defBg}
	for i := uint32(0); i < h; i++ {
		m.rows = append(m.rows, m.blankRow())
	}
	return m
}

func (m *c18Model) blankRow() []c18Cell {
	row := make([]c18Cell, m.w)
	for i := range row {
		row[i] = c18Cell{' ', m.defFg, m.defBg}
	}
	return row
}

func (m *c18Model) lf() {
	m.x = 1
	if m.y+1 <= m.h {
		m.y++
		return
	}
	m.rows = append(m.rows[1:], m.blankRow())
}

func (m *c18Model) put(b byte, advance bool) {
	m.rows[m.y-1][m.x-1] = c18Cell{b, m.fg, m.bg}
	if advance {
		m.x++
		if m.x > m.w {
			m.lf()
		}
	}
}

func (m *c18Model) writeByte(b byte) {
	switch b {
	case '\r':
		m.x = 1
	case '\n':
		m.lf()
	case '\b':
		if m.x > 1 {
			m.x--
			m.put(' ', false)
		}
	case '\t':
		for i := uint8(0); i < m.tab; i++ {
			m.put(' ', true)
		}
	default:
		m.put(b, true)
	}
}

// ---------------------------------------------------------------------------
// screens: a real console plus a renderer for the expected framebuffer
// ---------------------------------------------------------------------------

type c18Screen interface {
	name() string
	dev() console.Device
	// raw returns a copy of the raw framebuffer bytes.
	raw() []byte
	// render returns the framebuffer that shows exactly the model viewport.
	render(m *c18Model) []byte
}

// --- VGA text mode ---

type c18Vga struct {
	label string
	cons  *console.VgaTextConsole
	fb    []uint16
	w, h  uint32
}

func newC18Vga(label string, w, h uint32) *c18Vga {
	s := &c18Vga{label: label, cons: console.NewVgaTextConsole(w, h, 0xb8000), w: w, h: h}
	s.fb = make([]uint16, w*h)
	for i := range s.fb {
		s.fb[i] = c18Sentinel<<8 | c18Sentinel
	}
	c18Field(s.cons, "fb").Set(reflect.ValueOf(s.fb))
	return s
}

func (s *c18Vga) name() string        { return s.label }
func (s *c18Vga) dev() console.Device { return s.cons }

func (s *c18Vga) raw() []byte {
	out := make([]byte, 0, len(s.fb)*2)
	for _, v := range s.fb {
		out = append(out, byte(v), byte(v>>8))
	}
	return out
}

func (s *c18Vga) render(m *c18Model) []byte {
	out := make([]byte, 0, len(s.fb)*2)
	for y := uint32(0); y < s.h; y++ {
		for x := uint32(0); x < s.w; x++ {
			c := m.rows[y][x]
			out = append(out, c.ch, c.bg<<4|c.fg)
		}
	}
	return out
}

// --- VESA framebuffer ---

type c18Vesa struct {
	label         string
	cons          *console.VesaFbConsole
	fb            []byte
	base          []byte // framebuffer content before any text got drawn
	w, h          uint32
	bpp           uint32
	bytesPerPixel uint32
	pitch         uint32
	colorInfo     *multiboot.FramebufferRGBColorInfo
}

func c18ColorInfo(bpp uint8) *multiboot.FramebufferRGBColorInfo {
	switch bpp {
	case 15:
		return &multiboot.FramebufferRGBColorInfo{RedPosition: 10, RedMaskSize: 5, GreenPosition: 5, GreenMaskSize: 5, BluePosition: 0, BlueMaskSize: 5}
	case 16:
		return &multiboot.FramebufferRGBColorInfo{RedPosition: 11, RedMaskSize: 5, GreenPosition: 5, GreenMaskSize: 6, BluePosition: 0, BlueMaskSize: 5}
	case 24, 32:
		return &multiboot.FramebufferRGBColorInfo{RedPosition: 16, RedMaskSize: 8, GreenPosition: 8, GreenMaskSize: 8, BluePosition: 0, BlueMaskSize: 8}
	}
	return nil
}

func c18Palette() color.Palette {
	pal := make(color.Palette, 256)
	for i := range pal {
		pal[i] = color.RGBA{R: uint8(i*7 + 3), G: uint8(255 - i), B: uint8(i*13 + 5)}
	}
	return pal
}

// newC18VesaRaw creates a console with an injected framebuffer and palette but
// without logo or font.
func newC18VesaRaw(label string, w, h uint32, bpp uint8, pitch uint32) *c18Vesa {
	s := &c18Vesa{
		label: label, w: w, h: h, bpp: uint32(bpp), bytesPerPixel: uint32(bpp+1) >> 3,
		pitch: pitch, colorInfo: c18ColorInfo(bpp),
	}
	s.cons = console.NewVesaFbConsole(w, h, bpp, pitch, s.colorInfo, 0xa0000)
	s.fb = bytes.Repeat([]byte{c18Sentinel}, int(h*pitch))
	c18Field(s.cons, "fb").Set(reflect.ValueOf(s.fb))
	c18Field(s.cons, "palette").Set(reflect.ValueOf(c18Palette()))
	return s
}

// newC18Vesa creates a console with the given font whose text area begins
// offsetY pixel rows below the top of the framebuffer.
func newC18Vesa(label string, w, h uint32, bpp uint8, pitch uint32, f *font.Font, offsetY uint32) *c18Vesa {
	s := newC18VesaRaw(label, w, h, bpp, pitch)
	c18Field(s.cons, "offsetY").SetUint(uint64(offsetY))
	s.cons.SetFont(f)
	s.base = append([]byte(nil), s.fb...)
	return s
}

func (s *c18Vesa) name() string        { return s.label }
func (s *c18Vesa) dev() console.Device { return s.cons }
func (s *c18Vesa) raw() []byte         { return append([]byte(nil), s.fb...) }

func (s *c18Vesa) pack(index uint8) []byte {
	if s.bpp == 8 {
		return []byte{index}
	}
	c := s.cons.Palette()[index].(color.RGBA)
	ci := s.colorInfo
	packed := uint32(c.R>>(8-ci.RedMaskSize))<<ci.RedPosition |
		uint32(c.G>>(8-ci.GreenMaskSize))<<ci.GreenPosition |
		uint32(c.B>>(8-ci.BlueMaskSize))<<ci.BluePosition
	if s.bpp <= 16 {
		return []byte{byte(packed), byte(packed >> 8)}
	}
	return []byte{byte(packed), byte(packed >> 8), byte(packed >> 16)}
}

func (s *c18Vesa) render(m *c18Model) []byte {
	out := append([]byte(nil), s.base...)
	f := (*font.Font)(unsafe.Pointer(c18Field(s.cons, "font").Pointer()))
	offsetY := uint32(c18Field(s.cons, "offsetY").Uint())

	for cy := uint32(0); cy < m.h; cy++ {
		for cx := uint32(0); cx < m.w; cx++ {
			c := m.rows[cy][cx]
			fg, bg := s.pack(c.fg), s.pack(c.bg)
			glyph := f.Data[uint32(c.ch)*f.BytesPerRow*f.GlyphHeight:]
			for gy := uint32(0); gy < f.GlyphHeight; gy++ {
				for gx := uint32(0); gx < f.GlyphWidth; gx++ {
					bit := glyph[gy*f.BytesPerRow+gx/8] & (0x80 >> (gx % 8))
					px := fg
					if bit == 0 {
						px = bg
					}
					off := (offsetY+cy*f.GlyphHeight+gy)*s.pitch + (cx*f.GlyphWidth+gx)*s.bytesPerPixel
					copy(out[off:], px)
				}
			}
		}
	}
	return out
}

// ---------------------------------------------------------------------------
// comparison helper
// ---------------------------------------------------------------------------

func c18Diff(a, b []byte) int {
	if len(a) != len(b) {
		return 0
	}
	for i := range a {
		if a[i] != b[i] {
			return i
		}
	}
	return -1
}

// ---------------------------------------------------------------------------
// Test 1: VT driven directly
// ---------------------------------------------------------------------------

func c18RandomChunk(rng *rand.Rand, maxLen int) []byte {
	n := 1 + rng.Intn(maxLen)
	out := make([]byte, n)
	for i := range out {
		switch r := rng.Intn(100); {
		case r < 8:
			out[i] = '\n'
		case r < 12:
			out[i] = '\r'
		case r < 18:
			out[i] = '\b'
		case r < 23:
			out[i] = '\t'
		case r < 33:
			out[i] = ' '
		case r < 43:
			out[i] = byte(rng.Intn(256))
		default:
			out[i] = byte(0x21 + rng.Intn(0x5e))
		}
	}
	return out
}

func c18RunDirect(t *testing.T, scr c18Screen, tab uint8, scrollback uint32, seed int64, activateBeforeAttach bool, maxColor int) {
	rng := rand.New(rand.NewSource(seed))
	term := tty.NewVT(tab, scrollback)
	cons := scr.dev()

	if activateBeforeAttach {
		term.SetState(tty.StateActive)
	}

	pristine := scr.raw()
	term.AttachTo(cons)

	cw, ch := cons.Dimensions(console.Characters)
	defFg, defBg := cons.DefaultColors()
	m := newC18Model(cw, ch, tab, defFg, defBg)

	if activateBeforeAttach {
		// What the console shows right after attaching to an already
		// active terminal is not asserted here (the hal always attaches
		// first); cycle through the inactive state so that the next
		// activation defines the console contents.
		term.SetState(tty.StateInactive)
	} else if at := c18Diff(scr.raw(), pristine); at >= 0 {
		t.Fatalf("[%s] attaching an inactive terminal touched the console at byte %d", scr.name(), at)
	}

	active := false
	frozen := scr.raw()

	check := func(step int, what string) {
		if active {
			if at := c18Diff(scr.raw(), scr.render(m)); at >= 0 {
				t.Fatalf("[%s seed %d step %d] after %s: console differs from the terminal viewport at framebuffer byte %d", scr.name(), seed, step, what, at)
			}
		} else if at := c18Diff(scr.raw(), frozen); at >= 0 {
			t.Fatalf("[%s seed %d step %d] after %s: console was touched at framebuffer byte %d while the terminal is inactive", scr.name(), seed, step, what, at)
		}
	}

	setState := func(on bool) {
		if on {
			term.SetState(tty.StateActive)
		} else {
			term.SetState(tty.StateInactive)
			frozen = scr.raw()
		}
		active = on
	}

	steps := 260
	for step := 0; step < steps; step++ {
		switch r := rng.Intn(100); {
		case r < 10:
			setState(!active)
			check(step, "state change")
		case r < 14:
			// redundant state change
			setState(active)
			check(step, "redundant state change")
		case r < 24 && maxColor > 0:
			fg, bg := uint8(rng.Intn(maxColor)), uint8(rng.Intn(maxColor))
			c18Field(term, "curFg").SetUint(uint64(fg))
			c18Field(term, "curBg").SetUint(uint64(bg))
			m.fg, m.bg = fg, bg
		case r < 60:
			chunk := c18RandomChunk(rng, 3*int(cw)/2+2)
			n, err := term.Write(chunk)
			if err != nil || n != len(chunk) {
				t.Fatalf("[%s] Write returned (%d, %v)", scr.name(), n, err)
			}
			for _, b := range chunk {
				m.writeByte(b)
			}
			check(step, "Write")
		default:
			for _, b := range c18RandomChunk(rng, 6) {
				if err := term.WriteByte(b); err != nil {
					t.Fatalf("[%s] WriteByte returned %v", scr.name(), err)
				}
				m.writeByte(b)
				check(step, "WriteByte")
			}
		}
	}

	// Finish with a burst that is guaranteed to scroll past the scrollback
	// followed by one last deactivate/activate cycle.
	for i := uint32(0); i < ch+scrollback+3; i++ {
		line := []byte("line \tnumber\n")
		line[0] = byte('A' + i%26)
		term.Write(line)
		for _, b := range line {
			m.writeByte(b)
		}
		check(steps, "burst")
	}
	setState(false)
	check(steps, "final deactivate")
	term.Write([]byte("written while inactive\b\b\n\tx"))
	for _, b := range []byte("written while inactive\b\b\n\tx") {
		m.writeByte(b)
	}
	check(steps, "inactive write")
	setState(true)
	check(steps, "final activate")
}

func TestC18Keep3Direct(t *testing.T) {
	// The space glyph of every shipped font must be blank: clearing a cell
	// and drawing a space are then indistinguishable.
	for _, name := range []string{"terminus8x16", "terminus10x18", "terminus14x28"} {
		f := font.FindByName(name)
		if f == nil {
			t.Fatalf("font %s not found", name)
		}
		if got, exp := uint32(len(f.Data)), 256*f.BytesPerRow*f.GlyphHeight; got < exp {
			t.Fatalf("font %s has %d bytes of glyph data; expected at least %d", name, got, exp)
		}
		for _, b := range f.Data[' '*f.BytesPerRow*f.GlyphHeight : (' '+1)*f.BytesPerRow*f.GlyphHeight] {
			if b != 0 {
				t.Fatalf("font %s has a non-blank space glyph", name)
			}
		}
	}

	type mk func() c18Screen
	f8, f10, f14 := font.FindByName("terminus8x16"), font.FindByName("terminus10x18"), font.FindByName("terminus14x28")

	specs := []struct {
		make     mk
		maxColor int
	}{
		{func() c18Screen { return newC18Vga("vga 80x25", 80, 25) }, 15},
		{func() c18Screen { return newC18Vga("vga 40x12", 40, 12) }, 15},
		{func() c18Screen { return newC18Vga("vga 7x3", 7, 3) }, 15},
		{func() c18Screen { return newC18Vga("vga 1x1", 1, 1) }, 15},
		{func() c18Screen { return newC18Vga("vga 132x2", 132, 2) }, 15},
		{func() c18Screen { return newC18Vesa("fb 8bpp 8x16", 83, 70, 8, 83, f8, 0) }, 256},
		{func() c18Screen { return newC18Vesa("fb 8bpp 10x18 pitch+5 logo 7", 64, 70, 8, 69, f10, 7) }, 256},
		{func() c18Screen { return newC18Vesa("fb 15bpp 8x16 logo 16", 80, 90, 15, 160, f8, 16) }, 256},
		{func() c18Screen { return newC18Vesa("fb 16bpp 14x28 pitch+6", 75, 91, 16, 156, f14, 0) }, 256},
		{func() c18Screen { return newC18Vesa("fb 24bpp 10x18 pitch+1 logo 5", 53, 64, 24, 160, f10, 5) }, 256},
		{func() c18Screen { return newC18Vesa("fb 32bpp 8x16 logo 9", 50, 60, 32, 200, f8, 9) }, 256},
		{func() c18Screen { return newC18Vesa("fb 32bpp 14x28 pitch+12", 44, 90, 32, 188, f14, 0) }, 256},
	}

	for specIndex, spec := range specs {
		for run, scrollback := range []uint32{0, 1, 5, tty.DefaultScrollback} {
			seed := int64(1000*specIndex + run)
			c18RunDirect(t, spec.make(), uint8(run*3+1), scrollback, seed, false, spec.maxColor)
			// default colors only
			c18RunDirect(t, spec.make(), tty.DefaultTabWidth, scrollback, seed+500, false, 0)
		}
		c18RunDirect(t, spec.make(), tty.DefaultTabWidth, 2, int64(77+specIndex), true, spec.maxColor)
	}
}

// ---------------------------------------------------------------------------
// Test 2: through the hal link path and kfmt
// ---------------------------------------------------------------------------

// c18TeeTTY forwards everything to a real VT and feeds a copy of the bytes the
// terminal accepted to the reference model.
type c18TeeTTY struct {
	*tty.VT
	tab   uint8
	model *c18Model
}

func (tee *c18TeeTTY) AttachTo(cons console.Device) {
	tee.VT.AttachTo(cons)
	w, h := cons.Dimensions(console.Characters)
	fg, bg := cons.DefaultColors()
	tee.model = newC18Model(w, h, tee.tab, fg, bg)
}

func (tee *c18TeeTTY) Write(p []byte) (int, error) {
	n, err := tee.VT.Write(p)
	if tee.model != nil {
		for _, b := range p[:n] {
			tee.model.writeByte(b)
		}
	}
	return n, err
}

func (tee *c18TeeTTY) WriteByte(b byte) error {
	err := tee.VT.WriteByte(b)
	if err == nil && tee.model != nil {
		tee.model.writeByte(b)
	}
	return err
}

var (
	_ tty.Device    = (*c18TeeTTY)(nil)
	_ device.Driver = (*c18TeeTTY)(nil)
)

func TestC18Keep3HalLink(t *testing.T) {
	// GetBootCmdLine needs a (possibly empty) multiboot info block.
	mbInfo := make([]uint64, 8)
	multiboot.SetInfoPtr(uintptr(unsafe.Pointer(&mbInfo[0])))

	defer func() {
		devices = managedDevices{}
		kfmt.SetOutputSink(nil)
	}()

	type mk func() (scr c18Screen, drv device.Driver)

	vesa := func(label string, w, h uint32, bpp uint8, pitch uint32) mk {
		return func() (c18Screen, device.Driver) {
			s := newC18VesaRaw(label, w, h, bpp, pitch)
			// Whatever the hal draws outside the text area (the logo) is
			// obtained from a twin console that never shows any text.
			twin := newC18VesaRaw(label+" twin", w, h, bpp, pitch)
			twin.cons.SetLogo(logo.BestFit(w, h))
			s.base = twin.raw()
			return s, s.cons
		}
	}

	specs := []mk{
		func() (c18Screen, device.Driver) { s := newC18Vga("vga 80x25", 80, 25); return s, s.cons },
		func() (c18Screen, device.Driver) { s := newC18Vga("vga 30x6", 30, 6); return s, s.cons },
		vesa("fb 16bpp 320x200", 320, 200, 16, 648),
		vesa("fb 24bpp 200x150", 200, 150, 24, 600),
		vesa("fb 32bpp 256x192", 256, 192, 32, 1030),
	}

	for specIndex, spec := range specs {
		for _, ttyFirst := range []bool{true, false} {
			scr, consDrv := spec()

			// Start from a clean slate: no devices, empty early print buffer.
			devices = managedDevices{}
			kfmt.SetOutputSink(io.Discard)
			kfmt.SetOutputSink(nil)

			// Early boot log; long enough to overflow small ring buffers
			// and to scroll every console used here.
			for i := 0; i < 70; i++ {
				kfmt.Printf("[early] line %3d\tof the boot log: 0x%8x\n", i, i*0x1234)
			}
			kfmt.Printf("partial line, \bno newline")

			tee := &c18TeeTTY{VT: tty.NewVT(tty.DefaultTabWidth, tty.DefaultScrollback), tab: tty.DefaultTabWidth}

			if ttyFirst {
				onDriverInit(nil, tee)
				onDriverInit(nil, consDrv)
			} else {
				onDriverInit(nil, consDrv)
				onDriverInit(nil, tee)
			}

			label := scr.name()
			if ttyFirst {
				label += " (tty first)"
			}

			if ActiveTTY() != tty.Device(tee) {
				t.Fatalf("[%s] expected the tee terminal to be the active TTY", label)
			}
			if tee.State() != tty.StateActive {
				t.Fatalf("[%s] expected the linked terminal to be active", label)
			}
			if tee.model == nil {
				t.Fatalf("[%s] expected the terminal to be attached", label)
			}
			if kfmt.GetOutputSink() != io.Writer(tee) {
				t.Fatalf("[%s] expected the terminal to be the kfmt output sink", label)
			}

			check := func(what string) {
				if at := c18Diff(scr.raw(), scr.render(tee.model)); at >= 0 {
					t.Fatalf("[spec %d: %s] %s: console differs from the terminal viewport at framebuffer byte %d", specIndex, label, what, at)
				}
			}

			check("after link")

			for i := 0; i < 40; i++ {
				kfmt.Printf("post-link %d:\t%s\r%d\n", i, "some text that is long enough to wrap around on narrow consoles", i)
				check("after Printf")
			}

			tee.SetState(tty.StateInactive)
			frozen := scr.raw()
			for i := 0; i < 12; i++ {
				kfmt.Printf("hidden %d\n\t\b.", i)
			}
			if at := c18Diff(scr.raw(), frozen); at >= 0 {
				t.Fatalf("[%s] console touched at byte %d while the terminal is inactive", label, at)
			}
			tee.SetState(tty.StateActive)
			check("after re-activation")
			kfmt.Printf("done\n")
			check("after final Printf")
		}
	}
}
