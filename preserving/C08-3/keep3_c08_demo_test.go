package sync

import (
	"runtime"
	"runtime/debug"
	gosync "sync"
	"sync/atomic"
	"testing"
	"time"
)

// The checks below only use the public Spinlock API (Acquire, TryToAcquire,
// Release) and the yieldFn hook. They make no assumption about the value kept
// in the lock word, the number of polls, or how often yieldFn gets invoked.

func keep3SetYield(t *testing.T, fn func()) {
	t.Helper()
	orig := yieldFn
	yieldFn = fn
	t.Cleanup(func() { yieldFn = orig })
}

// TestKeep3C08TryNeverLies checks the sequential contract of TryToAcquire and
// Release: true exactly when the lock was taken, false (any number of times)
// while held, and the lock can be re-taken after a release.
func TestKeep3C08TryNeverLies(t *testing.T) {
	keep3SetYield(t, runtime.Gosched)

	var sl Spinlock

	// Releasing a free lock has no effect: it is still free afterwards.
	sl.Release()

	for round := 0; round < 100; round++ {
		if !sl.TryToAcquire() {
			t.Fatalf("round %d: TryToAcquire on a free lock returned false", round)
		}
		for i := 0; i < 5; i++ {
			if sl.TryToAcquire() {
				t.Fatalf("round %d: TryToAcquire #%d on a held lock returned true", round, i)
			}
		}
		// The failed attempts must not have released the lock or made it
		// un-releasable.
		sl.Release()

		// Blocking acquire of a free lock returns immediately.
		sl.Acquire()
		if sl.TryToAcquire() {
			t.Fatalf("round %d: TryToAcquire returned true while held via Acquire", round)
		}
		sl.Release()
		sl.Release() // double release: no effect
	}

	if !sl.TryToAcquire() {
		t.Fatal("lock not free at the end")
	}
	sl.Release()
}

// TestKeep3C08AcquireBlocksWhileHeld checks that a blocking acquire does not
// return while another task holds the lock and does return after the release.
func TestKeep3C08AcquireBlocksWhileHeld(t *testing.T) {
	keep3SetYield(t, runtime.Gosched)

	for _, viaTry := range []bool{false, true} {
		var (
			sl       Spinlock
			released uint32
			early    uint32
			wg       gosync.WaitGroup
		)

		if viaTry {
			if !sl.TryToAcquire() {
				t.Fatal("TryToAcquire on a free lock returned false")
			}
		} else {
			sl.Acquire()
		}

		const waiters = 4
		wg.Add(waiters)
		for i := 0; i < waiters; i++ {
			go func() {
				defer wg.Done()
				sl.Acquire()
				if atomic.LoadUint32(&released) == 0 {
					atomic.StoreUint32(&early, 1)
				}
				sl.Release()
			}()
		}

		// Long enough for any bounded spin budget to be exhausted many
		// times over.
		time.Sleep(50 * time.Millisecond)
		if atomic.LoadUint32(&early) != 0 {
			t.Fatalf("viaTry=%v: Acquire returned while the lock was held", viaTry)
		}
		if sl.TryToAcquire() {
			t.Fatalf("viaTry=%v: TryToAcquire returned true while the lock was held", viaTry)
		}

		atomic.StoreUint32(&released, 1)
		sl.Release()

		done := make(chan struct{})
		go func() { wg.Wait(); close(done) }()
		select {
		case <-done:
		case <-time.After(10 * time.Second):
			t.Fatalf("viaTry=%v: waiters did not get the lock after release", viaTry)
		}
		if atomic.LoadUint32(&early) != 0 {
			t.Fatalf("viaTry=%v: Acquire returned while the lock was held", viaTry)
		}
	}
}

// keep3Stress runs workers that mix blocking acquires and try-acquires and
// checks mutual exclusion plus visibility of work done inside the lock.
func keep3Stress(t *testing.T, workers, iters int) {
	t.Helper()

	var (
		sl        Spinlock
		wg        gosync.WaitGroup
		inside    int32  // atomically tracked number of holders
		counter   uint64 // plain variable, only touched while holding sl
		shadow    [8]uint64
		taken     uint64 // atomically tracked number of successful acquisitions
		violation uint32
		tryFalse  uint64
	)

	start := make(chan struct{})
	wg.Add(workers)
	for w := 0; w < workers; w++ {
		go func(w int) {
			defer wg.Done()
			<-start
			for i := 0; i < iters; i++ {
				got := true
				switch (i + w) % 3 {
				case 0:
					sl.Acquire()
				default:
					got = sl.TryToAcquire()
				}
				if !got {
					atomic.AddUint64(&tryFalse, 1)
					runtime.Gosched()
					continue
				}

				if atomic.AddInt32(&inside, 1) != 1 {
					atomic.StoreUint32(&violation, 1)
				}
				// Non-atomic read-modify-write of several words; the
				// words must always agree for the next holder.
				c := counter
				for k := range shadow {
					if shadow[k] != c {
						atomic.StoreUint32(&violation, 2)
					}
				}
				c++
				if i%5 == 0 {
					// Get descheduled while holding the lock so that
					// waiters really do meet a held lock, even on a
					// single core.
					runtime.Gosched()
				}
				for k := range shadow {
					shadow[k] = c
				}
				counter = c
				atomic.AddUint64(&taken, 1)
				if atomic.AddInt32(&inside, -1) != 0 {
					atomic.StoreUint32(&violation, 1)
				}
				sl.Release()
			}
		}(w)
	}

	done := make(chan struct{})
	go func() { wg.Wait(); close(done) }()
	close(start)
	select {
	case <-done:
	case <-time.After(60 * time.Second):
		t.Fatal("stress workers did not finish (lost release / deadlock)")
	}

	switch atomic.LoadUint32(&violation) {
	case 1:
		t.Fatal("two tasks were inside the lock at the same time")
	case 2:
		t.Fatal("work done inside the lock was not visible to the next holder")
	}

	sl.Acquire()
	if counter != atomic.LoadUint64(&taken) {
		t.Fatalf("lost updates: counter=%d, successful acquisitions=%d", counter, taken)
	}
	sl.Release()

	if !sl.TryToAcquire() {
		t.Fatal("lock not free after all holders released it")
	}
	sl.Release()
	t.Logf("workers=%d acquisitions=%d failed tries=%d", workers, taken, tryFalse)
}

// TestKeep3C08MutualExclusion runs the stress check with a yield function
// installed (cooperative waiters) on one and on all cores.
func TestKeep3C08MutualExclusion(t *testing.T) {
	keep3SetYield(t, runtime.Gosched)

	for _, procs := range []int{1, 2, runtime.NumCPU()} {
		prev := runtime.GOMAXPROCS(procs)
		for _, workers := range []int{2, 3, 8} {
			keep3Stress(t, workers, 10000)
		}
		runtime.GOMAXPROCS(prev)
	}
}

// TestKeep3C08ParallelNoYield runs the stress check with no yield function at
// all, i.e. pure busy-waiting by tasks running truly in parallel. It needs at
// least two cores so that a spinning waiter cannot starve the holder.
func TestKeep3C08ParallelNoYield(t *testing.T) {
	if runtime.NumCPU() < 2 {
		t.Skip("needs at least 2 CPUs")
	}
	keep3SetYield(t, nil)

	// A waiter spinning without a yield function cannot be stopped by the Go
	// runtime; keep the collector out of the way so that it never waits for
	// one while the holder is parked.
	defer debug.SetGCPercent(debug.SetGCPercent(-1))

	workers := runtime.NumCPU()
	if workers > 4 {
		workers = 4
	}
	prev := runtime.GOMAXPROCS(workers + 1)
	defer runtime.GOMAXPROCS(prev)

	keep3Stress(t, workers, 10000)
}
