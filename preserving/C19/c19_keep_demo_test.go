package console

// Demonstration for property C19: console drivers paint exactly the addressed
// cells and never touch memory outside the framebuffer or the padding bytes
// between rows.
//
// The test drives Write, Fill and Scroll of both console drivers over a set of
// geometries / pixel formats / fonts / argument values and compares the whole
// framebuffer (including guard bytes placed before and after it and the
// padding bytes at the end of each row) against an independent, pixel-level
// reference model. It only asserts what the property states; in particular it
// makes no assumption about the order or the number of stores performed by the
// drivers.

import (
	"image/color"
	"math/rand"
	"testing"

	"github.com/ProjectSerenity/firefly/kernel/device/video/console/font"
	"github.com/ProjectSerenity/firefly/kernel/multiboot"
)

const (
	c19Guard    = 64
	c19GuardVal = 0xC3
	c19PadVal   = 0xA5
)

type c19Geometry struct {
	width, height, pitchExtra uint32
	bpp                       uint8
	ci                        *multiboot.FramebufferRGBColorInfo
	glyphW, glyphH            uint32
	logoH                     uint32
}

func c19BytesPerPixel(bpp uint8) uint32 { return (uint32(bpp) + 1) >> 3 }

func c19StoreLen(bpp uint8) uint32 {
	switch bpp {
	case 8:
		return 1
	case 15, 16:
		return 2
	default:
		return 3
	}
}

// c19Pack is an independent model of the pixel packing for a palette entry.
func c19Pack(g *c19Geometry, pal color.Palette, index uint8) [3]uint8 {
	if g.bpp == 8 {
		return [3]uint8{index, 0, 0}
	}
	c := pal[index].(color.RGBA)
	comp := func(v uint8, size, pos uint8) uint64 {
		if size > 8 {
			return 0
		}
		return uint64(v>>(8-size)) << pos
	}
	packed := comp(c.R, g.ci.RedMaskSize, g.ci.RedPosition) |
		comp(c.G, g.ci.GreenMaskSize, g.ci.GreenPosition) |
		comp(c.B, g.ci.BlueMaskSize, g.ci.BluePosition)
	if c19StoreLen(g.bpp) == 2 {
		packed &= 0xffff
	}
	return [3]uint8{uint8(packed), uint8(packed >> 8), uint8(packed >> 16)}
}

type c19Vesa struct {
	g       *c19Geometry
	cons    *VesaFbConsole
	backing []uint8
	fnt     *font.Font
	cols    uint32
	rows    uint32
}

func c19NewVesa(rng *rand.Rand, g *c19Geometry) *c19Vesa {
	bytesPP := c19BytesPerPixel(g.bpp)
	pitch := g.width*bytesPP + g.pitchExtra
	size := g.height * pitch

	backing := make([]uint8, size+2*c19Guard)
	for i := range backing {
		backing[i] = c19GuardVal
	}
	fb := backing[c19Guard : c19Guard+size : c19Guard+size]
	for y := uint32(0); y < g.height; y++ {
		for i := uint32(0); i < pitch; i++ {
			if i < g.width*bytesPP {
				fb[y*pitch+i] = uint8(rng.Intn(256))
			} else {
				fb[y*pitch+i] = c19PadVal
			}
		}
	}

	bytesPerRow := (g.glyphW + 7) / 8
	fnt := &font.Font{
		Name:        "c19",
		GlyphWidth:  g.glyphW,
		GlyphHeight: g.glyphH,
		BytesPerRow: bytesPerRow,
		Data:        make([]byte, 256*bytesPerRow*g.glyphH),
	}
	for i := range fnt.Data {
		fnt.Data[i] = byte(rng.Intn(256))
	}

	cons := NewVesaFbConsole(g.width, g.height, g.bpp, pitch, g.ci, 0)
	cons.fb = fb
	cons.palette = make(color.Palette, 256)
	for i := range cons.palette {
		cons.palette[i] = color.RGBA{R: uint8(rng.Intn(256)), G: uint8(rng.Intn(256)), B: uint8(rng.Intn(256))}
	}
	cons.offsetY = g.logoH
	cons.SetFont(fnt)

	return &c19Vesa{
		g: g, cons: cons, backing: backing, fnt: fnt,
		cols: g.width / g.glyphW,
		rows: (g.height - g.logoH) / g.glyphH,
	}
}

func (v *c19Vesa) snapshot() []uint8 {
	return append([]uint8(nil), v.backing...)
}

func (v *c19Vesa) pitch() uint32 {
	return v.g.width*c19BytesPerPixel(v.g.bpp) + v.g.pitchExtra
}

// pixelOffset returns the offset in the backing store of the pixel at (px, py)
// where py is relative to the top of the text area.
func (v *c19Vesa) pixelOffset(px, py uint32) uint32 {
	return c19Guard + (py+v.g.logoH)*v.pitch() + px*c19BytesPerPixel(v.g.bpp)
}

func (v *c19Vesa) compare(t *testing.T, what string, exp []uint8) bool {
	t.Helper()
	got := v.backing
	size := uint32(len(got)) - 2*c19Guard
	pitch := v.pitch()
	rowBytes := v.g.width * c19BytesPerPixel(v.g.bpp)
	for i := range got {
		if got[i] == exp[i] {
			continue
		}
		switch {
		case uint32(i) < c19Guard || uint32(i) >= c19Guard+size:
			t.Errorf("%s: byte outside the framebuffer modified (backing offset %d)", what, i)
		case (uint32(i)-c19Guard)%pitch >= rowBytes:
			t.Errorf("%s: row padding byte modified (fb offset %d)", what, uint32(i)-c19Guard)
		default:
			off := uint32(i) - c19Guard
			t.Errorf("%s: fb row %d byte %d: got 0x%02x; want 0x%02x", what, off/pitch, off%pitch, got[i], exp[i])
		}
		return false
	}
	return true
}

func (v *c19Vesa) expectWrite(before []uint8, ch byte, fg, bg uint8, x, y uint32) []uint8 {
	exp := append([]uint8(nil), before...)
	if x < 1 || x > v.cols || y < 1 || y > v.rows {
		return exp
	}
	fgC := c19Pack(v.g, v.cons.palette, fg)
	bgC := c19Pack(v.g, v.cons.palette, bg)
	n := c19StoreLen(v.g.bpp)
	for gy := uint32(0); gy < v.g.glyphH; gy++ {
		for gx := uint32(0); gx < v.g.glyphW; gx++ {
			b := v.fnt.Data[(uint32(ch)*v.g.glyphH+gy)*v.fnt.BytesPerRow+gx/8]
			c := bgC
			if b&(0x80>>(gx%8)) != 0 {
				c = fgC
			}
			off := v.pixelOffset((x-1)*v.g.glyphW+gx, (y-1)*v.g.glyphH+gy)
			copy(exp[off:off+n], c[:n])
		}
	}
	return exp
}

func (v *c19Vesa) expectFill(before []uint8, x, y, w, h uint32, bg uint8) []uint8 {
	exp := append([]uint8(nil), before...)
	if x == 0 {
		x = 1
	} else if x > v.cols {
		x = v.cols
	}
	if y == 0 {
		y = 1
	} else if y > v.rows {
		y = v.rows
	}
	if uint64(w) > uint64(v.cols-x+1) {
		w = v.cols - x + 1
	}
	if uint64(h) > uint64(v.rows-y+1) {
		h = v.rows - y + 1
	}
	c := c19Pack(v.g, v.cons.palette, bg)
	n := c19StoreLen(v.g.bpp)
	for py := (y - 1) * v.g.glyphH; py < (y-1+h)*v.g.glyphH; py++ {
		for px := (x - 1) * v.g.glyphW; px < (x-1+w)*v.g.glyphW; px++ {
			off := v.pixelOffset(px, py)
			copy(exp[off:off+n], c[:n])
		}
	}
	return exp
}

func (v *c19Vesa) expectScroll(before []uint8, dir ScrollDir, lines uint32) []uint8 {
	exp := append([]uint8(nil), before...)
	if lines == 0 || lines > v.rows {
		return exp
	}
	var (
		shift    = lines * v.g.glyphH
		textH    = v.g.height - v.g.logoH
		rowBytes = v.g.width * c19BytesPerPixel(v.g.bpp)
	)
	for py := uint32(0); py+shift < textH; py++ {
		var dst, src uint32
		switch dir {
		case ScrollDirUp:
			dst, src = v.pixelOffset(0, py), v.pixelOffset(0, py+shift)
		case ScrollDirDown:
			dst, src = v.pixelOffset(0, py+shift), v.pixelOffset(0, py)
		}
		copy(exp[dst:dst+rowBytes], before[src:src+rowBytes])
	}
	return exp
}

func c19InterestingCoords(limit uint32) []uint32 {
	return []uint32{
		0, 1, 2, limit / 2, limit - 1, limit, limit + 1, limit + 2, 2 * limit,
		0x7fffffff, 0x80000000, 0xfffffffe, 0xffffffff,
	}
}

func TestC19PaintExactCells(t *testing.T) {
	rng := rand.New(rand.NewSource(19))

	rgb565 := &multiboot.FramebufferRGBColorInfo{RedPosition: 11, RedMaskSize: 5, GreenPosition: 5, GreenMaskSize: 6, BluePosition: 0, BlueMaskSize: 5}
	rgb555 := &multiboot.FramebufferRGBColorInfo{RedPosition: 10, RedMaskSize: 5, GreenPosition: 5, GreenMaskSize: 5, BluePosition: 0, BlueMaskSize: 5}
	bgr565 := &multiboot.FramebufferRGBColorInfo{RedPosition: 0, RedMaskSize: 5, GreenPosition: 5, GreenMaskSize: 6, BluePosition: 11, BlueMaskSize: 5}
	rgb888 := &multiboot.FramebufferRGBColorInfo{RedPosition: 16, RedMaskSize: 8, GreenPosition: 8, GreenMaskSize: 8, BluePosition: 0, BlueMaskSize: 8}
	bgr888 := &multiboot.FramebufferRGBColorInfo{RedPosition: 0, RedMaskSize: 8, GreenPosition: 8, GreenMaskSize: 8, BluePosition: 16, BlueMaskSize: 8}
	odd24 := &multiboot.FramebufferRGBColorInfo{RedPosition: 17, RedMaskSize: 7, GreenPosition: 9, GreenMaskSize: 6, BluePosition: 1, BlueMaskSize: 5}

	geometries := []c19Geometry{
		{width: 40, height: 40, pitchExtra: 0, bpp: 8, glyphW: 8, glyphH: 8, logoH: 0},
		{width: 43, height: 37, pitchExtra: 5, bpp: 8, glyphW: 9, glyphH: 7, logoH: 3},
		{width: 50, height: 45, pitchExtra: 7, bpp: 8, glyphW: 16, glyphH: 10, logoH: 11},
		{width: 35, height: 30, pitchExtra: 2, bpp: 15, ci: rgb555, glyphW: 10, glyphH: 6, logoH: 4},
		{width: 64, height: 48, pitchExtra: 0, bpp: 16, ci: rgb565, glyphW: 8, glyphH: 16, logoH: 0},
		{width: 53, height: 41, pitchExtra: 6, bpp: 16, ci: bgr565, glyphW: 13, glyphH: 9, logoH: 5},
		{width: 47, height: 33, pitchExtra: 1, bpp: 24, ci: rgb888, glyphW: 11, glyphH: 5, logoH: 2},
		{width: 48, height: 36, pitchExtra: 0, bpp: 24, ci: bgr888, glyphW: 16, glyphH: 12, logoH: 0},
		{width: 45, height: 39, pitchExtra: 12, bpp: 32, ci: rgb888, glyphW: 14, glyphH: 7, logoH: 6},
		{width: 32, height: 32, pitchExtra: 0, bpp: 32, ci: bgr888, glyphW: 8, glyphH: 8, logoH: 8},
		{width: 41, height: 29, pitchExtra: 3, bpp: 32, ci: odd24, glyphW: 12, glyphH: 4, logoH: 1},
		// single-cell grid
		{width: 17, height: 19, pitchExtra: 4, bpp: 16, ci: rgb565, glyphW: 15, glyphH: 11, logoH: 7},
	}

	for gi := range geometries {
		g := &geometries[gi]
		v := c19NewVesa(rng, g)

		if w, h := v.cons.Dimensions(Characters); w != v.cols || h != v.rows {
			t.Fatalf("[geometry %d] unexpected grid %dx%d; want %dx%d", gi, w, h, v.cols, v.rows)
		}

		// Write: every combination of interesting coordinates.
		for _, x := range c19InterestingCoords(v.cols) {
			for _, y := range c19InterestingCoords(v.rows) {
				ch, fg, bg := byte(rng.Intn(256)), uint8(rng.Intn(256)), uint8(rng.Intn(256))
				before := v.snapshot()
				v.cons.Write(ch, fg, bg, x, y)
				if !v.compare(t, "vesa Write", v.expectWrite(before, ch, fg, bg, x, y)) {
					t.Fatalf("[geometry %d] Write(%d, %d, %d, %d, %d) failed", gi, ch, fg, bg, x, y)
				}
			}
		}

		// Write: every cell of the grid.
		for y := uint32(1); y <= v.rows; y++ {
			for x := uint32(1); x <= v.cols; x++ {
				ch, fg, bg := byte(rng.Intn(256)), uint8(rng.Intn(256)), uint8(rng.Intn(256))
				before := v.snapshot()
				v.cons.Write(ch, fg, bg, x, y)
				if !v.compare(t, "vesa Write", v.expectWrite(before, ch, fg, bg, x, y)) {
					t.Fatalf("[geometry %d] Write(%d, %d, %d, %d, %d) failed", gi, ch, fg, bg, x, y)
				}
			}
		}

		// Fill.
		for _, x := range c19InterestingCoords(v.cols) {
			for _, y := range c19InterestingCoords(v.rows) {
				for _, w := range c19InterestingCoords(v.cols) {
					h := c19InterestingCoords(v.rows)[rng.Intn(13)]
					fg, bg := uint8(rng.Intn(256)), uint8(rng.Intn(256))
					before := v.snapshot()
					v.cons.Fill(x, y, w, h, fg, bg)
					if !v.compare(t, "vesa Fill", v.expectFill(before, x, y, w, h, bg)) {
						t.Fatalf("[geometry %d] Fill(%d, %d, %d, %d, %d, %d) failed", gi, x, y, w, h, fg, bg)
					}
				}
			}
		}

		// Scroll. Repaint some cells between scrolls to keep the contents
		// interesting.
		for _, dir := range []ScrollDir{ScrollDirUp, ScrollDirDown} {
			lineCounts := c19InterestingCoords(v.rows)
			for l := uint32(0); l <= v.rows+1; l++ {
				lineCounts = append(lineCounts, l)
			}
			for _, lines := range lineCounts {
				v.cons.Write(byte(rng.Intn(256)), uint8(rng.Intn(256)), uint8(rng.Intn(256)), 1+uint32(rng.Intn(int(v.cols))), 1+uint32(rng.Intn(int(v.rows))))
				before := v.snapshot()
				v.cons.Scroll(dir, lines)
				if !v.compare(t, "vesa Scroll", v.expectScroll(before, dir, lines)) {
					t.Fatalf("[geometry %d] Scroll(%d, %d) failed", gi, dir, lines)
				}
			}
		}
	}
}

func TestC19VgaTextExactCells(t *testing.T) {
	rng := rand.New(rand.NewSource(1919))

	for _, dims := range [][2]uint32{{80, 25}, {40, 12}, {7, 3}, {1, 1}, {1, 9}, {13, 1}} {
		cols, rows := dims[0], dims[1]
		size := cols * rows
		backing := make([]uint16, size+2*c19Guard)
		for i := range backing {
			backing[i] = 0xC3C3
		}
		fb := backing[c19Guard : c19Guard+size : c19Guard+size]
		for i := range fb {
			fb[i] = uint16(rng.Intn(1 << 16))
		}

		cons := NewVgaTextConsole(cols, rows, 0)
		cons.fb = fb

		check := func(what string, exp []uint16) {
			t.Helper()
			for i := range backing {
				if backing[i] != exp[i] {
					t.Fatalf("[%dx%d] %s: backing cell %d: got 0x%04x; want 0x%04x", cols, rows, what, i-c19Guard, backing[i], exp[i])
				}
			}
		}
		snapshot := func() []uint16 { return append([]uint16(nil), backing...) }

		// Write
		for _, x := range c19InterestingCoords(cols) {
			for _, y := range c19InterestingCoords(rows) {
				// colours 0-14 are valid for both fg and bg
				ch, fg, bg := byte(rng.Intn(256)), uint8(rng.Intn(15)), uint8(rng.Intn(15))
				exp := snapshot()
				if x >= 1 && x <= cols && y >= 1 && y <= rows {
					exp[c19Guard+(y-1)*cols+(x-1)] = uint16(bg)<<12 | uint16(fg)<<8 | uint16(ch)
				}
				cons.Write(ch, fg, bg, x, y)
				check("Write", exp)
			}
		}

		// Fill
		for _, x := range c19InterestingCoords(cols) {
			for _, y := range c19InterestingCoords(rows) {
				for _, w := range c19InterestingCoords(cols) {
					for _, h := range c19InterestingCoords(rows) {
						fg, bg := uint8(rng.Intn(16)), uint8(rng.Intn(16))
						exp := snapshot()
						cx, cy, cw, ch := x, y, w, h
						if cx == 0 {
							cx = 1
						} else if cx > cols {
							cx = cols
						}
						if cy == 0 {
							cy = 1
						} else if cy > rows {
							cy = rows
						}
						if uint64(cw) > uint64(cols-cx+1) {
							cw = cols - cx + 1
						}
						if uint64(ch) > uint64(rows-cy+1) {
							ch = rows - cy + 1
						}
						for yy := cy; yy < cy+ch; yy++ {
							for xx := cx; xx < cx+cw; xx++ {
								exp[c19Guard+(yy-1)*cols+(xx-1)] = uint16(bg)<<12 | uint16(fg)<<8 | uint16(' ')
							}
						}
						cons.Fill(x, y, w, h, fg, bg)
						check("Fill", exp)
					}
				}
			}
		}

		// Scroll
		for _, dir := range []ScrollDir{ScrollDirUp, ScrollDirDown} {
			lineCounts := c19InterestingCoords(rows)
			for l := uint32(0); l <= rows+1; l++ {
				lineCounts = append(lineCounts, l)
			}
			for _, lines := range lineCounts {
				cons.Write(byte(rng.Intn(256)), uint8(rng.Intn(15)), uint8(rng.Intn(15)), 1+uint32(rng.Intn(int(cols))), 1+uint32(rng.Intn(int(rows))))
				before := snapshot()
				exp := snapshot()
				if lines >= 1 && lines <= rows {
					for r := uint32(0); r+lines < rows; r++ {
						var dst, src uint32
						if dir == ScrollDirUp {
							dst, src = r, r+lines
						} else {
							dst, src = r+lines, r
						}
						copy(exp[c19Guard+dst*cols:c19Guard+(dst+1)*cols], before[c19Guard+src*cols:c19Guard+(src+1)*cols])
					}
				}
				cons.Scroll(dir, lines)
				check("Scroll", exp)
			}
		}
	}
}
