//go:build linux && amd64

package acpi

// Demonstration for property C14: only checksum-valid ACPI tables are
// registered and they are found via the right root pointer.
//
// The test builds complete firmware memory images (BIOS search area with the
// root pointer and decoys, root table, tables, FADT and DSDT) inside two
// anonymous memory mappings: one below 4GiB (so that its addresses fit in the
// 32-bit RSDT entries / 32-bit FADT pointer) and one wherever the OS places it
// (so that XSDT entries use genuine 64-bit addresses). All mappings hooks are
// the identity so the driver sees the images exactly as the firmware would
// have laid them out. Only the outcome that the property talks about is
// checked: which root table got selected, which signatures are registered,
// that they point at the right table and that skipped tables got reported.

import (
	"bytes"
	"math/rand"
	"syscall"
	"testing"
	"unsafe"

	"github.com/ProjectSerenity/firefly/kernel"
	"github.com/ProjectSerenity/firefly/kernel/device/acpi/table"
	"github.com/ProjectSerenity/firefly/kernel/mm"
	"github.com/ProjectSerenity/firefly/kernel/mm/vmm"
)

const (
	c14ArenaSize  = 8 << 20
	c14AreaMax    = 0x20000
	c14TableStart = 0x40000 // offset of the first table inside an arena
	c14Map32Bit   = 0x40    // MAP_32BIT
)

type c14Arena struct {
	mem  []byte
	base uintptr
	next uintptr
}

func c14NewArena(t *testing.T, extraFlags int) *c14Arena {
	mem, err := syscall.Mmap(-1, 0, c14ArenaSize, syscall.PROT_READ|syscall.PROT_WRITE, syscall.MAP_ANON|syscall.MAP_PRIVATE|extraFlags)
	if err != nil {
		t.Skipf("cannot allocate arena: %v", err)
	}
	return &c14Arena{mem: mem, base: uintptr(unsafe.Pointer(&mem[0])), next: c14TableStart}
}

func (a *c14Arena) free() { syscall.Munmap(a.mem) }

// alloc reserves size bytes at an arbitrary (frequently odd) address and
// returns the offset into the arena.
func (a *c14Arena) alloc(rng *rand.Rand, size int) uintptr {
	gap := uintptr(rng.Intn(97))
	if rng.Intn(8) == 0 {
		// Occasionally jump close to a page boundary so that tables
		// straddle pages.
		gap += mm.PageSize + (mm.PageSize - (a.next+gap)%mm.PageSize) - uintptr(rng.Intn(40))
	}
	for i := uintptr(0); i < gap; i++ {
		a.mem[a.next+i] = byte(rng.Intn(256))
	}
	off := a.next + gap
	a.next = off + uintptr(size)
	if a.next+mm.PageSize >= uintptr(len(a.mem)) {
		panic("arena exhausted")
	}
	return off
}

func c14Sum(b []byte) (sum uint8) {
	for _, v := range b {
		sum += v
	}
	return sum
}

type c14Table struct {
	sig   string
	addr  uintptr
	valid bool
}

type c14Image struct {
	lowArena, hiArena *c14Arena

	areaLow, areaHi uintptr // inclusive bounds of the search area

	hasRSDP  bool
	rootAddr uintptr
	useXSDT  bool

	listed []c14Table // reachable tables (root entries and, if reachable, the DSDT)
}

// buildTable writes a table with the given signature and payload length and
// returns its address. The checksum byte is set up so that the table is valid
// or not as requested. fill is invoked after the header has been set up so
// that the caller can populate the payload before the checksum is calculated.
func (img *c14Image) buildTable(rng *rand.Rand, a *c14Arena, sig string, size int, valid bool, fill func(tbl []byte)) uintptr {
	off := a.alloc(rng, size)
	tbl := a.mem[off : off+uintptr(size)]
	for i := range tbl {
		tbl[i] = byte(rng.Intn(256))
	}
	hdr := (*table.SDTHeader)(unsafe.Pointer(&tbl[0]))
	copy(hdr.Signature[:], sig)
	hdr.Length = uint32(size)
	if fill != nil {
		fill(tbl)
	}
	hdr.Checksum = 0
	hdr.Checksum = -c14Sum(tbl)
	if !valid {
		// Any non-zero delta makes the sum non-zero.
		hdr.Checksum += uint8(1 + rng.Intn(255))
	}
	if (c14Sum(tbl) == 0) != valid {
		panic("bad table generator")
	}
	return a.base + off
}

type c14Spec struct {
	areaSize   uintptr
	rsdpOff    uintptr // offset of the genuine root pointer; ignored if !hasRSDP
	hasRSDP    bool
	revision   uint8
	numDecoys  int
	tailDecoy  bool // place a decoy in the last 16-byte block of the area
	numTables  int
	corrupt    func(i, n int) bool
	fadtAt     int // position of FADT among the root entries or -1
	fadtValid  bool
	dsdtValid  bool
	dsdtBoth   bool // populate both DSDT pointers (with the same address)
	rootHeader uint8
}

func c14UniqueSigs(rng *rand.Rand, n int) []string {
	seen := map[string]bool{fadtSignature: true, "DSDT": true, "RSDT": true, "XSDT": true, "ACPI": true}
	out := make([]string, 0, n)
	for len(out) < n {
		var s [4]byte
		for i := range s {
			s[i] = byte('A' + rng.Intn(26))
		}
		if rng.Intn(4) == 0 {
			s[3] = byte('0' + rng.Intn(10))
		}
		if seen[string(s[:])] {
			continue
		}
		seen[string(s[:])] = true
		out = append(out, string(s[:]))
	}
	return out
}

func c14Build(t *testing.T, rng *rand.Rand, low, hi *c14Arena, spec c14Spec) *c14Image {
	low.next, hi.next = c14TableStart, c14TableStart
	img := &c14Image{lowArena: low, hiArena: hi}

	useXSDT := spec.revision != 0
	pick := func() *c14Arena {
		if useXSDT && rng.Intn(2) == 0 {
			return hi
		}
		return low
	}

	// Tables.
	sigs := c14UniqueSigs(rng, spec.numTables)
	var entries []uintptr
	sdtSize := int(unsafe.Sizeof(table.SDTHeader{}))
	addFADT := func() {
		// The DSDT is only reachable via a valid FADT.
		dsdtAddr := img.buildTable(rng, pick(), "DSDT", sdtSize+rng.Intn(900), spec.dsdtValid, nil)
		fadtAddr := img.buildTable(rng, pick(), fadtSignature, int(unsafe.Sizeof(table.FADT{})), spec.fadtValid, func(tbl []byte) {
			fadt := (*table.FADT)(unsafe.Pointer(&tbl[0]))
			fadt.Dsdt, fadt.Ext.Dsdt = 0, 0
			if spec.rootHeader >= acpiRev2Plus || spec.dsdtBoth {
				fadt.Ext.Dsdt = uint64(dsdtAddr)
			}
			if spec.rootHeader < acpiRev2Plus || (spec.dsdtBoth && dsdtAddr < 1<<32) {
				fadt.Dsdt = uint32(dsdtAddr)
			}
		})
		entries = append(entries, fadtAddr)
		img.listed = append(img.listed, c14Table{fadtSignature, fadtAddr, spec.fadtValid})
		if spec.fadtValid {
			img.listed = append(img.listed, c14Table{"DSDT", dsdtAddr, spec.dsdtValid})
		}
	}
	for i, sig := range sigs {
		if i == spec.fadtAt {
			addFADT()
		}
		valid := !spec.corrupt(i, spec.numTables)
		size := sdtSize + rng.Intn(300)
		if rng.Intn(10) == 0 {
			size = sdtSize + rng.Intn(int(3*mm.PageSize))
		}
		addr := img.buildTable(rng, pick(), sig, size, valid, nil)
		entries = append(entries, addr)
		img.listed = append(img.listed, c14Table{sig, addr, valid})
	}
	if spec.fadtAt >= len(sigs) {
		addFADT()
	}

	// Root table plus a bogus root table of the other flavour that lists
	// a table which must never show up.
	buildRoot := func(a *c14Arena, sig string, wide bool, list []uintptr) uintptr {
		width := 4
		if wide {
			width = 8
		}
		return img.buildTable(rng, a, sig, sdtSize+width*len(list), true, func(tbl []byte) {
			(*table.SDTHeader)(unsafe.Pointer(&tbl[0])).Revision = spec.rootHeader
			for i, addr := range list {
				p := unsafe.Pointer(&tbl[sdtSize+width*i])
				if wide {
					*(*uint64)(p) = uint64(addr)
				} else {
					if addr >= 1<<32 {
						panic("address does not fit RSDT entry")
					}
					*(*uint32)(p) = uint32(addr)
				}
			}
		})
	}
	wrongTable := img.buildTable(rng, low, "WRNG", sdtSize+8, true, nil)
	var rsdtAddr, xsdtAddr uintptr
	if useXSDT {
		xsdtAddr = buildRoot(pick(), "XSDT", true, entries)
		rsdtAddr = buildRoot(low, "RSDT", false, []uintptr{wrongTable})
		img.rootAddr = xsdtAddr
	} else {
		rsdtAddr = buildRoot(low, "RSDT", false, entries)
		xsdtAddr = buildRoot(low, "XSDT", true, []uintptr{wrongTable})
		img.rootAddr = rsdtAddr
	}
	img.useXSDT = useXSDT
	img.hasRSDP = spec.hasRSDP

	// Search area: noise, decoys and the genuine root pointer.
	area := low.mem[:c14AreaMax+256]
	for i := range area {
		area[i] = 0
	}
	area = area[:spec.areaSize]
	for i := range area {
		area[i] = byte(rng.Intn(256))
	}
	img.areaLow = low.base
	img.areaHi = low.base + spec.areaSize - 1

	sizeofRSDP := int(unsafe.Sizeof(table.RSDPDescriptor{}))
	sizeofExt := int(unsafe.Sizeof(table.ExtRSDPDescriptor{}))

	used := map[uintptr]bool{} // 16-byte blocks in use
	claim := func(off uintptr, size int) bool {
		for b := off / 16; b <= (off+uintptr(size)-1)/16; b++ {
			if used[b] {
				return false
			}
		}
		for b := off / 16; b <= (off+uintptr(size)-1)/16; b++ {
			used[b] = true
		}
		return true
	}

	if spec.hasRSDP {
		size := sizeofRSDP
		if useXSDT {
			size = sizeofExt
		}
		claim(spec.rsdpOff, size)
		raw := low.mem[spec.rsdpOff : spec.rsdpOff+uintptr(size)]
		ext := (*table.ExtRSDPDescriptor)(unsafe.Pointer(&raw[0]))
		rsdp := &ext.RSDPDescriptor
		rsdp.Signature = rsdpSignature
		rsdp.Revision = spec.revision
		rsdp.RSDTAddr = uint32(rsdtAddr)
		rsdp.Checksum = 0
		rsdp.Checksum = -c14Sum(raw[:sizeofRSDP])
		if useXSDT {
			ext.Length = 36
			ext.XSDTAddr = uint64(xsdtAddr)
			ext.ExtendedChecksum = 0
			ext.ExtendedChecksum = -c14Sum(raw)
		}
	}

	placeDecoy := func(off uintptr) {
		if !claim(off, sizeofExt) {
			return
		}
		// The bytes past the end of the area (if any) are zero.
		raw := low.mem[off : off+uintptr(sizeofExt)]
		copy(raw, rsdpSignature[:])
		switch rng.Intn(3) {
		case 0:
			raw[15] = 0
		case 1:
			raw[15] = 2
		}
		// Point the decoy to real looking root tables.
		if off+uintptr(sizeofRSDP) <= spec.areaSize {
			*(*uint32)(unsafe.Pointer(&raw[16])) = uint32(wrongTable)
		}
		if off+uintptr(sizeofExt) <= spec.areaSize {
			*(*uint64)(unsafe.Pointer(&raw[24])) = uint64(rsdtAddr)
		}
		// A decoy has a bad checksum no matter how it is interpreted.
		for c14Sum(raw[:sizeofRSDP]) == 0 || c14Sum(raw) == 0 || c14Sum(raw[:36]) == 0 {
			raw[9]++
		}
	}
	if spec.tailDecoy {
		placeDecoy(spec.areaSize - 16)
	}
	for i := 0; i < spec.numDecoys; i++ {
		blocks := (spec.areaSize - uintptr(sizeofExt)) / 16
		off := uintptr(rng.Intn(int(blocks)+1)) * 16
		if i == 0 && spec.hasRSDP && spec.rsdpOff >= 48 {
			// Make sure there is a decoy in front of the real thing.
			off = uintptr(rng.Intn(int(spec.rsdpOff/16)-2)) * 16
		}
		placeDecoy(off)
	}

	// Near misses: almost-signatures on aligned addresses and the exact
	// signature on misaligned addresses.
	for i := 0; i < 4; i++ {
		off := uintptr(rng.Intn(int(spec.areaSize/16)-3)) * 16
		if !claim(off, sizeofExt) {
			continue
		}
		raw := low.mem[off : off+uintptr(sizeofExt)]
		if i%2 == 0 {
			copy(raw, "RSD PTR_")
			continue
		}
		for j := range raw {
			raw[j] = 0
		}
		copy(raw[8-rng.Intn(7)-1:], rsdpSignature[:]) // misaligned by 1..7 bytes
	}

	return img
}

type c14Outcome struct {
	probed  bool
	root    uintptr
	useXSDT bool
	err     *kernel.Error
	tables  map[string]uintptr
	log     []byte
}

func c14Run(img *c14Image) c14Outcome {
	rsdpLocationLow, rsdpLocationHi, rsdpAlignment = img.areaLow, img.areaHi, 16

	var out c14Outcome
	drv := probeForACPI()
	if drv == nil {
		return out
	}
	acpiDrv := drv.(*acpiDriver)
	out.probed, out.root, out.useXSDT = true, acpiDrv.rsdtAddr, acpiDrv.useXSDT

	var buf bytes.Buffer
	out.err = drv.DriverInit(&buf)
	out.log = buf.Bytes()
	out.tables = map[string]uintptr{}
	for sig, hdr := range acpiDrv.tableMap {
		out.tables[sig] = uintptr(unsafe.Pointer(hdr))
	}
	return out
}

func c14Check(t *testing.T, name string, img *c14Image, out c14Outcome) {
	t.Helper()
	if !img.hasRSDP {
		if out.probed {
			t.Errorf("[%s] probe succeeded (root 0x%x) although no root pointer has a valid checksum", name, out.root)
		}
		return
	}
	if !out.probed {
		t.Errorf("[%s] probe failed to find the root pointer", name)
		return
	}
	if out.root != img.rootAddr || out.useXSDT != img.useXSDT {
		t.Errorf("[%s] probe selected root 0x%x (xsdt: %t); want 0x%x (xsdt: %t)", name, out.root, out.useXSDT, img.rootAddr, img.useXSDT)
		return
	}
	if out.err != nil {
		t.Errorf("[%s] enumeration failed: %s", name, out.err.Message)
		return
	}

	want := map[string]uintptr{}
	for _, tbl := range img.listed {
		if tbl.valid {
			want[tbl.sig] = tbl.addr
		} else if !bytes.Contains(out.log, []byte(tbl.sig)) {
			t.Errorf("[%s] table %s with a bad checksum was not reported", name, tbl.sig)
		}
	}
	for sig, addr := range want {
		if got, ok := out.tables[sig]; !ok {
			t.Errorf("[%s] valid table %s not registered", name, sig)
		} else if got != addr {
			t.Errorf("[%s] table %s registered at 0x%x; want 0x%x", name, sig, got, addr)
		}
	}
	for sig := range out.tables {
		if _, ok := want[sig]; !ok {
			t.Errorf("[%s] unexpected table %s registered", name, sig)
		}
	}
}

func TestKeepC14FirmwareImages(t *testing.T) {
	defer func(low, hi, align uintptr) {
		mapFn, unmapFn, identityMapFn = vmm.Map, vmm.Unmap, vmm.IdentityMapRegion
		rsdpLocationLow, rsdpLocationHi, rsdpAlignment = low, hi, align
	}(rsdpLocationLow, rsdpLocationHi, rsdpAlignment)

	mapFn = func(_ mm.Page, _ mm.Frame, _ vmm.PageTableEntryFlag) *kernel.Error { return nil }
	unmapFn = func(_ mm.Page) *kernel.Error { return nil }
	identityMapFn = func(frame mm.Frame, _ uintptr, _ vmm.PageTableEntryFlag) (mm.Page, *kernel.Error) {
		return mm.Page(frame), nil
	}

	low := c14NewArena(t, c14Map32Bit)
	defer low.free()
	hi := c14NewArena(t, 0)
	defer hi.free()
	if low.base+c14ArenaSize > 1<<32 {
		t.Skip("kernel did not honour MAP_32BIT")
	}

	none := func(int, int) bool { return false }
	all := func(int, int) bool { return true }
	first := func(i, _ int) bool { return i == 0 }
	last := func(i, n int) bool { return i == n-1 }

	sizeofRSDP := unsafe.Sizeof(table.RSDPDescriptor{})
	sizeofExt := unsafe.Sizeof(table.ExtRSDPDescriptor{})
	lastFit := func(area, size uintptr) uintptr { return (area - size) &^ 15 }

	rng := rand.New(rand.NewSource(0xC14))

	fixed := []struct {
		name string
		spec c14Spec
	}{
		{"rev0 at start, no tables", c14Spec{areaSize: 4096, hasRSDP: true, rsdpOff: 0, revision: 0, corrupt: none, fadtAt: -1}},
		{"rev2 at start, no tables", c14Spec{areaSize: 4096, hasRSDP: true, rsdpOff: 0, revision: 2, rootHeader: 2, corrupt: none, fadtAt: -1}},
		{"rev0 in the last fitting block", c14Spec{areaSize: c14AreaMax, hasRSDP: true, rsdpOff: lastFit(c14AreaMax, sizeofRSDP), revision: 0, numDecoys: 6, numTables: 5, corrupt: none, fadtAt: 2, fadtValid: true, dsdtValid: true}},
		{"rev2 in the last fitting block", c14Spec{areaSize: c14AreaMax, hasRSDP: true, rsdpOff: lastFit(c14AreaMax, sizeofExt), revision: 2, rootHeader: 2, numDecoys: 6, tailDecoy: true, numTables: 5, corrupt: none, fadtAt: 0, fadtValid: true, dsdtValid: true}},
		{"rev0 behind decoys, all corrupt", c14Spec{areaSize: 8192, hasRSDP: true, rsdpOff: 4096 + 48, revision: 0, numDecoys: 20, tailDecoy: true, numTables: 9, corrupt: all, fadtAt: 4, fadtValid: false, dsdtValid: true}},
		{"rev2 first corrupt, dsdt corrupt", c14Spec{areaSize: 8192, hasRSDP: true, rsdpOff: 1024 + 16, revision: 2, rootHeader: 2, numDecoys: 3, numTables: 7, corrupt: first, fadtAt: 7, fadtValid: true, dsdtValid: false, dsdtBoth: true}},
		{"rev0 last corrupt, fadt last", c14Spec{areaSize: 8192, hasRSDP: true, rsdpOff: 2048 + 32, revision: 0, rootHeader: 1, numDecoys: 3, numTables: 7, corrupt: last, fadtAt: 7, fadtValid: true, dsdtValid: true, dsdtBoth: true}},
		{"rev3 corrupt fadt hides valid dsdt", c14Spec{areaSize: 8192, hasRSDP: true, rsdpOff: 160, revision: 3, rootHeader: 2, numDecoys: 3, numTables: 4, corrupt: none, fadtAt: 1, fadtValid: false, dsdtValid: true}},
		{"rev1 counts as extended", c14Spec{areaSize: 4096, hasRSDP: true, rsdpOff: 512, revision: 1, rootHeader: 2, numDecoys: 2, numTables: 3, corrupt: last, fadtAt: 0, fadtValid: true, dsdtValid: true}},
		{"rev0 long root table", c14Spec{areaSize: 4096, hasRSDP: true, rsdpOff: 1008, revision: 0, numDecoys: 2, numTables: 700, corrupt: func(i, _ int) bool { return i%7 == 3 }, fadtAt: 350, fadtValid: true, dsdtValid: true}},
		{"rev2 long root table", c14Spec{areaSize: 4096, hasRSDP: true, rsdpOff: 2000 &^ 15, revision: 2, rootHeader: 2, numDecoys: 2, numTables: 700, corrupt: func(i, _ int) bool { return i%5 == 0 }, fadtAt: 699, fadtValid: true, dsdtValid: false}},
		{"only decoys", c14Spec{areaSize: 8192, hasRSDP: false, revision: 2, rootHeader: 2, numDecoys: 25, tailDecoy: true, numTables: 2, corrupt: none, fadtAt: -1}},
		{"empty area", c14Spec{areaSize: 4096, hasRSDP: false, revision: 0, numTables: 1, corrupt: none, fadtAt: -1}},
	}
	for _, tc := range fixed {
		img := c14Build(t, rng, low, hi, tc.spec)
		c14Check(t, tc.name, img, c14Run(img))
	}

	// Randomised images.
	for iter := 0; iter < 400; iter++ {
		spec := c14Spec{
			areaSize:  []uintptr{256, 1024, 4096, 8192 + 16, c14AreaMax}[rng.Intn(5)],
			hasRSDP:   rng.Intn(12) != 0,
			revision:  []uint8{0, 0, 0, 2, 2, 3, 6}[rng.Intn(7)],
			numDecoys: rng.Intn(12),
			tailDecoy: rng.Intn(3) == 0,
			numTables: rng.Intn(40),
			fadtAt:    -1,
			fadtValid: rng.Intn(3) != 0,
			dsdtValid: rng.Intn(3) != 0,
			dsdtBoth:  rng.Intn(2) == 0,
		}
		if spec.revision != 0 {
			spec.rootHeader = acpiRev2Plus + uint8(rng.Intn(3))
		} else {
			spec.rootHeader = uint8(rng.Intn(2))
		}
		size := sizeofRSDP
		if spec.revision != 0 {
			size = sizeofExt
		}
		spec.rsdpOff = uintptr(rng.Intn(int(lastFit(spec.areaSize, size)/16)+1)) * 16
		if rng.Intn(3) != 0 {
			spec.fadtAt = rng.Intn(spec.numTables + 1)
		}
		density := rng.Intn(5)
		pattern := make([]bool, spec.numTables)
		for i := range pattern {
			pattern[i] = density > 0 && rng.Intn(5) < density
		}
		spec.corrupt = func(i, _ int) bool { return pattern[i] }

		img := c14Build(t, rng, low, hi, spec)
		c14Check(t, "random image", img, c14Run(img))
		if t.Failed() {
			t.Fatalf("failing spec (iteration %d): %+v", iter, spec)
		}
	}
}
