package multiboot

// Demonstration for property C10 ("Multiboot information is decoded exactly
// and never read past its end").
//
// Copy to kernel/multiboot/keep3_c10_demo_test.go and run:
//
//   cd kernel && go test -vet=off -count=1 -run TestKeep3C10 ./multiboot/
//
// Every information block is assembled from scratch and copied into an
// anonymous mapping so that its last byte is directly followed by a PROT_NONE
// page; the section name table gets the same treatment. A read past the end of
// either one kills the test binary with SIGSEGV. The expectations are derived
// from the block description with an independent model (encoding/binary,
// strings.Fields, strings.Count), never from package internals.

import (
	"encoding/binary"
	"reflect"
	"strings"
	"syscall"
	"testing"
	"unsafe"
)

type k3Region struct {
	addr, length uint64
	typ          uint32
}

type k3Fb struct {
	addr                 uint64
	pitch, width, height uint32
	bpp, typ             uint8
	color                []byte // bytes that follow the reserved field
}

type k3Sec struct {
	name          string
	flags         uint64
	addr, size    uint64
	expectVisited bool
}

type k3Tag struct {
	typ     uint32
	payload []byte
}

// k3Guarded copies data into a fresh mapping so that data ends exactly where
// an inaccessible page begins and returns the address of the first byte.
func k3Guarded(t *testing.T, data []byte) uintptr {
	t.Helper()
	pageSize := syscall.Getpagesize()
	pages := (len(data) + pageSize - 1) / pageSize
	if pages == 0 {
		pages = 1
	}
	mem, err := syscall.Mmap(-1, 0, (pages+1)*pageSize, syscall.PROT_READ|syscall.PROT_WRITE, syscall.MAP_ANON|syscall.MAP_PRIVATE)
	if err != nil {
		t.Fatalf("mmap: %v", err)
	}
	if err = syscall.Mprotect(mem[pages*pageSize:], syscall.PROT_NONE); err != nil {
		t.Fatalf("mprotect: %v", err)
	}
	t.Cleanup(func() { _ = syscall.Munmap(mem) })
	start := pages*pageSize - len(data)
	copy(mem[start:], data)
	return uintptr(unsafe.Pointer(&mem[0])) + uintptr(start)
}

func k3Block(tags []k3Tag) []byte {
	le := binary.LittleEndian
	blk := make([]byte, 8)
	for _, tag := range tags {
		hdr := make([]byte, 8)
		le.PutUint32(hdr[0:], tag.typ)
		le.PutUint32(hdr[4:], uint32(8+len(tag.payload)))
		blk = append(blk, hdr...)
		blk = append(blk, tag.payload...)
		for len(blk)%8 != 0 {
			blk = append(blk, 0xEE) // padding is not part of any tag
		}
	}
	blk = append(blk, 0, 0, 0, 0, 8, 0, 0, 0) // end tag
	le.PutUint32(blk[0:], uint32(len(blk)))
	return blk
}

func k3CmdLineTag(text string) k3Tag {
	return k3Tag{typ: 1, payload: append([]byte(text), 0)}
}

func k3MmapTag(entrySize uint32, regions []k3Region) k3Tag {
	le := binary.LittleEndian
	p := make([]byte, 8, 8+int(entrySize)*len(regions))
	le.PutUint32(p[0:], entrySize)
	le.PutUint32(p[4:], 0)
	for _, r := range regions {
		e := make([]byte, entrySize)
		for i := range e {
			e[i] = 0xA5
		}
		le.PutUint64(e[0:], r.addr)
		le.PutUint64(e[8:], r.length)
		le.PutUint32(e[16:], r.typ)
		le.PutUint32(e[20:], 0)
		p = append(p, e...)
	}
	return k3Tag{typ: 6, payload: p}
}

func k3FbTag(fb k3Fb) k3Tag {
	le := binary.LittleEndian
	p := make([]byte, 24)
	le.PutUint64(p[0:], fb.addr)
	le.PutUint32(p[8:], fb.pitch)
	le.PutUint32(p[12:], fb.width)
	le.PutUint32(p[16:], fb.height)
	p[20], p[21] = fb.bpp, fb.typ
	return k3Tag{typ: 8, payload: append(p, fb.color...)}
}

// k3ElfTag lays the section names out in a guarded string table and returns
// the ELF symbols tag that refers to it. The string table section is appended
// after the supplied sections.
func k3ElfTag(t *testing.T, secs []k3Sec) k3Tag {
	le := binary.LittleEndian
	strtab := []byte{0}
	nameIdx := make([]uint32, len(secs))
	for i, s := range secs {
		nameIdx[i] = uint32(len(strtab))
		strtab = append(strtab, s.name...)
		strtab = append(strtab, 0)
	}
	strtabAddr := k3Guarded(t, strtab)

	p := make([]byte, 12)
	le.PutUint32(p[0:], uint32(len(secs)+1))
	le.PutUint32(p[4:], 64)
	le.PutUint32(p[8:], uint32(len(secs)))
	put := func(name uint32, flags, addr, size uint64) {
		e := make([]byte, 64)
		le.PutUint32(e[0:], name)
		le.PutUint32(e[4:], 1)
		le.PutUint64(e[8:], flags)
		le.PutUint64(e[16:], addr)
		le.PutUint64(e[24:], 0x1000)
		le.PutUint64(e[32:], size)
		p = append(p, e...)
	}
	for i, s := range secs {
		put(nameIdx[i], s.flags, s.addr, s.size)
	}
	// The string table section is nameless and reported as empty so that
	// the expectations only have to deal with the supplied sections.
	put(0, 0, uint64(strtabAddr), 0)
	return k3Tag{typ: 9, payload: p}
}

func k3ExpectedCmdLine(text string) map[string]string {
	exp := map[string]string{}
	for _, arg := range strings.Fields(text) {
		switch strings.Count(arg, "=") {
		case 0:
			exp[arg] = arg
		case 1:
			i := strings.IndexByte(arg, '=')
			exp[arg[:i]] = arg[i+1:]
		}
	}
	return exp
}

type k3Case struct {
	name    string
	cmdLine *string
	mmap    *struct {
		entrySize uint32
		regions   []k3Region
	}
	fb   *k3Fb
	secs []k3Sec
	elf  bool
	// order lists which tags to emit and in what order: 'c' cmdline,
	// 'm' memory map, 'f' framebuffer, 'e' ELF symbols, 'x' a tag of a
	// type that the kernel does not decode (odd size, to force padding),
	// 'C', 'M', 'F' decoys of the same type that come later and must lose.
	order string
}

func k3Check(t *testing.T, c k3Case) {
	var tags []k3Tag
	for _, o := range c.order {
		switch o {
		case 'c':
			tags = append(tags, k3CmdLineTag(*c.cmdLine))
		case 'C':
			tags = append(tags, k3CmdLineTag("decoy=1 loser"))
		case 'm':
			tags = append(tags, k3MmapTag(c.mmap.entrySize, c.mmap.regions))
		case 'M':
			tags = append(tags, k3MmapTag(24, []k3Region{{0xdead0000, 0x1000, 1}}))
		case 'f':
			tags = append(tags, k3FbTag(*c.fb))
		case 'F':
			tags = append(tags, k3FbTag(k3Fb{addr: 0xb8000, pitch: 160, width: 80, height: 25, bpp: 16, typ: 2}))
		case 'e':
			tags = append(tags, k3ElfTag(t, c.secs))
		case 'x':
			tags = append(tags, k3Tag{typ: 2, payload: []byte("GRUB 2.02\x00")}, k3Tag{typ: 21, payload: []byte{1, 2, 3, 4}}, k3Tag{typ: 10, payload: []byte{9, 9, 9}})
		}
	}

	base := k3Guarded(t, k3Block(tags))
	SetInfoPtr(base)

	// Command line.
	cmdLineKV = nil
	wantKV := map[string]string{}
	if c.cmdLine != nil {
		wantKV = k3ExpectedCmdLine(*c.cmdLine)
	}
	gotKV := GetBootCmdLine()
	if len(gotKV) != len(wantKV) || (len(wantKV) != 0 && !reflect.DeepEqual(gotKV, wantKV)) {
		t.Errorf("cmdline: want %q, got %q", wantKV, gotKV)
	}
	cmdLineKV = nil

	// Memory map: visited twice so that the in-place handling of unknown
	// types cannot hide anything; values are copied out during the visit.
	for pass := 0; pass < 2; pass++ {
		var got []k3Region
		VisitMemRegions(func(e *MemoryMapEntry) bool {
			got = append(got, k3Region{e.PhysAddress, e.Length, uint32(e.Type)})
			return true
		})
		var want []k3Region
		if c.mmap != nil {
			for _, r := range c.mmap.regions {
				if r.typ < 1 || r.typ > 4 {
					r.typ = 2
				}
				want = append(want, r)
			}
		}
		if len(got) != len(want) || (len(want) != 0 && !reflect.DeepEqual(got, want)) {
			t.Errorf("pass %d: regions: want %v, got %v", pass, want, got)
		}
	}
	if c.mmap != nil && len(c.mmap.regions) > 1 {
		visits := 0
		VisitMemRegions(func(*MemoryMapEntry) bool { visits++; return false })
		if visits != 1 {
			t.Errorf("visitor returning false: want 1 visit, got %d", visits)
		}
	}

	// Framebuffer.
	fbInfo := GetFramebufferInfo()
	switch {
	case c.fb == nil:
		if fbInfo != nil {
			t.Errorf("framebuffer: want nil, got %+v", *fbInfo)
		}
	case fbInfo == nil:
		t.Errorf("framebuffer: got nil")
	default:
		if fbInfo.PhysAddr != c.fb.addr || fbInfo.Pitch != c.fb.pitch || fbInfo.Width != c.fb.width ||
			fbInfo.Height != c.fb.height || fbInfo.Bpp != c.fb.bpp || uint8(fbInfo.Type) != c.fb.typ {
			t.Errorf("framebuffer: want %+v, got %+v", *c.fb, *fbInfo)
		}
		rgb := fbInfo.RGBColorInfo()
		if c.fb.typ == 1 {
			if rgb == nil {
				t.Errorf("framebuffer: RGB layout missing")
			} else if got := []byte{rgb.RedPosition, rgb.RedMaskSize, rgb.GreenPosition, rgb.GreenMaskSize, rgb.BluePosition, rgb.BlueMaskSize}; !reflect.DeepEqual(got, c.fb.color) {
				t.Errorf("framebuffer: RGB layout: want %v, got %v", c.fb.color, got)
			}
		} else if rgb != nil {
			t.Errorf("framebuffer: RGB layout reported for type %d", c.fb.typ)
		}
	}

	// ELF sections; compared as a multiset, the property does not order them.
	type sec struct {
		name  string
		flags ElfSectionFlag
		addr  uintptr
		size  uint64
	}
	got := map[sec]int{}
	VisitElfSections(func(name string, flags ElfSectionFlag, addr uintptr, size uint64) {
		got[sec{string(append([]byte(nil), name...)), flags, addr, size}]++
	})
	want := map[sec]int{}
	if c.elf {
		for _, s := range c.secs {
			if s.size != 0 {
				want[sec{s.name, ElfSectionFlag(s.flags), uintptr(s.addr), s.size}]++
			}
		}
	}
	if len(got) != len(want) || (len(want) != 0 && !reflect.DeepEqual(got, want)) {
		t.Errorf("elf sections: want %v, got %v", want, got)
	}
}

func TestKeep3C10(t *testing.T) {
	str := func(s string) *string { return &s }
	type mm = struct {
		entrySize uint32
		regions   []k3Region
	}

	qemuRegions := []k3Region{
		{0, 654336, 1},
		{0x9fc00, 1024, 2},
		{0xf0000, 65536, 2},
		{0x100000, 133038080, 1},
		{0x7fe0000, 131072, 3},
		{0xfffc0000, 262144, 4},
	}
	oddRegions := []k3Region{
		{0x1000, 0x2000, 0},
		{0x4000, 0x1000, 5},
		{0x8000, 0x800, 0xffffffff},
		{0x100000000, 0xffffffff00000000, 1},
		{0x9000, 0, 0x80000001},
		{0xA000, 7, 4},
	}
	secs := []k3Sec{
		{name: "", size: 0},
		{name: ".text", flags: 6, addr: 0xffff800000100000, size: 0x81234},
		{name: ".empty", flags: 3, addr: 0x1234, size: 0},
		{name: ".rodata", flags: 2, addr: 0xffff800000200000, size: 1},
		{name: ".data", flags: 3, addr: 0xffff800000300000, size: 0x4000},
		{name: ".bss", flags: 3, addr: 0xffff800000400000, size: 0xffffffffff},
		{name: ".debug_with_a_rather_long_section_name", flags: 0, addr: 0, size: 99},
		{name: "", flags: 0, addr: 0x10, size: 5},
		{name: ".last", flags: 7, addr: 0xfff, size: 3},
	}
	rgb := &k3Fb{addr: 0xfd000000, pitch: 4096, width: 1024, height: 768, bpp: 32, typ: 1, color: []byte{16, 8, 8, 8, 0, 8}}
	rgb565 := &k3Fb{addr: 0x1fe000000, pitch: 1600, width: 800, height: 600, bpp: 16, typ: 1, color: []byte{11, 5, 5, 6, 0, 5}}
	ega := &k3Fb{addr: 0xb8000, pitch: 160, width: 80, height: 25, bpp: 16, typ: 2}
	indexed := &k3Fb{addr: 0xa0000, pitch: 320, width: 320, height: 200, bpp: 8, typ: 0, color: []byte{2, 0, 0, 0, 0, 0xff, 0xff, 0xff}}

	cases := []k3Case{
		{name: "nothing", order: ""},
		{name: "only-undecoded-tags", order: "x"},
		{name: "qemu-like", order: "cxmfe", cmdLine: str("param1        param2=value2"), mmap: &mm{24, qemuRegions}, fb: rgb, secs: secs, elf: true},
		{name: "reversed", order: "efmxc", cmdLine: str("consoleFont=terminus8x16 consoleLogo=off nosmp"), mmap: &mm{24, oddRegions}, fb: rgb565, secs: secs, elf: true},
		{name: "first-wins", order: "mMxfFcCe", cmdLine: str("a=1 b"), mmap: &mm{40, qemuRegions}, fb: ega, secs: secs[:3], elf: true},
		{name: "first-wins-2", order: "fcmFxCM", cmdLine: str("winner"), mmap: &mm{32, oddRegions}, fb: indexed},
		{name: "empty-map-and-cmdline", order: "mc", cmdLine: str(""), mmap: &mm{24, nil}},
		{name: "big-entries", order: "xmx", mmap: &mm{4096, oddRegions}},
		{name: "one-entry", order: "m", mmap: &mm{56, oddRegions[2:3]}},
		{name: "only-empty-sections", order: "ex", secs: []k3Sec{{name: ".a", size: 0}, {name: ".b", addr: 5, size: 0}}, elf: true},
		{name: "no-sections", order: "e", secs: nil, elf: true},
		{name: "cmdline-odd", order: "c", cmdLine: str("  lead trail=  a=b=c = =v k= \tt\u00a0nbsp\u2003em\u0085nel\u3000wide x\x00y é=ü a=2 a=3 b b=1 \xff\xfe=\x80  ")},
		{name: "cmdline-only-space", order: "xc", cmdLine: str(" \t\n ")},
		{name: "cmdline-one-flag", order: "c", cmdLine: str("q")},
		{name: "cmdline-long", order: "cf", cmdLine: str(strings.Repeat("key=value flag ", 300) + "last=one"), fb: ega},
	}

	for _, c := range cases {
		c := c
		t.Run(c.name, func(t *testing.T) { k3Check(t, c) })
	}

	// Leave no memoized state behind for the other tests of the package.
	cmdLineKV = nil
}
