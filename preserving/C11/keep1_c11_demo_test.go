package aml

import (
	"bytes"
	"testing"
	"unsafe"

	"github.com/ProjectSerenity/firefly/kernel/device/acpi/table"
)

// ---------------------------------------------------------------------------
// A tiny AML assembler; just enough to write the programs below.
// ---------------------------------------------------------------------------

func c11Cat(parts ...[]byte) []byte {
	var out []byte
	for _, p := range parts {
		out = append(out, p...)
	}
	return out
}

// c11PkgLen encodes a PkgLength using exactly width bytes (1-4). The encoded
// length accounts for the PkgLength bytes themselves when self is true (that
// is the case for all packages; NamedField/ReservedField widths use false).
func c11PkgLen(t *testing.T, width int, payloadLen int, self bool) []byte {
	l := uint32(payloadLen)
	if self {
		l += uint32(width)
	}
	switch width {
	case 1:
		if l > 0x3f {
			t.Fatalf("pkgLen %d does not fit in 1 byte", l)
		}
		return []byte{byte(l)}
	case 2:
		return []byte{0x40 | byte(l&0xf), byte(l >> 4)}
	case 3:
		return []byte{0x80 | byte(l&0xf), byte(l >> 4), byte(l >> 12)}
	default:
		return []byte{0xc0 | byte(l&0xf), byte(l >> 4), byte(l >> 12), byte(l >> 20)}
	}
}

func c11Pkg(t *testing.T, width int, op []byte, body ...[]byte) []byte {
	payload := c11Cat(body...)
	return c11Cat(op, c11PkgLen(t, width, len(payload), true), payload)
}

func c11Byte(v uint8) []byte  { return []byte{0x0a, v} }
func c11Word(v uint16) []byte { return []byte{0x0b, byte(v), byte(v >> 8)} }
func c11Dword(v uint32) []byte {
	return []byte{0x0c, byte(v), byte(v >> 8), byte(v >> 16), byte(v >> 24)}
}
func c11Qword(v uint64) []byte {
	out := []byte{0x0e}
	for i := uint(0); i < 8; i++ {
		out = append(out, byte(v>>(8*i)))
	}
	return out
}
func c11Str(s string) []byte { return c11Cat([]byte{0x0d}, []byte(s), []byte{0x00}) }
func c11Name(name []byte, val []byte) []byte {
	return c11Cat([]byte{0x08}, name, val)
}
func c11Seg(s string) []byte { return []byte(s) }
func c11Multi(prefix string, segs ...string) []byte {
	out := []byte(prefix)
	switch len(segs) {
	case 1:
	case 2:
		out = append(out, 0x2e)
	default:
		out = append(out, 0x2f, byte(len(segs)))
	}
	for _, s := range segs {
		out = append(out, s...)
	}
	return out
}

var (
	c11OpScope   = []byte{0x10}
	c11OpBuffer  = []byte{0x11}
	c11OpMethod  = []byte{0x14}
	c11OpWhile   = []byte{0xa2}
	c11OpDevice  = []byte{0x5b, 0x82}
	c11OpField   = []byte{0x5b, 0x81}
	c11OpProc    = []byte{0x5b, 0x83}
	c11OpPowerR  = []byte{0x5b, 0x84}
	c11OpThermal = []byte{0x5b, 0x85}
)

func c11Table(t *testing.T, body []byte) *table.SDTHeader {
	headerLen := int(unsafe.Sizeof(table.SDTHeader{}))
	stream := make([]byte, headerLen+len(body))
	copy(stream[headerLen:], body)

	header := (*table.SDTHeader)(unsafe.Pointer(&stream[0]))
	header.Signature = [4]byte{'D', 'S', 'D', 'T'}
	header.Length = uint32(len(stream))
	header.Revision = 2
	return header
}

// ---------------------------------------------------------------------------
// Namespace inspection helpers. They only rely on what the namespace means:
// absolute paths, kinds, arguments in order and encoded values.
// ---------------------------------------------------------------------------

// c11Resolve walks an absolute path one segment at a time. The children of a
// scoped object (device, method, ...) live in the scope block that holds its
// term list.
func c11Resolve(tree *ObjectTree, segs []string) *Object {
	cur := tree.ObjectAt(0)
nextSeg:
	for _, seg := range segs {
		container := cur
		if cur.opcode != pOpIntScopeBlock {
			container = nil
			for idx := cur.firstArgIndex; idx != InvalidIndex; idx = tree.ObjectAt(idx).nextSiblingIndex {
				if child := tree.ObjectAt(idx); child.opcode == pOpIntScopeBlock {
					container = child
					break
				}
			}
			if container == nil {
				return nil
			}
		}

		for idx := container.firstArgIndex; idx != InvalidIndex; idx = tree.ObjectAt(idx).nextSiblingIndex {
			child := tree.ObjectAt(idx)
			if child == nil {
				return nil
			}
			if child.parentIndex != container.index {
				return nil
			}
			if string(child.name[:]) == seg {
				cur = child
				continue nextSeg
			}
		}
		return nil
	}
	return cur
}

func c11Lookup(t *testing.T, tree *ObjectTree, segs ...string) *Object {
	t.Helper()
	obj := c11Resolve(tree, segs)
	if obj == nil {
		t.Fatalf("no object at \\%v", segs)
	}
	return obj
}

func c11Absent(t *testing.T, tree *ObjectTree, segs ...string) {
	t.Helper()
	if obj := c11Resolve(tree, segs); obj != nil {
		t.Fatalf("did not expect an object at \\%v", segs)
	}
}

func c11Kind(t *testing.T, obj *Object, op uint16) {
	t.Helper()
	if obj.opcode != op {
		t.Fatalf("object %q: expected kind %s; got %s", obj.name[:], pOpcodeName(op), pOpcodeName(obj.opcode))
	}
}

func c11NumArg(t *testing.T, tree *ObjectTree, obj *Object, argIndex uint32, want uint64) {
	t.Helper()
	arg := tree.ArgAt(obj, argIndex)
	if arg == nil {
		t.Fatalf("object %q: missing arg %d", obj.name[:], argIndex)
	}
	got, ok := arg.value.(uint64)
	if !ok {
		// Zero / One / Ones carry their value in the opcode
		switch arg.opcode {
		case pOpZero:
			got, ok = 0, true
		case pOpOne:
			got, ok = 1, true
		case pOpOnes:
			got, ok = ^uint64(0), true
		}
	}
	if !ok || got != want {
		t.Fatalf("object %q: arg %d: expected number 0x%x; got %v (%s)", obj.name[:], argIndex, want, arg.value, pOpcodeName(arg.opcode))
	}
}

func c11BytesArg(t *testing.T, tree *ObjectTree, obj *Object, argIndex uint32, want []byte) {
	t.Helper()
	arg := tree.ArgAt(obj, argIndex)
	if arg == nil {
		t.Fatalf("object %q: missing arg %d", obj.name[:], argIndex)
	}
	got, ok := arg.value.([]byte)
	if !ok || !bytes.Equal(got, want) {
		t.Fatalf("object %q: arg %d: expected bytes %q; got %v", obj.name[:], argIndex, want, arg.value)
	}
}

func c11Field(t *testing.T, tree *ObjectTree, wantOffset, wantWidth uint32, segs ...string) {
	t.Helper()
	obj := c11Lookup(t, tree, segs...)
	c11Kind(t, obj, pOpIntNamedField)
	fe, ok := obj.value.(*fieldElement)
	if !ok {
		t.Fatalf("field unit %q carries no field element", obj.name[:])
	}
	if fe.offset != wantOffset || fe.width != wantWidth {
		t.Fatalf("field unit %q: expected offset/width %d/%d; got %d/%d", obj.name[:], wantOffset, wantWidth, fe.offset, fe.width)
	}
}

// c11MethodArgCount returns the declared arg count for a method object.
func c11MethodArgCount(t *testing.T, tree *ObjectTree, m *Object) uint32 {
	t.Helper()
	c11Kind(t, m, pOpMethod)
	flags, ok := tree.ArgAt(m, 1).value.(uint64)
	if !ok {
		t.Fatalf("method %q has no flags", m.name[:])
	}
	return uint32(flags & 0x7)
}

// c11CheckCalls walks everything reachable from the root and makes sure that
// every method invocation has exactly the declared number of args and that no
// ambiguous name remains. It returns the number of invocations per method name.
func c11CheckCalls(t *testing.T, tree *ObjectTree) map[string]int {
	t.Helper()
	calls := make(map[string]int)

	var visit func(idx uint32, depth int)
	visit = func(idx uint32, depth int) {
		if depth > 200 {
			t.Fatal("tree is too deep; cycle?")
		}
		obj := tree.ObjectAt(idx)
		if obj == nil {
			t.Fatalf("freed or missing object %d is reachable from the root", idx)
		}
		switch obj.opcode {
		case pOpIntNamePathOrMethodCall:
			t.Fatalf("unresolved name %q left in the tree", obj.value)
		case pOpIntMethodCall:
			target := tree.ObjectAt(obj.value.(uint32))
			if target == nil {
				t.Fatal("method call to a missing object")
			}
			want := c11MethodArgCount(t, tree, target)
			if got := tree.NumArgs(obj); got != want {
				t.Fatalf("call to %q: expected %d args; got %d", target.name[:], want, got)
			}
			calls[string(target.name[:])]++
		}
		for arg := obj.firstArgIndex; arg != InvalidIndex; arg = tree.ObjectAt(arg).nextSiblingIndex {
			if tree.ObjectAt(arg).parentIndex != idx {
				t.Fatalf("object %d does not point back to its parent %d", arg, idx)
			}
			visit(arg, depth+1)
		}
	}
	visit(0, 0)
	return calls
}

// c11Body returns the scope block holding the term list of a scoped object.
func c11Body(t *testing.T, tree *ObjectTree, obj *Object) *Object {
	t.Helper()
	last := tree.ObjectAt(obj.lastArgIndex)
	if last == nil || last.opcode != pOpIntScopeBlock {
		t.Fatalf("object %q has no body", obj.name[:])
	}
	return last
}

// ---------------------------------------------------------------------------
// The demonstration.
// ---------------------------------------------------------------------------

func TestKeep1C11Demo(t *testing.T) {
	// Table 1 (DSDT):
	//
	// Name(STR0, "hello")
	// Name(INT0, 0x1234)
	// Name(BUF0, Buffer(4){1,2,3,4})
	// Name(BUFZ, Buffer(FWD0(ADD2(1,2), 3)){0x48, 0x49})   // forward refs, nested call, deferred
	// Scope(\_SB) {                                        // 2-byte pkgLen
	//   Device(DEV0) {                                     // 3-byte pkgLen
	//     Name(_ADR, 0xdeadbeef)
	//     Method(MTH0, 1) {                                // 4-byte pkgLen
	//       While(ADD2(Arg0, One)) { Increment(Arg0) }
	//       Return(\FWD0(ADD2(1, 2), 3))
	//     }
	//   }
	//   OperationRegion(REG0, SystemIO, 0x80, 0x10)
	//   Field(REG0, ByteAcc, NoLock, Preserve) { FLA0, 3, , 5, FLB0, 0x123 }
	//   Mutex(MTX0, 2)
	//   Event(EVT0)
	//   ThermalZone(^THRM) { Name(DEF0, Ones) }            // ends up at \THRM
	// }
	// Scope(\THRM) { Name(DEF1, Zero) }                    // needs an extra resolve pass
	// Method(FWD0, 2) { Return(Arg0) }
	// Method(ADD2, 2) { Return(Add(Arg0, Arg1)) }
	// Name(\_SB.DEV0.MULT, "multi")                        // multi-segment name
	// Method(\_SB.DEV0.MTH2, 0) { Return(One) }
	// Name(QWD0, 0xbadc0feedeadc0de)
	// Processor(CPU0, 1, 0x120, 6) {}
	// PowerResource(PWR0, 3, 0x0102) {}
	// ThermalZone(TZ00) {}
	callFwd := c11Cat(
		c11Multi("\\", "FWD0"),
		c11Seg("ADD2"), c11Byte(1), c11Byte(2),
		c11Byte(3),
	)

	mth0 := c11Pkg(t, 4, c11OpMethod, c11Seg("MTH0"), []byte{0x01},
		c11Pkg(t, 1, c11OpWhile,
			// ADD2(Arg0, One)
			c11Seg("ADD2"), []byte{0x68, 0x01},
			// Increment(Arg0)
			[]byte{0x75, 0x68},
		),
		[]byte{0xa4}, callFwd,
	)

	dev0 := c11Pkg(t, 3, c11OpDevice, c11Seg("DEV0"),
		c11Name(c11Seg("_ADR"), c11Dword(0xdeadbeef)),
		mth0,
	)

	field := c11Pkg(t, 1, c11OpField, c11Seg("REG0"), []byte{0x01},
		c11Seg("FLA0"), c11PkgLen(t, 1, 3, false),
		[]byte{0x00}, c11PkgLen(t, 1, 5, false),
		c11Seg("FLB0"), c11PkgLen(t, 2, 0x123, false),
	)

	sb := c11Pkg(t, 2, c11OpScope, c11Multi("\\", "_SB_"),
		dev0,
		[]byte{0x5b, 0x80}, c11Seg("REG0"), []byte{0x01}, c11Byte(0x80), c11Byte(0x10),
		field,
		[]byte{0x5b, 0x01}, c11Seg("MTX0"), []byte{0x02},
		[]byte{0x5b, 0x02}, c11Seg("EVT0"),
		c11Pkg(t, 1, c11OpThermal, c11Multi("^", "THRM"), c11Name(c11Seg("DEF0"), []byte{0xff})),
	)

	dsdt := c11Cat(
		c11Name(c11Seg("STR0"), c11Str("hello")),
		c11Name(c11Seg("INT0"), c11Word(0x1234)),
		c11Name(c11Seg("BUF0"), c11Pkg(t, 1, c11OpBuffer, c11Byte(4), []byte{1, 2, 3, 4})),
		c11Name(c11Seg("BUFZ"), c11Pkg(t, 2, c11OpBuffer,
			c11Seg("FWD0"), c11Seg("ADD2"), c11Byte(1), c11Byte(2), c11Byte(3),
			[]byte{0x48, 0x49},
		)),
		sb,
		c11Pkg(t, 1, c11OpScope, c11Multi("\\", "THRM"), c11Name(c11Seg("DEF1"), []byte{0x00})),
		c11Pkg(t, 1, c11OpMethod, c11Seg("FWD0"), []byte{0x02}, []byte{0xa4, 0x68}),
		c11Pkg(t, 1, c11OpMethod, c11Seg("ADD2"), []byte{0x02}, []byte{0xa4, 0x72, 0x68, 0x69, 0x00}),
		c11Name(c11Multi("\\", "_SB_", "DEV0", "MULT"), c11Str("multi")),
		c11Pkg(t, 1, c11OpMethod, c11Multi("\\", "_SB_", "DEV0", "MTH2"), []byte{0x00}, []byte{0xa4, 0x01}),
		c11Name(c11Seg("QWD0"), c11Qword(0xbadc0feedeadc0de)),
		c11Pkg(t, 1, c11OpProc, c11Seg("CPU0"), []byte{0x01}, []byte{0x20, 0x01, 0x00, 0x00}, []byte{0x06}),
		c11Pkg(t, 1, c11OpPowerR, c11Seg("PWR0"), []byte{0x03}, []byte{0x02, 0x01}),
		c11Pkg(t, 1, c11OpThermal, c11Seg("TZ00")),
	)

	// Table 2 (SSDT), loaded later into the same namespace:
	//
	// Scope(\_SB.DEV0) {
	//   Name(SSD0, "later")
	//   Method(MTH1, 0) { Return(FWD0(MTH2(), SSD0)) }   // calls into table 1
	// }
	// Device(\_SB.DEV1) { Name(_HID, "ACPI0003") }
	ssdt := c11Cat(
		c11Pkg(t, 1, c11OpScope, c11Multi("\\", "_SB_", "DEV0"),
			c11Name(c11Seg("SSD0"), c11Str("later")),
			c11Pkg(t, 1, c11OpMethod, c11Seg("MTH1"), []byte{0x00},
				[]byte{0xa4}, c11Seg("FWD0"), c11Seg("MTH2"), c11Seg("SSD0"),
			),
		),
		c11Pkg(t, 2, c11OpDevice, c11Multi("\\", "_SB_", "DEV1"), c11Name(c11Seg("_HID"), c11Str("ACPI0003"))),
	)

	tree := NewObjectTree()
	tree.CreateDefaultScopes(42)
	p := NewParser(&testWriter{t: t}, tree)

	dsdtHeader := c11Table(t, dsdt)
	if err := p.ParseAML(0, "DSDT", dsdtHeader); err != nil {
		t.Fatalf("DSDT: %v", err)
	}

	checkDSDT := func() {
		// Constants, strings and buffers
		obj := c11Lookup(t, tree, "STR0")
		c11Kind(t, obj, pOpName)
		c11BytesArg(t, tree, obj, 1, []byte("hello"))

		obj = c11Lookup(t, tree, "INT0")
		c11Kind(t, obj, pOpName)
		c11NumArg(t, tree, obj, 1, 0x1234)

		obj = c11Lookup(t, tree, "QWD0")
		c11NumArg(t, tree, obj, 1, 0xbadc0feedeadc0de)

		obj = c11Lookup(t, tree, "BUF0")
		buf := tree.ArgAt(obj, 1)
		c11Kind(t, buf, pOpBuffer)
		c11NumArg(t, tree, buf, 0, 4)
		c11BytesArg(t, tree, buf, 1, []byte{1, 2, 3, 4})

		// Deferred buffer whose size is a nested, forward-referencing call
		obj = c11Lookup(t, tree, "BUFZ")
		buf = tree.ArgAt(obj, 1)
		c11Kind(t, buf, pOpBuffer)
		if got := tree.NumArgs(buf); got != 2 {
			t.Fatalf("BUFZ buffer: expected 2 args; got %d", got)
		}
		size := tree.ArgAt(buf, 0)
		c11Kind(t, size, pOpIntMethodCall)
		if target := tree.ObjectAt(size.value.(uint32)); target != c11Lookup(t, tree, "FWD0") {
			t.Fatal("BUFZ size is not a call to \\FWD0")
		}
		inner := tree.ArgAt(size, 0)
		c11Kind(t, inner, pOpIntMethodCall)
		if target := tree.ObjectAt(inner.value.(uint32)); target != c11Lookup(t, tree, "ADD2") {
			t.Fatal("BUFZ size arg 0 is not a call to \\ADD2")
		}
		c11NumArg(t, tree, inner, 0, 1)
		c11NumArg(t, tree, inner, 1, 2)
		c11NumArg(t, tree, size, 1, 3)
		c11BytesArg(t, tree, buf, 1, []byte{0x48, 0x49})

		// Objects declared through a Scope directive
		dev := c11Lookup(t, tree, "_SB_", "DEV0")
		c11Kind(t, dev, pOpDevice)
		obj = c11Lookup(t, tree, "_SB_", "DEV0", "_ADR")
		c11Kind(t, obj, pOpName)
		c11NumArg(t, tree, obj, 1, 0xdeadbeef)
		c11Absent(t, tree, "DEV0")

		obj = c11Lookup(t, tree, "_SB_", "REG0")
		c11Kind(t, obj, pOpOpRegion)
		c11NumArg(t, tree, obj, 1, 1)
		c11NumArg(t, tree, obj, 2, 0x80)
		c11NumArg(t, tree, obj, 3, 0x10)
		if got := tree.NumArgs(obj); got != 4 {
			t.Fatalf("REG0: expected 4 args; got %d", got)
		}

		c11Field(t, tree, 0, 3, "_SB_", "FLA0")
		c11Field(t, tree, 8, 0x123, "_SB_", "FLB0")

		obj = c11Lookup(t, tree, "_SB_", "MTX0")
		c11Kind(t, obj, pOpMutex)
		c11NumArg(t, tree, obj, 1, 2)
		c11Kind(t, c11Lookup(t, tree, "_SB_", "EVT0"), pOpEvent)

		// Parent-prefixed name + a Scope that can only be resolved afterwards
		c11Kind(t, c11Lookup(t, tree, "THRM"), pOpThermalZone)
		c11Absent(t, tree, "_SB_", "THRM")
		obj = c11Lookup(t, tree, "THRM", "DEF0")
		c11NumArg(t, tree, obj, 1, ^uint64(0))
		obj = c11Lookup(t, tree, "THRM", "DEF1")
		c11NumArg(t, tree, obj, 1, 0)

		// Multi-segment names
		obj = c11Lookup(t, tree, "_SB_", "DEV0", "MULT")
		c11Kind(t, obj, pOpName)
		c11BytesArg(t, tree, obj, 1, []byte("multi"))
		c11Absent(t, tree, "MULT")
		if got := c11MethodArgCount(t, tree, c11Lookup(t, tree, "_SB_", "DEV0", "MTH2")); got != 0 {
			t.Fatalf("MTH2: expected 0 declared args; got %d", got)
		}

		// Other kinds with their args in order
		obj = c11Lookup(t, tree, "CPU0")
		c11Kind(t, obj, pOpProcessor)
		c11NumArg(t, tree, obj, 1, 1)
		c11NumArg(t, tree, obj, 2, 0x120)
		c11NumArg(t, tree, obj, 3, 6)

		obj = c11Lookup(t, tree, "PWR0")
		c11Kind(t, obj, pOpPowerRes)
		c11NumArg(t, tree, obj, 1, 3)
		c11NumArg(t, tree, obj, 2, 0x0102)

		c11Kind(t, c11Lookup(t, tree, "TZ00"), pOpThermalZone)

		// Methods and the invocations inside MTH0
		if got := c11MethodArgCount(t, tree, c11Lookup(t, tree, "FWD0")); got != 2 {
			t.Fatalf("FWD0: expected 2 declared args; got %d", got)
		}
		if got := c11MethodArgCount(t, tree, c11Lookup(t, tree, "ADD2")); got != 2 {
			t.Fatalf("ADD2: expected 2 declared args; got %d", got)
		}
		mth0 := c11Lookup(t, tree, "_SB_", "DEV0", "MTH0")
		if got := c11MethodArgCount(t, tree, mth0); got != 1 {
			t.Fatalf("MTH0: expected 1 declared arg; got %d", got)
		}

		body := c11Body(t, tree, mth0)
		if got := tree.NumArgs(body); got != 2 {
			t.Fatalf("MTH0 body: expected 2 statements; got %d", got)
		}
		while := tree.ArgAt(body, 0)
		c11Kind(t, while, pOpWhile)
		predCall := tree.ArgAt(while, 0)
		c11Kind(t, predCall, pOpIntMethodCall)
		if target := tree.ObjectAt(predCall.value.(uint32)); target != c11Lookup(t, tree, "ADD2") {
			t.Fatal("While predicate is not a call to \\ADD2")
		}
		c11Kind(t, tree.ArgAt(predCall, 0), pOpArg0)
		c11Kind(t, tree.ArgAt(predCall, 1), pOpOne)
		whileBody := c11Body(t, tree, while)
		c11Kind(t, tree.ArgAt(whileBody, 0), pOpIncrement)

		ret := tree.ArgAt(body, 1)
		c11Kind(t, ret, pOpReturn)
		if got := tree.NumArgs(ret); got != 1 {
			t.Fatalf("Return: expected 1 arg; got %d", got)
		}
		outer := tree.ArgAt(ret, 0)
		c11Kind(t, outer, pOpIntMethodCall)
		if target := tree.ObjectAt(outer.value.(uint32)); target != c11Lookup(t, tree, "FWD0") {
			t.Fatal("Return arg is not a call to \\FWD0")
		}
		inner = tree.ArgAt(outer, 0)
		c11Kind(t, inner, pOpIntMethodCall)
		c11NumArg(t, tree, inner, 0, 1)
		c11NumArg(t, tree, inner, 1, 2)
		c11NumArg(t, tree, outer, 1, 3)
	}

	checkDSDT()
	calls := c11CheckCalls(t, tree)
	if calls["FWD0"] != 2 || calls["ADD2"] != 3 || len(calls) != 2 {
		t.Fatalf("unexpected invocation census after DSDT: %v", calls)
	}

	// Load the second table with the same parser.
	ssdtHeader := c11Table(t, ssdt)
	if err := p.ParseAML(1, "SSDT", ssdtHeader); err != nil {
		t.Fatalf("SSDT: %v", err)
	}

	// Everything from the first table is still in place...
	checkDSDT()

	// ... and the objects from the later table sit at their absolute paths.
	obj := c11Lookup(t, tree, "_SB_", "DEV0", "SSD0")
	c11Kind(t, obj, pOpName)
	c11BytesArg(t, tree, obj, 1, []byte("later"))
	if obj.tableHandle != 1 {
		t.Fatalf("SSD0: expected table handle 1; got %d", obj.tableHandle)
	}

	mth1 := c11Lookup(t, tree, "_SB_", "DEV0", "MTH1")
	if got := c11MethodArgCount(t, tree, mth1); got != 0 {
		t.Fatalf("MTH1: expected 0 declared args; got %d", got)
	}
	ret := tree.ArgAt(c11Body(t, tree, mth1), 0)
	c11Kind(t, ret, pOpReturn)
	call := tree.ArgAt(ret, 0)
	c11Kind(t, call, pOpIntMethodCall)
	if target := tree.ObjectAt(call.value.(uint32)); target != c11Lookup(t, tree, "FWD0") {
		t.Fatal("MTH1: Return arg is not a call to \\FWD0")
	}
	arg0 := tree.ArgAt(call, 0)
	c11Kind(t, arg0, pOpIntMethodCall)
	if target := tree.ObjectAt(arg0.value.(uint32)); target != c11Lookup(t, tree, "_SB_", "DEV0", "MTH2") {
		t.Fatal("MTH1: first call arg is not a call to \\_SB.DEV0.MTH2")
	}
	arg1 := tree.ArgAt(call, 1)
	c11Kind(t, arg1, pOpIntResolvedNamePath)
	if target := tree.ObjectAt(arg1.value.(uint32)); target != c11Lookup(t, tree, "_SB_", "DEV0", "SSD0") {
		t.Fatal("MTH1: second call arg does not resolve to \\_SB.DEV0.SSD0")
	}

	dev1 := c11Lookup(t, tree, "_SB_", "DEV1")
	c11Kind(t, dev1, pOpDevice)
	obj = c11Lookup(t, tree, "_SB_", "DEV1", "_HID")
	c11BytesArg(t, tree, obj, 1, []byte("ACPI0003"))
	c11Absent(t, tree, "DEV1")

	calls = c11CheckCalls(t, tree)
	if calls["FWD0"] != 3 || calls["ADD2"] != 3 || calls["MTH2"] != 1 || len(calls) != 3 {
		t.Fatalf("unexpected invocation census after SSDT: %v", calls)
	}

	// Keep both tables alive until here regardless of what the tree references.
	if dsdtHeader.Length == 0 || ssdtHeader.Length == 0 {
		t.Fatal("unreachable")
	}
}

// TestKeep1C11DemoPkgLengths declares the same device using each of the four
// PkgLength encodings and expects identical namespaces.
func TestKeep1C11DemoPkgLengths(t *testing.T) {
	for width := 1; width <= 4; width++ {
		body := c11Cat(
			c11Pkg(t, width, c11OpScope, c11Multi("\\", "_SB_"),
				c11Pkg(t, width, c11OpDevice, c11Seg("PCI0"),
					c11Name(c11Seg("_UID"), c11Byte(7)),
					c11Pkg(t, width, c11OpMethod, c11Seg("_STA"), []byte{0x00},
						[]byte{0xa4}, c11Seg("HLP0"), c11Str("s"), c11Pkg(t, width, c11OpBuffer, c11Byte(2), []byte{9, 8}),
					),
				),
			),
			c11Pkg(t, width, c11OpMethod, c11Seg("HLP0"), []byte{0x02}, []byte{0xa4, 0x69}),
		)

		tree := NewObjectTree()
		tree.CreateDefaultScopes(42)
		header := c11Table(t, body)
		if err := NewParser(&testWriter{t: t}, tree).ParseAML(3, "DSDT", header); err != nil {
			t.Fatalf("[width %d] %v", width, err)
		}

		obj := c11Lookup(t, tree, "_SB_", "PCI0", "_UID")
		c11NumArg(t, tree, obj, 1, 7)

		sta := c11Lookup(t, tree, "_SB_", "PCI0", "_STA")
		ret := tree.ArgAt(c11Body(t, tree, sta), 0)
		c11Kind(t, ret, pOpReturn)
		call := tree.ArgAt(ret, 0)
		c11Kind(t, call, pOpIntMethodCall)
		if target := tree.ObjectAt(call.value.(uint32)); target != c11Lookup(t, tree, "HLP0") {
			t.Fatalf("[width %d] Return arg is not a call to \\HLP0", width)
		}
		c11BytesArg(t, tree, call, 0, []byte("s"))
		buf := tree.ArgAt(call, 1)
		c11Kind(t, buf, pOpBuffer)
		c11NumArg(t, tree, buf, 0, 2)
		c11BytesArg(t, tree, buf, 1, []byte{9, 8})

		if calls := c11CheckCalls(t, tree); calls["HLP0"] != 1 || len(calls) != 1 {
			t.Fatalf("[width %d] unexpected invocation census: %v", width, calls)
		}

		if header.Length == 0 {
			t.Fatal("unreachable")
		}
	}
}
