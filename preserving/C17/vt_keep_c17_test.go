package tty

// Demonstration for property C17: the terminal emulator state always matches
// a simple reference terminal model.
//
// Copy to kernel/device/tty/vt_keep_c17_test.go and run
//   cd kernel && go test -vet=off -count=1 -run TestKeepC17 ./device/tty/
//
// The checks only look at what the property talks about: the stored cells
// (through the linear line-major layout of VT.data), the position of the
// viewport inside the buffer, the size of the buffer and the cursor as
// reported by CursorPosition. They deliberately do not look at VT.dataOffset
// or at the number/grouping of internal operations.

import (
	"fmt"
	"image/color"
	"io"
	"math/rand"
	"testing"

	"github.com/ProjectSerenity/firefly/kernel/device/video/console"
)

// ---------------------------------------------------------------------------
// Reference terminal
// ---------------------------------------------------------------------------

type keepCell struct{ ch, fg, bg uint8 }

type keepRef struct {
	w, h, sb, tab int
	fg, bg        uint8
	lines         [][]keepCell // h+sb lines of w cells
	vy            int          // first buffer line shown in the viewport
	cx, cy        int          // 0-based cursor inside the viewport
}

func newKeepRef(w, h, sb, tab int, fg, bg uint8) *keepRef {
	m := &keepRef{w: w, h: h, sb: sb, tab: tab, fg: fg, bg: bg}
	m.lines = make([][]keepCell, h+sb)
	for i := range m.lines {
		m.lines[i] = m.blankLine()
	}
	return m
}

func (m *keepRef) blankLine() []keepCell {
	l := make([]keepCell, m.w)
	for i := range l {
		l[i] = keepCell{' ', m.fg, m.bg}
	}
	return l
}

func (m *keepRef) lf() {
	m.cx = 0
	if m.cy+1 < m.h {
		m.cy++
		return
	}

	if m.vy < m.sb {
		// move the viewport down through the scrollback
		m.vy++
		return
	}

	// scrollback used up: scroll the viewport's lines up by one
	for i := m.vy; i < m.vy+m.h-1; i++ {
		m.lines[i] = m.lines[i+1]
	}
	m.lines[m.vy+m.h-1] = m.blankLine()
}

func (m *keepRef) put(b byte) {
	m.lines[m.vy+m.cy][m.cx] = keepCell{b, m.fg, m.bg}
	m.cx++
	if m.cx == m.w {
		m.lf()
	}
}

func (m *keepRef) writeByte(b byte) {
	switch b {
	case '\r':
		m.cx = 0
	case '\n':
		m.lf()
	case '\b':
		if m.cx > 0 {
			m.cx--
			m.lines[m.vy+m.cy][m.cx] = keepCell{' ', m.fg, m.bg}
		}
	case '\t':
		for i := 0; i < m.tab; i++ {
			m.put(' ')
		}
	default:
		m.put(b)
	}
}

func (m *keepRef) setCursor(x, y uint32) {
	// 1-based, clipped to the viewport
	cx, cy := int(x), int(y)
	if cx < 1 {
		cx = 1
	} else if cx > m.w {
		cx = m.w
	}
	if cy < 1 {
		cy = 1
	} else if cy > m.h {
		cy = m.h
	}
	m.cx, m.cy = cx-1, cy-1
}

// ---------------------------------------------------------------------------
// Console double: a real character grid that scrolls, and that rejects any
// access outside its own bounds.
// ---------------------------------------------------------------------------

type keepCons struct {
	t      *testing.T
	w, h   uint32
	fg, bg uint8
	cells  []keepCell
}

func newKeepCons(t *testing.T, w, h uint32, fg, bg uint8) *keepCons {
	return &keepCons{t: t, w: w, h: h, fg: fg, bg: bg, cells: make([]keepCell, w*h)}
}

func (c *keepCons) Dimensions(_ console.Dimension) (uint32, uint32) { return c.w, c.h }
func (c *keepCons) DefaultColors() (uint8, uint8)                   { return c.fg, c.bg }
func (c *keepCons) Palette() color.Palette                          { return nil }
func (c *keepCons) SetPaletteColor(_ uint8, _ color.RGBA)           {}

func (c *keepCons) Write(b byte, fg, bg uint8, x, y uint32) {
	if x < 1 || x > c.w || y < 1 || y > c.h {
		c.t.Fatalf("console write outside the %dx%d console: (%d,%d)", c.w, c.h, x, y)
	}
	c.cells[(y-1)*c.w+(x-1)] = keepCell{b, fg, bg}
}

func (c *keepCons) Fill(x, y, width, height uint32, fg, bg uint8) {
	if x < 1 || y < 1 || x+width-1 > c.w || y+height-1 > c.h {
		c.t.Fatalf("console fill outside the %dx%d console: (%d,%d) %dx%d", c.w, c.h, x, y, width, height)
	}
	for fy := y; fy < y+height; fy++ {
		for fx := x; fx < x+width; fx++ {
			c.cells[(fy-1)*c.w+(fx-1)] = keepCell{' ', fg, bg}
		}
	}
}

func (c *keepCons) Scroll(dir console.ScrollDir, lines uint32) {
	if dir != console.ScrollDirUp || lines != 1 {
		c.t.Fatalf("unexpected console scroll: dir %d, %d lines", dir, lines)
	}
	copy(c.cells, c.cells[c.w:])
}

// ---------------------------------------------------------------------------
// Comparison
// ---------------------------------------------------------------------------

func keepCompare(term *VT, cons *keepCons, m *keepRef) error {
	if got, exp := len(term.data), (m.h+m.sb)*m.w*3; got != exp {
		return fmt.Errorf("terminal buffer is %d bytes; expected %d", got, exp)
	}

	if x, y := term.CursorPosition(); int(x) != m.cx+1 || int(y) != m.cy+1 {
		return fmt.Errorf("cursor at (%d,%d); reference has it at (%d,%d)", x, y, m.cx+1, m.cy+1)
	}

	if x, y := term.CursorPosition(); x < 1 || x > uint32(m.w) || y < 1 || y > uint32(m.h) {
		return fmt.Errorf("cursor (%d,%d) is outside the %dx%d viewport", x, y, m.w, m.h)
	}

	if int(term.viewportY) != m.vy {
		return fmt.Errorf("viewport starts at buffer line %d; reference has it at %d", term.viewportY, m.vy)
	}

	for l, line := range m.lines {
		for col, exp := range line {
			off := (l*m.w + col) * 3
			got := keepCell{term.data[off], term.data[off+1], term.data[off+2]}
			if got != exp {
				return fmt.Errorf("buffer line %d col %d holds %q/%d/%d; reference holds %q/%d/%d",
					l, col+1, got.ch, got.fg, got.bg, exp.ch, exp.fg, exp.bg)
			}
		}
	}

	// While the terminal is active the console shows the viewport.
	if term.State() == StateActive {
		for y := 0; y < m.h; y++ {
			for x := 0; x < m.w; x++ {
				if got, exp := cons.cells[y*m.w+x], m.lines[m.vy+y][x]; got != exp {
					return fmt.Errorf("console (%d,%d) shows %q/%d/%d; reference viewport holds %q/%d/%d",
						x+1, y+1, got.ch, got.fg, got.bg, exp.ch, exp.fg, exp.bg)
				}
			}
		}
	}

	return nil
}

func keepRender(m *keepRef) []string {
	out := make([]string, len(m.lines))
	for i, l := range m.lines {
		b := make([]byte, len(l))
		for j, c := range l {
			b[j] = c.ch
		}
		out[i] = string(b)
	}
	return out
}

// ---------------------------------------------------------------------------
// Hand-checked streams (these also validate the reference model itself)
// ---------------------------------------------------------------------------

func TestKeepC17HandChecked(t *testing.T) {
	specs := []struct {
		name           string
		w, h, sb, tab  int
		chunks         []string
		expLines       []string
		expX, expY     uint32
		expViewportY   uint32
		byteAtATime    bool
		activeTerminal bool
	}{
		{
			name: "3x2 no scrollback", w: 3, h: 2, sb: 0, tab: 2,
			chunks:   []string{"abcd", "\n", "\tX", "\b", "12\b"},
			expLines: []string{"  X", "1  "},
			expX:     2, expY: 2, expViewportY: 0,
		},
		{
			name: "3x2 no scrollback, one write", w: 3, h: 2, sb: 0, tab: 2,
			chunks:   []string{"abcd\n\tX\b12\b"},
			expLines: []string{"  X", "1  "},
			expX:     2, expY: 2, expViewportY: 0,
			activeTerminal: true,
		},
		{
			name: "3x2 no scrollback, bytewise", w: 3, h: 2, sb: 0, tab: 2,
			chunks:   []string{"abcd\n\tX\b12\b"},
			expLines: []string{"  X", "1  "},
			expX:     2, expY: 2, expViewportY: 0,
			byteAtATime: true,
		},
		{
			// the scrollback lines are left alone once the viewport has
			// reached the end of the buffer
			name: "2x1 with scrollback", w: 2, h: 1, sb: 2, tab: 4,
			chunks:   []string{"abcdefgh", "g"},
			expLines: []string{"ab", "cd", "g "},
			expX:     2, expY: 1, expViewportY: 2,
			activeTerminal: true,
		},
		{
			name: "1x1", w: 1, h: 1, sb: 0, tab: 3,
			chunks:   []string{"a", "\b", "\t", "xyz\r\n"},
			expLines: []string{" "},
			expX:     1, expY: 1, expViewportY: 0,
		},
		{
			name: "tab wider than the line", w: 4, h: 3, sb: 1, tab: 6,
			chunks:   []string{"ab\tc\rd"},
			expLines: []string{"ab  ", "    ", "d   ", "    "},
			expX:     2, expY: 3, expViewportY: 0,
		},
		{
			name: "zero tab width", w: 4, h: 2, sb: 0, tab: 0,
			chunks:   []string{"a\t\tb"},
			expLines: []string{"ab  ", "    "},
			expX:     3, expY: 1, expViewportY: 0,
		},
	}

	for _, spec := range specs {
		t.Run(spec.name, func(t *testing.T) {
			cons := newKeepCons(t, uint32(spec.w), uint32(spec.h), 7, 1)
			term := NewVT(uint8(spec.tab), uint32(spec.sb))
			if spec.activeTerminal {
				term.SetState(StateActive)
			}
			term.AttachTo(cons)
			if spec.activeTerminal {
				// start from a console that shows the (blank) viewport
				term.SetState(StateInactive)
				term.SetState(StateActive)
			}
			m := newKeepRef(spec.w, spec.h, spec.sb, spec.tab, 7, 1)

			for _, chunk := range spec.chunks {
				if spec.byteAtATime {
					for i := 0; i < len(chunk); i++ {
						if err := term.WriteByte(chunk[i]); err != nil {
							t.Fatal(err)
						}
					}
				} else if n, err := term.Write([]byte(chunk)); n != len(chunk) || err != nil {
					t.Fatalf("Write(%q) returned (%d, %v)", chunk, n, err)
				}
				for i := 0; i < len(chunk); i++ {
					m.writeByte(chunk[i])
				}
				if err := keepCompare(term, cons, m); err != nil {
					t.Fatalf("after %q: %v", chunk, err)
				}
			}

			got := keepRender(m)
			if fmt.Sprint(got) != fmt.Sprint(spec.expLines) {
				t.Fatalf("reference model holds %q; hand-checked expectation is %q", got, spec.expLines)
			}
			if x, y := term.CursorPosition(); x != spec.expX || y != spec.expY {
				t.Fatalf("cursor at (%d,%d); expected (%d,%d)", x, y, spec.expX, spec.expY)
			}
			if term.viewportY != spec.expViewportY {
				t.Fatalf("viewportY is %d; expected %d", term.viewportY, spec.expViewportY)
			}
		})
	}
}

// ---------------------------------------------------------------------------
// Randomised streams over many geometries, interleaved with cursor moves and
// state changes
// ---------------------------------------------------------------------------

func keepRandomByte(rng *rand.Rand) byte {
	switch r := rng.Intn(100); {
	case r < 55:
		return byte('a' + rng.Intn(26))
	case r < 65:
		return '\n'
	case r < 72:
		return '\r'
	case r < 82:
		return '\b'
	case r < 90:
		return '\t'
	case r < 94:
		return ' '
	default:
		// anything else is stored as is, e.g. NUL, ESC, DEL, 0xff
		b := byte(rng.Intn(256))
		if b == '\n' || b == '\r' || b == '\b' || b == '\t' {
			b = 0x1b
		}
		return b
	}
}

func TestKeepC17RandomStreams(t *testing.T) {
	widths := []int{1, 2, 3, 5, 80}
	heights := []int{1, 2, 3, 25}
	scrollbacks := []int{0, 1, 4, 80}
	tabs := []int{0, 1, 4, 7, 255}

	if _, err := NewVT(4, 0).Write([]byte("x")); err != io.ErrClosedPipe {
		t.Fatalf("expected a write to an unattached terminal to fail with ErrClosedPipe; got %v", err)
	}

	seed := int64(17)
	for _, w := range widths {
		for _, h := range heights {
			for _, sb := range scrollbacks {
				for _, tab := range tabs {
					seed++
					rng := rand.New(rand.NewSource(seed))
					name := fmt.Sprintf("%dx%d sb=%d tab=%d", w, h, sb, tab)

					fg, bg := uint8(1+rng.Intn(15)), uint8(rng.Intn(8))
					cons := newKeepCons(t, uint32(w), uint32(h), fg, bg)
					term := NewVT(uint8(tab), uint32(sb))
					if rng.Intn(2) == 0 {
						term.SetState(StateActive)
					}
					term.AttachTo(cons)
					if term.State() == StateActive {
						term.SetState(StateInactive)
						term.SetState(StateActive)
					}
					m := newKeepRef(w, h, sb, tab, fg, bg)

					if err := keepCompare(term, cons, m); err != nil {
						t.Fatalf("[%s] after attach: %v", name, err)
					}

					ops := 250
					if w*(h+sb) > 2000 {
						ops = 120
					}

					for op := 0; op < ops; op++ {
						var desc string
						switch r := rng.Intn(100); {
						case r < 55:
							max := 3*w + 5
							if rng.Intn(10) == 0 {
								max = w*(h+sb+2) + 5
							}
							chunk := make([]byte, rng.Intn(max+1))
							for i := range chunk {
								chunk[i] = keepRandomByte(rng)
							}
							desc = fmt.Sprintf("Write(%q)", chunk)
							n, err := term.Write(chunk)
							if n != len(chunk) || err != nil {
								t.Fatalf("[%s] op %d %s returned (%d, %v)", name, op, desc, n, err)
							}
							for _, b := range chunk {
								m.writeByte(b)
							}
						case r < 75:
							b := keepRandomByte(rng)
							desc = fmt.Sprintf("WriteByte(%q)", b)
							if err := term.WriteByte(b); err != nil {
								t.Fatalf("[%s] op %d %s returned %v", name, op, desc, err)
							}
							m.writeByte(b)
						case r < 90:
							x, y := uint32(rng.Intn(w+3)), uint32(rng.Intn(h+3))
							desc = fmt.Sprintf("SetCursorPosition(%d,%d)", x, y)
							term.SetCursorPosition(x, y)
							m.setCursor(x, y)
						default:
							next := StateActive
							if term.State() == StateActive {
								next = StateInactive
							}
							desc = fmt.Sprintf("SetState(%d)", next)
							term.SetState(next)
						}

						if err := keepCompare(term, cons, m); err != nil {
							t.Fatalf("[%s] op %d %s: %v", name, op, desc, err)
						}
					}
				}
			}
		}
	}
}
