package tty

// Demonstration for property C18 ("an active terminal and its console always
// show the same thing").
//
// The test drives VT instances that are attached to the *shipped* consoles
// (VgaTextConsole and VesaFbConsole) with random byte streams, random colour
// changes and random activate/deactivate interleavings and, after every single
// operation, compares the complete console memory (including guard areas
// around the framebuffer, the logo rows, the pixels right of / below the cell
// grid and the pitch padding) against an expectation that is derived from an
// independent model of the terminal. The model only consumes the byte stream;
// it never looks at VT.data, VT.viewportY or VT.dataOffset, so it is
// independent of how the terminal stores its contents.
//
// Small scrollback values and long streams make sure that the terminal buffer
// gets exhausted many times over.

import (
	"bytes"
	"fmt"
	"image/color"
	"math/rand"
	"reflect"
	"testing"
	"unsafe"

	"github.com/ProjectSerenity/firefly/kernel/device/video/console"
	"github.com/ProjectSerenity/firefly/kernel/device/video/console/font"
	"github.com/ProjectSerenity/firefly/kernel/device/video/console/logo"
	"github.com/ProjectSerenity/firefly/kernel/multiboot"
)

// ---------------------------------------------------------------------------
// Independent terminal model
// ---------------------------------------------------------------------------

type c18Cell struct{ ch, fg, bg uint8 }

type c18Model struct {
	w, h         int
	tab          int
	defFg, defBg uint8
	curFg, curBg uint8
	x, y         int // 0-based cursor
	rows         [][]c18Cell
}

func newC18Model(w, h, tab int, defFg, defBg uint8) *c18Model {
	m := &c18Model{w: w, h: h, tab: tab, defFg: defFg, defBg: defBg, curFg: defFg, curBg: defBg}
	for i := 0; i < h; i++ {
		m.rows = append(m.rows, m.blankRow())
	}
	return m
}

func (m *c18Model) blankRow() []c18Cell {
	row := make([]c18Cell, m.w)
	for i := range row {
		row[i] = c18Cell{' ', m.defFg, m.defBg}
	}
	return row
}

func (m *c18Model) lf() {
	m.x = 0
	if m.y+1 < m.h {
		m.y++
		return
	}
	m.rows = append(m.rows[1:], m.blankRow())
}

func (m *c18Model) put(b byte, advance bool) {
	m.rows[m.y][m.x] = c18Cell{b, m.curFg, m.curBg}
	if advance {
		if m.x++; m.x >= m.w {
			m.lf()
		}
	}
}

func (m *c18Model) writeByte(b byte) {
	switch b {
	case '\r':
		m.x = 0
	case '\n':
		m.lf()
	case '\b':
		if m.x > 0 {
			m.x--
			m.put(' ', false)
		}
	case '\t':
		for i := 0; i < m.tab; i++ {
			m.put(' ', true)
		}
	default:
		m.put(b, true)
	}
}

func (m *c18Model) setCursor(x, y uint32) {
	if x < 1 {
		x = 1
	} else if x > uint32(m.w) {
		x = uint32(m.w)
	}
	if y < 1 {
		y = 1
	} else if y > uint32(m.h) {
		y = uint32(m.h)
	}
	m.x, m.y = int(x-1), int(y-1)
}

// ---------------------------------------------------------------------------
// Console rigs
// ---------------------------------------------------------------------------

// c18Rig wraps a shipped console whose video memory lives in a buffer owned
// by the test.
type c18Rig struct {
	name string
	cons console.Device
	w, h int

	// dump returns a copy of all the memory that the console could
	// possibly touch (video memory plus guard areas).
	dump func() []byte

	// render returns what dump() must return if the console shows exactly
	// the viewport described by m and nothing has been drawn anywhere else.
	render func(m *c18Model) []byte

	// colours that can be used for cells on this console.
	maxFg, maxBg int
}

func c18Poke(obj interface{}, field string, val interface{}) {
	f := reflect.ValueOf(obj).Elem().FieldByName(field)
	if !f.IsValid() {
		panic("no such field: " + field)
	}
	reflect.NewAt(f.Type(), unsafe.Pointer(f.UnsafeAddr())).Elem().Set(reflect.ValueOf(val))
}

const c18Guard = 64

func newC18VgaRig(cols, rows uint32) *c18Rig {
	backing := make([]uint16, c18Guard+int(cols*rows)+c18Guard)
	for i := range backing {
		backing[i] = uint16(0xa5c3 ^ (i * 0x9e37))
	}
	fb := backing[c18Guard : c18Guard+int(cols*rows) : c18Guard+int(cols*rows)]

	cons := console.NewVgaTextConsole(cols, rows, 0xb8000)
	c18Poke(cons, "fb", fb)

	toBytes := func(in []uint16) []byte {
		out := make([]byte, 2*len(in))
		for i, v := range in {
			out[2*i], out[2*i+1] = uint8(v), uint8(v>>8)
		}
		return out
	}

	base := append([]uint16(nil), backing...)

	return &c18Rig{
		name: fmt.Sprintf("vga_text_%dx%d", cols, rows),
		cons: cons,
		w:    int(cols), h: int(rows),
		dump: func() []byte { return toBytes(backing) },
		render: func(m *c18Model) []byte {
			exp := append([]uint16(nil), base...)
			for y := 0; y < m.h; y++ {
				for x := 0; x < m.w; x++ {
					c := m.rows[y][x]
					exp[c18Guard+y*m.w+x] = (((uint16(c.bg) << 4) | uint16(c.fg)) << 8) | uint16(c.ch)
				}
			}
			return toBytes(exp)
		},
		// The text console folds out-of-range colours to its defaults;
		// stay inside the range it displays verbatim.
		maxFg: 15, maxBg: 14,
	}
}

type c18FbSpec struct {
	bpp       uint8
	fontName  string
	cols      uint32 // cell grid
	rows      uint32
	extraX    uint32 // pixels right of the grid
	extraY    uint32 // pixel rows below the grid
	pitchPad  uint32 // extra bytes per framebuffer row
	logoH     uint32 // rows reserved at the top of the framebuffer
	colorInfo *multiboot.FramebufferRGBColorInfo
}

func newC18FbRig(spec c18FbSpec) *c18Rig {
	f := font.FindByName(spec.fontName)
	if f == nil {
		panic("unknown font " + spec.fontName)
	}

	var (
		bytesPerPixel = (uint32(spec.bpp) + 1) >> 3
		width         = spec.cols*f.GlyphWidth + spec.extraX
		height        = spec.logoH + spec.rows*f.GlyphHeight + spec.extraY
		pitch         = width*bytesPerPixel + spec.pitchPad
		fbLen         = int(height * pitch)
	)

	// The canary only depends on the position inside a framebuffer row so
	// that it is not disturbed by moving whole framebuffer rows around.
	backing := make([]byte, c18Guard+fbLen+c18Guard)
	for i := range backing {
		backing[i] = uint8(0x5a ^ (i * 131))
	}
	fb := backing[c18Guard : c18Guard+fbLen : c18Guard+fbLen]
	for i := range fb {
		fb[i] = uint8(0xc3 ^ ((uint32(i) % pitch) * 29))
	}

	palette := make(color.Palette, 256)
	for i := range palette {
		palette[i] = color.RGBA{R: uint8(i), G: uint8(255 - i), B: uint8(i*7 + 3)}
	}
	palette[0] = color.RGBA{}

	cons := console.NewVesaFbConsole(width, height, spec.bpp, pitch, spec.colorInfo, 0xa0000)
	c18Poke(cons, "fb", fb)
	c18Poke(cons, "palette", palette)

	if spec.logoH != 0 {
		if spec.bpp == 8 {
			// Loading the logo palette on an indexed framebuffer
			// programs the VGA DAC via port I/O which is not
			// possible in a hosted test; just reserve the rows.
			c18Poke(cons, "offsetY", spec.logoH)
		} else {
			l := &logo.Image{
				Width:            5,
				Height:           spec.logoH,
				Align:            logo.AlignCenter,
				TransparentIndex: 0,
				Palette:          []color.RGBA{{}, {R: 200, G: 10, B: 30}, {R: 1, G: 250, B: 99}},
			}
			for i := uint32(0); i < l.Width*l.Height; i++ {
				l.Data = append(l.Data, uint8(i%3))
			}
			cons.SetLogo(l)
		}
	}
	cons.SetFont(f)

	if w, h := cons.Dimensions(console.Characters); w != spec.cols || h != spec.rows {
		panic(fmt.Sprintf("unexpected grid %dx%d; want %dx%d", w, h, spec.cols, spec.rows))
	}

	pack := func(index uint8) []byte {
		if spec.bpp == 8 {
			return []byte{index}
		}
		c := cons.Palette()[index].(color.RGBA)
		ci := spec.colorInfo
		packed := (uint32(c.R>>(8-ci.RedMaskSize)) << ci.RedPosition) |
			(uint32(c.G>>(8-ci.GreenMaskSize)) << ci.GreenPosition) |
			(uint32(c.B>>(8-ci.BlueMaskSize)) << ci.BluePosition)
		if spec.bpp <= 16 {
			return []byte{uint8(packed), uint8(packed >> 8)}
		}
		return []byte{uint8(packed), uint8(packed >> 8), uint8(packed >> 16)}
	}

	// base is the console memory after setup (canary plus logo).
	base := append([]byte(nil), backing...)

	return &c18Rig{
		name: fmt.Sprintf("vesa_fb_%dbpp_%s_%dx%d_pad%d_logo%d_r%d", spec.bpp, spec.fontName, spec.cols, spec.rows, spec.pitchPad, spec.logoH, ciRedPos(spec.colorInfo)),
		cons: cons,
		w:    int(spec.cols), h: int(spec.rows),
		dump: func() []byte { return append([]byte(nil), backing...) },
		render: func(m *c18Model) []byte {
			exp := append([]byte(nil), base...)
			for cy := 0; cy < m.h; cy++ {
				for cx := 0; cx < m.w; cx++ {
					c := m.rows[cy][cx]
					fg, bg := pack(c.fg), pack(c.bg)
					glyph := f.Data[uint32(c.ch)*f.BytesPerRow*f.GlyphHeight:]
					for gy := uint32(0); gy < f.GlyphHeight; gy++ {
						rowOff := c18Guard + (spec.logoH+uint32(cy)*f.GlyphHeight+gy)*pitch + uint32(cx)*f.GlyphWidth*bytesPerPixel
						for gx := uint32(0); gx < f.GlyphWidth; gx++ {
							pix := bg
							if glyph[gy*f.BytesPerRow+gx/8]&(0x80>>(gx%8)) != 0 {
								pix = fg
							}
							copy(exp[rowOff+gx*bytesPerPixel:], pix)
						}
					}
				}
			}
			return exp
		},
		maxFg: 250, maxBg: 250,
	}
}

func ciRedPos(ci *multiboot.FramebufferRGBColorInfo) int {
	if ci == nil {
		return -1
	}
	return int(ci.RedPosition)
}

// ---------------------------------------------------------------------------
// Scenario driver
// ---------------------------------------------------------------------------

type c18Term struct {
	vt *VT
	m  *c18Model
}

func c18RandomBytes(rng *rand.Rand, n int) []byte {
	out := make([]byte, n)
	for i := range out {
		switch p := rng.Intn(100); {
		case p < 40:
			out[i] = byte('a' + rng.Intn(26))
		case p < 55:
			out[i] = '\n'
		case p < 60:
			out[i] = '\r'
		case p < 66:
			out[i] = '\b'
		case p < 71:
			out[i] = '\t'
		case p < 80:
			out[i] = ' '
		default:
			out[i] = byte(rng.Intn(256))
		}
	}
	return out
}

// c18Run attaches nTerms terminals to the rig's console and performs steps
// random operations. At most one terminal is active at any time.
func c18Run(t *testing.T, rig *c18Rig, nTerms int, tabWidth uint8, scrollback uint32, steps int, seed int64) {
	rng := rand.New(rand.NewSource(seed))

	defFg, defBg := rig.cons.DefaultColors()
	terms := make([]*c18Term, nTerms)
	for i := range terms {
		vt := NewVT(tabWidth, scrollback)
		vt.AttachTo(rig.cons)
		terms[i] = &c18Term{vt: vt, m: newC18Model(rig.w, rig.h, int(tabWidth), defFg, defBg)}
	}

	// want is what the console memory must look like: untouched until a
	// terminal gets activated; afterwards the viewport of the active
	// terminal or, while no terminal is active, whatever the console
	// displayed when the last active terminal was deactivated.
	want := rig.dump()
	active := -1

	check := func(step int, what string) {
		t.Helper()
		got := rig.dump()
		if bytes.Equal(got, want) {
			return
		}
		for i := range got {
			if got[i] != want[i] {
				t.Fatalf("[%s terms=%d sb=%d seed=%d] step %d (%s): console memory differs from expectation at byte %d (of %d, guard %d): got 0x%02x; want 0x%02x",
					rig.name, nTerms, scrollback, seed, step, what, i, len(got), c18Guard, got[i], want[i])
			}
		}
	}

	apply := func(tt *c18Term, isActive bool, data []byte, bytewise bool) {
		if bytewise {
			for _, b := range data {
				if err := tt.vt.WriteByte(b); err != nil {
					t.Fatal(err)
				}
			}
		} else if n, err := tt.vt.Write(data); err != nil || n != len(data) {
			t.Fatalf("Write returned (%d, %v)", n, err)
		}
		for _, b := range data {
			tt.m.writeByte(b)
		}
		if isActive {
			want = rig.render(tt.m)
		}
	}

	check(-1, "attach")

	for step := 0; step < steps; step++ {
		idx := rng.Intn(nTerms)
		tt := terms[idx]
		what := ""

		switch p := rng.Intn(100); {
		case p < 8: // activate (deactivating whichever terminal is active)
			what = fmt.Sprintf("activate %d", idx)
			if active >= 0 && active != idx {
				terms[active].vt.SetState(StateInactive)
			}
			tt.vt.SetState(StateActive)
			active = idx
			want = rig.render(tt.m)
		case p < 14: // deactivate
			what = fmt.Sprintf("deactivate %d", idx)
			tt.vt.SetState(StateInactive)
			if active == idx {
				active = -1
			}
		case p < 24: // change colours
			what = "colours"
			tt.vt.curFg, tt.vt.curBg = uint8(rng.Intn(rig.maxFg+1)), uint8(rng.Intn(rig.maxBg+1))
			tt.m.curFg, tt.m.curBg = tt.vt.curFg, tt.vt.curBg
		case p < 29: // move cursor
			what = "cursor"
			x, y := uint32(rng.Intn(rig.w+3)), uint32(rng.Intn(rig.h+3))
			tt.vt.SetCursorPosition(x, y)
			tt.m.setCursor(x, y)
		case p < 33: // burst of lines that exhausts the buffer
			what = "burst"
			var buf bytes.Buffer
			for i, n := 0, rng.Intn(2*(rig.h+int(scrollback))+2); i < n; i++ {
				fmt.Fprintf(&buf, "l%d\n", step*1000+i)
			}
			apply(tt, active == idx, buf.Bytes(), false)
		case p < 60: // single byte
			what = "WriteByte"
			apply(tt, active == idx, c18RandomBytes(rng, 1), true)
		default:
			what = "Write"
			apply(tt, active == idx, c18RandomBytes(rng, 1+rng.Intn(3*rig.w)), rng.Intn(4) == 0)
		}

		check(step, what)

		if x, y := tt.vt.CursorPosition(); int(x) != tt.m.x+1 || int(y) != tt.m.y+1 {
			t.Fatalf("[%s] step %d (%s): cursor at (%d, %d); model says (%d, %d)", rig.name, step, what, x, y, tt.m.x+1, tt.m.y+1)
		}
	}

	// Finally (re)activate every terminal in turn: the console must switch
	// to its viewport regardless of what happened while it was inactive.
	for idx, tt := range terms {
		if active >= 0 {
			terms[active].vt.SetState(StateInactive)
		}
		tt.vt.SetState(StateActive)
		active = idx
		want = rig.render(tt.m)
		check(steps+idx, "final activate")
	}
}

func TestC18ActiveTerminalMatchesConsole(t *testing.T) {
	t.Run("vga text", func(t *testing.T) {
		sizes := [][2]uint32{{80, 25}, {40, 12}, {7, 5}, {3, 2}, {132, 43}}
		seed := int64(1)
		for _, size := range sizes {
			for _, sb := range []uint32{0, 1, 3, 80} {
				for _, nTerms := range []int{1, 2} {
					steps := 400
					if size[0] > 100 {
						steps = 150
					}
					c18Run(t, newC18VgaRig(size[0], size[1]), nTerms, uint8(seed%6), sb, steps, seed)
					seed++
				}
			}
		}
	})

	t.Run("vesa fb", func(t *testing.T) {
		rgb555 := &multiboot.FramebufferRGBColorInfo{RedPosition: 10, RedMaskSize: 5, GreenPosition: 5, GreenMaskSize: 5, BluePosition: 0, BlueMaskSize: 5}
		rgb565 := &multiboot.FramebufferRGBColorInfo{RedPosition: 11, RedMaskSize: 5, GreenPosition: 5, GreenMaskSize: 6, BluePosition: 0, BlueMaskSize: 5}
		rgb888 := &multiboot.FramebufferRGBColorInfo{RedPosition: 16, RedMaskSize: 8, GreenPosition: 8, GreenMaskSize: 8, BluePosition: 0, BlueMaskSize: 8}
		bgr888 := &multiboot.FramebufferRGBColorInfo{RedPosition: 0, RedMaskSize: 8, GreenPosition: 8, GreenMaskSize: 8, BluePosition: 16, BlueMaskSize: 8}

		depths := []struct {
			bpp uint8
			ci  *multiboot.FramebufferRGBColorInfo
		}{
			{8, nil}, {15, rgb555}, {16, rgb565}, {24, rgb888}, {24, bgr888}, {32, rgb888}, {32, bgr888},
		}

		seed := int64(1000)
		for _, d := range depths {
			for fi, fontName := range []string{"terminus8x16", "terminus10x18", "terminus14x28"} {
				for variant := 0; variant < 4; variant++ {
					spec := c18FbSpec{
						bpp:       d.bpp,
						colorInfo: d.ci,
						fontName:  fontName,
						cols:      uint32(4 + (variant+fi)%4),
						rows:      uint32(2 + (variant+int(d.bpp))%3),
					}
					if variant&1 != 0 {
						spec.extraX, spec.extraY, spec.pitchPad = uint32(3+fi), uint32(5+2*fi), uint32(7+variant)
					}
					if variant&2 != 0 {
						spec.logoH = uint32(9 + 4*fi)
					}

					sb := []uint32{0, 1, 2, 5}[(variant+fi+int(d.bpp))%4]
					c18Run(t, newC18FbRig(spec), 1+variant%2, uint8(1+seed%5), sb, 160, seed)
					seed++
				}
			}
		}
	})
}
