package tty

// Demonstration for property C17 (terminal emulator state always matches the
// reference terminal model). Copy this file to kernel/device/tty/ and run:
//
//	cd kernel && go test -vet=off -count=1 -run TestKeep3C17 ./device/tty/
//
// The test only relies on what the property states: for every byte stream the
// contents (whole buffer, i.e. scrollback included), the viewport position and
// the cursor equal those of a simple reference terminal.

import (
	"bytes"
	"image/color"
	"math/rand"
	"testing"

	"github.com/ProjectSerenity/firefly/kernel/device/video/console"
	"github.com/ProjectSerenity/firefly/kernel/kfmt"
)

// k3Console is a bounds-checking console of an arbitrary size.
type k3Console struct {
	t      *testing.T
	w, h   uint32
	fg, bg uint8
}

func (c *k3Console) Dimensions(console.Dimension) (uint32, uint32) { return c.w, c.h }
func (c *k3Console) DefaultColors() (uint8, uint8)                 { return c.fg, c.bg }
func (c *k3Console) Fill(x, y, w, h uint32, fg, bg uint8) {
	if x < 1 || y < 1 || x > c.w || y > c.h {
		c.t.Errorf("console Fill origin (%d,%d) outside %dx%d console", x, y, c.w, c.h)
	}
}
func (c *k3Console) Scroll(console.ScrollDir, uint32) {}
func (c *k3Console) Write(ch byte, fg, bg uint8, x, y uint32) {
	if x < 1 || y < 1 || x > c.w || y > c.h {
		c.t.Errorf("console Write at (%d,%d) outside %dx%d console", x, y, c.w, c.h)
	}
}
func (c *k3Console) Palette() color.Palette            { return nil }
func (c *k3Console) SetPaletteColor(uint8, color.RGBA) {}

type k3Cell struct{ ch, fg, bg uint8 }

// k3Ref is the reference terminal of the property.
type k3Ref struct {
	w, h, sb int
	tab      int
	fg, bg   uint8
	rows     [][]k3Cell
	vy       int
	cx, cy   int // 1-based, relative to the viewport
}

func newK3Ref(w, h, sb, tab int, fg, bg uint8) *k3Ref {
	r := &k3Ref{w: w, h: h, sb: sb, tab: tab, fg: fg, bg: bg, cx: 1, cy: 1}
	r.rows = make([][]k3Cell, h+sb)
	for i := range r.rows {
		r.rows[i] = r.blankRow()
	}
	return r
}

func (r *k3Ref) blankRow() []k3Cell {
	row := make([]k3Cell, r.w)
	for i := range row {
		row[i] = k3Cell{' ', r.fg, r.bg}
	}
	return row
}

func (r *k3Ref) lf() {
	r.cx = 1
	switch {
	case r.cy < r.h:
		r.cy++
	case r.vy+r.h < r.h+r.sb:
		r.vy++
	default:
		for y := r.vy; y < r.vy+r.h-1; y++ {
			r.rows[y] = r.rows[y+1]
		}
		r.rows[r.vy+r.h-1] = r.blankRow()
	}
}

func (r *k3Ref) put(b byte) {
	r.rows[r.vy+r.cy-1][r.cx-1] = k3Cell{b, r.fg, r.bg}
	r.cx++
	if r.cx > r.w {
		r.lf()
	}
}

func (r *k3Ref) writeByte(b byte) {
	switch b {
	case '\r':
		r.cx = 1
	case '\n':
		r.lf()
	case '\b':
		if r.cx > 1 {
			r.cx--
			r.rows[r.vy+r.cy-1][r.cx-1] = k3Cell{' ', r.fg, r.bg}
		}
	case '\t':
		for i := 0; i < r.tab; i++ {
			r.put(' ')
		}
	default:
		r.put(b)
	}
}

func (r *k3Ref) write(p []byte) {
	for _, b := range p {
		r.writeByte(b)
	}
}

func (r *k3Ref) setCursor(x, y uint32) {
	cx, cy := int(x), int(y)
	if x > uint32(r.w) {
		cx = r.w
	}
	if y > uint32(r.h) {
		cy = r.h
	}
	if cx < 1 {
		cx = 1
	}
	if cy < 1 {
		cy = 1
	}
	r.cx, r.cy = cx, cy
}

// k3Compare checks the terminal against the reference using only what the
// property talks about: buffer contents, viewport position and cursor.
func k3Compare(t *testing.T, what string, term *VT, ref *k3Ref) bool {
	t.Helper()

	if exp := (ref.h + ref.sb) * ref.w * 3; len(term.data) != exp {
		t.Errorf("%s: buffer holds %d bytes; expected %d", what, len(term.data), exp)
		return false
	}

	if x, y := term.CursorPosition(); int(x) != ref.cx || int(y) != ref.cy {
		t.Errorf("%s: cursor at (%d,%d); reference at (%d,%d)", what, x, y, ref.cx, ref.cy)
		return false
	}

	if x, y := term.CursorPosition(); x < 1 || y < 1 || x > uint32(ref.w) || y > uint32(ref.h) {
		t.Errorf("%s: cursor (%d,%d) left the %dx%d viewport", what, x, y, ref.w, ref.h)
		return false
	}

	if int(term.viewportY) != ref.vy {
		t.Errorf("%s: viewport at line %d; reference at line %d", what, term.viewportY, ref.vy)
		return false
	}

	for y, row := range ref.rows {
		for x, cell := range row {
			off := (y*ref.w + x) * 3
			if got := (k3Cell{term.data[off], term.data[off+1], term.data[off+2]}); got != cell {
				t.Errorf("%s: cell (col %d, buffer line %d) is %v; reference has %v", what, x+1, y+1, got, cell)
				return false
			}
		}
	}

	return true
}

var k3Alphabet = []byte("abcXYZ019 .\r\n\n\b\b\t\t\x00\x1b\x7f\xff")

func k3RandomChunk(rng *rand.Rand, max int) []byte {
	p := make([]byte, rng.Intn(max+1))
	for i := range p {
		if rng.Intn(4) == 0 {
			p[i] = byte(rng.Intn(256))
		} else {
			p[i] = k3Alphabet[rng.Intn(len(k3Alphabet))]
		}
	}
	return p
}

func TestKeep3C17ReferenceModel(t *testing.T) {
	geometries := [][2]uint32{{1, 1}, {1, 4}, {5, 1}, {2, 2}, {3, 2}, {7, 3}, {16, 5}, {80, 25}}
	scrollbacks := []uint32{0, 1, 3, 30}
	tabWidths := []uint8{0, 1, 4, 8, 11}

	for _, geo := range geometries {
		for _, sb := range scrollbacks {
			for _, tab := range tabWidths {
				seed := int64(geo[0])*1000003 + int64(geo[1])*7919 + int64(sb)*131 + int64(tab)
				rng := rand.New(rand.NewSource(seed))

				cons := &k3Console{t: t, w: geo[0], h: geo[1], fg: 7, bg: 0}
				term := NewVT(tab, sb)
				if rng.Intn(2) == 0 {
					term.SetState(StateActive)
				}
				term.AttachTo(cons)
				ref := newK3Ref(int(geo[0]), int(geo[1]), int(sb), int(tab), 7, 0)

				if !k3Compare(t, "after attach", term, ref) {
					return
				}

				for step := 0; step < 120; step++ {
					switch op := rng.Intn(10); {
					case op < 5:
						p := k3RandomChunk(rng, 3*int(geo[0])+4)
						n, err := term.Write(p)
						if err != nil || n != len(p) {
							t.Fatalf("Write returned (%d, %v); expected (%d, nil)", n, err, len(p))
						}
						ref.write(p)
					case op < 7:
						b := k3Alphabet[rng.Intn(len(k3Alphabet))]
						if err := term.WriteByte(b); err != nil {
							t.Fatalf("WriteByte returned %v", err)
						}
						ref.writeByte(b)
					case op < 8:
						// a run of line feeds to push through the scrollback
						p := bytes.Repeat([]byte{'q', '\n'}, rng.Intn(int(geo[1])+int(sb)+2))
						term.Write(p)
						ref.write(p)
					case op < 9:
						x, y := uint32(rng.Intn(int(geo[0])+3)), uint32(rng.Intn(int(geo[1])+3))
						term.SetCursorPosition(x, y)
						ref.setCursor(x, y)
					default:
						if term.State() == StateActive {
							term.SetState(StateInactive)
						} else {
							term.SetState(StateActive)
						}
					}

					what := "geometry " + k3Itoa(int(geo[0])) + "x" + k3Itoa(int(geo[1])) +
						" scrollback " + k3Itoa(int(sb)) + " tab " + k3Itoa(int(tab)) + " step " + k3Itoa(step)
					if !k3Compare(t, what, term, ref) {
						return
					}
				}
			}
		}
	}
}

func k3Itoa(v int) string {
	if v == 0 {
		return "0"
	}
	var buf [20]byte
	i := len(buf)
	for v > 0 {
		i--
		buf[i] = byte('0' + v%10)
		v /= 10
	}
	return string(buf[i:])
}

// The terminal that the hal gets from the driver probe must follow the model
// for whatever tab width and scrollback it has been configured with, and
// DriverInit (with or without a log writer) must not disturb its state.
func TestKeep3C17ProbedTerminal(t *testing.T) {
	drv := probeForVT()
	term, ok := drv.(*VT)
	if !ok {
		t.Fatalf("probeForVT returned %T; expected *VT", drv)
	}

	var log bytes.Buffer
	if err := term.DriverInit(nil); err != nil {
		t.Fatal(err)
	}
	if err := term.DriverInit(&log); err != nil {
		t.Fatal(err)
	}

	cons := &k3Console{t: t, w: 20, h: 4, fg: 7, bg: 0}
	term.AttachTo(cons)
	term.SetState(StateActive)
	ref := newK3Ref(20, 4, int(term.scrollback), int(term.tabWidth), 7, 0)

	if err := term.DriverInit(&log); err != nil {
		t.Fatal(err)
	}
	if !k3Compare(t, "after DriverInit", term, ref) {
		return
	}

	rng := rand.New(rand.NewSource(17))
	lines := int(term.scrollback) + 12
	for i := 0; i < lines; i++ {
		p := append(k3RandomChunk(rng, 30), '\t', 'x', '\n')
		term.Write(p)
		ref.write(p)
		if !k3Compare(t, "probed terminal, line "+k3Itoa(i), term, ref) {
			return
		}
	}
}

// Output buffered by kfmt before a terminal is available reaches the terminal
// through kfmt.SetOutputSink; however kfmt chooses to deliver it, the terminal
// must end up in the state the reference reaches for the same byte stream.
func TestKeep3C17EarlyOutputFlush(t *testing.T) {
	defer kfmt.SetOutputSink(nil)

	// Discard anything that is left in the early print buffer.
	var discard bytes.Buffer
	kfmt.SetOutputSink(&discard)
	kfmt.SetOutputSink(nil)

	for _, active := range []bool{false, true} {
		var stream bytes.Buffer
		for i := 0; i < 40; i++ {
			kfmt.Printf("[boot] step %3d\tok:%t\r\n", i, i%3 == 0)
			kfmt.Fprintf(&stream, "[boot] step %3d\tok:%t\r\n", i, i%3 == 0)
		}
		kfmt.Printf("tail\bL without newline")
		kfmt.Fprintf(&stream, "tail\bL without newline")

		if stream.Len() <= 512 || stream.Len() >= 2048 {
			t.Fatalf("test stream is %d bytes; expected it to be between 512 and 2048", stream.Len())
		}

		cons := &k3Console{t: t, w: 11, h: 6, fg: 7, bg: 0}
		term := NewVT(4, 9)
		term.AttachTo(cons)
		if active {
			term.SetState(StateActive)
		}
		ref := newK3Ref(11, 6, 9, 4, 7, 0)

		kfmt.SetOutputSink(term)
		ref.write(stream.Bytes())
		if !k3Compare(t, "after flushing the early output", term, ref) {
			return
		}

		// Once installed the terminal receives Printf output directly.
		kfmt.Printf("\n%d%%\tdone\n", 100)
		ref.write([]byte("\n100%\tdone\n"))
		if !k3Compare(t, "after printing through the sink", term, ref) {
			return
		}

		kfmt.SetOutputSink(nil)
	}
}
