package pmm

// Demonstration for property C09 (concurrent frame allocation and freeing never
// duplicates or loses a frame). Copy to kernel/mm/pmm/c09_keep3_demo_test.go and
// run with:
//
//	cd kernel && go test -vet=off -count=1 -run TestC09Keep3 ./mm/pmm/
//
// The test only relies on what the property states: it never assumes which of
// the free frames AllocFrame hands out, in which order pools or bitmap words
// are searched, or how the lock word is manipulated.

import (
	"fmt"
	"math/rand"
	"runtime"
	gosync "sync"
	"sync/atomic"
	"testing"
	"time"
	_ "unsafe" // for go:linkname

	"github.com/ProjectSerenity/firefly/kernel/mm"
)

// The spinlock busy-waits inside an assembly loop which the Go scheduler cannot
// preempt; kernel/sync's own test installs runtime.Gosched as the yield function
// for exactly that reason. We do the same from this package.
//
//go:linkname c09Keep3SyncYieldFn github.com/ProjectSerenity/firefly/kernel/sync.yieldFn
var c09Keep3SyncYieldFn func()

type c09Keep3PoolSpec struct {
	start mm.Frame
	count int
}

type c09Keep3Config struct {
	name        string
	pools       []c09Keep3PoolSpec
	preReserved []mm.Frame // frames flagged reserved before the callers start
	workers     int
	opsPerW     int
	maxHeld     int
}

func c09Keep3Build(cfg c09Keep3Config) (*BitmapAllocator, []mm.Frame) {
	alloc := &BitmapAllocator{}
	var all []mm.Frame
	for _, ps := range cfg.pools {
		alloc.pools = append(alloc.pools, framePool{
			startFrame: ps.start,
			endFrame:   ps.start + mm.Frame(ps.count) - 1,
			freeCount:  uint32(ps.count),
			freeBitmap: make([]uint64, (ps.count+63)/64),
		})
		alloc.totalPages += uint32(ps.count)
		for i := 0; i < ps.count; i++ {
			all = append(all, ps.start+mm.Frame(i))
		}
	}
	for _, f := range cfg.preReserved {
		alloc.markFrame(alloc.poolForFrame(f), f, markReserved)
	}
	return alloc, all
}

func TestC09Keep3ConcurrentAllocFree(t *testing.T) {
	defer func(orig func()) { c09Keep3SyncYieldFn = orig }(c09Keep3SyncYieldFn)
	c09Keep3SyncYieldFn = runtime.Gosched

	configs := []c09Keep3Config{
		{name: "one-word-8-frames-16-callers", pools: []c09Keep3PoolSpec{{0, 8}}, workers: 16, opsPerW: 20000, maxHeld: 3},
		{name: "one-word-3-frames-16-callers", pools: []c09Keep3PoolSpec{{5, 3}}, workers: 16, opsPerW: 20000, maxHeld: 2},
		{name: "two-pools-8-128", pools: []c09Keep3PoolSpec{{0, 8}, {64, 128}}, workers: 16, opsPerW: 20000, maxHeld: 12},
		{name: "ragged-pools-70-3-130", pools: []c09Keep3PoolSpec{{17, 70}, {1000, 3}, {4099, 130}},
			preReserved: []mm.Frame{17, 18, 80, 86, 1001, 4099, 4228}, workers: 16, opsPerW: 20000, maxHeld: 15},
		{name: "ragged-single-65", pools: []c09Keep3PoolSpec{{3, 65}}, preReserved: []mm.Frame{67}, workers: 7, opsPerW: 30000, maxHeld: 12},
		{name: "two-callers-2-frames", pools: []c09Keep3PoolSpec{{9, 1}, {20, 1}}, workers: 2, opsPerW: 50000, maxHeld: 2},
	}

	for ci, cfg := range configs {
		cfg := cfg
		seed := int64(0xC09 + ci)
		t.Run(cfg.name, func(t *testing.T) {
			done := make(chan error, 1)
			go func() { done <- c09Keep3Run(t, cfg, seed) }()
			select {
			case err := <-done:
				if err != nil {
					t.Fatal(err)
				}
			case <-time.After(120 * time.Second):
				t.Fatal("callers did not finish: an AllocFrame/FreeFrame call blocked")
			}
		})
	}
}

func c09Keep3Run(t *testing.T, cfg c09Keep3Config, seed int64) error {
	alloc, all := c09Keep3Build(cfg)
	initialTotal, initialReserved := alloc.totalPages, alloc.reservedPages

	index := make(map[mm.Frame]int, len(all))
	for i, f := range all {
		index[f] = i
	}
	// owner[i] is 0 when nobody holds frame all[i], -1 when it was reserved
	// before the callers started and (worker id + 1) while a caller holds it.
	owner := make([]int32, len(all))
	for _, f := range cfg.preReserved {
		owner[index[f]] = -1
	}

	var (
		wg       gosync.WaitGroup
		start    = make(chan struct{})
		heldBy   = make([][]mm.Frame, cfg.workers)
		oomCount uint64
		okCount  uint64
		failed   int32
	)
	fail := func(format string, args ...interface{}) {
		atomic.StoreInt32(&failed, 1)
		t.Errorf(format, args...)
	}

	wg.Add(cfg.workers)
	for w := 0; w < cfg.workers; w++ {
		go func(w int) {
			defer wg.Done()
			rnd := rand.New(rand.NewSource(seed*1000 + int64(w)))
			held := make([]mm.Frame, 0, cfg.maxHeld+1)
			<-start
			for op := 0; op < cfg.opsPerW && atomic.LoadInt32(&failed) == 0; op++ {
				doAlloc := len(held) == 0 || (len(held) < cfg.maxHeld && rnd.Intn(100) < 55)
				if doAlloc {
					frame, err := alloc.AllocFrame()
					if err != nil {
						if err != errBitmapAllocOutOfMemory {
							fail("caller %d: unexpected AllocFrame error: %v", w, err)
							return
						}
						atomic.AddUint64(&oomCount, 1)
						if len(held) > 0 {
							// Make room so that others can progress.
							i := rnd.Intn(len(held))
							f := held[i]
							held[i] = held[len(held)-1]
							held = held[:len(held)-1]
							atomic.StoreInt32(&owner[index[f]], 0)
							if ferr := alloc.FreeFrame(f); ferr != nil {
								fail("caller %d: FreeFrame(%d) of a held frame failed: %v", w, f, ferr)
								return
							}
						}
						continue
					}
					i, managed := index[frame]
					if !managed {
						fail("caller %d: AllocFrame returned frame %d which is outside every pool", w, frame)
						return
					}
					if !atomic.CompareAndSwapInt32(&owner[i], 0, int32(w+1)) {
						fail("caller %d: AllocFrame returned frame %d which is already held (owner tag %d)", w, frame, atomic.LoadInt32(&owner[i]))
						return
					}
					atomic.AddUint64(&okCount, 1)
					held = append(held, frame)
					continue
				}

				i := rnd.Intn(len(held))
				f := held[i]
				held[i] = held[len(held)-1]
				held = held[:len(held)-1]
				// Give up ownership before the allocator learns about it so
				// that a racing AllocFrame of the same frame is legitimate.
				atomic.StoreInt32(&owner[index[f]], 0)
				if err := alloc.FreeFrame(f); err != nil {
					fail("caller %d: FreeFrame(%d) of a held frame failed: %v", w, f, err)
					return
				}
			}
			heldBy[w] = held
		}(w)
	}
	close(start)
	wg.Wait()
	if atomic.LoadInt32(&failed) != 0 {
		return fmt.Errorf("a caller observed a violation")
	}

	// Totals once everybody stopped.
	stillHeld := 0
	for _, h := range heldBy {
		stillHeld += len(h)
	}
	if alloc.totalPages != initialTotal {
		return fmt.Errorf("totalPages changed from %d to %d", initialTotal, alloc.totalPages)
	}
	if exp := initialReserved + uint32(stillHeld); alloc.reservedPages != exp {
		return fmt.Errorf("reservedPages = %d; expected initial %d + %d still held = %d", alloc.reservedPages, initialReserved, stillHeld, exp)
	}
	var freeSum uint32
	for _, p := range alloc.pools {
		freeSum += p.freeCount
	}
	if exp := alloc.totalPages - alloc.reservedPages; freeSum != exp {
		return fmt.Errorf("sum of pool free counts = %d; expected total - reserved = %d", freeSum, exp)
	}

	// No frame was lost: exactly the frames nobody holds can still be allocated.
	expFree := len(all) - len(cfg.preReserved) - stillHeld
	var drained []mm.Frame
	for {
		f, err := alloc.AllocFrame()
		if err != nil {
			if err != errBitmapAllocOutOfMemory {
				return fmt.Errorf("unexpected error while draining: %v", err)
			}
			break
		}
		i, managed := index[f]
		if !managed {
			return fmt.Errorf("drain: frame %d is outside every pool", f)
		}
		if owner[i] != 0 {
			return fmt.Errorf("drain: frame %d handed out although it is held (owner tag %d)", f, owner[i])
		}
		owner[i] = int32(cfg.workers + 1)
		drained = append(drained, f)
		if len(drained) > len(all) {
			return fmt.Errorf("drain: allocator handed out more frames than it manages")
		}
	}
	if len(drained) != expFree {
		return fmt.Errorf("drain: got %d frames; expected %d (managed %d, pre-reserved %d, still held %d)",
			len(drained), expFree, len(all), len(cfg.preReserved), stillHeld)
	}
	if alloc.reservedPages != alloc.totalPages {
		return fmt.Errorf("after drain reservedPages = %d; expected %d", alloc.reservedPages, alloc.totalPages)
	}

	// Everything handed back (by callers and by the drain) returns the
	// allocator to its initial totals.
	for _, h := range heldBy {
		drained = append(drained, h...)
	}
	rand.New(rand.NewSource(seed)).Shuffle(len(drained), func(i, j int) { drained[i], drained[j] = drained[j], drained[i] })
	for _, f := range drained {
		if err := alloc.FreeFrame(f); err != nil {
			return fmt.Errorf("FreeFrame(%d) failed: %v", f, err)
		}
	}
	if alloc.reservedPages != initialReserved || alloc.totalPages != initialTotal {
		return fmt.Errorf("after freeing everything totals are %d reserved / %d total; expected %d / %d",
			alloc.reservedPages, alloc.totalPages, initialReserved, initialTotal)
	}

	t.Logf("callers=%d successful allocs=%d out-of-memory results=%d still held at stop=%d", cfg.workers, okCount, oomCount, stillHeld)
	return nil
}

// Every freed frame becomes allocatable again: with the allocator completely
// full, freeing any single frame must make exactly that frame available.
func TestC09Keep3FreedFrameIsAllocatableAgain(t *testing.T) {
	defer func(orig func()) { c09Keep3SyncYieldFn = orig }(c09Keep3SyncYieldFn)
	c09Keep3SyncYieldFn = runtime.Gosched

	cfg := c09Keep3Config{pools: []c09Keep3PoolSpec{{17, 70}, {1000, 3}, {4099, 130}}}
	alloc, all := c09Keep3Build(cfg)
	seen := make(map[mm.Frame]bool)
	for range all {
		f, err := alloc.AllocFrame()
		if err != nil {
			t.Fatalf("unexpected error filling allocator: %v", err)
		}
		if seen[f] {
			t.Fatalf("frame %d handed out twice", f)
		}
		seen[f] = true
	}
	for _, f := range all {
		if !seen[f] {
			t.Fatalf("managed frame %d was never handed out", f)
		}
	}
	if _, err := alloc.AllocFrame(); err != errBitmapAllocOutOfMemory {
		t.Fatalf("expected out of memory; got %v", err)
	}

	order := rand.New(rand.NewSource(9)).Perm(len(all))
	for _, i := range order {
		if err := alloc.FreeFrame(all[i]); err != nil {
			t.Fatalf("FreeFrame(%d): %v", all[i], err)
		}
		got, err := alloc.AllocFrame()
		if err != nil {
			t.Fatalf("frame %d was freed but AllocFrame failed: %v", all[i], err)
		}
		if got != all[i] {
			t.Fatalf("only frame %d is free but AllocFrame returned %d", all[i], got)
		}
		if _, err := alloc.AllocFrame(); err != errBitmapAllocOutOfMemory {
			t.Fatalf("expected out of memory; got %v", err)
		}
	}

	// Free several at once, in an order unrelated to their position, and make
	// sure exactly that set comes back (in whatever order).
	for round := 0; round < 50; round++ {
		rnd := rand.New(rand.NewSource(int64(round)))
		n := 1 + rnd.Intn(20)
		freed := make(map[mm.Frame]bool)
		for _, i := range rnd.Perm(len(all))[:n] {
			freed[all[i]] = true
			if err := alloc.FreeFrame(all[i]); err != nil {
				t.Fatalf("FreeFrame(%d): %v", all[i], err)
			}
		}
		for k := 0; k < n; k++ {
			got, err := alloc.AllocFrame()
			if err != nil {
				t.Fatalf("round %d: %d frames still free but AllocFrame failed: %v", round, n-k, err)
			}
			if !freed[got] {
				t.Fatalf("round %d: AllocFrame returned %d which is not one of the free frames", round, got)
			}
			delete(freed, got)
		}
		if _, err := alloc.AllocFrame(); err != errBitmapAllocOutOfMemory {
			t.Fatalf("expected out of memory; got %v", err)
		}
	}
}

// The allocator's lock must provide mutual exclusion and must never block
// forever, whichever way it is acquired.
func TestC09Keep3AllocatorLock(t *testing.T) {
	defer func(orig func()) { c09Keep3SyncYieldFn = orig }(c09Keep3SyncYieldFn)
	c09Keep3SyncYieldFn = runtime.Gosched

	var (
		alloc   BitmapAllocator
		counter int // deliberately not atomic
		wg      gosync.WaitGroup
		workers = 16
		rounds  = 20000
	)

	if !alloc.mutex.TryToAcquire() {
		t.Fatal("TryToAcquire on a free lock failed")
	}
	if alloc.mutex.TryToAcquire() {
		t.Fatal("TryToAcquire on a held lock succeeded")
	}
	alloc.mutex.Release()
	alloc.mutex.Release() // releasing a free lock has no effect
	alloc.mutex.Acquire()
	if alloc.mutex.TryToAcquire() {
		t.Fatal("TryToAcquire on a held lock succeeded")
	}
	alloc.mutex.Release()

	done := make(chan struct{})
	wg.Add(workers)
	for w := 0; w < workers; w++ {
		go func(w int) {
			defer wg.Done()
			for i := 0; i < rounds; i++ {
				if w%4 == 0 {
					for !alloc.mutex.TryToAcquire() {
						runtime.Gosched()
					}
				} else {
					alloc.mutex.Acquire()
				}
				counter++
				alloc.mutex.Release()
			}
		}(w)
	}
	go func() { wg.Wait(); close(done) }()
	select {
	case <-done:
	case <-time.After(120 * time.Second):
		t.Fatal("lock users did not finish")
	}
	if exp := workers * rounds; counter != exp {
		t.Fatalf("lost updates under the allocator lock: counter = %d; expected %d", counter, exp)
	}
}
