package pmm

// Demonstration for property C02 (early-boot allocator: ascending unique
// frames, never kernel or reserved RAM; replay from a reset state returns the
// same frames).
//
// Copy to kernel/mm/pmm/c02_keep3_demo_test.go and run with
//   cd kernel && go test -vet=off -count=1 -run TestC02Keep3 ./mm/pmm/
//
// The checks below only look at what the property talks about: the frames
// that AllocFrame returns, the out-of-memory report, what a replay from the
// reset state (allocCount = 0, lastAllocFrame = 0) returns and which frames
// the bitmap allocator ends up treating as taken after the hand-over. They do
// not look at log output, at the cursor after a failed allocation or at the
// state of the boot allocator while the hand-over is running.

import (
	"encoding/binary"
	"testing"
	"unsafe"

	"github.com/ProjectSerenity/firefly/kernel"
	"github.com/ProjectSerenity/firefly/kernel/mm"
	"github.com/ProjectSerenity/firefly/kernel/mm/vmm"
	"github.com/ProjectSerenity/firefly/kernel/multiboot"
)

type c02Region struct {
	addr, length uint64
	typ          uint32
}

func (r c02Region) end() uint64 { return r.addr + r.length }

// wholeFrames returns the first and one-past-last whole frame of r.
func (r c02Region) wholeFrames() (uint64, uint64) {
	ps := uint64(mm.PageSize)
	return (r.addr + ps - 1) / ps, r.end() / ps
}

type c02Kernel struct {
	name       string
	start, end uint64
}

// c02Blobs keeps the synthetic multiboot blobs reachable; the multiboot
// package only remembers their address as an integer.
var c02Blobs [][]byte

// c02InstallMap encodes regions as a multiboot2 info blob that only contains
// a memory map tag and points the multiboot package to it.
func c02InstallMap(regions []c02Region, entrySize uint32) {
	tagSize := uint32(8 + 8 + int(entrySize)*len(regions))
	paddedTagSize := (tagSize + 7) &^ 7
	blob := make([]byte, 8+int(paddedTagSize)+8)
	le := binary.LittleEndian
	le.PutUint32(blob[0:], uint32(len(blob)))
	le.PutUint32(blob[8:], 6) // memory map tag
	le.PutUint32(blob[12:], tagSize)
	le.PutUint32(blob[16:], entrySize)
	le.PutUint32(blob[20:], 0)
	off := 24
	for _, r := range regions {
		le.PutUint64(blob[off:], r.addr)
		le.PutUint64(blob[off+8:], r.length)
		le.PutUint32(blob[off+16:], r.typ)
		off += int(entrySize)
	}
	// the remaining 8 bytes are the end tag (type 0, size 8)
	le.PutUint32(blob[len(blob)-4:], 8)

	c02Blobs = append(c02Blobs, blob)
	multiboot.SetInfoPtr(uintptr(unsafe.Pointer(&blob[0])))
}

// c02KernelPlacements returns kernel placements with a page-aligned start
// inside every available region that holds at least one whole frame: at its
// start, in its middle, at its end and covering it completely.
func c02KernelPlacements(regions []c02Region) []c02Kernel {
	ps := uint64(mm.PageSize)
	var out []c02Kernel
	for _, r := range regions {
		if r.typ != uint32(multiboot.MemAvailable) {
			continue
		}
		first, end := r.wholeFrames()
		if end <= first {
			continue
		}
		n := end - first
		out = append(out, c02Kernel{"cover", first * ps, r.end()})
		out = append(out, c02Kernel{"start-1.5p", first * ps, minU64(first*ps+ps+ps/2, r.end())})
		out = append(out, c02Kernel{"end", (end - 1) * ps, r.end()})
		if n >= 3 {
			mid := first + n/2
			out = append(out, c02Kernel{"middle-1p", mid * ps, mid*ps + ps})
			out = append(out, c02Kernel{"middle-to-end", mid * ps, end * ps})
		}
		if n >= 5 {
			out = append(out, c02Kernel{"start-2p+1", first * ps, first*ps + 2*ps + 1})
			out = append(out, c02Kernel{"second-frame-0.5p", (first + 1) * ps, (first+1)*ps + ps/2})
		}
	}
	return out
}

func minU64(a, b uint64) uint64 {
	if a < b {
		return a
	}
	return b
}

// c02FrameOK reports whether frame lies wholly inside an available region and
// does not touch [kStart, kEnd).
func c02FrameOK(frame mm.Frame, regions []c02Region, k c02Kernel) (bool, string) {
	ps := uint64(mm.PageSize)
	lo, hi := uint64(frame)*ps, uint64(frame)*ps+ps
	inside := false
	for _, r := range regions {
		if r.typ == uint32(multiboot.MemAvailable) && lo >= r.addr && hi <= r.end() {
			inside = true
			break
		}
	}
	if !inside {
		return false, "not wholly inside available RAM"
	}
	if k.end > k.start && lo < k.end && hi > k.start {
		return false, "overlaps the kernel image"
	}
	return true, ""
}

// c02Exhaust allocates from alloc until it reports out-of-memory and checks
// every returned frame against the property.
func c02Exhaust(t *testing.T, label string, alloc *BootMemAllocator, regions []c02Region, k c02Kernel) []mm.Frame {
	var (
		frames []mm.Frame
		limit  = 1 << 17
	)
	for i := 0; i < limit; i++ {
		frame, err := alloc.AllocFrame()
		if err != nil {
			if err != errBootAllocOutOfMemory {
				t.Errorf("%s: unexpected error %v", label, err)
			}
			return frames
		}
		if ok, why := c02FrameOK(frame, regions, k); !ok {
			t.Errorf("%s: allocation %d returned frame %d which is %s", label, i, frame, why)
		}
		if len(frames) > 0 && frame <= frames[len(frames)-1] {
			t.Errorf("%s: allocation %d returned frame %d which is not above the previous frame %d", label, i, frame, frames[len(frames)-1])
		}
		frames = append(frames, frame)
	}
	t.Errorf("%s: allocator did not report out-of-memory after %d allocations", label, limit)
	return frames
}

var c02Maps = []struct {
	name      string
	entrySize uint32
	regions   []c02Region
}{
	{
		name:      "aligned",
		entrySize: 24,
		regions: []c02Region{
			{0x1000, 0x8000, 1},
			{0x9000, 0x3000, 2},
			{0x10000, 0x6000, 1},
			{0x16000, 0x4000, 1}, // adjacent to the previous region
			{0x40000, 0x1000, 1}, // single frame
		},
	},
	{
		name:      "unaligned-and-small",
		entrySize: 24,
		regions: []c02Region{
			{0x0, 0x2c00, 1},
			{0x2c00, 0x400, 2},
			{0x3000, 0x800, 1},  // smaller than a page
			{0x3800, 0x1000, 1}, // a page long but holds no whole frame
			{0x5000, 0x2000, 3},
			{0x7400, 0x7000, 1}, // unaligned at both ends
			{0xf0000, 0x10000, 4},
			{0x100800, 0x9800, 1},
			{0x10a000, 0x1000, 77}, // unknown type; treated as reserved
			{0x10b000, 0x2345, 1},
		},
	},
	{
		name:      "wide-entries",
		entrySize: 32,
		regions: []c02Region{
			{0x2000, 0x5000, 1},
			{0x7000, 0x1000, 0}, // type 0; treated as reserved
			{0x8000, 0x4800, 1},
			{0x20000, 0x200, 1},
			{0x30000, 0x3000, 1},
		},
	},
}

func TestC02Keep3BootAllocatorSequences(t *testing.T) {
	for _, m := range c02Maps {
		c02InstallMap(m.regions, m.entrySize)

		placements := c02KernelPlacements(m.regions)
		// a kernel that is not inside the map at all
		placements = append(placements, c02Kernel{"outside", 0xa00000, 0xa02000})

		for _, k := range placements {
			label := m.name + "/" + k.name

			var alloc BootMemAllocator
			alloc.init(uintptr(k.start), uintptr(k.end))
			frames := c02Exhaust(t, label, &alloc, m.regions, k)

			if uint64(len(frames)) != alloc.allocCount {
				t.Errorf("%s: allocator counted %d allocations; %d frames were returned", label, alloc.allocCount, len(frames))
			}

			// Replay from the reset state, the way the hand-over
			// does, for every prefix length that matters: all of
			// them for small runs, a sample for big ones.
			step := 1
			if len(frames) > 64 {
				step = len(frames) / 16
			}
			for n := 0; n <= len(frames); n += step {
				alloc.allocCount, alloc.lastAllocFrame = 0, 0
				for i := 0; i < n; i++ {
					frame, err := alloc.AllocFrame()
					if err != nil {
						t.Errorf("%s: replay of %d: allocation %d failed: %v", label, n, i, err)
						break
					}
					if frame != frames[i] {
						t.Errorf("%s: replay of %d: allocation %d returned frame %d; the first run returned %d", label, n, i, frame, frames[i])
						break
					}
				}
			}

			// A second allocator value configured the same way
			// behaves the same.
			var other BootMemAllocator
			other.init(uintptr(k.start), uintptr(k.end))
			again := c02Exhaust(t, label+"/second", &other, m.regions, k)
			if len(again) != len(frames) {
				t.Errorf("%s: second run returned %d frames; first run returned %d", label, len(again), len(frames))
			} else {
				for i := range again {
					if again[i] != frames[i] {
						t.Errorf("%s: second run differs at allocation %d: %d vs %d", label, i, again[i], frames[i])
						break
					}
				}
			}
		}
	}
}

// The qemu memory map used by the existing tests, with the kernel where the
// existing package test puts it.
func TestC02Keep3QemuMap(t *testing.T) {
	multiboot.SetInfoPtr(uintptr(unsafe.Pointer(&multibootMemoryMap[0])))
	regions := []c02Region{
		{0x0, 0x9fc00, 1},
		{0x9fc00, 0x400, 2},
		{0xf0000, 0x10000, 2},
		{0x100000, 0x7ee0000, 1},
		{0x7fe0000, 0x20000, 2},
		{0xfffc0000, 0x40000, 2},
	}
	for _, k := range []c02Kernel{
		{"boot", 0x100000, 0x1fa7c8},
		{"low-end", 0x9c000, 0x9fc00},
		{"high-end", 0x7fdf000, 0x7fe0000},
	} {
		var alloc BootMemAllocator
		alloc.init(uintptr(k.start), uintptr(k.end))
		frames := c02Exhaust(t, "qemu/"+k.name, &alloc, regions, k)
		if len(frames) == 0 {
			t.Errorf("qemu/%s: no frames returned", k.name)
		}

		alloc.allocCount, alloc.lastAllocFrame = 0, 0
		for i := 0; i < len(frames); i++ {
			frame, err := alloc.AllocFrame()
			if err != nil || frame != frames[i] {
				t.Errorf("qemu/%s: replay differs at allocation %d: got (%d, %v); want %d", k.name, i, frame, err, frames[i])
				break
			}
		}
	}
}

// c02PoolsFor builds bitmap allocator pools for the whole frames of the
// available regions, the same way setupPoolBitmaps lays them out.
func c02PoolsFor(regions []c02Region) ([]framePool, uint32) {
	var (
		pools []framePool
		total uint32
	)
	for _, r := range regions {
		if r.typ != uint32(multiboot.MemAvailable) {
			continue
		}
		first, end := r.wholeFrames()
		if end <= first {
			continue
		}
		n := end - first
		pools = append(pools, framePool{
			startFrame: mm.Frame(first),
			endFrame:   mm.Frame(end - 1),
			freeCount:  uint32(n),
			freeBitmap: make([]uint64, (n+63)/64),
		})
		total += uint32(n)
	}
	return pools, total
}

// c02Taken lists the frames that are flagged as taken in the pools.
func c02Taken(alloc *BitmapAllocator) map[mm.Frame]bool {
	taken := make(map[mm.Frame]bool)
	for _, pool := range alloc.pools {
		for f := pool.startFrame; f <= pool.endFrame; f++ {
			rel := uint64(f - pool.startFrame)
			if pool.freeBitmap[rel/64]&(uint64(1)<<(63-rel%64)) != 0 {
				taken[f] = true
			}
		}
	}
	return taken
}

// The frames consumed before the hand-over are recovered exactly.
func TestC02Keep3HandOverRecoversEarlyFrames(t *testing.T) {
	defer func(saved BootMemAllocator) { bootMemAllocator = saved }(bootMemAllocator)

	for _, m := range c02Maps {
		c02InstallMap(m.regions, m.entrySize)

		placements := append(c02KernelPlacements(m.regions), c02Kernel{"outside", 0xa00000, 0xa02000})
		for _, k := range placements {
			// find out how many frames this configuration can provide
			var probe BootMemAllocator
			probe.init(uintptr(k.start), uintptr(k.end))
			capacity := len(c02Exhaust(t, m.name+"/"+k.name+"/probe", &probe, m.regions, k))

			for _, n := range []int{0, 1, 2, capacity / 2, capacity} {
				if n > capacity {
					continue
				}
				label := m.name + "/" + k.name

				bootMemAllocator = BootMemAllocator{}
				bootMemAllocator.init(uintptr(k.start), uintptr(k.end))
				consumed := make(map[mm.Frame]bool)
				var last mm.Frame
				for i := 0; i < n; i++ {
					frame, err := earlyAllocFrame()
					if err != nil {
						t.Fatalf("%s: early allocation %d of %d failed: %v", label, i, n, err)
					}
					consumed[frame] = true
					last = frame
				}

				pools, total := c02PoolsFor(m.regions)
				alloc := BitmapAllocator{pools: pools, totalPages: total}
				alloc.reserveEarlyAllocatorFrames()

				taken := c02Taken(&alloc)
				if len(taken) != len(consumed) {
					t.Errorf("%s: n=%d: %d frames flagged as taken after the hand-over; %d were consumed", label, n, len(taken), len(consumed))
				}
				for f := range consumed {
					if !taken[f] {
						t.Errorf("%s: n=%d: consumed frame %d is not flagged as taken", label, n, f)
					}
				}
				if alloc.reservedPages != uint32(n) {
					t.Errorf("%s: n=%d: reserved page counter is %d", label, n, alloc.reservedPages)
				}
				if bootMemAllocator.allocCount != uint64(n) {
					t.Errorf("%s: n=%d: boot allocator reports %d allocations after the hand-over", label, n, bootMemAllocator.allocCount)
				}

				// the boot allocator carries on above everything
				// it has handed out so far
				if n > 0 && n < capacity {
					frame, err := earlyAllocFrame()
					if err != nil {
						t.Errorf("%s: n=%d: allocation after the hand-over failed: %v", label, n, err)
					} else if frame <= last {
						t.Errorf("%s: n=%d: allocation after the hand-over returned frame %d; last frame before it was %d", label, n, frame, last)
					} else if ok, why := c02FrameOK(frame, m.regions, k); !ok {
						t.Errorf("%s: n=%d: allocation after the hand-over returned frame %d which is %s", label, n, frame, why)
					}
				}
			}
		}
	}
}

// End to end: Init boots the bitmap allocator off the boot allocator; the
// main allocator then never hands out a frame that the boot allocator gave
// away or that belongs to the kernel.
func TestC02Keep3InitEndToEnd(t *testing.T) {
	defer func(savedBoot BootMemAllocator) {
		mapFn = vmm.Map
		reserveRegionFn = vmm.EarlyReserveRegion
		bootMemAllocator = savedBoot
		bitmapAllocator = BitmapAllocator{}
	}(bootMemAllocator)

	var (
		backing  [][]byte
		mapped   []mm.Frame
		pageSize = uintptr(mm.PageSize)
	)
	mapFn = func(_ mm.Page, frame mm.Frame, _ vmm.PageTableEntryFlag) *kernel.Error {
		mapped = append(mapped, frame)
		return nil
	}
	reserveRegionFn = func(size uintptr) (uintptr, *kernel.Error) {
		buf := make([]byte, size+2*pageSize)
		backing = append(backing, buf)
		addr := (uintptr(unsafe.Pointer(&buf[0])) + pageSize - 1) &^ (pageSize - 1)
		return addr, nil
	}

	for _, m := range c02Maps {
		c02InstallMap(m.regions, m.entrySize)

		for _, k := range append(c02KernelPlacements(m.regions), c02Kernel{"outside", 0xa00000, 0xa02000}) {
			label := m.name + "/" + k.name

			var probe BootMemAllocator
			probe.init(uintptr(k.start), uintptr(k.end))
			if capacity := len(c02Exhaust(t, label+"/probe", &probe, m.regions, k)); capacity == 0 {
				// nothing to bootstrap from
				continue
			}

			bootMemAllocator = BootMemAllocator{}
			bitmapAllocator = BitmapAllocator{}
			mapped = mapped[:0]

			if err := Init(uintptr(k.start), uintptr(k.end)); err != nil {
				t.Errorf("%s: Init failed: %v", label, err)
				continue
			}

			if len(mapped) == 0 {
				t.Errorf("%s: Init did not consume any early frames", label)
			}
			early := make(map[mm.Frame]bool)
			for i, f := range mapped {
				if ok, why := c02FrameOK(f, m.regions, k); !ok {
					t.Errorf("%s: early frame %d is %s", label, f, why)
				}
				if i > 0 && f <= mapped[i-1] {
					t.Errorf("%s: early frame %d is not above the previous one (%d)", label, f, mapped[i-1])
				}
				early[f] = true
			}

			// Drain the main allocator.
			seen := make(map[mm.Frame]bool)
			for i := 0; i < 1<<17; i++ {
				f, err := bitmapAllocFrame()
				if err != nil {
					break
				}
				if early[f] {
					t.Errorf("%s: main allocator handed out frame %d which the boot allocator gave away", label, f)
				}
				if ok, why := c02FrameOK(f, m.regions, k); !ok {
					t.Errorf("%s: main allocator handed out frame %d which is %s", label, f, why)
				}
				if seen[f] {
					t.Errorf("%s: main allocator handed out frame %d twice", label, f)
				}
				seen[f] = true
			}
		}
	}
	_ = backing
}
