package console

// Demonstration for property C19 (console drivers paint exactly the addressed
// cells and never touch memory outside the framebuffer or the row padding).
//
// The test drives VesaFbConsole and VgaTextConsole with random and edge-case
// arguments over several geometries (depth 8/15/16/24/32, padded and unpadded
// pitch, fonts 8..16 pixels wide, with and without a logo area) and compares
// the framebuffer - including guard zones before/after it and the padding
// bytes of each row - against an independently written model that only encodes
// what the property states. Things the property leaves open (the contents of
// the rows vacated by a scroll, the rows below the text grid) are not checked.

import (
	"image/color"
	"math/rand"
	"testing"

	"github.com/ProjectSerenity/firefly/kernel/device/video/console/font"
	"github.com/ProjectSerenity/firefly/kernel/multiboot"
)

const (
	c19Guard    = 96
	c19GuardVal = 0xC3
	c19PadVal   = 0xA5
)

type c19Geom struct {
	name          string
	width, height uint32
	pad           uint32 // extra bytes per row on top of width*bytesPerPixel
	bpp           uint8
	ci            *multiboot.FramebufferRGBColorInfo
	glyphW        uint32
	glyphH        uint32
	logoH         uint32
}

type c19Model struct {
	g             c19Geom
	bytesPerPixel uint32
	pitch         uint32
	cols, rows    uint32
	fnt           *font.Font
	pal           color.Palette
	buf           []byte // guard + framebuffer + guard
}

func (m *c19Model) fb() []byte {
	return m.buf[c19Guard : c19Guard+int(m.g.height*m.pitch)]
}

// pack is an independent implementation of the pixel format packing.
func (m *c19Model) pack(idx uint8) []byte {
	if m.g.bpp == 8 {
		return []byte{idx}
	}

	c := m.pal[idx].(color.RGBA)
	comp := func(v, size, pos uint8) uint64 {
		return (uint64(v) >> (8 - uint64(size))) << uint64(pos)
	}
	v := comp(c.R, m.g.ci.RedMaskSize, m.g.ci.RedPosition) |
		comp(c.G, m.g.ci.GreenMaskSize, m.g.ci.GreenPosition) |
		comp(c.B, m.g.ci.BlueMaskSize, m.g.ci.BluePosition)

	switch m.g.bpp {
	case 15, 16:
		return []byte{byte(v), byte(v >> 8)}
	default:
		// 24 and 32 bpp: three colour bytes. For 32 bpp the fourth byte
		// of the pixel is not part of the packed colour.
		return []byte{byte(v), byte(v >> 8), byte(v >> 16)}
	}
}

func (m *c19Model) setPixel(px, py uint32, packed []byte) {
	off := py*m.pitch + px*m.bytesPerPixel
	copy(m.fb()[off:], packed)
}

func (m *c19Model) write(ch byte, fg, bg uint8, x, y uint32) {
	if x < 1 || x > m.cols || y < 1 || y > m.rows {
		return
	}

	fgP, bgP := m.pack(fg), m.pack(bg)
	for gy := uint32(0); gy < m.g.glyphH; gy++ {
		for gx := uint32(0); gx < m.g.glyphW; gx++ {
			b := m.fnt.Data[uint32(ch)*m.fnt.BytesPerRow*m.g.glyphH+gy*m.fnt.BytesPerRow+gx/8]
			p := bgP
			if b&(0x80>>(gx%8)) != 0 {
				p = fgP
			}
			m.setPixel((x-1)*m.g.glyphW+gx, m.g.logoH+(y-1)*m.g.glyphH+gy, p)
		}
	}
}

func c19Clip(x, y, w, h, cols, rows uint32) (uint32, uint32, uint32, uint32) {
	if x < 1 {
		x = 1
	}
	if x > cols {
		x = cols
	}
	if y < 1 {
		y = 1
	}
	if y > rows {
		y = rows
	}
	if uint64(x)+uint64(w) > uint64(cols)+1 {
		w = cols + 1 - x
	}
	if uint64(y)+uint64(h) > uint64(rows)+1 {
		h = rows + 1 - y
	}
	return x, y, w, h
}

func (m *c19Model) fill(x, y, w, h uint32, bg uint8) {
	x, y, w, h = c19Clip(x, y, w, h, m.cols, m.rows)
	bgP := m.pack(bg)
	for py := (y - 1) * m.g.glyphH; py < (y-1+h)*m.g.glyphH; py++ {
		for px := (x - 1) * m.g.glyphW; px < (x-1+w)*m.g.glyphW; px++ {
			m.setPixel(px, m.g.logoH+py, bgP)
		}
	}
}

// scroll applies the scroll to the model. It returns the ranges of pixel rows
// [lo, hi) whose contents the property does not define after the call (the
// rows vacated by the scroll and the left-over rows below the text grid).
func (m *c19Model) scroll(dir ScrollDir, lines uint32) [][2]uint32 {
	if lines < 1 || lines > m.rows {
		return nil
	}

	var (
		old      = append([]byte(nil), m.fb()...)
		fb       = m.fb()
		rowBytes = m.g.width * m.bytesPerPixel
		shift    = lines * m.g.glyphH
		top      = m.g.logoH
		bottom   = m.g.logoH + m.rows*m.g.glyphH // end of text grid
	)

	switch dir {
	case ScrollDirUp:
		for r := top; r+shift < bottom; r++ {
			copy(fb[r*m.pitch:r*m.pitch+rowBytes], old[(r+shift)*m.pitch:])
		}
		return [][2]uint32{{bottom - shift, m.g.height}}
	default:
		for r := top + shift; r < bottom; r++ {
			copy(fb[r*m.pitch:r*m.pitch+rowBytes], old[(r-shift)*m.pitch:])
		}
		// vacated rows at the top of the text area and the left-over
		// rows below the grid
		return [][2]uint32{{top, top + shift}, {bottom, m.g.height}}
	}
}

func c19Arg(rnd *rand.Rand, limit uint32) uint32 {
	switch rnd.Intn(10) {
	case 0:
		return 0
	case 1:
		return limit
	case 2:
		return limit + 1
	case 3:
		return 1 << 31
	case 4:
		return 0xffffffff
	case 5:
		return 0xffffffff - uint32(rnd.Intn(4))
	case 6:
		return rnd.Uint32()
	default:
		return uint32(rnd.Intn(int(limit) + 2))
	}
}

func TestC19KeepDemoVesa(t *testing.T) {
	var (
		rgb555 = &multiboot.FramebufferRGBColorInfo{RedPosition: 10, RedMaskSize: 5, GreenPosition: 5, GreenMaskSize: 5, BluePosition: 0, BlueMaskSize: 5}
		rgb565 = &multiboot.FramebufferRGBColorInfo{RedPosition: 11, RedMaskSize: 5, GreenPosition: 5, GreenMaskSize: 6, BluePosition: 0, BlueMaskSize: 5}
		bgr565 = &multiboot.FramebufferRGBColorInfo{RedPosition: 0, RedMaskSize: 5, GreenPosition: 5, GreenMaskSize: 6, BluePosition: 11, BlueMaskSize: 5}
		rgb888 = &multiboot.FramebufferRGBColorInfo{RedPosition: 16, RedMaskSize: 8, GreenPosition: 8, GreenMaskSize: 8, BluePosition: 0, BlueMaskSize: 8}
		bgr888 = &multiboot.FramebufferRGBColorInfo{RedPosition: 0, RedMaskSize: 8, GreenPosition: 8, GreenMaskSize: 8, BluePosition: 16, BlueMaskSize: 8}
		odd666 = &multiboot.FramebufferRGBColorInfo{RedPosition: 12, RedMaskSize: 6, GreenPosition: 6, GreenMaskSize: 6, BluePosition: 0, BlueMaskSize: 6}
	)

	geoms := []c19Geom{
		{"8bpp-nopad", 32, 24, 0, 8, nil, 8, 4, 0},
		{"8bpp-pad-logo", 37, 29, 5, 8, nil, 9, 5, 6},
		{"8bpp-onecell", 16, 7, 3, 8, nil, 16, 7, 0},
		{"15bpp-pad", 35, 23, 6, 15, rgb555, 10, 4, 3},
		{"16bpp-nopad-logo", 48, 30, 0, 16, rgb565, 12, 6, 5},
		{"16bpp-pad-bgr", 41, 19, 2, 16, bgr565, 8, 3, 0},
		{"24bpp-nopad", 33, 21, 0, 24, rgb888, 11, 5, 0},
		{"24bpp-pad-logo", 40, 26, 7, 24, bgr888, 13, 4, 9},
		{"24bpp-666", 30, 17, 1, 24, odd666, 15, 8, 1},
		{"32bpp-nopad-logo", 36, 22, 0, 32, rgb888, 9, 4, 2},
		{"32bpp-pad", 29, 31, 8, 32, bgr888, 14, 6, 0},
		{"32bpp-singlerow", 50, 6, 4, 32, rgb888, 8, 6, 0},
	}

	for gi, g := range geoms {
		rnd := rand.New(rand.NewSource(int64(1900 + gi)))

		m := &c19Model{g: g}
		m.bytesPerPixel = uint32(g.bpp+1) >> 3
		m.pitch = g.width*m.bytesPerPixel + g.pad
		m.cols = g.width / g.glyphW
		m.rows = (g.height - g.logoH) / g.glyphH

		bytesPerRow := (g.glyphW + 7) / 8
		m.fnt = &font.Font{
			Name:        "c19",
			GlyphWidth:  g.glyphW,
			GlyphHeight: g.glyphH,
			BytesPerRow: bytesPerRow,
			Data:        make([]byte, 256*bytesPerRow*g.glyphH),
		}
		rnd.Read(m.fnt.Data)

		m.pal = make(color.Palette, 256)
		for i := range m.pal {
			m.pal[i] = color.RGBA{R: uint8(rnd.Intn(256)), G: uint8(rnd.Intn(256)), B: uint8(rnd.Intn(256))}
		}

		// guard | framebuffer | guard; pixel bytes are random, padding
		// bytes and guard bytes hold fixed marker values.
		m.buf = make([]byte, 2*c19Guard+int(g.height*m.pitch))
		for i := range m.buf {
			m.buf[i] = c19GuardVal
		}
		for r := uint32(0); r < g.height; r++ {
			row := m.fb()[r*m.pitch : (r+1)*m.pitch]
			rnd.Read(row[:g.width*m.bytesPerPixel])
			for i := g.width * m.bytesPerPixel; i < m.pitch; i++ {
				row[i] = c19PadVal
			}
		}

		actual := append([]byte(nil), m.buf...)
		cons := NewVesaFbConsole(g.width, g.height, g.bpp, m.pitch, g.ci, 0)
		cons.fb = actual[c19Guard : c19Guard+int(g.height*m.pitch) : c19Guard+int(g.height*m.pitch)]
		cons.palette = append(color.Palette(nil), m.pal...)
		cons.offsetY = g.logoH
		cons.SetFont(m.fnt)

		if w, h := cons.Dimensions(Characters); w != m.cols || h != m.rows {
			t.Fatalf("[%s] expected a %dx%d grid; got %dx%d", g.name, m.cols, m.rows, w, h)
		}

		// compare checks the whole buffer (guards, padding, logo area and
		// pixels) except for the pixel data of the rows in the skip ranges
		// which is re-synchronised from the actual framebuffer instead.
		compare := func(op int, desc string, skips ...[2]uint32) {
			t.Helper()
			rowBytes := g.width * m.bytesPerPixel
			for _, skip := range skips {
				for r := skip[0]; r < skip[1]; r++ {
					off := c19Guard + int(r*m.pitch)
					copy(m.buf[off:off+int(rowBytes)], actual[off:off+int(rowBytes)])
				}
			}
			for i := range m.buf {
				if m.buf[i] == actual[i] {
					continue
				}
				where := "guard zone"
				if i >= c19Guard && i < len(m.buf)-c19Guard {
					o := uint32(i - c19Guard)
					where = "pixel data"
					if o%m.pitch >= rowBytes {
						where = "row padding"
					}
					t.Fatalf("[%s] op %d %s: %s mismatch at row %d, byte %d: expected 0x%02x; got 0x%02x",
						g.name, op, desc, where, o/m.pitch, o%m.pitch, m.buf[i], actual[i])
				}
				t.Fatalf("[%s] op %d %s: %s modified at buffer offset %d", g.name, op, desc, where, i)
			}
		}

		// Deterministic corner cases first.
		type fillSpec struct{ x, y, w, h uint32 }
		fixedFills := []fillSpec{
			{1, 1, m.cols, m.rows},
			{0, 0, 0xffffffff, 0xffffffff},
			{m.cols, m.rows, 5, 5},
			{m.cols + 7, m.rows + 9, 1, 1},
			{0xffffffff, 0xffffffff, 0xffffffff, 0xffffffff},
			{2, 1, 0, 3},
			{1, 2, 3, 0},
			{2, 2, 0xfffffffe, 1},
		}
		for i, f := range fixedFills {
			bg := uint8(rnd.Intn(256))
			cons.Fill(f.x, f.y, f.w, f.h, uint8(rnd.Intn(256)), bg)
			m.fill(f.x, f.y, f.w, f.h, bg)
			compare(i, "fixed fill")
		}
		for _, lines := range []uint32{0, m.rows + 1, 0xffffffff, 1 << 31} {
			for _, dir := range []ScrollDir{ScrollDirUp, ScrollDirDown} {
				cons.Scroll(dir, lines)
				compare(int(lines), "ignored scroll")
			}
		}
		for lines := uint32(1); lines <= m.rows; lines++ {
			for _, dir := range []ScrollDir{ScrollDirUp, ScrollDirDown} {
				// repaint something recognisable first
				for k := 0; k < 6; k++ {
					x, y := uint32(rnd.Intn(int(m.cols)))+1, uint32(rnd.Intn(int(m.rows)))+1
					ch, fg, bg := byte(rnd.Intn(256)), uint8(rnd.Intn(256)), uint8(rnd.Intn(256))
					cons.Write(ch, fg, bg, x, y)
					m.write(ch, fg, bg, x, y)
				}
				compare(int(lines), "writes before scroll")

				cons.Scroll(dir, lines)
				compare(int(lines), "scroll", m.scroll(dir, lines)...)
			}
		}

		// Random operation mix.
		for op := 0; op < 600; op++ {
			switch rnd.Intn(10) {
			case 0, 1, 2, 3, 4:
				ch, fg, bg := byte(rnd.Intn(256)), uint8(rnd.Intn(256)), uint8(rnd.Intn(256))
				x, y := c19Arg(rnd, m.cols), c19Arg(rnd, m.rows)
				cons.Write(ch, fg, bg, x, y)
				m.write(ch, fg, bg, x, y)
				compare(op, "write")
			case 5, 6, 7:
				bg := uint8(rnd.Intn(256))
				x, y := c19Arg(rnd, m.cols), c19Arg(rnd, m.rows)
				w, h := c19Arg(rnd, m.cols), c19Arg(rnd, m.rows)
				cons.Fill(x, y, w, h, uint8(rnd.Intn(256)), bg)
				m.fill(x, y, w, h, bg)
				compare(op, "fill")
			default:
				dir := ScrollDir(rnd.Intn(2))
				lines := c19Arg(rnd, m.rows)
				cons.Scroll(dir, lines)
				compare(op, "scroll", m.scroll(dir, lines)...)
			}
		}
	}
}

func TestC19KeepDemoVgaText(t *testing.T) {
	const guard = 40
	const guardVal = 0xBEEF

	geoms := []struct{ cols, rows uint32 }{{80, 25}, {1, 1}, {3, 2}, {40, 7}, {7, 1}, {1, 9}}

	for gi, g := range geoms {
		rnd := rand.New(rand.NewSource(int64(19000 + gi)))

		model := make([]uint16, 2*guard+int(g.cols*g.rows))
		for i := range model {
			model[i] = guardVal
		}
		mfb := model[guard : guard+int(g.cols*g.rows)]
		for i := range mfb {
			mfb[i] = uint16(rnd.Intn(1 << 16))
		}

		actual := append([]uint16(nil), model...)
		cons := NewVgaTextConsole(g.cols, g.rows, 0)
		cons.fb = actual[guard : guard+int(g.cols*g.rows) : guard+int(g.cols*g.rows)]

		compare := func(op int, desc string, skipLo, skipHi uint32) {
			t.Helper()
			copy(mfb[skipLo*g.cols:skipHi*g.cols], cons.fb[skipLo*g.cols:skipHi*g.cols])
			for i := range model {
				if model[i] != actual[i] {
					t.Fatalf("[%dx%d] op %d %s: mismatch at buffer offset %d (framebuffer starts at %d, holds %d cells): expected 0x%04x; got 0x%04x",
						g.cols, g.rows, op, desc, i, guard, len(mfb), model[i], actual[i])
				}
			}
		}

		mWrite := func(ch byte, fg, bg uint8, x, y uint32) {
			if x < 1 || x > g.cols || y < 1 || y > g.rows {
				return
			}
			mfb[(y-1)*g.cols+(x-1)] = uint16(bg)<<12 | uint16(fg)<<8 | uint16(ch)
		}
		mFill := func(x, y, w, h uint32, fg, bg uint8) {
			x, y, w, h = c19Clip(x, y, w, h, g.cols, g.rows)
			for r := y - 1; r < y-1+h; r++ {
				for c := x - 1; c < x-1+w; c++ {
					mfb[r*g.cols+c] = uint16(bg)<<12 | uint16(fg)<<8 | uint16(' ')
				}
			}
		}
		mScroll := func(dir ScrollDir, lines uint32) (uint32, uint32) {
			if lines < 1 || lines > g.rows {
				return 0, 0
			}
			old := append([]uint16(nil), mfb...)
			if dir == ScrollDirUp {
				copy(mfb, old[lines*g.cols:])
				return g.rows - lines, g.rows
			}
			copy(mfb[lines*g.cols:], old)
			return 0, lines
		}

		for lines := uint32(0); lines <= g.rows+2; lines++ {
			for _, dir := range []ScrollDir{ScrollDirUp, ScrollDirDown} {
				cons.Scroll(dir, lines)
				lo, hi := mScroll(dir, lines)
				compare(int(lines), "fixed scroll", lo, hi)
			}
		}

		for op := 0; op < 800; op++ {
			// colours stay within the 15 entries that the driver
			// passes through unchanged
			fg, bg := uint8(rnd.Intn(15)), uint8(rnd.Intn(15))
			switch rnd.Intn(10) {
			case 0, 1, 2, 3:
				ch := byte(rnd.Intn(256))
				x, y := c19Arg(rnd, g.cols), c19Arg(rnd, g.rows)
				cons.Write(ch, fg, bg, x, y)
				mWrite(ch, fg, bg, x, y)
				compare(op, "write", 0, 0)
			case 4:
				// any colour value: only the addressed cell may change
				ch := byte(rnd.Intn(256))
				x, y := c19Arg(rnd, g.cols), c19Arg(rnd, g.rows)
				cons.Write(ch, uint8(rnd.Intn(256)), uint8(rnd.Intn(256)), x, y)
				if x >= 1 && x <= g.cols && y >= 1 && y <= g.rows {
					mfb[(y-1)*g.cols+(x-1)] = cons.fb[(y-1)*g.cols+(x-1)]
					if got := byte(cons.fb[(y-1)*g.cols+(x-1)]); got != ch {
						t.Fatalf("[%dx%d] op %d: expected character 0x%02x in cell; got 0x%02x", g.cols, g.rows, op, ch, got)
					}
				}
				compare(op, "write with any colour", 0, 0)
			case 5, 6, 7:
				x, y := c19Arg(rnd, g.cols), c19Arg(rnd, g.rows)
				w, h := c19Arg(rnd, g.cols), c19Arg(rnd, g.rows)
				cons.Fill(x, y, w, h, fg, bg)
				mFill(x, y, w, h, fg, bg)
				compare(op, "fill", 0, 0)
			default:
				dir := ScrollDir(rnd.Intn(2))
				lines := c19Arg(rnd, g.rows)
				cons.Scroll(dir, lines)
				lo, hi := mScroll(dir, lines)
				compare(op, "scroll", lo, hi)
			}
		}
	}
}
