package aml

// Demonstration for property C12: malformed AML is rejected with an error,
// never a crash, hang or stray pointer.
//
// Copy to kernel/device/acpi/aml/c12_keep3_demo_test.go and run
//   cd kernel && go test -vet=off -count=1 -run TestC12Keep3Demo ./device/acpi/aml/
//
// The test only asserts what the property states. In particular it does NOT
// look at the wording or the number of diagnostics, at how they are chunked
// into Write calls, at object indices, at the number of resolve passes or at
// which malformed inputs happen to be accepted.

import (
	"fmt"
	"io/ioutil"
	"math/rand"
	"path/filepath"
	"testing"
	"time"
	"unsafe"

	"github.com/ProjectSerenity/firefly/kernel"
	"github.com/ProjectSerenity/firefly/kernel/device/acpi/table"
)

// c12CountingWriter swallows output and records how much was written.
type c12CountingWriter struct {
	bytes  int
	writes int
	lines  int
}

func (w *c12CountingWriter) Write(p []byte) (int, error) {
	w.writes++
	w.bytes += len(p)
	for _, b := range p {
		if b == '\n' {
			w.lines++
		}
	}
	return len(p), nil
}

type c12Outcome struct {
	err      *kernel.Error
	panicked interface{}
	diag     c12CountingWriter
	problems []string
	nodes    int
	printed  int
	passes   uint32
}

const c12HeaderLen = int(unsafe.Sizeof(table.SDTHeader{}))

// c12Table lays out body after a fresh SDT header whose length field covers
// exactly the header plus the body.
func c12Table(body []byte) []byte {
	stream := make([]byte, c12HeaderLen+len(body))
	copy(stream[c12HeaderLen:], body)
	header := (*table.SDTHeader)(unsafe.Pointer(&stream[0]))
	header.Signature = [4]byte{'D', 'S', 'D', 'T'}
	header.Length = uint32(len(stream))
	header.Revision = 2
	return stream
}

// c12Inside reports whether b is empty or lies completely inside stream.
func c12Inside(b, stream []byte) bool {
	if len(b) == 0 {
		return true
	}
	lo := uintptr(unsafe.Pointer(&stream[0]))
	hi := lo + uintptr(len(stream))
	start := uintptr(unsafe.Pointer(&b[0]))
	return start >= lo && start+uintptr(len(b)) <= hi && start+uintptr(cap(b)) <= hi
}

// c12CheckTree walks the tree from the root and checks that it is a
// well-formed tree whose byte slices all point into stream.
func c12CheckTree(tree *ObjectTree, stream []byte, out *c12Outcome) {
	complain := func(msg string) {
		if len(out.problems) < 8 {
			out.problems = append(out.problems, msg)
		}
	}

	root := tree.ObjectAt(0)
	if root == nil {
		complain("root object missing")
		return
	}
	if root.parentIndex != InvalidIndex {
		complain("root has a parent")
	}

	seen := make(map[uint32]bool)
	stack := []uint32{0}
	seen[0] = true
	for len(stack) != 0 {
		index := stack[len(stack)-1]
		stack = stack[:len(stack)-1]
		obj := tree.ObjectAt(index)
		if obj == nil {
			complain("reachable index does not resolve to a live object")
			continue
		}
		if obj.index != index {
			complain("object index does not match its pool slot")
		}
		out.nodes++

		switch v := obj.value.(type) {
		case []byte:
			if !c12Inside(v, stream) {
				complain("byte slice value points outside the table")
			}
		}

		if (obj.firstArgIndex == InvalidIndex) != (obj.lastArgIndex == InvalidIndex) {
			complain("first/last arg indices disagree about emptiness")
		}

		prev := InvalidIndex
		last := InvalidIndex
		steps := 0
		for argIndex := obj.firstArgIndex; argIndex != InvalidIndex; {
			arg := tree.ObjectAt(argIndex)
			if arg == nil {
				complain("arg list refers to a dead object")
				break
			}
			if seen[argIndex] {
				complain("object reachable twice (cycle or shared child)")
				break
			}
			seen[argIndex] = true
			if arg.parentIndex != index {
				complain("child does not point back to its parent")
			}
			if arg.prevSiblingIndex != prev {
				complain("prev sibling link is inconsistent")
			}
			stack = append(stack, argIndex)
			prev, last = argIndex, argIndex
			argIndex = arg.nextSiblingIndex
			if steps++; steps > len(tree.objPool) {
				complain("sibling list longer than the pool")
				break
			}
		}
		if last != obj.lastArgIndex {
			complain("lastArgIndex is not the end of the sibling list")
		}
	}
}

// c12Parse feeds one byte string to a fresh parser and records everything the
// property talks about.
func c12Parse(body []byte, print bool) (out c12Outcome) {
	stream := c12Table(body)
	header := (*table.SDTHeader)(unsafe.Pointer(&stream[0]))

	tree := NewObjectTree()
	tree.CreateDefaultScopes(0)
	p := NewParser(&out.diag, tree)

	func() {
		defer func() { out.panicked = recover() }()
		out.err = p.ParseAML(1, "DSDT", header)
	}()
	out.passes = p.resolvePasses
	if out.panicked != nil {
		return out
	}

	c12CheckTree(tree, stream, &out)

	// A successfully parsed table must be printable.
	if print && out.err == nil {
		var sink c12CountingWriter
		func() {
			defer func() { out.panicked = recover() }()
			tree.PrettyPrint(&sink)
		}()
		out.printed = sink.lines
	}
	return out
}

// c12Pkg encodes op followed by a PkgLength that covers itself and body.
func c12Pkg(op []byte, body []byte) []byte {
	out := append([]byte(nil), op...)
	switch {
	case len(body)+1 <= 0x3f:
		out = append(out, byte(len(body)+1))
	case len(body)+2 <= 0xfff:
		l := len(body) + 2
		out = append(out, 0x40|byte(l&0xf), byte(l>>4))
	default:
		l := len(body) + 3
		out = append(out, 0x80|byte(l&0xf), byte(l>>4), byte(l>>12))
	}
	return append(out, body...)
}

func c12Name(prefix string, n int) []byte {
	return []byte{prefix[0], byte('A' + n), '_', '_'}
}

// c12ForwardChain builds a well-formed table that declares, at the top level
// and deepest first, the devices
//
//	Device(\\_SB_.GB__.HC__) { Device(\\_SB_.GC__) {} }
//	Device(\\_SB_.GA__.HB__) { Device(\\_SB_.GB__) {} }
//	Device(\\_SB_.HA__)      { Device(\\_SB_.GA__) {} }
//
// H<k> can only be moved to its place once G<k-1> has shown up in \\_SB_, and
// G<k-1> only shows up there once H<k-1> has been moved, so a chain of depth n
// needs n resolve passes. How many passes the parser is willing to spend is
// not part of the property; it may accept or reject the deeper chains.
func c12ForwardChain(depth int) []byte {
	var (
		deviceOp = []byte{extOpPrefix, 0x82}
		sb       = []byte{'_', 'S', 'B', '_'}
		body     []byte
	)

	for level := depth - 1; level >= 0; level-- {
		inner := append([]byte{'\\', 0x2e}, sb...)
		inner = append(inner, c12Name("G", level)...)

		var outer []byte
		if level == 0 {
			outer = append([]byte{'\\', 0x2e}, sb...)
		} else {
			outer = append([]byte{'\\', 0x2f, 0x03}, sb...)
			outer = append(outer, c12Name("G", level-1)...)
		}
		outer = append(outer, c12Name("H", level)...)

		body = append(body, c12Pkg(deviceOp, append(outer, c12Pkg(deviceOp, inner)...))...)
	}
	return body
}

func c12Corpus(t *testing.T) [][]byte {
	dir := filepath.Join(pkgDir(), "..", "table", "tabletest")
	var bodies [][]byte
	for _, name := range []string{"parser-testsuite-DSDT.aml", "SSDT.aml", "DSDT.aml"} {
		data, err := ioutil.ReadFile(filepath.Join(dir, name))
		if err != nil {
			t.Fatal(err)
		}
		bodies = append(bodies, data[c12HeaderLen:])
	}
	return bodies
}

func TestC12Keep3Demo(t *testing.T) {
	corpus := c12Corpus(t)
	rng := rand.New(rand.NewSource(0xC12))

	type input struct {
		kind string
		body []byte
	}
	var inputs []input
	add := func(kind string, body []byte) {
		inputs = append(inputs, input{kind, append([]byte(nil), body...)})
	}

	// Well-formed tables as they are.
	for _, body := range corpus {
		add("pristine", body)
	}

	// Degenerate inputs.
	add("empty", nil)
	for b := 0; b < 256; b++ {
		add("single byte", []byte{byte(b)})
		add("ext prefix + byte", []byte{extOpPrefix, byte(b)})
	}

	// Truncations: every prefix of the small tables, sampled prefixes of the big one.
	for ci, body := range corpus {
		step := 1
		if ci == 2 {
			step = 37
		}
		for n := 0; n < len(body); n += step {
			add("truncation", body[:n])
		}
	}

	for ci, body := range corpus {
		rounds := 600
		if ci == 2 {
			rounds = 250
		}
		for i := 0; i < rounds; i++ {
			// single bit flip
			m := append([]byte(nil), body...)
			m[rng.Intn(len(m))] ^= 1 << uint(rng.Intn(8))
			add("bit flip", m)

			// byte substitution with an interesting value
			m = append([]byte(nil), body...)
			interesting := []byte{0x00, 0x01, 0x02, 0x03, 0x0d, 0x10, 0x11, 0x14, 0x2e, 0x2f, 0x5b, 0x5c, 0x5e, 0x80, 0x81, 0x86, 0x87, 0xa0, 0xa2, 0xff}
			m[rng.Intn(len(m))] = interesting[rng.Intn(len(interesting))]
			add("byte substitution", m)

			// length field corruption: find a byte that follows a package
			// opcode and overwrite the PkgLength lead byte (and sometimes
			// the follow bytes) with something else.
			m = append([]byte(nil), body...)
			for tries := 0; tries < 64; tries++ {
				pos := rng.Intn(len(m) - 4)
				switch m[pos] {
				case 0x10, 0x11, 0x12, 0x13, 0x14, 0xa0, 0xa1, 0xa2, 0x81, 0x82, 0x83, 0x84, 0x85, 0x86, 0x87:
					switch rng.Intn(4) {
					case 0:
						m[pos+1] = byte(rng.Intn(0x40)) // short form, arbitrary
					case 1:
						m[pos+1] = 0x40 | byte(rng.Intn(16)) // 2 byte form
						m[pos+2] = byte(rng.Intn(256))
					case 2:
						m[pos+1], m[pos+2], m[pos+3], m[pos+4] = 0xcf, 0xff, 0xff, 0xff // maximal
					case 3:
						m[pos+1] = 0 // zero length
					}
					tries = 64
				}
			}
			add("length corruption", m)
		}
	}

	// Splices of well-formed tables with each other and with themselves.
	for i := 0; i < 400; i++ {
		a := corpus[rng.Intn(len(corpus))]
		b := corpus[rng.Intn(len(corpus))]
		cutA := rng.Intn(len(a))
		cutB := rng.Intn(len(b))
		spliced := append(append([]byte(nil), a[:cutA]...), b[cutB:]...)
		if len(spliced) > 4096 {
			spliced = spliced[:4096]
		}
		add("splice", spliced)
	}

	// Arbitrary bytes, and arbitrary bytes drawn from the opcode alphabet.
	for i := 0; i < 600; i++ {
		m := make([]byte, 1+rng.Intn(96))
		rng.Read(m)
		add("random", m)

		alphabet := []byte{0x00, 0x01, 0x06, 0x08, 0x0a, 0x0b, 0x0c, 0x0d, 0x0e, 0x10, 0x11, 0x12, 0x14, 0x5b, 0x80, 0x81, 0x82, 0x86, 0x87, 0x70, 0x72, 0xa0, 0xa2, 0xa4, 'A', 'B', '_', '\\', '^', 0x2e, 0x2f, 0x02, 0x03, 0x04}
		m = make([]byte, 1+rng.Intn(64))
		for j := range m {
			m[j] = alphabet[rng.Intn(len(alphabet))]
		}
		add("random opcodes", m)
	}

	// Deep nesting: parsing must not overflow the stack.
	for _, depth := range []int{64, 512, 4096} {
		var m []byte
		for i := 0; i < depth; i++ {
			m = append(m, 0x12, 0xcf, 0xff, 0xff, 0xff, 0x01) // Package with a huge length
		}
		add("deep packages", m)

		m = nil
		for i := 0; i < depth; i++ {
			m = append(m, 0x70) // Store(Store(Store(...
		}
		add("deep stores", m)
	}

	// Chains of forward declarations of various depths (see c12ForwardChain).
	for _, depth := range []int{1, 2, 3, 4, 5, 6, 7, 8, 9, 10, 12, 16, 24} {
		add("forward chain", c12ForwardChain(depth))
	}

	type tally struct{ total, ok, failed int }
	tallies := make(map[string]*tally)

	done := make(chan struct{})
	var (
		slowest                        time.Duration
		diagBytes, diagWrites, diagLns int
		chainReport                    string
	)
	go func() {
		defer close(done)
		for _, in := range inputs {
			start := time.Now()
			out := c12Parse(in.body, true)
			if d := time.Since(start); d > slowest {
				slowest = d
			}

			diagBytes += out.diag.bytes
			diagWrites += out.diag.writes
			diagLns += out.diag.lines
			if in.kind == "forward chain" && out.panicked == nil {
				verdict := "parsed"
				if out.err != nil {
					verdict = "rejected"
				}
				chainReport += fmt.Sprintf(" [%d bytes: %s after %d passes]", len(in.body), verdict, out.passes)
			}

			tl := tallies[in.kind]
			if tl == nil {
				tl = new(tally)
				tallies[in.kind] = tl
			}
			tl.total++

			if out.panicked != nil {
				t.Errorf("[%s, %d bytes] panic: %v\ninput: % x", in.kind, len(in.body), out.panicked, clip(in.body))
				continue
			}

			switch out.err {
			case nil:
				tl.ok++
				if out.printed == 0 {
					t.Errorf("[%s, %d bytes] parsed tree printed nothing", in.kind, len(in.body))
				}
				// One line per reachable object; strings and names taken from
				// the table may themselves contain line feeds.
				if out.printed < out.nodes {
					t.Errorf("[%s, %d bytes] printed %d lines for %d reachable objects", in.kind, len(in.body), out.printed, out.nodes)
				}
			case errParsingAML:
				tl.failed++
			default:
				t.Errorf("[%s, %d bytes] unexpected error value: %v", in.kind, len(in.body), out.err)
			}

			for _, problem := range out.problems {
				t.Errorf("[%s, %d bytes, err=%v] malformed tree: %s\ninput: % x", in.kind, len(in.body), out.err, problem, clip(in.body))
			}
		}
	}()

	select {
	case <-done:
	case <-time.After(5 * time.Minute):
		t.Fatal("parser did not terminate")
	}

	// The pristine tables must of course still parse.
	if tl := tallies["pristine"]; tl == nil || tl.ok != tl.total {
		t.Errorf("well-formed tables no longer parse: %+v", tl)
	}

	for kind, tl := range tallies {
		t.Logf("%-18s inputs=%4d parsed=%4d rejected=%4d", kind, tl.total, tl.ok, tl.failed)
	}
	t.Logf("%d inputs, slowest single parse %v", len(inputs), slowest)

	// Informational only: none of this is constrained by the property.
	t.Logf("diagnostics: %d bytes in %d lines through %d Write calls", diagBytes, diagLns, diagWrites)
	t.Logf("forward chains:%s", chainReport)
}

func clip(b []byte) []byte {
	if len(b) > 96 {
		return b[:96]
	}
	return b
}
