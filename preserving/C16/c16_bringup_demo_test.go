package hal

// Demonstration for property C16 (device bring-up: ordered probing, first
// console/TTY win, no boot log lost).
//
// Copy to kernel/hal/c16_bringup_demo_test.go and run with
//
//	cd kernel && go test -vet=off -count=1 -run TestC16BringUpDemo ./hal/
//
// The test only relies on what the property states. In particular it does NOT
// assume
//   - how drivers that share a detection order are arranged (it takes the
//     actual probe sequence as the ground truth for "first"),
//   - that DetectHardware re-arranges the list returned by device.DriverList,
//   - how the buffered boot log is chunked when it is handed to the terminal,
//   - whether the terminal is activated before or after it gets the backlog,
//   - the wording of the messages emitted by the hal package (it learns the
//     hal output of a scenario from a twin run of the same scenario).

import (
	"bytes"
	"image/color"
	"io"
	"math/rand"
	"strings"
	"testing"

	"github.com/ProjectSerenity/firefly/kernel"
	"github.com/ProjectSerenity/firefly/kernel/device"
	"github.com/ProjectSerenity/firefly/kernel/device/tty"
	"github.com/ProjectSerenity/firefly/kernel/device/video/console"
	"github.com/ProjectSerenity/firefly/kernel/kfmt"
)

// c16EarlyCap is the number of bytes that the early print buffer can hold
// (kfmt.ringBufferSize - 1).
const c16EarlyCap = 2047

const c16Slots = 20

const (
	c16Plain = iota
	c16Console
	c16TTY
	c16RealVT
)

type c16Spec struct {
	order   device.DetectOrder
	kind    int
	present bool
	fail    bool
}

// c16Run collects what happened while a scenario was executed.
type c16Run struct {
	probeSeq    []int // slot indices in the order their Probe fn was invoked
	initSeq     []int // slot indices in the order DriverInit was invoked
	ttyLenTrace []int // bytes seen by fake terminals at each Probe call / end
	drivers     map[int]device.Driver
	ttys        []*c16FakeTTY
	consoles    []*c16FakeConsole
}

func (r *c16Run) ttyBytes() int {
	var n int
	for _, t := range r.ttys {
		n += t.buf.Len()
	}
	return n
}

type c16Base struct {
	run  *c16Run
	slot int
	name string
	err  *kernel.Error
}

func (d *c16Base) DriverName() string { return d.name }
func (d *c16Base) DriverVersion() (uint16, uint16, uint16) {
	return 1, uint16(d.slot), 7
}
func (d *c16Base) DriverInit(w io.Writer) *kernel.Error {
	d.run.initSeq = append(d.run.initSeq, d.slot)
	if d.slot%3 == 0 {
		kfmt.Fprintf(w, "a\nb%d\n", d.slot)
	} else {
		kfmt.Fprintf(w, "hi %d\n", d.slot)
	}
	return d.err
}

type c16FakeConsole struct {
	c16Base
	w, h  uint32
	cells map[[2]uint32]byte
}

func (c *c16FakeConsole) Dimensions(console.Dimension) (uint32, uint32) { return c.w, c.h }
func (c *c16FakeConsole) DefaultColors() (uint8, uint8)                 { return 7, 0 }
func (c *c16FakeConsole) Fill(x, y, width, height uint32, _, _ uint8) {
	for yy := y; yy < y+height; yy++ {
		for xx := x; xx < x+width; xx++ {
			c.cells[[2]uint32{xx, yy}] = ' '
		}
	}
}
func (c *c16FakeConsole) Scroll(dir console.ScrollDir, lines uint32) {
	if dir != console.ScrollDirUp {
		return
	}
	for y := uint32(1); y+lines <= c.h; y++ {
		for x := uint32(1); x <= c.w; x++ {
			c.cells[[2]uint32{x, y}] = c.cells[[2]uint32{x, y + lines}]
		}
	}
}
func (c *c16FakeConsole) Write(ch byte, _, _ uint8, x, y uint32) {
	c.cells[[2]uint32{x, y}] = ch
}
func (c *c16FakeConsole) Palette() color.Palette            { return nil }
func (c *c16FakeConsole) SetPaletteColor(uint8, color.RGBA) {}
func (c *c16FakeConsole) rows() []string {
	var out []string
	for y := uint32(1); y <= c.h; y++ {
		var sb strings.Builder
		for x := uint32(1); x <= c.w; x++ {
			ch := c.cells[[2]uint32{x, y}]
			if ch == 0 {
				ch = ' '
			}
			sb.WriteByte(ch)
		}
		if row := strings.TrimRight(sb.String(), " "); row != "" {
			out = append(out, row)
		}
	}
	return out
}

type c16FakeTTY struct {
	c16Base
	cons        console.Device
	state       tty.State
	buf         bytes.Buffer
	attachCalls int
	lostBytes   int
}

func (t *c16FakeTTY) Write(p []byte) (int, error) {
	if t.cons == nil {
		// same contract as tty.VT: a detached terminal cannot take output
		t.lostBytes += len(p)
		return 0, io.ErrClosedPipe
	}
	return t.buf.Write(p)
}
func (t *c16FakeTTY) WriteByte(b byte) error {
	_, err := t.Write([]byte{b})
	return err
}
func (t *c16FakeTTY) AttachTo(c console.Device)        { t.cons = c; t.attachCalls++ }
func (t *c16FakeTTY) State() tty.State                 { return t.state }
func (t *c16FakeTTY) SetState(s tty.State)             { t.state = s }
func (t *c16FakeTTY) CursorPosition() (uint32, uint32) { return 1, 1 }
func (t *c16FakeTTY) SetCursorPosition(x, y uint32)    {}

var (
	_ console.Device = (*c16FakeConsole)(nil)
	_ tty.Device     = (*c16FakeTTY)(nil)
	_ device.Driver  = (*c16FakeConsole)(nil)
	_ device.Driver  = (*c16FakeTTY)(nil)
)

type c16PlainDrv struct{ c16Base }

// c16Chunk is one piece of log output together with the way it is emitted.
type c16Chunk struct {
	mode int
	data []byte
}

// c16Emit sends the chunks to the kernel log and returns the text that they
// amount to.
func c16Emit(chunks []c16Chunk) []byte {
	var model bytes.Buffer
	for _, c := range chunks {
		switch c.mode {
		case 0: // Printf, string argument (goes out one byte at a time)
			kfmt.Printf("%s", string(c.data))
			model.Write(c.data)
		case 1: // Printf, byte slice argument (goes out in one piece)
			kfmt.Printf("%s", c.data)
			model.Write(c.data)
		case 2: // direct write to the sink
			kfmt.GetOutputSink().Write(c.data)
			model.Write(c.data)
		case 3: // via a prefix writer, like the hal package does for drivers
			real := kfmt.PrefixWriter{Sink: kfmt.GetOutputSink(), Prefix: []byte("[pfx] ")}
			ref := kfmt.PrefixWriter{Sink: &model, Prefix: []byte("[pfx] ")}
			real.Write(c.data)
			ref.Write(c.data)
		}
	}
	return model.Bytes()
}

func c16MakeText(rng *rand.Rand, tag string, total int) []byte {
	var b bytes.Buffer
	for i := 0; b.Len() < total; i++ {
		b.WriteString(tag + "-")
		b.WriteString(strings.Repeat("0", 6-len(c16Itoa(i))) + c16Itoa(i))
		b.WriteByte(' ')
		b.WriteString(strings.Repeat(string(rune('a'+rng.Intn(26))), rng.Intn(40)))
		b.WriteByte('\n')
	}
	out := b.Bytes()
	if len(out) > total {
		out = out[:total]
	}
	return out
}

func c16Itoa(i int) string {
	if i == 0 {
		return "0"
	}
	var s string
	for ; i > 0; i /= 10 {
		s = string(rune('0'+i%10)) + s
	}
	return s
}

func c16Split(rng *rand.Rand, text []byte) []c16Chunk {
	sizes := []int{1, 2, 3, 5, 7, 31, 64, 79, 80, 81, 200, 700, 2046, 2047, 2048, 2049, 5000}
	var out []c16Chunk
	for len(text) > 0 {
		n := sizes[rng.Intn(len(sizes))]
		if n > len(text) {
			n = len(text)
		}
		out = append(out, c16Chunk{mode: rng.Intn(4), data: text[:n]})
		text = text[n:]
	}
	return out
}

// c16NoPrefix re-routes the chunks that would go through a prefix writer.
func c16NoPrefix(chunks []c16Chunk) []c16Chunk {
	for i := range chunks {
		chunks[i].mode %= 3
	}
	return chunks
}

func c16Suffix(b []byte, max int) []byte {
	if len(b) > max {
		return b[len(b)-max:]
	}
	return b
}

// c16Reset brings hal and kfmt back to their boot-time state.
func c16Reset() {
	devices = managedDevices{}
	var discard bytes.Buffer
	kfmt.SetOutputSink(&discard)
	kfmt.SetOutputSink(nil)
}

// c16Install puts one driver-info per spec into the registry (which cannot be
// shrunk from outside the device package, so its slots are re-used).
func c16Install(specs []c16Spec, run *c16Run) {
	for len(device.DriverList()) < len(specs) {
		device.RegisterDriver(&device.DriverInfo{})
	}

	list := device.DriverList()
	for slot := range list {
		slot := slot
		if slot >= len(specs) {
			list[slot] = &device.DriverInfo{Order: device.DetectOrderLast, Probe: func() device.Driver { return nil }}
			continue
		}

		spec := specs[slot]
		list[slot] = &device.DriverInfo{
			Order: spec.order,
			Probe: func() device.Driver {
				run.probeSeq = append(run.probeSeq, slot)
				run.ttyLenTrace = append(run.ttyLenTrace, run.ttyBytes())
				if !spec.present {
					return nil
				}

				base := c16Base{run: run, slot: slot}
				if spec.fail {
					base.err = &kernel.Error{Module: "c16", Message: "boom-" + c16Itoa(slot) + "-went-wrong"}
				}

				var drv device.Driver
				switch spec.kind {
				case c16Console:
					base.name = "cons" + c16Itoa(slot)
					c := &c16FakeConsole{c16Base: base, w: 80, h: 25, cells: map[[2]uint32]byte{}}
					run.consoles = append(run.consoles, c)
					drv = c
				case c16TTY:
					base.name = "term" + c16Itoa(slot)
					t := &c16FakeTTY{c16Base: base}
					run.ttys = append(run.ttys, t)
					drv = t
				case c16RealVT:
					drv = tty.NewVT(4, 10)
				default:
					base.name = "plain" + c16Itoa(slot)
					drv = &c16PlainDrv{base}
				}
				run.drivers[slot] = drv
				return drv
			},
		}
	}
}

type c16Result struct {
	run        *c16Run
	pre, post  []byte // text logged before / after DetectHardware
	transcript []byte // what the active terminal got (paired) or the ring held (unpaired)
	paired     bool
	activeTTY  tty.Device
	activeCons console.Device
	active     []device.Driver
	sinkIsTTY  bool
}

func c16Execute(specs []c16Spec, pre, post []c16Chunk) *c16Result {
	c16Reset()
	res := &c16Result{run: &c16Run{drivers: map[int]device.Driver{}}}
	c16Install(specs, res.run)

	res.pre = append([]byte(nil), c16Emit(pre)...)
	DetectHardware()
	res.run.ttyLenTrace = append(res.run.ttyLenTrace, res.run.ttyBytes())
	res.post = append([]byte(nil), c16Emit(post)...)

	res.activeTTY = ActiveTTY()
	res.activeCons = devices.activeConsole
	res.active = append([]device.Driver(nil), devices.activeDrivers...)
	res.paired = res.activeTTY != nil && res.activeCons != nil
	res.sinkIsTTY = res.activeTTY != nil && kfmt.GetOutputSink() == io.Writer(res.activeTTY)

	if ft, ok := res.activeTTY.(*c16FakeTTY); ok && res.paired {
		res.transcript = append([]byte(nil), ft.buf.Bytes()...)
	} else if !res.paired {
		var rest bytes.Buffer
		kfmt.SetOutputSink(&rest)
		res.transcript = append([]byte(nil), rest.Bytes()...)
	}

	c16Reset()
	return res
}

// c16CheckStructure checks everything but the log contents.
func c16CheckStructure(t *testing.T, specs []c16Spec, res *c16Result) {
	t.Helper()
	run := res.run

	// every registered driver is probed exactly once, in non-decreasing
	// detection order
	if len(run.probeSeq) != len(specs) {
		t.Fatalf("expected %d probes; got %d", len(specs), len(run.probeSeq))
	}
	seen := map[int]bool{}
	for i, slot := range run.probeSeq {
		if seen[slot] {
			t.Fatalf("slot %d probed twice", slot)
		}
		seen[slot] = true
		if i > 0 && specs[run.probeSeq[i-1]].order > specs[slot].order {
			t.Fatalf("probe %d (order %d) ran after a probe with order %d", i, specs[slot].order, specs[run.probeSeq[i-1]].order)
		}
	}

	// detected drivers are initialised once, in probe order
	var expInit []int
	for _, slot := range run.probeSeq {
		if specs[slot].present {
			expInit = append(expInit, slot)
		}
	}
	if len(expInit) != len(run.initSeq) {
		t.Fatalf("expected %d DriverInit calls; got %d", len(expInit), len(run.initSeq))
	}
	for i := range expInit {
		if expInit[i] != run.initSeq[i] {
			t.Fatalf("DriverInit call %d: expected slot %d; got %d", i, expInit[i], run.initSeq[i])
		}
	}

	// exactly the drivers that initialised are active
	var (
		expActive = map[device.Driver]bool{}
		firstCons console.Device
		firstTTY  tty.Device
	)
	for _, slot := range run.probeSeq {
		if !specs[slot].present || specs[slot].fail {
			continue
		}
		drv := run.drivers[slot]
		expActive[drv] = true
		if c, ok := drv.(console.Device); ok && firstCons == nil {
			firstCons = c
		}
		if tt, ok := drv.(tty.Device); ok && firstTTY == nil {
			firstTTY = tt
		}
	}
	if len(res.active) != len(expActive) {
		t.Fatalf("expected %d active drivers; got %d", len(expActive), len(res.active))
	}
	for _, drv := range res.active {
		if !expActive[drv] {
			t.Fatalf("driver %s is active although it did not initialise", drv.DriverName())
		}
		delete(expActive, drv)
	}

	// only the first console and the first terminal make the active pair
	if res.activeCons != firstCons {
		t.Fatalf("active console is not the first console that initialised")
	}
	if res.activeTTY != firstTTY {
		t.Fatalf("active TTY is not the first TTY that initialised")
	}

	for _, ft := range run.ttys {
		if tty.Device(ft) == res.activeTTY && res.paired {
			if ft.cons != res.activeCons {
				t.Fatalf("active TTY is not attached to the active console")
			}
			if ft.State() != tty.StateActive {
				t.Fatalf("active TTY has not been activated")
			}
			if !res.sinkIsTTY {
				t.Fatalf("kernel log output is not routed to the active TTY")
			}
			if ft.lostBytes != 0 {
				t.Fatalf("%d bytes were sent to the TTY while it was detached", ft.lostBytes)
			}
			continue
		}

		if ft.cons != nil || ft.buf.Len() != 0 || ft.lostBytes != 0 || ft.State() == tty.StateActive {
			t.Fatalf("terminal %s is not half of the active pair but was attached/activated/written to", ft.name)
		}
	}

	if !res.paired && res.sinkIsTTY {
		t.Fatalf("log output routed to a terminal that has no console")
	}
}

// c16CheckFailuresReported checks that each failed driver shows up on the log
// next to its error message.
func c16CheckFailuresReported(t *testing.T, specs []c16Spec, res *c16Result, log []byte) {
	t.Helper()
	lines := strings.Split(string(log), "\n")
	for slot, spec := range specs {
		if !spec.present || !spec.fail {
			continue
		}
		name := res.run.drivers[slot].DriverName()
		msg := "boom-" + c16Itoa(slot) + "-went-wrong"
		var found bool
		for _, line := range lines {
			if strings.Contains(line, name+"(") && strings.Contains(line, msg) {
				found = true
				break
			}
		}
		if !found {
			t.Fatalf("init failure of %s (%s) is not on the log", name, msg)
		}
	}
}

func c16RandomSpecs(rng *rand.Rand, n int) []c16Spec {
	orders := []device.DetectOrder{-128, -128, -127, -5, 0, 0, 0, 0, 3, 3, 127}
	specs := make([]c16Spec, n)
	for i := range specs {
		specs[i] = c16Spec{
			order:   orders[rng.Intn(len(orders))],
			kind:    []int{c16Plain, c16Plain, c16Console, c16Console, c16TTY, c16TTY}[rng.Intn(6)],
			present: rng.Intn(100) < 85,
			fail:    rng.Intn(100) < 25,
		}
	}
	return specs
}

func TestC16BringUpDemo(t *testing.T) {
	orig := append(device.DriverInfoList(nil), device.DriverList()...)
	defer func() {
		// put the real drivers back and neutralise the extra slots
		list := device.DriverList()
		for i := range list {
			if i < len(orig) {
				list[i] = orig[i]
			} else {
				list[i] = &device.DriverInfo{Order: device.DetectOrderLast, Probe: func() device.Driver { return nil }}
			}
		}
		c16Reset()
	}()

	rng := rand.New(rand.NewSource(16))

	type scen struct {
		name  string
		specs []c16Spec
	}
	var scens []scen

	// hand-made scenarios
	all := func(order device.DetectOrder, kinds ...int) []c16Spec {
		var s []c16Spec
		for _, k := range kinds {
			s = append(s, c16Spec{order: order, kind: k, present: true})
		}
		return s
	}
	scens = append(scens,
		scen{"tty first", all(0, c16Plain, c16TTY, c16Plain, c16Console, c16Console, c16TTY)},
		scen{"console first", all(0, c16Console, c16Plain, c16TTY, c16TTY, c16Console)},
		scen{"no tty", all(3, c16Console, c16Plain, c16Console)},
		scen{"no console", all(3, c16TTY, c16Plain, c16TTY)},
		scen{"many ties", all(0,
			c16Plain, c16Console, c16TTY, c16Plain, c16Console, c16TTY, c16Plain,
			c16Console, c16TTY, c16Plain, c16Console, c16TTY, c16Plain, c16Console,
			c16TTY, c16Plain, c16Console, c16TTY, c16Plain, c16Console)},
		scen{"reverse registration", []c16Spec{
			{order: 127, kind: c16Console, present: true},
			{order: 3, kind: c16Console, present: true, fail: true},
			{order: 0, kind: c16TTY, present: true},
			{order: 0, kind: c16TTY, present: true, fail: true},
			{order: -127, kind: c16Console, present: false},
			{order: -128, kind: c16TTY, present: true, fail: true},
		}},
		scen{"everything fails", []c16Spec{
			{order: 0, kind: c16Console, present: true, fail: true},
			{order: -128, kind: c16TTY, present: true, fail: true},
			{order: 127, kind: c16Plain, present: true, fail: true},
		}},
	)
	for i := 0; i < 60; i++ {
		scens = append(scens, scen{"random-" + c16Itoa(i), c16RandomSpecs(rng, c16Slots)})
	}

	preSizes := []int{0, 1, 40, 500, 1500, 2046, 2047, 2048, 2100, 4096, 9000}

	for _, sc := range scens {
		specs := make([]c16Spec, c16Slots)
		copy(specs, sc.specs)
		for i := len(sc.specs); i < c16Slots; i++ {
			// unused slots: hardware that is not there
			specs[i] = c16Spec{order: device.DetectOrder(rng.Intn(7) - 3), present: false}
		}

		// Twin run without any other log traffic: learn what hal itself
		// logs for this scenario and how much of it pre-dates the moment
		// the terminal came up.
		twin := c16Execute(specs, nil, nil)
		c16CheckStructure(t, specs, twin)
		halLog := twin.transcript
		if len(halLog) >= c16EarlyCap {
			t.Fatalf("[%s] scenario too chatty for the twin run (%d bytes)", sc.name, len(halLog))
		}
		c16CheckFailuresReported(t, specs, twin, halLog)

		halPre := len(halLog)
		if twin.paired {
			halPre = 0
			for _, n := range twin.run.ttyLenTrace {
				if n != 0 {
					halPre = n
					break
				}
			}
			if halPre == 0 {
				t.Fatalf("[%s] the terminal came up but got nothing of what was logged before", sc.name)
			}
		}

		for round := 0; round < 4; round++ {
			preText := c16MakeText(rng, "pre", preSizes[rng.Intn(len(preSizes))])
			postText := c16MakeText(rng, "post", []int{0, 10, 300, 3000}[rng.Intn(4)])
			res := c16Execute(specs, c16Split(rng, preText), c16Split(rng, postText))
			c16CheckStructure(t, specs, res)

			if len(res.run.probeSeq) != len(twin.run.probeSeq) {
				t.Fatalf("[%s] probe sequence length changed between runs", sc.name)
			}

			var exp []byte
			if res.paired {
				before := append(append([]byte(nil), res.pre...), halLog[:halPre]...)
				exp = append(exp, c16Suffix(before, c16EarlyCap)...)
				exp = append(exp, halLog[halPre:]...)
				exp = append(exp, res.post...)
			} else {
				// nothing came up: everything is still in the early
				// buffer and can be collected later
				everything := append(append(append([]byte(nil), res.pre...), halLog...), res.post...)
				exp = c16Suffix(everything, c16EarlyCap)
			}

			if !bytes.Equal(exp, res.transcript) {
				t.Fatalf("[%s round %d] log mismatch (paired=%t, pre=%d bytes, post=%d bytes)\nexpected %d bytes ending in %q\ngot      %d bytes ending in %q",
					sc.name, round, res.paired, len(res.pre), len(res.post),
					len(exp), c16Suffix(exp, 120), len(res.transcript), c16Suffix(res.transcript, 120))
			}
		}
	}

	// The real virtual terminal on top of a recording console, in both
	// arrival orders.
	for _, ttyFirst := range []bool{true, false} {
		specs := make([]c16Spec, c16Slots)
		for i := range specs {
			specs[i] = c16Spec{order: 5, present: false}
		}
		if ttyFirst {
			specs[0] = c16Spec{order: -128, kind: c16RealVT, present: true}
			specs[1] = c16Spec{order: -127, kind: c16Console, present: true}
		} else {
			specs[0] = c16Spec{order: 0, kind: c16RealVT, present: true}
			specs[1] = c16Spec{order: -127, kind: c16Console, present: true}
		}
		specs[2] = c16Spec{order: -127, kind: c16Console, present: true}
		specs[3] = c16Spec{order: 6, kind: c16RealVT, present: true}

		pre := []byte("alpha line\nbeta line\ngamma line\n")
		post := []byte("delta line\nepsilon line\n")
		c16Reset()
		run := &c16Run{drivers: map[int]device.Driver{}}
		c16Install(specs, run)
		c16Emit(c16NoPrefix(c16Split(rng, pre)))
		DetectHardware()
		c16Emit(c16NoPrefix(c16Split(rng, post)))

		vt, ok := ActiveTTY().(*tty.VT)
		if !ok || device.Driver(vt) != run.drivers[0] {
			t.Fatalf("[vt, ttyFirst=%t] expected the first VT to be the active TTY", ttyFirst)
		}
		if vt.State() != tty.StateActive || kfmt.GetOutputSink() != io.Writer(vt) {
			t.Fatalf("[vt, ttyFirst=%t] VT not active / not the log sink", ttyFirst)
		}
		if len(run.consoles) != 2 {
			t.Fatalf("[vt] expected 2 consoles; got %d", len(run.consoles))
		}
		var activeC, otherC *c16FakeConsole
		for _, c := range run.consoles {
			if console.Device(c) == devices.activeConsole {
				activeC = c
			} else {
				otherC = c
			}
		}
		if activeC == nil || device.Driver(activeC) != run.drivers[run.firstConsoleSlot(specs)] {
			t.Fatalf("[vt, ttyFirst=%t] active console is not the first console that was probed", ttyFirst)
		}
		if len(otherC.rows()) != 0 {
			t.Fatalf("[vt] the losing console was drawn on")
		}

		rows := activeC.rows()
		want := []string{"alpha line", "beta line", "gamma line"}
		tail := []string{"delta line", "epsilon line"}
		if len(rows) < len(want)+len(tail) {
			t.Fatalf("[vt, ttyFirst=%t] screen too empty: %q", ttyFirst, rows)
		}
		for i, w := range want {
			if rows[i] != w {
				t.Fatalf("[vt, ttyFirst=%t] row %d: expected %q; got %q", ttyFirst, i, w, rows[i])
			}
		}
		for i, w := range tail {
			if got := rows[len(rows)-len(tail)+i]; got != w {
				t.Fatalf("[vt, ttyFirst=%t] tail row %d: expected %q; got %q", ttyFirst, i, w, got)
			}
		}
		count := map[string]int{}
		for _, r := range rows {
			count[r]++
		}
		for _, w := range append(want, tail...) {
			if count[w] != 1 {
				t.Fatalf("[vt, ttyFirst=%t] %q shown %d times", ttyFirst, w, count[w])
			}
		}
		c16Reset()
	}
}

// firstConsoleSlot returns the slot of the first console in probe order.
func (r *c16Run) firstConsoleSlot(specs []c16Spec) int {
	for _, slot := range r.probeSeq {
		if specs[slot].kind == c16Console && specs[slot].present && !specs[slot].fail {
			return slot
		}
	}
	return -1
}
