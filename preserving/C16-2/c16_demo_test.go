package hal

// Demonstration for property C16 (device bring-up: ordered probing, first
// console/TTY win, no boot log lost).
//
// Copy to kernel/hal/c16_demo_test.go and run with:
//
//	cd kernel && go test -vet=off -count=1 -run TestC16Demo ./hal/
//
// The checks only rely on what the property states. In particular they do not
// depend on the wording of the lines that the hal package logs, on how the
// early log is chunked when it is handed to the terminal, on the order of
// AttachTo/SetState/SetOutputSink or on the internal layout of the early
// buffer.

import (
	"bytes"
	"fmt"
	"image/color"
	"io"
	"math/rand"
	"regexp"
	"strings"
	"testing"

	"github.com/ProjectSerenity/firefly/kernel"
	"github.com/ProjectSerenity/firefly/kernel/device"
	"github.com/ProjectSerenity/firefly/kernel/device/tty"
	"github.com/ProjectSerenity/firefly/kernel/device/video/console"
	"github.com/ProjectSerenity/firefly/kernel/kfmt"
)

// ---------------------------------------------------------------------------
// mocks

type demoKind int

const (
	demoOther demoKind = iota
	demoConsole
	demoTTY
)

type demoTrace struct {
	probed []*demoSpec // in probe order (including nil-returning probes)
}

type demoSpec struct {
	id       int
	kind     demoKind
	order    device.DetectOrder
	probeNil bool
	initFail bool
	trace    *demoTrace
	drv      device.Driver
	probes   int
}

func (s *demoSpec) token() string  { return fmt.Sprintf("<d%05d>", s.id) }
func (s *demoSpec) errMsg() string { return fmt.Sprintf("E%05dE", s.id) }
func (s *demoSpec) name() string   { return fmt.Sprintf("drv%05d", s.id) }

type demoBase struct {
	spec *demoSpec
}

func (b *demoBase) DriverName() string                      { return b.spec.name() }
func (b *demoBase) DriverVersion() (uint16, uint16, uint16) { return 1, 2, 3 }
func (b *demoBase) DriverInit(w io.Writer) *kernel.Error {
	kfmt.Fprintf(w, "%s\n", b.spec.token())
	if b.spec.initFail {
		return &kernel.Error{Module: "demo", Message: b.spec.errMsg()}
	}
	return nil
}

type demoOtherDrv struct{ demoBase }

// demoCons is a console with a character grid.
type demoCons struct {
	demoBase
	w, h uint32
	grid [][]byte
}

func newDemoCons(spec *demoSpec) *demoCons {
	c := &demoCons{demoBase: demoBase{spec}, w: 80, h: 25}
	c.grid = make([][]byte, c.h)
	for y := range c.grid {
		c.grid[y] = bytes.Repeat([]byte{' '}, int(c.w))
	}
	return c
}

func (c *demoCons) Dimensions(d console.Dimension) (uint32, uint32) {
	if d == console.Characters {
		return c.w, c.h
	}
	return c.w * 8, c.h * 16
}
func (c *demoCons) DefaultColors() (uint8, uint8) { return 7, 0 }
func (c *demoCons) Fill(x, y, width, height uint32, _, _ uint8) {
	for yy := y; yy < y+height && yy <= c.h; yy++ {
		for xx := x; xx < x+width && xx <= c.w; xx++ {
			c.grid[yy-1][xx-1] = ' '
		}
	}
}
func (c *demoCons) Scroll(dir console.ScrollDir, lines uint32) {
	for ; lines > 0; lines-- {
		if dir == console.ScrollDirUp {
			first := c.grid[0]
			copy(c.grid, c.grid[1:])
			c.grid[c.h-1] = first
		} else {
			last := c.grid[c.h-1]
			copy(c.grid[1:], c.grid)
			c.grid[0] = last
		}
	}
}
func (c *demoCons) Write(ch byte, _, _ uint8, x, y uint32) {
	if x >= 1 && x <= c.w && y >= 1 && y <= c.h {
		c.grid[y-1][x-1] = ch
	}
}
func (c *demoCons) Palette() color.Palette            { return nil }
func (c *demoCons) SetPaletteColor(uint8, color.RGBA) {}
func (c *demoCons) rows() []string {
	var out []string
	for _, r := range c.grid {
		out = append(out, strings.TrimRight(string(r), " "))
	}
	return out
}

// demoTerm is a terminal that records everything it receives.
type demoTerm struct {
	demoBase
	rec      bytes.Buffer
	attached console.Device
	attaches int
	state    tty.State
	x, y     uint32
}

func (t *demoTerm) Write(p []byte) (int, error) { t.rec.Write(p); return len(p), nil }
func (t *demoTerm) WriteByte(b byte) error      { t.rec.WriteByte(b); return nil }
func (t *demoTerm) AttachTo(c console.Device)   { t.attached = c; t.attaches++ }
func (t *demoTerm) State() tty.State            { return t.state }
func (t *demoTerm) SetState(s tty.State)        { t.state = s }
func (t *demoTerm) CursorPosition() (uint32, uint32) {
	return t.x, t.y
}
func (t *demoTerm) SetCursorPosition(x, y uint32) { t.x, t.y = x, y }

// demoVT wraps the real VT terminal so that it can fail / log like the other
// mocks do.
type demoVT struct {
	*tty.VT
	spec *demoSpec
}

func (v *demoVT) DriverName() string { return v.spec.name() }
func (v *demoVT) DriverInit(w io.Writer) *kernel.Error {
	kfmt.Fprintf(w, "%s\n", v.spec.token())
	return nil
}

func (s *demoSpec) info() *device.DriverInfo {
	return &device.DriverInfo{
		Order: s.order,
		Probe: func() device.Driver {
			s.probes++
			s.trace.probed = append(s.trace.probed, s)
			if s.probeNil {
				return nil
			}
			if s.drv == nil {
				switch s.kind {
				case demoConsole:
					s.drv = newDemoCons(s)
				case demoTTY:
					s.drv = &demoTerm{demoBase: demoBase{s}}
				default:
					s.drv = &demoOtherDrv{demoBase{s}}
				}
			}
			return s.drv
		},
	}
}

// ---------------------------------------------------------------------------
// helpers

func demoNilProbe() device.Driver { return nil }

// demoReset puts the hal and kfmt packages back to their boot-time state and
// disarms every driver that is registered so far (the real ones included).
func demoReset() {
	devices = managedDevices{}
	var sink bytes.Buffer
	kfmt.SetOutputSink(&sink) // empties the early buffer
	kfmt.SetOutputSink(nil)
	for _, info := range device.DriverList() {
		info.Probe = demoNilProbe
	}
}

// demoCapacity measures how much the early buffer retains.
func demoCapacity() int {
	demoReset()
	chunk := bytes.Repeat([]byte{'x'}, 97)
	for i := 0; i < 200; i++ {
		kfmt.Printf("%s", chunk)
	}
	var sink bytes.Buffer
	kfmt.SetOutputSink(&sink)
	kfmt.SetOutputSink(nil)
	return sink.Len()
}

// demoEmit logs data in random chunks using a random mix of the ways in which
// kernel code produces log output.
func demoEmit(rng *rand.Rand, data []byte, maxChunk int) {
	for len(data) > 0 {
		n := 1 + rng.Intn(maxChunk)
		if rng.Intn(8) == 0 {
			n = 1 + rng.Intn(4)
		}
		if n > len(data) {
			n = len(data)
		}
		chunk := data[:n]
		data = data[n:]
		switch rng.Intn(3) {
		case 0:
			kfmt.Printf("%s", chunk) // one Write call with the whole chunk
		case 1:
			kfmt.Printf(string(chunk)) // byte by byte (tokens contain no '%')
		default:
			kfmt.Fprintf(kfmt.GetOutputSink(), "%s", chunk)
		}
	}
}

func demoTokens(prefix byte, start, count int) (string, []string) {
	var sb strings.Builder
	var toks []string
	for i := 0; i < count; i++ {
		tok := fmt.Sprintf("<%c%05d>", prefix, start+i)
		toks = append(toks, tok)
		sb.WriteString(tok)
		if (i+1)%9 == 0 {
			sb.WriteByte('\n')
		}
	}
	return sb.String(), toks
}

var demoTokenRe = regexp.MustCompile(`<[pdq][0-9]{5}>`)

// ---------------------------------------------------------------------------
// tests

func TestC16Demo(t *testing.T) {
	defer demoReset()

	capacity := demoCapacity()
	if capacity < 1024 {
		t.Fatalf("implausible early buffer capacity %d", capacity)
	}

	t.Run("early log replay", func(t *testing.T) { demoReplay(t, capacity) })
	t.Run("bring-up", func(t *testing.T) { demoBringUp(t, capacity) })
	t.Run("real VT", demoRealVT)
}

// demoReplay exercises kfmt on its own: whatever is logged while there is no
// sink shows up on the first sink exactly once, in order, ahead of later
// output, oldest dropped first.
func demoReplay(t *testing.T, capacity int) {
	rng := rand.New(rand.NewSource(16))
	sizes := []int{0, 1, 2, 127, 128, 129, 255, 256, 257, 1000, capacity - 2, capacity - 1, capacity,
		capacity + 1, capacity + 2, 2*capacity - 1, 2 * capacity, 2*capacity + 1, 3*capacity + 17, 9999}
	for round := 0; round < 400; round++ {
		demoReset()
		size := sizes[round%len(sizes)]
		if round >= 2*len(sizes) {
			size = rng.Intn(3 * capacity)
		}
		maxChunk := []int{1, 7, 64, 300, 2 * capacity, 4 * capacity}[rng.Intn(6)]

		var model []byte
		// optionally pre-position the buffer by a first log/flush cycle
		if rng.Intn(2) == 0 {
			pre, _ := demoTokens('q', 0, rng.Intn(400))
			demoEmit(rng, []byte(pre), 300)
			var junk bytes.Buffer
			kfmt.SetOutputSink(&junk)
			kfmt.SetOutputSink(nil)
			if want := pre; len(want) <= capacity && junk.String() != want {
				t.Fatalf("round %d: pre-positioning flush mismatch", round)
			}
		}

		text, _ := demoTokens('p', 0, size/8+1)
		data := []byte(text)[:size]
		demoEmit(rng, data, maxChunk)
		model = append(model, data...)
		if len(model) > capacity {
			model = model[len(model)-capacity:]
		}

		term := &demoTerm{}
		kfmt.SetOutputSink(term)
		if kfmt.GetOutputSink() != io.Writer(term) {
			t.Fatalf("round %d: sink not switched", round)
		}
		if got := term.rec.Bytes(); !bytes.Equal(got, model) {
			t.Fatalf("round %d (size %d, maxChunk %d): replay mismatch: got %d bytes, want %d bytes", round, size, maxChunk, len(got), len(model))
		}

		later, _ := demoTokens('q', 0, rng.Intn(50))
		demoEmit(rng, []byte(later), 64)
		model = append(model, later...)
		if got := term.rec.Bytes(); !bytes.Equal(got, model) {
			t.Fatalf("round %d: later output mismatch", round)
		}

		// A second sink must not get the old data again.
		second := &demoTerm{}
		kfmt.SetOutputSink(second)
		kfmt.Printf("tail")
		if got := second.rec.String(); got != "tail" {
			t.Fatalf("round %d: second sink got %q", round, got)
		}
	}
}

// demoBringUp runs DetectHardware over random driver sets.
func demoBringUp(t *testing.T, capacity int) {
	rng := rand.New(rand.NewSource(1616))
	nextID := 0
	orders := []device.DetectOrder{device.DetectOrderEarly, device.DetectOrderBeforeACPI, device.DetectOrderACPI, device.DetectOrderLast}

	for round := 0; round < 300; round++ {
		demoReset()
		trace := &demoTrace{}

		// --- build the driver set
		n := rng.Intn(15)
		var specs []*demoSpec
		for i := 0; i < n; i++ {
			s := &demoSpec{id: nextID, trace: trace}
			nextID++
			switch r := rng.Intn(10); {
			case r < 4:
				s.kind = demoConsole
			case r < 8:
				s.kind = demoTTY
			}
			if rng.Intn(2) == 0 {
				s.order = orders[rng.Intn(len(orders))]
			} else {
				s.order = device.DetectOrder(rng.Intn(256) - 128)
			}
			s.probeNil = rng.Intn(7) == 0
			s.initFail = rng.Intn(4) == 0
			specs = append(specs, s)
		}
		for _, i := range rng.Perm(n) { // registration permutation
			device.RegisterDriver(specs[i].info())
		}

		// --- log before
		var preCount int
		switch rng.Intn(5) {
		case 0:
			preCount = 0
		case 1:
			preCount = rng.Intn(20)
		case 2:
			preCount = 100 + rng.Intn(100)
		case 3:
			preCount = capacity/8 - 40 + rng.Intn(80)
		default:
			preCount = 300 + rng.Intn(600)
		}
		preText, preToks := demoTokens('p', 0, preCount)
		demoEmit(rng, []byte(preText), []int{1, 16, 300, 3 * capacity}[rng.Intn(4)])

		// --- bring-up
		DetectHardware()

		// --- log after
		postText, postToks := demoTokens('q', 0, 1+rng.Intn(40))
		demoEmit(rng, []byte(postText), 100)

		// --- probing order
		if len(trace.probed) != n {
			t.Fatalf("round %d: %d probes for %d drivers", round, len(trace.probed), n)
		}
		for i, s := range trace.probed {
			if s.probes != 1 {
				t.Fatalf("round %d: driver %d probed %d times", round, s.id, s.probes)
			}
			if i > 0 && trace.probed[i-1].order > s.order {
				t.Fatalf("round %d: probe order not non-decreasing: %d before %d", round, trace.probed[i-1].order, s.order)
			}
		}

		// --- who wins
		var expCons *demoCons
		var expTerm *demoTerm
		var completing *demoSpec // the driver whose init completed the pair
		var expToks []string
		expToks = append(expToks, preToks...)
		for _, s := range trace.probed {
			if s.probeNil {
				continue
			}
			expToks = append(expToks, s.token())
			if s.initFail {
				continue
			}
			before := expCons != nil && expTerm != nil
			if c, ok := s.drv.(*demoCons); ok && expCons == nil {
				expCons = c
			}
			if tt, ok := s.drv.(*demoTerm); ok && expTerm == nil {
				expTerm = tt
			}
			if !before && expCons != nil && expTerm != nil {
				completing = s
			}
		}
		expToks = append(expToks, postToks...)

		if expCons == nil {
			if devices.activeConsole != nil {
				t.Fatalf("round %d: unexpected active console", round)
			}
		} else if devices.activeConsole != console.Device(expCons) {
			t.Fatalf("round %d: wrong active console", round)
		}
		if expTerm == nil {
			if ActiveTTY() != nil {
				t.Fatalf("round %d: unexpected active tty", round)
			}
		} else if ActiveTTY() != tty.Device(expTerm) {
			t.Fatalf("round %d: wrong active tty", round)
		}

		// --- failed drivers never become active; losers are left alone
		for _, s := range specs {
			if s.drv == nil {
				continue
			}
			if s.initFail {
				for _, active := range devices.activeDrivers {
					if active == s.drv {
						t.Fatalf("round %d: failed driver %d is active", round, s.id)
					}
				}
			}
			if tt, ok := s.drv.(*demoTerm); ok && tt != expTerm {
				if tt.rec.Len() != 0 || tt.attached != nil || tt.state == tty.StateActive {
					t.Fatalf("round %d: terminal %d is not the active one but was used", round, s.id)
				}
			}
		}

		// --- the log
		var log []byte
		linked := expCons != nil && expTerm != nil
		if linked {
			if expTerm.attached != console.Device(expCons) {
				t.Fatalf("round %d: terminal not attached to the active console", round)
			}
			if expTerm.State() != tty.StateActive {
				t.Fatalf("round %d: terminal not active", round)
			}
			if kfmt.GetOutputSink() != io.Writer(expTerm) {
				t.Fatalf("round %d: terminal does not receive the kernel log", round)
			}
			log = expTerm.rec.Bytes()
		} else {
			// Nothing is promised; just collect what there is.
			var sink bytes.Buffer
			kfmt.SetOutputSink(&sink)
			log = sink.Bytes()
		}

		// Upper bound for what was logged before the terminal came up: our
		// own output plus a generous allowance per driver for the hal lines.
		mayOverflow := len(preText)+150*(n+1) > capacity
		if !linked {
			mayOverflow = len(preText)+len(postText)+150*(n+1) > capacity
		}

		got := demoTokenRe.FindAllString(string(log), -1)
		if !linked && mayOverflow {
			continue
		}

		// Tokens: a gap-free tail of the expected sequence, each exactly once.
		if len(got) > len(expToks) {
			t.Fatalf("round %d: %d tokens on the log, expected at most %d", round, len(got), len(expToks))
		}
		tail := expToks[len(expToks)-len(got):]
		for i := range got {
			if got[i] != tail[i] {
				t.Fatalf("round %d: token %d on the log is %s, expected %s", round, i, got[i], tail[i])
			}
		}
		if !mayOverflow && len(got) != len(expToks) {
			t.Fatalf("round %d: %d of %d tokens lost although the early buffer cannot have overflowed", round, len(expToks)-len(got), len(expToks))
		}
		if linked {
			// everything from the completing driver on can never be lost
			idx := bytes.Index(log, []byte(completing.token()))
			if idx < 0 {
				t.Fatalf("round %d: init output of the completing driver lost", round)
			}
			end := idx + len(completing.token())
			if len(got) != len(expToks) {
				// Something was dropped, so the early buffer must have
				// been full when the terminal came up.
				if end > capacity || end < capacity-200 {
					t.Fatalf("round %d: tokens dropped but only about %d bytes (capacity %d) were kept", round, end, capacity)
				}
			}
			for _, tok := range postToks {
				if bytes.Count(log, []byte(tok)) != 1 {
					t.Fatalf("round %d: later output %s not exactly once on the terminal", round, tok)
				}
			}
		}

		// Failed drivers are reported (checked where nothing can have been
		// dropped): the error shows up once, after the driver's own output and
		// before the next driver's.
		if !mayOverflow {
			for i, s := range trace.probed {
				if s.probeNil || !s.initFail {
					continue
				}
				if c := bytes.Count(log, []byte(s.errMsg())); c != 1 {
					t.Fatalf("round %d: failure of driver %d reported %d times", round, s.id, c)
				}
				at := bytes.Index(log, []byte(s.errMsg()))
				if own := bytes.Index(log, []byte(s.token())); own < 0 || own > at {
					t.Fatalf("round %d: failure of driver %d reported before its own output", round, s.id)
				}
				for _, next := range trace.probed[i+1:] {
					if next.probeNil {
						continue
					}
					if nx := bytes.Index(log, []byte(next.token())); nx >= 0 && nx < at {
						t.Fatalf("round %d: failure of driver %d reported after the next driver's output", round, s.id)
					}
					break
				}
			}
		}
	}
}

// demoRealVT links the real VT terminal to a grid console in both orders and
// looks at what ends up on the screen.
func demoRealVT(t *testing.T) {
	for _, ttyFirst := range []bool{true, false} {
		demoReset()
		trace := &demoTrace{}
		consSpec := &demoSpec{id: 90001, kind: demoConsole, trace: trace, order: device.DetectOrderEarly}
		vtSpec := &demoSpec{id: 90002, kind: demoTTY, trace: trace, order: device.DetectOrderEarly}
		vt := &demoVT{VT: tty.NewVT(4, 10), spec: vtSpec}
		vtSpec.drv = vt
		if ttyFirst {
			vtSpec.order, consSpec.order = -5, 5
		} else {
			vtSpec.order, consSpec.order = 5, -5
		}
		// register in the "wrong" order
		if ttyFirst {
			device.RegisterDriver(consSpec.info())
			device.RegisterDriver(vtSpec.info())
		} else {
			device.RegisterDriver(vtSpec.info())
			device.RegisterDriver(consSpec.info())
		}

		var want []string
		for i := 1; i <= 40; i++ { // more lines than the console has rows
			kfmt.Printf("early line %3d.\n", i)
			want = append(want, fmt.Sprintf("early line %3d.", i))
		}
		DetectHardware()
		kfmt.Printf("late line.\n")
		if ttyFirst {
			want = append(want, vtSpec.token(), consSpec.token(), "late line.")
		} else {
			want = append(want, consSpec.token(), vtSpec.token(), "late line.")
		}

		cons := consSpec.drv.(*demoCons)
		if devices.activeConsole != console.Device(cons) || ActiveTTY() != tty.Device(vt) {
			t.Fatalf("ttyFirst=%t: wrong active pair", ttyFirst)
		}
		if vt.State() != tty.StateActive {
			t.Fatalf("ttyFirst=%t: VT not active", ttyFirst)
		}
		if kfmt.GetOutputSink() != io.Writer(vt) {
			t.Fatalf("ttyFirst=%t: VT does not receive the log", ttyFirst)
		}

		var screen []string
		for _, r := range cons.rows() {
			if r != "" {
				screen = append(screen, r)
			}
		}
		// The markers on the screen must be a gap-free tail of the expected
		// sequence, each of them exactly once.
		markerRe := regexp.MustCompile(`early line +[0-9]+\.|late line\.|<d[0-9]{5}>`)
		got := markerRe.FindAllString(strings.Join(screen, "\n"), -1)
		if len(got) < 10 || len(got) > len(want) {
			t.Fatalf("ttyFirst=%t: %d markers on the screen:\n%s", ttyFirst, len(got), strings.Join(screen, "\n"))
		}
		tail := want[len(want)-len(got):]
		for i := range got {
			if got[i] != tail[i] {
				t.Fatalf("ttyFirst=%t: marker %d on the screen is %q, expected %q:\n%s", ttyFirst, i, got[i], tail[i], strings.Join(screen, "\n"))
			}
		}
		if last := screen[len(screen)-1]; !strings.Contains(last, "late line.") {
			t.Fatalf("ttyFirst=%t: last line on the screen is %q", ttyFirst, last)
		}
	}
}
