package multiboot

// Demonstration for property C10 ("multiboot information is decoded exactly
// and never read past its end").
//
// Copy to kernel/multiboot/keep_c10_demo_test.go and run with
//   cd kernel && go test -vet=off -count=1 -run TestKeepC10Demo ./multiboot/
//
// Every block (and every section-name string table) is placed so that its
// last byte is the last byte of a readable page that is directly followed by
// a PROT_NONE page; any read past the end crashes the test binary.

import (
	"encoding/binary"
	"fmt"
	"reflect"
	"syscall"
	"testing"
	"unsafe"
)

type c10Region struct {
	addr, length uint64
	typ          uint32
}

type c10Section struct {
	name        string
	flags       uint64
	addr, size  uint64
	nameOffset  uint32 // filled in by c10StrTab
	shareNameOf int    // if > 0, re-use the name offset of section shareNameOf-1
}

type c10Visited struct {
	Name  string
	Flags ElfSectionFlag
	Addr  uintptr
	Size  uint64
}

// c10Guarded returns the address of a copy of data whose last byte is directly
// followed by an inaccessible page. len(data) must be a multiple of align.
func c10Guarded(t *testing.T, data []byte) uintptr {
	t.Helper()
	pageSize := syscall.Getpagesize()
	pages := (len(data)+pageSize-1)/pageSize + 1
	mem, err := syscall.Mmap(-1, 0, (pages+1)*pageSize, syscall.PROT_READ|syscall.PROT_WRITE, syscall.MAP_ANON|syscall.MAP_PRIVATE)
	if err != nil {
		t.Fatalf("mmap: %v", err)
	}
	if err = syscall.Mprotect(mem[pages*pageSize:], syscall.PROT_NONE); err != nil {
		t.Fatalf("mprotect: %v", err)
	}
	t.Cleanup(func() { _ = syscall.Munmap(mem) })

	start := pages*pageSize - len(data)
	copy(mem[start:], data)
	return uintptr(unsafe.Pointer(&mem[start]))
}

func c10Tag(typ uint32, payload []byte, extraPad int) []byte {
	out := make([]byte, 8, 8+len(payload)+8+8*extraPad)
	binary.LittleEndian.PutUint32(out[0:], typ)
	binary.LittleEndian.PutUint32(out[4:], uint32(8+len(payload)))
	out = append(out, payload...)
	for len(out)%8 != 0 {
		out = append(out, 0xEE) // padding is never looked at
	}
	return out
}

func c10Block(tags ...[]byte) []byte {
	out := make([]byte, 8)
	for _, tag := range tags {
		out = append(out, tag...)
	}
	out = append(out, 0, 0, 0, 0, 8, 0, 0, 0) // end tag
	binary.LittleEndian.PutUint32(out[0:], uint32(len(out)))
	return out
}

func c10MmapTag(entrySize int, regions []c10Region) []byte {
	payload := make([]byte, 8, 8+entrySize*len(regions))
	binary.LittleEndian.PutUint32(payload[0:], uint32(entrySize))
	binary.LittleEndian.PutUint32(payload[4:], 0)
	for _, r := range regions {
		e := make([]byte, entrySize)
		for i := range e {
			e[i] = 0xA5 // bytes after the type field are not part of the entry
		}
		binary.LittleEndian.PutUint64(e[0:], r.addr)
		binary.LittleEndian.PutUint64(e[8:], r.length)
		binary.LittleEndian.PutUint32(e[16:], r.typ)
		payload = append(payload, e...)
	}
	return c10Tag(uint32(tagMemoryMap), payload, 0)
}

func c10FbTag(addr uint64, pitch, w, h uint32, bpp, typ uint8, color []byte) []byte {
	payload := make([]byte, 24)
	binary.LittleEndian.PutUint64(payload[0:], addr)
	binary.LittleEndian.PutUint32(payload[8:], pitch)
	binary.LittleEndian.PutUint32(payload[12:], w)
	binary.LittleEndian.PutUint32(payload[16:], h)
	payload[20] = bpp
	payload[21] = typ
	payload = append(payload, color...)
	return c10Tag(uint32(tagFramebufferInfo), payload, 0)
}

func c10CmdTag(text string) []byte {
	return c10Tag(uint32(tagBootCmdLine), append([]byte(text), 0), 0)
}

// c10ElfTag builds an ELF symbols tag; the string table section header is
// placed at index strtabIndex and points to strTabAddr.
func c10ElfTag(sections []c10Section, strtabIndex int, strTabAddr uintptr, strTabLen int) []byte {
	payload := make([]byte, 12)
	binary.LittleEndian.PutUint32(payload[0:], uint32(len(sections)+1))
	binary.LittleEndian.PutUint32(payload[4:], 64)
	binary.LittleEndian.PutUint32(payload[8:], uint32(strtabIndex))

	put := func(nameIdx uint32, secType uint32, flags, addr, size uint64) {
		e := make([]byte, 64)
		binary.LittleEndian.PutUint32(e[0:], nameIdx)
		binary.LittleEndian.PutUint32(e[4:], secType)
		binary.LittleEndian.PutUint64(e[8:], flags)
		binary.LittleEndian.PutUint64(e[16:], addr)
		binary.LittleEndian.PutUint64(e[24:], 0x1000)
		binary.LittleEndian.PutUint64(e[32:], size)
		payload = append(payload, e...)
	}

	for i := 0; i <= len(sections); i++ {
		switch {
		case i == strtabIndex:
			put(1, 3, 0, uint64(strTabAddr), uint64(strTabLen))
		case i < strtabIndex:
			s := sections[i]
			put(s.nameOffset, 1, s.flags, s.addr, s.size)
		default:
			s := sections[i-1]
			put(s.nameOffset, 1, s.flags, s.addr, s.size)
		}
	}
	return c10Tag(uint32(tagElfSymbols), payload, 0)
}

// c10StrTab lays out the section names; offset 1 holds the name of the string
// table section itself.
func c10StrTab(sections []c10Section) []byte {
	tab := []byte{0}
	tab = append(tab, ".shstrtab"...)
	tab = append(tab, 0)
	for i := range sections {
		if sections[i].shareNameOf > 0 {
			sections[i].nameOffset = sections[sections[i].shareNameOf-1].nameOffset
			continue
		}
		sections[i].nameOffset = uint32(len(tab))
		tab = append(tab, sections[i].name...)
		tab = append(tab, 0)
	}
	return tab
}

func c10ExpectedType(t uint32) MemoryEntryType {
	if t >= 1 && t <= 4 {
		return MemoryEntryType(t)
	}
	return MemReserved
}

func c10CollectRegions() []MemoryMapEntry {
	var got []MemoryMapEntry
	VisitMemRegions(func(e *MemoryMapEntry) bool {
		got = append(got, MemoryMapEntry{PhysAddress: e.PhysAddress, Length: e.Length, Type: e.Type})
		return true
	})
	return got
}

func c10CollectSections() []c10Visited {
	var got []c10Visited
	VisitElfSections(func(name string, flags ElfSectionFlag, addr uintptr, size uint64) {
		// copy the name; it may alias the string table
		got = append(got, c10Visited{Name: string(append([]byte(nil), name...)), Flags: flags, Addr: addr, Size: size})
	})
	return got
}

func c10CmdLine() map[string]string {
	cmdLineKV = nil
	out := map[string]string{}
	for k, v := range GetBootCmdLine() {
		out[k] = v
	}
	cmdLineKV = nil
	return out
}

func TestKeepC10Demo(t *testing.T) {
	defer func() {
		cmdLineKV = nil
		infoData = 0
	}()

	regions := []c10Region{
		{0, 0x9fc00, 1},
		{0x9fc00, 0x400, 2},
		{0xe0000, 0x20000, 3},
		{0x100000, 0x7ee0000, 4},
		{0x7fe0000, 0x20000, 5},
		{0xfffc0000, 0x40000, 0},
		{0x1_0000_0000, 0xffff_ffff_0000_0000, 0xffffffff},
		{0xdead0000, 1, 0x80000001},
		{0x5000, 0x1000, 1},
	}
	var expRegions []MemoryMapEntry
	for _, r := range regions {
		expRegions = append(expRegions, MemoryMapEntry{PhysAddress: r.addr, Length: r.length, Type: c10ExpectedType(r.typ)})
	}

	sections := []c10Section{
		{name: ".text", flags: 6, addr: 0xffff800000100000, size: 0x80975},
		{name: ".empty", flags: 2, addr: 0x1234, size: 0},
		{name: ".rodata", flags: 2, addr: 0xffff800000181000, size: 0x3908f},
		{name: ".data", flags: 3, addr: 0xffff8000001ba0a0, size: 0xd68},
		{name: "", flags: 0, addr: 0, size: 7},
		{name: ".bss", flags: 3, addr: 0xffff8000001bae08, size: 0xb0},
		{name: ".bss", flags: 3, addr: 0xffff8000001c0000, size: 0x10, shareNameOf: 6},
		{name: ".debug_info", flags: 0, addr: 0, size: 0xffffffffff},
	}
	strTab := c10StrTab(sections)
	strTabAddr := c10Guarded(t, strTab)

	expSectionsFor := func(strtabIndex int) []c10Visited {
		var exp []c10Visited
		for i := 0; i <= len(sections); i++ {
			if i == strtabIndex {
				exp = append(exp, c10Visited{".shstrtab", 0, strTabAddr, uint64(len(strTab))})
				continue
			}
			idx := i
			if i > strtabIndex {
				idx = i - 1
			}
			s := sections[idx]
			if s.size == 0 {
				continue
			}
			exp = append(exp, c10Visited{s.name, ElfSectionFlag(s.flags), uintptr(s.addr), s.size})
		}
		return exp
	}

	rgb := []byte{16, 8, 8, 8, 0, 8}
	fbRGB := c10FbTag(0xfd000000, 4096, 1024, 768, 32, uint8(FramebufferTypeRGB), rgb)
	fbEGA := c10FbTag(0xb8000, 160, 80, 25, 16, uint8(FramebufferTypeEGA), nil)
	other := func(typ uint32, n int) []byte {
		p := make([]byte, n)
		for i := range p {
			p[i] = byte(0xC0 + i)
		}
		return c10Tag(typ, p, 0)
	}

	cmdCases := []struct {
		text string
		exp  map[string]string
	}{
		{"", map[string]string{}},
		{"   \t ", map[string]string{}},
		{"param1        param2=value2", map[string]string{"param1": "param1", "param2": "value2"}},
		{"\tconsoleFont=terminus10x18 \n consoleLogo=off\r\vnosplash\fq", map[string]string{"consoleFont": "terminus10x18", "consoleLogo": "off", "nosplash": "nosplash", "q": "q"}},
		{"a=1 a=2 b b=3 empty= =v", map[string]string{"a": "2", "b": "3", "empty": "", "": "v"}},
		{"gr\u00fc\u00df=welt\u00a0nbsp\u2003em=\u00e9 plain", map[string]string{"gr\u00fc\u00df": "welt", "nbsp": "nbsp", "em": "\u00e9", "plain": "plain"}},
		{"x=\xff\xfe raw", map[string]string{"x": "\xff\xfe", "raw": "raw"}},
	}

	for _, entrySize := range []int{24, 32, 40, 64} {
		for strtabIndex := 0; strtabIndex <= len(sections); strtabIndex += 4 {
			mm := c10MmapTag(entrySize, regions)
			elf := c10ElfTag(sections, strtabIndex, strTabAddr, len(strTab))
			expSections := expSectionsFor(strtabIndex)

			for cmdIdx, cmd := range cmdCases {
				name := fmt.Sprintf("entry%d/strtab%d/cmd%d", entrySize, strtabIndex, cmdIdx)
				cmdTag := c10CmdTag(cmd.text)

				// Different tag orders, unknown tags in between and
				// duplicate tags that must lose against the first one.
				orders := [][][]byte{
					{cmdTag, other(2, 9), mm, fbRGB, elf, other(14, 20)},
					{elf, fbRGB, mm, cmdTag},
					{other(4, 8), other(21, 3), fbRGB, other(5, 12), elf, cmdTag, c10CmdTag("loser=1"), mm, c10MmapTag(24, regions[:2]), fbEGA},
					{mm, other(10, 20), cmdTag, elf, other(99, 1), fbRGB},
				}
				for orderIdx, order := range orders {
					SetInfoPtr(c10Guarded(t, c10Block(order...)))

					if got := c10CollectRegions(); !reflect.DeepEqual(got, expRegions) {
						t.Fatalf("[%s order %d] regions:\n got %v\nwant %v", name, orderIdx, got, expRegions)
					}

					fb := GetFramebufferInfo()
					if fb == nil || fb.PhysAddr != 0xfd000000 || fb.Pitch != 4096 || fb.Width != 1024 || fb.Height != 768 || fb.Bpp != 32 || fb.Type != FramebufferTypeRGB {
						t.Fatalf("[%s order %d] unexpected framebuffer info %+v", name, orderIdx, fb)
					}
					if ci := fb.RGBColorInfo(); ci == nil || *ci != (FramebufferRGBColorInfo{16, 8, 8, 8, 0, 8}) {
						t.Fatalf("[%s order %d] unexpected RGB layout %+v", name, orderIdx, ci)
					}

					if got := c10CmdLine(); !reflect.DeepEqual(got, cmd.exp) {
						t.Fatalf("[%s order %d] cmdline %q:\n got %q\nwant %q", name, orderIdx, cmd.text, got, cmd.exp)
					}

					if got := c10CollectSections(); !reflect.DeepEqual(got, expSections) {
						t.Fatalf("[%s order %d] sections:\n got %+v\nwant %+v", name, orderIdx, got, expSections)
					}
				}
			}
		}
	}

	// An EGA framebuffer tag that is the very last thing before the end tag.
	SetInfoPtr(c10Guarded(t, c10Block(other(1000, 5), fbEGA)))
	fb := GetFramebufferInfo()
	if fb == nil || fb.PhysAddr != 0xb8000 || fb.Pitch != 160 || fb.Width != 80 || fb.Height != 25 || fb.Bpp != 16 || fb.Type != FramebufferTypeEGA {
		t.Fatalf("unexpected EGA framebuffer info %+v", fb)
	}
	if fb.RGBColorInfo() != nil {
		t.Fatal("expected no RGB layout for an EGA framebuffer")
	}
	if got := c10CollectRegions(); len(got) != 0 {
		t.Fatalf("expected no regions; got %v", got)
	}
	if got := c10CollectSections(); len(got) != 0 {
		t.Fatalf("expected no sections; got %v", got)
	}
	if got := c10CmdLine(); len(got) != 0 {
		t.Fatalf("expected no cmdline entries; got %v", got)
	}

	// Absent tags: a block with only unrelated tags, and the smallest block.
	for _, blk := range [][]byte{c10Block(), c10Block(other(2, 5), other(4, 8), other(10, 20))} {
		SetInfoPtr(c10Guarded(t, blk))
		if got := c10CollectRegions(); len(got) != 0 {
			t.Fatalf("expected no regions; got %v", got)
		}
		if got := GetFramebufferInfo(); got != nil {
			t.Fatalf("expected no framebuffer info; got %+v", got)
		}
		if got := c10CollectSections(); len(got) != 0 {
			t.Fatalf("expected no sections; got %v", got)
		}
		if got := c10CmdLine(); len(got) != 0 {
			t.Fatalf("expected no cmdline entries; got %v", got)
		}
	}

	// A memory map with no entries and an ELF tag with only empty sections.
	emptyElf := c10ElfTag([]c10Section{{name: ".a", size: 0}, {name: ".b", size: 0}}, 2, strTabAddr, 0)
	SetInfoPtr(c10Guarded(t, c10Block(c10MmapTag(24, nil), emptyElf)))
	if got := c10CollectRegions(); len(got) != 0 {
		t.Fatalf("expected no regions; got %v", got)
	}
	if got := c10CollectSections(); len(got) != 0 {
		t.Fatalf("expected no sections; got %v", got)
	}

	// The visitor can stop the memory map scan early.
	SetInfoPtr(c10Guarded(t, c10Block(c10MmapTag(24, regions))))
	visits := 0
	VisitMemRegions(func(*MemoryMapEntry) bool { visits++; return visits < 3 })
	if visits != 3 {
		t.Fatalf("expected 3 visits; got %d", visits)
	}
}
