package aml

import (
	"bytes"
	"fmt"
	"math/rand"
	"strings"
	"testing"
)

// This file is a demonstration for property C13. It only relies on what the
// property states: link consistency of the tree in both directions, freed
// objects being unreachable, freed slots being re-used before the pool grows
// and ACPI lookup rules. It does not assume which freed slot is re-used first,
// how the free list is chained, how objects are allocated or what Find does
// when it is handed a scope that is not part of the tree.

// k3Model is an independent model of the namespace tree.
type k3Model struct {
	t *testing.T

	tree *ObjectTree

	// ptrs[i] is the pointer that was handed out for pool slot i.
	ptrs map[uint32]*Object

	// children, parent and name describe the expected tree shape.
	children map[uint32][]uint32
	parent   map[uint32]uint32
	name     map[uint32][amlNameLen]byte

	// live and freed track the status of each pool slot.
	live  map[uint32]bool
	freed map[uint32]bool
}

func newK3Model(t *testing.T) *k3Model {
	return &k3Model{
		t:        t,
		tree:     NewObjectTree(),
		ptrs:     make(map[uint32]*Object),
		children: make(map[uint32][]uint32),
		parent:   make(map[uint32]uint32),
		name:     make(map[uint32][amlNameLen]byte),
		live:     make(map[uint32]bool),
		freed:    make(map[uint32]bool),
	}
}

// create allocates a new named object and checks the slot re-use clause.
func (m *k3Model) create(name [amlNameLen]byte) uint32 {
	poolLenBefore := len(m.tree.objPool)
	obj := m.tree.newNamedObject(pOpIntScopeBlock, 7, name)
	idx := obj.index

	if len(m.freed) != 0 {
		if !m.freed[idx] {
			m.t.Fatalf("create: %d freed slots available but got slot %d which is not one of them", len(m.freed), idx)
		}
		if len(m.tree.objPool) != poolLenBefore {
			m.t.Fatalf("create: pool grew from %d to %d while %d freed slots were available", poolLenBefore, len(m.tree.objPool), len(m.freed))
		}
		delete(m.freed, idx)
	} else {
		if idx != uint32(poolLenBefore) || len(m.tree.objPool) != poolLenBefore+1 {
			m.t.Fatalf("create: expected the pool to grow by one slot (%d -> %d) and hand out slot %d; got slot %d, pool len %d", poolLenBefore, poolLenBefore+1, poolLenBefore, idx, len(m.tree.objPool))
		}
	}

	if m.live[idx] {
		m.t.Fatalf("create: slot %d handed out while still live", idx)
	}
	if obj.parentIndex != InvalidIndex || obj.prevSiblingIndex != InvalidIndex || obj.nextSiblingIndex != InvalidIndex || obj.firstArgIndex != InvalidIndex || obj.lastArgIndex != InvalidIndex || obj.value != nil {
		m.t.Fatalf("create: new object in slot %d is not pristine: %+v", idx, *obj)
	}
	if m.tree.ObjectAt(idx) != obj {
		m.t.Fatalf("create: ObjectAt(%d) does not return the object that was just created", idx)
	}

	m.ptrs[idx] = obj
	m.live[idx] = true
	m.parent[idx] = InvalidIndex
	m.name[idx] = name
	m.children[idx] = nil
	return idx
}

func (m *k3Model) appendTo(parent, child uint32) {
	m.tree.append(m.ptrs[parent], m.ptrs[child])
	m.children[parent] = append(m.children[parent], child)
	m.parent[child] = parent
}

func (m *k3Model) insertAfter(parent, child, after uint32) {
	m.tree.appendAfter(m.ptrs[parent], m.ptrs[child], m.ptrs[after])
	list := m.children[parent]
	for i, c := range list {
		if c == after {
			newList := append([]uint32{}, list[:i+1]...)
			newList = append(newList, child)
			newList = append(newList, list[i+1:]...)
			m.children[parent] = newList
			m.parent[child] = parent
			return
		}
	}
	m.t.Fatalf("insertAfter: %d is not a child of %d in the model", after, parent)
}

func (m *k3Model) modelUnlink(child uint32) {
	parent := m.parent[child]
	list := m.children[parent]
	for i, c := range list {
		if c == child {
			m.children[parent] = append(append([]uint32{}, list[:i]...), list[i+1:]...)
			break
		}
	}
	m.parent[child] = InvalidIndex
}

func (m *k3Model) detach(child uint32) {
	m.tree.detach(m.ptrs[m.parent[child]], m.ptrs[child])
	m.modelUnlink(child)
}

// free releases a leaf object (attached or not).
func (m *k3Model) free(idx uint32) {
	m.tree.free(m.ptrs[idx])
	if m.parent[idx] != InvalidIndex {
		m.modelUnlink(idx)
	}
	delete(m.live, idx)
	delete(m.children, idx)
	delete(m.parent, idx)
	delete(m.name, idx)
	m.freed[idx] = true
}

// check verifies the well-formedness clauses of the property.
func (m *k3Model) check(step int) {
	t, tree := m.t, m.tree

	if len(m.live)+len(m.freed) != len(tree.objPool) {
		t.Fatalf("[step %d] pool has %d slots; model has %d live + %d freed", step, len(tree.objPool), len(m.live), len(m.freed))
	}

	for idx := range m.freed {
		if got := tree.ObjectAt(idx); got != nil {
			t.Fatalf("[step %d] freed slot %d is still visible via ObjectAt", step, idx)
		}
	}

	for idx := range m.live {
		obj := tree.ObjectAt(idx)
		if obj == nil || obj != m.ptrs[idx] || obj.index != idx {
			t.Fatalf("[step %d] ObjectAt(%d) returned %p; want %p", step, idx, obj, m.ptrs[idx])
		}
		if obj.name != m.name[idx] {
			t.Fatalf("[step %d] slot %d: name %q; want %q", step, idx, obj.name[:], m.name[idx])
		}
		if obj.parentIndex != m.parent[idx] {
			t.Fatalf("[step %d] slot %d: parentIndex %d; want %d", step, idx, obj.parentIndex, m.parent[idx])
		}
		if obj.parentIndex == InvalidIndex && (obj.prevSiblingIndex != InvalidIndex || obj.nextSiblingIndex != InvalidIndex) {
			t.Fatalf("[step %d] slot %d: detached object has sibling links (%d, %d)", step, idx, obj.prevSiblingIndex, obj.nextSiblingIndex)
		}

		want := m.children[idx]

		// forward walk
		var fwd []uint32
		prev := InvalidIndex
		for c := obj.firstArgIndex; c != InvalidIndex; {
			if m.freed[c] || !m.live[c] {
				t.Fatalf("[step %d] slot %d: forward walk reached non-live slot %d", step, idx, c)
			}
			co := tree.ObjectAt(c)
			if co == nil {
				t.Fatalf("[step %d] slot %d: forward walk reached freed slot %d", step, idx, c)
			}
			if co.parentIndex != idx {
				t.Fatalf("[step %d] slot %d: child %d has parentIndex %d", step, idx, c, co.parentIndex)
			}
			if co.prevSiblingIndex != prev {
				t.Fatalf("[step %d] slot %d: child %d has prevSiblingIndex %d; want %d", step, idx, c, co.prevSiblingIndex, prev)
			}
			fwd = append(fwd, c)
			if len(fwd) > len(tree.objPool) {
				t.Fatalf("[step %d] slot %d: cycle in forward walk", step, idx)
			}
			prev, c = c, co.nextSiblingIndex
		}
		if prev != obj.lastArgIndex {
			t.Fatalf("[step %d] slot %d: forward walk ended at %d but lastArgIndex is %d", step, idx, prev, obj.lastArgIndex)
		}

		// backward walk
		var bwd []uint32
		for c := obj.lastArgIndex; c != InvalidIndex; c = tree.ObjectAt(c).prevSiblingIndex {
			bwd = append(bwd, c)
			if len(bwd) > len(tree.objPool) {
				t.Fatalf("[step %d] slot %d: cycle in backward walk", step, idx)
			}
		}

		if len(fwd) != len(want) || len(bwd) != len(want) {
			t.Fatalf("[step %d] slot %d: children fwd %v, bwd %v; want %v", step, idx, fwd, bwd, want)
		}
		for i := range want {
			if fwd[i] != want[i] || bwd[len(bwd)-1-i] != want[i] {
				t.Fatalf("[step %d] slot %d: children fwd %v, bwd %v; want %v", step, idx, fwd, bwd, want)
			}
		}

		if got := tree.NumArgs(obj); got != uint32(len(want)) {
			t.Fatalf("[step %d] slot %d: NumArgs %d; want %d", step, idx, got, len(want))
		}
	}
}

func k3IsLead(b byte) bool { return b == '_' || (b >= 'A' && b <= 'Z') }

// refChild returns the child of scope whose name is seg.
func (m *k3Model) refChild(scope uint32, seg []byte) uint32 {
	for _, c := range m.children[scope] {
		n := m.name[c]
		if bytes.Equal(n[:], seg) {
			return c
		}
	}
	return InvalidIndex
}

// refDown resolves a (possibly prefixed) sequence of name segments downwards.
func (m *k3Model) refDown(scope uint32, expr []byte) uint32 {
	for i := 0; i < len(expr); {
		for i < len(expr) && !k3IsLead(expr[i]) {
			i++
		}
		if len(expr)-i < amlNameLen {
			return InvalidIndex
		}
		if scope = m.refChild(scope, expr[i:i+amlNameLen]); scope == InvalidIndex {
			return InvalidIndex
		}
		i += amlNameLen
	}
	return scope
}

// refFind is an independent statement of the ACPI search rules.
func (m *k3Model) refFind(scope uint32, expr []byte) uint32 {
	switch {
	case len(expr) == 0:
		return InvalidIndex
	case expr[0] == '\\':
		if len(expr) == 1 {
			return 0
		}
		return m.refDown(0, expr[1:])
	case expr[0] == '^':
		for len(expr) != 0 && expr[0] == '^' {
			if scope = m.parent[scope]; scope == InvalidIndex {
				return InvalidIndex
			}
			expr = expr[1:]
		}
		if len(expr) == 0 {
			return scope
		}
		return m.refDown(scope, expr)
	case len(expr) > amlNameLen:
		return m.refDown(scope, expr)
	case len(expr) == amlNameLen:
		for ; scope != InvalidIndex; scope = m.parent[scope] {
			if c := m.refChild(scope, expr); c != InvalidIndex {
				return c
			}
		}
	}
	return InvalidIndex
}

// path returns the list of nodes from the root down to idx (root excluded).
func (m *k3Model) path(idx uint32) []uint32 {
	var p []uint32
	for ; idx != 0 && idx != InvalidIndex; idx = m.parent[idx] {
		p = append([]uint32{idx}, p...)
	}
	return p
}

// attached reports whether idx hangs off the root.
func (m *k3Model) attached(idx uint32) bool {
	for ; idx != InvalidIndex; idx = m.parent[idx] {
		if idx == 0 {
			return true
		}
	}
	return false
}

func (m *k3Model) findExprs(rng *rand.Rand, scope uint32, attached []uint32) [][]byte {
	var exprs [][]byte

	join := func(prefix []byte, nodes []uint32, style int) []byte {
		out := append([]byte{}, prefix...)
		switch {
		case style == 1 && len(nodes) == 2:
			out = append(out, 0x2e)
		case style == 1 && len(nodes) > 2:
			out = append(out, 0x2f, byte(len(nodes)))
		}
		for _, n := range nodes {
			nm := m.name[n]
			out = append(out, nm[:]...)
		}
		return out
	}

	target := attached[rng.Intn(len(attached))]
	tPath := m.path(target)
	sPath := m.path(scope)

	for style := 0; style < 2; style++ {
		// absolute
		exprs = append(exprs, join([]byte{'\\'}, tPath, style))

		// downward from the scope, if target is below it
		if len(tPath) > len(sPath) {
			below := true
			for i := range sPath {
				below = below && sPath[i] == tPath[i]
			}
			if below {
				exprs = append(exprs, join(nil, tPath[len(sPath):], style))
			}
		}

		// via every ancestor of the scope
		for up := 1; up <= len(sPath)+1; up++ {
			common := len(sPath) - up
			if common < 0 {
				exprs = append(exprs, join(bytes.Repeat([]byte{'^'}, up), nil, style))
				continue
			}
			ok := len(tPath) >= common
			for i := 0; ok && i < common; i++ {
				ok = sPath[i] == tPath[i]
			}
			if ok {
				exprs = append(exprs, join(bytes.Repeat([]byte{'^'}, up), tPath[common:], style))
			}
		}
	}

	// single segment names: one that exists somewhere and one that does not
	nm := m.name[target]
	exprs = append(exprs, append([]byte{}, nm[:]...), []byte("ZZZZ"), []byte("\\ZZZZ"), []byte("^ZZZZ"))

	// malformed expressions
	exprs = append(exprs,
		nil,
		[]byte{},
		[]byte("\\"),
		[]byte("^"),
		[]byte("A"),
		[]byte("AB"),
		[]byte("ABC"),
		[]byte("\\AB"),
		[]byte("^AB"),
		[]byte{'\\', 0x2e},
		[]byte{'\\', 0x2f, 0x03},
		[]byte{'\\', 0x2f, 0x03, '?'},
		[]byte{0x2e, 'A', 'B', 'C'},
		append(append([]byte{}, nm[:]...), 'X'),
		append(append([]byte{}, nm[:]...), 0x2e, 'X', 'Y'),
		append([]byte{'\\', 0x2e}, nm[:]...),
		bytes.Repeat([]byte{'^'}, 40),
	)

	// random junk
	for i := 0; i < 6; i++ {
		junk := make([]byte, rng.Intn(14))
		alphabet := []byte("\\^_ABPCI0\x2e\x2f\x00\x03?")
		for j := range junk {
			junk[j] = alphabet[rng.Intn(len(alphabet))]
		}
		exprs = append(exprs, junk)
	}

	return exprs
}

func (m *k3Model) checkFind(step int, rng *rand.Rand) {
	var attached []uint32
	for idx := range m.live {
		if m.attached(idx) {
			attached = append(attached, idx)
		}
	}
	// deterministic order
	for i := 1; i < len(attached); i++ {
		for j := i; j > 0 && attached[j] < attached[j-1]; j-- {
			attached[j], attached[j-1] = attached[j-1], attached[j]
		}
	}

	for _, scope := range attached {
		for _, expr := range m.findExprs(rng, scope, attached) {
			want := m.refFind(scope, expr)
			got := m.tree.Find(scope, expr)
			if got != want {
				m.t.Fatalf("[step %d] Find(%d, %q) = %d; want %d", step, scope, expr, got, want)
			}
			if got != InvalidIndex && m.tree.ObjectAt(got) == nil {
				m.t.Fatalf("[step %d] Find(%d, %q) returned freed or out of range slot %d", step, scope, expr, got)
			}
		}
	}
}

var k3Names = func() [][amlNameLen]byte {
	var names [][amlNameLen]byte
	for _, s := range []string{"_SB_", "PCI0", "IDE0", "_ADR", "_CRS", "USB0", "A___", "B0__", "C1C2", "_X_9", "LNKA", "LNKB", "EC0_", "_HID", "_UID", "GPE0"} {
		var n [amlNameLen]byte
		copy(n[:], s)
		names = append(names, n)
	}
	return names
}()

// pickName returns a name that is not used yet by the children of parent.
func (m *k3Model) pickName(rng *rand.Rand, parent uint32) ([amlNameLen]byte, bool) {
	start := rng.Intn(len(k3Names))
	for i := 0; i < len(k3Names); i++ {
		n := k3Names[(start+i)%len(k3Names)]
		if m.refChild(parent, n[:]) == InvalidIndex {
			return n, true
		}
	}
	return [amlNameLen]byte{}, false
}

func (m *k3Model) randomLive(rng *rand.Rand, filter func(uint32) bool) (uint32, bool) {
	var cands []uint32
	for idx := uint32(0); idx < uint32(len(m.tree.objPool)); idx++ {
		if m.live[idx] && filter(idx) {
			cands = append(cands, idx)
		}
	}
	if len(cands) == 0 {
		return InvalidIndex, false
	}
	return cands[rng.Intn(len(cands))], true
}

func TestKeep3C13TreeAndFind(t *testing.T) {
	for _, seed := range []int64{1, 2, 3, 42, 2026} {
		seed := seed
		t.Run(fmt.Sprintf("seed %d", seed), func(t *testing.T) {
			rng := rand.New(rand.NewSource(seed))
			m := newK3Model(t)

			var rootName [amlNameLen]byte
			rootName[0] = '\\'
			if root := m.create(rootName); root != 0 {
				t.Fatalf("expected root to occupy slot 0; got %d", root)
			}
			m.check(-1)

			const steps = 700
			for step := 0; step < steps; step++ {
				switch op := rng.Intn(100); {
				case op < 45: // create + append / insert-after
					parent, _ := m.randomLive(rng, func(uint32) bool { return true })
					name, ok := m.pickName(rng, parent)
					if !ok {
						continue
					}
					child := m.create(name)
					if sibs := m.children[parent]; len(sibs) != 0 && rng.Intn(2) == 0 {
						m.insertAfter(parent, child, sibs[rng.Intn(len(sibs))])
					} else {
						m.appendTo(parent, child)
					}
				case op < 60: // detach a sub-tree and re-attach it somewhere else
					child, ok := m.randomLive(rng, func(i uint32) bool { return i != 0 && m.parent[i] != InvalidIndex })
					if !ok {
						continue
					}
					m.detach(child)
					m.check(step)

					// the new parent must not be inside the detached sub-tree
					// and must not have a child with the same name yet.
					nm := m.name[child]
					parent, ok := m.randomLive(rng, func(i uint32) bool {
						for a := i; a != InvalidIndex; a = m.parent[a] {
							if a == child {
								return false
							}
						}
						return m.attached(i) && m.refChild(i, nm[:]) == InvalidIndex
					})
					if !ok {
						t.Fatalf("[step %d] no place to re-attach %d", step, child)
					}
					if sibs := m.children[parent]; len(sibs) != 0 && rng.Intn(2) == 0 {
						m.insertAfter(parent, child, sibs[rng.Intn(len(sibs))])
					} else {
						m.appendTo(parent, child)
					}
				case op < 85: // free a leaf (free detaches it if needed)
					leaf, ok := m.randomLive(rng, func(i uint32) bool { return i != 0 && len(m.children[i]) == 0 })
					if !ok {
						continue
					}
					if rng.Intn(3) == 0 {
						m.detach(leaf)
					}
					m.free(leaf)
				default: // burst: free a few leaves then create more than were freed
					freedNow := 0
					for i := 0; i < 5; i++ {
						if leaf, ok := m.randomLive(rng, func(i uint32) bool { return i != 0 && len(m.children[i]) == 0 }); ok {
							m.free(leaf)
							freedNow++
						}
					}
					for i := 0; i < freedNow+3; i++ {
						parent, _ := m.randomLive(rng, func(uint32) bool { return true })
						if name, ok := m.pickName(rng, parent); ok {
							m.appendTo(parent, m.create(name))
						}
					}
				}

				m.check(step)
				if step%25 == 0 || step == steps-1 {
					m.checkFind(step, rng)
				}
			}

			if len(m.tree.objPool) < 130 {
				t.Fatalf("expected the pool to grow past 130 slots; got %d", len(m.tree.objPool))
			}

			// Every reachable object shows up exactly once, in pre-order, in the
			// pretty-printed tree.
			var buf bytes.Buffer
			m.tree.PrettyPrint(&buf)
			lines := strings.Split(strings.TrimSuffix(buf.String(), "\n"), "\n")
			var preorder []uint32
			var visit func(uint32)
			visit = func(idx uint32) {
				preorder = append(preorder, idx)
				for _, c := range m.children[idx] {
					visit(c)
				}
			}
			visit(0)
			if len(lines) != len(preorder) {
				t.Fatalf("PrettyPrint emitted %d lines; want %d", len(lines), len(preorder))
			}
			for i, idx := range preorder {
				nm := m.name[idx]
				wantName := fmt.Sprintf("name: \"%s\"", strings.TrimRight(string(nm[:]), "\x00"))
				wantIndex := fmt.Sprintf(", index: %d,", idx)
				if !strings.Contains(lines[i], wantName) || !strings.Contains(lines[i], wantIndex) {
					t.Fatalf("PrettyPrint line %d = %q; want it to mention %s and %s", i, lines[i], wantName, wantIndex)
				}
			}
		})
	}
}

// TestKeep3C13FreeingAnObjectWithArgs checks that free refuses to release an
// object that still has arguments and that the tree remains well-formed.
func TestKeep3C13FreeingAnObjectWithArgs(t *testing.T) {
	m := newK3Model(t)
	root := m.create([amlNameLen]byte{'\\'})
	a := m.create(k3Names[0])
	b := m.create(k3Names[1])
	m.appendTo(root, a)
	m.appendTo(a, b)

	func() {
		defer func() {
			if recover() == nil {
				t.Fatal("expected free to panic")
			}
		}()
		m.tree.free(m.ptrs[a])
	}()

	if m.tree.ObjectAt(a) == nil || m.tree.ObjectAt(b) == nil {
		t.Fatal("objects must not be released by a refused free")
	}
	if m.ptrs[b].parentIndex != a || m.ptrs[a].firstArgIndex != b || m.ptrs[a].lastArgIndex != b {
		t.Fatal("argument links of the object must survive a refused free")
	}
}

// TestKeep3C13FindFromScopeOutsideTree documents that the property does not
// say what a lookup relative to a non-existing scope does: it either reports
// not-found or faults, but it never returns an object.
func TestKeep3C13FindFromScopeOutsideTree(t *testing.T) {
	tree, scopeMap := genTestScopes()
	extra := tree.newNamedObject(pOpIntScopeBlock, 0, [amlNameLen]byte{'T', 'M', 'P', '_'})
	tree.append(tree.ObjectAt(scopeMap["IDE0"]), extra)
	freedIndex := extra.index
	tree.free(extra)

	for _, scope := range []uint32{freedIndex, uint32(len(tree.objPool)), uint32(len(tree.objPool)) + 1000} {
		for _, expr := range []string{"_CRS", "^", "^^_SB_", "PCI0IDE0", "AB"} {
			func() {
				defer func() { _ = recover() }()
				if got := tree.Find(scope, []byte(expr)); got != InvalidIndex {
					t.Errorf("Find(%d, %q) = %d; want InvalidIndex", scope, expr, got)
				}
			}()
		}
	}

	// InvalidIndex as the scope is always not-found.
	for _, expr := range []string{`\`, `\_SB_`, "_CRS", "^"} {
		if got := tree.Find(InvalidIndex, []byte(expr)); got != InvalidIndex {
			t.Errorf("Find(InvalidIndex, %q) = %d; want InvalidIndex", expr, got)
		}
	}
}
