package hal

// Demonstration for property C16 (device bring-up: ordered probing, first
// console/TTY win, no boot log lost).
//
// Copy to kernel/hal/c16_keep3_demo_test.go and run with
//   cd kernel && go test -vet=off -count=1 -run TestC16Keep3 ./hal/
//
// The test only relies on what the property states. In particular it does NOT
// assume: the capacity of the early buffer (it is measured at run time), the
// chunking in which bytes reach the terminal, the wording/number of the
// "[hal]" lines that the HAL itself emits, the relative probe order of drivers
// that share a detection order, or whether the device registry is sorted in
// place.

import (
	"bytes"
	"image/color"
	"io"
	"math/rand"
	"regexp"
	"strconv"
	"strings"
	"testing"

	"github.com/ProjectSerenity/firefly/kernel"
	"github.com/ProjectSerenity/firefly/kernel/device"
	"github.com/ProjectSerenity/firefly/kernel/device/tty"
	"github.com/ProjectSerenity/firefly/kernel/device/video/console"
	"github.com/ProjectSerenity/firefly/kernel/kfmt"
)

// ---------------------------------------------------------------------------
// fakes

type demoKind int

const (
	demoPlain demoKind = iota
	demoConsole
	demoTTY
)

// demoRun carries the bookkeeping for one scenario.
type demoRun struct {
	t *testing.T

	probeSeq []*demoDrv // in the order Probe() got invoked
	initSeq  []*demoDrv // in the order DriverInit() got invoked

	// expected marker sequences, in emission order
	markers []string

	// link bookkeeping: the first fake probe/init hook that observes the
	// kernel output sink pointing to a demo terminal records how many
	// bytes that terminal has received so far.
	linkSeen    bool
	linkedTerm  *demoTerm
	bytesAtLink int
	// index into markers: markers[:markersAtLink] were emitted before the
	// link was first observed.
	markersAtLink int
}

func (r *demoRun) observe() {
	if r.linkSeen {
		return
	}
	if term, ok := kfmt.GetOutputSink().(*demoTerm); ok {
		r.linkSeen = true
		r.linkedTerm = term
		r.bytesAtLink = term.buf.Len()
		r.markersAtLink = len(r.markers)
	}
}

func (r *demoRun) marker(kind string, a, b int) string {
	m := kind + "-" + strconv.Itoa(a) + "-" + strconv.Itoa(b) + ";"
	r.markers = append(r.markers, m)
	return m
}

// demoDrv is the part shared by all fake drivers.
type demoDrv struct {
	run      *demoRun
	id       int
	kind     demoKind
	order    device.DetectOrder
	present  bool // Probe returns a driver
	failInit bool
	initLogs int // number of lines logged from DriverInit
	impl     device.Driver
	probed   int
	inited   int

	probedWhileLinked bool
}

func (d *demoDrv) DriverName() string { return "fk" + strconv.Itoa(d.id) }
func (d *demoDrv) DriverVersion() (uint16, uint16, uint16) {
	return uint16(d.id), 2, 3
}
func (d *demoDrv) DriverInit(w io.Writer) *kernel.Error {
	d.run.observe()
	d.inited++
	d.run.initSeq = append(d.run.initSeq, d)
	for i := 0; i < d.initLogs; i++ {
		m := d.run.marker("drv", d.id, i)
		switch i % 3 {
		case 0:
			kfmt.Fprintf(w, "%s\n", m)
		case 1:
			kfmt.Fprintf(w, "step %d of %d ", i, d.initLogs)
			kfmt.Fprintf(w, "%s", []byte(m))
			kfmt.Fprintf(w, "\n")
		default:
			// two lines in one write
			io.WriteString(w, "multi\n"+m+"\n")
		}
	}
	if d.failInit {
		return &kernel.Error{Module: "demo", Message: "boom-" + strconv.Itoa(d.id) + "!"}
	}
	return nil
}

func (d *demoDrv) probe() device.Driver {
	d.run.observe()
	d.probed++
	d.probedWhileLinked = d.run.linkSeen
	d.run.probeSeq = append(d.run.probeSeq, d)
	if !d.present {
		return nil
	}
	return d.impl
}

// demoCons is a fake console.
type demoCons struct {
	*demoDrv
	w, h  uint32
	cells []byte
}

func newDemoCons(d *demoDrv, w, h uint32) *demoCons {
	c := &demoCons{demoDrv: d, w: w, h: h, cells: bytes.Repeat([]byte{' '}, int(w*h))}
	d.impl = c
	return c
}

func (c *demoCons) Dimensions(dim console.Dimension) (uint32, uint32) {
	if dim == console.Characters {
		return c.w, c.h
	}
	return c.w * 8, c.h * 16
}
func (c *demoCons) DefaultColors() (uint8, uint8) { return 7, 0 }
func (c *demoCons) Fill(x, y, width, height uint32, _, _ uint8) {
	for yy := y; yy < y+height && yy <= c.h; yy++ {
		for xx := x; xx < x+width && xx <= c.w; xx++ {
			c.cells[(yy-1)*c.w+(xx-1)] = ' '
		}
	}
}
func (c *demoCons) Scroll(dir console.ScrollDir, lines uint32) {
	if dir == console.ScrollDirUp {
		copy(c.cells, c.cells[lines*c.w:])
	} else {
		copy(c.cells[lines*c.w:], c.cells)
	}
}
func (c *demoCons) Write(ch byte, _, _ uint8, x, y uint32) {
	if x < 1 || y < 1 || x > c.w || y > c.h {
		return
	}
	c.cells[(y-1)*c.w+(x-1)] = ch
}
func (c *demoCons) Palette() color.Palette            { return nil }
func (c *demoCons) SetPaletteColor(uint8, color.RGBA) {}
func (c *demoCons) text() string {
	var sb strings.Builder
	for y := uint32(0); y < c.h; y++ {
		sb.WriteString(strings.TrimRight(string(c.cells[y*c.w:(y+1)*c.w]), " "))
		sb.WriteByte('\n')
	}
	return sb.String()
}

// demoTerm is a fake terminal that records every byte it receives.
type demoTerm struct {
	*demoDrv
	cons       console.Device
	state      tty.State
	buf        bytes.Buffer
	writeCalls int
	unattached int // writes received while no console was attached
}

func newDemoTerm(d *demoDrv) *demoTerm {
	tm := &demoTerm{demoDrv: d}
	d.impl = tm
	return tm
}

func (tm *demoTerm) Write(p []byte) (int, error) {
	tm.writeCalls++
	if tm.cons == nil {
		tm.unattached++
		return 0, io.ErrClosedPipe
	}
	return tm.buf.Write(p)
}
func (tm *demoTerm) WriteByte(b byte) error {
	_, err := tm.Write([]byte{b})
	return err
}
func (tm *demoTerm) AttachTo(c console.Device)        { tm.cons = c }
func (tm *demoTerm) State() tty.State                 { return tm.state }
func (tm *demoTerm) SetState(s tty.State)             { tm.state = s }
func (tm *demoTerm) CursorPosition() (uint32, uint32) { return 1, 1 }
func (tm *demoTerm) SetCursorPosition(_, _ uint32)    {}

// realTerm wraps the real VT so that it can be registered as a fake driver
// whose probe/init hooks we control.
type realTerm struct {
	*tty.VT
	d *demoDrv
}

func (rt *realTerm) DriverName() string { return rt.d.DriverName() }
func (rt *realTerm) DriverVersion() (uint16, uint16, uint16) {
	return rt.d.DriverVersion()
}
func (rt *realTerm) DriverInit(w io.Writer) *kernel.Error { return rt.d.DriverInit(w) }

// ---------------------------------------------------------------------------
// helpers

var demoMarkerRe = regexp.MustCompile(`(pre|drv|post)-\d+-\d+;`)

// demoName returns a printable name for a (possibly nil) device.
func demoName(v interface{}) string {
	if drv, ok := v.(device.Driver); ok && drv != nil {
		return drv.DriverName()
	}
	return "<none>"
}

// demoNeutralise makes every driver that is registered so far report "no such
// hardware". The registry itself cannot be reset from outside package device;
// the neutralised entries simply act as additional drivers that fail to probe
// (something the property quantifies over anyway).
func demoNeutralise() {
	for _, info := range device.DriverList() {
		info.Probe = func() device.Driver { return nil }
	}
}

// demoResetKernelLog drops whatever sits in the early buffer and reverts the
// kernel log to the early buffer.
func demoResetKernelLog() {
	var discard bytes.Buffer
	kfmt.SetOutputSink(&discard)
	kfmt.SetOutputSink(nil)
}

// demoMeasureCapacity returns the number of bytes retained by the early
// buffer.
func demoMeasureCapacity(t *testing.T) int {
	demoResetKernelLog()
	var sb strings.Builder
	for i := 0; sb.Len() < 64*1024; i++ {
		sb.WriteString("cap-" + strconv.Itoa(i) + "|")
	}
	all := sb.String()
	kfmt.Printf("%s", all[:1000])
	kfmt.Printf("%s", []byte(all[1000:40000]))
	kfmt.Printf(all[40000:])

	var got bytes.Buffer
	kfmt.SetOutputSink(&got)
	kfmt.SetOutputSink(nil)
	if got.Len() == 0 || got.Len() >= len(all) {
		t.Fatalf("cannot measure the early buffer capacity (got %d bytes back)", got.Len())
	}
	if !strings.HasSuffix(all, got.String()) {
		t.Fatalf("early buffer did not retain the newest bytes")
	}
	return got.Len()
}

// emitLog writes one marker line to the kernel log using a pseudo-random
// chunking.
func (r *demoRun) emitLog(rng *rand.Rand, kind string, a, b, pad int) int {
	m := r.marker(kind, a, b)
	line := m + strings.Repeat("x", pad) + "\n"
	switch rng.Intn(5) {
	case 0:
		kfmt.Printf("%s", line)
	case 1:
		kfmt.Printf("%s", []byte(line))
	case 2:
		cut := rng.Intn(len(line))
		kfmt.Printf("%s", line[:cut])
		kfmt.Fprintf(kfmt.GetOutputSink(), "%s", []byte(line[cut:]))
	case 3:
		for i := 0; i < len(line); i++ {
			kfmt.Printf("%s", line[i:i+1])
		}
	default:
		// literal text in the format string plus a padded number
		kfmt.Printf(kind+"-%d-%d;", a, b)
		kfmt.Printf("%s\n", strings.Repeat("x", pad))
	}
	return len(line)
}

// checkStream verifies that stream (everything a sink received) carries the
// expected markers: the markers that were emitted before the split point may
// have lost a prefix (oldest dropped first) but only if the early part filled
// the buffer; everything else must be there exactly once and in order.
func checkStream(t *testing.T, what string, early, late string, expEarly, expLate []string, capacity int) {
	t.Helper()

	if len(early) > capacity {
		t.Errorf("%s: %d early bytes were replayed but the early buffer only holds %d", what, len(early), capacity)
	}

	gotEarly := demoMarkerRe.FindAllString(early, -1)
	gotLate := demoMarkerRe.FindAllString(late, -1)

	// the early markers must be a suffix of the expected ones
	if len(gotEarly) > len(expEarly) {
		t.Fatalf("%s: got %d early markers; expected at most %d", what, len(gotEarly), len(expEarly))
	}
	dropped := len(expEarly) - len(gotEarly)
	for i, m := range gotEarly {
		if exp := expEarly[dropped+i]; m != exp {
			t.Fatalf("%s: early marker %d: expected %q; got %q", what, i, exp, m)
		}
	}
	if dropped > 0 && len(early) != capacity {
		t.Errorf("%s: %d early markers are missing although only %d of %d bytes of the early buffer were replayed", what, dropped, len(early), capacity)
	}

	if len(gotLate) != len(expLate) {
		t.Fatalf("%s: expected %d late markers; got %d\nexp: %v\ngot: %v", what, len(expLate), len(gotLate), expLate, gotLate)
	}
	for i, m := range gotLate {
		if m != expLate[i] {
			t.Fatalf("%s: late marker %d: expected %q; got %q", what, i, expLate[i], m)
		}
	}
}

// ---------------------------------------------------------------------------
// scenarios

type demoSpec struct {
	kind     demoKind
	order    int
	present  bool
	failInit bool
	initLogs int
}

type demoScenario struct {
	name     string
	drivers  []demoSpec
	preLines int
	prePad   int
	post     int
}

func runDemoScenario(t *testing.T, rng *rand.Rand, sc demoScenario, capacity int) {
	defer func() {
		devices = managedDevices{}
		strBuf.Reset()
		demoNeutralise()
		demoResetKernelLog()
	}()

	devices = managedDevices{}
	strBuf.Reset()
	demoNeutralise()
	demoResetKernelLog()

	run := &demoRun{t: t}
	var (
		all   []*demoDrv
		terms []*demoTerm
	)
	for i, sp := range sc.drivers {
		d := &demoDrv{run: run, id: i + 1, kind: sp.kind, order: device.DetectOrder(sp.order), present: sp.present, failInit: sp.failInit, initLogs: sp.initLogs}
		switch sp.kind {
		case demoConsole:
			newDemoCons(d, 80, 25)
		case demoTTY:
			terms = append(terms, newDemoTerm(d))
		default:
			d.impl = d
		}
		all = append(all, d)
	}
	// sentinel: probed after everything else; lets us observe the link
	// even when the last real driver is the one that completes the pair.
	sentinel := &demoDrv{run: run, id: 9999, order: device.DetectOrderLast}
	all = append(all, sentinel)

	// register in a random permutation
	for _, idx := range rng.Perm(len(all)) {
		d := all[idx]
		device.RegisterDriver(&device.DriverInfo{Order: d.order, Probe: d.probe})
	}

	// upper bound for what the HAL and the fake drivers log by themselves
	overhead := 400
	for _, d := range all {
		if d.present {
			overhead += 100 + 70*d.initLogs
		}
	}

	// log before the hardware is detected
	preBytes := 0
	for i := 0; i < sc.preLines; i++ {
		pad := sc.prePad
		if pad > 0 {
			pad = rng.Intn(pad + 1)
		}
		preBytes += run.emitLog(rng, "pre", i, pad, pad)
	}

	DetectHardware()

	run.observe()
	for i := 0; i < sc.post; i++ {
		run.emitLog(rng, "post", i, 0, rng.Intn(40))
	}

	// --- clause 1: non-decreasing probe order, everything probed once
	for _, d := range all {
		if d.probed != 1 {
			t.Errorf("driver %d got probed %d times", d.id, d.probed)
		}
	}
	if len(run.probeSeq) != len(all) {
		t.Fatalf("expected %d probes; got %d", len(all), len(run.probeSeq))
	}
	for i := 1; i < len(run.probeSeq); i++ {
		if run.probeSeq[i-1].order > run.probeSeq[i].order {
			t.Fatalf("probe %d (order %d) ran before probe %d (order %d)", run.probeSeq[i-1].id, run.probeSeq[i-1].order, run.probeSeq[i].id, run.probeSeq[i].order)
		}
	}

	// --- clause 2: init called only for detected drivers; failed drivers
	// never become active
	var expCons console.Device
	var expTerm tty.Device
	expActive := map[device.Driver]bool{}
	for _, d := range run.initSeq {
		if !d.present || d.inited != 1 {
			t.Errorf("driver %d: present=%t but DriverInit got invoked %d times", d.id, d.present, d.inited)
		}
		if d.failInit {
			continue
		}
		expActive[d.impl] = true
		if c, ok := d.impl.(console.Device); ok && expCons == nil {
			expCons = c
		}
		if tm, ok := d.impl.(tty.Device); ok && expTerm == nil {
			expTerm = tm
		}
	}
	for _, d := range all {
		if d.present && d.inited != 1 {
			t.Errorf("driver %d was detected but DriverInit got invoked %d times", d.id, d.inited)
		}
	}
	if len(devices.activeDrivers) != len(expActive) {
		t.Errorf("expected %d active drivers; got %d", len(expActive), len(devices.activeDrivers))
	}
	for _, drv := range devices.activeDrivers {
		if !expActive[drv] {
			t.Errorf("driver %s is active although it was not successfully initialised", drv.DriverName())
		}
	}

	// --- clause 3: first console / first terminal win
	if devices.activeConsole != expCons {
		t.Errorf("wrong active console: expected %s; got %s", demoName(expCons), demoName(devices.activeConsole))
	}
	if devices.activeTTY != expTerm || ActiveTTY() != expTerm {
		t.Errorf("wrong active terminal: expected %s; got %s", demoName(expTerm), demoName(devices.activeTTY))
	}

	// --- clause 4: the pair is linked and no log is lost
	if expCons != nil && expTerm != nil {
		term := expTerm.(*demoTerm)
		if term.cons != expCons {
			t.Errorf("active terminal is not attached to the active console")
		}
		if term.State() != tty.StateActive {
			t.Errorf("active terminal is not in the active state")
		}
		if kfmt.GetOutputSink() != io.Writer(term) {
			t.Errorf("kernel log does not go to the active terminal")
		}
		if term.unattached != 0 {
			t.Errorf("terminal received %d writes before it got attached", term.unattached)
		}
		if !run.linkSeen || run.linkedTerm != term {
			t.Fatalf("link not observed on the active terminal")
		}
		for _, other := range terms {
			if other != term && other.buf.Len() != 0 {
				t.Errorf("terminal %d is not active but received %d bytes", other.id, other.buf.Len())
			}
		}

		stream := term.buf.String()
		early, late := stream[:run.bytesAtLink], stream[run.bytesAtLink:]
		checkStream(t, "terminal", early, late, run.markers[:run.markersAtLink], run.markers[run.markersAtLink:], capacity)

		// each marker at most once overall
		seen := map[string]int{}
		for _, m := range demoMarkerRe.FindAllString(stream, -1) {
			if seen[m]++; seen[m] > 1 {
				t.Errorf("marker %q reached the terminal more than once", m)
			}
		}

		// no overflow possible -> nothing may be missing
		if preBytes+overhead < capacity {
			if got := len(demoMarkerRe.FindAllString(early, -1)); got != run.markersAtLink {
				t.Errorf("expected all %d early markers on the terminal; got %d", run.markersAtLink, got)
			}
		}

		// failed drivers are reported on the log
		for _, d := range all {
			if !d.present || !d.failInit {
				continue
			}
			if !d.probedWhileLinked && preBytes+overhead >= capacity {
				continue // the report may legitimately have been dropped
			}
			found := false
			for _, line := range strings.Split(stream, "\n") {
				if strings.Contains(line, d.DriverName()+"(") && strings.Contains(line, "boom-"+strconv.Itoa(d.id)+"!") {
					found = true
				}
			}
			if !found {
				t.Errorf("init failure of driver %d is not reported on the log", d.id)
			}
		}

		// nothing left behind in the early buffer
		var rest bytes.Buffer
		kfmt.SetOutputSink(&rest)
		if rest.Len() != 0 {
			t.Errorf("%d bytes were left behind in the early buffer: %q", rest.Len(), rest.String())
		}
	} else {
		// no complete pair: the log must still sit in the early buffer
		if run.linkSeen {
			t.Errorf("kernel log got redirected although no console/terminal pair exists")
		}
		for _, tm := range terms {
			if tm.buf.Len() != 0 || tm.unattached != 0 {
				t.Errorf("terminal %d received output although no pair exists", tm.id)
			}
		}
		var rest bytes.Buffer
		kfmt.SetOutputSink(&rest)
		checkStream(t, "early buffer", rest.String(), "", run.markers, nil, capacity)
	}
}

func TestC16Keep3(t *testing.T) {
	// save the real drivers' registrations
	type saved struct {
		info *device.DriverInfo
		val  device.DriverInfo
	}
	var orig []saved
	for _, info := range device.DriverList() {
		orig = append(orig, saved{info, *info})
	}
	defer func() {
		demoNeutralise()
		for _, s := range orig {
			*s.info = s.val
		}
		devices = managedDevices{}
		strBuf.Reset()
		demoResetKernelLog()
	}()

	capacity := demoMeasureCapacity(t)
	t.Logf("early buffer retains %d bytes", capacity)

	fixed := []demoScenario{
		{
			name: "terminal first, console later",
			drivers: []demoSpec{
				{demoTTY, -128, true, false, 1},
				{demoPlain, -127, true, false, 2},
				{demoConsole, 0, true, false, 1},
				{demoPlain, 10, true, true, 1},
			},
			preLines: 5, prePad: 20, post: 4,
		},
		{
			name: "console first, terminal later",
			drivers: []demoSpec{
				{demoConsole, -128, true, false, 3},
				{demoPlain, -127, true, true, 0},
				{demoTTY, 5, true, false, 3},
				{demoPlain, 126, true, false, 1},
			},
			preLines: 5, prePad: 20, post: 4,
		},
		{
			name: "same detection order for everything",
			drivers: []demoSpec{
				{demoConsole, 0, true, false, 1},
				{demoTTY, 0, true, false, 1},
				{demoConsole, 0, true, false, 1},
				{demoTTY, 0, true, false, 1},
				{demoPlain, 0, true, true, 1},
			},
			preLines: 3, prePad: 10, post: 2,
		},
		{
			name: "first console and first terminal fail",
			drivers: []demoSpec{
				{demoConsole, -128, true, true, 1},
				{demoTTY, -128, true, true, 1},
				{demoConsole, -100, false, false, 0},
				{demoTTY, -100, false, false, 0},
				{demoConsole, 3, true, false, 2},
				{demoTTY, 4, true, false, 2},
				{demoConsole, 5, true, false, 2},
				{demoTTY, 6, true, false, 2},
			},
			preLines: 10, prePad: 30, post: 3,
		},
		{
			name: "pair completed by the very last driver",
			drivers: []demoSpec{
				{demoTTY, 126, true, false, 1},
				{demoConsole, 126, true, false, 1},
			},
			preLines: 2, prePad: 5, post: 5,
		},
		{
			name: "early log overflows the buffer",
			drivers: []demoSpec{
				{demoPlain, -5, true, true, 2},
				{demoTTY, -3, true, false, 1},
				{demoConsole, 9, true, false, 1},
				{demoPlain, 20, true, true, 2},
			},
			preLines: 400, prePad: 60, post: 6,
		},
		{
			name: "no console",
			drivers: []demoSpec{
				{demoTTY, -3, true, false, 1},
				{demoTTY, 2, true, false, 1},
				{demoPlain, 1, true, true, 1},
			},
			preLines: 4, prePad: 10, post: 3,
		},
		{
			name: "no terminal, log overflows",
			drivers: []demoSpec{
				{demoConsole, 3, true, false, 1},
				{demoConsole, -2, true, false, 1},
			},
			preLines: 300, prePad: 80, post: 3,
		},
		{
			name:     "no drivers",
			preLines: 3, prePad: 3, post: 3,
		},
	}

	rng := rand.New(rand.NewSource(0xC16))
	for _, sc := range fixed {
		sc := sc
		t.Run(sc.name, func(t *testing.T) { runDemoScenario(t, rng, sc, capacity) })
	}

	t.Run("random", func(t *testing.T) {
		for iter := 0; iter < 150 && !t.Failed(); iter++ {
			sc := demoScenario{name: "random-" + strconv.Itoa(iter)}
			n := rng.Intn(12)
			for i := 0; i < n; i++ {
				var order int
				switch rng.Intn(3) {
				case 0:
					order = []int{-128, -127, 0, 126}[rng.Intn(4)]
				case 1:
					order = rng.Intn(5) - 2
				default:
					order = rng.Intn(255) - 128
				}
				sc.drivers = append(sc.drivers, demoSpec{
					kind:     demoKind(rng.Intn(3)),
					order:    order,
					present:  rng.Intn(4) != 0,
					failInit: rng.Intn(4) == 0,
					initLogs: rng.Intn(4),
				})
			}
			switch rng.Intn(4) {
			case 0:
				sc.preLines = 0
			case 1:
				sc.preLines, sc.prePad = rng.Intn(20), rng.Intn(40)
			case 2:
				sc.preLines, sc.prePad = rng.Intn(120), rng.Intn(100)
			default:
				sc.preLines, sc.prePad = 100+rng.Intn(300), 20+rng.Intn(100)
			}
			sc.post = rng.Intn(6)
			runDemoScenario(t, rng, sc, capacity)
			if t.Failed() {
				t.Logf("failing scenario: %+v", sc)
			}
		}
	})

	t.Run("real VT on a fake console", func(t *testing.T) {
		for _, consoleFirst := range []bool{true, false} {
			devices = managedDevices{}
			strBuf.Reset()
			demoNeutralise()
			demoResetKernelLog()

			run := &demoRun{t: t}
			dc := &demoDrv{run: run, id: 1, present: true, initLogs: 2}
			cons := newDemoCons(dc, 120, 60)
			dt := &demoDrv{run: run, id: 2, present: true, initLogs: 2}
			vt := &realTerm{VT: tty.NewVT(4, 10), d: dt}
			dt.impl = vt
			dp := &demoDrv{run: run, id: 3, present: true, failInit: true, initLogs: 1}
			dp.impl = dp

			if consoleFirst {
				dc.order, dt.order, dp.order = -128, -127, 0
			} else {
				dc.order, dt.order, dp.order = 0, -127, -128
			}
			for _, d := range []*demoDrv{dp, dt, dc} {
				device.RegisterDriver(&device.DriverInfo{Order: d.order, Probe: d.probe})
			}

			for i := 0; i < 6; i++ {
				run.emitLog(rng, "pre", i, 0, rng.Intn(30))
			}
			DetectHardware()
			for i := 0; i < 4; i++ {
				run.emitLog(rng, "post", i, 0, rng.Intn(30))
			}

			if devices.activeConsole != console.Device(cons) || devices.activeTTY != tty.Device(vt) {
				t.Fatalf("[consoleFirst=%t] wrong active pair", consoleFirst)
			}
			if vt.State() != tty.StateActive {
				t.Errorf("[consoleFirst=%t] VT is not active", consoleFirst)
			}
			if kfmt.GetOutputSink() != io.Writer(vt) {
				t.Errorf("[consoleFirst=%t] kernel log does not go to the VT", consoleFirst)
			}
			for _, drv := range devices.activeDrivers {
				if drv == device.Driver(dp) {
					t.Errorf("[consoleFirst=%t] failed driver is active", consoleFirst)
				}
			}

			// the VT mirrors its contents on the console it is attached to
			screen := cons.text()
			got := demoMarkerRe.FindAllString(screen, -1)
			if len(got) != len(run.markers) {
				t.Fatalf("[consoleFirst=%t] expected %d markers on screen; got %d\n%s", consoleFirst, len(run.markers), len(got), screen)
			}
			for i, m := range got {
				if m != run.markers[i] {
					t.Fatalf("[consoleFirst=%t] marker %d: expected %q; got %q", consoleFirst, i, run.markers[i], m)
				}
			}
			reported := false
			for _, line := range strings.Split(screen, "\n") {
				if strings.Contains(line, "fk3(") && strings.Contains(line, "boom-3!") {
					reported = true
				}
			}
			if !reported {
				t.Errorf("[consoleFirst=%t] init failure not visible on screen:\n%s", consoleFirst, screen)
			}
		}
	})
}
