package vmm

// Demonstration for property C07 (kernel virtual-region reservations never
// overlap and never wrap). Copy to kernel/mm/vmm/c07_demo_test.go and run
//
//	cd kernel && go test -vet=off -count=1 -run TestC07Demo ./mm/vmm/
//
// The checks below only rely on what the property states: they do not assume
// a particular error value, a particular order of Map calls, a particular
// argument to the reservation hook, or the exact address that is returned.
// (The "fits" oracle additionally assumes that the allocator leaves no gaps
// between page-aligned regions, which is true of every version of this code.)

import (
	"math/rand"
	"testing"

	"github.com/ProjectSerenity/firefly/kernel"
	"github.com/ProjectSerenity/firefly/kernel/mm"
)

const c07MaxUintptr = ^uintptr(0)

// c07Pages returns ceil(size / PageSize) without overflowing.
func c07Pages(size uintptr) uintptr {
	n := size >> mm.PageShift
	if size&(mm.PageSize-1) != 0 {
		n++
	}
	return n
}

// c07Tracker checks each successful reservation against everything that was
// reserved before it.
type c07Tracker struct {
	t *testing.T
	// low is the lowest start address of any earlier reservation; it starts
	// at the temporary-mapping page.
	low uintptr
}

func (tr *c07Tracker) checkSuccess(what string, start, size uintptr) {
	tr.t.Helper()
	if start&(mm.PageSize-1) != 0 {
		tr.t.Fatalf("%s: start %#x is not page-aligned", what, start)
	}
	end := start + size
	if end < start {
		tr.t.Fatalf("%s: region [%#x, +%#x) wraps around", what, start, size)
	}
	if end > tr.low {
		tr.t.Fatalf("%s: region [%#x, %#x) is not entirely below %#x (earlier reservations / temp mapping page)", what, start, end, tr.low)
	}
	if end > tempMappingAddr {
		tr.t.Fatalf("%s: region [%#x, %#x) reaches the temp mapping page", what, start, end)
	}
	if start < tr.low {
		tr.low = start
	}
}

// checkNothingLost verifies that exactly the space below tr.low is still
// available, i.e. that failed requests reserved nothing: asking for all of it
// must succeed, and then one more byte must fail.
func (tr *c07Tracker) checkNothingLost(what string) {
	tr.t.Helper()
	remaining := tr.low
	start, err := EarlyReserveRegion(remaining)
	if err != nil {
		tr.t.Fatalf("%s: reserving the remaining %#x bytes failed: %v", what, remaining, err)
	}
	tr.checkSuccess(what+" (remaining space)", start, remaining)
	if remaining != 0 && start != 0 {
		tr.t.Fatalf("%s: remaining-space reservation should start at 0; got %#x", what, start)
	}
	if _, err = EarlyReserveRegion(1); err == nil {
		tr.t.Fatalf("%s: expected an error once the address space is exhausted", what)
	}
}

func TestC07DemoReserveSequence(t *testing.T) {
	defer func(orig uintptr) { earlyReserveLastUsed = orig }(earlyReserveLastUsed)
	earlyReserveLastUsed = tempMappingAddr

	tr := &c07Tracker{t: t, low: tempMappingAddr}

	// sizes that must succeed from a fresh address space
	for _, size := range []uintptr{0, 1, 42, 4095, 4096, 4097, 8191, 8192, 128000, 1 << 30, (1 << 30) + 1, 0} {
		start, err := EarlyReserveRegion(size)
		if err != nil {
			t.Fatalf("size %#x: unexpected error %v", size, err)
		}
		tr.checkSuccess("reserve", start, size)
	}

	// sizes that cannot fit any more (the whole space, more than the whole
	// space, and sizes that wrap when rounded up to a page multiple)
	for _, size := range []uintptr{
		tr.low + 1, tr.low + mm.PageSize, tempMappingAddr, tempMappingAddr + 1,
		c07MaxUintptr, c07MaxUintptr - 1, c07MaxUintptr - (mm.PageSize - 2), c07MaxUintptr - (mm.PageSize - 1),
		c07MaxUintptr - mm.PageSize,
	} {
		if start, err := EarlyReserveRegion(size); err == nil {
			t.Fatalf("size %#x: expected an error; got region at %#x", size, start)
		}
	}

	// more successes after the failures
	for _, size := range []uintptr{1, 4097, 0, 12288} {
		start, err := EarlyReserveRegion(size)
		if err != nil {
			t.Fatalf("size %#x: unexpected error %v", size, err)
		}
		tr.checkSuccess("reserve after failures", start, size)
	}

	tr.checkNothingLost("sequence")
}

func TestC07DemoSmallSpace(t *testing.T) {
	defer func(orig uintptr) { earlyReserveLastUsed = orig }(earlyReserveLastUsed)
	earlyReserveLastUsed = 3 * mm.PageSize

	tr := &c07Tracker{t: t, low: 3 * mm.PageSize}

	start, err := EarlyReserveRegion(4097) // two pages
	if err != nil {
		t.Fatal(err)
	}
	tr.checkSuccess("first", start, 4097)

	if _, err = EarlyReserveRegion(4097); err == nil {
		t.Fatal("two more pages cannot fit into the one remaining page")
	}
	if _, err = EarlyReserveRegion(c07MaxUintptr); err == nil {
		t.Fatal("max-size request must fail")
	}

	start, err = EarlyReserveRegion(4096)
	if err != nil {
		t.Fatal(err)
	}
	tr.checkSuccess("last page", start, 4096)
	if start != 0 {
		t.Fatalf("the only remaining page is page 0; got %#x", start)
	}

	if _, err = EarlyReserveRegion(1); err == nil {
		t.Fatal("expected an error when no space is left")
	}
}

func TestC07DemoRandomSequence(t *testing.T) {
	defer func(orig uintptr) { earlyReserveLastUsed = orig }(earlyReserveLastUsed)

	rng := rand.New(rand.NewSource(7))
	for round := 0; round < 50; round++ {
		earlyReserveLastUsed = tempMappingAddr
		tr := &c07Tracker{t: t, low: tempMappingAddr}

		for i := 0; i < 200; i++ {
			var size uintptr
			switch rng.Intn(6) {
			case 0:
				size = uintptr(rng.Intn(5 * 4096))
			case 1:
				size = uintptr(rng.Intn(64)) << mm.PageShift
			case 2:
				size = uintptr(rng.Uint64()) // anywhere in the integer range
			case 3:
				size = c07MaxUintptr - uintptr(rng.Intn(3*4096))
			case 4:
				size = tr.low - uintptr(rng.Intn(3))*mm.PageSize + uintptr(rng.Intn(3)) // around "all that is left"
			case 5:
				size = uintptr(rng.Uint64() >> uint(rng.Intn(64)))
			}

			fits := c07Pages(size) <= tr.low>>mm.PageShift
			start, err := EarlyReserveRegion(size)
			switch {
			case err != nil && fits:
				t.Fatalf("round %d: size %#x fits below %#x but was rejected: %v", round, size, tr.low, err)
			case err == nil && !fits:
				t.Fatalf("round %d: size %#x does not fit below %#x but got region %#x", round, size, tr.low, start)
			case err == nil:
				tr.checkSuccess("random", start, size)
			}
		}

		tr.checkNothingLost("random")
	}
}

func TestC07DemoMapRegion(t *testing.T) {
	defer func(orig uintptr) {
		earlyReserveLastUsed = orig
		mapFn = Map
		earlyReserveRegionFn = EarlyReserveRegion
	}(earlyReserveLastUsed)

	earlyReserveLastUsed = tempMappingAddr
	earlyReserveRegionFn = EarlyReserveRegion
	tr := &c07Tracker{t: t, low: tempMappingAddr}

	type mapping struct {
		frame mm.Frame
		flags PageTableEntryFlag
	}
	var mapped map[mm.Page]mapping
	mapFn = func(page mm.Page, frame mm.Frame, flags PageTableEntryFlag) *kernel.Error {
		if _, dup := mapped[page]; dup {
			t.Errorf("page %#x mapped more than once", page)
		}
		mapped[page] = mapping{frame, flags}
		return nil
	}

	flags := FlagPresent | FlagRW
	firstFrame := mm.Frame(0xdf0000)

	for _, size := range []uintptr{0, 1, 4095, 4096, 4097, 8192, 128000, 3*4096 + 1, 1 << 20} {
		mapped = make(map[mm.Page]mapping)

		// interleave a plain reservation so that regions of both kinds are
		// checked against each other
		rsv, err := EarlyReserveRegion(size / 2)
		if err != nil {
			t.Fatal(err)
		}
		tr.checkSuccess("interleaved reserve", rsv, size/2)

		page, err := MapRegion(firstFrame, size, flags)
		if err != nil {
			t.Fatalf("size %#x: %v", size, err)
		}
		tr.checkSuccess("MapRegion", page.Address(), size)

		exp := c07Pages(size)
		if uintptr(len(mapped)) != exp {
			t.Fatalf("size %#x: expected exactly %d pages to be mapped; got %d", size, exp, len(mapped))
		}
		for i := uintptr(0); i < exp; i++ {
			m, ok := mapped[page+mm.Page(i)]
			if !ok {
				t.Fatalf("size %#x: page %d of the region was not mapped", size, i)
			}
			if m.frame != firstFrame+mm.Frame(i) {
				t.Fatalf("size %#x: page %d mapped to frame %#x; expected %#x", size, i, m.frame, firstFrame+mm.Frame(i))
			}
			if m.flags != flags {
				t.Fatalf("size %#x: page %d mapped with flags %#x; expected %#x", size, i, m.flags, flags)
			}
		}
	}

	// requests that cannot fit: an error, nothing mapped, nothing reserved
	for _, size := range []uintptr{
		c07MaxUintptr, c07MaxUintptr - 1, c07MaxUintptr - (mm.PageSize - 2), c07MaxUintptr - (mm.PageSize - 1),
		c07MaxUintptr - mm.PageSize, tempMappingAddr + 1, tempMappingAddr, tr.low + 1,
	} {
		mapped = make(map[mm.Page]mapping)
		if page, err := MapRegion(firstFrame, size, flags); err == nil {
			t.Fatalf("size %#x: expected an error; got page %#x", size, page)
		}
		if len(mapped) != 0 {
			t.Fatalf("size %#x: %d pages were mapped by a failed request", size, len(mapped))
		}
	}

	mapped = make(map[mm.Page]mapping)
	tr.checkNothingLost("MapRegion")
}
