package tty

// Demonstration for property C18: "an active terminal and its console always
// show the same thing".
//
// Copy this file to kernel/device/tty/c18_keep_demo_test.go and run
//
//	cd kernel && go test -vet=off -count=1 -run TestC18Keep ./device/tty/
//
// The test drives tty.VT attached to the shipped text-mode and framebuffer
// consoles with pseudo-random byte streams interleaved with
// activate/deactivate calls. The expected display is computed by a small
// reference model of the terminal that is written against the documented
// behaviour only (it never looks at the terminal's private buffer). After
// every write the console memory is decoded and compared, cell by cell and
// pixel by pixel, with the model; every byte outside the cell grid must keep
// its initial value; while the terminal is inactive the console memory must
// not change at all.

import (
	"fmt"
	"image/color"
	"math/rand"
	"reflect"
	"testing"
	"unsafe"

	"github.com/ProjectSerenity/firefly/kernel/device/video/console"
	"github.com/ProjectSerenity/firefly/kernel/device/video/console/font"
	"github.com/ProjectSerenity/firefly/kernel/multiboot"
)

const c18Sentinel = 0xa5

// ---------------------------------------------------------------------------
// reference model
// ---------------------------------------------------------------------------

type c18Cell struct{ ch, fg, bg uint8 }

type c18Model struct {
	w, h         int
	tab          int
	defFg, defBg uint8
	cx, cy       int // 1-based
	rows         [][]c18Cell
	scrolls      uint64
}

func newC18Model(w, h, tab int, defFg, defBg uint8) *c18Model {
	m := &c18Model{w: w, h: h, tab: tab, defFg: defFg, defBg: defBg, cx: 1, cy: 1}
	for y := 0; y < h; y++ {
		m.rows = append(m.rows, m.blankRow())
	}
	return m
}

func (m *c18Model) blankRow() []c18Cell {
	row := make([]c18Cell, m.w)
	for i := range row {
		row[i] = c18Cell{' ', m.defFg, m.defBg}
	}
	return row
}

func (m *c18Model) lineFeed() {
	if m.cy < m.h {
		m.cy++
		return
	}
	m.rows = append(m.rows[1:], m.blankRow())
	m.scrolls++
}

func (m *c18Model) put(ch, fg, bg uint8, advance bool) {
	m.rows[m.cy-1][m.cx-1] = c18Cell{ch, fg, bg}
	if advance {
		m.cx++
		if m.cx > m.w {
			m.cx = 1
			m.lineFeed()
		}
	}
}

func (m *c18Model) write(b, fg, bg uint8) {
	switch b {
	case '\r':
		m.cx = 1
	case '\n':
		m.cx = 1
		m.lineFeed()
	case '\b':
		if m.cx > 1 {
			m.cx--
			m.put(' ', fg, bg, false)
		}
	case '\t':
		for i := 0; i < m.tab; i++ {
			m.put(' ', fg, bg, true)
		}
	default:
		m.put(b, fg, bg, true)
	}
}

// ---------------------------------------------------------------------------
// console plumbing (private fields are reached by name)
// ---------------------------------------------------------------------------

func c18Field(obj interface{}, name string) reflect.Value {
	f := reflect.ValueOf(obj).Elem().FieldByName(name)
	if !f.IsValid() {
		panic("no field " + name)
	}
	return reflect.NewAt(f.Type(), unsafe.Pointer(f.UnsafeAddr())).Elem()
}

// c18Display abstracts "what does the console show".
type c18Display interface {
	cons() console.Device
	// snapshot returns a copy of the raw console memory.
	snapshot() []byte
	// check compares the console memory with the model.
	check(m *c18Model) error
}

// --- text mode --------------------------------------------------------------

type c18Text struct {
	dev  *console.VgaTextConsole
	w, h int
	fb   []uint16
	// guard cells before and after the visible cells
	all []uint16
}

const c18TextGuard = 64

func newC18Text(w, h int) *c18Text {
	d := &c18Text{w: w, h: h}
	d.all = make([]uint16, w*h+2*c18TextGuard)
	for i := range d.all {
		d.all[i] = c18Sentinel<<8 | c18Sentinel
	}
	d.fb = d.all[c18TextGuard : c18TextGuard+w*h : c18TextGuard+w*h]
	d.dev = console.NewVgaTextConsole(uint32(w), uint32(h), 0)
	c18Field(d.dev, "fb").Set(reflect.ValueOf(d.fb))
	return d
}

func (d *c18Text) cons() console.Device { return d.dev }

func (d *c18Text) snapshot() []byte {
	out := make([]byte, 0, len(d.all)*2)
	for _, v := range d.all {
		out = append(out, byte(v), byte(v>>8))
	}
	return out
}

func (d *c18Text) check(m *c18Model) error {
	for i := 0; i < c18TextGuard; i++ {
		if d.all[i] != c18Sentinel<<8|c18Sentinel || d.all[len(d.all)-1-i] != c18Sentinel<<8|c18Sentinel {
			return fmt.Errorf("text console wrote outside of its cell grid (guard cell %d)", i)
		}
	}
	for y := 0; y < d.h; y++ {
		for x := 0; x < d.w; x++ {
			c := m.rows[y][x]
			exp := (uint16(c.bg)<<4|uint16(c.fg))<<8 | uint16(c.ch)
			if got := d.fb[y*d.w+x]; got != exp {
				return fmt.Errorf("text cell (%d,%d): got 0x%04x; want 0x%04x (%q fg %d bg %d)", x+1, y+1, got, exp, c.ch, c.fg, c.bg)
			}
		}
	}
	return nil
}

// --- framebuffer ------------------------------------------------------------

type c18Fb struct {
	dev                  *console.VesaFbConsole
	bpp                  int
	bytesPP              int
	width, height, pitch int
	offsetY              int
	fnt                  *font.Font
	info                 *multiboot.FramebufferRGBColorInfo
	pal                  color.Palette
	fb                   []byte
	cw, chh              int
}

func newC18Fb(rnd *rand.Rand, width, height, bpp, pad, offsetY int, fnt *font.Font, info *multiboot.FramebufferRGBColorInfo) *c18Fb {
	d := &c18Fb{bpp: bpp, bytesPP: (bpp + 1) >> 3, width: width, height: height, offsetY: offsetY, fnt: fnt, info: info}
	d.pitch = width*d.bytesPP + pad
	d.fb = make([]byte, d.pitch*height)
	for i := range d.fb {
		d.fb[i] = c18Sentinel
	}

	d.pal = make(color.Palette, 256)
	for i := range d.pal {
		d.pal[i] = color.RGBA{R: uint8(rnd.Intn(256)), G: uint8(rnd.Intn(256)), B: uint8(rnd.Intn(256))}
	}

	d.dev = console.NewVesaFbConsole(uint32(width), uint32(height), uint8(bpp), uint32(d.pitch), info, 0)
	c18Field(d.dev, "fb").Set(reflect.ValueOf(d.fb))
	c18Field(d.dev, "palette").Set(reflect.ValueOf(d.pal))
	// Space reserved for the logo (SetLogo needs port I/O for 8bpp, so the
	// offset it would establish is set directly); must precede SetFont.
	c18Field(d.dev, "offsetY").SetUint(uint64(offsetY))
	d.dev.SetFont(fnt)

	d.cw = width / int(fnt.GlyphWidth)
	d.chh = (height - offsetY) / int(fnt.GlyphHeight)
	return d
}

func (d *c18Fb) cons() console.Device { return d.dev }

func (d *c18Fb) snapshot() []byte { return append([]byte(nil), d.fb...) }

// pixel returns the bytes the framebuffer must hold for a palette index.
func (d *c18Fb) pixel(index uint8) []byte {
	if d.bpp == 8 {
		return []byte{index}
	}
	c := d.pal[index].(color.RGBA)
	packed := uint32(c.R>>(8-d.info.RedMaskSize))<<d.info.RedPosition |
		uint32(c.G>>(8-d.info.GreenMaskSize))<<d.info.GreenPosition |
		uint32(c.B>>(8-d.info.BlueMaskSize))<<d.info.BluePosition
	if d.bpp <= 16 {
		return []byte{byte(packed), byte(packed >> 8)}
	}
	return []byte{byte(packed), byte(packed >> 8), byte(packed >> 16)}
}

func (d *c18Fb) check(m *c18Model) error {
	exp := make([]byte, len(d.fb))
	for i := range exp {
		exp[i] = c18Sentinel
	}

	gw, gh, bpr := int(d.fnt.GlyphWidth), int(d.fnt.GlyphHeight), int(d.fnt.BytesPerRow)
	for y := 0; y < d.chh; y++ {
		for x := 0; x < d.cw; x++ {
			c := m.rows[y][x]
			fg, bg := d.pixel(c.fg), d.pixel(c.bg)
			for gy := 0; gy < gh; gy++ {
				for gx := 0; gx < gw; gx++ {
					bits := d.fnt.Data[(int(c.ch)*gh+gy)*bpr+gx/8]
					px := bg
					if bits&(0x80>>uint(gx%8)) != 0 {
						px = fg
					}
					off := (d.offsetY+y*gh+gy)*d.pitch + (x*gw+gx)*d.bytesPP
					copy(exp[off:], px)
				}
			}
		}
	}

	for i := range exp {
		if exp[i] != d.fb[i] {
			row, col := i/d.pitch, (i%d.pitch)/d.bytesPP
			where := "outside of the cell grid"
			if row >= d.offsetY && row < d.offsetY+d.chh*gh && col < d.cw*gw {
				where = fmt.Sprintf("in cell (%d,%d)", col/gw+1, (row-d.offsetY)/gh+1)
			}
			return fmt.Errorf("framebuffer byte %d (pixel row %d, col %d, %s): got 0x%02x; want 0x%02x", i, row, col, where, d.fb[i], exp[i])
		}
	}
	return nil
}

// c18RandomFont builds a font with random glyphs; like in the shipped fonts
// the glyph for the space character is empty.
func c18RandomFont(rnd *rand.Rand, gw, gh int) *font.Font {
	bpr := (gw + 7) / 8
	f := &font.Font{
		Name:        fmt.Sprintf("random%dx%d", gw, gh),
		GlyphWidth:  uint32(gw),
		GlyphHeight: uint32(gh),
		BytesPerRow: uint32(bpr),
		Data:        make([]byte, 256*bpr*gh),
	}
	rnd.Read(f.Data)
	for i := ' ' * bpr * gh; i < (' '+1)*bpr*gh; i++ {
		f.Data[i] = 0
	}
	return f
}

// ---------------------------------------------------------------------------
// driver
// ---------------------------------------------------------------------------

type c18Scenario struct {
	name       string
	display    func(rnd *rand.Rand) c18Display
	tab        uint8
	scrollback uint32
	maxColor   int // colours are drawn from [0, maxColor)
	steps      int
}

func c18RandomChunk(rnd *rand.Rand, width int) []byte {
	n := 1 + rnd.Intn(2*width+3)
	out := make([]byte, n)
	for i := range out {
		switch r := rnd.Intn(100); {
		case r < 8:
			out[i] = '\n'
		case r < 12:
			out[i] = '\r'
		case r < 18:
			out[i] = '\b'
		case r < 30:
			out[i] = '\t'
		case r < 40:
			out[i] = ' '
		case r < 90:
			out[i] = byte('!' + rnd.Intn(94))
		default:
			// any other byte, including the ones above 127; skip the
			// four control characters that were already covered.
			for {
				out[i] = byte(rnd.Intn(256))
				if out[i] != '\n' && out[i] != '\r' && out[i] != '\b' && out[i] != '\t' {
					break
				}
			}
		}
	}
	return out
}

func c18Run(t *testing.T, sc c18Scenario, seed int64) {
	rnd := rand.New(rand.NewSource(seed))
	disp := sc.display(rnd)
	cons := disp.cons()

	w32, h32 := cons.Dimensions(console.Characters)
	w, h := int(w32), int(h32)
	if w == 0 || h == 0 {
		t.Fatalf("degenerate console %dx%d", w, h)
	}

	pristine := disp.snapshot()

	term := NewVT(sc.tab, sc.scrollback)
	term.AttachTo(cons)
	defFg, defBg := cons.DefaultColors()
	model := newC18Model(w, h, int(sc.tab), defFg, defBg)

	same := func(a, b []byte) bool {
		if len(a) != len(b) {
			return false
		}
		for i := range a {
			if a[i] != b[i] {
				return false
			}
		}
		return true
	}

	if !same(pristine, disp.snapshot()) {
		t.Fatalf("attaching an inactive terminal touched the console")
	}

	active := false
	frozen := pristine
	fg, bg := defFg, defBg

	for step := 0; step < sc.steps; step++ {
		switch r := rnd.Intn(100); {
		case r < 6:
			term.SetState(StateActive)
			if !active {
				active = true
			}
			if err := disp.check(model); err != nil {
				t.Fatalf("[seed %d step %d] after activation: %v", seed, step, err)
			}
			continue
		case r < 11:
			term.SetState(StateInactive)
			if active {
				active = false
				frozen = disp.snapshot()
			}
			continue
		case r < 16 && sc.maxColor > 0:
			// a colour change is not part of the byte stream; it is
			// made the same way the package's own tests do it.
			fg, bg = uint8(rnd.Intn(sc.maxColor)), uint8(rnd.Intn(sc.maxColor))
			term.curFg, term.curBg = fg, bg
			continue
		}

		chunk := c18RandomChunk(rnd, w)
		if rnd.Intn(2) == 0 {
			n, err := term.Write(chunk)
			if err != nil || n != len(chunk) {
				t.Fatalf("[seed %d step %d] Write returned (%d, %v)", seed, step, n, err)
			}
			for _, b := range chunk {
				model.write(b, fg, bg)
			}
			if active {
				if err := disp.check(model); err != nil {
					t.Fatalf("[seed %d step %d] after Write(%q): %v", seed, step, chunk, err)
				}
			}
		} else {
			for i, b := range chunk {
				if err := term.WriteByte(b); err != nil {
					t.Fatalf("[seed %d step %d] WriteByte returned %v", seed, step, err)
				}
				model.write(b, fg, bg)
				if active {
					if err := disp.check(model); err != nil {
						t.Fatalf("[seed %d step %d] after byte %d of %q: %v", seed, step, i, chunk, err)
					}
				}
			}
		}

		if !active && !same(frozen, disp.snapshot()) {
			t.Fatalf("[seed %d step %d] the console was touched while the terminal was inactive", seed, step)
		}

		if cx, cy := term.CursorPosition(); int(cx) != model.cx || int(cy) != model.cy {
			t.Fatalf("[seed %d step %d] cursor at (%d,%d); model says (%d,%d)", seed, step, cx, cy, model.cx, model.cy)
		}
	}

	// Whatever happened before, activating must bring the console in sync.
	term.SetState(StateInactive)
	term.SetState(StateActive)
	if err := disp.check(model); err != nil {
		t.Fatalf("[seed %d] after the final activation: %v", seed, err)
	}

	// Optional: if the terminal reports scroll statistics, the number of
	// one-line scrolls must agree with the model and the number of dropped
	// lines can never exceed it.
	if fn := reflect.ValueOf(term).MethodByName("ScrollStats"); fn.IsValid() {
		out := fn.Call(nil)
		scrolled, dropped := out[0].Uint(), out[1].Uint()
		if scrolled != model.scrolls {
			t.Fatalf("[seed %d] ScrollStats reports %d scrolled lines; model says %d", seed, scrolled, model.scrolls)
		}
		expDropped := uint64(0)
		if model.scrolls > uint64(sc.scrollback) {
			expDropped = model.scrolls - uint64(sc.scrollback)
		}
		if dropped != expDropped {
			t.Fatalf("[seed %d] ScrollStats reports %d dropped lines; want %d", seed, dropped, expDropped)
		}
	}
}

func TestC18KeepTextMode(t *testing.T) {
	sizes := [][2]int{{80, 25}, {1, 1}, {1, 4}, {5, 1}, {3, 2}, {7, 5}, {132, 50}, {40, 3}}
	tabs := []uint8{4, 0, 1, 8, 200}
	scrollbacks := []uint32{0, 1, 3, 80}

	n := 0
	for _, size := range sizes {
		for _, tab := range tabs {
			for _, sb := range scrollbacks {
				size, tab, sb := size, tab, sb
				n++
				sc := c18Scenario{
					name:       fmt.Sprintf("text %dx%d tab %d scrollback %d", size[0], size[1], tab, sb),
					display:    func(*rand.Rand) c18Display { return newC18Text(size[0], size[1]) },
					tab:        tab,
					scrollback: sb,
					// bg 15 and fg > 15 are replaced by the
					// console; stay inside the range it honours
					maxColor: 15,
					steps:    250,
				}
				if size[0]*size[1] > 2000 {
					sc.steps = 60
				}
				t.Run(sc.name, func(t *testing.T) { c18Run(t, sc, int64(1000+n)) })
			}
		}
	}
}

func TestC18KeepFramebuffer(t *testing.T) {
	rgb555 := &multiboot.FramebufferRGBColorInfo{RedPosition: 10, RedMaskSize: 5, GreenPosition: 5, GreenMaskSize: 5, BluePosition: 0, BlueMaskSize: 5}
	rgb565 := &multiboot.FramebufferRGBColorInfo{RedPosition: 11, RedMaskSize: 5, GreenPosition: 5, GreenMaskSize: 6, BluePosition: 0, BlueMaskSize: 5}
	rgb888 := &multiboot.FramebufferRGBColorInfo{RedPosition: 16, RedMaskSize: 8, GreenPosition: 8, GreenMaskSize: 8, BluePosition: 0, BlueMaskSize: 8}
	bgr888 := &multiboot.FramebufferRGBColorInfo{RedPosition: 0, RedMaskSize: 8, GreenPosition: 8, GreenMaskSize: 8, BluePosition: 16, BlueMaskSize: 8}

	depths := []struct {
		bpp  int
		info *multiboot.FramebufferRGBColorInfo
	}{
		{8, nil}, {15, rgb555}, {16, rgb565}, {24, rgb888}, {24, bgr888}, {32, rgb888}, {32, bgr888},
	}

	// width, height, pitch padding, logo offset, glyph width, glyph height
	// (glyph width 0 selects a shipped font by name)
	geoms := []struct {
		w, h, pad, offY, gw, gh int
		shipped                 string
	}{
		{w: 16, h: 6, pad: 0, offY: 0, gw: 8, gh: 1},    // no margin at all: rows are contiguous
		{w: 16, h: 9, pad: 0, offY: 3, gw: 8, gh: 2},    // logo rows only
		{w: 19, h: 11, pad: 0, offY: 0, gw: 5, gh: 3},   // right margin and left-over rows
		{w: 23, h: 17, pad: 7, offY: 2, gw: 10, gh: 4},  // two bytes per glyph row, padding, logo
		{w: 10, h: 4, pad: 3, offY: 0, gw: 10, gh: 4},   // a single cell
		{w: 9, h: 14, pad: 1, offY: 1, gw: 9, gh: 3},    // a single column
		{w: 31, h: 5, pad: 2, offY: 2, gw: 6, gh: 3},    // a single row
		{w: 42, h: 53, pad: 6, offY: 4, shipped: "terminus8x16"},
		{w: 35, h: 60, pad: 0, offY: 5, shipped: "terminus10x18"},
	}

	n := 0
	for _, depth := range depths {
		for gi, g := range geoms {
			depth, g := depth, g
			n++
			tab := []uint8{4, 3, 0, 8}[gi%4]
			sb := []uint32{0, 2, 80, 1}[(gi+n)%4]
			sc := c18Scenario{
				name: fmt.Sprintf("fb %dbpp #%d %dx%d pad %d logo %d tab %d scrollback %d", depth.bpp, gi, g.w, g.h, g.pad, g.offY, tab, sb),
				display: func(rnd *rand.Rand) c18Display {
					var fnt *font.Font
					if g.shipped != "" {
						if fnt = font.FindByName(g.shipped); fnt == nil {
							panic("shipped font not found: " + g.shipped)
						}
					} else {
						fnt = c18RandomFont(rnd, g.gw, g.gh)
					}
					return newC18Fb(rnd, g.w, g.h, depth.bpp, g.pad, g.offY, fnt, depth.info)
				},
				tab:        tab,
				scrollback: sb,
				maxColor:   256,
				steps:      120,
			}
			t.Run(sc.name, func(t *testing.T) { c18Run(t, sc, int64(5000+n)) })
		}
	}
}

// TestC18KeepScrollPrimitive exercises the consoles' Scroll primitive the way
// the terminal uses it (scroll up by one line, then clear the vacated line)
// on a grid that holds distinct content in every cell.
func TestC18KeepScrollPrimitive(t *testing.T) {
	rnd := rand.New(rand.NewSource(77))
	rgb565 := &multiboot.FramebufferRGBColorInfo{RedPosition: 11, RedMaskSize: 5, GreenPosition: 5, GreenMaskSize: 6, BluePosition: 0, BlueMaskSize: 5}

	displays := []c18Display{
		newC18Text(9, 6),
		newC18Fb(rnd, 16, 8, 8, 0, 2, c18RandomFont(rnd, 8, 2), nil),
		newC18Fb(rnd, 29, 23, 16, 5, 3, c18RandomFont(rnd, 7, 4), rgb565),
	}

	for di, disp := range displays {
		cons := disp.cons()
		w32, h32 := cons.Dimensions(console.Characters)
		w, h := int(w32), int(h32)
		defFg, defBg := cons.DefaultColors()
		model := newC18Model(w, h, 4, defFg, defBg)

		for y := 0; y < h; y++ {
			for x := 0; x < w; x++ {
				c := c18Cell{ch: uint8('A' + (y*w+x)%50), fg: uint8((x + 2*y) % 15), bg: uint8((3*x + y) % 15)}
				model.rows[y][x] = c
				cons.Write(c.ch, c.fg, c.bg, uint32(x+1), uint32(y+1))
			}
		}
		if err := disp.check(model); err != nil {
			t.Fatalf("[display %d] after the initial draw: %v", di, err)
		}

		for round := 0; round < h+2; round++ {
			cons.Scroll(console.ScrollDirUp, 1)
			cons.Fill(1, uint32(h), uint32(w), 1, defFg, defBg)
			model.rows = append(model.rows[1:], model.blankRow())
			if err := disp.check(model); err != nil {
				t.Fatalf("[display %d] after scroll round %d: %v", di, round, err)
			}
		}
	}
}
