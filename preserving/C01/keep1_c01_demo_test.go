package pmm

// Demonstration for property C01 ("physical frames are handed out exclusively
// and only from free RAM").
//
// Copy this file to kernel/mm/pmm/keep1_c01_demo_test.go and run:
//
//   cd kernel && go test -vet=off -count=1 -run TestKeep1C01 ./mm/pmm/
//
// The tests only check what the property states: every frame handed out after
// Init lies wholly inside an available region, is not part of the kernel image,
// was not consumed by the early allocator, and is not currently held by
// anybody else. They make no assumption about WHICH of the eligible frames is
// handed out, nor about the internal representation of the allocator.

import (
	"math/rand"
	"testing"
	"unsafe"

	"github.com/ProjectSerenity/firefly/kernel"
	"github.com/ProjectSerenity/firefly/kernel/mm"
	"github.com/ProjectSerenity/firefly/kernel/mm/vmm"
	"github.com/ProjectSerenity/firefly/kernel/multiboot"
)

type keep1Region struct {
	addr, length uint64
	typ          uint32 // 1 = available, anything else is not
}

// keep1BuildMultibootInfo encodes regions as a multiboot2 info blob that only
// contains a memory map tag. The backing store is a []uint64 so that it is
// 8-byte aligned.
func keep1BuildMultibootInfo(regions []keep1Region) []uint64 {
	// info header (8) + tag header (8) + mmap header (8) + 24 * entries + end tag (8)
	words := make([]uint64, 0, 4+3*len(regions))
	tagSize := uint64(16 + 24*len(regions))
	totalSize := uint64(8 + tagSize + 8)
	words = append(words, totalSize)        // total size, reserved
	words = append(words, 6|tagSize<<32)    // tag type 6 (memory map), tag size
	words = append(words, 24|uint64(0)<<32) // entry size, entry version
	for _, r := range regions {
		words = append(words, r.addr, r.length, uint64(r.typ))
	}
	words = append(words, 0|uint64(8)<<32) // end tag: type 0, size 8
	return words
}

// keep1Eligible computes, independently of the allocator code, the set of
// frames that may ever be handed out: frames lying wholly inside an available
// region, minus the frames touched by the kernel image [kernelStart, kernelEnd).
func keep1Eligible(regions []keep1Region, kernelStart, kernelEnd uint64) map[mm.Frame]bool {
	const pageSize = uint64(4096)
	eligible := make(map[mm.Frame]bool)
	for _, r := range regions {
		if r.typ != 1 {
			continue
		}
		for f := r.addr / pageSize; (f+1)*pageSize <= r.addr+r.length; f++ {
			if f*pageSize < r.addr {
				continue
			}
			if kernelEnd > kernelStart && f*pageSize < kernelEnd && (f+1)*pageSize > kernelStart {
				continue // overlaps the kernel image
			}
			eligible[mm.Frame(f)] = true
		}
	}
	return eligible
}

type keep1Scenario struct {
	name                   string
	regions                []keep1Region
	kernelStart, kernelEnd uint64
}

func keep1Scenarios() []keep1Scenario {
	return []keep1Scenario{
		{
			name: "qemu-like map, kernel at 1M",
			regions: []keep1Region{
				{0x0, 0x9fc00, 1},
				{0x9fc00, 0x400, 2},
				{0xf0000, 0x10000, 2},
				{0x100000, 0x7ee0000, 1},
				{0x7fe0000, 0x20000, 2},
				{0xfffc0000, 0x40000, 2},
			},
			kernelStart: 0x100000, kernelEnd: 0x1fa7c8,
		},
		{
			name: "unaligned regions, tiny regions, kernel in the middle of the second usable region",
			regions: []keep1Region{
				{0x800, 0x700, 1},     // less than one page
				{0x1800, 0x1100, 1},   // more than a page long but contains no whole page
				{0x3400, 0x20c00, 1},  // [0x3400, 0x24000): frames 4..35
				{0x24000, 0x1000, 3},  // ACPI reclaimable: not available
				{0x25000, 0x42345, 1}, // [0x25000, 0x67345): frames 37..102
				{0x67345, 0xcbb, 2},
				{0x80000, 0x46800, 1}, // [0x80000, 0xc6800): frames 128..197 (70 frames: padded bitmap block)
			},
			kernelStart: 0x30000, kernelEnd: 0x34321,
		},
		{
			name: "kernel at the very start of the first usable region",
			regions: []keep1Region{
				{0x10000, 0x8000, 1}, // frames 16..23
				{0x18000, 0x8000, 2},
				{0x20000, 0x41000, 1}, // frames 32..96 (65 frames)
			},
			kernelStart: 0x10000, kernelEnd: 0x12001,
		},
		{
			name: "kernel at the very end of a region, adjacent available regions",
			regions: []keep1Region{
				{0x0, 0x40000, 1},      // frames 0..63 (exactly one bitmap block)
				{0x40000, 0x40800, 1},  // frames 64..127, ends mid-page
				{0x80800, 0x3f800, 1},  // starts mid-page: frames 129..191
				{0x100000, 0x80000, 1}, // frames 256..383
			},
			kernelStart: 0x7c000, kernelEnd: 0x80000,
		},
		{
			name: "kernel in the last region, single frame pools",
			regions: []keep1Region{
				{0x1000, 0x1000, 1}, // frame 1
				{0x2000, 0x1000, 2},
				{0x3000, 0x1fff, 1}, // frame 3
				{0x5000, 0x1000, 4},
				{0x6fff, 0x2002, 1}, // frames 7..8
				{0x9001, 0xfff, 5},
				{0x10000, 0x100000, 1}, // frames 16..271
			},
			kernelStart: 0x20000, kernelEnd: 0x41000,
		},
	}
}

// keep1Boot brings the physical memory manager up for the given scenario and
// returns the set of eligible frames and the set of frames consumed by the
// early allocator during initialisation.
func keep1Boot(t *testing.T, sc keep1Scenario) (eligible, early map[mm.Frame]bool, infoKeepAlive []uint64, stateKeepAlive []byte) {
	info := keep1BuildMultibootInfo(sc.regions)
	multiboot.SetInfoPtr(uintptr(unsafe.Pointer(&info[0])))

	// Start from pristine allocators, just like at boot.
	bootMemAllocator = BootMemAllocator{}
	bitmapAllocator = BitmapAllocator{}

	early = make(map[mm.Frame]bool)
	var state []byte
	reserveRegionFn = func(size uintptr) (uintptr, *kernel.Error) {
		// page-align the backing store for the allocator state
		state = make([]byte, size+2*mm.PageSize)
		addr := (uintptr(unsafe.Pointer(&state[0])) + mm.PageSize - 1) &^ (mm.PageSize - 1)
		return addr, nil
	}
	mapFn = func(_ mm.Page, frame mm.Frame, _ vmm.PageTableEntryFlag) *kernel.Error {
		// every frame mapped during Init was obtained from the early allocator
		if early[frame] {
			t.Fatalf("[%s] early allocator handed out frame %d twice", sc.name, frame)
		}
		early[frame] = true
		return nil
	}

	if err := Init(uintptr(sc.kernelStart), uintptr(sc.kernelEnd)); err != nil {
		t.Fatalf("[%s] Init failed: %v", sc.name, err)
	}

	if len(early) == 0 {
		t.Fatalf("[%s] expected the early allocator to be used during Init", sc.name)
	}

	return keep1Eligible(sc.regions, sc.kernelStart, sc.kernelEnd), early, info, state
}

// keep1Checker tracks which frames are currently held and validates every
// frame returned by the allocator against the property.
type keep1Checker struct {
	t        *testing.T
	name     string
	eligible map[mm.Frame]bool
	early    map[mm.Frame]bool
	held     map[mm.Frame]int // frame -> owner
	heldList []mm.Frame
}

func (c *keep1Checker) alloc(owner int) bool {
	frame, err := mm.AllocFrame() // goes through the registered allocator, as the rest of the kernel does
	if err != nil {
		if frame.Valid() {
			c.t.Fatalf("[%s] allocation failed with %v but returned valid frame %d", c.name, err, frame)
		}
		return false
	}
	if !frame.Valid() {
		c.t.Fatalf("[%s] allocation succeeded but returned the invalid frame", c.name)
	}
	if !c.eligible[frame] {
		c.t.Fatalf("[%s] frame %d (0x%x) is not wholly inside available RAM or belongs to the kernel image", c.name, frame, frame.Address())
	}
	if c.early[frame] {
		c.t.Fatalf("[%s] frame %d was already consumed by the early allocator", c.name, frame)
	}
	if prev, isHeld := c.held[frame]; isHeld {
		c.t.Fatalf("[%s] frame %d handed to caller %d while still held by caller %d", c.name, frame, owner, prev)
	}
	c.held[frame] = owner
	c.heldList = append(c.heldList, frame)
	return true
}

func (c *keep1Checker) freeAt(index int) {
	frame := c.heldList[index]
	c.heldList[index] = c.heldList[len(c.heldList)-1]
	c.heldList = c.heldList[:len(c.heldList)-1]
	delete(c.held, frame)
	if err := bitmapAllocator.FreeFrame(frame); err != nil {
		c.t.Fatalf("[%s] freeing held frame %d failed: %v", c.name, frame, err)
	}
}

// TestKeep1C01InitAndInterleavings boots the pmm over several memory maps and
// kernel placements and then runs random interleavings of allocate and free
// calls issued by several callers.
func TestKeep1C01InitAndInterleavings(t *testing.T) {
	defer func() {
		mapFn = vmm.Map
		reserveRegionFn = vmm.EarlyReserveRegion
	}()

	for scIndex, sc := range keep1Scenarios() {
		for seed := int64(1); seed <= 3; seed++ {
			eligible, early, info, state := keep1Boot(t, sc)
			for f := range early {
				if !eligible[f] {
					t.Fatalf("[%s] early allocator frame %d is not in free RAM", sc.name, f)
				}
			}

			rng := rand.New(rand.NewSource(seed*1000 + int64(scIndex)))
			c := &keep1Checker{t: t, name: sc.name, eligible: eligible, early: early, held: make(map[mm.Frame]int)}
			capacity := len(eligible) - len(early)

			// Phase 1: random interleaving biased towards allocation.
			steps := 4 * capacity
			if steps > 6000 {
				steps = 6000
			}
			for i := 0; i < steps; i++ {
				if len(c.heldList) == 0 || rng.Intn(100) < 60 {
					if !c.alloc(rng.Intn(4)) && len(c.heldList) != capacity {
						t.Fatalf("[%s] out of memory with %d/%d frames held", sc.name, len(c.heldList), capacity)
					}
				} else {
					c.freeAt(rng.Intn(len(c.heldList)))
				}
			}

			// Phase 2: exhaust the allocator; every eligible frame that is not
			// an early allocator frame must end up being held exactly once.
			for c.alloc(rng.Intn(4)) {
			}
			if len(c.heldList) != capacity {
				t.Fatalf("[%s] expected to be able to hold %d frames; got %d", sc.name, capacity, len(c.heldList))
			}

			// Phase 3: free a random subset and allocate again until exhausted:
			// only frames that have been freed can come back.
			freed := make(map[mm.Frame]bool)
			for i, n := 0, 1+rng.Intn(1+capacity/3); i < n; i++ {
				index := rng.Intn(len(c.heldList))
				freed[c.heldList[index]] = true
				c.freeAt(index)
			}
			before := len(c.heldList)
			for c.alloc(rng.Intn(4)) {
				got := c.heldList[len(c.heldList)-1]
				if !freed[got] {
					t.Fatalf("[%s] frame %d handed out again without having been freed", sc.name, got)
				}
				delete(freed, got)
			}
			if len(freed) != 0 || len(c.heldList) != before+(capacity-before) {
				t.Fatalf("[%s] expected all freed frames to be available again; %d were not", sc.name, len(freed))
			}

			// Phase 4: churn close to exhaustion, then drain completely.
			for i := 0; i < 500; i++ {
				if len(c.heldList) > 0 && (len(c.heldList) == capacity || rng.Intn(2) == 0) {
					c.freeAt(rng.Intn(len(c.heldList)))
				} else {
					c.alloc(rng.Intn(4))
				}
			}
			for len(c.heldList) > 0 {
				c.freeAt(rng.Intn(len(c.heldList)))
			}
			for i := 0; i < 10 && i < capacity; i++ {
				if !c.alloc(0) {
					t.Fatalf("[%s] allocator reports out of memory after all frames were freed", sc.name)
				}
			}

			_, _ = info, state // keep the backing stores alive till here
		}
	}
}

// TestKeep1C01DirectPools drives a hand-assembled allocator (the way the
// existing unit tests do) whose pools have sizes that are not multiples of 64
// and makes sure that frames outside the pools (e.g. the ones that correspond
// to the padding bits of the last bitmap block) are never handed out, and that
// no frame is handed out twice without an intervening free.
func TestKeep1C01DirectPools(t *testing.T) {
	type poolSpec struct{ start, end mm.Frame }
	specs := [][]poolSpec{
		{{0, 7}, {64, 191}},
		{{5, 5}, {9, 78}, {100, 163}, {1000, 1129}},
		{{3, 66}, {67, 67}, {200, 264}},
	}

	for specIndex, spec := range specs {
		var alloc BitmapAllocator
		inPool := make(map[mm.Frame]bool)
		for _, p := range spec {
			count := uint32(p.end - p.start + 1)
			alloc.pools = append(alloc.pools, framePool{
				startFrame: p.start,
				endFrame:   p.end,
				freeCount:  count,
				freeBitmap: make([]uint64, (count+63)/64),
			})
			alloc.totalPages += count
			for f := p.start; f <= p.end; f++ {
				inPool[f] = true
			}
		}

		rng := rand.New(rand.NewSource(int64(42 + specIndex)))
		held := make(map[mm.Frame]bool)
		var heldList []mm.Frame
		for i := 0; i < 20000; i++ {
			if len(heldList) == 0 || rng.Intn(100) < 55 {
				frame, err := alloc.AllocFrame()
				if err != nil {
					if err != errBitmapAllocOutOfMemory || len(heldList) != len(inPool) {
						t.Fatalf("[spec %d] unexpected error %v with %d/%d frames held", specIndex, err, len(heldList), len(inPool))
					}
					continue
				}
				if !inPool[frame] {
					t.Fatalf("[spec %d] frame %d does not belong to any pool", specIndex, frame)
				}
				if held[frame] {
					t.Fatalf("[spec %d] frame %d handed out while still held", specIndex, frame)
				}
				held[frame] = true
				heldList = append(heldList, frame)
			} else {
				index := rng.Intn(len(heldList))
				frame := heldList[index]
				heldList[index] = heldList[len(heldList)-1]
				heldList = heldList[:len(heldList)-1]
				delete(held, frame)
				if err := alloc.FreeFrame(frame); err != nil {
					t.Fatalf("[spec %d] freeing frame %d: %v", specIndex, frame, err)
				}
				if err := alloc.FreeFrame(frame); err != errBitmapAllocDoubleFree {
					t.Fatalf("[spec %d] expected double free error for frame %d; got %v", specIndex, frame, err)
				}
			}
		}

		// Exhaust: exactly the pool frames can be held.
		for {
			frame, err := alloc.AllocFrame()
			if err != nil {
				break
			}
			if !inPool[frame] || held[frame] {
				t.Fatalf("[spec %d] bad frame %d while exhausting", specIndex, frame)
			}
			held[frame] = true
		}
		if len(held) != len(inPool) {
			t.Fatalf("[spec %d] expected %d frames to be held; got %d", specIndex, len(inPool), len(held))
		}
		if err := alloc.FreeFrame(mm.Frame(0xbadf00d)); err != errBitmapAllocFrameNotManaged {
			t.Fatalf("[spec %d] expected frame-not-managed error; got %v", specIndex, err)
		}
	}
}
