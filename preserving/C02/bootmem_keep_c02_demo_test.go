package pmm

// Demonstration for property C02 (early-boot allocator: ascending unique
// frames, never kernel or reserved RAM).
//
// Copy to kernel/mm/pmm/bootmem_keep_c02_demo_test.go and run with
//   cd kernel && go test -vet=off -count=1 -run TestKeepC02 ./mm/pmm/
//
// The test only relies on what the property states:
//  - every returned frame lies wholly inside an available region,
//  - no returned frame overlaps the kernel image,
//  - every returned frame is strictly above all frames returned before it,
//  - once out-of-memory is reported no frame is returned any more,
//  - replaying n allocations from the reset state (allocCount and
//    lastAllocFrame set to zero, exactly what the bitmap allocator does at
//    hand-over) yields the first n frames again, for every n,
//  - reserveEarlyAllocatorFrames recovers exactly the consumed frames.
// It deliberately does not look at lastAllocFrame after a failed call, does
// not count visitor invocations and does not require a specific choice among
// the permitted frames.

import (
	"testing"
	"unsafe"

	"github.com/ProjectSerenity/firefly/kernel/mm"
	"github.com/ProjectSerenity/firefly/kernel/multiboot"
)

type c02Region struct {
	addr, length uint64
	typ          uint32
}

type c02Map struct {
	name    string
	regions []c02Region
	// exhaustive selects every (start, end) kernel placement inside every
	// usable region instead of a sample.
	exhaustive bool
}

// c02BuildInfo encodes regions as a multiboot info block that only contains a
// memory map tag. The block is backed by a []uint64 so that it is 8-byte
// aligned and writable (VisitMemRegions rewrites unknown entry types).
func c02BuildInfo(regions []c02Region) []uint64 {
	// info header (8) + tag header (8) + mmap header (8) + entries (24 each)
	// + end tag (8)
	words := 1 + 1 + 1 + 3*len(regions) + 1
	buf := make([]uint64, words)
	total := uint64(words * 8)
	tagSize := uint64(8 + 8 + 24*len(regions))

	buf[0] = total              // totalSize | reserved << 32
	buf[1] = 6 | tagSize<<32    // tagMemoryMap | size << 32
	buf[2] = 24 | uint64(0)<<32 // entrySize | entryVersion << 32
	for i, r := range regions {
		buf[3+3*i] = r.addr
		buf[4+3*i] = r.length
		buf[5+3*i] = uint64(r.typ)
	}
	buf[words-1] = 0 | uint64(8)<<32 // end tag
	return buf
}

// c02Usable returns the whole frames [first, pastLast) of an available region.
func c02Usable(r c02Region) (first, pastLast uint64, ok bool) {
	if r.typ != uint32(multiboot.MemAvailable) {
		return 0, 0, false
	}
	first = (r.addr + 4095) / 4096
	pastLast = (r.addr + r.length) / 4096
	return first, pastLast, pastLast > first
}

type c02Kernel struct {
	start, end uintptr
}

func c02Placements(m c02Map) []c02Kernel {
	var out []c02Kernel
	add := func(s, e uint64) {
		// aligned end and an end in the middle of the last page
		out = append(out, c02Kernel{uintptr(s * 4096), uintptr((e + 1) * 4096)})
		out = append(out, c02Kernel{uintptr(s * 4096), uintptr((e+1)*4096 - 0x800)})
	}
	for _, r := range m.regions {
		first, pastLast, ok := c02Usable(r)
		if !ok {
			continue
		}
		if m.exhaustive {
			for s := first; s < pastLast; s++ {
				for e := s; e < pastLast; e++ {
					add(s, e)
				}
			}
			continue
		}
		last := pastLast - 1
		mid := first + (pastLast-first)/2
		add(first, first)    // one page at the start
		add(first, mid)      // start to middle
		add(mid, mid)        // one page in the middle
		add(mid, last)       // middle to end
		add(last, last)      // one page at the end
		add(first, last)     // covering the region completely
		if first+1 <= last { // second page (kernel right after the first frame)
			add(first+1, first+1)
		}
	}
	return out
}

// c02Eligible lists, in ascending order, every frame that lies wholly inside
// an available region and outside the kernel frames [ks, ke].
func c02Eligible(m c02Map, ks, ke mm.Frame) []mm.Frame {
	var out []mm.Frame
	for _, r := range m.regions {
		first, pastLast, ok := c02Usable(r)
		if !ok {
			continue
		}
		for f := first; f < pastLast; f++ {
			if ke+1 > ks && mm.Frame(f) >= ks && mm.Frame(f) <= ke {
				continue
			}
			out = append(out, mm.Frame(f))
		}
	}
	return out
}

// c02MaySkip reports whether the scenario is one of the corner cases in which
// the allocator is known to pass over an eligible frame (which the property
// permits: it only demands that returned frames are eligible and ascending).
// Outside these corner cases the test additionally expects every eligible
// frame to be handed out before out-of-memory is reported.
func c02MaySkip(m c02Map, ks, ke mm.Frame) bool {
	for _, r := range m.regions {
		first, pastLast, ok := c02Usable(r)
		if !ok {
			continue
		}
		// a region that consists of frame 0 only
		if first == 0 && pastLast == 1 {
			return true
		}
		// kernel ends right before the first frame of a region
		if ke+1 > ks && uint64(ke)+1 == first {
			return true
		}
		// memory starts at frame 0 and the kernel starts at frame 1
		if first == 0 && ks == 1 && ke >= ks {
			return true
		}
	}
	return false
}

var c02Maps = []c02Map{
	{
		name: "qemu-like, unaligned end of low memory",
		regions: []c02Region{
			{0x0, 0x9fc00, 1},
			{0x9fc00, 0x400, 2},
			{0xf0000, 0x10000, 2},
			{0x100000, 0x40000, 1},
			{0x140000, 0x20000, 2},
			{0xfffc0000, 0x40000, 2},
		},
	},
	{
		name: "unaligned regions, sub-page regions, non-available types interleaved",
		regions: []c02Region{
			{0x800, 0x800, 1},     // available but smaller than a page
			{0x1000, 0x800, 2},    // reserved
			{0x1800, 0x4c00, 1},   // available, unaligned both ends: frames 2..5
			{0x6400, 0xc00, 3},    // ACPI reclaimable
			{0x7000, 0x800, 1},    // available, aligned start, sub-page
			{0x7800, 0x800, 4},    // NVS
			{0x10800, 0x1000, 1},  // available, one page long but no whole page inside
			{0x11800, 0x800, 2},   // reserved
			{0x12000, 0x6000, 1},  // available, aligned: frames 0x12..0x17
			{0x18000, 0x1000, 4},  // NVS
			{0x19000, 0x1000, 1},  // available, exactly one page
			{0x1a000, 0x1000, 0},  // type 0 (treated as reserved)
			{0x1b000, 0x2fff, 1},  // available: frames 0x1b, 0x1c (last page incomplete)
			{0x1e000, 0x2000, 77}, // unknown type (treated as reserved)
			{0x20001, 0x2fff, 1},  // available: frames 0x21, 0x22 (first page incomplete)
		},
		exhaustive: true,
	},
	{
		name: "adjacent available regions",
		regions: []c02Region{
			{0x1000, 0x4000, 1},
			{0x5000, 0x4000, 1},
			{0x9000, 0x1000, 1},
			{0xa000, 0x2000, 2},
			{0xc000, 0x800, 1},
			{0xc800, 0x3800, 1},
			{0x10000, 0x4000, 1},
		},
		exhaustive: true,
	},
	{
		name: "single page at frame zero",
		regions: []c02Region{
			{0x0, 0x1000, 1},
			{0x1000, 0x1000, 2},
			{0x2000, 0x6000, 1},
		},
		exhaustive: true,
	},
	{
		name: "memory starts at frame zero",
		regions: []c02Region{
			{0x0, 0x5000, 1},
			{0x5000, 0x3000, 2},
			{0x8000, 0x3000, 1},
		},
		exhaustive: true,
	},
	{
		name: "mostly sub-page available memory, one usable region at the end",
		regions: []c02Region{
			{0x400, 0xa00, 1},
			{0x1000, 0x1000, 2},
			{0x2800, 0x1000, 1},
			{0x3800, 0x800, 2},
			{0x4000, 0x2000, 1},
		},
		exhaustive: true,
	},
}

func TestKeepC02BootMemProperty(t *testing.T) {
	scenarios := 0
	for _, m := range c02Maps {
		info := c02BuildInfo(m.regions)
		multiboot.SetInfoPtr(uintptr(unsafe.Pointer(&info[0])))

		placements := c02Placements(m)
		if len(placements) == 0 {
			t.Fatalf("[%s] no usable region to place the kernel in", m.name)
		}

		for _, k := range placements {
			scenarios++
			var alloc BootMemAllocator
			alloc.init(k.start, k.end)
			ks, ke := alloc.kernelStartFrame, alloc.kernelEndFrame

			eligible := c02Eligible(m, ks, ke)
			isEligible := make(map[mm.Frame]bool, len(eligible))
			for _, f := range eligible {
				isEligible[f] = true
			}

			// Allocate until exhaustion.
			var got []mm.Frame
			for {
				frame, err := alloc.AllocFrame()
				if err != nil {
					if err != errBootAllocOutOfMemory {
						t.Fatalf("[%s] kernel %#x-%#x: unexpected error %v", m.name, k.start, k.end, err)
					}
					if frame.Valid() {
						t.Fatalf("[%s] kernel %#x-%#x: out-of-memory reported together with frame %d", m.name, k.start, k.end, frame)
					}
					break
				}
				if !frame.Valid() {
					t.Fatalf("[%s] kernel %#x-%#x: invalid frame returned without an error", m.name, k.start, k.end)
				}
				if !isEligible[frame] {
					t.Fatalf("[%s] kernel %#x-%#x (frames %d-%d): allocation %d returned frame %d which is not wholly inside available RAM or overlaps the kernel",
						m.name, k.start, k.end, ks, ke, len(got), frame)
				}
				if n := len(got); n > 0 && frame <= got[n-1] {
					t.Fatalf("[%s] kernel %#x-%#x: allocation %d returned frame %d which is not above the previous frame %d",
						m.name, k.start, k.end, n, frame, got[n-1])
				}
				got = append(got, frame)
				if len(got) > len(eligible) {
					t.Fatalf("[%s] kernel %#x-%#x: more allocations than eligible frames", m.name, k.start, k.end)
				}
			}

			// Exhaustion is sticky.
			for i := 0; i < 3; i++ {
				if frame, err := alloc.AllocFrame(); err != errBootAllocOutOfMemory || frame.Valid() {
					t.Fatalf("[%s] kernel %#x-%#x: expected out-of-memory after exhaustion; got frame %d, err %v", m.name, k.start, k.end, frame, err)
				}
			}

			if !c02MaySkip(m, ks, ke) && len(got) != len(eligible) {
				t.Fatalf("[%s] kernel %#x-%#x (frames %d-%d): %d frames handed out but %d are eligible",
					m.name, k.start, k.end, ks, ke, len(got), len(eligible))
			}

			// Replay every prefix from the reset state.
			for n := 0; n <= len(got); n++ {
				alloc.allocCount, alloc.lastAllocFrame = 0, 0
				for i := 0; i < n; i++ {
					frame, err := alloc.AllocFrame()
					if err != nil || frame != got[i] {
						t.Fatalf("[%s] kernel %#x-%#x: replay of %d allocations: allocation %d returned frame %d, err %v; want frame %d",
							m.name, k.start, k.end, n, i, frame, err, got[i])
					}
				}
				if alloc.allocCount != uint64(n) {
					t.Fatalf("[%s] kernel %#x-%#x: replay of %d allocations left allocCount at %d", m.name, k.start, k.end, n, alloc.allocCount)
				}
			}
			// ... and one past the end.
			if frame, err := alloc.AllocFrame(); err != errBootAllocOutOfMemory || frame.Valid() {
				t.Fatalf("[%s] kernel %#x-%#x: expected out-of-memory after replaying all allocations; got frame %d, err %v", m.name, k.start, k.end, frame, err)
			}
		}
	}
	t.Logf("checked %d (memory map, kernel placement) scenarios", scenarios)
}

// TestKeepC02HandOver checks that the bitmap allocator recovers exactly the
// frames consumed through the early allocator, for every number of early
// allocations up to exhaustion.
func TestKeepC02HandOver(t *testing.T) {
	saved := bootMemAllocator
	defer func() { bootMemAllocator = saved }()

	for _, m := range c02Maps[1:] {
		info := c02BuildInfo(m.regions)
		multiboot.SetInfoPtr(uintptr(unsafe.Pointer(&info[0])))

		placements := c02Placements(m)
		// a sample is enough here
		for pi := 0; pi < len(placements); pi += 7 {
			k := placements[pi]

			bootMemAllocator = BootMemAllocator{}
			bootMemAllocator.init(k.start, k.end)
			var all []mm.Frame
			for {
				frame, err := earlyAllocFrame()
				if err != nil {
					break
				}
				all = append(all, frame)
			}

			for n := 0; n <= len(all); n++ {
				bootMemAllocator.allocCount, bootMemAllocator.lastAllocFrame = 0, 0
				for i := 0; i < n; i++ {
					if frame, err := earlyAllocFrame(); err != nil || frame != all[i] {
						t.Fatalf("[%s] kernel %#x-%#x: early allocation %d returned frame %d, err %v; want %d", m.name, k.start, k.end, i, frame, err, all[i])
					}
				}

				// One pool per usable region, as setupPoolBitmaps would create.
				var bitmap BitmapAllocator
				for _, r := range m.regions {
					first, pastLast, ok := c02Usable(r)
					if !ok {
						continue
					}
					bitmap.pools = append(bitmap.pools, framePool{
						startFrame: mm.Frame(first),
						endFrame:   mm.Frame(pastLast - 1),
						freeCount:  uint32(pastLast - first),
						freeBitmap: make([]uint64, (pastLast-first+63)/64),
					})
					bitmap.totalPages += uint32(pastLast - first)
				}

				bitmap.reserveEarlyAllocatorFrames()

				if bitmap.reservedPages != uint32(n) {
					t.Fatalf("[%s] kernel %#x-%#x: %d early allocations but %d pages reserved at hand-over", m.name, k.start, k.end, n, bitmap.reservedPages)
				}
				want := make(map[mm.Frame]bool, n)
				for _, f := range all[:n] {
					want[f] = true
				}
				for _, pool := range bitmap.pools {
					for f := pool.startFrame; f <= pool.endFrame; f++ {
						rel := uint64(f - pool.startFrame)
						reserved := pool.freeBitmap[rel>>6]&(uint64(1)<<(63-(rel&63))) != 0
						if reserved != want[f] {
							t.Fatalf("[%s] kernel %#x-%#x: after %d early allocations frame %d reserved=%t; want %t", m.name, k.start, k.end, n, f, reserved, want[f])
						}
					}
				}
				if bootMemAllocator.allocCount != uint64(n) {
					t.Fatalf("[%s] kernel %#x-%#x: hand-over left the early allocation count at %d; want %d", m.name, k.start, k.end, bootMemAllocator.allocCount, n)
				}
			}
		}
	}
}
