package pmm

// Demonstration for property C03 (frame accounting). Copy this file to
// kernel/mm/pmm/keep3_c03_demo_test.go and run
//
//	cd kernel && go test -vet=off -count=1 -run TestKeep3C03FrameAccounting ./mm/pmm/
//
// The test only relies on what the property states: Init succeeds or reports
// out-of-memory; after success exactly the usable frames can be allocated
// before out-of-memory is reported; the free/reserved totals agree at every
// step; bad frees are rejected and change nothing; a good free makes exactly
// that frame allocatable again. It makes no assumption about bitmap layout,
// the placement of the allocator metadata, allocation order among free frames,
// or about what is logged.

import (
	"encoding/binary"
	"math/rand"
	"testing"
	"unsafe"

	"github.com/ProjectSerenity/firefly/kernel"
	"github.com/ProjectSerenity/firefly/kernel/mm"
	"github.com/ProjectSerenity/firefly/kernel/mm/vmm"
	"github.com/ProjectSerenity/firefly/kernel/multiboot"
)

type keep3Region struct {
	physAddr, length uint64
	typ              uint32
}

// keep3Avail describes an available region that covers exactly count whole
// frames beginning at frame start. If ragged is set the region boundaries are
// not page aligned (they stick out by less than a page on either side).
func keep3Avail(start, count uint64, ragged bool) keep3Region {
	r := keep3Region{physAddr: start << 12, length: count << 12, typ: 1}
	if ragged {
		r.physAddr -= 0x300
		r.length += 0x300 + 0x200
	}
	return r
}

func keep3Reserved(start, count uint64, typ uint32) keep3Region {
	return keep3Region{physAddr: start << 12, length: count << 12, typ: typ}
}

// keep3BuildInfo encodes a multiboot info section that only contains a memory
// map tag. The returned slice is 8-byte aligned.
func keep3BuildInfo(regions []keep3Region) []byte {
	tagSize := 16 + 24*len(regions)
	total := 8 + tagSize + 8
	backing := make([]uint64, (total+7)/8+1)
	buf := (*[1 << 20]byte)(unsafe.Pointer(&backing[0]))[: len(backing)*8 : len(backing)*8]

	le := binary.LittleEndian
	le.PutUint32(buf[0:], uint32(total))
	le.PutUint32(buf[8:], 6) // memory map tag
	le.PutUint32(buf[12:], uint32(tagSize))
	le.PutUint32(buf[16:], 24) // entry size
	le.PutUint32(buf[20:], 0)  // entry version
	off := 24
	for _, r := range regions {
		le.PutUint64(buf[off:], r.physAddr)
		le.PutUint64(buf[off+8:], r.length)
		le.PutUint32(buf[off+16:], r.typ)
		off += 24
	}
	// end tag (type 0, size 8)
	le.PutUint32(buf[off:], 0)
	le.PutUint32(buf[off+4:], 8)
	return buf
}

func TestKeep3C03FrameAccounting(t *testing.T) {
	defer func() {
		mapFn = vmm.Map
		reserveRegionFn = vmm.EarlyReserveRegion
		bitmapAllocator = BitmapAllocator{}
		bootMemAllocator = BootMemAllocator{}
	}()

	wordBoundaryRegions := func(ragged bool) []keep3Region {
		return []keep3Region{
			keep3Reserved(0, 16, 2),
			keep3Avail(16, 1, ragged),
			keep3Reserved(17, 15, 2),
			keep3Avail(32, 63, ragged),
			keep3Reserved(95, 33, 4),
			keep3Avail(128, 64, ragged),
			keep3Reserved(192, 64, 3),
			keep3Avail(256, 65, ragged),
			keep3Reserved(321, 191, 77), // unknown type: treated as reserved
			keep3Avail(512, 128, ragged),
			keep3Reserved(640, 384, 2),
			keep3Avail(1024, 129, ragged),
			{physAddr: 2000 << 12, length: 0x800, typ: 1}, // less than a page: unusable
		}
	}

	specs := []struct {
		name                   string
		regions                []keep3Region
		kernelStart, kernelEnd uintptr // byte addresses
		expInitOOM             bool
	}{
		{"word boundaries, kernel outside of RAM", wordBoundaryRegions(false), 4 << 12, 7 << 12, false},
		{"word boundaries, kernel in the middle of a region", wordBoundaryRegions(false), 520<<12 + 0x123, 530<<12 + 0x456, false},
		{"word boundaries, kernel at region start", wordBoundaryRegions(false), 1024 << 12, 1031 << 12, false},
		{"word boundaries, kernel at region end", wordBoundaryRegions(false), 637 << 12, 640 << 12, false},
		{"word boundaries, kernel at start of second region", wordBoundaryRegions(false), 32 << 12, 41 << 12, false},
		{"ragged word boundaries, kernel in the middle", wordBoundaryRegions(true), 300 << 12, 310<<12 + 1, false},
		{"ragged word boundaries, kernel covers a whole region", wordBoundaryRegions(true), 128 << 12, 192 << 12, false},
		{
			"qemu-like map, two pages of allocator state",
			[]keep3Region{
				{0, 654336, 1},
				{0x9fc00, 1024, 2},
				{0xf0000, 65536, 2},
				{0x100000, 133038080, 1},
				{0x7fe0000, 131072, 2},
				{0xfffc0000, 262144, 2},
			},
			0x100000, 0x1fa7c8, false,
		},
		{"single frame of RAM", []keep3Region{keep3Reserved(0, 16, 2), keep3Avail(16, 1, false)}, 4 << 12, 6 << 12, false},
		{"no RAM at all", []keep3Region{keep3Reserved(0, 16, 2), keep3Reserved(100, 16, 3)}, 4 << 12, 6 << 12, false},
		{"kernel uses up all RAM", []keep3Region{keep3Reserved(0, 16, 2), keep3Avail(16, 3, false)}, 16 << 12, 19 << 12, true},
	}

	for _, spec := range specs {
		spec := spec
		t.Run(spec.name, func(t *testing.T) {
			info := keep3BuildInfo(spec.regions)
			multiboot.SetInfoPtr(uintptr(unsafe.Pointer(&info[0])))

			// Independent model of the managed frames.
			managed := make(map[mm.Frame]bool)
			for _, r := range spec.regions {
				if r.typ != 1 {
					continue
				}
				first := (r.physAddr + 0xfff) >> 12
				last := (r.physAddr + r.length) >> 12 // exclusive
				for f := first; f < last; f++ {
					managed[mm.Frame(f)] = true
				}
			}
			kernelFirst := mm.Frame(spec.kernelStart >> 12)
			kernelLast := mm.Frame((spec.kernelEnd+0xfff)>>12) - 1
			kernelManaged := 0
			for f := kernelFirst; f <= kernelLast; f++ {
				if managed[f] {
					kernelManaged++
				}
			}

			// Hooks: hand out page-aligned host memory for the allocator
			// state and record the frames taken by the early allocator.
			var (
				keepAlive   [][]byte
				earlyFrames = make(map[mm.Frame]bool)
			)
			reserveRegionFn = func(size uintptr) (uintptr, *kernel.Error) {
				buf := make([]byte, size+2*mm.PageSize)
				keepAlive = append(keepAlive, buf)
				addr := (uintptr(unsafe.Pointer(&buf[0])) + mm.PageSize - 1) &^ (mm.PageSize - 1)
				// fill with junk: the allocator must not depend on zeroed memory
				for i := range buf {
					buf[i] = 0xa5
				}
				return addr, nil
			}
			mapFn = func(_ mm.Page, frame mm.Frame, _ vmm.PageTableEntryFlag) *kernel.Error {
				if earlyFrames[frame] {
					t.Errorf("early allocator handed out frame %d twice", frame)
				}
				earlyFrames[frame] = true
				return nil
			}

			bitmapAllocator = BitmapAllocator{}
			bootMemAllocator = BootMemAllocator{}

			err := Init(spec.kernelStart, spec.kernelEnd)
			if spec.expInitOOM {
				if err == nil || err.Message != "out of memory" {
					t.Fatalf("expected Init to report out of memory; got %v", err)
				}
				return
			}
			if err != nil {
				t.Fatalf("unexpected Init error: %v", err)
			}

			alloc := &bitmapAllocator
			for f := range earlyFrames {
				if !managed[f] || (f >= kernelFirst && f <= kernelLast) {
					t.Fatalf("early allocation %d is not a usable frame", f)
				}
			}

			if got, exp := int(alloc.totalPages), len(managed); got != exp {
				t.Fatalf("expected total page count %d; got %d", exp, got)
			}
			reserved0 := kernelManaged + len(earlyFrames)
			if got := int(alloc.reservedPages); got != reserved0 {
				t.Fatalf("expected %d reserved pages after init (kernel %d + early %d); got %d", reserved0, kernelManaged, len(earlyFrames), got)
			}
			usable := len(managed) - reserved0

			checkTotals := func(when string, expAllocated int) {
				t.Helper()
				if got, exp := int(alloc.totalPages), len(managed); got != exp {
					t.Fatalf("[%s] total pages changed: expected %d; got %d", when, exp, got)
				}
				if got, exp := int(alloc.reservedPages), reserved0+expAllocated; got != exp {
					t.Fatalf("[%s] expected %d reserved pages; got %d", when, exp, got)
				}
				if got, exp := int(alloc.totalPages-alloc.reservedPages), usable-expAllocated; got != exp {
					t.Fatalf("[%s] expected %d free pages; got %d", when, exp, got)
				}
			}

			isUsable := func(f mm.Frame) bool {
				return managed[f] && !earlyFrames[f] && !(f >= kernelFirst && f <= kernelLast)
			}

			// 1. exactly the usable frames can be allocated.
			allocated := make(map[mm.Frame]bool)
			var order []mm.Frame
			for i := 0; i < usable; i++ {
				f, err := bitmapAllocFrame()
				if err != nil {
					t.Fatalf("allocation %d of %d failed: %v", i, usable, err)
				}
				if !f.Valid() || !isUsable(f) {
					t.Fatalf("allocation %d returned frame %d which is not usable", i, f)
				}
				if allocated[f] {
					t.Fatalf("allocation %d returned frame %d twice", i, f)
				}
				allocated[f] = true
				order = append(order, f)
				checkTotals("alloc", len(allocated))
			}
			for i := 0; i < 2; i++ {
				if f, err := alloc.AllocFrame(); err != errBitmapAllocOutOfMemory || f.Valid() {
					t.Fatalf("expected out of memory after %d allocations; got frame %d, err %v", usable, f, err)
				}
				checkTotals("oom", usable)
			}

			// 2. frees of unmanaged frames are rejected and change nothing.
			var unmanaged []mm.Frame
			for _, f := range []mm.Frame{mm.Frame(0xbadf00d), mm.InvalidFrame, mm.Frame(2000), mm.Frame(1 << 40)} {
				if !managed[f] {
					unmanaged = append(unmanaged, f)
				}
			}
			for f := mm.Frame(0); f < 1200; f++ {
				if !managed[f] {
					unmanaged = append(unmanaged, f)
				}
			}
			for _, f := range unmanaged {
				if err := alloc.FreeFrame(f); err != errBitmapAllocFrameNotManaged {
					t.Fatalf("expected free of unmanaged frame %d to be rejected; got %v", f, err)
				}
				checkTotals("free unmanaged", usable)
			}
			if _, err := alloc.AllocFrame(); err != errBitmapAllocOutOfMemory {
				t.Fatalf("rejected frees made a frame allocatable: %v", err)
			}

			if usable == 0 {
				return
			}

			// 3. free + double free + re-allocation of exactly that frame,
			// for a sample of frames including the pool/word boundaries.
			sample := make(map[mm.Frame]bool)
			for i, f := range order {
				if i < 3 || i >= len(order)-3 || i%97 == 0 || !allocated[f-1] || !allocated[f+1] || f%64 == 0 || f%64 == 63 {
					sample[f] = true
				}
			}
			for f := range sample {
				if err := alloc.FreeFrame(f); err != nil {
					t.Fatalf("unexpected error freeing frame %d: %v", f, err)
				}
				checkTotals("free", usable-1)
				if err := alloc.FreeFrame(f); err != errBitmapAllocDoubleFree {
					t.Fatalf("expected double free of frame %d to be rejected; got %v", f, err)
				}
				checkTotals("double free", usable-1)
				got, err := alloc.AllocFrame()
				if err != nil || got != f {
					t.Fatalf("expected freed frame %d to be the only allocatable frame; got %d, %v", f, got, err)
				}
				checkTotals("realloc", usable)
				if _, err := alloc.AllocFrame(); err != errBitmapAllocOutOfMemory {
					t.Fatalf("expected out of memory after re-allocating %d; got %v", f, err)
				}
			}

			// 4. random alloc/free history checked against a set model.
			rnd := rand.New(rand.NewSource(int64(len(order))*7919 + 3))
			live := append([]mm.Frame(nil), order...)
			var freed []mm.Frame
			steps := 4000
			if usable > 5000 {
				steps = 1500
			}
			for step := 0; step < steps; step++ {
				switch op := rnd.Intn(10); {
				case op < 4 && len(live) > 0: // free a live frame
					i := rnd.Intn(len(live))
					f := live[i]
					live[i] = live[len(live)-1]
					live = live[:len(live)-1]
					if err := alloc.FreeFrame(f); err != nil {
						t.Fatalf("[step %d] unexpected error freeing %d: %v", step, f, err)
					}
					delete(allocated, f)
					freed = append(freed, f)
				case op < 8: // allocate
					f, err := alloc.AllocFrame()
					if len(live) == usable {
						if err != errBitmapAllocOutOfMemory {
							t.Fatalf("[step %d] expected out of memory; got %d, %v", step, f, err)
						}
						break
					}
					if err != nil {
						t.Fatalf("[step %d] unexpected allocation error with %d free frames: %v", step, usable-len(live), err)
					}
					if !isUsable(f) || allocated[f] {
						t.Fatalf("[step %d] allocator returned frame %d which is not free", step, f)
					}
					allocated[f] = true
					live = append(live, f)
					for i := range freed {
						if freed[i] == f {
							freed[i] = freed[len(freed)-1]
							freed = freed[:len(freed)-1]
							break
						}
					}
				case op == 8 && len(freed) > 0: // double free
					f := freed[rnd.Intn(len(freed))]
					if err := alloc.FreeFrame(f); err != errBitmapAllocDoubleFree {
						t.Fatalf("[step %d] expected double free of %d to be rejected; got %v", step, f, err)
					}
				default: // unmanaged free
					f := unmanaged[rnd.Intn(len(unmanaged))]
					if err := alloc.FreeFrame(f); err != errBitmapAllocFrameNotManaged {
						t.Fatalf("[step %d] expected free of unmanaged %d to be rejected; got %v", step, f, err)
					}
				}
				checkTotals("random", len(live))
			}

			// 5. drain: exactly the frames that are free right now can be
			// allocated and they are exactly the frames the model says.
			for remaining := usable - len(live); remaining > 0; remaining-- {
				f, err := alloc.AllocFrame()
				if err != nil {
					t.Fatalf("drain: unexpected error with %d frames left: %v", remaining, err)
				}
				if !isUsable(f) || allocated[f] {
					t.Fatalf("drain: frame %d is not free", f)
				}
				allocated[f] = true
			}
			if len(allocated) != usable {
				t.Fatalf("drain: expected %d allocated frames; got %d", usable, len(allocated))
			}
			if _, err := alloc.AllocFrame(); err != errBitmapAllocOutOfMemory {
				t.Fatalf("drain: expected out of memory; got %v", err)
			}
			checkTotals("drain", usable)
			_ = keepAlive
		})
	}
}
